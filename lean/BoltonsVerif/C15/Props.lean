import BoltonsVerif.C15.Proofs
import BoltonsVerif.C15.RoundingCarrier
import BoltonsVerif.C15.SessionProofs
import BoltonsVerif.C15.B64Proofs
/-
C15 — property theorems for the model of `backoff_iter` / `backoff`.

Statement (properties.jsonl): for valid parameters (0 ≤ start ≤ stop, stop > 0, factor ≥ 1)
backoff/backoff_iter without jitter yield start first (a start of 0 being followed by
min(1, stop)), then values that never decrease, grow by exactly factor per step until they
would pass stop and then stay at stop, and never exceed stop; exactly count values are
produced when count is given (endlessly for 'repeat' in backoff_iter), and with the default
count (factor > 1) the last value is stop.  With jitter j in [-1, 1] every value lies between
the un-jittered value b at that position and b*(1-j), inclusive, and parameters outside the
valid ranges raise ValueError before anything is yielded.

Two layers.
* ORDER LAYER (`section Order`): any carrier with a linear order and lawful `==` — the laws
  finite IEEE doubles obey — where `factor ≥ 1` is only used as "multiplying a delay in
  (0, stop] by factor does not shrink it" (`Laws.infl`; rounding is monotone, so IEEE
  multiplication has it).  Rounding itself is not modelled: `cur * factor` is whatever the
  carrier's `*` returns.  Shape, monotonicity, cap, length, endlessness, default-count and
  validation clauses are proved here, for every position / count / draw stream / fuel.
* EXACT LAYER (`section Exact`): `Rat`.  The order-layer hypotheses are discharged from the
  plain `0 ≤ start ≤ stop`, `0 < stop`, `1 ≤ factor`; closed form `min (start·factorⁱ) stop`;
  the default count is always defined for `factor > 1` (Archimedean argument); jitter bounds.

`seqAt factor stop start i` is the un-jittered delay at position `i`; the value yielded at
position `i` is `emit jitter (r i) (seqAt … i)` where `r i` is the i-th `random.random()` draw.
`fuel` only bounds the model's default-count loop (`fuel_irrelevant`).
-/
set_option linter.unusedSectionVars false
namespace C15

section Order
variable {α : Type} [LE α] [LT α] [DecidableLE α] [DecidableLT α] [BEq α] [LawfulBEq α]
  [Std.IsLinearOrder α] [Std.LawfulOrderLT α]
  [Mul α] [Sub α] [Neg α] [OfNat α 0] [OfNat α 1]

/-- the first un-jittered value is `start` -/
theorem first_is_start (factor stop start : α) : seqAt factor stop start 0 = start := rfl

/-- a start of 0 is followed by `min(1, stop)` -/
theorem zero_then_min_one_stop (factor stop : α) :
    seqAt factor stop 0 1 = if stop < 1 then stop else 1 := by
  show next factor stop 0 = _
  exact next_zero factor stop

/-- values never decrease -/
theorem monotone {factor stop start : α} (hv : Valid factor stop start) {i j : Nat} (h : i ≤ j) :
    seqAt factor stop start i ≤ seqAt factor stop start j := seqAt_mono hv h

/-- values never exceed `stop` (and are never negative) -/
theorem le_stop {factor stop start : α} (hv : Valid factor stop start) (i : Nat) :
    0 ≤ seqAt factor stop start i ∧ seqAt factor stop start i ≤ stop := seqAt_range hv i

/-- once at `stop`, the sequence stays at `stop` -/
theorem stays_at_stop {factor stop start : α} (hv : Valid factor stop start) {i j : Nat}
    (h : seqAt factor stop start i = stop) (hij : i ≤ j) : seqAt factor stop start j = stop := by
  have := seqAt_stays hv h (j - i)
  rwa [show i + (j - i) = j by omega] at this

/-- a non-zero value is followed by itself times `factor`, unless that would pass `stop`,
    in which case it is followed by `stop`  (i.e. by `min (value * factor) stop`) -/
theorem grows_by_factor_until_cap {factor stop start : α} (hv : Valid factor stop start) (i : Nat)
    (hne : seqAt factor stop start i ≠ 0) :
    seqAt factor stop start (i + 1) =
      if stop < seqAt factor stop start i * factor then stop else seqAt factor stop start i * factor := by
  have hr := seqAt_range hv i
  rw [seqAt_succ]
  exact next_of_ne_zero hv.toLaws hr.1 hr.2 hne

/-- with jitter off (`False` / `0`) the value yielded at a position is the un-jittered delay,
    whatever the random source does (it is not consulted) -/
theorem jitter_off_yields_delay (p : Params α) (hj : p.jitter = 0) (r : Nat → α) (i : Nat) :
    yieldAt r p i = seqAt p.factor p.stop p.start i := by
  simp only [yieldAt, hj, emit_off]

/-- exactly `count` values are produced when `count ≥ 0` is given, and the value at
    position `i` is the (jittered) delay at position `i` -/
theorem length_eq_count {p : Params α} (hp : ValidParams p) (hj : JitterOk p) (k : Int) (hk : 0 ≤ k)
    (hc : p.count = .num k) (fuel : Nat) (r : Nat → α) :
    ∃ vals, backoffIter fuel r p = .finite vals ∧ vals.length = k.toNat ∧
      ∀ i, i < k.toNat → vals[i]? = some (yieldAt r p i) := by
  refine ⟨valsFrom p.factor p.stop p.jitter r k.toNat 0 p.start, ?_, valsFrom_length .., ?_⟩
  · have hk' : ¬ k < 0 := by omega
    simp [backoffIter, rangeBad_false hp, resolveCount, hc, hk', jitterBad_false hj]
  · intro i hi
    rw [valsFrom_getElem? _ _ _ _ _ _ _ _ hi]; simp

/-- with `count='repeat'` backoff_iter never ends: there is a value at every position,
    and it is the (jittered) delay at that position -/
theorem repeat_is_infinite {p : Params α} (hp : ValidParams p) (hj : JitterOk p)
    (hc : p.count = .rep) (fuel : Nat) (r : Nat → α) :
    backoffIter fuel r p = .endless (yieldAt r p) := by
  simp [backoffIter, rangeBad_false hp, resolveCount, hc, jitterBad_false hj]

/-- the default count, whenever the counting loop finishes with `n`: `n ≥ 1`, the un-jittered
    sequence is at `stop` at the last position `n - 1` and strictly below `stop` before it -/
theorem default_count_last_is_stop {p : Params α} (hp : ValidParams p) (hc : p.count = .dflt)
    (fuel n : Nat) (h : resolveCount fuel p = .num n) :
    1 ≤ n ∧ seqAt p.factor p.stop p.start (n - 1) = p.stop ∧
      ∀ i, i < n - 1 → seqAt p.factor p.stop p.start i < p.stop := by
  unfold resolveCount at h
  rw [hc] at h
  simp only at h
  split at h <;> try (simp at h)
  rename_i m hm
  subst h
  have := defaultCount_spec hp.valid.toLaws fuel p.start 1 m hp.valid.start_nonneg hm
  rwa [cap_of_le hp.valid.start_le_stop] at this

/-- the outcome with the default count: the values are the (jittered) delays at positions
    `0 … n-1`, where `n - 1` is the first position at which the un-jittered delay is `stop`;
    so without jitter the last value is `stop`.  (`ValueError` = the counting loop saw a
    step that makes no progress; `fuelOut` = model fuel too small.) -/
theorem default_count_outcome {p : Params α} (hp : ValidParams p) (hj : JitterOk p)
    (hc : p.count = .dflt) (fuel : Nat) (r : Nat → α) :
    backoffIter fuel r p = .valueError ∨ backoffIter fuel r p = .fuelOut ∨
    ∃ n, 1 ≤ n ∧ backoffIter fuel r p = .finite ((List.range n).map (yieldAt r p)) ∧
      seqAt p.factor p.stop p.start (n - 1) = p.stop ∧
      (p.jitter = 0 → ((List.range n).map (yieldAt r p)).getLast? = some p.stop) := by
  cases hres : resolveCount fuel p with
  | bad => left; simp [backoffIter, rangeBad_false hp, hres]
  | fuelOut => right; left; simp [backoffIter, rangeBad_false hp, hres]
  | rep => unfold resolveCount at hres; rw [hc] at hres; simp only at hres; split at hres <;> simp at hres
  | num n =>
    right; right
    have hd := default_count_last_is_stop hp hc fuel n hres
    refine ⟨n, hd.1, ?_, hd.2.1, ?_⟩
    · simp [backoffIter, rangeBad_false hp, hres, jitterBad_false hj, valsFrom_eq_map]
    · intro hj0
      obtain ⟨m, rfl⟩ : ∃ m, n = m + 1 := ⟨n - 1, by omega⟩
      rw [List.range_succ, List.map_append, List.getLast?_append]
      simp only [List.map_cons, List.map_nil, List.getLast?_singleton, Option.some_or]
      simp only [yieldAt, hj0, emit_off]
      have := hd.2.1
      simp only [Nat.add_sub_cancel] at this
      rw [this]

/-- parameters outside the valid ranges raise ValueError; as an `Outcome`, `valueError`
    carries no values: nothing is yielded before it -/
theorem invalid_raises (p : Params α) (fuel : Nat) (r : Nat → α)
    (h : p.start < 0 ∨ p.factor < 1 ∨ p.stop = 0 ∨ p.stop < p.start ∨ (∃ k, p.count = .num k ∧ k < 0)) :
    backoffIter fuel r p = .valueError := by
  by_cases hb : rangeBad p = true
  · simp [backoffIter, hb]
  · have hb' : rangeBad p = false := by simpa using hb
    rcases h with h | h | h | h | ⟨k, hk, hneg⟩
    · simp [rangeBad, h] at hb'
    · simp [rangeBad, h] at hb'
    · simp [rangeBad, h] at hb'
    · simp [rangeBad, h] at hb'
    · simp [backoffIter, hb', resolveCount, hk, hneg]

/-- `stop > 0` is enforced too: a negative `stop` is below every admissible `start` -/
theorem negative_stop_raises (p : Params α) (fuel : Nat) (r : Nat → α) (h : p.stop < 0) :
    backoffIter fuel r p = .valueError := by
  apply invalid_raises
  by_cases h0 : p.start < 0
  · exact Or.inl h0
  · right; right; right; left; grind

/-- a jitter outside `[-1, 1]` raises ValueError (unless the model ran out of fuel first) -/
theorem bad_jitter_raises (p : Params α) (fuel : Nat) (r : Nat → α)
    (hne : p.jitter ≠ 0) (h : ¬ (-1 ≤ p.jitter ∧ p.jitter ≤ 1)) :
    backoffIter fuel r p = .valueError ∨ backoffIter fuel r p = .fuelOut := by
  have hjb : jitterBad p = true := by
    unfold jitterBad
    have : ¬ (p.jitter == 0) = true := by simpa using hne
    simp only [this, Bool.not_false, Bool.true_and, Bool.not_eq_eq_eq_not, Bool.not_true,
      Bool.and_eq_false_iff, decide_eq_false_iff_not]
    grind
  unfold backoffIter
  split
  · left; rfl
  · split <;> simp [hjb]

/-- valid parameters with an explicit count (or 'repeat') never raise -/
theorem valid_never_raises {p : Params α} (hp : ValidParams p) (hj : JitterOk p)
    (hc : p.count = .rep ∨ ∃ k, p.count = .num k ∧ 0 ≤ k) (fuel : Nat) (r : Nat → α) :
    backoffIter fuel r p ≠ .valueError ∧ backoffIter fuel r p ≠ .fuelOut := by
  rcases hc with hc | ⟨k, hc, hk⟩
  · rw [repeat_is_infinite hp hj hc]; simp
  · obtain ⟨vals, hv, _⟩ := length_eq_count hp hj k hk hc fuel r
    rw [hv]; simp

/-- more fuel never changes an outcome other than `fuelOut` -/
theorem fuel_irrelevant (p : Params α) (fuel d : Nat) (r : Nat → α)
    (h : backoffIter fuel r p ≠ .fuelOut) : backoffIter (fuel + d) r p = backoffIter fuel r p := by
  have hres : resolveCount fuel p ≠ .fuelOut → resolveCount (fuel + d) p = resolveCount fuel p := by
    intro hr
    unfold resolveCount at hr ⊢
    cases hc : p.count with
    | dflt =>
      simp only [hc] at hr ⊢
      have : defaultCount p.factor p.stop fuel p.start 1 ≠ .fuelOut := by
        intro e; rw [e] at hr; exact hr rfl
      rw [defaultCount_fuel_mono _ _ _ _ _ _ this]
    | rep => rfl
    | num k => rfl
  unfold backoffIter at h ⊢
  by_cases hb : rangeBad p = true
  · simp [hb]
  · simp only [hb] at h ⊢
    have : resolveCount fuel p ≠ .fuelOut := by
      intro e; rw [e] at h; exact h rfl
    rw [hres this]

/-- `backoff` refuses `'repeat'` … -/
theorem backoff_repeat_rejected (p : Params α) (hc : p.count = .rep) (fuel : Nat) (r : Nat → α) :
    backoff fuel r p = .valueError := by
  simp [backoff, hc]

/-- … and is `list(backoff_iter(…))` otherwise -/
theorem backoff_eq_iter (p : Params α) (hc : p.count ≠ .rep) (fuel : Nat) (r : Nat → α) :
    backoff fuel r p = backoffIter fuel r p := by
  unfold backoff
  split
  · contradiction
  · rfl

/-- if the un-jittered sequence reaches `stop` at some position `k` and every step below
    `stop` makes progress, the default count is defined as soon as `fuel > k` -/
theorem default_count_defined_of_reaches {p : Params α} (hp : ValidParams p) (hc : p.count = .dflt)
    (h01 : (1 : α) ≠ 0) (strict : ∀ x : α, 0 < x → x < p.stop → x * p.factor ≠ x)
    (k fuel : Nat) (hk : seqAt p.factor p.stop p.start k = p.stop) (hf : k + 1 ≤ fuel) :
    ∃ n, resolveCount fuel p = .num n := by
  obtain ⟨m, hm⟩ := defaultCount_terminates hp.valid.toLaws h01 strict k p.start 1 fuel
    hp.valid.start_nonneg (by rwa [cap_of_le hp.valid.start_le_stop]) hf
  exact ⟨m, by simp [resolveCount, hc, hm]⟩

/-! #### what the correspondence's acceptance mode rests on -/

/-- jitter only scales the values: for an acceptable `jitter` the call as made and the same call
    with jitter off (any draws) have the same kind of outcome - ValueError, the same number of
    values, endless - and every value of the former is `emit` applied to the un-jittered delay
    at its position.  (The driver judges a call with jitter by running it with jitter off and
    testing every observed value against the delay at its position.) -/
theorem jitter_only_scales (p : Params α) (hj : JitterOk p) (fuel : Nat) (r r' : Nat → α) :
    match backoffIter fuel r' { p with jitter := 0 } with
    | .valueError => backoffIter fuel r p = .valueError
    | .fuelOut => backoffIter fuel r p = .fuelOut
    | .finite bs => ∃ n, bs = (List.range n).map (seqAt p.factor p.stop p.start) ∧
        backoffIter fuel r p = .finite ((List.range n).map (yieldAt r p))
    | .endless b => b = seqAt p.factor p.stop p.start ∧ backoffIter fuel r p = .endless (yieldAt r p) := by
  have hjb := jitterBad_false hj
  have hjb0 : jitterBad { p with jitter := (0 : α) } = false := jitterBad_false (Or.inl rfl)
  unfold backoffIter
  rw [rangeBad_jitter, resolveCount_jitter, hjb, hjb0]
  by_cases hb : rangeBad p = true
  · simp [hb]
  · simp only [hb]
    cases resolveCount fuel p with
    | bad => simp
    | fuelOut => simp
    | rep => simp [emit_off]
    | num n =>
      simp only [Bool.false_eq_true, if_false]
      exact ⟨n, by simp [valsFrom_eq_map, emit_off], by simp [valsFrom_eq_map]⟩

/-- the statement fixes the LAST value of a default-count run, not the number of values: whenever
    the driver accepts an observed number `m` of values for `count=None` (`acceptCount` changes the
    parameters), `m` is at least the minimal default count, the call is judged as `count=m`, its
    values are the (jittered) delays at positions `0 … m-1`, and the un-jittered delay at the last
    position is `stop` - so every clause of the statement holds for the accepted run.  A smaller
    `m` is never accepted (`acceptCount` returns `p`: the run is compared with the minimal one). -/
theorem accepted_default_count {p : Params α} (hp : ValidParams p) (hj : JitterOk p) (hc : p.count = .dflt)
    (fuel m : Nat) (r : Nat → α) :
    acceptCount fuel p m = p ∨
    ∃ n, resolveCount fuel p = .num n ∧ n ≤ m ∧ 1 ≤ m ∧
      backoffIter fuel r (acceptCount fuel p m) = .finite ((List.range m).map (yieldAt r p)) ∧
      seqAt p.factor p.stop p.start (m - 1) = p.stop ∧
      (p.jitter = 0 → ((List.range m).map (yieldAt r p)).getLast? = some p.stop) := by
  cases hres : resolveCount fuel p with
  | bad => left; simp [acceptCount, hc, hres]
  | fuelOut => left; simp [acceptCount, hc, hres]
  | rep => left; simp [acceptCount, hc, hres]
  | num n =>
    by_cases hnm : n ≤ m
    · right
      have hd := default_count_last_is_stop hp hc fuel n hres
      have hm1 : 1 ≤ m := by omega
      have hstop : seqAt p.factor p.stop p.start (m - 1) = p.stop := by
        have := seqAt_stays hp.valid hd.2.1 (m - n)
        rwa [show n - 1 + (m - n) = m - 1 by omega] at this
      have hacc : acceptCount fuel p m = { p with count := .num (m : Int) } := by
        simp [acceptCount, hc, hres, hnm]
      refine ⟨n, rfl, hnm, hm1, ?_, hstop, ?_⟩
      · rw [hacc]
        have hp' : ValidParams ({ p with count := .num (m : Int) } : Params α) := ⟨hp.valid, hp.factor_ge⟩
        have hj' : JitterOk ({ p with count := .num (m : Int) } : Params α) := hj
        have hk : ¬ ((m : Int) < 0) := by omega
        simp [backoffIter, rangeBad_false hp', resolveCount, jitterBad_false hj', valsFrom_eq_map, hk]
      · intro hj0
        obtain ⟨k, rfl⟩ : ∃ k, m = k + 1 := ⟨m - 1, by omega⟩
        rw [List.range_succ, List.map_append, List.getLast?_append]
        simp only [List.map_cons, List.map_nil, List.getLast?_singleton, Option.some_or]
        simp only [yieldAt, hj0, emit_off]
        simp only [Nat.add_sub_cancel] at hstop
        rw [hstop]
    · left; simp [acceptCount, hc, hres, hnm]

end Order
section Exact

/-- the order-layer hypotheses follow from the statement's plain ones over `Rat` -/
theorem rat_validParams (p : Params Rat) (h0 : 0 ≤ p.start) (h1 : p.start ≤ p.stop) (hs : 0 < p.stop)
    (hf : 1 ≤ p.factor) : ValidParams p :=
  ⟨rat_valid h0 h1 hs hf, hf⟩

/-- all shape clauses at once, over `Rat`, from the statement's hypotheses only -/
theorem exact_shape (factor stop start : Rat) (h0 : 0 ≤ start) (h1 : start ≤ stop) (hs : 0 < stop)
    (hf : 1 ≤ factor) :
    seqAt factor stop start 0 = start ∧
    (start = 0 → seqAt factor stop start 1 = min 1 stop) ∧
    (∀ i, seqAt factor stop start i ≤ seqAt factor stop start (i + 1)) ∧
    (∀ i, seqAt factor stop start i ≤ stop) ∧
    (∀ i, seqAt factor stop start i ≠ 0 →
      seqAt factor stop start (i + 1) = min (seqAt factor stop start i * factor) stop) ∧
    (∀ i j, seqAt factor stop start i = stop → i ≤ j → seqAt factor stop start j = stop) := by
  have hv := rat_valid h0 h1 hs hf
  refine ⟨rfl, ?_, fun i => monotone hv (Nat.le_succ i), fun i => (le_stop hv i).2, ?_,
    fun i j h hij => stays_at_stop hv h hij⟩
  · intro h; subst h
    rw [zero_then_min_one_stop]; split <;> grind
  · intro i hne
    rw [grows_by_factor_until_cap hv i hne]; split <;> grind

/-- closed form for a positive start: `min (start · factorⁱ) stop` -/
theorem closed_form_pos (factor stop start : Rat) (h0 : 0 < start) (h1 : start ≤ stop) (hf : 1 ≤ factor)
    (i : Nat) : seqAt factor stop start i = min (start * factor ^ i) stop :=
  seqAt_closed_pos (rat_valid (Rat.le_of_lt h0) h1 (by grind) hf) hf h0 i

/-- closed form for start 0: `0`, then `min (factorⁱ) stop` -/
theorem closed_form_zero (factor stop : Rat) (hs : 0 < stop) (hf : 1 ≤ factor) (i : Nat) :
    seqAt factor stop 0 (i + 1) = min (factor ^ i) stop := by
  show seqAt factor stop (next factor stop 0) i = _
  rw [next_zero]
  have hp := one_le_pow factor i hf
  by_cases h : stop < 1
  · simp only [h, if_true]
    rw [closed_form_pos factor stop stop hs (Rat.le_refl) hf]
    have := Rat.mul_le_mul_of_nonneg_left hp (Rat.le_of_lt hs)
    grind
  · simp only [h, if_false]
    rw [closed_form_pos factor stop 1 (by decide) (by grind) hf, Rat.one_mul]

/-- with `factor > 1` the un-jittered sequence reaches `stop` -/
theorem reaches_stop (factor stop start : Rat) (h0 : 0 ≤ start) (h1 : start ≤ stop) (hs : 0 < stop)
    (hf : 1 < factor) : ∃ k, seqAt factor stop start k = stop := by
  by_cases hz : start = 0
  · subst hz
    obtain ⟨k, hk⟩ := pow_reaches factor stop 1 hf (by decide)
    refine ⟨k + 1, ?_⟩
    rw [closed_form_zero factor stop hs (Rat.le_of_lt hf)]
    grind
  · obtain ⟨k, hk⟩ := pow_reaches factor stop start hf (by grind)
    refine ⟨k, ?_⟩
    rw [closed_form_pos factor stop start (by grind) h1 (Rat.le_of_lt hf)]
    grind

/-- with the default count and `factor > 1`: there is one `n ≥ 1` such that, for every
    sufficient fuel, exactly the delays at positions `0 … n-1` are produced, position `n-1`
    is the first one at `stop`; so without jitter the last value is `stop`.
    In particular the call neither raises nor depends on the fuel. -/
theorem default_count_reaches_stop (p : Params Rat) (h0 : 0 ≤ p.start) (h1 : p.start ≤ p.stop)
    (hs : 0 < p.stop) (hf : 1 < p.factor) (hj : -1 ≤ p.jitter ∧ p.jitter ≤ 1) (hc : p.count = .dflt)
    (r : Nat → Rat) :
    ∃ n fuel₀, 1 ≤ n ∧
      (∀ fuel, fuel₀ ≤ fuel → backoffIter fuel r p = .finite ((List.range n).map (yieldAt r p))) ∧
      seqAt p.factor p.stop p.start (n - 1) = p.stop ∧
      (∀ i, i < n - 1 → seqAt p.factor p.stop p.start i < p.stop) ∧
      (p.jitter = 0 → ((List.range n).map (yieldAt r p)).getLast? = some p.stop) := by
  have hp := rat_validParams p h0 h1 hs (Rat.le_of_lt hf)
  have hjo : JitterOk p := Or.inr hj
  obtain ⟨k, hk⟩ := reaches_stop p.factor p.stop p.start h0 h1 hs hf
  obtain ⟨n, hn⟩ := default_count_defined_of_reaches hp hc (by decide)
    (fun x hx _ => rat_strict hf x hx) k (k + 1) hk (Nat.le_refl _)
  have hd := default_count_last_is_stop hp hc (k + 1) n hn
  have hout : backoffIter (k + 1) r p = .finite ((List.range n).map (yieldAt r p)) := by
    simp [backoffIter, rangeBad_false hp, hn, jitterBad_false hjo, valsFrom_eq_map]
  refine ⟨n, k + 1, hd.1, ?_, hd.2.1, hd.2.2, ?_⟩
  · intro fuel hfu
    obtain ⟨d, rfl⟩ : ∃ d, fuel = (k + 1) + d := ⟨fuel - (k + 1), by omega⟩
    rw [fuel_irrelevant p (k + 1) d r (by rw [hout]; simp), hout]
  · intro hj0
    rcases default_count_outcome hp hjo hc (k + 1) r with h | h | ⟨m, _, hm, _, hlast⟩
    · rw [hout] at h; simp at h
    · rw [hout] at h; simp at h
    · rw [hout] at hm
      have : (List.range n).map (yieldAt r p) = (List.range m).map (yieldAt r p) := by simpa using hm
      rw [this]; exact hlast hj0

/-- the default count in closed form (positive start): it is `n = 1 + k` for the least `k` with
    `stop ≤ start · factorᵏ`, i.e. `1 + ⌈log_factor (stop / start)⌉` computed exactly — what the
    original floating-point logarithm only approximated -/
theorem default_count_is_log_ceiling (p : Params Rat) (h0 : 0 < p.start) (h1 : p.start ≤ p.stop)
    (hf : 1 ≤ p.factor) (hc : p.count = .dflt) (fuel n : Nat) (h : resolveCount fuel p = .num n) :
    1 ≤ n ∧ p.stop ≤ p.start * p.factor ^ (n - 1) ∧ ∀ i, i < n - 1 → p.start * p.factor ^ i < p.stop := by
  have hp := rat_validParams p (Rat.le_of_lt h0) h1 (by grind) hf
  obtain ⟨hn, hlast, hbefore⟩ := default_count_last_is_stop hp hc fuel n h
  refine ⟨hn, ?_, ?_⟩
  · rw [closed_form_pos p.factor p.stop p.start h0 h1 hf] at hlast
    grind
  · intro i hi
    have := hbefore i hi
    rw [closed_form_pos p.factor p.stop p.start h0 h1 hf] at this
    grind

/-- jitter: with `j ∈ [-1, 1]` and every draw in `[0, 1)`, the value yielded at any position
    lies between the un-jittered value `b` at that position and `b * (1 - j)`, inclusive -/
theorem jitter_bounds (p : Params Rat) (h0 : 0 ≤ p.start) (h1 : p.start ≤ p.stop) (hs : 0 < p.stop)
    (hf : 1 ≤ p.factor) (r : Nat → Rat) (hr : ∀ i, 0 ≤ r i ∧ r i < 1) (i : Nat) :
    (0 ≤ p.jitter → p.jitter ≤ 1 →
      seqAt p.factor p.stop p.start i * (1 - p.jitter) ≤ yieldAt r p i ∧
      yieldAt r p i ≤ seqAt p.factor p.stop p.start i) ∧
    (-1 ≤ p.jitter → p.jitter ≤ 0 →
      seqAt p.factor p.stop p.start i ≤ yieldAt r p i ∧
      yieldAt r p i ≤ seqAt p.factor p.stop p.start i * (1 - p.jitter)) := by
  have hb := (le_stop (rat_valid h0 h1 hs hf) i).1
  have := emit_bounds p.jitter (r i) _ hb (hr i).1 (Rat.le_of_lt (hr i).2)
  exact ⟨fun h _ => this.1 h, fun _ h => this.2 h⟩

/-- validation, both directions, for an explicit count or 'repeat': ValueError exactly when
    some parameter is outside its valid range -/
theorem validation_iff (p : Params Rat) (hc : p.count ≠ .dflt) (fuel : Nat) (r : Nat → Rat) :
    backoffIter fuel r p = .valueError ↔
      ¬ (0 ≤ p.start ∧ p.start ≤ p.stop ∧ 0 < p.stop ∧ 1 ≤ p.factor ∧
         (∀ k, p.count = .num k → 0 ≤ k) ∧ -1 ≤ p.jitter ∧ p.jitter ≤ 1) := by
  constructor
  · intro h ⟨h0, h1, hs, hf, hk, hj1, hj2⟩
    have hp := rat_validParams p h0 h1 hs hf
    have hcc : p.count = .rep ∨ ∃ k, p.count = .num k ∧ 0 ≤ k := by
      cases hcnt : p.count with
      | dflt => exact absurd hcnt hc
      | rep => exact Or.inl rfl
      | num k => exact Or.inr ⟨k, rfl, hk k hcnt⟩
    exact (valid_never_raises hp (Or.inr ⟨hj1, hj2⟩) hcc fuel r).1 h
  · intro h
    by_cases hr : p.start < 0 ∨ p.factor < 1 ∨ p.stop = 0 ∨ p.stop < p.start ∨ (∃ k, p.count = .num k ∧ k < 0)
    · exact invalid_raises p fuel r hr
    · have hj : ¬ (-1 ≤ p.jitter ∧ p.jitter ≤ 1) := by
        intro hj
        apply h
        refine ⟨by grind, by grind, by grind, by grind, ?_, hj.1, hj.2⟩
        intro k hk
        by_cases hneg : k < 0
        · exact absurd (Or.inr (Or.inr (Or.inr (Or.inr ⟨k, hk, hneg⟩)))) hr
        · omega
      have hne : p.jitter ≠ 0 := by
        intro e; apply hj; rw [e]; exact ⟨by decide, by decide⟩
      rcases bad_jitter_raises p fuel r hne hj with h' | h'
      · exact h'
      · exfalso
        have hres : resolveCount fuel p ≠ .fuelOut := by
          unfold resolveCount
          cases hcnt : p.count with
          | dflt => exact absurd hcnt hc
          | rep => simp
          | num k => simp only; split <;> simp
        unfold backoffIter at h'
        split at h'
        · simp at h'
        · cases hres' : resolveCount fuel p with
          | bad => simp [hres'] at h'
          | fuelOut => exact hres hres'
          | rep => simp only [hres'] at h'; split at h' <;> simp at h'
          | num n => simp only [hres'] at h'; split at h' <;> simp at h'

/-! #### the jitter clause as the correspondence judges it -/

/-- `jitAccept` with no slack IS the statement's clause: the value lies between the un-jittered
    value `b` and `b * (1 - j)`, inclusive -/
theorem jitAccept_iff (b j w : Rat) :
    jitAccept 0 b j w = true ↔ (min b (b * (1 - j)) ≤ w ∧ w ≤ max b (b * (1 - j))) := by
  unfold jitAccept
  simp only [Bool.and_eq_true, decide_eq_true_eq]
  constructor <;> intro h <;> constructor <;> grind

/-- slack only widens the interval (the `F` instance allows `tolF`, the `Q` instance nothing) -/
theorem jitAccept_tol_mono (tol b j w : Rat) (ht : 0 ≤ tol) (h : jitAccept 0 b j w = true) :
    jitAccept tol b j w = true := by
  unfold jitAccept at h ⊢
  simp only [Bool.and_eq_true, decide_eq_true_eq] at h ⊢
  constructor <;> grind

/-- every value the model yields is accepted: for valid parameters, `j ∈ [-1, 1]` and draws in
    `[0, 1)` the value at any position passes the test against the un-jittered delay there -/
theorem model_values_accepted (p : Params Rat) (h0 : 0 ≤ p.start) (h1 : p.start ≤ p.stop) (hs : 0 < p.stop)
    (hf : 1 ≤ p.factor) (hj : -1 ≤ p.jitter ∧ p.jitter ≤ 1) (r : Nat → Rat) (hr : ∀ i, 0 ≤ r i ∧ r i < 1)
    (i : Nat) : jitAccept 0 (seqAt p.factor p.stop p.start i) p.jitter (yieldAt r p i) = true := by
  rw [jitAccept_iff]
  have := jitter_bounds p h0 h1 hs hf r hr i
  by_cases hj0 : 0 ≤ p.jitter
  · have := this.1 hj0 hj.2; grind
  · have := this.2 hj.1 (by grind); grind

/-- so is the multiplicative form `b * (1 - j * r)` of the same draw (a rewrite of the loop a
    maintainer may well make): over the rationals it is the very same number … -/
theorem emit_mul_form (b j r : Rat) (hj : j ≠ 0) : b * (1 - j * r) = emit j r b := by
  unfold emit
  have : ¬ (j == 0) = true := by simpa using hj
  simp only [this]
  grind

/-- … and an accepted value comes from SOME draw in `[0, 1]`: for `b ≠ 0`, `j ≠ 0` an accepted
    `w` is `emit j r b` for `r = (b - w) / (b * j)`, which lies in `[0, 1]` - acceptance lets in
    nothing but points of the model's own range (closed at the far end, as the statement says) -/
theorem accepted_is_some_draw (b j w : Rat) (hb : 0 < b) (hj : j ≠ 0)
    (h : jitAccept 0 b j w = true) :
    ∃ r : Rat, 0 ≤ r ∧ r ≤ 1 ∧ emit j r b = w := by
  rw [jitAccept_iff] at h
  have hbj : b * j ≠ 0 := by
    intro e
    rcases Rat.mul_eq_zero.mp e with e | e
    · grind
    · exact hj e
  have hq : (b - w) / (b * j) * (b * j) = b - w := Rat.div_mul_cancel hbj
  generalize (b - w) / (b * j) = q at hq
  have hem : emit j q b = w := by
    unfold emit
    have : ¬ (j == 0) = true := by simpa using hj
    simp only [this]
    grind
  refine ⟨q, ?_, ?_, hem⟩
  · by_cases hpos : 0 < j
    · have hd : 0 < b * j := Rat.mul_pos hb hpos
      apply Rat.not_lt.mp
      intro hq0
      have := Rat.mul_lt_mul_of_pos_left hq0 hd
      grind
    · have hd : 0 < b * (-j) := Rat.mul_pos hb (by grind)
      apply Rat.not_lt.mp
      intro hq0
      have := Rat.mul_lt_mul_of_pos_left hq0 hd
      grind
  · by_cases hpos : 0 < j
    · have hd : 0 < b * j := Rat.mul_pos hb hpos
      apply Rat.not_lt.mp
      intro hq1
      have := Rat.mul_lt_mul_of_pos_left hq1 hd
      grind
    · have hd : 0 < b * (-j) := Rat.mul_pos hb (by grind)
      apply Rat.not_lt.mp
      intro hq1
      have := Rat.mul_lt_mul_of_pos_left hq1 hd
      grind

end Exact

/-! ### IEEE doubles

`B64` (B64.lean) is a natural-number model of the non-negative binary64 numbers with the
correctly rounded product (round to nearest, ties to even; subnormals, overflow to `inf`).  The
driver runs the model of `backoff_iter` on it (instance `D`) and every value agrees bit for bit
with CPython, so `B64.mul` is what `cur *= factor` computes.  The order layer's one assumption
about the arithmetic - a delay times a factor ≥ 1 is not smaller - is PROVED for it
(`b64_mul_ge`), hence every order-layer clause holds for the doubles the code computes, from
the statement's plain hypotheses. -/
section Doubles

/-- rounding never undoes growth: a finite double times a factor ≥ 1.0 is a double that is not
    smaller (also when the exact product is not representable, is subnormal, or overflows) -/
theorem b64_mul_ge (x f : B64) (hf : (1 : B64) ≤ f) (hx : x.bits < B64.INF) : x ≤ x * f :=
  B64.infl f hf x hx

/-- multiplying by 1.0 is exact on doubles: representable values round to themselves
    (`B64.rnd_exact`), so with `factor = 1.0` every delay is followed by itself -/
theorem b64_mul_one (x : B64) (hx : x.bits < B64.INF) : x * 1 = x := B64.mul_one x hx

/-- the order-layer hypotheses follow from the statement's plain ones over `B64`
    (`0 ≤ start` holds for every element of the carrier) -/
theorem b64_validParams (p : Params B64) (h1 : p.start ≤ p.stop) (hs : 0 < p.stop)
    (hfin : p.stop.bits < B64.INF) (hf : 1 ≤ p.factor) : ValidParams p :=
  ⟨{ B64.laws p.factor p.stop hf hs hfin with start_nonneg := Nat.zero_le _, start_le_stop := h1 }, hf⟩

/-- all shape clauses at once for doubles: first value `start`; 0 is followed by `min(1, stop)`;
    never decreasing; never above `stop`; a non-zero value is followed by ONE correctly rounded
    multiplication by `factor`, capped at `stop`; once at `stop`, always at `stop` -/
theorem b64_shape (factor stop start : B64) (h1 : start ≤ stop) (hs : 0 < stop)
    (hfin : stop.bits < B64.INF) (hf : 1 ≤ factor) :
    seqAt factor stop start 0 = start ∧
    (start = 0 → seqAt factor stop start 1 = if stop < 1 then stop else 1) ∧
    (∀ i, seqAt factor stop start i ≤ seqAt factor stop start (i + 1)) ∧
    (∀ i, seqAt factor stop start i ≤ stop) ∧
    (∀ i, seqAt factor stop start i ≠ 0 →
      seqAt factor stop start (i + 1) =
        if stop < seqAt factor stop start i * factor then stop else seqAt factor stop start i * factor) ∧
    (∀ i j, seqAt factor stop start i = stop → i ≤ j → seqAt factor stop start j = stop) := by
  have hv : Valid factor stop start :=
    { B64.laws factor stop hf hs hfin with start_nonneg := Nat.zero_le _, start_le_stop := h1 }
  refine ⟨rfl, ?_, fun i => monotone hv (Nat.le_succ i), fun i => (le_stop hv i).2,
    fun i hne => grows_by_factor_until_cap hv i hne, fun i j h hij => stays_at_stop hv h hij⟩
  intro h; subst h
  exact zero_then_min_one_stop factor stop

/-- the default count on doubles: the call raises ValueError (only when a step makes no progress:
    rounding absorbed the factor on a subnormal), or - model artefact - runs out of fuel, or yields
    the delays at positions `0 … n-1` where the last one is `stop` -/
theorem b64_default_count_last_is_stop (p : Params B64) (h1 : p.start ≤ p.stop) (hs : 0 < p.stop)
    (hfin : p.stop.bits < B64.INF) (hf : 1 ≤ p.factor) (hj : p.jitter = 0) (hc : p.count = .dflt)
    (fuel : Nat) (r : Nat → B64) :
    backoffIter fuel r p = .valueError ∨ backoffIter fuel r p = .fuelOut ∨
    ∃ n, 1 ≤ n ∧ backoffIter fuel r p = .finite ((List.range n).map (seqAt p.factor p.stop p.start)) ∧
      ((List.range n).map (seqAt p.factor p.stop p.start)).getLast? = some p.stop := by
  have hp := b64_validParams p h1 hs hfin hf
  rcases default_count_outcome hp (Or.inl hj) hc fuel r with h | h | ⟨n, hn, hout, _, hlast⟩
  · exact Or.inl h
  · exact Or.inr (Or.inl h)
  · have e : (List.range n).map (yieldAt r p) = (List.range n).map (seqAt p.factor p.stop p.start) := by
      apply List.map_congr_left
      intro i _
      simp only [yieldAt, hj, emit_off]
    rw [e] at hout hlast
    exact Or.inr (Or.inr ⟨n, hn, hout, hlast hj⟩)

/-- exactly `count` values on doubles, the i-th being the delay at position `i` -/
theorem b64_length_eq_count (p : Params B64) (h1 : p.start ≤ p.stop) (hs : 0 < p.stop)
    (hfin : p.stop.bits < B64.INF) (hf : 1 ≤ p.factor) (hj : p.jitter = 0) (k : Int) (hk : 0 ≤ k)
    (hc : p.count = .num k) (fuel : Nat) (r : Nat → B64) :
    ∃ vals, backoffIter fuel r p = .finite vals ∧ vals.length = k.toNat ∧
      ∀ i, i < k.toNat → vals[i]? = some (seqAt p.factor p.stop p.start i) := by
  obtain ⟨vals, h1', h2, h3⟩ := length_eq_count (b64_validParams p h1 hs hfin hf) (Or.inl hj) k hk hc fuel r
  refine ⟨vals, h1', h2, fun i hi => ?_⟩
  rw [h3 i hi]
  simp only [yieldAt, hj, emit_off]

end Doubles

/-! ### sessions: several calls, the caller changing the lists it was handed, generators advanced
in any interleaving.  Every clause above is about ONE call; these theorems say that a call made
in the middle of any history is that one call: nothing a caller did before (other calls with
equal or different arguments, changes to earlier results, other generators half consumed) can
be seen in it, and nothing it does can be seen in the objects handed out earlier. -/
section Session
variable {α : Type} [LE α] [LT α] [DecidableLE α] [DecidableLT α] [BEq α] [LawfulBEq α]
  [Std.IsLinearOrder α] [Std.LawfulOrderLT α]
  [Mul α] [Sub α] [Neg α] [OfNat α 0] [OfNat α 1]

/-- a call only appends one new object, and both that object and what the caller sees are a
    function of the call's own arguments - whatever register file `s` earlier calls left -/
theorem session_call_history_independent (fuel : Nat) (s : List (Obj α)) (p : Params α) (r : Nat → α) :
    step fuel s (.callL p r) = (s ++ [listObj (backoff fuel r p)], listObs (backoff fuel r p)) ∧
    step fuel s (.callI p r) = (s ++ [Obj.ofOutcome (backoffIter fuel r p)], .gen) := ⟨rfl, rfl⟩

/-- `backoff` called after ANY history `pre` (and whatever follows) shows its caller the outcome
    of that one call: all single-call theorems apply to it -/
theorem session_list_call_obs (fuel : Nat) (s : List (Obj α)) (pre post : List (Op α))
    (p : Params α) (r : Nat → α) :
    (run fuel s (pre ++ .callL p r :: post))[pre.length]? = some (listObs (backoff fuel r p)) :=
  run_at fuel pre post _ s

/-- frame: an operation changes no object but the one it addresses (calls: none) -/
theorem session_frame (fuel : Nat) (s : List (Obj α)) (op : Op α) (j : Nat) (hj : j < s.length)
    (ht : op.target ≠ some j) : (step fuel s op).1[j]? = s[j]? := step_frame fuel s op j hj ht

/-- an object is unchanged by any history that does not address it: other calls (also with the
    same arguments), changes to other lists, other generators being advanced -/
theorem session_untouched_object_stable (fuel : Nat) (ops : List (Op α)) (s : List (Obj α)) (j : Nat)
    (hj : j < s.length) (h : ∀ op ∈ ops, op.target ≠ some j) : (runState fuel s ops)[j]? = s[j]? :=
  runState_frame fuel ops s j hj h

/-- the list a `backoff` call returned still holds that call's values when it is looked at after
    any further history `mid` in which the caller did not touch it -/
theorem session_list_stable (fuel : Nat) (s : List (Obj α)) (pre mid : List (Op α)) (p : Params α)
    (r : Nat → α) (hmid : ∀ op ∈ mid, op.target ≠ some (runState fuel s pre).length) :
    (run fuel s (pre ++ .callL p r :: (mid ++ [.read (runState fuel s pre).length]))).getLast?
      = some (readObs (backoff fuel r p)) := by
  have e : pre ++ .callL p r :: (mid ++ [.read (runState fuel s pre).length])
      = (pre ++ .callL p r :: mid) ++ [.read (runState fuel s pre).length] := by simp
  rw [e, run_last, runState_append]
  simp only [runState, step]
  have hfr := runState_frame fuel mid ((runState fuel s pre) ++ [listObj (backoff fuel r p)])
    (runState fuel s pre).length (by simp) hmid
  rw [List.getElem?_append_right (Nat.le_refl _)] at hfr
  simp only [Nat.sub_self, List.getElem?_cons_zero] at hfr
  unfold stepRead
  rw [hfr]
  cases backoff fuel r p <;> rfl

/-- a generator made after any history `pre` and first advanced after any further history `mid`
    that does not address it yields what a fresh generator of that one call yields -/
theorem session_generator_stable (fuel : Nat) (s : List (Obj α)) (pre mid : List (Op α)) (p : Params α)
    (r : Nat → α) (n : Nat) (hmid : ∀ op ∈ mid, op.target ≠ some (runState fuel s pre).length) :
    (run fuel s (pre ++ .callI p r :: (mid ++ [.pull (runState fuel s pre).length n]))).getLast?
      = some (pullObj (Obj.ofOutcome (backoffIter fuel r p)) n).2 := by
  have e : pre ++ .callI p r :: (mid ++ [.pull (runState fuel s pre).length n])
      = (pre ++ .callI p r :: mid) ++ [.pull (runState fuel s pre).length n] := by simp
  rw [e, run_last, runState_append]
  simp only [runState, step]
  have hfr := runState_frame fuel mid ((runState fuel s pre) ++ [Obj.ofOutcome (backoffIter fuel r p)])
    (runState fuel s pre).length (by simp) hmid
  rw [List.getElem?_append_right (Nat.le_refl _)] at hfr
  simp only [Nat.sub_self, List.getElem?_cons_zero] at hfr
  unfold stepPull
  rw [hfr]

/-- advancing a generator `n` times, doing anything that does not address it, then advancing it
    `m` times yields the values of advancing it `n + m` times at once: the interleaving with other
    calls and other generators does not matter -/
theorem session_pulls_compose (fuel : Nat) (s : List (Obj α)) (k n m : Nat) (o : Obj α) (mid : List (Op α))
    (hk : s[k]? = some o) (hmid : ∀ op ∈ mid, op.target ≠ some k) :
    (step fuel s (.pull k n)).2.values ++
        (((run fuel s (.pull k n :: (mid ++ [.pull k m]))).getLast?.map Obs.values).getD [])
      = (pullObj o (n + m)).2.values := by
  have hklt : k < s.length := by
    rcases Nat.lt_or_ge k s.length with h | h
    · exact h
    · rw [List.getElem?_eq_none h] at hk; cases hk
  have e : Op.pull k n :: (mid ++ [.pull k m]) = (Op.pull k n :: mid) ++ [.pull k m] := by simp
  rw [e, run_last]
  simp only [runState, step]
  have hs1 : (stepPull s k n) = (s.set k (pullObj o n).1, (pullObj o n).2) := by
    unfold stepPull; rw [hk]
  rw [hs1]
  have hfr := runState_frame fuel mid (s.set k (pullObj o n).1) k (by simpa using hklt) hmid
  rw [List.getElem?_set_self (by simpa using hklt)] at hfr
  simp only [Option.map_some, Option.getD_some]
  unfold stepPull
  rw [hfr]
  exact ((pullObj_split o n m).2).symm

/-- the link to the single-call clauses: for valid parameters and an explicit count, the first `n`
    advances of the generator give the (jittered) delays at positions `0 … min n count - 1`, and
    StopIteration is seen exactly when `n` exceeds `count` -/
theorem session_first_pull_values {p : Params α} (hp : ValidParams p) (hj : JitterOk p) (c : Int)
    (hc0 : 0 ≤ c) (hc : p.count = .num c) (fuel : Nat) (r : Nat → α) (n : Nat) :
    (pullObj (Obj.ofOutcome (backoffIter fuel r p)) n).2 =
      .pulled ((List.range (min n c.toNat)).map (yieldAt r p)) (decide (c.toNat < n)) := by
  have hk' : ¬ c < 0 := by omega
  have hout : backoffIter fuel r p = .finite ((List.range c.toNat).map (yieldAt r p)) := by
    simp [backoffIter, rangeBad_false hp, resolveCount, hc, hk', jitterBad_false hj, valsFrom_eq_map]
  rw [hout]
  simp [Obj.ofOutcome, pullObj, ← List.map_take, List.take_range]

end Session

/-! ### non-vacuity: concrete inputs satisfying the hypotheses, concrete runs of the model -/
section Examples

/-- the order layer's hypotheses hold for `factor = 2, stop = 10, start = 1` over `Rat` … -/
example : Valid (2 : Rat) 10 1 := rat_valid (by decide) (by decide) (by decide) (by decide)
/-- … and over `Int` (a carrier that is not a field) -/
example : Valid (3 : Int) 20 2 :=
  { stop_pos := by decide, zero_le_one := by decide, infl := fun x h0 _ => by omega,
    start_nonneg := by decide, start_le_stop := by decide }
/-- … and over `Fx`, a fixed-point carrier whose product is ROUNDED (up to the next quarter):
    factor 1.5, stop 10, start 0.25 -/
example : Valid (⟨6⟩ : Fx) ⟨40⟩ ⟨1⟩ :=
  { Fx.laws ⟨6⟩ ⟨40⟩ (by decide) (by decide) with start_nonneg := by decide, start_le_stop := by decide }
-- the rounded sequence 0.25, 0.5, 0.75, 1.25, 2, 3, 4.5, 6.75, 10 (in quarters); the order-layer
-- theorems (monotone, le_stop, stays_at_stop, default count ends at stop) apply to it
example : (backoff 20 (fun _ => 0)
    ({ start := ⟨1⟩, stop := ⟨40⟩, factor := ⟨6⟩, count := .dflt, jitter := 0 } : Params Fx)).vals?
    = some [⟨1⟩, ⟨2⟩, ⟨3⟩, ⟨5⟩, ⟨8⟩, ⟨12⟩, ⟨18⟩, ⟨27⟩, ⟨40⟩] := by decide
example : ValidParams ({ start := 0, stop := 1/2, factor := 2, count := .dflt, jitter := 0 } : Params Rat) :=
  rat_validParams _ (by decide +kernel) (by decide +kernel) (by decide +kernel) (by decide +kernel)
example : JitterOk ({ start := 1, stop := 10, factor := 2, count := .num 3, jitter := -1/2 } : Params Rat) :=
  Or.inr ⟨by decide +kernel, by decide +kernel⟩

-- backoff(1, 10) == [1, 2, 4, 8, 10]
example : (backoff 10 (fun _ => 0)
    ({ start := 1, stop := 10, factor := 2, count := .dflt, jitter := 0 } : Params Rat)).vals?
    = some [1, 2, 4, 8, 10] := by decide +kernel
-- the repaired defect: backoff(0, 0.5) == [0, 0.5]  (was [0.0])
example : (backoff 10 (fun _ => 0)
    ({ start := 0, stop := 1/2, factor := 2, count := .dflt, jitter := 0 } : Params Rat)).vals?
    = some [0, 1/2] := by decide +kernel
-- backoff(0, 16): 0, then min(1, stop), then doubling
example : (backoff 10 (fun _ => 0)
    ({ start := 0, stop := 16, factor := 2, count := .dflt, jitter := 0 } : Params Rat)).vals?
    = some [0, 1, 2, 4, 8, 16] := by decide +kernel
-- explicit count past the cap, jitter 1/2 with every draw 1/2: each value is 3/4 of the delay
example : (backoffIter 10 (fun _ => 1/2)
    ({ start := 1, stop := 5, factor := 2, count := .num 5, jitter := 1/2 } : Params Rat)).vals?
    = some [3/4, 3/2, 3, 15/4, 15/4] := by decide +kernel
-- factor 1 with the default count makes no progress: ValueError
example : (match backoff 10 (fun _ => 0)
    ({ start := 1, stop := 2, factor := 1, count := .dflt, jitter := 0 } : Params Rat) with
    | .valueError => true | _ => false) = true := by decide +kernel
-- too little fuel is reported as such, never as a result
example : (match backoff 3 (fun _ => 0)
    ({ start := 1, stop := 10, factor := 2, count := .dflt, jitter := 0 } : Params Rat) with
    | .fuelOut => true | _ => false) = true := by decide +kernel

-- acceptance: the delay 8 with jitter 1/2 allows exactly [4, 8]; with jitter -1 exactly [8, 16]
example : jitAccept 0 8 (1/2) 6 = true ∧ jitAccept 0 8 (1/2) 4 = true ∧ jitAccept 0 8 (1/2) 8 = true ∧
    jitAccept 0 8 (1/2) 3 = false ∧ jitAccept 0 8 (1/2) 9 = false ∧
    jitAccept 0 8 (-1) 16 = true ∧ jitAccept 0 8 (-1) 7 = false := by decide +kernel
-- the two forms of the jittered value (draw 3/4, jitter 1/2, delay 8): 8 - 8*(1/2)*(3/4) = 8*(1 - (1/2)*(3/4)) = 5
example : emit (1/2 : Rat) (3/4) 8 = 5 ∧ (8 : Rat) * (1 - (1/2) * (3/4)) = 5 := by decide +kernel
-- default count of backoff(1, 10) is 5; an implementation producing 6 values (one more stop) is judged as
-- count=6, one producing 3 (last value 4, not stop) is compared with the model's own 5 values
example : (backoff 10 (fun _ => 0) (acceptCount 10
      ({ start := 1, stop := 10, factor := 2, count := .dflt, jitter := 0 } : Params Rat) 6)).vals?
    = some [1, 2, 4, 8, 10, 10] := by decide +kernel
example : (backoff 10 (fun _ => 0) (acceptCount 10
      ({ start := 1, stop := 10, factor := 2, count := .dflt, jitter := 0 } : Params Rat) 3)).vals?
    = some [1, 2, 4, 8, 10] := by decide +kernel

-- doubles (B64): backoff(1.0, 10.0) == [1.0, 2.0, 4.0, 8.0, 10.0] by bit pattern …
example : (backoff 10 (fun _ => 0)
    ({ start := ⟨0x3ff0000000000000⟩, stop := ⟨0x4024000000000000⟩, factor := ⟨0x4000000000000000⟩,
       count := .dflt, jitter := 0 } : Params B64)).vals?
    = some [⟨0x3ff0000000000000⟩, ⟨0x4000000000000000⟩, ⟨0x4010000000000000⟩, ⟨0x4020000000000000⟩,
            ⟨0x4024000000000000⟩] := by decide +kernel
-- … the repaired float-edge defect: backoff(1.0, 10.000000000000002, factor=10.0) ends at stop (3 values) …
example : (backoff 10 (fun _ => 0)
    ({ start := ⟨0x3ff0000000000000⟩, stop := ⟨0x4024000000000001⟩, factor := ⟨0x4024000000000000⟩,
       count := .dflt, jitter := 0 } : Params B64)).vals?
    = some [⟨0x3ff0000000000000⟩, ⟨0x4024000000000000⟩, ⟨0x4024000000000001⟩] := by decide +kernel
-- … inexact products: 0.1 * 3.0 rounds UP to 0.30000000000000004, and 5e-324 * 1.5 rounds to 1e-323 (ties to even)
example : ((⟨0x3fb999999999999a⟩ : B64) * ⟨0x4008000000000000⟩ = ⟨0x3fd3333333333334⟩) ∧
    ((⟨1⟩ : B64) * ⟨0x3ff8000000000000⟩ = ⟨2⟩) ∧ ((⟨1⟩ : B64) * ⟨0x3ff4000000000000⟩ = ⟨1⟩) := by decide +kernel
-- … overflow: 1e308 * 10.0 = inf, which the cap brings back to stop
example : (⟨0x7fe1ccf385ebc8a0⟩ : B64) * ⟨0x4024000000000000⟩ = ⟨B64.INF⟩ := by decide +kernel
example : ValidParams
    ({ start := ⟨1⟩, stop := ⟨0x7fefffffffffffff⟩, factor := ⟨0x3ff8000000000000⟩,
       count := .dflt, jitter := 0 } : Params B64) :=
  b64_validParams _ (by decide) (by decide) (by decide) (by decide)

-- a session: the caller uses up the first result of backoff(1, 10); the second call with the very
-- same arguments is complete again, and a third result is untouched by changes to the second
example : ((run 10 [] [
      .callL ({ start := 1, stop := 10, factor := 2, count := .dflt, jitter := 0 } : Params Rat) (fun _ => 0),
      .chg 0 .pop0, .chg 0 .pop0, .chg 0 (.set0 (-1)), .read 0,
      .callL { start := 1, stop := 10, factor := 2, count := .dflt, jitter := 0 } (fun _ => 0),
      .callL { start := 1, stop := 10, factor := 2, count := .dflt, jitter := 0 } (fun _ => 0),
      .chg 1 .clear, .read 2]).map Obs.values)
    = [[1, 2, 4, 8, 10], [], [], [], [-1, 8, 10], [1, 2, 4, 8, 10], [1, 2, 4, 8, 10], [], [1, 2, 4, 8, 10]] := by
  decide +kernel
-- two generators of the same call advanced alternately, one of an invalid call in between
example : ((run 10 [] [
      .callI ({ start := 1, stop := 10, factor := 2, count := .num 6, jitter := 0 } : Params Rat) (fun _ => 0),
      .callI { start := 1, stop := 10, factor := 2, count := .num 6, jitter := 0 } (fun _ => 0),
      .callI { start := 1, stop := 0, factor := 2, count := .rep, jitter := 0 } (fun _ => 0),
      .pull 0 2, .pull 1 1, .pull 2 1, .pull 0 3, .pull 2 1, .pull 1 9, .pull 0 4]).map Obs.values)
    = [[], [], [], [1, 2], [1], [], [4, 8, 10], [], [2, 4, 8, 10, 10], [10]] := by
  decide +kernel

end Examples

end C15
