/-
C15 — executable model of `boltons.iterutils.backoff_iter` / `backoff`
(core Lean only; after the `fix:` commit that finds the default count by stepping).

The model is polymorphic over the carrier `α` of delays.  It uses exactly the
operations the Python code applies to its floats: `<`, `<=`, `==`, `*`, `-`,
unary minus and the literals `0`, `1`.  Two instances are run by the driver:
`Float` (Lean's `Float` is the C `double`, so `cur *= factor` is the same IEEE
operation as in CPython) and `Rat` (exact).  The theorems are proved for an
abstract linearly ordered carrier (order layer) and for `Rat` (exact layer).

Python                                         model
------------------------------------------     -----------------------------------
generator                                      `Outcome.finite vals` / `Outcome.endless val`
ValueError on the first `next()`               `Outcome.valueError` (carries no values)
`count`: None / 'repeat' / int                 `Count.dflt` / `.rep` / `.num k`
`jitter`: False or 0.0 = off                   `jitter == 0`
`random.random()` at the i-th yield            `r i`   (a stream `Nat → α`)
`while cur < stop` (default count, unbounded)  `defaultCount` with fuel; `Outcome.fuelOut`
                                               is a model artefact (more fuel never changes a result)
-/
namespace C15

/-- the `count` argument: `None`, `'repeat'`, or an integer -/
inductive Count where
  | dflt
  | rep
  | num (k : Int)
  deriving Repr, DecidableEq

structure Params (α : Type) where
  start : α
  stop : α
  factor : α
  count : Count
  /-- `False` is `0` (off), `True` is `1` -/
  jitter : α

inductive Outcome (α : Type) where
  /-- `ValueError` raised before anything is yielded -/
  | valueError
  /-- model artefact: the fuel given for the default-count loop did not suffice -/
  | fuelOut
  | finite (vals : List α)
  | endless (val : Nat → α)

/-- result of the default-count loop -/
inductive DC where
  | count (n : Nat)
  | noProgress
  | fuelOut
  deriving Repr, DecidableEq

/-- the resolved `count` -/
inductive Resolved where
  | bad
  | fuelOut
  | rep
  | num (n : Nat)
  deriving Repr, DecidableEq

section
variable {α : Type} [LE α] [LT α] [DecidableLE α] [DecidableLT α] [BEq α]
  [Mul α] [Sub α] [Neg α] [OfNat α 0] [OfNat α 1]

/-- `if cur == 0: cur = 1  elif cur < stop: cur *= factor` -/
def grow (factor stop cur : α) : α :=
  if cur == 0 then 1 else if cur < stop then cur * factor else cur

/-- `if cur > stop: cur = stop` -/
def cap (stop c : α) : α := if stop < c then stop else c

/-- the tail of the loop body: the next un-jittered delay -/
def next (factor stop cur : α) : α := cap stop (grow factor stop cur)

/-- the un-jittered delay `cur` at position `i`, starting from `cur` -/
def seqAt (factor stop : α) : α → Nat → α
  | cur, 0 => cur
  | cur, i + 1 => seqAt factor stop (next factor stop cur) i

/-- `cur_ret`: `cur` without jitter, `cur - (cur * jitter * random.random())` with -/
def emit (jitter r cur : α) : α :=
  if jitter == 0 then cur else cur - cur * jitter * r

/-- the values yielded at positions `i, i+1, …, i+n-1` when the delay at position `i` is `cur` -/
def valsFrom (factor stop jitter : α) (r : Nat → α) : Nat → Nat → α → List α
  | 0, _, _ => []
  | n + 1, i, cur => emit jitter (r i) cur :: valsFrom factor stop jitter r n (i + 1) (next factor stop cur)

/-- `nxt = cur * factor if cur else 1.0` -/
def bump (factor cur : α) : α := if cur == 0 then 1 else cur * factor

/-- the default-count loop of the fixed code:
    `count, cur = 1, start`
    `while cur < stop: nxt = cur * factor if cur else 1.0; if nxt == cur: raise ValueError; count, cur = count + 1, nxt` -/
def defaultCount (factor stop : α) : Nat → α → Nat → DC
  | 0, _, _ => .fuelOut
  | fuel + 1, cur, n =>
    if cur < stop then
      if bump factor cur == cur then .noProgress
      else defaultCount factor stop fuel (bump factor cur) (n + 1)
    else .count n

/-- `start < 0.0`, `factor < 1.0`, `stop == 0.0`, `stop < start` -/
def rangeBad (p : Params α) : Bool :=
  decide (p.start < 0) || decide (p.factor < 1) || p.stop == 0 || decide (p.stop < p.start)

def resolveCount (fuel : Nat) (p : Params α) : Resolved :=
  match p.count with
  | .dflt =>
    match defaultCount p.factor p.stop fuel p.start 1 with
    | .count n => .num n
    | .noProgress => .bad
    | .fuelOut => .fuelOut
  | .rep => .rep
  | .num k => if k < 0 then .bad else .num k.toNat

/-- `if jitter: ... if not (-1.0 <= jitter <= 1.0): raise ValueError` -/
def jitterBad (p : Params α) : Bool :=
  !(p.jitter == 0) && !(decide (-1 ≤ p.jitter) && decide (p.jitter ≤ 1))

/-- `backoff_iter(start, stop, count, factor, jitter)` with random draws `r` -/
def backoffIter (fuel : Nat) (r : Nat → α) (p : Params α) : Outcome α :=
  if rangeBad p then .valueError else
  match resolveCount fuel p with
  | .bad => .valueError
  | .fuelOut => .fuelOut
  | .rep => if jitterBad p then .valueError else
      .endless fun i => emit p.jitter (r i) (seqAt p.factor p.stop p.start i)
  | .num n => if jitterBad p then .valueError else
      .finite (valsFrom p.factor p.stop p.jitter r n 0 p.start)

/-- `backoff(...)`: `'repeat'` is refused, otherwise `list(backoff_iter(...))` -/
def backoff (fuel : Nat) (r : Nat → α) (p : Params α) : Outcome α :=
  match p.count with
  | .rep => .valueError
  | _ => backoffIter fuel r p

end

/-! ### acceptance of the default count

"with the default count (factor > 1) the last value is stop" fixes the LAST value, not how many
values there are: once at `stop` the sequence stays there, so an implementation whose default
count is larger than the minimal one (one more `stop` at the end, say) still satisfies the
statement.  In the correspondence the driver is told how many values `m` the implementation
produced for `count=None`; when `m` is at least the model's own (minimal) default count the
call is judged as the same call with `count=m`, otherwise (too few values: the last one is
below `stop`) as the model's own default. -/
section
variable {α : Type} [LE α] [LT α] [DecidableLE α] [DecidableLT α] [BEq α]
  [Mul α] [Sub α] [Neg α] [OfNat α 0] [OfNat α 1]

def acceptCount (fuel : Nat) (p : Params α) (m : Nat) : Params α :=
  match p.count with
  | .dflt =>
    match resolveCount fuel p with
    | .num n => if n ≤ m then { p with count := .num (m : Int) } else p
    | _ => p
  | _ => p

end

/-! ### acceptance of jittered values

The statement fixes the un-jittered sequence exactly (one multiplication per step) but a
jittered value only up to an interval: "every value lies between the un-jittered value b at
that position and b*(1-j), inclusive".  HOW the implementation draws a point of that interval
(`cur - cur*jitter*random()`, `cur * (1 - jitter*random())`, …) is left open, so the
correspondence judges a jittered value by this predicate instead of comparing it bit for bit
with `emit`.  `tol` is 0 on the exact instance; on doubles the interval ends are themselves only
defined up to rounding and `tolF` (2⁻⁵⁰ relative + four smallest subnormals, the slack the
independent oracle uses as well) is allowed. -/

/-- `w` lies between `b` and `b * (1 - j)`, inclusive, with slack `tol` -/
def jitAccept (tol b j w : Rat) : Bool :=
  decide (min b (b * (1 - j)) - tol ≤ w) && decide (w ≤ max b (b * (1 - j)) + tol)

def ratAbs (x : Rat) : Rat := if x < 0 then -x else x

/-- the slack allowed on IEEE doubles -/
def tolF (b j : Rat) : Rat :=
  max (ratAbs b) (ratAbs (b * (1 - j))) / (2 : Rat) ^ 50 + 1 / (2 : Rat) ^ 1072

end C15
