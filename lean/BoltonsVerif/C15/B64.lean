import BoltonsVerif.C15.Model
/-
C15 — `B64`: a transparent model of the NON-NEGATIVE IEEE-754 binary64 numbers (the C `double`s
`backoff_iter` computes with for valid parameters), with multiplication and subtraction rounded
to nearest, ties to even — written out on natural numbers, so that Lean can prove things about
it (Lean's own `Float` is opaque).  Core Lean only; the driver runs the one polymorphic model of
`backoff_iter` on this carrier too (instance `D`) and every value is compared bit for bit with
CPython, which ties `B64.mul` to the real `cur *= factor`.

A number is its 64-bit pattern (sign bit clear): `bits = E * 2^52 + frac`.
  `E = 0`            subnormal      value `frac * 2^-1074`
  `1 ≤ E ≤ 2046`     normal         value `(2^52 + frac) * 2^(E-1) * 2^-1074`
  `bits = INF`       +infinity      (`E = 2047, frac = 0`); larger patterns (NaN) never arise
For non-negative doubles the order of the values is the order of the patterns, so `≤`, `<`,
`==` are those of `bits`.

Outside the carrier: negative numbers (unary minus is clamped to 0, a difference below 0 is
clamped to 0), NaN, `0 * inf`.  The `D` instance is therefore only run on calls whose `start`,
`stop`, `factor`, `jitter` have a clear sign bit and are finite.
-/
namespace C15

structure B64 where
  bits : Nat
  deriving DecidableEq, Repr

namespace B64

/-- the pattern of +infinity, `2047 * 2^52` -/
def INF : Nat := 0x7ff0000000000000
/-- the pattern of 1.0, `1023 * 2^52` -/
def ONE : Nat := 0x3ff0000000000000

/-- the value of a finite pattern, in units of `2^-1074` (the smallest subnormal) -/
def V (n : Nat) : Nat :=
  if n / 2 ^ 52 = 0 then n % 2 ^ 52 else (2 ^ 52 + n % 2 ^ 52) * 2 ^ (n / 2 ^ 52 - 1)

/-- the pattern of `N / 2^sh` units rounded to the nearest double, ties to even; `INF` on overflow.
    `q` is the exponent of the result's quantum (0 for subnormals and the first normal binade),
    `k0` the significand rounded down (`k0 < 2^53`, and `2^52 ≤ k0` when `q > 0`); a carry out
    of the significand needs no special case because patterns are consecutive:
    `q * 2^52 + 2^53 = (q+1) * 2^52 + 2^52`. -/
def rnd (N sh : Nat) : Nat :=
  let q := N.log2 - (sh + 52)
  let s := sh + q
  let k0 := N / 2 ^ s
  let rem := N % 2 ^ s
  let up : Bool := decide (2 ^ (s - 1) < rem) || (rem == 2 ^ (s - 1) && k0 % 2 == 1)
  min (q * 2 ^ 52 + k0 + (if up then 1 else 0)) INF

instance : LE B64 := ⟨fun a b => a.bits ≤ b.bits⟩
instance : LT B64 := ⟨fun a b => a.bits < b.bits⟩
instance : DecidableLE B64 := fun a b => inferInstanceAs (Decidable (a.bits ≤ b.bits))
instance : DecidableLT B64 := fun a b => inferInstanceAs (Decidable (a.bits < b.bits))
instance : OfNat B64 0 := ⟨⟨0⟩⟩
instance : OfNat B64 1 := ⟨⟨ONE⟩⟩

/-- IEEE multiplication of non-negative doubles (`inf` absorbs; `0 * inf` is outside the carrier) -/
instance : Mul B64 := ⟨fun a b =>
  if INF ≤ a.bits ∨ INF ≤ b.bits then ⟨INF⟩ else ⟨rnd (V a.bits * V b.bits) 1074⟩⟩

/-- IEEE subtraction where the result is non-negative; a negative difference is clamped to 0 -/
instance : Sub B64 := ⟨fun a b =>
  if INF ≤ b.bits then ⟨0⟩ else if INF ≤ a.bits then ⟨INF⟩ else ⟨rnd (V a.bits - V b.bits) 0⟩⟩

/-- there are no negative numbers in the carrier: `-x` is clamped to 0 -/
instance : Neg B64 := ⟨fun _ => ⟨0⟩⟩

end B64
end C15
