import BoltonsVerif.C12.Proofs
import BoltonsVerif.C12.Model3
/-
C12, round 3 - helper lemmas: the flat send-side specification, the duplex object (frame,
fault-class alignment, conservation).
-/
namespace C12

/-! ### `sendLoop` is `deliver` -/

theorem sendLoop_deliver : ∀ (script : List SEv) (buf : Bytes) (total : Nat) (wire : Bytes),
    sendLoop script buf total wire
      = ((if (deliver script buf).1 then SRes.timeout else SRes.sent (total + (deliver script buf).2.1.length)),
         ⟨[(deliver script buf).2.2.1], wire ++ (deliver script buf).2.1, (deliver script buf).2.2.2⟩) := by
  intro script
  induction script with
  | nil =>
    intro buf total wire
    cases buf with
    | nil => simp [sendLoop, deliver]
    | cons b buf => simp [sendLoop, deliver]
  | cons e script ih =>
    intro buf total wire
    cases buf with
    | nil => simp [sendLoop, deliver]
    | cons b buf =>
      cases e with
      | timeout => simp [sendLoop, deliver]
      | clock => simp [sendLoop, deliver]
      | accept k =>
        cases script with
        | nil =>
          have := ih ((b :: buf).drop k) (total + min k (b :: buf).length) (wire ++ (b :: buf).take k)
          simp only [sendLoop, popClock, deliver]
          rw [this]
          simp [List.length_take, Nat.add_assoc]
        | cons e2 r =>
          cases e2 with
          | clock => simp [sendLoop, popClock, deliver]
          | timeout =>
            have := ih ((b :: buf).drop k) (total + min k (b :: buf).length) (wire ++ (b :: buf).take k)
            simp only [sendLoop, popClock, deliver]
            rw [this]
            simp [List.length_take, Nat.add_assoc]
          | accept k2 =>
            have := ih ((b :: buf).drop k) (total + min k (b :: buf).length) (wire ++ (b :: buf).take k)
            simp only [sendLoop, popClock, deliver]
            rw [this]
            simp [List.length_take, Nat.add_assoc]

/-- `send` looks at `sbuf` only through its concatenation -/
theorem send_flat (data : Bytes) (st : SSt) :
    send data st = sendLoop st.script (st.getsendbuffer ++ data) 0 st.wire := by
  unfold send
  simp only [SSt.getsendbuffer]
  by_cases hl : (st.sbuf ++ [data]).length > 1
  · simp only [hl, ↓reduceIte, List.append_nil]
    rw [flatten_filter_isNonEmpty]
    simp
  · simp only [hl, ↓reduceIte]
    have hs : st.sbuf = [] := by
      simp only [List.length_append, List.length_cons, List.length_nil] at hl
      have : st.sbuf.length = 0 := by omega
      exact List.length_eq_zero_iff.mp this
    simp [hs]

theorem fsend_eq (data : Bytes) (st : SSt) :
    (send data st).1 = (fsend data st.flat).1 ∧ (send data st).2.flat = (fsend data st.flat).2 := by
  rw [send_flat, sendLoop_deliver]
  refine ⟨?_, ?_⟩
  · simp only [fsend, SSt.flat, Nat.zero_add]
    by_cases h : (deliver st.script (st.getsendbuffer ++ data)).1 = true
    · simp only [h, if_true]
    · simp only [h, if_false]
  · simp only [fsend, SSt.flat]
    simp [SSt.getsendbuffer]

theorem sstep_flat (op : SOp) (st : SSt) :
    (sstep op st).1 = (fstep op st.flat).1 ∧ (sstep op st).2.flat = (fstep op st.flat).2 := by
  cases op with
  | send d => exact fsend_eq d st
  | buffer d => simp [sstep, fstep, buffer, SSt.flat, SSt.getsendbuffer]
  | flush =>
    obtain ⟨h1, h2⟩ := fsend_eq [] st
    simp only [sstep, fstep, flush]
    cases hq : send [] st with
    | mk r st' =>
      rw [hq] at h1 h2
      cases hf : fsend [] st.flat with
      | mk r' f' =>
        rw [hf] at h1 h2
        simp only at h1 h2
        subst h1
        cases r <;> simp [h2]

theorem srun_flat : ∀ (ops : List SOp) (st : SSt),
    sobs (srun ops st).1 = (frun ops st.flat).1 ∧ (srun ops st).2.flat = (frun ops st.flat).2 := by
  intro ops
  induction ops with
  | nil => intro st; simp [srun, frun, sobs]
  | cons op ops ih =>
    intro st
    obtain ⟨h1, h2⟩ := sstep_flat op st
    obtain ⟨h3, h4⟩ := ih (sstep op st).2
    simp only [srun, frun, sobs, List.map_cons]
    rw [← h2]
    refine ⟨?_, h4⟩
    simp only [sobs] at h3
    rw [h3, h1]
    simp [SSt.flat]

/-! ### the duplex object -/

theorem dcall_txPart (large : Nat) (c : Call) (b : BSock) : (dcall large c b).2.txPart = b.txPart := by
  unfold dcall; split <;> rfl

theorem dsop_rxPart (o : SOp) (b : BSock) : (dsop o b).2.rxPart = b.rxPart := by
  unfold dsop; split <;> rfl

theorem dcall_congr (large : Nat) (c : Call) (b b' : BSock) (h : b.rxPart = b'.rxPart) :
    (dcall large c b).1 = (dcall large c b').1 ∧ (dcall large c b).2.rxPart = (dcall large c b').2.rxPart := by
  simp only [BSock.rxPart, Prod.mk.injEq] at h
  obtain ⟨h1, h2, h3⟩ := h
  unfold dcall
  rw [h1, h2, h3]
  split <;> simp [BSock.rxPart]

theorem dsop_congr (o : SOp) (b b' : BSock) (h : b.txPart = b'.txPart) :
    (dsop o b).1 = (dsop o b').1 ∧ (dsop o b).2.txPart = (dsop o b').2.txPart := by
  simp only [BSock.txPart, Prod.mk.injEq] at h
  obtain ⟨h1, h2⟩ := h
  unfold dsop
  rw [h1, h2]
  split <;> simp [BSock.txPart]

theorem dstep_rx_frame (large : Nat) (op : DOp) (b : BSock) (h : op.isRx = true) :
    (dstep large op b).2.txPart = b.txPart := by
  cases op with
  | call c => exact dcall_txPart large c b
  | recvFlags size flags =>
    simp only [dstep]; split
    · rfl
    · exact dcall_txPart large _ b
  | sop o => simp [DOp.isRx] at h
  | sendFlags d f => simp [DOp.isRx] at h

theorem dstep_tx_frame (large : Nat) (op : DOp) (b : BSock) (h : op.isRx = false) :
    (dstep large op b).2.rxPart = b.rxPart := by
  cases op with
  | call c => simp [DOp.isRx] at h
  | recvFlags size flags => simp [DOp.isRx] at h
  | sop o => exact dsop_rxPart o b
  | sendFlags d f =>
    simp only [dstep]; split
    · rfl
    · exact dsop_rxPart _ b

theorem dstep_rx_congr (large : Nat) (op : DOp) (b b' : BSock) (hop : op.isRx = true)
    (h : b.rxPart = b'.rxPart) :
    (dstep large op b).1 = (dstep large op b').1 ∧
    (dstep large op b).2.rxPart = (dstep large op b').2.rxPart := by
  cases op with
  | call c => exact dcall_congr large c b b' h
  | recvFlags size flags =>
    simp only [dstep]; split
    · exact ⟨rfl, h⟩
    · exact dcall_congr large _ b b' h
  | sop o => simp [DOp.isRx] at hop
  | sendFlags d f => simp [DOp.isRx] at hop

theorem dstep_tx_congr (large : Nat) (op : DOp) (b b' : BSock) (hop : op.isRx = false)
    (h : b.txPart = b'.txPart) :
    (dstep large op b).1 = (dstep large op b').1 ∧
    (dstep large op b).2.txPart = (dstep large op b').2.txPart := by
  cases op with
  | call c => simp [DOp.isRx] at hop
  | recvFlags size flags => simp [DOp.isRx] at hop
  | sop o => exact dsop_congr o b b' h
  | sendFlags d f =>
    simp only [dstep]; split
    · exact ⟨rfl, h⟩
    · exact dsop_congr _ b b' h

/-- the receive-side calls of a history see exactly what they would see with the send-side calls
    left out (and on an object whose send side is in any other state) -/
theorem drun_rx_independent (large : Nat) : ∀ (ops : List DOp) (b b' : BSock), b.rxPart = b'.rxPart →
    (drun large ops b).1.filter (fun p => p.1.isRx) = (drun large (ops.filter DOp.isRx) b').1 ∧
    (drun large ops b).2.rxPart = (drun large (ops.filter DOp.isRx) b').2.rxPart := by
  intro ops
  induction ops with
  | nil => intro b b' h; exact ⟨rfl, h⟩
  | cons op ops ih =>
    intro b b' h
    cases hop : op.isRx with
    | true =>
      obtain ⟨h1, h2⟩ := dstep_rx_congr large op b b' hop h
      obtain ⟨h3, h4⟩ := ih (dstep large op b).2 (dstep large op b').2 h2
      simp only [drun, List.filter_cons, hop, ↓reduceIte]
      exact ⟨by rw [h1, h3], h4⟩
    | false =>
      have h2 := dstep_tx_frame large op b hop
      obtain ⟨h3, h4⟩ := ih (dstep large op b).2 b' (h2.trans h)
      simp only [drun, List.filter_cons, hop]
      exact ⟨by simpa using h3, h4⟩

theorem drun_tx_independent (large : Nat) : ∀ (ops : List DOp) (b b' : BSock), b.txPart = b'.txPart →
    (drun large ops b).1.filter (fun p => p.1.isTx) = (drun large (ops.filter DOp.isTx) b').1 ∧
    (drun large ops b).2.txPart = (drun large (ops.filter DOp.isTx) b').2.txPart := by
  intro ops
  induction ops with
  | nil => intro b b' h; exact ⟨rfl, h⟩
  | cons op ops ih =>
    intro b b' h
    cases hop : op.isRx with
    | false =>
      have hop' : op.isTx = true := by simp [DOp.isTx, hop]
      obtain ⟨h1, h2⟩ := dstep_tx_congr large op b b' hop h
      obtain ⟨h3, h4⟩ := ih (dstep large op b).2 (dstep large op b').2 h2
      simp only [drun, List.filter_cons, hop', ↓reduceIte]
      exact ⟨by rw [h1, h3], h4⟩
    | true =>
      have hop' : op.isTx = false := by simp [DOp.isTx, hop]
      have h2 := dstep_rx_frame large op b hop
      obtain ⟨h3, h4⟩ := ih (dstep large op b).2 b' (h2.trans h)
      simp only [drun, List.filter_cons, hop']
      exact ⟨by simpa using h3, h4⟩

/-! ### fault classes stay aligned with the scripts -/

/-- the invariant: one class per fault still in each script -/
def BSock.Aligned (b : BSock) : Prop :=
  b.rtags.length = nTO b.rx.script ∧ b.stags.length = nSF b.tx.script

theorem popTag_length {ts : List Fault} (h : 0 < ts.length) :
    ts = (popTag ts).1 :: (popTag ts).2 := by
  cases ts with
  | nil => simp at h
  | cons f fs => rfl

theorem callAttempt_nTO (large : Nat) (cfg : Cfg) (c : Call) (st : St) :
    ((callAttempt large cfg c st).1 = some .timeout →
      nTO (callAttempt large cfg c st).2.2.script + 1 = nTO st.script) ∧
    ((callAttempt large cfg c st).1 ≠ some .timeout →
      nTO (callAttempt large cfg c st).2.2.script = nTO st.script) := by
  unfold callAttempt
  cases hc : c.op large cfg.maxsize with
  | none => simp
  | some op =>
    simp only [Option.some.injEq, ne_eq]
    exact attempt_nTOex cfg op st

theorem dcall_aligned (large : Nat) (c : Call) (b : BSock) (h : b.Aligned) :
    (dcall large c b).2.Aligned ∧
    (∀ f, (dcall large c b).1 = .fault f → b.rtags = f :: (dcall large c b).2.rtags) := by
  obtain ⟨hr, hs⟩ := h
  obtain ⟨a1, a2⟩ := callAttempt_nTO large b.cfg c b.rx
  unfold dcall
  by_cases ht : (callAttempt large b.cfg c b.rx).1 = some .timeout
  · simp only [ht, ↓reduceIte, BSock.Aligned]
    have hn := a1 ht
    have hpos : 0 < b.rtags.length := by omega
    have hp := popTag_length hpos
    refine ⟨⟨?_, hs⟩, ?_⟩
    · have : b.rtags.length = (popTag b.rtags).2.length + 1 := by
        conv => lhs; rw [hp]
        simp
      omega
    · intro f hf
      simp only [DOut.fault.injEq] at hf
      rw [← hf]; exact hp
  · simp only [ht, ↓reduceIte, BSock.Aligned]
    have hn := a2 ht
    exact ⟨⟨by omega, hs⟩, by intro f hf; cases hf⟩

theorem dsop_aligned (o : SOp) (b : BSock) (h : b.Aligned) :
    (dsop o b).2.Aligned ∧
    (∀ f, (dsop o b).1 = .fault f → b.stags = f :: (dsop o b).2.stags) := by
  obtain ⟨hr, hs⟩ := h
  have hf := sstep_faults o b.tx
  unfold dsop
  by_cases ht : (sstep o b.tx).1 = .timeout
  · simp only [ht, ↓reduceIte, BSock.Aligned]
    rw [ht] at hf
    simp only [SRes.isTO] at hf
    have hpos : 0 < b.stags.length := by omega
    have hp := popTag_length hpos
    refine ⟨⟨hr, ?_⟩, ?_⟩
    · have : b.stags.length = (popTag b.stags).2.length + 1 := by
        conv => lhs; rw [hp]
        simp
      omega
    · intro f hf'
      simp only [DOut.fault.injEq] at hf'
      rw [← hf']; exact hp
  · simp only [ht, ↓reduceIte, BSock.Aligned]
    have : (sstep o b.tx).1.isTO = 0 := by
      cases hq : (sstep o b.tx).1 with
      | timeout => exact absurd hq ht
      | sent n => rfl
      | none => rfl
    exact ⟨⟨hr, by omega⟩, by intro f hf'; cases hf'⟩

theorem dstep_aligned (large : Nat) (op : DOp) (b : BSock) (h : b.Aligned) :
    (dstep large op b).2.Aligned ∧
    (∀ f, (dstep large op b).1 = .fault f →
      (op.isRx = true → b.rtags = f :: (dstep large op b).2.rtags) ∧
      (op.isRx = false → b.stags = f :: (dstep large op b).2.stags)) := by
  cases op with
  | call c =>
    obtain ⟨h1, h2⟩ := dcall_aligned large c b h
    exact ⟨h1, fun f hf => ⟨fun _ => h2 f hf, by simp [DOp.isRx]⟩⟩
  | recvFlags size flags =>
    simp only [dstep]
    split
    · exact ⟨h, by intro f hf; cases hf⟩
    · obtain ⟨h1, h2⟩ := dcall_aligned large (.recv size) b h
      exact ⟨h1, fun f hf => ⟨fun _ => h2 f hf, by simp [DOp.isRx]⟩⟩
  | sop o =>
    obtain ⟨h1, h2⟩ := dsop_aligned o b h
    exact ⟨h1, fun f hf => ⟨by simp [DOp.isRx], fun _ => h2 f hf⟩⟩
  | sendFlags d flags =>
    simp only [dstep]
    split
    · exact ⟨h, by intro f hf; cases hf⟩
    · obtain ⟨h1, h2⟩ := dsop_aligned (.send d) b h
      exact ⟨h1, fun f hf => ⟨by simp [DOp.isRx], fun _ => h2 f hf⟩⟩

theorem drun_aligned (large : Nat) : ∀ (ops : List DOp) (b : BSock), b.Aligned →
    (drun large ops b).2.Aligned := by
  intro ops
  induction ops with
  | nil => intro b h; exact h
  | cons op ops ih =>
    intro b h
    simp only [drun]
    exact ih _ (dstep_aligned large op b h).1

/-! ### conservation on the one object -/

theorem dcall_conserves (large : Nat) (c : Call) (b : BSock) (hrs : 0 < b.cfg.recvsize) :
    (DOp.call c).consumed (dcall large c b).1 large b.cfg.maxsize ++ (dcall large c b).2.rx.view = b.rx.view ∧
    (dcall large c b).2.cfg.recvsize = b.cfg.recvsize := by
  unfold dcall callAttempt
  cases hc : c.op large b.cfg.maxsize with
  | none => simp [DOp.consumed, hc]
  | some op =>
    have hcons := attempt_conserves b.cfg hrs op b.rx
    simp only [Option.some.injEq]
    by_cases ht : (attempt b.cfg op b.rx).1 = .timeout
    · simp only [ht, ↓reduceIte, DOp.consumed, List.nil_append, and_true]
      rw [ht] at hcons
      simpa [consumed_timeout] using hcons
    · simp only [ht, ↓reduceIte, DOp.consumed, hc, and_true]
      exact hcons

theorem dsop_conserves (o : SOp) (b : BSock) :
    (dsop o b).2.tx.wire ++ (dsop o b).2.tx.getsendbuffer = b.tx.wire ++ b.tx.getsendbuffer ++ o.data ∧
    b.tx.wire <+: (dsop o b).2.tx.wire := by
  have := sstep_conserves o b.tx
  unfold dsop
  split <;> exact this

end C12
