import BoltonsVerif.C12.Proofs
import BoltonsVerif.C12.Model3
/-
C12, round 3 - helper lemmas: the flat send-side specification, the duplex object (frame,
fault-class alignment, conservation).
-/
namespace C12

/-! ### `sendLoop` is `deliver` -/

theorem sendLoop_deliver : ∀ (script : List SEv) (buf : Bytes) (total : Nat) (wire : Bytes),
    sendLoop script buf total wire
      = ((if (deliver script buf).1 then SRes.timeout else SRes.sent (total + (deliver script buf).2.1.length)),
         ⟨[(deliver script buf).2.2.1], wire ++ (deliver script buf).2.1, (deliver script buf).2.2.2⟩) := by
  intro script
  induction script with
  | nil =>
    intro buf total wire
    cases buf with
    | nil => simp [sendLoop, deliver]
    | cons b buf => simp [sendLoop, deliver]
  | cons e script ih =>
    intro buf total wire
    cases buf with
    | nil => simp [sendLoop, deliver]
    | cons b buf =>
      cases e with
      | timeout => simp [sendLoop, deliver]
      | clock => simp [sendLoop, deliver]
      | accept k =>
        cases script with
        | nil =>
          have := ih ((b :: buf).drop k) (total + min k (b :: buf).length) (wire ++ (b :: buf).take k)
          simp only [sendLoop, popClock, deliver]
          rw [this]
          simp [List.length_take, Nat.add_assoc]
        | cons e2 r =>
          cases e2 with
          | clock => simp [sendLoop, popClock, deliver]
          | timeout =>
            have := ih ((b :: buf).drop k) (total + min k (b :: buf).length) (wire ++ (b :: buf).take k)
            simp only [sendLoop, popClock, deliver]
            rw [this]
            simp [List.length_take, Nat.add_assoc]
          | accept k2 =>
            have := ih ((b :: buf).drop k) (total + min k (b :: buf).length) (wire ++ (b :: buf).take k)
            simp only [sendLoop, popClock, deliver]
            rw [this]
            simp [List.length_take, Nat.add_assoc]

/-- `send` looks at `sbuf` only through its concatenation -/
theorem send_flat (data : Bytes) (st : SSt) :
    send data st = sendLoop st.script (st.getsendbuffer ++ data) 0 st.wire := by
  unfold send
  simp only [SSt.getsendbuffer]
  by_cases hl : (st.sbuf ++ [data]).length > 1
  · simp only [hl, ↓reduceIte, List.append_nil]
    rw [flatten_filter_isNonEmpty]
    simp
  · simp only [hl, ↓reduceIte]
    have hs : st.sbuf = [] := by
      simp only [List.length_append, List.length_cons, List.length_nil] at hl
      have : st.sbuf.length = 0 := by omega
      exact List.length_eq_zero_iff.mp this
    simp [hs]

theorem fsend_eq (data : Bytes) (st : SSt) :
    (send data st).1 = (fsend data st.flat).1 ∧ (send data st).2.flat = (fsend data st.flat).2 := by
  rw [send_flat, sendLoop_deliver]
  refine ⟨?_, ?_⟩
  · simp only [fsend, SSt.flat, Nat.zero_add]
    by_cases h : (deliver st.script (st.getsendbuffer ++ data)).1 = true
    · simp only [h, if_true]
    · simp only [h, if_false]
  · simp only [fsend, SSt.flat]
    simp [SSt.getsendbuffer]

theorem sstep_flat (op : SOp) (st : SSt) :
    (sstep op st).1 = (fstep op st.flat).1 ∧ (sstep op st).2.flat = (fstep op st.flat).2 := by
  cases op with
  | send d => exact fsend_eq d st
  | buffer d => simp [sstep, fstep, buffer, SSt.flat, SSt.getsendbuffer]
  | flush =>
    obtain ⟨h1, h2⟩ := fsend_eq [] st
    simp only [sstep, fstep, flush]
    cases hq : send [] st with
    | mk r st' =>
      rw [hq] at h1 h2
      cases hf : fsend [] st.flat with
      | mk r' f' =>
        rw [hf] at h1 h2
        simp only at h1 h2
        subst h1
        cases r <;> simp [h2]

theorem srun_flat : ∀ (ops : List SOp) (st : SSt),
    sobs (srun ops st).1 = (frun ops st.flat).1 ∧ (srun ops st).2.flat = (frun ops st.flat).2 := by
  intro ops
  induction ops with
  | nil => intro st; simp [srun, frun, sobs]
  | cons op ops ih =>
    intro st
    obtain ⟨h1, h2⟩ := sstep_flat op st
    obtain ⟨h3, h4⟩ := ih (sstep op st).2
    simp only [srun, frun, sobs, List.map_cons]
    rw [← h2]
    refine ⟨?_, h4⟩
    simp only [sobs] at h3
    rw [h3, h1]
    simp [SSt.flat]

/-! ### the duplex object -/

theorem dcall_txPart (large : Nat) (c : Call) (b : BSock) : (dcall large c b).2.txPart = b.txPart := by
  unfold dcall; split <;> rfl

theorem dsop_rxPart (o : SOp) (b : BSock) : (dsop o b).2.rxPart = b.rxPart := by
  unfold dsop; split <;> rfl

theorem dcall_congr (large : Nat) (c : Call) (b b' : BSock) (h : b.rxPart = b'.rxPart) :
    (dcall large c b).1 = (dcall large c b').1 ∧ (dcall large c b).2.rxPart = (dcall large c b').2.rxPart := by
  simp only [BSock.rxPart, Prod.mk.injEq] at h
  obtain ⟨h1, h2, h3⟩ := h
  unfold dcall
  rw [h1, h2, h3]
  split <;> simp [BSock.rxPart]

theorem dsop_congr (o : SOp) (b b' : BSock) (h : b.txPart = b'.txPart) :
    (dsop o b).1 = (dsop o b').1 ∧ (dsop o b).2.txPart = (dsop o b').2.txPart := by
  simp only [BSock.txPart, Prod.mk.injEq] at h
  obtain ⟨h1, h2⟩ := h
  unfold dsop
  rw [h1, h2]
  split <;> simp [BSock.txPart]

theorem dstep_rx_frame (large : Nat) (op : DOp) (b : BSock) (h : op.isRx = true) :
    (dstep large op b).2.txPart = b.txPart := by
  cases op with
  | call c => exact dcall_txPart large c b
  | recvFlags size flags =>
    simp only [dstep]; split
    · rfl
    · exact dcall_txPart large _ b
  | sop o => simp [DOp.isRx] at h
  | sendFlags d f => simp [DOp.isRx] at h

theorem dstep_tx_frame (large : Nat) (op : DOp) (b : BSock) (h : op.isRx = false) :
    (dstep large op b).2.rxPart = b.rxPart := by
  cases op with
  | call c => simp [DOp.isRx] at h
  | recvFlags size flags => simp [DOp.isRx] at h
  | sop o => exact dsop_rxPart o b
  | sendFlags d f =>
    simp only [dstep]; split
    · rfl
    · exact dsop_rxPart _ b

theorem dstep_rx_congr (large : Nat) (op : DOp) (b b' : BSock) (hop : op.isRx = true)
    (h : b.rxPart = b'.rxPart) :
    (dstep large op b).1 = (dstep large op b').1 ∧
    (dstep large op b).2.rxPart = (dstep large op b').2.rxPart := by
  cases op with
  | call c => exact dcall_congr large c b b' h
  | recvFlags size flags =>
    simp only [dstep]; split
    · exact ⟨rfl, h⟩
    · exact dcall_congr large _ b b' h
  | sop o => simp [DOp.isRx] at hop
  | sendFlags d f => simp [DOp.isRx] at hop

theorem dstep_tx_congr (large : Nat) (op : DOp) (b b' : BSock) (hop : op.isRx = false)
    (h : b.txPart = b'.txPart) :
    (dstep large op b).1 = (dstep large op b').1 ∧
    (dstep large op b).2.txPart = (dstep large op b').2.txPart := by
  cases op with
  | call c => simp [DOp.isRx] at hop
  | recvFlags size flags => simp [DOp.isRx] at hop
  | sop o => exact dsop_congr o b b' h
  | sendFlags d f =>
    simp only [dstep]; split
    · exact ⟨rfl, h⟩
    · exact dsop_congr _ b b' h

/-- the receive-side calls of a history see exactly what they would see with the send-side calls
    left out (and on an object whose send side is in any other state) -/
theorem drun_rx_independent (large : Nat) : ∀ (ops : List DOp) (b b' : BSock), b.rxPart = b'.rxPart →
    (drun large ops b).1.filter (fun p => p.1.isRx) = (drun large (ops.filter DOp.isRx) b').1 ∧
    (drun large ops b).2.rxPart = (drun large (ops.filter DOp.isRx) b').2.rxPart := by
  intro ops
  induction ops with
  | nil => intro b b' h; exact ⟨rfl, h⟩
  | cons op ops ih =>
    intro b b' h
    cases hop : op.isRx with
    | true =>
      obtain ⟨h1, h2⟩ := dstep_rx_congr large op b b' hop h
      obtain ⟨h3, h4⟩ := ih (dstep large op b).2 (dstep large op b').2 h2
      simp only [drun, List.filter_cons, hop, ↓reduceIte]
      exact ⟨by rw [h1, h3], h4⟩
    | false =>
      have h2 := dstep_tx_frame large op b hop
      obtain ⟨h3, h4⟩ := ih (dstep large op b).2 b' (h2.trans h)
      simp only [drun, List.filter_cons, hop]
      exact ⟨by simpa using h3, h4⟩

theorem drun_tx_independent (large : Nat) : ∀ (ops : List DOp) (b b' : BSock), b.txPart = b'.txPart →
    (drun large ops b).1.filter (fun p => p.1.isTx) = (drun large (ops.filter DOp.isTx) b').1 ∧
    (drun large ops b).2.txPart = (drun large (ops.filter DOp.isTx) b').2.txPart := by
  intro ops
  induction ops with
  | nil => intro b b' h; exact ⟨rfl, h⟩
  | cons op ops ih =>
    intro b b' h
    cases hop : op.isRx with
    | false =>
      have hop' : op.isTx = true := by simp [DOp.isTx, hop]
      obtain ⟨h1, h2⟩ := dstep_tx_congr large op b b' hop h
      obtain ⟨h3, h4⟩ := ih (dstep large op b).2 (dstep large op b').2 h2
      simp only [drun, List.filter_cons, hop', ↓reduceIte]
      exact ⟨by rw [h1, h3], h4⟩
    | true =>
      have hop' : op.isTx = false := by simp [DOp.isTx, hop]
      have h2 := dstep_rx_frame large op b hop
      obtain ⟨h3, h4⟩ := ih (dstep large op b).2 b' (h2.trans h)
      simp only [drun, List.filter_cons, hop']
      exact ⟨by simpa using h3, h4⟩

/-! ### fault classes stay aligned with the scripts -/

/-- the invariant: one class per fault still in each script -/
def BSock.Aligned (b : BSock) : Prop :=
  b.rtags.length = nTO b.rx.script ∧ b.stags.length = nSF b.tx.script

theorem popTag_length {ts : List Fault} (h : 0 < ts.length) :
    ts = (popTag ts).1 :: (popTag ts).2 := by
  cases ts with
  | nil => simp at h
  | cons f fs => rfl

theorem callAttempt_nTO (large : Nat) (cfg : Cfg) (c : Call) (st : St) :
    ((callAttempt large cfg c st).1 = some .timeout →
      nTO (callAttempt large cfg c st).2.2.script + 1 = nTO st.script) ∧
    ((callAttempt large cfg c st).1 ≠ some .timeout →
      nTO (callAttempt large cfg c st).2.2.script = nTO st.script) := by
  unfold callAttempt
  cases hc : c.op large cfg.maxsize with
  | none => simp
  | some op =>
    simp only [Option.some.injEq, ne_eq]
    exact attempt_nTOex cfg op st

theorem dcall_aligned (large : Nat) (c : Call) (b : BSock) (h : b.Aligned) :
    (dcall large c b).2.Aligned ∧
    (∀ f, (dcall large c b).1 = .fault f → b.rtags = f :: (dcall large c b).2.rtags) := by
  obtain ⟨hr, hs⟩ := h
  obtain ⟨a1, a2⟩ := callAttempt_nTO large b.cfg c b.rx
  unfold dcall
  by_cases ht : (callAttempt large b.cfg c b.rx).1 = some .timeout
  · simp only [ht, ↓reduceIte, BSock.Aligned]
    have hn := a1 ht
    have hpos : 0 < b.rtags.length := by omega
    have hp := popTag_length hpos
    refine ⟨⟨?_, hs⟩, ?_⟩
    · have : b.rtags.length = (popTag b.rtags).2.length + 1 := by
        conv => lhs; rw [hp]
        simp
      omega
    · intro f hf
      simp only [DOut.fault.injEq] at hf
      rw [← hf]; exact hp
  · simp only [ht, ↓reduceIte, BSock.Aligned]
    have hn := a2 ht
    exact ⟨⟨by omega, hs⟩, by intro f hf; cases hf⟩

theorem dsop_aligned (o : SOp) (b : BSock) (h : b.Aligned) :
    (dsop o b).2.Aligned ∧
    (∀ f, (dsop o b).1 = .fault f → b.stags = f :: (dsop o b).2.stags) := by
  obtain ⟨hr, hs⟩ := h
  have hf := sstep_faults o b.tx
  unfold dsop
  by_cases ht : (sstep o b.tx).1 = .timeout
  · simp only [ht, ↓reduceIte, BSock.Aligned]
    rw [ht] at hf
    simp only [SRes.isTO] at hf
    have hpos : 0 < b.stags.length := by omega
    have hp := popTag_length hpos
    refine ⟨⟨hr, ?_⟩, ?_⟩
    · have : b.stags.length = (popTag b.stags).2.length + 1 := by
        conv => lhs; rw [hp]
        simp
      omega
    · intro f hf'
      simp only [DOut.fault.injEq] at hf'
      rw [← hf']; exact hp
  · simp only [ht, ↓reduceIte, BSock.Aligned]
    have : (sstep o b.tx).1.isTO = 0 := by
      cases hq : (sstep o b.tx).1 with
      | timeout => exact absurd hq ht
      | sent n => rfl
      | none => rfl
    exact ⟨⟨hr, by omega⟩, by intro f hf'; cases hf'⟩

theorem dstep_aligned (large : Nat) (op : DOp) (b : BSock) (h : b.Aligned) :
    (dstep large op b).2.Aligned ∧
    (∀ f, (dstep large op b).1 = .fault f →
      (op.isRx = true → b.rtags = f :: (dstep large op b).2.rtags) ∧
      (op.isRx = false → b.stags = f :: (dstep large op b).2.stags)) := by
  cases op with
  | call c =>
    obtain ⟨h1, h2⟩ := dcall_aligned large c b h
    exact ⟨h1, fun f hf => ⟨fun _ => h2 f hf, by simp [DOp.isRx]⟩⟩
  | recvFlags size flags =>
    simp only [dstep]
    split
    · exact ⟨h, by intro f hf; cases hf⟩
    · obtain ⟨h1, h2⟩ := dcall_aligned large (.recv size) b h
      exact ⟨h1, fun f hf => ⟨fun _ => h2 f hf, by simp [DOp.isRx]⟩⟩
  | sop o =>
    obtain ⟨h1, h2⟩ := dsop_aligned o b h
    exact ⟨h1, fun f hf => ⟨by simp [DOp.isRx], fun _ => h2 f hf⟩⟩
  | sendFlags d flags =>
    simp only [dstep]
    split
    · exact ⟨h, by intro f hf; cases hf⟩
    · obtain ⟨h1, h2⟩ := dsop_aligned (.send d) b h
      exact ⟨h1, fun f hf => ⟨by simp [DOp.isRx], fun _ => h2 f hf⟩⟩

theorem drun_aligned (large : Nat) : ∀ (ops : List DOp) (b : BSock), b.Aligned →
    (drun large ops b).2.Aligned := by
  intro ops
  induction ops with
  | nil => intro b h; exact h
  | cons op ops ih =>
    intro b h
    simp only [drun]
    exact ih _ (dstep_aligned large op b h).1

/-! ### conservation on the one object -/

theorem dcall_conserves (large : Nat) (c : Call) (b : BSock) (hrs : 0 < b.cfg.recvsize) :
    (DOp.call c).consumed (dcall large c b).1 large b.cfg.maxsize ++ (dcall large c b).2.rx.view = b.rx.view ∧
    (dcall large c b).2.cfg.recvsize = b.cfg.recvsize := by
  unfold dcall callAttempt
  cases hc : c.op large b.cfg.maxsize with
  | none => simp [DOp.consumed, hc]
  | some op =>
    have hcons := attempt_conserves b.cfg hrs op b.rx
    simp only [Option.some.injEq]
    by_cases ht : (attempt b.cfg op b.rx).1 = .timeout
    · simp only [ht, ↓reduceIte, DOp.consumed, List.nil_append, and_true]
      rw [ht] at hcons
      simpa [consumed_timeout] using hcons
    · simp only [ht, ↓reduceIte, DOp.consumed, hc, and_true]
      exact hcons

theorem dsop_conserves (o : SOp) (b : BSock) :
    (dsop o b).2.tx.wire ++ (dsop o b).2.tx.getsendbuffer = b.tx.wire ++ b.tx.getsendbuffer ++ o.data ∧
    b.tx.wire <+: (dsop o b).2.tx.wire := by
  have := sstep_conserves o b.tx
  unfold dsop
  split <;> exact this

/-! ### the read loop over recv; Python-int sizes -/

theorem drain_ok (cfg : Cfg) (hrs : 0 < cfg.recvsize) (size : Nat) (hs : 0 < size) :
    ∀ (fuel : Nat) (st : St), measure st.script + st.view.length + 1 ≤ fuel →
      (drain cfg size fuel st).1 = st.view ∧ (drain cfg size fuel st).2.view = [] := by
  intro fuel
  induction fuel with
  | zero => intro st h; omega
  | succ fuel ih =>
    intro st h
    rcases recv_ok cfg hrs size st with ⟨a, b, c⟩ | ⟨v, a, b, _, d, e⟩
    · cases hq : recv cfg size st with
      | mk r st' =>
        rw [hq] at a b c
        simp only at a b c
        subst a
        simp only [drain, hq]
        have := ih st' (by rw [b]; omega)
        rw [b] at this
        exact this
    · cases hq : recv cfg size st with
      | mk r st' =>
        rw [hq] at a b e
        simp only at a b e
        subst a
        cases v with
        | nil =>
          have hv := d hs rfl
          simp only [drain, hq]
          simp only [List.nil_append] at b
          exact ⟨hv.symm, by rw [b, hv]⟩
        | cons x v =>
          simp only [drain, hq]
          have hl : st.view.length = (x :: v).length + st'.view.length := by
            rw [← b]; simp; omega
          have := ih st' (by simp only [List.length_cons] at hl; omega)
          refine ⟨?_, this.2⟩
          rw [this.1]
          exact b

theorem recvSizeLoopI_ofNat (rs n : Nat) : ∀ (fuel : Nat) (acc : Bytes) (total : Nat) (nxt : Bytes)
    (script : List Ev),
    recvSizeLoopI rs (n : Int) fuel acc total nxt script = recvSizeLoop rs n fuel acc total nxt script := by
  intro fuel
  induction fuel with
  | zero => intro acc total nxt script; rfl
  | succ fuel ih =>
    intro acc total nxt script
    simp only [recvSizeLoopI, recvSizeLoop, pyDropLast, pyLast]
    by_cases hn : nxt = []
    · simp [hn]
    · simp only [hn, ↓reduceIte]
      by_cases hge : total + nxt.length ≥ n
      · have hge' : ((total + nxt.length : Nat) : Int) ≥ (n : Int) := by omega
        have hx : (((total + nxt.length : Nat) : Int) - (n : Int)).toNat = total + nxt.length - n := by omega
        simp only [hge, hge', ↓reduceIte, hx]
      · have hge' : ¬ ((total + nxt.length : Nat) : Int) ≥ (n : Int) := by omega
        simp only [hge, hge', ↓reduceIte]
        cases sockRecv rs script with
        | timeout r => rfl
        | data d r => exact ih _ _ _ _

/-- a non-positive size is met by the first non-empty `nxt`: nothing is returned, all of `nxt` stays buffered -/
theorem recvSizeLoopI_nonpos (rs : Nat) (size : Int) (hs : size ≤ 0) (fuel : Nat) (acc : Bytes) (total : Nat)
    (nxt : Bytes) (script : List Ev) :
    recvSizeLoopI rs size (fuel + 1) acc total nxt script
      = recvSizeLoopI rs 0 (fuel + 1) acc total nxt script := by
  simp only [recvSizeLoopI, pyDropLast, pyLast]
  by_cases hn : nxt = []
  · simp [hn]
  · have hpos : 0 < nxt.length := List.length_pos_iff.mpr hn
    have h1 : ((total + nxt.length : Nat) : Int) ≥ size := by omega
    have h0 : ((total + nxt.length : Nat) : Int) ≥ 0 := by omega
    have e1 : nxt.length - (((total + nxt.length : Nat) : Int) - size).toNat = 0 := by omega
    have e0 : nxt.length - (((total + nxt.length : Nat) : Int) - 0).toNat = 0 := by omega
    have n1 : (((total + nxt.length : Nat) : Int) - size).toNat ≠ 0 := by omega
    have n0 : (((total + nxt.length : Nat) : Int) - 0).toNat ≠ 0 := by omega
    simp only [hn, ↓reduceIte, h1, h0, n1, n0, ne_eq, not_false_eq_true, e1, e0]

/-- `recv_size(s)` with `s < 0` behaves exactly like `recv_size(0)` -/
theorem recvSizeI_neg (cfg : Cfg) (size : Int) (hs : size ≤ 0) (st : St) :
    recvSizeI cfg size st = recvSize cfg 0 st := by
  have key : ∀ fuel acc total nxt script,
      recvSizeLoopI cfg.recvsize size (fuel + 1) acc total nxt script
        = recvSizeLoop cfg.recvsize 0 (fuel + 1) acc total nxt script := by
    intro fuel acc total nxt script
    rw [recvSizeLoopI_nonpos cfg.recvsize size hs]
    exact recvSizeLoopI_ofNat cfg.recvsize 0 _ _ _ _ _
  unfold recvSizeI recvSize
  split
  · exact key _ _ _ _ _
  · cases sockRecv cfg.recvsize st.script with
    | timeout r => rfl
    | data d r => exact key _ _ _ _ _

theorem recvSizeI_ofNat (cfg : Cfg) (n : Nat) (st : St) : recvSizeI cfg (n : Int) st = recvSize cfg n st := by
  unfold recvSizeI recvSize
  split
  · exact recvSizeLoopI_ofNat _ _ _ _ _ _ _
  · cases sockRecv cfg.recvsize st.script with
    | timeout r => rfl
    | data d r => exact recvSizeLoopI_ofNat _ _ _ _ _ _ _

/-- the model's clamping of a negative size prefix to 0 (`parseSize`) loses nothing -/
theorem readNsI_eq (cfg : Cfg) (maxsize window : Nat) (st : St) :
    readNsI cfg maxsize window st = readNsWith cfg maxsize window st := by
  unfold readNsI readNsWith
  cases hq : recvUntil cfg [colon] window false st with
  | mk r st1 =>
    cases r with
    | ok prefix_ =>
      simp only [parseSize]
      cases hp : parsePyInt prefix_ with
      | none => simp
      | some size =>
        simp only [Option.map_some]
        by_cases hneg : size < 0
        · have h1 : ¬ size > (maxsize : Int) := by omega
          have h2 : ¬ size.toNat > maxsize := by omega
          have h3 : size.toNat = 0 := by omega
          simp only [h1, h2, ↓reduceIte]
          rw [recvSizeI_neg cfg size (by omega), h3]
          rfl
        · have hz : size = (size.toNat : Int) := by omega
          by_cases hgt : size > (maxsize : Int)
          · have h2 : size.toNat > maxsize := by omega
            simp [hgt, h2]
          · have h2 : ¬ size.toNat > maxsize := by omega
            simp only [hgt, h2, ↓reduceIte]
            have hI := recvSizeI_ofNat cfg size.toNat st1
            rw [← hz] at hI
            rw [hI]
            rfl
    | closed => rfl
    | tooLong => rfl
    | timeout => rfl
    | fuel => rfl

theorem NsSock.readNsI_eq (cfg : Cfg) (ns : NsSock) (arg : Option Nat) (st : St) :
    ns.readNsI cfg arg st = ns.readNs cfg arg st := by
  cases arg <;> simp [NsSock.readNsI, NsSock.readNs, C12.readNsI_eq]

theorem NsSock.readNsManyI_eq (cfg : Cfg) (ns : NsSock) (arg : Option Nat) : ∀ (k : Nat) (st : St),
    NsSock.readNsManyI cfg ns arg k st = NsSock.readNsMany cfg ns arg k st := by
  intro k
  induction k with
  | zero => intro st; rfl
  | succ k ih =>
    intro st
    simp only [NsSock.readNsManyI, NsSock.readNsMany, NsSock.readNsI_eq, ih]

end C12
