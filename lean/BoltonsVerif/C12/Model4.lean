import BoltonsVerif.C12.Model3
/-
C12, round 3c - what the statement leaves free is no longer pinned by the model.

(1) `recv(size)`.  The statement: "recv returns a non-empty prefix of the remaining stream no longer than
    requested (empty only at end of stream); handed over ++ buffered ++ undelivered = stream".  WHICH prefix,
    and how the rest is split between `rbuf` and the socket, is free (the code may ask the socket for
    `recvsize` bytes and buffer the surplus, or for `min(size, recvsize)` and buffer nothing, or top up a short
    buffer, ...).  A recv attempt therefore reaches the model as an OBSERVATION (`RecvObs`: what the call
    returned / that it raised a fault, `getrecvbuffer()` afterwards, how many bytes and how many faults the
    network still holds); `acceptRecv` checks exactly the relation of the statement against the model's
    current state and CONTINUES FROM THE OBSERVED STATE.  The framing calls (recv_until / recv_size / peek /
    recv_close) stay model-predicted; their theorems quantify over every state and their answers are a
    function of `rbuf ++ undelivered` only, so a run whose recv steps were merely accepted still satisfies
    them (`runMixed`, Proofs4 / Props section 10).
(2) `send`.  How many bytes of `sbuf[0]` one iteration of the loop offers to `sock.send` is free as long as
    every byte goes out exactly once and in order.  `sendLoopA` is `sendLoop` with that number as a parameter
    per iteration (`offers`, observed on the scripted socket; when the list runs out the whole buffer is
    offered - the verified code, `sendLoopA [] = sendLoop` by definition).  The model stays predictive
    (result, send buffer, wire, faults used), and every send-side law is proved for ALL offer lists.
(3) The VALUE of a framing call (recv_until / recv_size / peek / recv_close, and read_ns with its final recv(1)) is
    pinned by the statement; the split it leaves between `rbuf` and the socket is not.  After such a call the model
    may be re-seated on the observed split of the same bytes owed (`reseat`).
Core Lean only.
-/
namespace C12

deriving instance DecidableEq for St

/-! ## positions in a network script -/

/-- the rest of the script after `cb` more bytes were taken from the network and `cf` more faults were used
    up; `none` when there is no such point (a fault can only be used up when every byte in front of it has
    been taken, bytes behind a fault only after the fault) -/
def advance : List Ev → Nat → Nat → Option (List Ev)
  | [], cb, cf => if cb = 0 ∧ cf = 0 then some [] else none
  | .chunk bs :: r, cb, cf =>
    if cb = 0 ∧ cf = 0 then some (.chunk bs :: r)
    else if cb < bs.length then (if cf = 0 then some (.chunk (bs.drop cb) :: r) else none)
    else advance r (cb - bs.length) cf
  | .timeout :: r, cb, cf =>
    if cb = 0 ∧ cf = 0 then some (.timeout :: r)
    else if cf = 0 then none
    else advance r cb (cf - 1)

/-! ## recv as an acceptance step -/

/-- what was observed of one `recv(size)` attempt on the implementation -/
structure RecvObs where
  res : Option Bytes      -- `some v`: returned `v`; `none`: raised a fault (Timeout / the socket's OSError)
  rbuf : Bytes            -- getrecvbuffer() after the call
  und : Nat               -- bytes the network still holds
  faults : Nat            -- faults the network still holds
deriving Repr, DecidableEq

/-- the state an observation names, as a point of a script `s0` it lies on (the observed buffer over the rest
    of `s0` that still holds `o.und` bytes and `o.faults` faults) -/
def RecvObs.seat (o : RecvObs) (s0 : List Ev) : Option St :=
  if o.und ≤ (pending s0).length ∧ o.faults ≤ nTO s0 then
    match advance s0 ((pending s0).length - o.und) (nTO s0 - o.faults) with
    | some s => some ⟨o.rbuf, s⟩
    | none => none
  else none

/-- the observed state after a call made in state `st`: a point further along `st.script` -/
def RecvObs.state (o : RecvObs) (st : St) : Option St := o.seat st.script

/-- the statement's demand on `recv(size)`, decided against the current state: a fault must have used up a
    fault of the network and moved no byte out of `rbuf ++ undelivered`; a value must be a prefix of
    `rbuf ++ undelivered` no longer than `size`, empty only when that is empty (for `size > 0`), and what is
    buffered ++ undelivered afterwards must be exactly the rest.  `some st'` = accepted, continue from `st'`. -/
def acceptRecv (size : Nat) (o : RecvObs) (st : St) : Option St :=
  match o.state st with
  | none => none
  | some st' =>
    match o.res with
    | none => if nTO st'.script < nTO st.script ∧ st'.view = st.view then some st' else none
    | some v =>
      if v ++ st'.view = st.view ∧ v.length ≤ size ∧ (0 < size → v = [] → st.view = []) then some st'
      else none

def RecvObs.toRes (o : RecvObs) : Res :=
  match o.res with
  | some v => .ok v
  | none => .timeout

/-- the bytes the observed call handed to the caller -/
def RecvObs.handed (o : RecvObs) : Bytes := o.res.getD []

/-- what the model's own `recv` did, written as an observation -/
def obsOfRecv (p : Res × St) : RecvObs :=
  ⟨match p.1 with
    | .ok v => some v
    | _ => none,
   p.2.rbuf, (pending p.2.script).length, nTO p.2.script⟩

/-! ## runs in which recv steps are observations and the framing calls are the model's -/

inductive MStep where
  | call (op : Op) (seat : Option RecvObs)  -- a framing call, retried after Timeout: computed by the model; then
                                            -- (optionally) re-seated on the split observed after it
  | recvObs (size : Nat) (o : RecvObs)      -- one recv attempt as observed on the implementation
deriving Repr, DecidableEq

def MStep.det : MStep → Bool
  | .call op _ => op.deterministic
  | .recvObs _ _ => true

/-! The value of a framing call is pinned by the statement, the split it leaves between `rbuf` and the socket is
    not (does recv_size over-read into the buffer, or ask the socket for exactly what is missing?).  After a
    model-computed call the model may therefore be re-seated on the OBSERVED split - but only when that is a split
    of the same bytes owed with the same faults ahead; otherwise it keeps its own state, and the difference shows
    in what is compared.  `s0` is the script the network started with (an implementation that reads less than the
    model leaves MORE in the socket, so the observed point may lie before the model's own). -/

def reseat (s0 : List Ev) (o : RecvObs) (st : St) : St :=
  match o.seat s0 with
  | some st' => if st'.view = st.view ∧ nTO st'.script = nTO st.script then st' else st
  | none => st

def reseatOpt (s0 : List Ev) : Option RecvObs → St → St
  | none, st => st
  | some o, st => reseat s0 o st

/-- what the whole-stream meaning of a step depends on: the call, or what the observed recv returned (not the
    observed buffer, undelivered count or fault count) -/
def MStep.answer : MStep → MStep
  | .call op _ => .call op none
  | .recvObs _ o => .recvObs 0 ⟨o.res, [], 0, 0⟩

/-- `none` = some recv observation was not accepted -/
def runMixed (cfg : Cfg) (s0 : List Ev) : List MStep → St → Option (List Res × St)
  | [], st => some ([], st)
  | .call op seat :: r, st =>
    match runMixed cfg s0 r (reseatOpt s0 seat (callRetry cfg op st).2) with
    | some (rs, s) => some ((callRetry cfg op st).1 :: rs, s)
    | none => none
  | .recvObs size o :: r, st =>
    match acceptRecv size o st with
    | none => none
    | some st' =>
      match runMixed cfg s0 r st' with
      | some (rs, s) => some (o.toRes :: rs, s)
      | none => none

/-- the whole-stream meaning of such a run: a framing call answers as `spec` says, an observed recv takes
    the bytes it handed over off the front -/
def specMixed : List MStep → Bytes → List Res × Bytes
  | [], S => ([], S)
  | .call op _ :: r, S => ((spec op S).1 :: (specMixed r (spec op S).2).1, (specMixed r (spec op S).2).2)
  | .recvObs _ o :: r, S =>
    (o.toRes :: (specMixed r (S.drop o.handed.length)).1, (specMixed r (S.drop o.handed.length)).2)

/-- everything handed over by the observed recv steps and consumed by the framing calls of a run -/
def handedMixed : List MStep → List Res → Bytes
  | .call op _ :: r, x :: xs => consumed op x ++ handedMixed r xs
  | .recvObs _ o :: r, _ :: xs => o.handed ++ handedMixed r xs
  | _, _ => []

/-- public calls with `maxsize` still unresolved, recv calls carrying their observed attempts -/
inductive MCall where
  | call (c : Call) (seat : Option RecvObs)          -- anything but recv; the split observed after its last attempt
  | recvObs (size : Nat) (obs : List RecvObs)        -- recv(size): every attempt that was made
deriving Repr, DecidableEq

/-- resolve `maxsize` (as `resolveCalls` does) -/
def resolveMixed (large : Nat) : Nat → List MCall → List MStep
  | _, [] => []
  | selfMax, .call c seat :: cs =>
    match c.op large selfMax with
    | some op => .call op seat :: resolveMixed large selfMax cs
    | none => resolveMixed large (c.nextMax selfMax) cs
  | selfMax, .recvObs size obs :: cs => obs.map (MStep.recvObs size) ++ resolveMixed large selfMax cs

/-! ## the one object: an observed recv on `BSock` -/

/-- an observed `recv` on the object: accepted as above; the fault classes still ahead shrink by the faults
    the call used up, and a raised fault must carry the class of the LAST fault it used up -/
def daccRecv (size : Nat) (o : RecvObs) (cls : Fault) (b : BSock) : Option (DOut × BSock) :=
  match acceptRecv size o b.rx with
  | none => none
  | some st' =>
    match o.res with
    | some v =>
      some (.rx (some (.ok v)), { b with rx := st', rtags := b.rtags.drop (nTO b.rx.script - nTO st'.script) })
    | none =>
      if (b.rtags.drop (nTO b.rx.script - nTO st'.script - 1)).head? = some cls then
        some (.fault cls, { b with rx := st', rtags := b.rtags.drop (nTO b.rx.script - nTO st'.script) })
      else none

/-- re-seating on the one object -/
def dseat (s0 : List Ev) (o : Option RecvObs) (b : BSock) : BSock := { b with rx := reseatOpt s0 o b.rx }

/-! ## send: how much one iteration offers to the socket is a parameter -/

/-- the `while sbuf[0]:` loop where iteration i passes `sbuf[0][:offers[i]]` to `sock.send`; an exhausted
    `offers` means "the whole buffer", i.e. `sendLoop`.  Everything else - trimming `sbuf[0]` by what the
    socket took, the deadline check after every `sock.send`, the fault handlers - is as in `sendLoop`. -/
def sendLoopA : List Nat → List SEv → Bytes → Nat → Bytes → SRes × SSt
  | [], script, buf, total, wire => sendLoop script buf total wire
  | _ :: _, script, [], total, wire => (.sent total, ⟨[[]], wire, script⟩)
  | m :: ms, [], b :: buf, total, wire =>
    sendLoopA ms [] ((b :: buf).drop m) (total + min m (b :: buf).length) (wire ++ (b :: buf).take m)
  | _ :: _, .timeout :: r, b :: buf, _, wire => (.timeout, ⟨[b :: buf], wire, r⟩)
  | _ :: _, .clock :: r, b :: buf, _, wire => (.timeout, ⟨[b :: buf], wire, r⟩)
  | m :: ms, .accept k :: r, b :: buf, total, wire =>
    match popClock r with
    | some r' => (.timeout, ⟨[(b :: buf).drop (min m k)], wire ++ (b :: buf).take (min m k), r'⟩)
    | none =>
      sendLoopA ms r ((b :: buf).drop (min m k)) (total + min (min m k) (b :: buf).length)
        (wire ++ (b :: buf).take (min m k))

def sendA (offers : List Nat) (data : Bytes) (st : SSt) : SRes × SSt :=
  let sbuf := st.sbuf ++ [data]
  let sbuf := if sbuf.length > 1 then [(sbuf.filter isNonEmpty).flatten] else sbuf
  match sbuf with
  | b :: rest =>
    match sendLoopA offers st.script b 0 st.wire with
    | (r, st') => (r, ⟨st'.sbuf ++ rest, st'.wire, st'.script⟩)
  | [] => (.sent 0, st)

def flushA (offers : List Nat) (st : SSt) : SRes × SSt :=
  match sendA offers [] st with
  | (.sent _, st') => (.none, st')
  | other => other

/-- one send-side call whose loop offered `offers` -/
def sstepA (offers : List Nat) (op : SOp) (st : SSt) : SRes × SSt :=
  match op with
  | .send d => sendA offers d st
  | .buffer d => buffer d st
  | .flush => flushA offers st

def srunA : List (List Nat × SOp) → SSt → List (SRes × SSt) × SSt
  | [], st => ([], st)
  | (offers, op) :: ops, st =>
    let (r, st') := sstepA offers op st
    let (rs, st'') := srunA ops st'
    ((r, st') :: rs, st'')

/-- `NetstringSocket.write_ns(payload)` over a send loop with the given offers -/
def writeNsA (offers : List Nat) (maxsize : Nat) (payload : Bytes) (st : SSt) : NsWRes × SSt :=
  if payload.length > maxsize then (.nsTooLong, st)
  else match sendA offers (encodeNs payload) st with
    | (.timeout, st') => (.timeout, st')
    | (_, st') => (.ok, st')

/-- a send-side call on the object, offers observed -/
def dsopA (offers : List Nat) (o : SOp) (b : BSock) : DOut × BSock :=
  if (sstepA offers o b.tx).1 = .timeout then
    (.fault (popTag b.stags).1, { b with tx := (sstepA offers o b.tx).2, stags := (popTag b.stags).2 })
  else (.tx (sstepA offers o b.tx).1, { b with tx := (sstepA offers o b.tx).2 })

end C12
