import BoltonsVerif.C12.Model
/-
C12 — helper lemmas: the scripted socket, `findIdx`/`pyFind`, one-attempt soundness of every
receive call against the whole-stream specification, retry, sessions, send side, netstrings.
-/
namespace C12

/-! ### the scripted socket -/

theorem sockRecv_timeout {n : Nat} {s r : List Ev} (h : sockRecv n s = .timeout r) :
    pending r = pending s ∧ measure r < measure s := by
  induction s with
  | nil => simp [sockRecv] at h
  | cons e s ih =>
    cases e with
    | timeout =>
      simp only [sockRecv, RecvOut.timeout.injEq] at h
      subst h
      simp [pending, measure]
    | chunk bs =>
      simp only [sockRecv] at h
      split at h
      · rename_i hb
        subst hb
        obtain ⟨h1, h2⟩ := ih h
        simp only [pending, measure, List.nil_append, List.length_nil]
        exact ⟨h1, by omega⟩
      · split at h <;> simp at h

theorem sockRecv_data {n : Nat} {s r : List Ev} {d : Bytes} (h : sockRecv n s = .data d r) :
    pending s = d ++ pending r ∧ (d ≠ [] → measure r < measure s) ∧
    (0 < n → d = [] → pending s = []) ∧ measure r ≤ measure s := by
  induction s with
  | nil =>
    simp only [sockRecv, RecvOut.data.injEq] at h
    obtain ⟨h1, h2⟩ := h
    subst h1 h2
    simp [pending]
  | cons e s ih =>
    cases e with
    | timeout => simp [sockRecv] at h
    | chunk bs =>
      simp only [sockRecv] at h
      split at h
      · rename_i hb
        subst hb
        obtain ⟨h1, h2, h3, h4⟩ := ih h
        simp only [pending, measure, List.nil_append, List.length_nil]
        exact ⟨h1, fun hd => by have := h2 hd; omega, h3, by omega⟩
      · rename_i hb
        split at h
        · simp only [RecvOut.data.injEq] at h
          obtain ⟨h1, h2⟩ := h
          subst h1 h2
          simp [pending, measure, hb]
        · rename_i hl
          simp only [RecvOut.data.injEq] at h
          obtain ⟨h1, h2⟩ := h
          subst h1 h2
          refine ⟨?_, ?_, ?_, ?_⟩
          · simp only [pending]
            rw [← List.append_assoc, List.take_append_drop]
          · intro hne
            simp only [measure, List.length_drop]
            have : 0 < n := by
              cases n with
              | zero => simp at hne
              | succ k => omega
            omega
          · intro hn he
            rw [List.take_eq_nil_iff] at he
            rcases he with he | he
            · omega
            · exact absurd he hb
          · simp only [measure, List.length_drop]; omega

/-! ### `findIdx` / `pyFind` -/

theorem findIdx_bound {d : Bytes} : ∀ {xs : Bytes} {o : Nat}, findIdx d xs = some o → o + d.length ≤ xs.length := by
  intro xs
  induction xs with
  | nil =>
    intro o h
    simp only [findIdx] at h
    split at h
    · rename_i hp
      have := (List.isPrefixOf_iff_prefix.mp hp).length_le
      simp at h; subst h; simpa using this
    · simp at h
  | cons x xs ih =>
    intro o h
    simp only [findIdx] at h
    split at h
    · rename_i hp
      have := (List.isPrefixOf_iff_prefix.mp hp).length_le
      simp at h; subst h; simpa using this
    · cases hq : findIdx d xs with
      | none => simp [hq] at h
      | some o' =>
        simp [hq] at h
        subst h
        have := ih hq
        simp only [List.length_cons]; omega

theorem findIdx_append {d : Bytes} (ys : Bytes) : ∀ {xs : Bytes} {o : Nat},
    findIdx d xs = some o → findIdx d (xs ++ ys) = some o := by
  intro xs
  induction xs with
  | nil =>
    intro o h
    simp only [findIdx] at h
    split at h
    · rename_i hp
      have hd : d = [] := by
        have := (List.isPrefixOf_iff_prefix.mp hp).length_le
        simpa using this
      subst hd
      simp at h; subst h
      cases ys <;> simp [findIdx]
    · simp at h
  | cons x xs ih =>
    intro o h
    simp only [findIdx] at h
    split at h
    · rename_i hp
      simp at h; subst h
      have hp' : d.isPrefixOf (x :: (xs ++ ys)) = true := by
        rw [List.isPrefixOf_iff_prefix] at hp ⊢
        exact hp.trans (List.prefix_append (x :: xs) ys)
      simp only [List.cons_append, findIdx]
      rw [if_pos hp']
    · rename_i hp
      cases hq : findIdx d xs with
      | none => simp [hq] at h
      | some o' =>
        simp [hq] at h
        subst h
        have hb := findIdx_bound hq
        have hp' : ¬ d.isPrefixOf (x :: (xs ++ ys)) = true := by
          intro hc
          apply hp
          rw [List.isPrefixOf_iff_prefix] at hc ⊢
          exact List.prefix_of_prefix_length_le hc (List.prefix_append (x :: xs) ys)
            (by simp only [List.length_cons]; omega)
        simp only [List.cons_append, findIdx]
        rw [if_neg hp', ih hq]
        rfl

theorem findIdx_none {d : Bytes} : ∀ {xs : Bytes}, findIdx d xs = none →
    ∀ i, ¬ d.isPrefixOf (xs.drop i) = true := by
  intro xs
  induction xs with
  | nil =>
    intro h i
    simp only [findIdx] at h
    split at h
    · simp at h
    · rename_i hp
      simpa using hp
  | cons x xs ih =>
    intro h i
    simp only [findIdx] at h
    split at h
    · simp at h
    · rename_i hp
      cases i with
      | zero => simpa using hp
      | succ i =>
        have : findIdx d xs = none := by
          cases hq : findIdx d xs with
          | none => rfl
          | some _ => simp [hq] at h
        simpa using ih this i

theorem findIdx_skip {d : Bytes} : ∀ (s : Nat) (xs : Bytes),
    (∀ i, i < s → ¬ d.isPrefixOf (xs.drop i) = true) → s ≤ xs.length →
    findIdx d xs = (findIdx d (xs.drop s)).map (· + s) := by
  intro s
  induction s with
  | zero => intro xs _ _; simp
  | succ s ih =>
    intro xs h hl
    cases xs with
    | nil => simp at hl
    | cons x t =>
      have h0 : ¬ d.isPrefixOf (x :: t) = true := by simpa using h 0 (by omega)
      have := ih t (fun i hi => by simpa using h (i + 1) (by omega)) (by simpa using hl)
      simp only [findIdx, h0, Bool.false_eq_true, ↓reduceIte, List.drop_succ_cons, this, Option.map_map]
      congr 1

/-- the rolling search offset of `recv_until` is sound: having found nothing in `recvd`, searching
    `recvd ++ nxt` from `len(recvd) - len(d) + 1` is searching it from 0 -/
theorem pyFind_rolling {d recvd nxt : Bytes} {m : Nat} (hnone : findIdx d recvd = none)
    (hlen : recvd.length ≤ m) (hn : nxt ≠ []) :
    pyFind d (recvd ++ nxt) (-(nxt.length : Int) - (d.length : Int) + 1) m
      = findIdx d ((recvd ++ nxt).take m) := by
  have hd : d ≠ [] := by
    intro hd; subst hd
    cases recvd <;> simp [findIdx] at hnone
  have hdl : 0 < d.length := List.length_pos_iff.mpr hd
  have hnl : 0 < nxt.length := List.length_pos_iff.mpr hn
  unfold pyFind
  simp only [List.length_append]
  have hneg : (-(nxt.length : Int) - (d.length : Int) + 1) < 0 := by omega
  simp only [hneg, ↓reduceIte]
  have hs : (-(nxt.length : Int) - (d.length : Int) + 1 + ((recvd.length + nxt.length : Nat) : Int)).toNat
      = recvd.length + 1 - d.length := by omega
  rw [hs]
  have hse : ¬ (recvd.length + 1 - d.length > min m (recvd.length + nxt.length)) := by omega
  simp only [hse, ↓reduceIte]
  have htk : (recvd ++ nxt).take (min m (recvd.length + nxt.length)) = (recvd ++ nxt).take m := by
    rw [List.take_eq_take_iff]
    simp only [List.length_append]; omega
  rw [htk]
  symm
  apply findIdx_skip
  · intro i hi hc
    have hW : (recvd ++ nxt).take m = recvd ++ nxt.take (m - recvd.length) := by
      rw [List.take_append, List.take_of_length_le hlen]
    rw [hW, List.drop_append_of_le_length (by omega)] at hc
    rw [List.isPrefixOf_iff_prefix] at hc
    have : d <+: recvd.drop i :=
      List.prefix_of_prefix_length_le hc (List.prefix_append _ _) (by simp only [List.length_drop]; omega)
    exact findIdx_none hnone i (List.isPrefixOf_iff_prefix.mpr this)
  · simp only [List.length_take, List.length_append]; omega


/-! ### one attempt vs the whole-stream specification -/

/-- what a single attempt of a deterministic call must satisfy, relative to the state `st`
    it started from and the whole-stream answer `expected` -/
def AttemptOK (S : Bytes) (m : Nat) (expected : Res × Bytes) (out : Res × St) : Prop :=
  (out.1 = .timeout ∧ out.2.view = S ∧ measure out.2.script < m) ∨
  (out.1 ≠ .timeout ∧ (out.1, out.2.view) = expected ∧ measure out.2.script ≤ m ∧
     (out.1 = .closed → pending out.2.script = []))

theorem recvSizeLoop_ok (recvsize size : Nat) (hrs : 0 < recvsize) :
    ∀ (fuel : Nat) (acc : Bytes) (total : Nat) (nxt : Bytes) (script : List Ev),
      total = acc.length →
      (acc.length < size ∨ acc = []) →
      (nxt = [] → pending script = []) →
      (if nxt = [] then 1 else measure script + 2) ≤ fuel →
      AttemptOK (acc ++ nxt ++ pending script) (measure script)
        (specSize size (acc ++ nxt ++ pending script))
        (recvSizeLoop recvsize size fuel acc total nxt script) := by
  intro fuel
  induction fuel with
  | zero =>
    intro acc total nxt script _ _ _ hf
    split at hf <;> omega
  | succ fuel ih =>
    intro acc total nxt script ht hacc hnxt hf
    subst ht
    unfold recvSizeLoop
    by_cases hn : nxt = []
    · -- connection closed
      subst hn
      have hp := hnxt rfl
      simp only [↓reduceIte]
      right
      refine ⟨by simp, ?_, by simp, fun _ => hp⟩
      simp only [St.view, hp, List.append_nil, specSize]
      rcases hacc with h | h
      · have : ¬ (size ≤ acc.length ∧ acc ≠ []) := by omega
        simp [this]
      · subst h; simp
    · simp only [hn, ↓reduceIte] at hf ⊢
      by_cases hge : acc.length + nxt.length ≥ size
      · simp only [hge, ↓reduceIte]
        have hS : size ≤ (acc ++ nxt ++ pending script).length ∧ acc ++ nxt ++ pending script ≠ [] := by
          constructor
          · simp only [List.length_append]; omega
          · simp [hn]
        have hk : nxt.length - (acc.length + nxt.length - size) = size - acc.length := by
          rcases hacc with h | h
          · omega
          · subst h; simp at hge ⊢; omega
        have htake : (acc ++ nxt ++ pending script).take size = acc ++ nxt.take (size - acc.length) := by
          rw [List.append_assoc, List.take_append]
          have : acc.take size = acc := by
            apply List.take_of_length_le
            rcases hacc with h | h
            · omega
            · subst h; simp
          rw [this, List.take_append]
          have : (pending script).take (size - acc.length - nxt.length) = [] := by
            have : size - acc.length - nxt.length = 0 := by omega
            rw [this]; rfl
          rw [this, List.append_nil]
        have hdrop : (acc ++ nxt ++ pending script).drop size = nxt.drop (size - acc.length) ++ pending script := by
          rw [List.append_assoc, List.drop_append]
          have : acc.drop size = [] := by
            apply List.drop_of_length_le
            rcases hacc with h | h
            · omega
            · subst h; simp
          rw [this, List.nil_append, List.drop_append]
          have : (pending script).drop (size - acc.length - nxt.length) = pending script := by
            have : size - acc.length - nxt.length = 0 := by omega
            rw [this]; rfl
          rw [this]
        split
        · rename_i hex
          right
          refine ⟨by simp, ?_, by simp, by simp⟩
          simp only [St.view, specSize]
          rw [if_pos hS]
          simp only [hk, htake, hdrop]
        · rename_i hex
          have hex' : acc.length + nxt.length = size := by omega
          right
          refine ⟨by simp, ?_, by simp, by simp⟩
          have h1 : nxt.take (size - acc.length) = nxt := by
            apply List.take_of_length_le; omega
          have h2 : nxt.drop (size - acc.length) = [] := by
            apply List.drop_of_length_le; omega
          simp only [St.view, specSize]
          rw [if_pos hS]
          simp only [htake, hdrop, h1, h2]
      · simp only [hge, ↓reduceIte]
        cases hr : sockRecv recvsize script with
        | timeout r =>
          obtain ⟨h1, h2⟩ := sockRecv_timeout hr
          left
          simp only [St.view, h1, true_and]
          omega
        | data d r =>
          obtain ⟨h1, h2, h3, h4⟩ := sockRecv_data hr
          simp only
          have := ih (acc ++ nxt) (acc.length + nxt.length) d r (by simp) (by left; simp; omega)
            (fun hd => by have := h3 hrs hd; rw [h1, hd] at this; simpa using this)
            (by split
                · omega
                · rename_i hd; have := h2 hd; omega)
          rw [h1]
          simp only [List.append_assoc] at this ⊢
          rcases this with ⟨a, b, c⟩ | ⟨a, b, c, e⟩
          · left; exact ⟨a, b, by omega⟩
          · right; exact ⟨a, b, by omega, e⟩


theorem recvSize_ok (cfg : Cfg) (hrs : 0 < cfg.recvsize) (size : Nat) (st : St) :
    AttemptOK st.view (measure st.script) (specSize size st.view) (recvSize cfg size st) := by
  unfold recvSize
  split
  · rename_i hne
    have := recvSizeLoop_ok cfg.recvsize size hrs (measure st.script + 2) [] 0 st.rbuf st.script rfl
      (Or.inr rfl) (fun h => absurd h hne) (by simp [hne])
    simpa [St.view] using this
  · rename_i he
    have he : st.rbuf = [] := by simpa using he
    cases hr : sockRecv cfg.recvsize st.script with
    | timeout r =>
      obtain ⟨h1, h2⟩ := sockRecv_timeout hr
      left
      simp [St.view, he, h1, h2]
    | data d r =>
      obtain ⟨h1, h2, h3, h4⟩ := sockRecv_data hr
      have := recvSizeLoop_ok cfg.recvsize size hrs (measure r + 2) [] 0 d r rfl
        (Or.inr rfl) (fun hd => by have := h3 hrs hd; rw [h1, hd] at this; simpa using this)
        (by split <;> omega)
      simp only [St.view, he, List.nil_append, h1] at this ⊢
      rcases this with ⟨a, b, c⟩ | ⟨a, b, c, e⟩
      · left; exact ⟨a, b, by omega⟩
      · right; exact ⟨a, b, by omega, e⟩


theorem peek_ok (cfg : Cfg) (hrs : 0 < cfg.recvsize) (size : Nat) (st : St) :
    AttemptOK st.view (measure st.script) (specPeek size st.view) (peek cfg size st) := by
  unfold peek
  split
  · rename_i hge
    right
    refine ⟨by simp, ?_, by simp, by simp⟩
    have h1 : size ≤ st.view.length := by simp [St.view]; omega
    have h2 : st.view.take size = st.rbuf.take size := by
      simp only [St.view, List.take_append]
      have : size - st.rbuf.length = 0 := by omega
      simp [this]
    simp [specPeek, h1, h2]
  · rename_i hlt
    have hlt : st.rbuf.length < size := by omega
    have h := recvSize_ok cfg hrs size st
    cases hq : recvSize cfg size st with
    | mk r st' =>
      rw [hq] at h
      rcases h with ⟨a, b, c⟩ | ⟨a, b, c, e⟩
      · simp only at a; subst a
        left; exact ⟨rfl, b, c⟩
      · simp only [specSize] at b
        split at b
        · rename_i hS
          simp only [Prod.mk.injEq] at b
          obtain ⟨b1, b2⟩ := b
          subst b1
          right
          refine ⟨by simp, ?_, c, by simp⟩
          simp only [St.view] at b2 ⊢
          have hS1 : size ≤ (st.rbuf ++ pending st.script).length := hS.1
          simp only [specPeek]
          rw [if_pos hS1, List.append_assoc, b2, List.take_append_drop]
        · rename_i hS
          simp only [Prod.mk.injEq] at b
          obtain ⟨b1, b2⟩ := b
          subst b1
          right
          refine ⟨by simp, ?_, c, e⟩
          have : ¬ size ≤ st.view.length := by
            intro hle
            apply hS
            refine ⟨hle, ?_⟩
            intro hnil
            rw [hnil] at hle
            simp at hle
            omega
          simp [specPeek, this, b2]

theorem recvClose_ok (cfg : Cfg) (hrs : 0 < cfg.recvsize) (maxsize : Nat) (st : St) :
    AttemptOK st.view (measure st.script) (specClose maxsize st.view) (recvClose cfg maxsize st) := by
  unfold recvClose
  have h := recvSize_ok cfg hrs (maxsize + 1) st
  cases hq : recvSize cfg (maxsize + 1) st with
  | mk r st' =>
    rw [hq] at h
    rcases h with ⟨a, b, c⟩ | ⟨a, b, c, e⟩
    · simp only at a; subst a
      left; exact ⟨rfl, b, c⟩
    · simp only [specSize] at b
      split at b
      · rename_i hS
        simp only [Prod.mk.injEq] at b
        obtain ⟨b1, b2⟩ := b
        subst b1
        right
        refine ⟨by simp, ?_, c, by simp⟩
        simp only [St.view] at b2 ⊢
        have : ¬ (st.rbuf ++ pending st.script).length ≤ maxsize := by
          have := hS.1; simp only [St.view] at this; omega
        simp only [specClose, St.view, this, ↓reduceIte, Prod.mk.injEq, true_and]
        rw [List.append_assoc, b2, List.take_append_drop]
      · rename_i hS
        simp only [Prod.mk.injEq] at b
        obtain ⟨b1, b2⟩ := b
        subst b1
        have e := e rfl
        right
        refine ⟨by simp, ?_, c, by simp⟩
        have hle : st.view.length ≤ maxsize := by
          by_cases hge : maxsize + 1 ≤ st.view.length
          · have hne : st.view ≠ [] := by
              intro hnil
              rw [hnil] at hge
              simp at hge
            exact absurd ⟨hge, hne⟩ hS
          · omega
        simp only [specClose, hle, ↓reduceIte, Prod.mk.injEq, Res.ok.injEq]
        simp only [St.view, e, List.append_nil] at b2 ⊢
        exact ⟨b2, trivial⟩


theorem recvUntilLoop_ok (recvsize : Nat) (hrs : 0 < recvsize) (d : Bytes) (m : Nat) (w : Bool) :
    ∀ (fuel : Nat) (recvd : Bytes) (fstart : Int) (script : List Ev),
      pyFind d recvd fstart m = findIdx d (recvd.take m) →
      measure script + 1 ≤ fuel →
      AttemptOK (recvd ++ pending script) (measure script)
        (specUntil d m w (recvd ++ pending script))
        (recvUntilLoop recvsize d m w fuel recvd fstart script) := by
  intro fuel
  induction fuel with
  | zero => intro _ _ _ _ hf; omega
  | succ fuel ih =>
    intro recvd fstart script hinv hf
    unfold recvUntilLoop
    rw [hinv]
    have htakeS : (recvd ++ pending script).take m = recvd.take m ++ (pending script).take (m - recvd.length) :=
      List.take_append
    cases hq : findIdx d (recvd.take m) with
    | some o =>
      have hb := findIdx_bound hq
      have hb' : o + d.length ≤ recvd.length := by
        have : (recvd.take m).length ≤ recvd.length := by simp [List.length_take]; omega
        omega
      have hS : findIdx d ((recvd ++ pending script).take m) = some o := by
        rw [htakeS]; exact findIdx_append _ hq
      simp only
      right
      cases w with
      | true =>
        refine ⟨by simp, ?_, by simp, by simp⟩
        simp only [↓reduceIte, St.view, specUntil, hS]
        rw [List.take_append_of_le_length hb', List.drop_append_of_le_length hb']
      | false =>
        refine ⟨by simp, ?_, by simp, by simp⟩
        simp only [Bool.false_eq_true, ↓reduceIte, St.view, specUntil, hS]
        rw [List.take_append_of_le_length (by omega), List.drop_append_of_le_length hb']
    | none =>
      simp only
      split
      · rename_i hgt
        right
        refine ⟨by simp, ?_, by simp, by simp⟩
        have : (recvd ++ pending script).take m = recvd.take m := by
          rw [List.take_append_of_le_length (by omega)]
        have hl : (recvd ++ pending script).length > m := by simp only [List.length_append]; omega
        simp only [St.view, specUntil, this, hq, hl, ↓reduceIte]
      · rename_i hle
        have hle : recvd.length ≤ m := by omega
        have hrm : recvd.take m = recvd := List.take_of_length_le hle
        rw [hrm] at hq
        cases hr : sockRecv recvsize script with
        | timeout r =>
          obtain ⟨h1, h2⟩ := sockRecv_timeout hr
          left
          simp only [St.view, h1, true_and]
          omega
        | data nxt r =>
          obtain ⟨h1, h2, h3, h4⟩ := sockRecv_data hr
          simp only
          split
          · rename_i hn
            have hp := h3 hrs hn
            have hpr : pending r = [] := by rw [h1, hn] at hp; simpa using hp
            right
            refine ⟨by simp, ?_, h4, fun _ => hpr⟩
            have hl : ¬ (recvd.length > m) := by omega
            simp only [St.view, hp, hpr, List.append_nil, specUntil, hrm, hq, hl, ↓reduceIte]
          · rename_i hn
            have := ih (recvd ++ nxt) _ r (pyFind_rolling hq hle hn) (by have := h2 hn; omega)
            rw [h1]
            simp only [List.append_assoc] at this ⊢
            rcases this with ⟨a, b, c⟩ | ⟨a, b, c, e⟩
            · left; exact ⟨a, b, by omega⟩
            · right; exact ⟨a, b, by omega, e⟩

theorem pyFind_zero (d xs : Bytes) (m : Nat) : pyFind d xs 0 m = findIdx d (xs.take m) := by
  unfold pyFind
  simp only [Int.lt_irrefl, ↓reduceIte, Int.toNat_zero, List.drop_zero]
  have : ¬ (0 > min m xs.length) := by omega
  simp only [this, ↓reduceIte]
  have htk : xs.take (min m xs.length) = xs.take m := by
    rw [List.take_eq_take_iff]; omega
  rw [htk]
  simp

theorem recvUntil_ok (cfg : Cfg) (hrs : 0 < cfg.recvsize) (d : Bytes) (m : Nat) (w : Bool) (st : St) :
    AttemptOK st.view (measure st.script) (specUntil d m w st.view) (recvUntil cfg d m w st) := by
  unfold recvUntil
  exact recvUntilLoop_ok cfg.recvsize hrs d m w _ st.rbuf 0 st.script (pyFind_zero _ _ _) (Nat.le_refl _)


/-! ### specification facts, retry, sessions, conservation -/

theorem findIdx_some_prefix {d : Bytes} : ∀ {xs : Bytes} {o : Nat}, findIdx d xs = some o →
    d <+: xs.drop o := by
  intro xs
  induction xs with
  | nil =>
    intro o h
    simp only [findIdx] at h
    split at h
    · rename_i hp
      simp at h; subst h
      simpa using List.isPrefixOf_iff_prefix.mp hp
    · simp at h
  | cons x xs ih =>
    intro o h
    simp only [findIdx] at h
    split at h
    · rename_i hp
      simp at h; subst h
      simpa using List.isPrefixOf_iff_prefix.mp hp
    · cases hq : findIdx d xs with
      | none => simp [hq] at h
      | some o' =>
        simp [hq] at h
        subst h
        simpa using ih hq

/-- a hit of the windowed search is a real occurrence in the stream -/
theorem findIdx_take_occurrence {d S : Bytes} {m o : Nat} (h : findIdx d (S.take m) = some o) :
    (S.drop o).take d.length = d ∧ o + d.length ≤ m ∧ o + d.length ≤ S.length := by
  have hp := findIdx_some_prefix h
  have hb := findIdx_bound h
  have hlen : (S.take m).length ≤ m ∧ (S.take m).length ≤ S.length := by
    simp only [List.length_take]; omega
  refine ⟨?_, by omega, by omega⟩
  have h1 := List.prefix_iff_eq_take.mp hp
  rw [List.take_drop, List.take_take] at h1
  rw [List.take_drop]
  have : min (o + d.length) m = o + d.length := by omega
  rw [this] at h1
  exact h1.symm

theorem spec_ne_timeout (op : Op) (hdet : op.deterministic = true) (S : Bytes) :
    (spec op S).1 ≠ .timeout := by
  cases op with
  | recv n => simp [Op.deterministic] at hdet
  | peek n => simp only [spec, specPeek]; split <;> simp
  | recvSize n => simp only [spec, specSize]; split <;> simp
  | recvClose m => simp only [spec, specClose]; split <;> simp
  | recvUntil d m w =>
    simp only [spec, specUntil]
    split
    · simp
    · split <;> simp

theorem spec_ne_fuel (op : Op) (hdet : op.deterministic = true) (S : Bytes) :
    (spec op S).1 ≠ .fuel := by
  cases op with
  | recv n => simp [Op.deterministic] at hdet
  | peek n => simp only [spec, specPeek]; split <;> simp
  | recvSize n => simp only [spec, specSize]; split <;> simp
  | recvClose m => simp only [spec, specClose]; split <;> simp
  | recvUntil d m w =>
    simp only [spec, specUntil]
    split
    · simp
    · split <;> simp

/-- the whole-stream specification neither loses nor duplicates a byte -/
theorem spec_conserves (op : Op) (hdet : op.deterministic = true) (S : Bytes) :
    consumed op (spec op S).1 ++ (spec op S).2 = S := by
  cases op with
  | recv n => simp [Op.deterministic] at hdet
  | peek n => simp only [spec, specPeek]; split <;> simp [consumed]
  | recvSize n => simp only [spec, specSize]; split <;> simp [consumed]
  | recvClose m => simp only [spec, specClose]; split <;> simp [consumed]
  | recvUntil d m w =>
    simp only [spec, specUntil]
    split
    · rename_i o ho
      obtain ⟨h1, h2, h3⟩ := findIdx_take_occurrence ho
      cases w with
      | true => simp [consumed]
      | false =>
        simp only [consumed, Bool.false_eq_true, ↓reduceIte]
        have : S.take (o + d.length) = S.take o ++ d := by
          rw [List.take_add, h1]
        rw [← this, List.take_append_drop]
    · split <;> simp [consumed]

theorem attempt_ok (cfg : Cfg) (hrs : 0 < cfg.recvsize) (op : Op) (hdet : op.deterministic = true)
    (st : St) :
    AttemptOK st.view (measure st.script) (spec op st.view) (attempt cfg op st) := by
  cases op with
  | recv n => simp [Op.deterministic] at hdet
  | peek n => exact peek_ok cfg hrs n st
  | recvSize n => exact recvSize_ok cfg hrs n st
  | recvClose m => exact recvClose_ok cfg hrs m st
  | recvUntil d m w => exact recvUntil_ok cfg hrs d m w st

/-- `recv`: one attempt either times out (nothing moves) or hands over a prefix of the stream -/
theorem recv_ok (cfg : Cfg) (hrs : 0 < cfg.recvsize) (size : Nat) (st : St) :
    ((recv cfg size st).1 = .timeout ∧ (recv cfg size st).2.view = st.view ∧
        measure (recv cfg size st).2.script < measure st.script) ∨
    (∃ v, (recv cfg size st).1 = .ok v ∧ v ++ (recv cfg size st).2.view = st.view ∧
        v.length ≤ size ∧ (0 < size → v = [] → st.view = []) ∧
        measure (recv cfg size st).2.script ≤ measure st.script) := by
  unfold recv
  split
  · rename_i hge
    right
    refine ⟨_, rfl, ?_, by simp [List.length_take]; omega, ?_, by simp⟩
    · simp only [St.view]
      rw [← List.append_assoc, List.take_append_drop]
    · intro hs hv
      rw [List.take_eq_nil_iff] at hv
      rcases hv with hv | hv
      · omega
      · rw [hv] at hge; simp at hge; omega
  · rename_i hlt
    split
    · rename_i hne
      right
      refine ⟨_, rfl, by simp [St.view], by omega, fun _ hv => absurd hv hne, by simp⟩
    · rename_i he
      have he : st.rbuf = [] := by simpa using he
      cases hr : sockRecv cfg.recvsize st.script with
      | timeout r =>
        obtain ⟨h1, h2⟩ := sockRecv_timeout hr
        left
        simp [St.view, he, h1, h2]
      | data d r =>
        obtain ⟨h1, h2, h3, h4⟩ := sockRecv_data hr
        right
        simp only
        split
        · rename_i hgt
          refine ⟨_, rfl, ?_, by simp [List.length_take]; omega, ?_, h4⟩
          · simp only [St.view, he, List.nil_append, h1]
            rw [← List.append_assoc, List.take_append_drop]
          · intro hs hv
            rw [List.take_eq_nil_iff] at hv
            rcases hv with hv | hv
            · omega
            · rw [hv] at hgt; simp at hgt
        · rename_i hle
          refine ⟨_, rfl, by simp [St.view, he, h1], by omega, ?_, h4⟩
          intro _ hv
          simp only [St.view, he, List.nil_append]
          exact h3 hrs hv

theorem consumed_timeout (op : Op) : consumed op .timeout = [] := by
  cases op <;> simp [consumed]

/-- conservation for one attempt of any call, whatever it returns or raises -/
theorem attempt_conserves (cfg : Cfg) (hrs : 0 < cfg.recvsize) (op : Op) (st : St) :
    consumed op (attempt cfg op st).1 ++ (attempt cfg op st).2.view = st.view := by
  by_cases hdet : op.deterministic = true
  · rcases attempt_ok cfg hrs op hdet st with ⟨a, b, _⟩ | ⟨_, b, _, _⟩
    · rw [a, consumed_timeout]; simpa using b
    · have := spec_conserves op hdet st.view
      rw [← b] at this
      exact this
  · cases op with
    | recv n =>
      rcases recv_ok cfg hrs n st with ⟨a, b, _⟩ | ⟨v, a, b, _⟩
      · simp only [attempt]; rw [a]; simpa [consumed] using b
      · simp only [attempt]; rw [a]; simpa [consumed] using b
    | _ => simp [Op.deterministic] at hdet

theorem attempt_measure_le (cfg : Cfg) (hrs : 0 < cfg.recvsize) (op : Op) (st : St) :
    measure (attempt cfg op st).2.script ≤ measure st.script := by
  by_cases hdet : op.deterministic = true
  · rcases attempt_ok cfg hrs op hdet st with ⟨_, _, c⟩ | ⟨_, _, c, _⟩ <;> omega
  · cases op with
    | recv n =>
      rcases recv_ok cfg hrs n st with ⟨_, _, c⟩ | ⟨v, _, _, _, _, c⟩
      · simp only [attempt]; omega
      · simp only [attempt]; omega
    | _ => simp [Op.deterministic] at hdet

/-- retrying after Timeout ends with the whole-stream answer -/
theorem retryLoop_ok (cfg : Cfg) (hrs : 0 < cfg.recvsize) (op : Op) (hdet : op.deterministic = true) :
    ∀ (fuel : Nat) (st : St), measure st.script + 1 ≤ fuel →
      ((retryLoop cfg op fuel st).1, (retryLoop cfg op fuel st).2.view) = spec op st.view ∧
      measure (retryLoop cfg op fuel st).2.script ≤ measure st.script := by
  intro fuel
  induction fuel with
  | zero => intro _ h; omega
  | succ fuel ih =>
    intro st hf
    unfold retryLoop
    have h := attempt_ok cfg hrs op hdet st
    cases hq : attempt cfg op st with
    | mk r st' =>
      rw [hq] at h
      rcases h with ⟨a, b, c⟩ | ⟨a, b, c, _⟩
      · simp only at a b c
        subst a
        simp only
        have := ih st' (by omega)
        rw [b] at this
        exact ⟨this.1, by omega⟩
      · simp only at a b c
        cases r with
        | timeout => exact absurd rfl a
        | ok v => exact ⟨b, c⟩
        | closed => exact ⟨b, c⟩
        | tooLong => exact ⟨b, c⟩
        | fuel => exact ⟨b, c⟩

theorem callRetry_ok (cfg : Cfg) (hrs : 0 < cfg.recvsize) (op : Op) (hdet : op.deterministic = true)
    (st : St) :
    ((callRetry cfg op st).1, (callRetry cfg op st).2.view) = spec op st.view :=
  (retryLoop_ok cfg hrs op hdet _ st (Nat.le_refl _)).1

theorem runRetry_ok (cfg : Cfg) (hrs : 0 < cfg.recvsize) :
    ∀ (ops : List Op) (st : St), (∀ op ∈ ops, op.deterministic = true) →
      ((runRetry cfg ops st).1, (runRetry cfg ops st).2.view) = specRun ops st.view := by
  intro ops
  induction ops with
  | nil => intro st _; simp [runRetry, specRun]
  | cons op ops ih =>
    intro st hall
    have h1 := callRetry_ok cfg hrs op (hall op (by simp)) st
    have h2 := ih (callRetry cfg op st).2 (fun o ho => hall o (by simp [ho]))
    simp only [runRetry, specRun]
    rw [← h1]
    simp only
    rw [← h2]

theorem runAttempts_conserves (cfg : Cfg) (hrs : 0 < cfg.recvsize) :
    ∀ (ops : List Op) (st : St),
      handedOver ops (runAttempts cfg ops st).1 ++ (runAttempts cfg ops st).2.view = st.view := by
  intro ops
  induction ops with
  | nil => intro st; simp [runAttempts, handedOver]
  | cons op ops ih =>
    intro st
    have h1 := attempt_conserves cfg hrs op st
    have h2 := ih (attempt cfg op st).2
    simp only [runAttempts, handedOver]
    rw [List.append_assoc, h2, h1]



/-! ### send side -/

theorem popClock_length {s r : List SEv} (h : popClock s = some r) : r.length < s.length := by
  cases s with
  | nil => simp [popClock] at h
  | cons e s =>
    cases e <;> simp [popClock] at h
    subst h; simp

theorem sendLoop_ok : ∀ (script : List SEv) (buf : Bytes) (total : Nat) (wire : Bytes),
    (sendLoop script buf total wire).2.wire ++ (sendLoop script buf total wire).2.sbuf.flatten = wire ++ buf ∧
    wire <+: (sendLoop script buf total wire).2.wire ∧
    (sendLoop script buf total wire).1 ≠ .none ∧
    (∀ n, (sendLoop script buf total wire).1 = .sent n →
      (sendLoop script buf total wire).2.sbuf = [[]] ∧
      total + (sendLoop script buf total wire).2.wire.length = n + wire.length) ∧
    ((sendLoop script buf total wire).1 = .timeout →
      (sendLoop script buf total wire).2.script.length < script.length) ∧
    (sendLoop script buf total wire).2.script.length ≤ script.length := by
  intro script
  induction script with
  | nil =>
    intro buf total wire
    cases buf with
    | nil => simp [sendLoop]
    | cons b buf =>
      simp only [sendLoop]
      refine ⟨by simp, by simp, by simp, ?_, by simp, by simp⟩
      intro n hn
      simp only [SRes.sent.injEq] at hn
      simp only [List.length_append, List.length_cons, true_and] at hn ⊢
      omega
  | cons e script ih =>
    intro buf total wire
    cases buf with
    | nil => simp [sendLoop]
    | cons b buf =>
      cases e with
      | timeout => simp [sendLoop]
      | clock => simp [sendLoop]
      | accept k =>
        simp only [sendLoop]
        cases hp : popClock script with
        | some r' =>
          have hlen : r'.length < script.length := popClock_length hp
          simp only
          refine ⟨?_, by simp, by simp, by simp, ?_, ?_⟩
          · simp [List.append_assoc, List.take_append_drop]
          · intro _; simp only [List.length_cons]; omega
          · simp only [List.length_cons]; omega
        | none =>
          simp only
          obtain ⟨h1, h2, h3, h4, h5, h6⟩ := ih ((b :: buf).drop k) (total + min k (b :: buf).length)
            (wire ++ (b :: buf).take k)
          refine ⟨?_, ?_, h3, ?_, ?_, ?_⟩
          · rw [h1, List.append_assoc, List.take_append_drop]
          · exact (List.prefix_append _ _).trans h2
          · intro n hn
            obtain ⟨a, c⟩ := h4 n hn
            refine ⟨a, ?_⟩
            simp only [List.length_append, List.length_take] at c
            omega
          · intro ht; have := h5 ht; simp only [List.length_cons] at *; omega
          · simp only [List.length_cons] at *; omega

theorem flatten_filter_isNonEmpty : ∀ (L : List Bytes), (L.filter isNonEmpty).flatten = L.flatten := by
  intro L
  induction L with
  | nil => rfl
  | cons b L ih =>
    cases b with
    | nil => simpa [List.filter, isNonEmpty] using ih
    | cons x b => simp [List.filter, isNonEmpty, ih]

theorem send_ok (data : Bytes) (st : SSt) :
    (send data st).2.wire ++ (send data st).2.getsendbuffer = st.wire ++ st.getsendbuffer ++ data ∧
    st.wire <+: (send data st).2.wire ∧
    (send data st).1 ≠ .none ∧
    (∀ n, (send data st).1 = .sent n →
      (send data st).2.getsendbuffer = [] ∧ (send data st).2.wire.length = st.wire.length + n) ∧
    ((send data st).1 = .timeout → (send data st).2.script.length < st.script.length) ∧
    (send data st).2.script.length ≤ st.script.length := by
  unfold send
  simp only [SSt.getsendbuffer]
  by_cases hl : (st.sbuf ++ [data]).length > 1
  · simp only [hl, ↓reduceIte]
    obtain ⟨h1, h2, h3, h4, h5, h6⟩ :=
      sendLoop_ok st.script (List.filter isNonEmpty (st.sbuf ++ [data])).flatten 0 st.wire
    refine ⟨?_, h2, h3, ?_, h5, h6⟩
    · simp only [List.append_nil]
      rw [h1]
      rw [flatten_filter_isNonEmpty]
      simp
    · intro n hn
      obtain ⟨a, c⟩ := h4 n hn
      simp only [List.append_nil]
      rw [a]
      exact ⟨rfl, by omega⟩
  · simp only [hl, ↓reduceIte]
    have hs : st.sbuf = [] := by
      simp only [List.length_append, List.length_cons, List.length_nil] at hl
      have : st.sbuf.length = 0 := by omega
      exact List.length_eq_zero_iff.mp this
    simp only [hs, List.nil_append]
    obtain ⟨h1, h2, h3, h4, h5, h6⟩ := sendLoop_ok st.script data 0 st.wire
    refine ⟨?_, h2, h3, ?_, h5, h6⟩
    · simp only [List.append_nil, List.flatten_nil]
      rw [h1]
    · intro n hn
      obtain ⟨a, c⟩ := h4 n hn
      simp only [List.append_nil]
      rw [a]
      exact ⟨rfl, by omega⟩

theorem flush_ok (st : SSt) :
    (flush st).2.wire ++ (flush st).2.getsendbuffer = st.wire ++ st.getsendbuffer ∧
    st.wire <+: (flush st).2.wire ∧
    ((flush st).1 = .none → (flush st).2.getsendbuffer = []) ∧
    ((flush st).1 = .none ∨ (flush st).1 = .timeout) ∧
    ((flush st).1 = .timeout → (flush st).2.script.length < st.script.length) ∧
    (flush st).2.script.length ≤ st.script.length := by
  obtain ⟨h1, h2, h3, h4, h5, h6⟩ := send_ok [] st
  unfold flush
  cases hq : send [] st with
  | mk r st' =>
    rw [hq] at h1 h2 h3 h4 h5 h6
    cases r with
    | sent n =>
      simp only at h1 h2 h4 h6 ⊢
      exact ⟨by simpa using h1, h2, fun _ => (h4 n rfl).1, by simp, by simp, h6⟩
    | none => exact absurd rfl h3
    | timeout =>
      simp only at h1 h2 h5 h6 ⊢
      exact ⟨by simpa using h1, h2, by simp, by simp, h5, h6⟩

theorem sstep_conserves (op : SOp) (st : SSt) :
    (sstep op st).2.wire ++ (sstep op st).2.getsendbuffer = st.wire ++ st.getsendbuffer ++ op.data ∧
    st.wire <+: (sstep op st).2.wire := by
  cases op with
  | send d =>
    simp only [sstep, SOp.data]
    exact ⟨(send_ok d st).1, (send_ok d st).2.1⟩
  | buffer d => simp [sstep, buffer, SSt.getsendbuffer, SOp.data]
  | flush =>
    simp only [sstep, SOp.data, List.append_nil]
    exact ⟨(flush_ok st).1, (flush_ok st).2.1⟩

theorem srun_conserves : ∀ (ops : List SOp) (st : SSt),
    (srun ops st).2.wire ++ (srun ops st).2.getsendbuffer
      = st.wire ++ st.getsendbuffer ++ (ops.map SOp.data).flatten ∧
    st.wire <+: (srun ops st).2.wire := by
  intro ops
  induction ops with
  | nil => intro st; simp [srun]
  | cons op ops ih =>
    intro st
    obtain ⟨h1, h2⟩ := sstep_conserves op st
    obtain ⟨h3, h4⟩ := ih (sstep op st).2
    simp only [srun]
    refine ⟨?_, h2.trans h4⟩
    rw [h3, h1]
    simp



/-! ### timeout accounting: a call raises Timeout only when the socket did -/

theorem sockRecv_nTO_timeout {n : Nat} {s r : List Ev} (h : sockRecv n s = .timeout r) :
    nTO r + 1 = nTO s := by
  induction s with
  | nil => simp [sockRecv] at h
  | cons e s ih =>
    cases e with
    | timeout =>
      simp only [sockRecv, RecvOut.timeout.injEq] at h
      subst h; simp [nTO]
    | chunk bs =>
      simp only [sockRecv] at h
      split at h
      · simpa [nTO] using ih h
      · split at h <;> simp at h

theorem sockRecv_nTO_data {n : Nat} {s r : List Ev} {d : Bytes} (h : sockRecv n s = .data d r) :
    nTO r = nTO s := by
  induction s with
  | nil =>
    simp only [sockRecv, RecvOut.data.injEq] at h
    obtain ⟨_, h2⟩ := h
    subst h2; rfl
  | cons e s ih =>
    cases e with
    | timeout => simp [sockRecv] at h
    | chunk bs =>
      simp only [sockRecv] at h
      split at h
      · simpa [nTO] using ih h
      · split at h
        · simp only [RecvOut.data.injEq] at h
          obtain ⟨_, h2⟩ := h
          subst h2; simp [nTO]
        · simp only [RecvOut.data.injEq] at h
          obtain ⟨_, h2⟩ := h
          subst h2; simp [nTO]

/-- timeout accounting of a call's outcome -/
def TOok (t : Nat) (out : Res × St) : Prop :=
  nTO out.2.script ≤ t ∧ (out.1 = .timeout → nTO out.2.script < t)

theorem recvSizeLoop_nTO (recvsize size : Nat) :
    ∀ (fuel : Nat) (acc : Bytes) (total : Nat) (nxt : Bytes) (script : List Ev),
      TOok (nTO script) (recvSizeLoop recvsize size fuel acc total nxt script) := by
  intro fuel
  induction fuel with
  | zero => intro acc total nxt script; simp [recvSizeLoop, TOok]
  | succ fuel ih =>
    intro acc total nxt script
    unfold recvSizeLoop
    split
    · simp [TOok]
    · simp only
      split
      · split <;> simp [TOok]
      · cases hr : sockRecv recvsize script with
        | timeout r =>
          have := sockRecv_nTO_timeout hr
          simp only [TOok]; omega
        | data d r =>
          have := sockRecv_nTO_data hr
          simp only
          have h := ih (acc ++ nxt) (total + nxt.length) d r
          rw [this] at h
          exact h

theorem recvSize_nTO (cfg : Cfg) (size : Nat) (st : St) :
    TOok (nTO st.script) (recvSize cfg size st) := by
  unfold recvSize
  split
  · exact recvSizeLoop_nTO _ _ _ _ _ _ _
  · cases hr : sockRecv cfg.recvsize st.script with
    | timeout r =>
      have := sockRecv_nTO_timeout hr
      simp only [TOok]; omega
    | data d r =>
      have := sockRecv_nTO_data hr
      simp only
      have h := recvSizeLoop_nTO cfg.recvsize size (measure r + 2) [] 0 d r
      rw [this] at h
      exact h

theorem peek_nTO (cfg : Cfg) (size : Nat) (st : St) :
    TOok (nTO st.script) (peek cfg size st) := by
  unfold peek
  split
  · simp [TOok]
  · have h := recvSize_nTO cfg size st
    cases hq : recvSize cfg size st with
    | mk r st' =>
      rw [hq] at h
      cases r <;> simpa [TOok] using h

theorem recvClose_nTO (cfg : Cfg) (m : Nat) (st : St) :
    TOok (nTO st.script) (recvClose cfg m st) := by
  unfold recvClose
  have h := recvSize_nTO cfg (m + 1) st
  cases hq : recvSize cfg (m + 1) st with
  | mk r st' =>
    rw [hq] at h
    cases r <;> simpa [TOok] using h

theorem recvUntilLoop_nTO (recvsize : Nat) (d : Bytes) (m : Nat) (w : Bool) :
    ∀ (fuel : Nat) (recvd : Bytes) (fstart : Int) (script : List Ev),
      TOok (nTO script) (recvUntilLoop recvsize d m w fuel recvd fstart script) := by
  intro fuel
  induction fuel with
  | zero => intro recvd fstart script; simp [recvUntilLoop, TOok]
  | succ fuel ih =>
    intro recvd fstart script
    unfold recvUntilLoop
    split
    · split <;> simp [TOok]
    · split
      · simp [TOok]
      · cases hr : sockRecv recvsize script with
        | timeout r =>
          have := sockRecv_nTO_timeout hr
          simp only [TOok]; omega
        | data nxt r =>
          have := sockRecv_nTO_data hr
          simp only
          split
          · simp [TOok, this]
          · have h := ih (recvd ++ nxt) (-(nxt.length : Int) - (d.length : Int) + 1) r
            rw [this] at h
            exact h

theorem recvUntil_nTO (cfg : Cfg) (d : Bytes) (m : Nat) (w : Bool) (st : St) :
    TOok (nTO st.script) (recvUntil cfg d m w st) :=
  recvUntilLoop_nTO _ _ _ _ _ _ _ _

theorem recv_nTO (cfg : Cfg) (size : Nat) (st : St) :
    TOok (nTO st.script) (recv cfg size st) := by
  unfold recv
  split
  · simp [TOok]
  · split
    · simp [TOok]
    · cases hr : sockRecv cfg.recvsize st.script with
      | timeout r =>
        have := sockRecv_nTO_timeout hr
        simp only [TOok]; omega
      | data d r =>
        have := sockRecv_nTO_data hr
        simp only
        split <;> simp [TOok, this]

theorem attempt_nTO (cfg : Cfg) (op : Op) (st : St) :
    TOok (nTO st.script) (attempt cfg op st) := by
  cases op with
  | recv n => exact recv_nTO cfg n st
  | peek n => exact peek_nTO cfg n st
  | recvSize n => exact recvSize_nTO cfg n st
  | recvClose m => exact recvClose_nTO cfg m st
  | recvUntil d m w => exact recvUntil_nTO cfg d m w st


/-! ### decimal digits -/

def val (bs : Bytes) : Nat := bs.foldl (fun acc b => acc * 10 + (b - 48)) 0

theorem val_append_single (xs : Bytes) (b : Nat) : val (xs ++ [b]) = val xs * 10 + (b - 48) := by
  simp [val, List.foldl_append]

theorem digitsAux_acc : ∀ (fuel n : Nat) (acc : Bytes), digitsAux fuel n acc = digitsAux fuel n [] ++ acc := by
  intro fuel
  induction fuel with
  | zero => intro n acc; simp [digitsAux]
  | succ fuel ih =>
    intro n acc
    simp only [digitsAux]
    split
    · simp
    · rw [ih (n / 10) ((48 + n % 10) :: acc), ih (n / 10) [48 + n % 10]]
      simp

theorem digitsAux_small (fuel n : Nat) (h : n < 10) : digitsAux fuel n [] = [48 + n] := by
  cases fuel with
  | zero => simp [digitsAux, Nat.mod_eq_of_lt h]
  | succ f => simp [digitsAux, h]

theorem digitsAux_big (fuel n : Nat) (h : ¬ n < 10) :
    digitsAux (fuel + 1) n [] = digitsAux fuel (n / 10) [] ++ [48 + n % 10] := by
  simp only [digitsAux, h, ↓reduceIte]
  exact digitsAux_acc _ _ _

/-- with enough fuel the digit string is non-empty, all ASCII digits, and denotes `n` -/
theorem digitsAux_spec : ∀ (fuel n : Nat), n ≤ fuel →
    digitsAux fuel n [] ≠ [] ∧ (digitsAux fuel n []).all isDigit = true ∧ val (digitsAux fuel n []) = n := by
  intro fuel
  induction fuel with
  | zero =>
    intro n h
    have : n = 0 := by omega
    subst this
    simp [digitsAux, isDigit, val]
  | succ fuel ih =>
    intro n h
    by_cases hn : n < 10
    · rw [digitsAux_small _ _ hn]
      refine ⟨by simp, ?_, ?_⟩
      · simp only [List.all_cons, List.all_nil, Bool.and_true, isDigit, Bool.and_eq_true, decide_eq_true_eq]
        omega
      · simp [val]
    · rw [digitsAux_big _ _ hn]
      obtain ⟨h1, h2, h3⟩ := ih (n / 10) (by omega)
      refine ⟨by simp, ?_, ?_⟩
      · simp only [List.all_append, h2, List.all_cons, List.all_nil, Bool.and_true, Bool.true_and, isDigit,
          Bool.and_eq_true, decide_eq_true_eq]
        omega
      · rw [val_append_single, h3]
        omega

theorem digitsAux_length_mono : ∀ (f2 f1 n m : Nat), n ≤ f1 → m ≤ f2 → n ≤ m →
    (digitsAux f1 n []).length ≤ (digitsAux f2 m []).length := by
  intro f2
  induction f2 with
  | zero =>
    intro f1 n m h1 h2 h3
    have hm : m = 0 := by omega
    have hn : n = 0 := by omega
    subst hm hn
    rw [digitsAux_small _ _ (by omega), digitsAux_small _ _ (by omega)]
    simp
  | succ f2 ih =>
    intro f1 n m h1 h2 h3
    by_cases hn : n < 10
    · rw [digitsAux_small _ _ hn]
      by_cases hm : m < 10
      · rw [digitsAux_small _ _ hm]; simp
      · rw [digitsAux_big _ _ hm]; simp
    · have hm : ¬ m < 10 := by omega
      cases f1 with
      | zero => omega
      | succ f1 =>
        rw [digitsAux_big _ _ hn, digitsAux_big _ _ hm]
        have := ih f1 (n / 10) (m / 10) (by omega) (by omega) (Nat.div_le_div_right h3)
        simp only [List.length_append, List.length_cons, List.length_nil]
        omega

theorem digits_ne_nil (n : Nat) : digits n ≠ [] := (digitsAux_spec n n (Nat.le_refl _)).1
theorem digits_all (n : Nat) : (digits n).all isDigit = true := (digitsAux_spec n n (Nat.le_refl _)).2.1
theorem digits_val (n : Nat) : val (digits n) = n := (digitsAux_spec n n (Nat.le_refl _)).2.2
theorem digits_length_mono {n m : Nat} (h : n ≤ m) : (digits n).length ≤ (digits m).length :=
  digitsAux_length_mono m n n m (Nat.le_refl _) (Nat.le_refl _) h

/-- `int(str(n))` is `n` -/
theorem parseNat_digits (n : Nat) : parseNat (digits n) = some n := by
  unfold parseNat
  rw [if_pos ⟨digits_ne_nil n, digits_all n⟩]
  exact congrArg some (digits_val n)

/-! #### Python's lenient int() agrees with the strict syntax on strict input -/

theorem isDigit_not_space {b : Nat} (h : isDigit b = true) : isSpace b = false := by
  simp only [isDigit, Bool.and_eq_true, decide_eq_true_eq] at h
  simp only [isSpace, Bool.or_eq_false_iff, Bool.and_eq_false_iff, beq_eq_false_iff_ne, ne_eq,
    decide_eq_false_iff_not]
  omega

theorem stripL_digit_head {b : Nat} {bs : Bytes} (h : isDigit b = true) : stripL (b :: bs) = b :: bs := by
  simp [stripL, isDigit_not_space h]

theorem parseBody_digits : ∀ (ds : Bytes) (acc : Nat) (p : Prev), ds.all isDigit = true →
    (ds ≠ [] ∨ p = .digit) → parseBody acc p ds = some (ds.foldl (fun a b => a * 10 + (b - 48)) acc) := by
  intro ds
  induction ds with
  | nil =>
    intro acc p _ h
    rcases h with h | h
    · exact absurd rfl h
    · simp [parseBody, h]
  | cons b bs ih =>
    intro acc p hall _
    simp only [List.all_cons, Bool.and_eq_true] at hall
    simp only [parseBody, hall.1, ↓reduceIte, List.foldl_cons]
    exact ih _ .digit hall.2 (Or.inr rfl)

theorem parsePyInt_strict {bs : Bytes} (hne : bs ≠ []) (hall : bs.all isDigit = true) :
    parsePyInt bs = some (Int.ofNat (bs.foldl (fun a b => a * 10 + (b - 48)) 0)) := by
  -- first and last byte are digits, so nothing is stripped; the first byte is no sign
  have hlast : ∀ x ∈ bs.reverse, isDigit x = true := by
    intro x hx
    exact (List.all_eq_true.mp hall) x (List.mem_reverse.mp hx)
  have hrev_ne : bs.reverse ≠ [] := by simpa using hne
  have hstripL : stripL bs = bs := by
    cases bs with
    | nil => exact absurd rfl hne
    | cons b r =>
      simp only [List.all_cons, Bool.and_eq_true] at hall
      exact stripL_digit_head hall.1
  have hstripR : stripR bs = bs := by
    unfold stripR
    cases hr : bs.reverse with
    | nil => exact absurd hr hrev_ne
    | cons x xs =>
      have hx : isDigit x = true := hlast x (by rw [hr]; simp)
      rw [stripL_digit_head hx, ← hr, List.reverse_reverse]
  unfold parsePyInt
  rw [hstripL, hstripR]
  cases bs with
  | nil => exact absurd rfl hne
  | cons b r =>
    have hb : isDigit b = true := by
      simp only [List.all_cons, Bool.and_eq_true] at hall
      exact hall.1
    have hb' : 48 ≤ b ∧ b ≤ 57 := by
      simpa [isDigit] using hb
    have h43 : ¬ b = 43 := by omega
    have h45 : ¬ b = 45 := by omega
    simp only [h43, h45, ↓reduceIte]
    rw [parseBody_digits (b :: r) 0 .start hall (Or.inl (by simp))]
    rfl

/-- on a strict decimal size prefix the lenient parser gives the same size -/
theorem parseSize_of_parseNat {bs : Bytes} {n : Nat} (h : parseNat bs = some n) : parseSize bs = some n := by
  unfold parseNat at h
  split at h
  · rename_i hc
    simp only [Option.some.injEq] at h
    unfold parseSize
    rw [parsePyInt_strict hc.1 hc.2]
    simp [h]
  · simp at h

theorem parseSize_digits (n : Nat) : parseSize (digits n) = some n :=
  parseSize_of_parseNat (parseNat_digits n)

theorem colon_not_in_digits (n : Nat) : colon ∉ digits n := by
  intro h
  have := List.all_eq_true.mp (digits_all n) colon h
  simp [isDigit, colon] at this

/-- searching a single byte: the first occurrence after a run that does not contain it -/
theorem findIdx_single {c : Nat} : ∀ (xs rest : Bytes), c ∉ xs →
    findIdx [c] (xs ++ c :: rest) = some xs.length := by
  intro xs
  induction xs with
  | nil => intro rest _; simp [findIdx, List.isPrefixOf]
  | cons x xs ih =>
    intro rest hc
    have hx : x ≠ c := by intro h; apply hc; simp [h]
    have hc' : c ∉ xs := by intro h; apply hc; simp [h]
    have : ([c] : Bytes).isPrefixOf (x :: (xs ++ c :: rest)) = false := by
      simp [List.isPrefixOf, Ne.symm hx]
    simp only [List.cons_append, findIdx, this, Bool.false_eq_true, ↓reduceIte, ih rest hc', Option.map_some,
      List.length_cons]



/-! ### netstrings -/

theorem specUntil_frame (maxsize : Nat) (p rest : Bytes) (hp : p.length ≤ maxsize) :
    specUntil [colon] ((digits maxsize).length + 1) false (encodeNs p ++ rest)
      = (.ok (digits p.length), p ++ comma :: rest) := by
  have hS : encodeNs p ++ rest = digits p.length ++ colon :: (p ++ comma :: rest) := by
    simp [encodeNs]
  have hlen := digits_length_mono hp
  have htake : (encodeNs p ++ rest).take ((digits maxsize).length + 1)
      = digits p.length ++ colon :: (p ++ comma :: rest).take ((digits maxsize).length - (digits p.length).length) := by
    rw [hS, List.take_append]
    have h1 : (digits p.length).take ((digits maxsize).length + 1) = digits p.length :=
      List.take_of_length_le (by omega)
    have h2 : (digits maxsize).length + 1 - (digits p.length).length
        = ((digits maxsize).length - (digits p.length).length) + 1 := by omega
    rw [h1, h2, List.take_succ_cons]
  have hfind := findIdx_single (c := colon) (digits p.length)
    ((p ++ comma :: rest).take ((digits maxsize).length - (digits p.length).length)) (colon_not_in_digits _)
  simp only [specUntil, htake, hfind, Bool.false_eq_true, ↓reduceIte, List.length_cons, List.length_nil,
    Nat.zero_add]
  rw [hS]
  simp

theorem readNs_frame (cfg : Cfg) (hrs : 0 < cfg.recvsize) (maxsize : Nat) (p rest : Bytes) (st : St)
    (hto : nTO st.script = 0) (hview : st.view = encodeNs p ++ rest) (hp : p.length ≤ maxsize) :
    (readNs cfg maxsize st).1 = .ok p ∧ (readNs cfg maxsize st).2.view = rest ∧
    nTO (readNs cfg maxsize st).2.script = 0 := by
  unfold readNs
  -- the size prefix
  have h1 := recvUntil_ok cfg hrs [colon] ((digits maxsize).length + 1) false st
  have t1 := recvUntil_nTO cfg [colon] ((digits maxsize).length + 1) false st
  cases hq1 : recvUntil cfg [colon] ((digits maxsize).length + 1) false st with
  | mk r1 st1 =>
  rw [hq1] at h1 t1
  obtain ⟨t1a, t1b⟩ := t1
  simp only at t1a t1b
  have hto1 : nTO st1.script = 0 := by omega
  rcases h1 with ⟨a, _, _⟩ | ⟨_, b, _, _⟩
  · have := t1b a; omega
  · rw [hview, specUntil_frame maxsize p rest hp] at b
    simp only [Prod.mk.injEq] at b
    obtain ⟨b1, b2⟩ := b
    subst b1
    simp only [parseSize_digits]
    have hnot : ¬ p.length > maxsize := by omega
    simp only [hnot, ↓reduceIte]
    -- the payload
    have h2 := recvSize_ok cfg hrs p.length st1
    have t2 := recvSize_nTO cfg p.length st1
    cases hq2 : recvSize cfg p.length st1 with
    | mk r2 st2 =>
    rw [hq2] at h2 t2
    obtain ⟨t2a, t2b⟩ := t2
    simp only at t2a t2b
    have hto2 : nTO st2.script = 0 := by omega
    rcases h2 with ⟨a, _, _⟩ | ⟨_, b, _, _⟩
    · have := t2b a; omega
    · rw [b2] at b
      have hs : specSize p.length (p ++ comma :: rest) = (.ok p, comma :: rest) := by
        have hc : p.length ≤ (p ++ comma :: rest).length ∧ p ++ comma :: rest ≠ [] := by
          constructor
          · simp
          · simp
        simp only [specSize]
        rw [if_pos hc]
        simp
      rw [hs] at b
      simp only [Prod.mk.injEq] at b
      obtain ⟨c1, c2⟩ := b
      subst c1
      simp only
      -- the trailing comma
      have h3 := recv_ok cfg hrs 1 st2
      have t3 := recv_nTO cfg 1 st2
      cases hq3 : recv cfg 1 st2 with
      | mk r3 st3 =>
      rw [hq3] at h3 t3
      obtain ⟨t3a, t3b⟩ := t3
      simp only at t3a t3b
      have hto3 : nTO st3.script = 0 := by omega
      rcases h3 with ⟨a, _, _⟩ | ⟨v, a, e, f, g, _⟩
      · have := t3b a; omega
      · simp only at a e f g
        subst a
        rw [c2] at e g
        have hv : v = [comma] ∧ st3.view = rest := by
          cases v with
          | nil => have := g (by omega) rfl; simp at this
          | cons x v =>
            cases v with
            | nil =>
              simp only [List.cons_append, List.nil_append, List.cons.injEq] at e
              exact ⟨by rw [e.1], e.2⟩
            | cons y v => simp at f
        simp only [hv.1, ↓reduceIte]
        exact ⟨trivial, hv.2, hto3⟩

/-- reading back a concatenation of frames, whatever the chunking -/
theorem readNsMany_frames (cfg : Cfg) (hrs : 0 < cfg.recvsize) (maxsize : Nat) :
    ∀ (ps : List Bytes) (rest : Bytes) (st : St), nTO st.script = 0 →
      st.view = (ps.map encodeNs).flatten ++ rest → (∀ p ∈ ps, p.length ≤ maxsize) →
      (readNsMany cfg maxsize ps.length st).1 = ps.map NsRes.ok ∧
      (readNsMany cfg maxsize ps.length st).2.view = rest := by
  intro ps
  induction ps with
  | nil => intro rest st _ hv _; simpa [readNsMany] using hv
  | cons p ps ih =>
    intro rest st hto hv hall
    have hv' : st.view = encodeNs p ++ ((ps.map encodeNs).flatten ++ rest) := by
      rw [hv]; simp
    obtain ⟨a, b, c⟩ := readNs_frame cfg hrs maxsize p _ st hto hv' (hall p (by simp))
    obtain ⟨d, e⟩ := ih rest (readNs cfg maxsize st).2 c b (fun q hq => hall q (by simp [hq]))
    simp only [List.length_cons, readNsMany, List.map_cons]
    rw [a, d]
    exact ⟨rfl, e⟩

theorem writeNs_conserves (maxsize : Nat) (p : Bytes) (st : SSt) :
    (writeNs maxsize p st).2.wire ++ (writeNs maxsize p st).2.getsendbuffer
      = st.wire ++ st.getsendbuffer ++ (if p.length ≤ maxsize then encodeNs p else []) ∧
    ((writeNs maxsize p st).1 = .ok → p.length ≤ maxsize ∧ (writeNs maxsize p st).2.getsendbuffer = []) ∧
    ((writeNs maxsize p st).1 = .nsTooLong ↔ maxsize < p.length) := by
  unfold writeNs
  split
  · rename_i h
    have : ¬ p.length ≤ maxsize := by omega
    simp [this, h]
  · rename_i h
    have hle : p.length ≤ maxsize := by omega
    obtain ⟨h1, _, h3, h4, _, _⟩ := send_ok (encodeNs p) st
    cases hq : send (encodeNs p) st with
    | mk r st' =>
      rw [hq] at h1 h3 h4
      cases r with
      | timeout => simp only [hle, ↓reduceIte] at h1 ⊢; exact ⟨h1, by simp, by simp; omega⟩
      | none => exact absurd rfl h3
      | sent n =>
        simp only [hle, ↓reduceIte] at h1 ⊢
        exact ⟨h1, fun _ => ⟨trivial, (h4 n rfl).1⟩, by simp; omega⟩



/-! ### minimality of the match; flushing until done -/

theorem findIdx_min {d : Bytes} : ∀ {xs : Bytes} {o : Nat}, findIdx d xs = some o →
    ∀ i, i < o → ¬ d.isPrefixOf (xs.drop i) = true := by
  intro xs
  induction xs with
  | nil =>
    intro o h i hi
    simp only [findIdx] at h
    split at h
    · simp at h; omega
    · simp at h
  | cons x xs ih =>
    intro o h i hi
    simp only [findIdx] at h
    split at h
    · simp at h; omega
    · rename_i hp
      cases hq : findIdx d xs with
      | none => simp [hq] at h
      | some o' =>
        simp [hq] at h
        subst h
        cases i with
        | zero => simpa using hp
        | succ i => simpa using ih hq i (by omega)

/-- flushing with nothing buffered changes nothing -/
theorem flush_idle (st : SSt) (h : st.getsendbuffer = []) :
    (flush st).2.getsendbuffer = [] ∧ (flush st).2.wire = st.wire := by
  obtain ⟨h1, h2, _, _, _, _⟩ := flush_ok st
  rw [h, List.append_nil] at h1
  obtain ⟨t, ht⟩ := h2
  rw [← ht, List.append_assoc] at h1
  have : t ++ (flush st).2.getsendbuffer = [] := by
    have := congrArg List.length h1
    simp only [List.length_append] at this
    apply List.eq_nil_of_length_eq_zero
    simp only [List.length_append]
    omega
  have ht0 : t = [] := (List.append_eq_nil_iff.mp this).1
  have hs0 := (List.append_eq_nil_iff.mp this).2
  rw [ht0, List.append_nil] at ht
  exact ⟨hs0, ht.symm⟩

theorem flushN_idle : ∀ (k : Nat) (st : SSt), st.getsendbuffer = [] →
    (flushN k st).getsendbuffer = [] ∧ (flushN k st).wire = st.wire := by
  intro k
  induction k with
  | zero => intro st h; exact ⟨h, rfl⟩
  | succ k ih =>
    intro st h
    obtain ⟨a, b⟩ := flush_idle st h
    obtain ⟨c, d⟩ := ih (flush st).2 a
    simp only [flushN]
    exact ⟨c, by rw [d, b]⟩

theorem flushN_conserves : ∀ (k : Nat) (st : SSt),
    (flushN k st).wire ++ (flushN k st).getsendbuffer = st.wire ++ st.getsendbuffer := by
  intro k
  induction k with
  | zero => intro st; rfl
  | succ k ih =>
    intro st
    simp only [flushN]
    rw [ih, (flush_ok st).1]

/-- every socket timeout uses up one script event, so `len(script) + 1` flushes always get through -/
theorem flushN_done : ∀ (k : Nat) (st : SSt), st.script.length < k →
    (flushN k st).getsendbuffer = [] := by
  intro k
  induction k with
  | zero => intro st h; omega
  | succ k ih =>
    intro st h
    obtain ⟨_, _, h3, h4, h5, _⟩ := flush_ok st
    simp only [flushN]
    rcases h4 with h4 | h4
    · exact (flushN_idle k _ (h3 h4)).1
    · exact ih _ (by have := h5 h4; omega)



theorem writeMany_conserves (maxsize : Nat) : ∀ (ps : List Bytes) (st : SSt),
    (∀ p ∈ ps, p.length ≤ maxsize) →
    (writeMany maxsize ps st).wire ++ (writeMany maxsize ps st).getsendbuffer
      = st.wire ++ st.getsendbuffer ++ (ps.map encodeNs).flatten ∧
    (writeMany maxsize ps st).script.length ≤ st.script.length := by
  intro ps
  induction ps with
  | nil => intro st _; simp [writeMany]
  | cons p ps ih =>
    intro st hall
    have hp : p.length ≤ maxsize := hall p (by simp)
    have h1 := (writeNs_conserves maxsize p st).1
    rw [if_pos hp] at h1
    obtain ⟨h2, h3⟩ := ih (writeNs maxsize p st).2 (fun q hq => hall q (by simp [hq]))
    simp only [writeMany]
    refine ⟨?_, ?_⟩
    · rw [h2, h1]; simp
    · have : (writeNs maxsize p st).2.script.length ≤ st.script.length := by
        unfold writeNs
        split
        · simp
        · have := (send_ok (encodeNs p) st).2.2.2.2.2
          cases hq : send (encodeNs p) st with
          | mk r st' =>
            rw [hq] at this
            cases r <;> simpa using this
      omega




/-! ### round 2: exact fault accounting (the i-th fault of the script is the i-th fault raised) -/

/-- exact timeout accounting of a call's outcome: a call that raises Timeout used up exactly one of the
    script's timeout events, any other outcome used up none (no timeout is ever swallowed) -/
def TOex (t : Nat) (out : Res × St) : Prop :=
  (out.1 = .timeout → nTO out.2.script + 1 = t) ∧ (out.1 ≠ .timeout → nTO out.2.script = t)

theorem recvSizeLoop_nTOex (recvsize size : Nat) :
    ∀ (fuel : Nat) (acc : Bytes) (total : Nat) (nxt : Bytes) (script : List Ev),
      TOex (nTO script) (recvSizeLoop recvsize size fuel acc total nxt script) := by
  intro fuel
  induction fuel with
  | zero => intro acc total nxt script; simp [recvSizeLoop, TOex]
  | succ fuel ih =>
    intro acc total nxt script
    unfold recvSizeLoop
    split
    · simp [TOex]
    · simp only
      split
      · split <;> simp [TOex]
      · cases hr : sockRecv recvsize script with
        | timeout r =>
          have := sockRecv_nTO_timeout hr
          exact ⟨fun _ => this, fun h => absurd rfl h⟩
        | data d r =>
          have := sockRecv_nTO_data hr
          simp only
          have h := ih (acc ++ nxt) (total + nxt.length) d r
          rw [this] at h
          exact h

theorem recvSize_nTOex (cfg : Cfg) (size : Nat) (st : St) :
    TOex (nTO st.script) (recvSize cfg size st) := by
  unfold recvSize
  split
  · exact recvSizeLoop_nTOex _ _ _ _ _ _ _
  · cases hr : sockRecv cfg.recvsize st.script with
    | timeout r =>
      have := sockRecv_nTO_timeout hr
      exact ⟨fun _ => this, fun h => absurd rfl h⟩
    | data d r =>
      have := sockRecv_nTO_data hr
      simp only
      have h := recvSizeLoop_nTOex cfg.recvsize size (measure r + 2) [] 0 d r
      rw [this] at h
      exact h

theorem peek_nTOex (cfg : Cfg) (size : Nat) (st : St) :
    TOex (nTO st.script) (peek cfg size st) := by
  unfold peek
  split
  · simp [TOex]
  · have h := recvSize_nTOex cfg size st
    cases hq : recvSize cfg size st with
    | mk r st' =>
      rw [hq] at h
      cases r <;> simpa [TOex] using h

theorem recvClose_nTOex (cfg : Cfg) (m : Nat) (st : St) :
    TOex (nTO st.script) (recvClose cfg m st) := by
  unfold recvClose
  have h := recvSize_nTOex cfg (m + 1) st
  cases hq : recvSize cfg (m + 1) st with
  | mk r st' =>
    rw [hq] at h
    cases r <;> simpa [TOex] using h

theorem recvUntilLoop_nTOex (recvsize : Nat) (d : Bytes) (m : Nat) (w : Bool) :
    ∀ (fuel : Nat) (recvd : Bytes) (fstart : Int) (script : List Ev),
      TOex (nTO script) (recvUntilLoop recvsize d m w fuel recvd fstart script) := by
  intro fuel
  induction fuel with
  | zero => intro recvd fstart script; simp [recvUntilLoop, TOex]
  | succ fuel ih =>
    intro recvd fstart script
    unfold recvUntilLoop
    split
    · split <;> simp [TOex]
    · split
      · simp [TOex]
      · cases hr : sockRecv recvsize script with
        | timeout r =>
          have := sockRecv_nTO_timeout hr
          exact ⟨fun _ => this, fun h => absurd rfl h⟩
        | data nxt r =>
          have := sockRecv_nTO_data hr
          simp only
          split
          · simp [TOex, this]
          · have h := ih (recvd ++ nxt) (-(nxt.length : Int) - (d.length : Int) + 1) r
            rw [this] at h
            exact h

theorem recvUntil_nTOex (cfg : Cfg) (d : Bytes) (m : Nat) (w : Bool) (st : St) :
    TOex (nTO st.script) (recvUntil cfg d m w st) :=
  recvUntilLoop_nTOex _ _ _ _ _ _ _ _

theorem recv_nTOex (cfg : Cfg) (size : Nat) (st : St) :
    TOex (nTO st.script) (recv cfg size st) := by
  unfold recv
  split
  · simp [TOex]
  · split
    · simp [TOex]
    · cases hr : sockRecv cfg.recvsize st.script with
      | timeout r =>
        have := sockRecv_nTO_timeout hr
        exact ⟨fun _ => this, fun h => absurd rfl h⟩
      | data d r =>
        have := sockRecv_nTO_data hr
        simp only
        split <;> simp [TOex, this]

theorem attempt_nTOex (cfg : Cfg) (op : Op) (st : St) :
    TOex (nTO st.script) (attempt cfg op st) := by
  cases op with
  | recv n => exact recv_nTOex cfg n st
  | peek n => exact peek_nTOex cfg n st
  | recvSize n => exact recvSize_nTOex cfg n st
  | recvClose m => exact recvClose_nTOex cfg m st
  | recvUntil d m w => exact recvUntil_nTOex cfg d m w st



/-- 1 when the outcome is Timeout, else 0 -/
def SRes.isTO : SRes → Nat
  | .timeout => 1
  | _ => 0

theorem popClock_nSF {s r : List SEv} (h : popClock s = some r) : nSF r + 1 = nSF s := by
  cases s with
  | nil => simp [popClock] at h
  | cons e s =>
    cases e <;> simp [popClock] at h
    subst h; simp [nSF]

theorem sendLoop_faults : ∀ (script : List SEv) (buf : Bytes) (total : Nat) (wire : Bytes),
    nSF (sendLoop script buf total wire).2.script + (sendLoop script buf total wire).1.isTO = nSF script := by
  intro script
  induction script with
  | nil => intro buf total wire; cases buf <;> simp [sendLoop, SRes.isTO, nSF]
  | cons e script ih =>
    intro buf total wire
    cases buf with
    | nil => simp [sendLoop, SRes.isTO]
    | cons b buf =>
      cases e with
      | timeout => simp [sendLoop, SRes.isTO, nSF]
      | clock => simp [sendLoop, SRes.isTO, nSF]
      | accept k =>
        simp only [sendLoop]
        cases hp : popClock script with
        | some r' =>
          have := popClock_nSF hp
          simp only [SRes.isTO, nSF]
          omega
        | none =>
          simp only [nSF]
          exact ih _ _ _

theorem send_faults (data : Bytes) (st : SSt) :
    nSF (send data st).2.script + (send data st).1.isTO = nSF st.script := by
  unfold send
  simp only
  split
  · rename_i b rest _
    exact sendLoop_faults st.script b 0 st.wire
  · simp [SRes.isTO]

theorem flush_faults (st : SSt) :
    nSF (flush st).2.script + (flush st).1.isTO = nSF st.script := by
  have h := send_faults [] st
  unfold flush
  cases hq : send [] st with
  | mk r st' =>
    rw [hq] at h
    cases r <;> simpa [SRes.isTO] using h

theorem sstep_faults (op : SOp) (st : SSt) :
    nSF (sstep op st).2.script + (sstep op st).1.isTO = nSF st.script := by
  cases op with
  | send d => exact send_faults d st
  | buffer d => simp [sstep, buffer, SRes.isTO]
  | flush => exact flush_faults st

/-! ### round 2: argument resolution (`Call`), NetstringSocket configuration (`NsSock`), read_ns never
    duplicates or reorders -/

/-- no operation looks at `cfg.maxsize`: every maxsize has been resolved into the `Op` -/
theorem attempt_cfg (rs m₁ m₂ : Nat) (op : Op) (st : St) :
    attempt ⟨rs, m₁⟩ op st = attempt ⟨rs, m₂⟩ op st := by
  cases op <;> rfl

theorem retryLoop_cfg (rs m₁ m₂ : Nat) (op : Op) : ∀ (fuel : Nat) (st : St),
    retryLoop ⟨rs, m₁⟩ op fuel st = retryLoop ⟨rs, m₂⟩ op fuel st := by
  intro fuel
  induction fuel with
  | zero => intro st; rfl
  | succ fuel ih =>
    intro st
    simp only [retryLoop]
    rw [attempt_cfg rs m₁ m₂ op st]
    cases hq : attempt ⟨rs, m₂⟩ op st with
    | mk r st' =>
      cases r <;> simp only
      exact ih st'

theorem callRetry_cfg (rs m₁ m₂ : Nat) (op : Op) (st : St) :
    callRetry ⟨rs, m₁⟩ op st = callRetry ⟨rs, m₂⟩ op st := by
  unfold callRetry
  exact retryLoop_cfg rs m₁ m₂ op _ st

theorem runRetry_cfg (rs m₁ m₂ : Nat) : ∀ (ops : List Op) (st : St),
    runRetry ⟨rs, m₁⟩ ops st = runRetry ⟨rs, m₂⟩ ops st := by
  intro ops
  induction ops with
  | nil => intro st; rfl
  | cons op ops ih =>
    intro st
    simp only [runRetry]
    rw [callRetry_cfg rs m₁ m₂ op st, ih]

/-- a session of public calls is the session of the resolved operations -/
theorem runCalls_eq (large : Nat) : ∀ (calls : List Call) (cfg : Cfg) (st : St),
    runCalls large cfg calls st = runRetry cfg (resolveCalls large cfg.maxsize calls) st := by
  intro calls
  induction calls with
  | nil => intro cfg st; rfl
  | cons c cs ih =>
    intro cfg st
    simp only [runCalls, resolveCalls]
    cases hop : c.op large cfg.maxsize with
    | some op =>
      simp only [runRetry]
      rw [ih cfg (callRetry cfg op st).2]
    | none =>
      simp only
      rw [ih]
      exact runRetry_cfg cfg.recvsize _ _ _ st

theorem resolveCalls_det (large : Nat) : ∀ (calls : List Call) (selfMax : Nat),
    (∀ c ∈ calls, c.deterministic = true) →
    ∀ op ∈ resolveCalls large selfMax calls, op.deterministic = true := by
  intro calls
  induction calls with
  | nil => intro _ _ op h; simp [resolveCalls] at h
  | cons c cs ih =>
    intro selfMax hall op hop
    have hc := hall c (by simp)
    have hcs : ∀ c' ∈ cs, c'.deterministic = true := fun c' h => hall c' (by simp [h])
    simp only [resolveCalls] at hop
    cases c with
    | recv n => simp [Call.deterministic] at hc
    | peek n =>
      simp only [Call.op, List.mem_cons] at hop
      rcases hop with h | h
      · subst h; rfl
      · exact ih _ hcs op h
    | recvSize n =>
      simp only [Call.op, List.mem_cons] at hop
      rcases hop with h | h
      · subst h; rfl
      · exact ih _ hcs op h
    | recvUntil d m w =>
      simp only [Call.op, List.mem_cons] at hop
      rcases hop with h | h
      · subst h; rfl
      · exact ih _ hcs op h
    | recvClose m =>
      simp only [Call.op, List.mem_cons] at hop
      rcases hop with h | h
      · subst h; rfl
      · exact ih _ hcs op h
    | setMaxsize n =>
      simp only [Call.op] at hop
      exact ih _ hcs op hop

/-- the cached prefix window agrees with the current maxsize -/
def NsSock.WF (ns : NsSock) : Prop := ns.window = calcWindow ns.maxsize

theorem readNsWith_calc (cfg : Cfg) (m : Nat) (st : St) :
    readNsWith cfg m (calcWindow m) st = readNs cfg m st := rfl

theorem NsSock.readNs_eq (cfg : Cfg) (ns : NsSock) (h : ns.WF) (arg : Option Nat) (st : St) :
    ns.readNs cfg arg st = C12.readNs cfg (arg.getD ns.maxsize) st := by
  cases arg with
  | none => simp only [NsSock.readNs, Option.getD]; rw [h]; rfl
  | some m => rfl

theorem NsSock.readNsMany_eq (cfg : Cfg) (ns : NsSock) (h : ns.WF) (arg : Option Nat) :
    ∀ (k : Nat) (st : St),
    NsSock.readNsMany cfg ns arg k st = C12.readNsMany cfg (arg.getD ns.maxsize) k st := by
  intro k
  induction k with
  | zero => intro st; rfl
  | succ k ih =>
    intro st
    simp only [NsSock.readNsMany, C12.readNsMany]
    rw [NsSock.readNs_eq cfg ns h arg st, ih]

/-- whatever read_ns returns or raises (Timeout in either phase, NetstringInvalidSize, … included),
    the bytes still owed afterwards are a suffix of the bytes owed before: nothing is duplicated,
    nothing is reordered, nothing is read twice -/
theorem readNs_suffix (cfg : Cfg) (hrs : 0 < cfg.recvsize) (maxsize : Nat) (st : St) :
    ∃ c, c ++ (readNs cfg maxsize st).2.view = st.view := by
  have e1 := attempt_conserves cfg hrs (.recvUntil [colon] ((digits maxsize).length + 1) false) st
  simp only [attempt] at e1
  unfold readNs
  cases hq1 : recvUntil cfg [colon] ((digits maxsize).length + 1) false st with
  | mk r1 st1 =>
  rw [hq1] at e1
  simp only at e1
  cases r1 with
  | closed => exact ⟨_, e1⟩
  | tooLong => exact ⟨_, e1⟩
  | timeout => exact ⟨_, e1⟩
  | fuel => exact ⟨_, e1⟩
  | ok pre =>
    simp only
    cases hp : parseSize pre with
    | none => exact ⟨_, e1⟩
    | some size =>
      simp only
      by_cases hs : size > maxsize
      · simp only [hs, ↓reduceIte]; exact ⟨_, e1⟩
      · simp only [hs, ↓reduceIte]
        have e2 := attempt_conserves cfg hrs (.recvSize size) st1
        simp only [attempt] at e2
        cases hq2 : recvSize cfg size st1 with
        | mk r2 st2 =>
        rw [hq2] at e2
        simp only at e2
        have e12 : (consumed (.recvUntil [colon] ((digits maxsize).length + 1) false) (.ok pre)
            ++ consumed (.recvSize size) r2) ++ st2.view = st.view := by
          rw [List.append_assoc, e2, e1]
        cases r2 with
        | closed => exact ⟨_, e12⟩
        | tooLong => exact ⟨_, e12⟩
        | timeout => exact ⟨_, e12⟩
        | fuel => exact ⟨_, e12⟩
        | ok payload =>
          simp only
          have e3 := attempt_conserves cfg hrs (.recv 1) st2
          simp only [attempt] at e3
          cases hq3 : recv cfg 1 st2 with
          | mk r3 st3 =>
          rw [hq3] at e3
          simp only at e3
          have e123 : ((consumed (.recvUntil [colon] ((digits maxsize).length + 1) false) (.ok pre)
              ++ consumed (.recvSize size) (.ok payload)) ++ consumed (.recv 1) r3) ++ st3.view
              = st.view := by
            rw [List.append_assoc, e3, e12]
          cases r3 with
          | closed => exact ⟨_, e123⟩
          | tooLong => exact ⟨_, e123⟩
          | timeout => exact ⟨_, e123⟩
          | fuel => exact ⟨_, e123⟩
          | ok c =>
            simp only
            by_cases hc : c = [comma]
            · simp only [hc, ↓reduceIte]; rw [hc] at e123; exact ⟨_, e123⟩
            · simp only [hc, ↓reduceIte]; exact ⟨_, e123⟩

/-- a Timeout raised while read_ns is still looking for the size prefix leaves every byte in place:
    calling read_ns again resumes the same frame -/
theorem readNs_prefix_timeout_keeps (cfg : Cfg) (hrs : 0 < cfg.recvsize) (maxsize : Nat) (st : St)
    (h : (recvUntil cfg [colon] ((digits maxsize).length + 1) false st).1 = .timeout) :
    (readNs cfg maxsize st).1 = .timeout ∧ (readNs cfg maxsize st).2.view = st.view := by
  have e1 := attempt_conserves cfg hrs (.recvUntil [colon] ((digits maxsize).length + 1) false) st
  simp only [attempt] at e1
  unfold readNs
  cases hq1 : recvUntil cfg [colon] ((digits maxsize).length + 1) false st with
  | mk r1 st1 =>
  rw [hq1] at e1 h
  simp only at e1 h
  subst h
  simp only [NsRes.ofRes]
  exact ⟨trivial, by simpa [consumed] using e1⟩

end C12
