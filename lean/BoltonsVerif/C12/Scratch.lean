import BoltonsVerif.C12.Proofs3
namespace C12

/-- the caller's read loop over `recv(size)`:
    `while True: try: d = recv(size) / except Timeout: continue / if not d: break / out += d` -/
def drain (cfg : Cfg) (size : Nat) : Nat → St → Bytes × St
  | 0, st => ([], st)
  | fuel + 1, st =>
    match recv cfg size st with
    | (.ok [], st') => ([], st')
    | (.ok (b :: v), st') => (b :: v ++ (drain cfg size fuel st').1, (drain cfg size fuel st').2)
    | (_, st') => drain cfg size fuel st'

theorem drain_ok (cfg : Cfg) (hrs : 0 < cfg.recvsize) (size : Nat) (hs : 0 < size) :
    ∀ (fuel : Nat) (st : St), measure st.script + st.view.length + 1 ≤ fuel →
      (drain cfg size fuel st).1 = st.view ∧ (drain cfg size fuel st).2.view = [] := by
  intro fuel
  induction fuel with
  | zero => intro st h; omega
  | succ fuel ih =>
    intro st h
    rcases recv_ok cfg hrs size st with ⟨a, b, c⟩ | ⟨v, a, b, _, d, e⟩
    · cases hq : recv cfg size st with
      | mk r st' =>
        rw [hq] at a b c
        simp only at a b c
        subst a
        simp only [drain, hq]
        have := ih st' (by rw [b]; omega)
        rw [b] at this
        exact this
    · cases hq : recv cfg size st with
      | mk r st' =>
        rw [hq] at a b e
        simp only at a b e
        subst a
        cases v with
        | nil =>
          have hv := d hs rfl
          simp only [drain, hq]
          simp only [List.nil_append] at b
          exact ⟨hv.symm, by rw [b, hv]⟩
        | cons x v =>
          simp only [drain, hq]
          have hl : st.view.length = (x :: v).length + st'.view.length := by
            rw [← b]; simp; omega
          have := ih st' (by simp only [List.length_cons] at hl; omega)
          refine ⟨?_, this.2⟩
          rw [this.1]
          exact b

end C12

namespace C12

/-! ### recv_size with the size Python really passes: an `int`, possibly negative -/

/-- Python's `nxt[:-extra]` for `extra > 0`: a negative stop index counts from the end and is clamped at 0 -/
def pyDropLast (extra : Nat) (nxt : Bytes) : Bytes := nxt.take (nxt.length - extra)
/-- Python's `nxt[-extra:]` for `extra > 0` -/
def pyLast (extra : Nat) (nxt : Bytes) : Bytes := nxt.drop (nxt.length - extra)

/-- the `while nxt:` loop of `recv_size` with `size : Int`: `total_bytes >= size` is an integer comparison and
    `extra_bytes = total_bytes - size` may exceed `len(nxt)` -/
def recvSizeLoopI (recvsize : Nat) (size : Int) : Nat → Bytes → Nat → Bytes → List Ev → Res × St
  | 0, acc, _, _, script => (.fuel, ⟨acc, script⟩)
  | fuel + 1, acc, total, nxt, script =>
    if nxt = [] then (.closed, ⟨acc, script⟩)
    else
      let total' := total + nxt.length
      if (total' : Int) ≥ size then
        let extra := ((total' : Int) - size).toNat
        if extra ≠ 0 then (.ok (acc ++ pyDropLast extra nxt), ⟨pyLast extra nxt, script⟩)
        else (.ok (acc ++ nxt), ⟨[], script⟩)
      else match sockRecv recvsize script with
        | .timeout r => (.timeout, ⟨acc ++ nxt, r⟩)
        | .data d r => recvSizeLoopI recvsize size fuel (acc ++ nxt) total' d r

def recvSizeI (cfg : Cfg) (size : Int) (st : St) : Res × St :=
  if st.rbuf ≠ [] then
    recvSizeLoopI cfg.recvsize size (measure st.script + 2) [] 0 st.rbuf st.script
  else match sockRecv cfg.recvsize st.script with
    | .timeout r => (.timeout, ⟨[], r⟩)
    | .data d r => recvSizeLoopI cfg.recvsize size (measure r + 2) [] 0 d r

theorem recvSizeLoopI_ofNat (rs n : Nat) : ∀ (fuel : Nat) (acc : Bytes) (total : Nat) (nxt : Bytes)
    (script : List Ev),
    recvSizeLoopI rs (n : Int) fuel acc total nxt script = recvSizeLoop rs n fuel acc total nxt script := by
  intro fuel
  induction fuel with
  | zero => intro acc total nxt script; rfl
  | succ fuel ih =>
    intro acc total nxt script
    simp only [recvSizeLoopI, recvSizeLoop, pyDropLast, pyLast]
    by_cases hn : nxt = []
    · simp [hn]
    · simp only [hn, ↓reduceIte]
      by_cases hge : total + nxt.length ≥ n
      · have hge' : ((total + nxt.length : Nat) : Int) ≥ (n : Int) := by omega
        have hx : (((total + nxt.length : Nat) : Int) - (n : Int)).toNat = total + nxt.length - n := by omega
        simp only [hge, hge', ↓reduceIte, hx]
      · have hge' : ¬ ((total + nxt.length : Nat) : Int) ≥ (n : Int) := by omega
        simp only [hge, hge', ↓reduceIte]
        cases sockRecv rs script with
        | timeout r => rfl
        | data d r => exact ih _ _ _ _

/-- a non-positive size is met by the first non-empty `nxt`: nothing is returned, all of `nxt` stays buffered -/
theorem recvSizeLoopI_nonpos (rs : Nat) (size : Int) (hs : size ≤ 0) (fuel : Nat) (acc : Bytes) (total : Nat)
    (nxt : Bytes) (script : List Ev) :
    recvSizeLoopI rs size (fuel + 1) acc total nxt script
      = recvSizeLoopI rs 0 (fuel + 1) acc total nxt script := by
  simp only [recvSizeLoopI, pyDropLast, pyLast]
  by_cases hn : nxt = []
  · simp [hn]
  · have hpos : 0 < nxt.length := List.length_pos_iff.mpr hn
    have h1 : ((total + nxt.length : Nat) : Int) ≥ size := by omega
    have h0 : ((total + nxt.length : Nat) : Int) ≥ 0 := by omega
    have e1 : nxt.length - (((total + nxt.length : Nat) : Int) - size).toNat = 0 := by omega
    have e0 : nxt.length - (((total + nxt.length : Nat) : Int) - 0).toNat = 0 := by omega
    have n1 : (((total + nxt.length : Nat) : Int) - size).toNat ≠ 0 := by omega
    have n0 : (((total + nxt.length : Nat) : Int) - 0).toNat ≠ 0 := by omega
    simp only [hn, ↓reduceIte, h1, h0, n1, n0, ne_eq, not_false_eq_true, e1, e0]

/-- `recv_size(s)` with `s < 0` behaves exactly like `recv_size(0)` -/
theorem recvSizeI_neg (cfg : Cfg) (size : Int) (hs : size ≤ 0) (st : St) :
    recvSizeI cfg size st = recvSize cfg 0 st := by
  have key : ∀ fuel acc total nxt script,
      recvSizeLoopI cfg.recvsize size (fuel + 1) acc total nxt script
        = recvSizeLoop cfg.recvsize 0 (fuel + 1) acc total nxt script := by
    intro fuel acc total nxt script
    rw [recvSizeLoopI_nonpos cfg.recvsize size hs]
    exact recvSizeLoopI_ofNat cfg.recvsize 0 _ _ _ _ _
  unfold recvSizeI recvSize
  split
  · exact key _ _ _ _ _
  · cases sockRecv cfg.recvsize st.script with
    | timeout r => rfl
    | data d r => exact key _ _ _ _ _

theorem recvSizeI_ofNat (cfg : Cfg) (n : Nat) (st : St) : recvSizeI cfg (n : Int) st = recvSize cfg n st := by
  unfold recvSizeI recvSize
  split
  · exact recvSizeLoopI_ofNat _ _ _ _ _ _ _
  · cases sockRecv cfg.recvsize st.script with
    | timeout r => rfl
    | data d r => exact recvSizeLoopI_ofNat _ _ _ _ _ _ _

/-- `read_ns` with the size as the Python `int` that `int(size_prefix)` returns -/
def readNsI (cfg : Cfg) (maxsize window : Nat) (st : St) : NsRes × St :=
  match recvUntil cfg [colon] window false st with
  | (.ok prefix_, st1) =>
    match parsePyInt prefix_ with
    | none => (.invalidSize, st1)
    | some size =>
      if size > (maxsize : Int) then (.nsTooLong, st1)
      else match recvSizeI cfg size st1 with
        | (.ok payload, st2) =>
          match recv cfg 1 st2 with
          | (.ok c, st3) => if c = [comma] then (.ok payload, st3) else (.protocolError, st3)
          | (r, st3) => (NsRes.ofRes r, st3)
        | (r, st2) => (NsRes.ofRes r, st2)
  | (r, st1) => (NsRes.ofRes r, st1)

/-- the model's clamping of a negative size prefix to 0 (`parseSize`) loses nothing -/
theorem readNsI_eq (cfg : Cfg) (maxsize window : Nat) (st : St) :
    readNsI cfg maxsize window st = readNsWith cfg maxsize window st := by
  unfold readNsI readNsWith
  cases hq : recvUntil cfg [colon] window false st with
  | mk r st1 =>
    cases r with
    | ok prefix_ =>
      simp only [parseSize]
      cases hp : parsePyInt prefix_ with
      | none => simp
      | some size =>
        simp only [Option.map_some]
        by_cases hneg : size < 0
        · have h1 : ¬ size > (maxsize : Int) := by omega
          have h2 : ¬ size.toNat > maxsize := by omega
          have h3 : size.toNat = 0 := by omega
          simp only [h1, h2, ↓reduceIte]
          rw [recvSizeI_neg cfg size (by omega), h3]
          rfl
        · have hz : size = (size.toNat : Int) := by omega
          by_cases hgt : size > (maxsize : Int)
          · have h2 : size.toNat > maxsize := by omega
            simp [hgt, h2]
          · have h2 : ¬ size.toNat > maxsize := by omega
            simp only [hgt, h2, ↓reduceIte]
            have hI := recvSizeI_ofNat cfg size.toNat st1
            rw [← hz] at hI
            rw [hI]
            rfl
    | closed => rfl
    | tooLong => rfl
    | timeout => rfl
    | fuel => rfl

end C12
