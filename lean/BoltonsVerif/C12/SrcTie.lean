import BoltonsVerif.Generated.Src_socketutils
import BoltonsVerif.C12.Model
import BoltonsVerif.C12.Proofs
import BoltonsVerif.Generated.C12_Consts
/-
C12 — source tie (round 3d): the methods of `boltons.socketutils.BufferedSocket`, regenerated from the Python source on every
run (`harness/py2lean_c12.py` → `Generated/Src_socketutils.lean`, runtime `PyRtC12.lean`), do what the hand model
(`C12/Model.lean`) says, on the scripted network the model consumes.

The generated definitions are parametric in `PyRtC12.Net W φ` (wrapped socket + clock + float operations).  `mnet J` instantiates
it with the model's world: the receive script of `C12.Ev`, refined by the KIND of each fault (`NEv`: a `socket.timeout` of the
socket, the wall clock passing the deadline, another `OSError` of the socket) - the model's `Ev.timeout` stands for all three
(Model.lean header, Model3.lean `Fault`).  The clock is a function of socket events, as in the harness (`FakeClock`): a socket
call that returns normally and leaves a `deadline` event at the head of the script makes the clock jump by `J` (`late`); the next
deadline check of the code then fires, or - if the code goes back to the socket instead - the socket times out and pops the event.
Floats are `Int` here (`φ := Int`); the timeouts the theorems speak about are `None`, `0` (non-blocking) or `0 < t ≤ J`.
-/
namespace C12
open PyRtC12 Src.socketutils

/-- a receive-script event with the kind of fault it is -/
inductive NEv where
  | chunk (bs : Bytes)
  | sockTimeout            -- the wrapped socket raises `socket.timeout`
  | deadline               -- the wall clock passes the deadline
  | osError (tag : Nat)    -- the wrapped socket raises another `OSError`
deriving Repr, DecidableEq

/-- the model's view of an event: every fault is `Ev.timeout` -/
def NEv.ev : NEv → Ev
  | .chunk bs => .chunk bs
  | _ => .timeout

/-- the model's script -/
def er (s : List NEv) : List Ev := s.map NEv.ev

/-- the world: the rest of the script, and whether the clock has jumped past the deadline -/
structure NW where
  script : List NEv
  late : Bool
deriving Repr

def isDeadline : List NEv → Bool
  | .deadline :: _ => true
  | _ => false

/-- `sock.recv(n)` on the refined script (cf. `C12.sockRecv`, harness `FakeSock.recv`) -/
def netRecv (n : Nat) : List NEv → Except Exc PyRtC12.Bytes × NW
  | [] => (.ok [], ⟨[], false⟩)
  | .sockTimeout :: r => (.error .sockTimeout, ⟨r, false⟩)
  | .deadline :: r => (.error .sockTimeout, ⟨r, false⟩)        -- a recv that finds the deadline passed times out too
  | .osError t :: r => (.error (.osError t), ⟨r, false⟩)
  | .chunk bs :: r =>
    if bs = [] then netRecv n r
    else if bs.length ≤ n then (.ok bs, ⟨r, isDeadline r⟩)
    else (.ok (bs.take n), ⟨.chunk (bs.drop n) :: r, false⟩)

/-- the model's network as an instance of the operations the generated code calls -/
def mnet (J : Int) : Net NW Int where
  recv := fun n w => netRecv n.toNat w.script
  settimeout := fun _ w => (.ok (), w)
  send := fun d w => (.ok (d.length : Int), w)
  time := fun w => (.ok (if w.late then J else 0), w)
  fsub := fun a b => a - b
  fle := fun a b => decide (a ≤ b)
  fzero := 0
  ftruthy := fun a => decide (a ≠ 0)

theorem mnet_recv (J : Int) (n : Int) (w : NW) : (mnet J).recv n w = netRecv n.toNat w.script := rfl
theorem mnet_settimeout (J : Int) (t : Option Int) (w : NW) : (mnet J).settimeout t w = (.ok (), w) := rfl
theorem mnet_time (J : Int) (w : NW) : (mnet J).time w = (.ok (if w.late then J else 0), w) := rfl
theorem mnet_fsub (J a b : Int) : (mnet J).fsub a b = a - b := rfl
theorem mnet_fle (J a b : Int) : (mnet J).fle a b = decide (a ≤ b) := rfl
theorem mnet_fzero (J : Int) : (mnet J).fzero = 0 := rfl
theorem mnet_truthy_none (J : Int) : (mnet J).truthyOpt none = false := rfl
theorem mnet_truthy_some (J t : Int) : (mnet J).truthyOpt (some t) = decide (t ≠ 0) := rfl

/-- the timeouts covered: `None`, `0` (non-blocking), or a positive one the clock's jump exceeds -/
def TOk (J : Int) : Option Int → Prop
  | none => True
  | some t => 0 ≤ t ∧ t ≤ J

/-- the exception the first fault of a script surfaces as at the wrapped socket -/
def rawFault : List NEv → Exc
  | [] => .sockTimeout
  | .chunk _ :: r => rawFault r
  | .osError t :: _ => .osError t
  | _ :: _ => .sockTimeout

/-- … and at the caller of the BufferedSocket: `Timeout`, or the socket's own `OSError` passed through -/
def callerFault : List NEv → Exc
  | [] => .timeout
  | .chunk _ :: r => callerFault r
  | .osError t :: _ => .osError t
  | _ :: _ => .timeout

/-- the clock is late only while a `deadline` event is at the head of the script -/
def WInv (w : NW) : Prop := w.late = true → isDeadline w.script = true

/-- the script the model is left with: a deadline event whose check fired (the call ended in a fault while the clock was
    late) is used up by that fault (harness: `FakeClock.end_call`) -/
def settle (w : NW) : List NEv := if w.late then w.script.tail else w.script

theorem netRecv_spec (n : Nat) : ∀ (s : List NEv),
    match sockRecv n (er s) with
    | .data d r => ∃ w', netRecv n s = (.ok d, w') ∧ er w'.script = r ∧ WInv w' ∧
        (rawFault w'.script = rawFault s ∧ callerFault w'.script = callerFault s)
    | .timeout r => ∃ w', netRecv n s = (.error (rawFault s), w') ∧ er w'.script = r ∧ w'.late = false := by
  intro s
  induction s with
  | nil => simp [er, sockRecv, netRecv, WInv]
  | cons e r ih =>
    cases e with
    | chunk bs =>
      by_cases hb : bs = []
      · subst hb
        simpa [er, sockRecv, netRecv, NEv.ev, rawFault, callerFault] using ih
      · by_cases hl : bs.length ≤ n
        · simp [er, sockRecv, netRecv, NEv.ev, hb, hl, WInv, rawFault, callerFault]
        · simp [er, sockRecv, netRecv, NEv.ev, hb, hl, WInv, rawFault, callerFault]
    | sockTimeout => simp [er, sockRecv, netRecv, NEv.ev, rawFault]
    | deadline => simp [er, sockRecv, netRecv, NEv.ev, rawFault]
    | osError t => simp [er, sockRecv, netRecv, NEv.ev, rawFault]

/-! ## `recv_size` -/

/-- the exception a fault shows up as INSIDE a method before its handlers run: what the socket raised, or - for a
    `socket.timeout` - any class the `except socket.timeout` clause catches all the same (the module's `Timeout`) -/
def FaultAs (flt e : Exc) : Prop := e = flt ∨ (flt = .sockTimeout ∧ e = .timeout)

abbrev RsFr := Fr (BufferedSocket.St Int) (BufferedSocket.recv_size.L Int) NW

/-- what the result of the model's loop says about the outcome of the generated loop started with object state `self0`,
    argument `size0`, and a script whose first fault surfaces as `flt` -/
def RsLoopPost (self0 : BufferedSocket.St Int) (size0 : Int) (flt : Exc) (mr : Res × St) (o : Out PyRtC12.Bytes × RsFr) : Prop :=
  o.2.self = self0 ∧ o.2.loc.size = size0 ∧
  match mr.1 with
  | .fuel => o.1 = .exc .outOfFuel
  | .tooLong => False
  | .closed => o.1 = .exc .connectionClosed ∧ join o.2.loc.chunks = mr.2.rbuf ∧ er o.2.w.script = mr.2.script
  | .timeout => (∃ e, o.1 = .exc e ∧ FaultAs flt e) ∧ join o.2.loc.chunks = mr.2.rbuf ∧ er (settle o.2.w) = mr.2.script
  | .ok bs => o.1 = .next ∧ er o.2.w.script = mr.2.script ∧ WInv o.2.w ∧
      bs = join o.2.loc.chunks ++
        (if o.2.loc.total_bytes - o.2.loc.size ≠ 0 then sliceTo o.2.loc.nxt (-(o.2.loc.total_bytes - o.2.loc.size)) else o.2.loc.nxt) ∧
      mr.2.rbuf = (if o.2.loc.total_bytes - o.2.loc.size ≠ 0 then sliceFrom o.2.loc.nxt (-(o.2.loc.total_bytes - o.2.loc.size)) else [])

theorem sliceTo_neg (b : PyRtC12.Bytes) (e : Nat) (he : 0 < e) : sliceTo b (-(e : Int)) = b.take (b.length - e) := by
  unfold sliceTo normIdx
  have : (-(e : Int)) < 0 := by omega
  simp only [this, if_true]
  congr 1
  omega

theorem sliceFrom_neg (b : PyRtC12.Bytes) (e : Nat) (he : 0 < e) : sliceFrom b (-(e : Int)) = b.drop (b.length - e) := by
  unfold sliceFrom normIdx
  have : (-(e : Int)) < 0 := by omega
  simp only [this, if_true]
  congr 1
  omega

theorem join_snoc (l : List PyRtC12.Bytes) (x : PyRtC12.Bytes) : join (l ++ [x]) = join l ++ x := by
  simp [join]

theorem er_deadline {s : List NEv} (h : isDeadline s = true) : ∃ r, s = .deadline :: r := by
  cases s with
  | nil => simp [isDeadline] at h
  | cons e r => cases e <;> simp [isDeadline] at h; exact ⟨r, rfl⟩

set_option maxHeartbeats 1000000 in
theorem rs_loop (J : Int) (rs size : Nat) (tmo : Option Int) (hto : TOk J tmo) (lf : Nat) :
    ∀ (n : Nat) (s : RsFr) (total : Nat) (acc nxt : Bytes) (script : List Ev),
      s.self.recvsize = (rs : Int) → s.loc.size = (size : Int) → s.loc.timeout_r = tmo → s.loc.start = 0 →
      s.loc.total_bytes = (total : Int) → WInv s.w →
      acc = join s.loc.chunks → nxt = s.loc.nxt → script = er s.w.script →
      RsLoopPost s.self s.loc.size (rawFault s.w.script) (recvSizeLoop rs size n acc total nxt script)
        (Blk.whileLoop (BufferedSocket.recv_size.loop1.cond (mnet J) lf) (BufferedSocket.recv_size.loop1.body (mnet J) lf)
          (BufferedSocket.recv_size.loop1.orelse (mnet J) lf) n s) := by
  intro n
  induction n with
  | zero =>
    intro s total acc nxt script _ _ _ _ _ _ _ _ _
    simp [Blk.whileLoop, recvSizeLoop, RsLoopPost]
  | succ n ih =>
    intro s total acc nxt script h1 h2 h3 h4 h5 h6 ha hnx hsc
    subst ha hnx hsc
    rw [recvSizeLoop]
    by_cases hn : s.loc.nxt = []
    · have hcf : BufferedSocket.recv_size.loop1.cond (mnet J) lf s = false := by
        simp [BufferedSocket.recv_size.loop1.cond, truthy, len, hn]
      simp [Blk.whileLoop, hcf, BufferedSocket.recv_size.loop1.orelse, hn,
        RsLoopPost, Blk.seq, Blk.assign, Blk.raise]
    · have hc : BufferedSocket.recv_size.loop1.cond (mnet J) lf s = true := by
        have hlenI : (0 : Int) < (s.loc.nxt.length : Int) := by
          have := List.length_pos_iff.mpr hn
          omega
        simp [BufferedSocket.recv_size.loop1.cond, truthy, len, hn, hlenI]
      by_cases hge : total + s.loc.nxt.length ≥ size
      · -- `break`
        have hx2 : ((total : Int) + (s.loc.nxt.length : Int) - (size : Int))
            = ((total + s.loc.nxt.length - size : Nat) : Int) := by omega
        simp only [Blk.whileLoop, hc, if_true, BufferedSocket.recv_size.loop1.body, Blk.seq, Blk.assign, Blk.ite, Blk.brk]
        have hgeI : (size : Int) ≤ (total : Int) + (s.loc.nxt.length : Int) := by omega
        simp [h5, h2, len, hge, hgeI, hn, RsLoopPost, h6]
        rw [hx2]
        by_cases he : total + s.loc.nxt.length - size = 0
        · simp [he]
        · have hpos : 0 < total + s.loc.nxt.length - size := Nat.pos_of_ne_zero he
          simp [he, sliceTo_neg _ _ hpos, sliceFrom_neg _ _ hpos]
      · -- go round: the deadline check (when a timeout is set), then `sock.recv`
        have hltI : ¬ (size : Int) ≤ (total : Int) + (s.loc.nxt.length : Int) := by omega
        have hspec := netRecv_spec rs s.w.script
        rw [Blk.whileLoop]
        generalize hL : Blk.whileLoop (BufferedSocket.recv_size.loop1.cond (mnet J) lf)
          (BufferedSocket.recv_size.loop1.body (mnet J) lf) (BufferedSocket.recv_size.loop1.orelse (mnet J) lf) n = L
        simp only [hc, if_true, BufferedSocket.recv_size.loop1.body, Blk.seq, Blk.assign, Blk.ite, Blk.brk, Blk.skip]
        -- does the deadline check fire?
        by_cases hfire : (mnet J).truthyOpt tmo = true ∧ s.w.late = true
        · obtain ⟨htr, hlate⟩ := hfire
          obtain ⟨r, hr⟩ := er_deadline (h6 hlate)
          cases tmo with
          | none => simp [mnet_truthy_none] at htr
          | some t =>
            have ht0 : t ≠ 0 := by simpa [mnet_truthy_some] using htr
            have hle : t - J ≤ 0 := by have := hto.2; omega
            simp [h5, h2, h3, h4, len, hge, hltI, hn, mnet_truthy_some, mnet_time, mnet_fsub, mnet_fle, mnet_fzero,
              Blk.call, Blk.raise, ht0, hlate, hle, unwrap,
              RsLoopPost, FaultAs, hr, er, NEv.ev, sockRecv, rawFault, join_snoc, settle]
        · have hchk : (mnet J).truthyOpt tmo = false ∨ (s.w.late = false ∧ ∃ t, tmo = some t ∧ 0 < t) := by
            cases tmo with
            | none => simp [mnet_truthy_none]
            | some t =>
              by_cases ht0 : t = 0
              · simp [mnet_truthy_some, ht0]
              · right
                have htr : (mnet J).truthyOpt (some t) = true := by simp [mnet_truthy_some, ht0]
                have h0 := hto.1
                refine ⟨by simpa [htr] using hfire, t, rfl, by omega⟩
          cases hsr : sockRecv rs (er s.w.script) with
          | data d r =>
            rw [hsr] at hspec
            obtain ⟨w', hw1, hw2, hw3, hw4⟩ := hspec
            subst hw2
            rw [← hw4.1]
            rcases hchk with hno | ⟨hlate, t, rfl, htpos⟩
            · simp [h5, h2, h3, h4, len, hge, hltI, hn, hno, Blk.call, mnet_recv, h1, hw1]
              subst hL
              generalize hF : (Fr.mk _ _ _ : RsFr) = F
              have key := ih F (total + s.loc.nxt.length) (join s.loc.chunks ++ s.loc.nxt) d (er w'.script)
                (by subst hF; first | rfl | assumption | simp [h1, h2, h3, h4, h5, hw3, join_snoc]) (by subst hF; first | rfl | assumption | simp [h1, h2, h3, h4, h5, hw3, join_snoc]) (by subst hF; first | rfl | assumption | simp [h1, h2, h3, h4, h5, hw3, join_snoc]) (by subst hF; first | rfl | assumption | simp [h1, h2, h3, h4, h5, hw3, join_snoc])
                (by subst hF; first | rfl | assumption | simp [h1, h2, h3, h4, h5, hw3, join_snoc]) (by subst hF; first | rfl | assumption | simp [h1, h2, h3, h4, h5, hw3, join_snoc]) (by subst hF; first | rfl | assumption | simp [h1, h2, h3, h4, h5, hw3, join_snoc]) (by subst hF; first | rfl | assumption | simp [h1, h2, h3, h4, h5, hw3, join_snoc]) (by subst hF; first | rfl | assumption | simp [h1, h2, h3, h4, h5, hw3, join_snoc])
              subst hF
              exact key
            · have hnle : ¬ t ≤ 0 := by omega
              have ht0 : t ≠ 0 := by omega
              simp [h5, h2, h3, h4, len, hge, hltI, hn, mnet_truthy_some, mnet_time, mnet_fsub, mnet_fle, mnet_fzero,
                mnet_settimeout, Blk.call, mnet_recv, h1, hw1, hlate, ht0, hnle, unwrap]
              subst hL
              generalize hF : (Fr.mk _ _ _ : RsFr) = F
              have key := ih F (total + s.loc.nxt.length) (join s.loc.chunks ++ s.loc.nxt) d (er w'.script)
                (by subst hF; first | rfl | assumption | simp [h1, h2, h3, h4, h5, hw3, join_snoc]) (by subst hF; first | rfl | assumption | simp [h1, h2, h3, h4, h5, hw3, join_snoc]) (by subst hF; first | rfl | assumption | simp [h1, h2, h3, h4, h5, hw3, join_snoc]) (by subst hF; first | rfl | assumption | simp [h1, h2, h3, h4, h5, hw3, join_snoc])
                (by subst hF; first | rfl | assumption | simp [h1, h2, h3, h4, h5, hw3, join_snoc]) (by subst hF; first | rfl | assumption | simp [h1, h2, h3, h4, h5, hw3, join_snoc]) (by subst hF; first | rfl | assumption | simp [h1, h2, h3, h4, h5, hw3, join_snoc]) (by subst hF; first | rfl | assumption | simp [h1, h2, h3, h4, h5, hw3, join_snoc]) (by subst hF; first | rfl | assumption | simp [h1, h2, h3, h4, h5, hw3, join_snoc])
              subst hF
              exact key
          | timeout r =>
            rw [hsr] at hspec
            obtain ⟨w', hw1, hw2, hw3⟩ := hspec
            subst hw2
            rcases hchk with hno | ⟨hlate, t, rfl, htpos⟩
            · simp [h5, h2, h3, h4, len, hge, hltI, hn, hno, Blk.call, mnet_recv, h1, hw1, RsLoopPost, FaultAs, join_snoc, settle, hw3]
            · have hnle : ¬ t ≤ 0 := by omega
              have ht0 : t ≠ 0 := by omega
              simp [h5, h2, h3, h4, len, hge, hltI, hn, mnet_truthy_some, mnet_time, mnet_fsub, mnet_fle, mnet_fzero,
                mnet_settimeout, Blk.call, mnet_recv, h1, hw1, hlate, ht0, hnle, unwrap, RsLoopPost, FaultAs, join_snoc, settle, hw3]

/-- more fuel changes nothing once the model's loop has an answer -/
theorem recvSizeLoop_mono (rs size : Nat) : ∀ (n : Nat) (acc : Bytes) (total : Nat) (nxt : Bytes) (script : List Ev),
    (recvSizeLoop rs size n acc total nxt script).1 ≠ .fuel →
    ∀ k, recvSizeLoop rs size (n + k) acc total nxt script = recvSizeLoop rs size n acc total nxt script := by
  intro n
  induction n with
  | zero => intro acc total nxt script h; simp [recvSizeLoop] at h
  | succ n ih =>
    intro acc total nxt script h k
    rw [show n + 1 + k = (n + k) + 1 by omega]
    rw [recvSizeLoop] at h ⊢
    rw [recvSizeLoop]
    by_cases hn : nxt = []
    · simp [hn]
    · by_cases hge : total + nxt.length ≥ size
      · simp [hn, hge]
      · simp only [hn, hge, if_false] at h ⊢
        cases hsr : sockRecv rs script with
        | timeout r => simp
        | data d r =>
          simp only [hsr] at h ⊢
          exact ih _ _ _ _ h k

theorem recvSizeLoop_ne_fuel (rs size : Nat) (hrs : 0 < rs) (nxt : Bytes) (script : List Ev)
    (h : nxt = [] → pending script = []) :
    (recvSizeLoop rs size (measure script + 2) [] 0 nxt script).1 ≠ .fuel := by
  have := recvSizeLoop_ok rs size hrs (measure script + 2) [] 0 nxt script rfl (Or.inr rfl) h (by split <;> omega)
  intro hf
  rcases this with ⟨a, _⟩ | ⟨_, b, _⟩
  · rw [hf] at a; cases a
  · rw [hf] at b
    unfold specSize at b
    split at b <;> cases b

/-- how a fault of the wrapped socket surfaces at the caller: `socket.timeout` becomes the module's `Timeout`, anything
    else passes through -/
theorem callerFault_of_raw : ∀ (s : List NEv),
    (rawFault s = .sockTimeout ∧ callerFault s = .timeout) ∨ (∃ t, rawFault s = .osError t ∧ callerFault s = .osError t) := by
  intro s
  induction s with
  | nil => simp [rawFault, callerFault]
  | cons e r ih => cases e <;> simp [rawFault, callerFault, ih]

/-- the caller-visible outcome a result of the model stands for; `flt` = what a fault surfaces as -/
def outcome (flt : Exc) : Res → Except Exc PyRtC12.Bytes
  | .ok bs => .ok bs
  | .closed => .error .connectionClosed
  | .tooLong => .error .messageTooLong
  | .timeout => .error flt
  | .fuel => .error .outOfFuel

/-- the script the model is left with after a call that ended in `r` -/
def scriptAfter (r : Res) (w : NW) : List NEv := if r = .timeout then settle w else w.script

set_option maxHeartbeats 1000000 in
/-- **`BufferedSocket.recv_size`, as regenerated from the source, is the model's `recvSize`** on the model's network: for
    every object state, every script (chunks, socket timeouts, deadline expiries, other OSErrors of the socket), every
    `size`, every timeout argument (omitted, `None`, `0`, or positive and within the clock's jump) and every loop fuel
    `≥ measure + 2` the call returns / raises what the model says (a fault surfaces as `Timeout` or as the socket's own
    OSError; no `outOfFuel`: the loop terminates), leaves `rbuf` as the model says and nothing else changed, and has
    consumed the script as the model says. -/
theorem src_recv_size_eq_model (J : Int) (cfg : Cfg) (st : BufferedSocket.St Int) (w : NW) (size : Nat)
    (targ : Option (Option Int)) (lfuel : Nat)
    (hlate : w.late = false) (hto : TOk J (orDefault targ st.timeout)) (hrs : st.recvsize = (cfg.recvsize : Int))
    (hpos : 0 < cfg.recvsize) (hf : measure (er w.script) + 2 ≤ lfuel) :
    ∃ w', BufferedSocket.recv_size (mnet J) lfuel st (size : Int) targ w
        = (outcome (callerFault w.script) (recvSize cfg size ⟨st.rbuf, er w.script⟩).1,
           { st with rbuf := (recvSize cfg size ⟨st.rbuf, er w.script⟩).2.rbuf }, w') ∧
      er (scriptAfter (recvSize cfg size ⟨st.rbuf, er w.script⟩).1 w') = (recvSize cfg size ⟨st.rbuf, er w.script⟩).2.script := by
  unfold BufferedSocket.recv_size runMethod BufferedSocket.recv_size.body recvSize
  by_cases hb : st.rbuf = []
  · -- the buffer is empty: `nxt = self.sock.recv(self._recvsize)`
    have hspec := netRecv_spec cfg.recvsize w.script
    simp only [hb, ne_eq, not_true_eq_false, if_false]
    cases hsr : sockRecv cfg.recvsize (er w.script) with
    | timeout r =>
      rw [hsr] at hspec
      obtain ⟨w', hw1, hw2, hw3⟩ := hspec
      refine ⟨w', ?_, ?_⟩
      · rcases callerFault_of_raw w.script with ⟨ha, hb2⟩ | ⟨t, ha, hb2⟩
        · simp [Blk.seq, Blk.assign, Blk.call, Blk.tryExcept, Blk.ite, Blk.raise, mnet_time, mnet_settimeout, mnet_recv,
            truthy, hb, hlate, hrs, hw1, ha, hb2, finishMethod, outcome, Exc.isSockTimeout, Exc.isException, join]
        · simp [Blk.seq, Blk.assign, Blk.call, Blk.tryExcept, Blk.ite, Blk.raise, mnet_time, mnet_settimeout, mnet_recv,
            truthy, hb, hlate, hrs, hw1, ha, hb2, finishMethod, outcome, Exc.isSockTimeout, Exc.isException, join]
      · simp [scriptAfter, settle, hw3, hw2]
    | data d r =>
      rw [hsr] at hspec
      obtain ⟨w1, hw1, hw2, hw3, hw4⟩ := hspec
      obtain ⟨q1, _, q3, q4⟩ := sockRecv_data hsr
      subst hw2
      have hne := recvSizeLoop_ne_fuel cfg.recvsize size hpos d (er w1.script)
        (fun hd => by have := q3 hpos hd; rw [q1, hd] at this; simpa using this)
      have hmono := recvSizeLoop_mono cfg.recvsize size _ _ _ _ _ hne (lfuel - (measure (er w1.script) + 2))
      rw [show measure (er w1.script) + 2 + (lfuel - (measure (er w1.script) + 2)) = lfuel by omega] at hmono
      simp only []
      rw [← hmono]
      simp [Blk.seq, Blk.assign, Blk.call, Blk.tryExcept, Blk.ite, mnet_time, mnet_settimeout, mnet_recv, truthy, hb, hlate,
        hrs, hw1]
      generalize hF : (Fr.mk _ _ _ : RsFr) = F
      have key := rs_loop J cfg.recvsize size _ hto lfuel lfuel F 0 [] d (er w1.script)
        (by subst hF; exact hrs) (by subst hF; rfl) (by subst hF; rfl) (by subst hF; rfl) (by subst hF; rfl)
        (by subst hF; exact hw3) (by subst hF; rfl) (by subst hF; rfl) (by subst hF; rfl)
      have hFs : F.self = st := by subst hF; rfl
      have hFz : F.loc.size = (size : Int) := by subst hF; rfl
      have hFw : F.w = w1 := by subst hF; rfl
      rw [hFs, hFz, hFw, hw4.1] at key
      clear hFs hFz hFw hF
      generalize Blk.whileLoop _ _ _ lfuel F = O at key ⊢
      obtain ⟨o, F'⟩ := O
      have hraw := callerFault_of_raw w.script
      cases hm : recvSizeLoop cfg.recvsize size lfuel [] 0 d (er w1.script) with
      | mk r m =>
        rw [hm] at key hmono
        simp only [RsLoopPost] at key
        obtain ⟨k1, k2, k3⟩ := key
        cases r with
        | fuel => exact absurd (by rw [← hmono]) hne
        | tooLong => exact k3.elim
        | closed =>
          obtain ⟨k3, k4, k5⟩ := k3
          subst k3
          refine ⟨F'.w, ?_, ?_⟩
          · simp [finishMethod, outcome, Blk.seq, Blk.assign, Blk.raise, Exc.isSockTimeout, Exc.isException, k1, k4, hrs]
          · simp [scriptAfter, k5]
        | timeout =>
          obtain ⟨⟨e, k3, kf⟩, k4, k5⟩ := k3
          subst k3
          refine ⟨F'.w, ?_, ?_⟩
          · rcases hraw with ⟨ha, hb2⟩ | ⟨t, ha, hb2⟩
            · rcases kf with kf | ⟨_, kf⟩ <;> subst kf <;>
                simp [finishMethod, outcome, Blk.seq, Blk.assign, Blk.raise, Exc.isSockTimeout, Exc.isException, k1, k4, hrs, ha, hb2, hb]
            · rcases kf with kf | ⟨kf0, _⟩
              · subst kf
                simp [finishMethod, outcome, Blk.seq, Blk.assign, Blk.raise, Exc.isSockTimeout, Exc.isException, k1, k4, hrs, ha, hb2, hb]
              · rw [ha] at kf0; cases kf0
          · simp [scriptAfter, k5]
        | ok bs =>
          obtain ⟨k3, k4, k5, k6, k7⟩ := k3
          subst k3
          refine ⟨F'.w, ?_, ?_⟩
          · by_cases he : F'.loc.total_bytes - F'.loc.size = 0
            · simp [finishMethod, outcome, Blk.seq, Blk.assign, Blk.skip, Blk.ret, k1, k6, k7, hrs, he, join_snoc]
            · simp [finishMethod, outcome, Blk.seq, Blk.assign, Blk.skip, Blk.ret, k1, k6, k7, hrs, he, join_snoc]
          · simp [scriptAfter, k4]
  · have hne := recvSizeLoop_ne_fuel cfg.recvsize size hpos st.rbuf (er w.script) (fun h => absurd h hb)
    have hmono := recvSizeLoop_mono cfg.recvsize size _ _ _ _ _ hne (lfuel - (measure (er w.script) + 2))
    rw [show measure (er w.script) + 2 + (lfuel - (measure (er w.script) + 2)) = lfuel by omega] at hmono
    simp only [hb, ne_eq, not_false_eq_true, if_true]
    rw [← hmono]
    simp [Blk.seq, Blk.assign, Blk.call, Blk.tryExcept, Blk.ite, mnet_time, mnet_settimeout, truthy, hb, hlate]
    generalize hF : (Fr.mk _ _ _ : RsFr) = F
    have key := rs_loop J cfg.recvsize size _ hto lfuel lfuel F 0 [] st.rbuf (er w.script)
      (by subst hF; exact hrs) (by subst hF; rfl) (by subst hF; rfl) (by subst hF; rfl) (by subst hF; rfl)
      (by subst hF; simp [WInv, hlate]) (by subst hF; rfl) (by subst hF; rfl) (by subst hF; rfl)
    have hFs : F.self = st := by subst hF; rfl
    have hFz : F.loc.size = (size : Int) := by subst hF; rfl
    have hFw : F.w = w := by subst hF; rfl
    rw [hFs, hFz, hFw] at key
    clear hFs hFz hFw hF
    generalize Blk.whileLoop _ _ _ lfuel F = O at key ⊢
    obtain ⟨o, F'⟩ := O
    have hraw := callerFault_of_raw w.script
    cases hm : recvSizeLoop cfg.recvsize size lfuel [] 0 st.rbuf (er w.script) with
    | mk r m =>
      rw [hm] at key hmono
      simp only [RsLoopPost] at key
      obtain ⟨k1, k2, k3⟩ := key
      cases r with
      | fuel => exact absurd (by rw [← hmono]) hne
      | tooLong => exact k3.elim
      | closed =>
        obtain ⟨k3, k4, k5⟩ := k3
        subst k3
        refine ⟨F'.w, ?_, ?_⟩
        · simp [finishMethod, outcome, Blk.seq, Blk.assign, Blk.raise, Exc.isSockTimeout, Exc.isException, k1, k4, hrs]
        · simp [scriptAfter, k5]
      | timeout =>
        obtain ⟨⟨e, k3, kf⟩, k4, k5⟩ := k3
        subst k3
        refine ⟨F'.w, ?_, ?_⟩
        · rcases hraw with ⟨ha, hb2⟩ | ⟨t, ha, hb2⟩
          · rcases kf with kf | ⟨_, kf⟩ <;> subst kf <;>
              simp [finishMethod, outcome, Blk.seq, Blk.assign, Blk.raise, Exc.isSockTimeout, Exc.isException, k1, k4, hrs, ha, hb2]
          · rcases kf with kf | ⟨kf0, _⟩
            · subst kf
              simp [finishMethod, outcome, Blk.seq, Blk.assign, Blk.raise, Exc.isSockTimeout, Exc.isException, k1, k4, hrs, ha, hb2]
            · rw [ha] at kf0; cases kf0
        · simp [scriptAfter, k5]
      | ok bs =>
        obtain ⟨k3, k4, k5, k6, k7⟩ := k3
        subst k3
        refine ⟨F'.w, ?_, ?_⟩
        · by_cases he : F'.loc.total_bytes - F'.loc.size = 0
          · simp [finishMethod, outcome, Blk.seq, Blk.assign, Blk.skip, Blk.ret, k1, k6, k7, hrs, he, join_snoc]
          · simp [finishMethod, outcome, Blk.seq, Blk.assign, Blk.skip, Blk.ret, k1, k6, k7, hrs, he, join_snoc]
        · simp [scriptAfter, k4]

/-- non-vacuity: the hypotheses are met by concrete calls, evaluated on the GENERATED definition: `recv_size(3)` on
    `rbuf = b"\x01"` and a network delivering `02 03 04`: returns `01 02 03`, keeps `04` -/
example : (BufferedSocket.recv_size (mnet 100) 10 ⟨[1], [], 10, some 5, 4⟩ 3 none ⟨[.chunk [2, 3, 4], .deadline], false⟩)
    = (.ok [1, 2, 3], ⟨[4], [], 10, some 5, 4⟩, ⟨[.deadline], true⟩) := by rfl
/-- the deadline passes after the first chunk: `Timeout`, the bytes read so far are kept in `rbuf` -/
example : (BufferedSocket.recv_size (mnet 100) 10 ⟨[], [], 10, some 5, 4⟩ 3 none ⟨[.chunk [2], .deadline, .chunk [3, 4]], false⟩)
    = (.error .timeout, ⟨[2], [], 10, some 5, 4⟩, ⟨[.deadline, .chunk [3, 4]], true⟩) := by rfl
/-- another OSError of the socket passes through unchanged, after the same buffer restoration -/
example : (BufferedSocket.recv_size (mnet 100) 10 ⟨[1], [], 10, none, 4⟩ 3 (some none) ⟨[.osError 7, .chunk [3, 4]], false⟩)
    = (.error (.osError 7), ⟨[1], [], 10, none, 4⟩, ⟨[.chunk [3, 4]], false⟩) := by rfl
/-- … and the theorem applies to the first of them -/
example : ∃ w', BufferedSocket.recv_size (mnet 100) 10 ⟨[1], [], 10, some 5, 4⟩ ((3 : Nat) : Int) none ⟨[.chunk [2, 3, 4], .deadline], false⟩
      = (outcome (callerFault [.chunk [2, 3, 4], .deadline]) (recvSize ⟨4, 10⟩ 3 ⟨[1], er [.chunk [2, 3, 4], .deadline]⟩).1,
         { (⟨[1], [], 10, some 5, 4⟩ : BufferedSocket.St Int) with rbuf := (recvSize ⟨4, 10⟩ 3 ⟨[1], er [.chunk [2, 3, 4], .deadline]⟩).2.rbuf }, w') ∧
      er (scriptAfter (recvSize ⟨4, 10⟩ 3 ⟨[1], er [.chunk [2, 3, 4], .deadline]⟩).1 w')
        = (recvSize ⟨4, 10⟩ 3 ⟨[1], er [.chunk [2, 3, 4], .deadline]⟩).2.script :=
  src_recv_size_eq_model 100 ⟨4, 10⟩ _ _ 3 none 10 rfl (by simp [orDefault, TOk]) rfl (by decide) (by decide)

/-! ## `recv_until` -/

abbrev RuFr := Fr (BufferedSocket.St Int) (BufferedSocket.recv_until.L Int) NW

theorem findFrom_eq_findIdx (d : Bytes) : ∀ xs : Bytes, findFrom d xs = findIdx d xs := by
  intro xs
  induction xs with
  | nil => simp [findFrom, findIdx]
  | cons x xs ih => simp [findFrom, findIdx, ih]

theorem normIdx_nat (n k : Nat) : normIdx n (k : Int) = min k n := by
  unfold normIdx
  have : ¬ ((k : Int) < 0) := by omega
  simp [this]

/-- the runtime's `bytes.find` is the model's `pyFind` (for a non-negative `end`) -/
theorem find_eq_pyFind (xs d : Bytes) (start : Int) (m : Nat) :
    PyRtC12.find xs d start (m : Int) = match pyFind d xs start m with | some o => (o : Int) | none => -1 := by
  unfold PyRtC12.find pyFind
  dsimp only
  rw [normIdx_nat, findFrom_eq_findIdx]
  generalize (if start < 0 then (start + (xs.length : Int)).toNat else start.toNat) = s0
  by_cases h : s0 > min m xs.length
  · simp [h]
  · simp only [h, if_false]
    cases findIdx d (List.drop s0 (List.take (min m xs.length) xs)) <;> simp

theorem sliceTo_nat (b : PyRtC12.Bytes) (k : Nat) : sliceTo b (k : Int) = b.take k := by
  unfold sliceTo
  rw [normIdx_nat]
  by_cases h : k ≤ b.length
  · rw [Nat.min_eq_left h]
  · rw [Nat.min_eq_right (by omega), List.take_of_length_le (Nat.le_refl _), List.take_of_length_le (by omega)]

theorem sliceFrom_nat (b : PyRtC12.Bytes) (k : Nat) : sliceFrom b (k : Int) = b.drop k := by
  unfold sliceFrom
  rw [normIdx_nat]
  by_cases h : k ≤ b.length
  · rw [Nat.min_eq_left h]
  · rw [Nat.min_eq_right (by omega), List.drop_of_length_le (Nat.le_refl _), List.drop_of_length_le (by omega)]

/-- what the result of the model's `recvUntilLoop` says about the outcome of the generated loop -/
def RuLoopPost (self0 : BufferedSocket.St Int) (flt : Exc) (mr : Res × St) (o : Out PyRtC12.Bytes × RuFr) : Prop :=
  o.2.self = self0 ∧
  match mr.1 with
  | .fuel => o.1 = .exc .outOfFuel
  | .tooLong => o.1 = .exc .messageTooLong ∧ o.2.loc.recvd = mr.2.rbuf ∧ er o.2.w.script = mr.2.script
  | .closed => o.1 = .exc .connectionClosed ∧ o.2.loc.recvd = mr.2.rbuf ∧ er o.2.w.script = mr.2.script
  | .timeout => (∃ e, o.1 = .exc e ∧ FaultAs flt e) ∧ o.2.loc.recvd = mr.2.rbuf ∧ er (settle o.2.w) = mr.2.script
  | .ok bs => o.1 = .next ∧ er o.2.w.script = mr.2.script ∧ WInv o.2.w ∧
      bs = sliceTo o.2.loc.recvd o.2.loc.offset ∧ mr.2.rbuf = sliceFrom o.2.loc.recvd o.2.loc.rbuf_offset

set_option maxHeartbeats 1000000 in
theorem ru_loop (J : Int) (rs m : Nat) (d : Bytes) (wd : Bool) (tmo : Option Int) (hto : TOk J tmo) (lf : Nat) :
    ∀ (n : Nat) (s : RuFr) (recvd : Bytes) (fstart : Int) (script : List Ev),
      s.self.recvsize = (rs : Int) → s.loc.maxsize_r_1 = (m : Int) → s.loc.delimiter = d →
      s.loc.len_delimiter = (d.length : Int) → s.loc.with_delimiter = wd → s.loc.timeout_r = tmo → s.loc.start = 0 →
      WInv s.w → recvd = s.loc.recvd → fstart = s.loc.find_offset_start → script = er s.w.script →
      RuLoopPost s.self (rawFault s.w.script) (recvUntilLoop rs d m wd n recvd fstart script)
        (Blk.whileLoop (BufferedSocket.recv_until.loop1.cond (mnet J) lf) (BufferedSocket.recv_until.loop1.body (mnet J) lf)
          (BufferedSocket.recv_until.loop1.orelse (mnet J) lf) n s) := by
  intro n
  induction n with
  | zero =>
    intro s recvd fstart script _ _ _ _ _ _ _ _ _ _ _
    simp [Blk.whileLoop, recvUntilLoop, RuLoopPost]
  | succ n ih =>
    intro s recvd fstart script h1 h2 h3 h4 h5 h6 h7 h8 ha hb hsc
    subst ha hb hsc
    rw [recvUntilLoop]
    have hc : BufferedSocket.recv_until.loop1.cond (mnet J) lf s = true := by
      simp [BufferedSocket.recv_until.loop1.cond]
    have hfind := find_eq_pyFind s.loc.recvd d s.loc.find_offset_start m
    rw [Blk.whileLoop]
    generalize hL : Blk.whileLoop (BufferedSocket.recv_until.loop1.cond (mnet J) lf)
      (BufferedSocket.recv_until.loop1.body (mnet J) lf) (BufferedSocket.recv_until.loop1.orelse (mnet J) lf) n = L
    simp only [hc, if_true, BufferedSocket.recv_until.loop1.body, Blk.seq, Blk.assign, Blk.ite, Blk.brk, Blk.skip]
    cases hp : pyFind d s.loc.recvd s.loc.find_offset_start m with
    | some o =>
      rw [hp] at hfind
      have hne : ¬ ((o : Int) = -1) := by omega
      cases wd with
      | true =>
        simp [h2, h3, h4, h5, hfind, hne, RuLoopPost, h8]
        rw [show (o : Int) + (d.length : Int) = ((o + d.length : Nat) : Int) by omega, sliceTo_nat, sliceFrom_nat]
        simp
      | false =>
        simp [h2, h3, h4, h5, hfind, hne, RuLoopPost, h8]
        rw [show (o : Int) + (d.length : Int) = ((o + d.length : Nat) : Int) by omega, sliceTo_nat, sliceFrom_nat]
        simp
    | none =>
      rw [hp] at hfind
      by_cases hlong : s.loc.recvd.length > m
      · have hlongI : (m : Int) < (s.loc.recvd.length : Int) := by omega
        simp [h2, h3, hfind, len, hlong, hlongI, RuLoopPost, Blk.raise]
      · have hlongI : ¬ (m : Int) < (s.loc.recvd.length : Int) := by omega
        have hspec := netRecv_spec rs s.w.script
        -- does the deadline check fire?
        by_cases hfire : (mnet J).truthyOpt tmo = true ∧ s.w.late = true
        · obtain ⟨htr, hlate⟩ := hfire
          obtain ⟨r, hr⟩ := er_deadline (h8 hlate)
          cases tmo with
          | none => simp [mnet_truthy_none] at htr
          | some t =>
            have ht0 : t ≠ 0 := by simpa [mnet_truthy_some] using htr
            have hle : t - J ≤ 0 := by have := hto.2; omega
            simp [h2, h3, h4, h5, h6, h7, hfind, len, hlong, hlongI, mnet_truthy_some, mnet_time, mnet_fsub, mnet_fle, mnet_fzero,
              Blk.call, Blk.raise, ht0, hlate, hle, unwrap,
              RuLoopPost, FaultAs, hr, er, NEv.ev, sockRecv, rawFault, settle]
        · have hchk : (mnet J).truthyOpt tmo = false ∨ (s.w.late = false ∧ ∃ t, tmo = some t ∧ 0 < t) := by
            cases tmo with
            | none => simp [mnet_truthy_none]
            | some t =>
              by_cases ht0 : t = 0
              · simp [mnet_truthy_some, ht0]
              · right
                have htr : (mnet J).truthyOpt (some t) = true := by simp [mnet_truthy_some, ht0]
                have h0 := hto.1
                refine ⟨by simpa [htr] using hfire, t, rfl, by omega⟩
          cases hsr : sockRecv rs (er s.w.script) with
          | data d' r =>
            rw [hsr] at hspec
            obtain ⟨w', hw1, hw2, hw3, hw4⟩ := hspec
            subst hw2
            rw [← hw4.1]
            by_cases hd : d' = []
            · rcases hchk with hno | ⟨hlate, t, rfl, htpos⟩
              · simp [h2, h3, h4, h5, h6, h7, hfind, len, hlong, hlongI, hno, Blk.call, Blk.raise, mnet_recv, h1, hw1, hd, truthy, RuLoopPost]
              · have hnle : ¬ t ≤ 0 := by omega
                have ht0 : t ≠ 0 := by omega
                simp [h2, h3, h4, h5, h6, h7, hfind, len, hlong, hlongI, mnet_truthy_some, mnet_time, mnet_fsub, mnet_fle, mnet_fzero,
                  mnet_settimeout, Blk.call, Blk.raise, mnet_recv, h1, hw1, hlate, ht0, hnle, unwrap, hd, truthy, RuLoopPost]
            · rcases hchk with hno | ⟨hlate, t, rfl, htpos⟩
              · simp [h2, h3, h4, h5, h6, h7, hfind, len, hlong, hlongI, hno, Blk.call, mnet_recv, h1, hw1, hd, truthy]
                subst hL
                generalize hF : (Fr.mk _ _ _ : RuFr) = F
                have key := ih F (s.loc.recvd ++ d') (-(d'.length : Int) - (d.length : Int) + 1) (er w'.script)
                  (by subst hF; first | rfl | assumption | simp [h1, h2, h3, h4, h5, h6, h7, hw3, len]) (by subst hF; first | rfl | assumption | simp [h1, h2, h3, h4, h5, h6, h7, hw3, len]) (by subst hF; first | rfl | assumption | simp [h1, h2, h3, h4, h5, h6, h7, hw3, len]) (by subst hF; first | rfl | assumption | simp [h1, h2, h3, h4, h5, h6, h7, hw3, len]) (by subst hF; first | rfl | assumption | simp [h1, h2, h3, h4, h5, h6, h7, hw3, len])
                  (by subst hF; first | rfl | assumption | simp [h1, h2, h3, h4, h5, h6, h7, hw3, len]) (by subst hF; first | rfl | assumption | simp [h1, h2, h3, h4, h5, h6, h7, hw3, len]) (by subst hF; first | rfl | assumption | simp [h1, h2, h3, h4, h5, h6, h7, hw3, len]) (by subst hF; first | rfl | assumption | simp [h1, h2, h3, h4, h5, h6, h7, hw3, len]) (by subst hF; first | rfl | assumption | simp [h1, h2, h3, h4, h5, h6, h7, hw3, len]) (by subst hF; first | rfl | assumption | simp [h1, h2, h3, h4, h5, h6, h7, hw3, len])
                subst hF
                exact key
              · have hnle : ¬ t ≤ 0 := by omega
                have ht0 : t ≠ 0 := by omega
                simp [h2, h3, h4, h5, h6, h7, hfind, len, hlong, hlongI, mnet_truthy_some, mnet_time, mnet_fsub, mnet_fle, mnet_fzero,
                  mnet_settimeout, Blk.call, mnet_recv, h1, hw1, hlate, ht0, hnle, unwrap, hd, truthy]
                subst hL
                generalize hF : (Fr.mk _ _ _ : RuFr) = F
                have key := ih F (s.loc.recvd ++ d') (-(d'.length : Int) - (d.length : Int) + 1) (er w'.script)
                  (by subst hF; first | rfl | assumption | simp [h1, h2, h3, h4, h5, h6, h7, hw3, len]) (by subst hF; first | rfl | assumption | simp [h1, h2, h3, h4, h5, h6, h7, hw3, len]) (by subst hF; first | rfl | assumption | simp [h1, h2, h3, h4, h5, h6, h7, hw3, len]) (by subst hF; first | rfl | assumption | simp [h1, h2, h3, h4, h5, h6, h7, hw3, len]) (by subst hF; first | rfl | assumption | simp [h1, h2, h3, h4, h5, h6, h7, hw3, len])
                  (by subst hF; first | rfl | assumption | simp [h1, h2, h3, h4, h5, h6, h7, hw3, len]) (by subst hF; first | rfl | assumption | simp [h1, h2, h3, h4, h5, h6, h7, hw3, len]) (by subst hF; first | rfl | assumption | simp [h1, h2, h3, h4, h5, h6, h7, hw3, len]) (by subst hF; first | rfl | assumption | simp [h1, h2, h3, h4, h5, h6, h7, hw3, len]) (by subst hF; first | rfl | assumption | simp [h1, h2, h3, h4, h5, h6, h7, hw3, len]) (by subst hF; first | rfl | assumption | simp [h1, h2, h3, h4, h5, h6, h7, hw3, len])
                subst hF
                exact key
          | timeout r =>
            rw [hsr] at hspec
            obtain ⟨w', hw1, hw2, hw3⟩ := hspec
            subst hw2
            rcases hchk with hno | ⟨hlate, t, rfl, htpos⟩
            · simp [h2, h3, h4, h5, h6, h7, hfind, len, hlong, hlongI, hno, Blk.call, mnet_recv, h1, hw1, RuLoopPost, FaultAs, settle, hw3]
            · have hnle : ¬ t ≤ 0 := by omega
              have ht0 : t ≠ 0 := by omega
              simp [h2, h3, h4, h5, h6, h7, hfind, len, hlong, hlongI, mnet_truthy_some, mnet_time, mnet_fsub, mnet_fle, mnet_fzero,
                mnet_settimeout, Blk.call, mnet_recv, h1, hw1, hlate, ht0, hnle, unwrap, RuLoopPost, FaultAs, settle, hw3]

theorem recvUntilLoop_mono (rs : Nat) (d : Bytes) (m : Nat) (wd : Bool) :
    ∀ (n : Nat) (recvd : Bytes) (fstart : Int) (script : List Ev),
    (recvUntilLoop rs d m wd n recvd fstart script).1 ≠ .fuel →
    ∀ k, recvUntilLoop rs d m wd (n + k) recvd fstart script = recvUntilLoop rs d m wd n recvd fstart script := by
  intro n
  induction n with
  | zero => intro recvd fstart script h; simp [recvUntilLoop] at h
  | succ n ih =>
    intro recvd fstart script h k
    rw [show n + 1 + k = (n + k) + 1 by omega]
    rw [recvUntilLoop] at h ⊢
    rw [recvUntilLoop]
    cases hp : pyFind d recvd fstart m with
    | some o => simp
    | none =>
      simp only [hp] at h ⊢
      by_cases hl : recvd.length > m
      · simp [hl]
      · simp only [hl, if_false] at h ⊢
        cases hsr : sockRecv rs script with
        | timeout r => simp
        | data nx r =>
          simp only [hsr] at h ⊢
          by_cases hn : nx = []
          · simp [hn]
          · simp only [hn, if_false] at h ⊢
            exact ih _ _ _ h k

theorem recvUntil_ne_fuel (cfg : Cfg) (hrs : 0 < cfg.recvsize) (d : Bytes) (m : Nat) (wd : Bool) (st : St) :
    (recvUntil cfg d m wd st).1 ≠ .fuel := by
  have := recvUntil_ok cfg hrs d m wd st
  intro hf
  rcases this with ⟨a, _⟩ | ⟨_, b, _⟩
  · rw [hf] at a; cases a
  · rw [hf] at b
    unfold specUntil at b
    split at b
    · cases b
    · split at b <;> cases b

/-- the `maxsize=` argument as the generated definition receives it -/
def maxArg : Max → Option (Option Int)
  | .unset => none
  | .none => some none
  | .some n => some (some (n : Int))

theorem maxArg_resolve (mx : Max) (selfMax : Nat) :
    orDefault (orDefault (maxArg mx) (some (selfMax : Int))) (1125899906842624 : Int)
      = ((mx.resolve Gen.RECV_LARGE_MAXSIZE selfMax : Nat) : Int) := by
  cases mx <;> simp [maxArg, orDefault, Max.resolve, Gen.RECV_LARGE_MAXSIZE]

set_option maxHeartbeats 1000000 in
/-- **`BufferedSocket.recv_until`, as regenerated from the source, is the model's `recvUntil`** on the model's network,
    with the `maxsize` argument resolved as the model's `Max.resolve` says (`_UNSET` → `self.maxsize`, `None` →
    `_RECV_LARGE_MAXSIZE`, the regenerated constant): value / `MessageTooLong` / `ConnectionClosed` / fault class, the
    leftover bytes in `rbuf`, nothing else changed, the script consumed as the model says, no `outOfFuel` with fuel
    `≥ measure + 1`. -/
theorem src_recv_until_eq_model (J : Int) (cfg : Cfg) (st : BufferedSocket.St Int) (w : NW) (d : Bytes)
    (targ : Option (Option Int)) (mx : Max) (selfMax : Nat) (wd : Bool) (lfuel : Nat)
    (hlate : w.late = false) (hto : TOk J (orDefault targ st.timeout)) (hrs : st.recvsize = (cfg.recvsize : Int))
    (hmax : st.maxsize = (selfMax : Int)) (hpos : 0 < cfg.recvsize) (hf : measure (er w.script) + 1 ≤ lfuel) :
    ∃ w', BufferedSocket.recv_until (mnet J) lfuel st d targ (maxArg mx) wd w
        = (outcome (callerFault w.script)
             (recvUntil cfg d (mx.resolve Gen.RECV_LARGE_MAXSIZE selfMax) wd ⟨st.rbuf, er w.script⟩).1,
           { st with rbuf := (recvUntil cfg d (mx.resolve Gen.RECV_LARGE_MAXSIZE selfMax) wd ⟨st.rbuf, er w.script⟩).2.rbuf }, w') ∧
      er (scriptAfter (recvUntil cfg d (mx.resolve Gen.RECV_LARGE_MAXSIZE selfMax) wd ⟨st.rbuf, er w.script⟩).1 w')
        = (recvUntil cfg d (mx.resolve Gen.RECV_LARGE_MAXSIZE selfMax) wd ⟨st.rbuf, er w.script⟩).2.script := by
  have hne := recvUntil_ne_fuel cfg hpos d (mx.resolve Gen.RECV_LARGE_MAXSIZE selfMax) wd ⟨st.rbuf, er w.script⟩
  generalize hmm : mx.resolve Gen.RECV_LARGE_MAXSIZE selfMax = m at hne ⊢
  have hmr := maxArg_resolve mx selfMax
  rw [hmm] at hmr
  unfold recvUntil at hne ⊢
  have hmono := recvUntilLoop_mono cfg.recvsize d m wd _ _ _ _ hne (lfuel - (measure (er w.script) + 1))
  simp only [] at hmono hne
  rw [show measure (er w.script) + 1 + (lfuel - (measure (er w.script) + 1)) = lfuel by omega] at hmono
  rw [← hmono]
  unfold BufferedSocket.recv_until runMethod BufferedSocket.recv_until.body
  cases htr : (mnet J).truthyOpt (orDefault targ st.timeout) <;>
  · simp [Blk.seq, Blk.assign, Blk.call, Blk.tryExcept, Blk.ite, Blk.skip, mnet_time, mnet_settimeout, hlate, htr, hmax, hmr]
    generalize hF : (Fr.mk _ _ _ : RuFr) = F
    have key := ru_loop J cfg.recvsize m d wd _ hto lfuel lfuel F st.rbuf 0 (er w.script)
      (by subst hF; exact hrs) (by subst hF; rfl) (by subst hF; rfl) (by subst hF; rfl) (by subst hF; rfl)
      (by subst hF; rfl) (by subst hF; rfl) (by subst hF; simp [WInv, hlate]) (by subst hF; rfl) (by subst hF; rfl)
      (by subst hF; rfl)
    have hFs : F.self = st := by subst hF; rfl
    have hFw : F.w = w := by subst hF; rfl
    rw [hFs, hFw] at key
    clear hFs hFw hF
    generalize Blk.whileLoop _ _ _ lfuel F = O at key ⊢
    obtain ⟨o, F'⟩ := O
    have hraw := callerFault_of_raw w.script
    cases hm : recvUntilLoop cfg.recvsize d m wd lfuel st.rbuf 0 (er w.script) with
    | mk r mm =>
      rw [hm] at key hmono
      simp only [RuLoopPost] at key
      obtain ⟨k1, k3⟩ := key
      cases r with
      | fuel => exact absurd (by rw [← hmono]) hne
      | tooLong =>
        obtain ⟨k3, k4, k5⟩ := k3
        subst k3
        refine ⟨F'.w, ?_, ?_⟩
        · simp [finishMethod, outcome, Blk.seq, Blk.assign, Blk.raise, Exc.isSockTimeout, Exc.isException, k1, k4, hrs, hmax]
        · simp [scriptAfter, k5]
      | closed =>
        obtain ⟨k3, k4, k5⟩ := k3
        subst k3
        refine ⟨F'.w, ?_, ?_⟩
        · simp [finishMethod, outcome, Blk.seq, Blk.assign, Blk.raise, Exc.isSockTimeout, Exc.isException, k1, k4, hrs, hmax]
        · simp [scriptAfter, k5]
      | timeout =>
        obtain ⟨⟨e, k3, kf⟩, k4, k5⟩ := k3
        subst k3
        refine ⟨F'.w, ?_, ?_⟩
        · rcases hraw with ⟨ha, hb2⟩ | ⟨t, ha, hb2⟩
          · rcases kf with kf | ⟨_, kf⟩ <;> subst kf <;>
              simp [finishMethod, outcome, Blk.seq, Blk.assign, Blk.raise, Exc.isSockTimeout, Exc.isException, k1, k4, hrs, hmax, ha, hb2]
          · rcases kf with kf | ⟨kf0, _⟩
            · subst kf
              simp [finishMethod, outcome, Blk.seq, Blk.assign, Blk.raise, Exc.isSockTimeout, Exc.isException, k1, k4, hrs, hmax, ha, hb2]
            · rw [ha] at kf0; cases kf0
        · simp [scriptAfter, k5]
      | ok bs =>
        obtain ⟨k3, k4, k5, k6, k7⟩ := k3
        subst k3
        refine ⟨F'.w, ?_, ?_⟩
        · simp [finishMethod, outcome, Blk.seq, Blk.assign, Blk.skip, Blk.ret, k1, k6, k7, hrs, hmax]
        · simp [scriptAfter, k4]

/-- non-vacuity: `recv_until(b"\r\n")` with the delimiter split across two chunks, one byte buffered: returns `01 02`, keeps `05` -/
example : (BufferedSocket.recv_until (mnet 100) 10 ⟨[1], [], 10, some 5, 4⟩ [13, 10] none none false
      ⟨[.chunk [2, 13], .chunk [10, 5]], false⟩)
    = (.ok [1, 2], ⟨[5], [], 10, some 5, 4⟩, ⟨[], false⟩) := by rfl
/-- the delimiter is not within `maxsize = 2` bytes: `MessageTooLong`, everything read stays in `rbuf` -/
example : (BufferedSocket.recv_until (mnet 100) 10 ⟨[1], [], 10, some 5, 4⟩ [13, 10] none (some (some 2)) false
      ⟨[.chunk [2, 3], .chunk [13, 10]], false⟩).1 = .error .messageTooLong := by rfl

/-! ## `peek`, `recv_close`, `recv` -/

/-- **`BufferedSocket.peek`, as regenerated from the source, is the model's `peek`** (the generated `recv_size` is used
    through its own tie theorem) -/
theorem src_peek_eq_model (J : Int) (cfg : Cfg) (st : BufferedSocket.St Int) (w : NW) (size : Nat)
    (targ : Option (Option Int)) (lfuel : Nat)
    (hlate : w.late = false) (hto : TOk J (orDefault targ st.timeout)) (hrs : st.recvsize = (cfg.recvsize : Int))
    (hpos : 0 < cfg.recvsize) (hf : measure (er w.script) + 2 ≤ lfuel) :
    ∃ w', BufferedSocket.peek (mnet J) lfuel st (size : Int) targ w
        = (outcome (callerFault w.script) (peek cfg size ⟨st.rbuf, er w.script⟩).1,
           { st with rbuf := (peek cfg size ⟨st.rbuf, er w.script⟩).2.rbuf }, w') ∧
      er (scriptAfter (peek cfg size ⟨st.rbuf, er w.script⟩).1 w') = (peek cfg size ⟨st.rbuf, er w.script⟩).2.script := by
  unfold BufferedSocket.peek runMethod BufferedSocket.peek.body peek
  by_cases hge : st.rbuf.length ≥ size
  · have hgeI : (size : Int) ≤ (st.rbuf.length : Int) := by omega
    refine ⟨w, ?_, ?_⟩
    · simp [Blk.seq, Blk.ite, Blk.ret, finishMethod, outcome, len, hge, hgeI, sliceTo_nat]
    · simp [hge, scriptAfter]
  · have hgeI : ¬ (size : Int) ≤ (st.rbuf.length : Int) := by omega
    obtain ⟨w', h1, h2⟩ := src_recv_size_eq_model J cfg st w size targ lfuel hlate hto hrs hpos hf
    refine ⟨w', ?_, ?_⟩
    · simp only [hge, if_false]
      cases hm : recvSize cfg size ⟨st.rbuf, er w.script⟩ with
      | mk r m =>
        rw [hm] at h1
        cases r <;>
          simp [Blk.seq, Blk.ite, Blk.ret, Blk.skip, Blk.callm, Blk.assign, finishMethod, outcome, len, hgeI, h1]
    · simp only [hge, if_false]
      cases hm : recvSize cfg size ⟨st.rbuf, er w.script⟩ with
      | mk r m =>
        rw [hm] at h2
        cases r <;> simpa [scriptAfter] using h2

/-- **`BufferedSocket.recv_close`, as regenerated from the source, is the model's `recvClose`** with the `maxsize`
    argument resolved as `Max.resolve` says -/
theorem src_recv_close_eq_model (J : Int) (cfg : Cfg) (st : BufferedSocket.St Int) (w : NW)
    (targ : Option (Option Int)) (mx : Max) (selfMax : Nat) (lfuel : Nat)
    (hlate : w.late = false) (hto : TOk J (orDefault targ st.timeout)) (hrs : st.recvsize = (cfg.recvsize : Int))
    (hmax : st.maxsize = (selfMax : Int)) (hpos : 0 < cfg.recvsize) (hf : measure (er w.script) + 2 ≤ lfuel) :
    ∃ w', BufferedSocket.recv_close (mnet J) lfuel st targ (maxArg mx) w
        = (outcome (callerFault w.script)
             (recvClose cfg (mx.resolve Gen.RECV_LARGE_MAXSIZE selfMax) ⟨st.rbuf, er w.script⟩).1,
           { st with rbuf := (recvClose cfg (mx.resolve Gen.RECV_LARGE_MAXSIZE selfMax) ⟨st.rbuf, er w.script⟩).2.rbuf }, w') ∧
      er (scriptAfter (recvClose cfg (mx.resolve Gen.RECV_LARGE_MAXSIZE selfMax) ⟨st.rbuf, er w.script⟩).1 w')
        = (recvClose cfg (mx.resolve Gen.RECV_LARGE_MAXSIZE selfMax) ⟨st.rbuf, er w.script⟩).2.script := by
  have hmr := maxArg_resolve mx selfMax
  generalize mx.resolve Gen.RECV_LARGE_MAXSIZE selfMax = m at hmr ⊢
  unfold BufferedSocket.recv_close runMethod BufferedSocket.recv_close.body recvClose
  obtain ⟨w', h1, h2⟩ := src_recv_size_eq_model J cfg st w (m + 1) targ lfuel hlate hto hrs hpos hf
  have hcast : ((m : Int) + 1) = ((m + 1 : Nat) : Int) := by omega
  refine ⟨w', ?_, ?_⟩
  · cases hm : recvSize cfg (m + 1) ⟨st.rbuf, er w.script⟩ with
    | mk r mm =>
      rw [hm] at h1
      push_cast at h1
      rcases callerFault_of_raw w.script with ⟨ha, hb2⟩ | ⟨t, ha, hb2⟩ <;>
      cases r <;>
        simp [Blk.seq, Blk.ret, Blk.skip, Blk.callm, Blk.assign, Blk.tryExcept, Blk.raise, finishMethod, outcome, hmax, hmr,
          h1, Exc.isConnectionClosed, hb2]
  · cases hm : recvSize cfg (m + 1) ⟨st.rbuf, er w.script⟩ with
    | mk r mm =>
      rw [hm] at h2
      cases r <;> simpa [scriptAfter] using h2

/-- **`BufferedSocket.recv`, as regenerated from the source, is the model's `recv`** (`flags = 0`): the buffer first, then
    ONE `sock.recv(self._recvsize)`, the surplus kept in `rbuf`; a `socket.timeout` becomes `Timeout`, another OSError of
    the socket passes through -/
theorem src_recv_eq_model (J : Int) (cfg : Cfg) (st : BufferedSocket.St Int) (w : NW) (size : Nat)
    (targ : Option (Option Int)) (hrs : st.recvsize = (cfg.recvsize : Int)) :
    ∃ w', BufferedSocket.recv (mnet J) st (size : Int) 0 targ w
        = (outcome (callerFault w.script) (recv cfg size ⟨st.rbuf, er w.script⟩).1,
           { st with rbuf := (recv cfg size ⟨st.rbuf, er w.script⟩).2.rbuf }, w') ∧
      er (scriptAfter (recv cfg size ⟨st.rbuf, er w.script⟩).1 w') = (recv cfg size ⟨st.rbuf, er w.script⟩).2.script := by
  unfold BufferedSocket.recv runMethod BufferedSocket.recv.body recv
  by_cases hge : st.rbuf.length ≥ size
  · have hgeI : (size : Int) ≤ (st.rbuf.length : Int) := by omega
    refine ⟨w, ?_, ?_⟩
    · simp [Blk.seq, Blk.ite, Blk.ret, Blk.assign, Blk.skip, finishMethod, outcome, len, hge, hgeI, sliceTo_nat, sliceFrom_nat]
    · simp [hge, scriptAfter]
  · have hgeI : ¬ (size : Int) ≤ (st.rbuf.length : Int) := by omega
    by_cases hb : st.rbuf = []
    · have hspec := netRecv_spec cfg.recvsize w.script
      have hs0 : ¬ size = 0 := by intro h; apply hge; omega
      obtain ⟨rb, sb, ms, tmo0, rsz⟩ := st
      simp only at hrs hb
      subst hb hrs
      cases hsr : sockRecv cfg.recvsize (er w.script) with
      | timeout r =>
        rw [hsr] at hspec
        obtain ⟨w', hw1, hw2, hw3⟩ := hspec
        refine ⟨w', ?_, ?_⟩
        · rcases callerFault_of_raw w.script with ⟨ha, hb2⟩ | ⟨t, ha, hb2⟩ <;>
            simp [Blk.seq, Blk.ite, Blk.ret, Blk.assign, Blk.skip, Blk.call, Blk.tryExcept, Blk.raise, finishMethod, outcome, len,
              hs0, truthy, mnet_settimeout, mnet_recv, hw1, ha, hb2, Exc.isSockTimeout]
        · simp [hs0, scriptAfter, settle, hw3, hw2]
      | data dd r =>
        rw [hsr] at hspec
        obtain ⟨w', hw1, hw2, hw3, hw4⟩ := hspec
        refine ⟨w', ?_, ?_⟩
        · by_cases hl : dd.length > size
          · have hlI : (size : Int) < (dd.length : Int) := by omega
            simp [Blk.seq, Blk.ite, Blk.ret, Blk.assign, Blk.skip, Blk.call, Blk.tryExcept, finishMethod, outcome, len,
              hs0, truthy, mnet_settimeout, mnet_recv, hw1, hl, hlI, sliceTo_nat, sliceFrom_nat]
          · have hlI : ¬ (size : Int) < (dd.length : Int) := by omega
            simp [Blk.seq, Blk.ite, Blk.ret, Blk.assign, Blk.skip, Blk.call, Blk.tryExcept, finishMethod, outcome, len,
              hs0, truthy, mnet_settimeout, mnet_recv, hw1, hl, hlI]
        · by_cases hl : dd.length > size <;> simp [hs0, scriptAfter, hw2, hl]
    · refine ⟨w, ?_, ?_⟩
      · simp [Blk.seq, Blk.ite, Blk.ret, Blk.assign, Blk.skip, finishMethod, outcome, len, hge, hgeI, hb, truthy]
      · simp [hge, hb, scriptAfter]

/-- non-zero `flags`: `ValueError` before anything is touched (Model3.lean's `recvFlags`) -/
theorem src_recv_flags (J : Int) (st : BufferedSocket.St Int) (w : NW) (size flags : Int)
    (targ : Option (Option Int)) (hfl : flags ≠ 0) :
    BufferedSocket.recv (mnet J) st size flags targ w = (.error .valueError, st, w) := by
  simp [BufferedSocket.recv, runMethod, BufferedSocket.recv.body, Blk.seq, Blk.ite, Blk.assign, Blk.raise, finishMethod, hfl]


/-! ## send side (round 3f): `buffer`, `send`, `sendall`, `flush`

The world of the send side is the model's send script (`C12.SEv`: how many bytes each `sock.send` takes, socket timeouts, the
wall clock passing the deadline), the wire (everything the socket accepted so far) and the clock, which - as on the receive
side and in the harness - jumps by `J` when a `sock.send` returns normally and leaves a `clock` event at the head of the
script: the deadline check that follows then fires (`popClock`).  `sbuf` is the object's list attribute. -/

structure SW where
  script : List SEv
  wire : Bytes
  late : Bool
deriving Repr

def isClock : List SEv → Bool
  | .clock :: _ => true
  | _ => false

/-- `sock.send(d)` on the model's send script (cf. `C12.sendLoop`, harness `FakeSock.send`) -/
def netSend (d : PyRtC12.Bytes) (w : SW) : Except Exc Int × SW :=
  match w.script with
  | [] => (.ok ((d.length : Nat) : Int), ⟨[], w.wire ++ d, false⟩)
  | .timeout :: r => (.error .sockTimeout, ⟨r, w.wire, false⟩)
  | .clock :: r => (.error .sockTimeout, ⟨r, w.wire, false⟩)      -- a send that finds the deadline passed times out too
  | .accept k :: r => (.ok ((min k d.length : Nat) : Int), ⟨r, w.wire ++ d.take k, isClock r⟩)

/-- the model's send-side network as an instance of the operations the generated code calls -/
def snet (J : Int) : Net SW Int where
  recv := fun _ w => (.ok [], w)
  settimeout := fun _ w => (.ok (), w)
  send := netSend
  time := fun w => (.ok (if w.late then J else 0), w)
  fsub := fun a b => a - b
  fle := fun a b => decide (a ≤ b)
  fzero := 0
  ftruthy := fun a => decide (a ≠ 0)

theorem snet_send (J : Int) (d : PyRtC12.Bytes) (w : SW) : (snet J).send d w = netSend d w := rfl
theorem snet_settimeout (J : Int) (t : Option Int) (w : SW) : (snet J).settimeout t w = (.ok (), w) := rfl
theorem snet_time (J : Int) (w : SW) : (snet J).time w = (.ok (if w.late then J else 0), w) := rfl
theorem snet_fsub (J a b : Int) : (snet J).fsub a b = a - b := rfl
theorem snet_fle (J a b : Int) : (snet J).fle a b = decide (a ≤ b) := rfl
theorem snet_fzero (J : Int) : (snet J).fzero = 0 := rfl
theorem snet_truthy_some (J t : Int) : (snet J).truthyOpt (some t) = decide (t ≠ 0) := rfl

/-- the script the model is left with: a `clock` event whose check fired is used up by that fault -/
def ssettle (w : SW) : List SEv := if w.late then w.script.tail else w.script

/-- the model's send-side state of an object in a world -/
def sst (st : BufferedSocket.St Int) (w : SW) : SSt := ⟨st.sbuf, w.wire, w.script⟩

/-- `buffer(data)` = the model's `buffer`: `data` is appended to `sbuf`, nothing is sent, `None` -/
theorem src_buffer_eq_model (J : Int) (st : BufferedSocket.St Int) (w : SW) (data : Bytes) :
    BufferedSocket.buffer (snet J) st data w = (.ok (), { st with sbuf := (buffer data (sst st w)).2.sbuf }, w) ∧
    (buffer data (sst st w)).1 = .none ∧ (buffer data (sst st w)).2.wire = w.wire ∧
    (buffer data (sst st w)).2.script = w.script := by
  simp [BufferedSocket.buffer, runMethod, BufferedSocket.buffer.body, Blk.seq, Blk.assign, Blk.ret, finishMethod, buffer, sst]

example : BufferedSocket.buffer (snet 100) ⟨[], [[1]], 10, some 5, 4⟩ [2, 3] ⟨[.accept 1], [], false⟩
    = (.ok (), ⟨[], [[1], [2, 3]], 10, some 5, 4⟩, ⟨[.accept 1], [], false⟩) := rfl


/-! ### `send` -/

abbrev SFr := Fr (BufferedSocket.St Int) (BufferedSocket.send.L Int) SW

/-- what the result of the model's `sendLoop` says about the outcome of the generated loop started on frame `s0` whose
    `sbuf` is `b :: rest`: `sbuf[0]` is what the model leaves, the wire and the script agree, a fault surfaces as an
    exception the `except socket.timeout` clause catches -/
def SendLoopPost (self0 : BufferedSocket.St Int) (rest : List Bytes) (mr : SRes × SSt) (o : Out Int × SFr) : Prop :=
  o.2.self = { self0 with sbuf := mr.2.sbuf ++ rest } ∧ o.2.w.wire = mr.2.wire ∧
  match mr.1 with
  | .sent n => o.1 = .next ∧ o.2.loc.total_sent = (n : Int) ∧ o.2.w.script = mr.2.script ∧ o.2.w.late = false
  | .timeout => (∃ e, o.1 = .exc e ∧ e.isSockTimeout = true) ∧ ssettle o.2.w = mr.2.script
  | .none => False

theorem drop_min_length {α : Type} (l : List α) (k : Nat) : l.drop (min k l.length) = l.drop k := by
  by_cases h : k ≤ l.length
  · rw [Nat.min_eq_left h]
  · have h2 : l.length ≤ k := by omega
    rw [Nat.min_eq_right h2, List.drop_of_length_le (Nat.le_refl _), List.drop_of_length_le h2]

theorem isClock_popClock (r : List SEv) :
    (isClock r = true ∧ ∃ r1, r = .clock :: r1 ∧ popClock r = some r1) ∨ (isClock r = false ∧ popClock r = none) := by
  cases r with
  | nil => simp [isClock, popClock]
  | cons e r1 => cases e <;> simp [isClock, popClock]

/-- fuel the loop needs: one iteration per script event, one for "the socket takes everything", one for the final test -/
def sendFuel (script : List SEv) (b : Bytes) : Nat := script.length + (if b = [] then 1 else 2)

theorem sliceFrom_len_cons (x : Nat) (xs : List Nat) : sliceFrom (x :: xs) ((xs.length : Int) + 1) = [] := by
  have h := sliceFrom_nat (x :: xs) (xs.length + 1)
  simpa using h

theorem sliceFrom_min_cons (x : Nat) (xs : List Nat) (k : Nat) :
    sliceFrom (x :: xs) ((min k (xs.length + 1) : Nat) : Int) = (x :: xs).drop k := by
  rw [sliceFrom_nat]
  exact drop_min_length (x :: xs) k

theorem send_loop (J t : Int) (ht0 : 0 < t) (htJ : t ≤ J) (lf : Nat) :
    ∀ (n : Nat) (s : SFr) (b : Bytes) (rest : List Bytes) (total : Nat),
      sendFuel s.w.script b ≤ n → s.self.sbuf = b :: rest → s.loc.timeout_r = some t → s.loc.start = 0 →
      s.loc.total_sent = (total : Int) → s.w.late = false →
      SendLoopPost s.self rest (sendLoop s.w.script b total s.w.wire)
        (Blk.whileLoop (BufferedSocket.send.loop1.cond (snet J) lf) (BufferedSocket.send.loop1.body (snet J) lf)
          (BufferedSocket.send.loop1.orelse (snet J) lf) n s) := by
  intro n
  induction n with
  | zero =>
    intro s b rest total hn
    unfold sendFuel at hn
    split at hn <;> omega
  | succ n ih =>
    intro s b rest total hn hsb hto hst htot hlate
    obtain ⟨self, loc, w⟩ := s
    obtain ⟨script, wire, late⟩ := w
    simp only at hn hsb hto hst htot hlate
    subst hlate
    have htne : t ≠ 0 := by omega
    have hself : ∀ y : Bytes, ({ self with sbuf := [y] ++ rest } : BufferedSocket.St Int) = { self with sbuf := y :: rest } := by
      intro y; rfl
    cases b with
    | nil =>
      have hself0 : self = { self with sbuf := [[]] ++ rest } := by
        obtain ⟨rb, sb, ms, tmo0, rsz⟩ := self
        simp only at hsb
        subst hsb
        rfl
      simp [Blk.whileLoop, BufferedSocket.send.loop1.cond, BufferedSocket.send.loop1.orelse, Blk.skip, hsb, truthy, len,
        sendLoop, SendLoopPost, htot]
      exact hself0
    | cons x xs =>
      have hc : BufferedSocket.send.loop1.cond (snet J) lf ⟨self, loc, ⟨script, wire, false⟩⟩ = true := by
        simp [BufferedSocket.send.loop1.cond, hsb, truthy, len]
        try omega
      rw [Blk.whileLoop]
      simp only [hc, if_true]
      cases script with
      | nil =>
        have hn2 : sendFuel [] ([] : Bytes) ≤ n := by simp [sendFuel] at hn ⊢; omega
        generalize hB : BufferedSocket.send.loop1.body (snet J) lf ⟨self, loc, ⟨[], wire, false⟩⟩ = B
        simp [BufferedSocket.send.loop1.body, Blk.seq, Blk.call, Blk.assign, Blk.ite, Blk.skip, Blk.raise, snet_send, netSend,
          snet_settimeout, snet_time, snet_fsub, snet_fle, snet_fzero, hto, snet_truthy_some, htne, unwrap, hsb, hst, htot,
          sliceFrom_len_cons, show ¬ t ≤ 0 by omega] at hB
        subst hB
        simp only []
        generalize hF : (Fr.mk _ _ _ : SFr) = F
        have h := ih F [] rest (total + (x :: xs).length) (by subst hF; exact hn2) (by subst hF; rfl) (by subst hF; simp [hto])
          (by subst hF; simp [hst]) (by subst hF; simp [htot] <;> omega) (by subst hF; rfl)
        have e1 : F.self = { self with sbuf := [] :: rest } := by subst hF; rfl
        have e2 : F.w = ⟨[], wire ++ (x :: xs), false⟩ := by subst hF; rfl
        rw [e1, e2] at h
        simpa [SendLoopPost, sendLoop] using h
      | cons e r =>
        cases e with
        | timeout =>
          have hself1 : self = { self with sbuf := [x :: xs] ++ rest } := by
            obtain ⟨rb, sb, ms, tmo0, rsz⟩ := self
            simp only at hsb
            subst hsb
            rfl
          simp [BufferedSocket.send.loop1.body, Blk.seq, Blk.call, snet_send, netSend, hsb, sendLoop, SendLoopPost, ssettle,
            Exc.isSockTimeout]
          exact hself1
        | clock =>
          have hself1 : self = { self with sbuf := [x :: xs] ++ rest } := by
            obtain ⟨rb, sb, ms, tmo0, rsz⟩ := self
            simp only at hsb
            subst hsb
            rfl
          simp [BufferedSocket.send.loop1.body, Blk.seq, Blk.call, snet_send, netSend, hsb, sendLoop, SendLoopPost, ssettle,
            Exc.isSockTimeout]
          exact hself1
        | accept k =>
          rcases isClock_popClock r with ⟨hck, r1, hr1, hpop⟩ | ⟨hck, hpop⟩
          · have hJ : t - J ≤ 0 := by omega
            subst hr1
            simp [isClock, popClock, BufferedSocket.send.loop1.body, Blk.seq, Blk.call, Blk.assign, Blk.ite, Blk.skip, Blk.raise, snet_send, netSend,
              snet_settimeout, snet_time, snet_fsub, snet_fle, snet_fzero, hto, snet_truthy_some, htne, unwrap, hsb, hst, htot,
              sliceFrom_min_cons, hJ, sendLoop, SendLoopPost, ssettle, Exc.isSockTimeout]
          · have hn2 : sendFuel r ((x :: xs).drop k) ≤ n := by
              have hne : ¬ (x :: xs = []) := by simp
              simp only [sendFuel, List.length_cons, if_neg hne] at hn
              unfold sendFuel
              split <;> omega
            generalize hB : BufferedSocket.send.loop1.body (snet J) lf ⟨self, loc, ⟨.accept k :: r, wire, false⟩⟩ = B
            simp [BufferedSocket.send.loop1.body, Blk.seq, Blk.call, Blk.assign, Blk.ite, Blk.skip, Blk.raise, snet_send, netSend,
              snet_settimeout, snet_time, snet_fsub, snet_fle, snet_fzero, hto, snet_truthy_some, htne, unwrap, hsb, hst, htot,
              sliceFrom_min_cons, hck, show ¬ t ≤ 0 by omega] at hB
            subst hB
            simp only []
            generalize hF : (Fr.mk _ _ _ : SFr) = F
            have h := ih F ((x :: xs).drop k) rest (total + min k (x :: xs).length) (by subst hF; exact hn2) (by subst hF; rfl)
              (by subst hF; simp [hto]) (by subst hF; simp [hst]) (by subst hF; simp [htot]) (by subst hF; rfl)
            have e1 : F.self = { self with sbuf := (x :: xs).drop k :: rest } := by subst hF; rfl
            have e2 : F.w = ⟨r, wire ++ (x :: xs).take k, false⟩ := by subst hF; rfl
            rw [e1, e2] at h
            simpa [SendLoopPost, sendLoop, hpop] using h

theorem truthy_eq_isNonEmpty : (truthy : PyRtC12.Bytes → Bool) = isNonEmpty := by
  funext b; cases b <;> rfl

/-- what the caller of a send-side method sees -/
def soutcome : SRes → Except Exc Int
  | .sent n => .ok (n : Int)
  | .timeout => .error .timeout
  | .none => .ok 0

/-- the script the model is left with after a send-side call on world `w` -/
def sscriptAfter (r : SRes) (w : SW) : List SEv := if r = .timeout then ssettle w else w.script

/-- `send(data, 0, timeout)` = the model's `send`: the value (`total_sent`) or `Timeout`, `sbuf` joined and trimmed as in the
    model, the wire, the script used - under every partial-send / socket-timeout / deadline script, for a positive timeout
    the clock's jump exceeds, with fuel ≥ script length + 2 -/
theorem src_send_eq_model (J t : Int) (ht0 : 0 < t) (htJ : t ≤ J) (st : BufferedSocket.St Int) (w : SW) (data : Bytes)
    (targ : Option (Option Int)) (lfuel : Nat) (hlate : w.late = false) (hto : orDefault targ st.timeout = some t)
    (hf : w.script.length + 2 ≤ lfuel) :
    ∃ w', BufferedSocket.send (snet J) lfuel st data 0 targ w
        = (soutcome (send data (sst st w)).1, { st with sbuf := (send data (sst st w)).2.sbuf }, w') ∧
      w'.wire = (send data (sst st w)).2.wire ∧
      sscriptAfter (send data (sst st w)).1 w' = (send data (sst st w)).2.script := by
  have hsend : ∀ b : Bytes, send data (sst st w) = ((sendLoop w.script b 0 w.wire).1,
      ⟨(sendLoop w.script b 0 w.wire).2.sbuf ++ [], (sendLoop w.script b 0 w.wire).2.wire, (sendLoop w.script b 0 w.wire).2.script⟩) →
      (∀ F : SFr, F.self = { st with sbuf := [b] } → F.loc.timeout_r = some t → F.loc.start = 0 → F.loc.total_sent = 0 → F.w = w →
        ∃ O, Blk.whileLoop (BufferedSocket.send.loop1.cond (snet J) lfuel) (BufferedSocket.send.loop1.body (snet J) lfuel)
            (BufferedSocket.send.loop1.orelse (snet J) lfuel) lfuel F = O ∧
          SendLoopPost st [] (sendLoop w.script b 0 w.wire) O) := by
    intro b _ F h1 h2 h3 h4 h5
    refine ⟨_, rfl, ?_⟩
    have hfu : sendFuel F.w.script b ≤ lfuel := by
      rw [h5]; unfold sendFuel; split <;> omega
    have key := send_loop J t ht0 htJ lfuel lfuel F b [] 0 hfu (by rw [h1]) h2 h3 (by rw [h4]; rfl) (by rw [h5]; exact hlate)
    rw [h5] at key
    simpa [SendLoopPost, h1] using key
  unfold BufferedSocket.send runMethod BufferedSocket.send.body
  cases hs : st.sbuf with
  | nil =>
    have hm : send data (sst st w) = ((sendLoop w.script data 0 w.wire).1,
      ⟨(sendLoop w.script data 0 w.wire).2.sbuf ++ [], (sendLoop w.script data 0 w.wire).2.wire, (sendLoop w.script data 0 w.wire).2.script⟩) := by
      simp [send, sst, hs]
    have hk := hsend data hm
    rw [hm]
    simp [Blk.seq, Blk.assign, Blk.call, Blk.ite, Blk.skip, Blk.tryExcept, snet_time, snet_settimeout, hlate, hto, hs, lenL]
    generalize hF : (Fr.mk _ _ _ : SFr) = F
    obtain ⟨O, hO, hpost⟩ := hk F (by subst hF; simp [hs]) (by subst hF; rfl) (by subst hF; rfl) (by subst hF; rfl) (by subst hF; rfl)
    rw [hO]
    clear hO hF hk hm
    obtain ⟨o, F1⟩ := O
    generalize sendLoop w.script _ 0 w.wire = mr at hpost ⊢
    obtain ⟨r, m⟩ := mr
    simp only [SendLoopPost] at hpost
    obtain ⟨k1, k2, k3⟩ := hpost
    cases r with
    | sent n =>
      obtain ⟨k3, k4, k5, k6⟩ := k3
      subst k3
      refine ⟨F1.w, ?_, k2, ?_⟩
      · simp [finishMethod, Blk.ret, soutcome, k1, k4]
      · simp [sscriptAfter, k5]
    | timeout =>
      obtain ⟨⟨e, k3, ke⟩, k5⟩ := k3
      subst k3
      refine ⟨F1.w, ?_, k2, ?_⟩
      · simp [finishMethod, Blk.raise, soutcome, ke, k1]
      · simp [sscriptAfter, k5]
    | none => exact k3.elim
  | cons a l =>
    have hm : send data (sst st w) = ((sendLoop w.script (((a :: l) ++ [data]).filter isNonEmpty).flatten 0 w.wire).1,
      ⟨(sendLoop w.script (((a :: l) ++ [data]).filter isNonEmpty).flatten 0 w.wire).2.sbuf ++ [],
       (sendLoop w.script (((a :: l) ++ [data]).filter isNonEmpty).flatten 0 w.wire).2.wire,
       (sendLoop w.script (((a :: l) ++ [data]).filter isNonEmpty).flatten 0 w.wire).2.script⟩) := by
      simp [send, sst, hs]
    generalize hbb : (((a :: l) ++ [data]).filter isNonEmpty).flatten = b at hm
    have hk := hsend b hm
    rw [hm]
    have hi : (1 : Int) < (l.length : Int) + 1 + 1 := by omega
    simp [Blk.seq, Blk.assign, Blk.call, Blk.ite, Blk.skip, Blk.tryExcept, snet_time, snet_settimeout, hlate, hto, hs, lenL, hi,
      join, truthy_eq_isNonEmpty]
    generalize hF : (Fr.mk _ _ _ : SFr) = F
    obtain ⟨O, hO, hpost⟩ := hk F (by subst hF; simp [hs, join, truthy_eq_isNonEmpty, ← hbb]) (by subst hF; rfl) (by subst hF; rfl) (by subst hF; rfl) (by subst hF; rfl)
    rw [hO]
    clear hO hF hk hm
    obtain ⟨o, F1⟩ := O
    generalize sendLoop w.script _ 0 w.wire = mr at hpost ⊢
    obtain ⟨r, m⟩ := mr
    simp only [SendLoopPost] at hpost
    obtain ⟨k1, k2, k3⟩ := hpost
    cases r with
    | sent n =>
      obtain ⟨k3, k4, k5, k6⟩ := k3
      subst k3
      refine ⟨F1.w, ?_, k2, ?_⟩
      · simp [finishMethod, Blk.ret, soutcome, k1, k4]
      · simp [sscriptAfter, k5]
    | timeout =>
      obtain ⟨⟨e, k3, ke⟩, k5⟩ := k3
      subst k3
      refine ⟨F1.w, ?_, k2, ?_⟩
      · simp [finishMethod, Blk.raise, soutcome, ke, k1]
      · simp [sscriptAfter, k5]
    | none => exact k3.elim


/-- non-zero `flags`: `ValueError` before `sbuf` is touched (Model3.lean's `sendFlags`) -/
theorem src_send_flags (J : Int) (lfuel : Nat) (st : BufferedSocket.St Int) (w : SW) (data : Bytes) (flags : Int)
    (targ : Option (Option Int)) (hfl : flags ≠ 0) :
    BufferedSocket.send (snet J) lfuel st data flags targ w = (.error .valueError, st, w) := by
  simp [BufferedSocket.send, runMethod, BufferedSocket.send.body, Blk.seq, Blk.ite, Blk.assign, Blk.raise, finishMethod, hfl]

-- two partial sends: the buffered byte and the new data go out joined, in order
example : BufferedSocket.send (snet 100) 10 ⟨[], [[1]], 10, some 5, 4⟩ [2, 3] 0 none ⟨[.accept 2, .accept 5], [], false⟩
    = (.ok 3, ⟨[], [[]], 10, some 5, 4⟩, ⟨[], [1, 2, 3], false⟩) := rfl
-- the deadline passes after the first partial send: `Timeout`, the unsent byte stays in `sbuf`
example : BufferedSocket.send (snet 100) 10 ⟨[], [[1]], 10, some 5, 4⟩ [2, 3] 0 none ⟨[.accept 2, .clock, .accept 5], [], false⟩
    = (.error .timeout, ⟨[], [[3]], 10, some 5, 4⟩, ⟨[.clock, .accept 5], [1, 2], true⟩) := rfl
example : ∃ w', BufferedSocket.send (snet 100) 10 ⟨[], [[1]], 10, some 5, 4⟩ [2, 3] 0 none ⟨[.accept 2, .clock, .accept 5], [], false⟩
      = (.error .timeout, ⟨[], [[3]], 10, some 5, 4⟩, w') ∧ w'.wire = [1, 2] ∧ ssettle w' = [.accept 5] := by
  have h := src_send_eq_model 100 5 (by decide) (by decide) ⟨[], [[1]], 10, some 5, 4⟩ ⟨[.accept 2, .clock, .accept 5], [], false⟩
    [2, 3] none 10 rfl rfl (by decide)
  obtain ⟨w', h1, h2, h3⟩ := h
  exact ⟨w', h1, h2, h3⟩

/-! ### `sendall`, `flush` -/

/-- `sendall` is `send`, on every network -/
theorem src_sendall_eq_send {W : Type} (net : Net W Int) (lfuel : Nat) (st : BufferedSocket.St Int) (w : W) (data : Bytes)
    (flags : Int) (targ : Option (Option Int)) :
    BufferedSocket.sendall net lfuel st data flags targ w = BufferedSocket.send net lfuel st data flags targ w := by
  unfold BufferedSocket.sendall runMethod BufferedSocket.sendall.body
  simp only [Blk.seq, Blk.callm, Blk.ret]
  rcases hr : BufferedSocket.send net lfuel st data flags targ w with ⟨r, st1, w1⟩
  cases r <;> simp [finishMethod]

/-- `sendall(data, 0, timeout)` = the model's `send` (the model has one operation for both) -/
theorem src_sendall_eq_model (J t : Int) (ht0 : 0 < t) (htJ : t ≤ J) (st : BufferedSocket.St Int) (w : SW) (data : Bytes)
    (targ : Option (Option Int)) (lfuel : Nat) (hlate : w.late = false) (hto : orDefault targ st.timeout = some t)
    (hf : w.script.length + 2 ≤ lfuel) :
    ∃ w', BufferedSocket.sendall (snet J) lfuel st data 0 targ w
        = (soutcome (send data (sst st w)).1, { st with sbuf := (send data (sst st w)).2.sbuf }, w') ∧
      w'.wire = (send data (sst st w)).2.wire ∧
      sscriptAfter (send data (sst st w)).1 w' = (send data (sst st w)).2.script := by
  rw [src_sendall_eq_send]
  exact src_send_eq_model J t ht0 htJ st w data targ lfuel hlate hto hf

example : BufferedSocket.sendall (snet 100) 10 ⟨[], [[1]], 10, some 5, 4⟩ [2, 3] 0 none ⟨[.accept 2, .timeout], [], false⟩
    = (.error .timeout, ⟨[], [[3]], 10, some 5, 4⟩, ⟨[], [1, 2], false⟩) := rfl

/-- what the caller of `flush` / `buffer` sees: `None`, or `Timeout` -/
def soutcomeU : SRes → Except Exc Unit
  | .timeout => .error .timeout
  | _ => .ok ()

/-- `flush()` = the model's `flush`: `send(b'')` with the object's timeout, the byte count dropped -/
theorem src_flush_eq_model (J t : Int) (ht0 : 0 < t) (htJ : t ≤ J) (st : BufferedSocket.St Int) (w : SW)
    (lfuel : Nat) (hlate : w.late = false) (hto : st.timeout = some t) (hf : w.script.length + 2 ≤ lfuel) :
    ∃ w', BufferedSocket.flush (snet J) lfuel st w
        = (soutcomeU (flush (sst st w)).1, { st with sbuf := (flush (sst st w)).2.sbuf }, w') ∧
      w'.wire = (flush (sst st w)).2.wire ∧
      sscriptAfter (flush (sst st w)).1 w' = (flush (sst st w)).2.script := by
  obtain ⟨w', h1, h2, h3⟩ := src_send_eq_model J t ht0 htJ st w [] none lfuel hlate (by simpa [orDefault] using hto) hf
  refine ⟨w', ?_, ?_, ?_⟩
  · unfold BufferedSocket.flush runMethod BufferedSocket.flush.body
    simp only [Blk.seq, Blk.callm, h1, flush]
    cases hm : (send [] (sst st w)).1 <;> rcases hp : send [] (sst st w) with ⟨r, m⟩ <;> rw [hp] at hm <;> simp at hm <;>
      subst hm <;> simp [soutcome, soutcomeU, finishMethod, Blk.ret]
  · unfold flush
    rcases hp : send [] (sst st w) with ⟨r, m⟩
    rw [hp] at h2
    cases r <;> simpa using h2
  · unfold flush
    rcases hp : send [] (sst st w) with ⟨r, m⟩
    rw [hp] at h3
    cases r <;> simpa [sscriptAfter] using h3

example : BufferedSocket.flush (snet 100) 10 ⟨[], [[1], [], [2, 3]], 10, some 5, 4⟩ ⟨[.accept 1], [9], false⟩
    = (.ok (), ⟨[], [[]], 10, some 5, 4⟩, ⟨[], [9, 1, 2, 3], false⟩) := rfl

end C12
