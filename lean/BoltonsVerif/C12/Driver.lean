import BoltonsVerif.Common
import BoltonsVerif.C12.Model
import BoltonsVerif.C12.Model3
import BoltonsVerif.C12.Model4
import BoltonsVerif.Generated.C12_Consts
/-
C12 line protocol.  One line = one whole case.

  rx <recvsize> <maxsize> <retry:0|1> <script> <op> ...
       script : `-` | events joined by `,` : `t` (socket.timeout) | `w` (the wall-clock deadline passes:
                same model event as `t`, see Model.lean) | `e` (the socket raises a transient OSError: the
                code's catch-all handlers do to the state exactly what the timeout handlers do, so again
                the same model event; the outcome is printed `oserror` instead of `timeout` - the class of a
                raised fault is the model's own bookkeeping, `BSock.rtags` / `dcall`, theorem `fault_class_exact`) | <hex> (a chunk)
       op     : r<n>[@<obs>]* recv(n) | p<n> peek(n) | s<n> recv_size(n)
              | u<w:0|1>:<max>:<hexdelim|-> recv_until | c<max> recv_close | m<n> setmaxsize(n)
       obs    : what ONE attempt of recv did on the implementation (round 3c: recv is an acceptance step, Model4.lean):
                <res>~<getrecvbuffer() hex|->~<bytes the network still holds>~<faults the network still holds>
                res : v<hex|-> returned | T raised Timeout | E raised the socket's OSError | X anything else (never accepted)
                each obs is checked by `daccRecv` / `acceptRecv` against the model's state (the statement's recv clause)
                and the model CONTINUES FROM THE OBSERVED STATE; the record echoes the observation, or `rejected`.
                Without obs the model's own `recv` is run (as before).
       max    : U (argument omitted -> constructor maxsize) | N (None -> _RECV_LARGE_MAXSIZE) | <n>
       retry=1: an op that raised Timeout is called again, at most (#t events + 1) attempts in total
     output: one record per attempt, `;`-joined:  <res>/<rbuf hex>
       res : ok:<hex|-> | closed | toolong | timeout | oserror | fuel
       a framing call (p s u c) may carry `@<obs>` per attempt as well: the model computes the attempt and is then
       re-seated on the observed split when that is a split of the same bytes owed (`reseat`; the res part is ignored)
       retry=1 appends ` #<final result of every call, `,`-joined>/<final rbuf ++ undelivered>|<number of operations>`
       computed by `runMixed` over `resolveMixed` (= `runCalls` / `resolveCalls` when no recv was observed)
  tx <script> <op> ...
       script : `-` | `a<k>` (send accepts at most k bytes) | `t` | `w` (SEv.clock) | `e` (transient
                OSError from sock.send: SEv.timeout, printed `oserror`), joined by `,`
       op     : s<hex|->[@<offers>] send / sendall | b<hex|-> buffer | f[@<offers>] flush
       offers : `.`-joined: how many bytes each `sock.send` of that call was given (observed; only written when some
                call offered less than the whole buffer): `dsopA` / `sendLoopA`; without it the whole buffer (`dsop`)
     output per op:  <res>/<getsendbuffer hex>/<wire hex> ; res : sent:<n> | none | timeout | oserror
       followed by ` #<faults of the script still unused>` (`nSF` after `srun`)
  ns <maxsize> <wscript> <cuts> <nreads> <rcfg> <payloadhex|->[@<offers|_>]* ...
       rcfg : how the reading NetstringSocket is configured: `c<n>` (constructor maxsize) then any number
              of `s<n>` (setmaxsize) then optionally `a<n>` (read_ns(maxsize=n)), joined by `,`
       every payload is written with write_ns (after a Timeout: flush until done, bounded);
       the wire is cut into chunks of the given sizes (`-` = one chunk; remainder = last chunk)
       and read back with nreads read_ns calls.
     output: W:<per-write results `,`-joined>;<wire hex>;<per-read results `,`-joined>
  nsr <rcfg> <script> <nreads> [<split>]*   read_ns over an arbitrary script; split = <rbuf hex|->~<und>~<faults left>
       observed after each read_ns: the model continues from that split when it is a split of the same view (`reseat`)
     output: per read `,`-joined <res>/<rbuf ++ undelivered, hex>
  dx <recvsize> <maxsize> <rscript> <sscript> <op> ...     ONE BufferedSocket, receive and send calls interleaved
       op : R<rx op as above> | RF<size>:<flags>[@<obs>] recv(size, flags) | S<tx op as above> | SF<hex|->:<flags>[@<offers>] send(data, flags)
     output per op: <res>/<rbuf hex>/<getsendbuffer hex>/<wire hex>, `;`-joined, then ` #<send faults left>`
       res : ok:<hex|-> | closed | toolong | none | sent:<n> | timeout | oserror | valueerror
     computed by `drun` (Model3.lean): fault classes come from `BSock.rtags` / `stags`
  duo <line> | <line>                   two independent sockets (the harness interleaves their calls):
                                        output `<out> | <out>`
  int <hex|->                             the model of Python's int(bytes): the value or `err`
  consts                                  the generated constants
-/
namespace C12.Driver
open BV C12

def natsToHex (bs : Bytes) : String :=
  if bs.isEmpty then "-" else bytesToHex (bs.map UInt8.ofNat)

def hexToNats? (s : String) : Option Bytes :=
  if s = "-" then some [] else (hexToBytes? s).map (·.map UInt8.toNat)

def showRes : Res → String
  | .ok bs => s!"ok:{natsToHex bs}"
  | .closed => "closed"
  | .tooLong => "toolong"
  | .timeout => "timeout"
  | .fuel => "fuel"

def parseScript? (s : String) : Option (List Ev) :=
  if s = "-" then some [] else
  (splitOnChar s ',').foldr (fun w acc =>
    match acc with
    | none => none
    | some l =>
      if w = "t" || w = "w" || w = "e" then some (.timeout :: l)
      else match hexToBytes? w with
        | some bs => if bs.isEmpty then none else some (.chunk (bs.map UInt8.toNat) :: l)
        | none => none) (some [])

def parseMax? (s : String) : Option Max :=
  if s = "U" then some .unset
  else if s = "N" then some .none
  else s.toNat?.map Max.some

def parseCall? (tok : String) : Option Call :=
  let rest := (tok.drop 1).toString
  match tok.front with
  | 'r' => rest.toNat?.map Call.recv
  | 'p' => rest.toNat?.map Call.peek
  | 's' => rest.toNat?.map Call.recvSize
  | 'm' => rest.toNat?.map Call.setMaxsize
  | 'c' => (parseMax? rest).map Call.recvClose
  | 'u' => match splitOnChar rest ':' with
    | [w, m, d] =>
      match parseMax? m, hexToNats? d with
      | some m, some d => if w = "1" then some (.recvUntil d m true)
                          else if w = "0" then some (.recvUntil d m false) else none
      | _, _ => none
    | _ => none
  | _ => none

def nTimeouts (s : List Ev) : Nat := (s.filter (· == .timeout)).length

/-- for every fault token of a script, in order: is it an `e` (OSError) rather than a timeout? -/
def faultTags (s : String) : List Bool :=
  (splitOnChar s ',').filterMap fun w =>
    if w = "e" then some true else if w = "t" || w = "w" then some false else none

/-! the rx / tx lines run on the one-object model too (`dcall` / `dsop`, Model3.lean): the class of a raised
    fault is `BSock.rtags` / `stags` bookkeeping of the model (`fault_class_exact`), not of the driver -/

def tagsOf (s : String) : List Fault :=
  (faultTags s).map fun b => if b then Fault.osError else Fault.timeout

def showDOut : DOut → String
  | .rx (some r) => showRes r
  | .rx none => "none"
  | .tx (.sent n) => s!"sent:{n}"
  | .tx .none => "none"
  | .tx .timeout => "timeout"
  | .fault .timeout => "timeout"
  | .fault .osError => "oserror"
  | .valueError => "valueerror"

/-! ### round 3c: observed recv attempts (acceptance steps) -/

abbrev Obs := Option (RecvObs × Fault)     -- `none` = an outcome that is never acceptable (`X`)

def parseObs? (s : String) : Option Obs :=
  match splitOnChar s '~' with
  | [r, rb, u, f] =>
    if r = "X" then some none else
    match hexToNats? rb, u.toNat?, f.toNat? with
    | some rb, some u, some f =>
      if r = "T" then some (some (⟨none, rb, u, f⟩, .timeout))
      else if r = "E" then some (some (⟨none, rb, u, f⟩, .osError))
      else if r.front = 'v' then
        (hexToNats? (r.drop 1).toString).map fun v => some (⟨some v, rb, u, f⟩, .timeout)
      else none
    | _, _, _ => none
  | _ => none

def parseObsList? (l : List String) : Option (List Obs) :=
  l.foldr (fun o acc => match acc, parseObs? o with
    | some l, some x => some (x :: l) | _, _ => none) (some [])

/-- the split observed after an attempt (`none`: nothing usable was observed) -/
def seatOf : List Obs → Option RecvObs
  | some (o, _) :: _ => some o
  | _ => none

/-- one framing call with the harness's retry discipline (again after a fault, at most `k` attempts); a record per
    attempt.  The model computes the attempt; then it is re-seated on the split observed after that attempt when that
    is a split of the same bytes owed (`dseat` / `reseat`) - the value is pinned, the split is free. -/
def runCallD (c : Call) (s0 : List Ev) : Nat → List Obs → BSock → List String → BSock × List String
  | 0, _, b, acc => (b, acc)
  | k + 1, seats, b, acc =>
    let (out, b1) := dcall Gen.RECV_LARGE_MAXSIZE c b
    let b' := dseat s0 (seatOf seats) b1
    let rec_ := s!"{showDOut out}/{natsToHex b'.rx.rbuf}"
    match out with
    | .fault _ => runCallD c s0 k seats.tail b' (rec_ :: acc)
    | _ => (b', rec_ :: acc)

/-- a receive-side token: the call, and what was observed of its attempts written behind it (`@`-joined) -/
def parseRxTok? (tok : String) : Option (Call × List Obs) :=
  match splitOnChar tok '@' with
  | [] => none
  | c :: obs =>
    match parseCall? c, parseObsList? obs with
    | some call, some l => some (call, l)
    | _, _ => none

/-- recv(size) with its observed attempts: each one is accepted (or not) against the model's state and the
    model continues from the observed state; after a fault comes the next attempt -/
def runRecvD (size : Nat) : List Obs → BSock → List String → BSock × List String
  | [], b, acc => (b, acc)
  | none :: _, b, acc => (b, s!"rejected/{natsToHex b.rx.rbuf}" :: acc)
  | some (o, cls) :: rest, b, acc =>
    match daccRecv size o cls b with
    | none => (b, s!"rejected/{natsToHex b.rx.rbuf}" :: acc)
    | some (out, b') =>
      let rec_ := s!"{showDOut out}/{natsToHex b'.rx.rbuf}"
      match out with
      | .fault _ => runRecvD size rest b' (rec_ :: acc)
      | _ => (b', rec_ :: acc)

def toMCall : Call × List Obs → Option MCall
  | (.recv n, o :: os) =>
    ((o :: os).foldr (fun o acc => match acc, o with
      | some l, some (x, _) => some (x :: l) | _, _ => none) (some [])).map (MCall.recvObs n)
  | (c, obs) => some (.call c (seatOf obs.reverse))        -- the split after the LAST attempt

/-- one final result per call that has one (not setmaxsize): of an observed recv, that of its last attempt -/
def finalsOf (large : Nat) : Nat → List MCall → List Res → List Res
  | _, [], _ => []
  | selfMax, .call c _ :: cs, rs =>
    match c.op large selfMax with
    | some _ =>
      match rs with
      | r :: rs' => r :: finalsOf large selfMax cs rs'
      | [] => []
    | none => finalsOf large (c.nextMax selfMax) cs rs
  | selfMax, .recvObs _ obs :: cs, rs =>
    match (rs.take obs.length).getLast? with
    | some r => r :: finalsOf large selfMax cs (rs.drop obs.length)
    | none => finalsOf large selfMax cs rs

def handleRx (toks : List String) : String :=
  match toks with
  | rs :: ms :: retry :: script :: ops =>
    match rs.toNat?, ms.toNat?, parseScript? script with
    | some rs, some ms, some evs =>
      let cfg : Cfg := ⟨rs, ms⟩
      let tries := if retry = "1" then nTimeouts evs + 1 else 1
      let rec go (b : BSock) (ops : List String) (acc : List String) : Option (List String) :=
        match ops with
        | [] => some acc.reverse
        | t :: ts =>
          match parseRxTok? t with
          | some (.recv n, o :: os) =>
            let (b', acc') := runRecvD n (o :: os) b acc
            go b' ts acc'
          | some (c, seats) =>
            -- setmaxsize never raises, so it gets its single record either way
            let (b', acc') := runCallD c evs tries seats b acc
            go b' ts acc'
          | none => none
      match go ⟨cfg, ⟨[], evs⟩, ⟨[], [], []⟩, tagsOf script, []⟩ ops [] with
      | some outs =>
        let body := if outs.isEmpty then "-" else ";".intercalate outs
        if retry = "1" then
          -- the same session through `runCalls` (every call retried until it no longer times out):
          -- final results, final rbuf, and how many operations the calls resolve to
          match ops.foldr (fun t acc => match acc, parseRxTok? t with
              | some l, some c => some (c :: l) | _, _ => none) (some []) with
          | some pcalls =>
            let nops := (resolveCalls Gen.RECV_LARGE_MAXSIZE cfg.maxsize (pcalls.map (·.1))).length
            match pcalls.foldr (fun p acc => match acc, toMCall p with
                | some l, some m => some (m :: l) | _, _ => none) (some []) with
            | some mcalls =>
              match runMixed cfg evs (resolveMixed Gen.RECV_LARGE_MAXSIZE cfg.maxsize mcalls) ⟨[], evs⟩ with
              | some (rs, stf) =>
                let fin := finalsOf Gen.RECV_LARGE_MAXSIZE cfg.maxsize mcalls rs
                s!"{body} #{",".intercalate (fin.map showRes)}/{natsToHex stf.view}|{nops}"
              | none => s!"{body} #rejected"
            | none => s!"{body} #rejected"
          | none => "bad-op"
        else body
      | none => "bad-op"
    | _, _, _ => "bad-op"
  | _ => "bad-op"

def parseSScript? (s : String) : Option (List SEv) :=
  if s = "-" then some [] else
  (splitOnChar s ',').foldr (fun w acc =>
    match acc with
    | none => none
    | some l =>
      if w = "t" || w = "e" then some (.timeout :: l)
      else if w = "w" then some (.clock :: l)
      else if w.front = 'a' then (w.drop 1).toString.toNat?.map fun k => .accept k :: l
      else none) (some [])

def parseSOp? (tok : String) : Option SOp :=
  let rest := (tok.drop 1).toString
  match tok.front with
  | 's' => (hexToNats? rest).map SOp.send
  | 'b' => (hexToNats? rest).map SOp.buffer
  | 'f' => if rest = "" then some .flush else none
  | _ => none

/-- `.`-joined numbers -/
def parseOffers? (s : String) : Option (List Nat) :=
  (splitOnChar s '.').foldr (fun w acc => match acc, w.toNat? with
    | some l, some n => some (n :: l) | _, _ => none) (some [])

/-- a send-side token with the offers observed for that call (`[]` = none written = the whole buffer) -/
def parseSOpA? (tok : String) : Option (List Nat × SOp) :=
  match splitOnChar tok '@' with
  | [t] => (parseSOp? t).map fun o => ([], o)
  | [t, offs] =>
    match parseSOp? t, parseOffers? offs with
    | some o, some l => some (l, o)
    | _, _ => none
  | _ => none

def showSRes : SRes → String
  | .sent n => s!"sent:{n}"
  | .none => "none"
  | .timeout => "timeout"

def handleTx (toks : List String) : String :=
  match toks with
  | script :: ops =>
    match parseSScript? script with
    | some evs =>
      let rec go (b : BSock) (ops : List String) (acc : List String) : Option (List String) :=
        match ops with
        | [] => some acc.reverse
        | t :: ts => match parseSOpA? t with
          | some (offers, op) =>
            let (out, b') := dsopA offers op b        -- `dsopA [] = dsop` (theorem `offers_absent_is_verified_loop`)
            go b' ts (s!"{showDOut out}/{natsToHex b'.tx.getsendbuffer}/{natsToHex b'.tx.wire}" :: acc)
          | none => none
      match go ⟨⟨1, 0⟩, ⟨[], []⟩, ⟨[], [], evs⟩, [], tagsOf script⟩ ops [] with
      | some outs =>
        -- faults of the script not used up by the whole history
        let left := nSF (srunA (ops.filterMap parseSOpA?) ⟨[], [], evs⟩).2.script
        s!"{if outs.isEmpty then "-" else ";".intercalate outs} #{left}"
      | none => "bad-op"
    | none => "bad-op"
  | _ => "bad-op"

def showNsRes : NsRes → String
  | .ok bs => s!"ok:{natsToHex bs}"
  | .closed => "closed"
  | .tooLong => "toolong"
  | .timeout => "timeout"
  | .fuel => "fuel"
  | .invalidSize => "invalidsize"
  | .nsTooLong => "nstoolong"
  | .protocolError => "protocolerror"

def nsCfg : Cfg := ⟨Gen.DEFAULT_MAXSIZE, Gen.DEFAULT_MAXSIZE⟩

/-- after a Timeout in write_ns the harness flushes until done (bounded) -/
def flushUntil : Nat → SSt → String → SSt × String
  | 0, st, acc => (st, acc)
  | k + 1, st, acc =>
    match flush st with
    | (.timeout, st') => flushUntil k st' (acc ++ "+timeout")
    | (_, st') => (st', acc ++ "+flushed")

/-- the same with the offers observed for each flush (`[]` = the whole buffer) -/
def flushUntilA : Nat → List (List Nat) → SSt → String → SSt × String
  | 0, _, st, acc => (st, acc)
  | k + 1, offs, st, acc =>
    match flushA (offs.headD []) st with
    | (.timeout, st') => flushUntilA k offs.tail st' (acc ++ "+timeout")
    | (_, st') => (st', acc ++ "+flushed")

/-- a payload token: `<hex|->[@<offers|_>]*` - the offers of the write_ns call, then of each flush that followed it
    (`_` = the whole buffer every time) -/
def parsePayloadA? (tok : String) : Option (Bytes × List (List Nat)) :=
  match splitOnChar tok '@' with
  | [] => none
  | p :: offs =>
    match hexToNats? p, offs.foldr (fun w acc => match acc, (if w = "_" then some [] else parseOffers? w) with
        | some l, some o => some (o :: l) | _, _ => none) (some []) with
    | some b, some l => some (b, l)
    | _, _ => none

def nSTimeouts (s : List SEv) : Nat := (s.filter (fun e => e == .timeout || e == .clock)).length

/-- `c<n>[,s<n>]*[,a<n>]`: constructor, setmaxsize calls, optional read_ns argument -/
def parseRcfg? (s : String) : Option (NsSock × Option Nat) :=
  match splitOnChar s ',' with
  | [] => none
  | c :: rest =>
    if c.front ≠ 'c' then none else
    match (c.drop 1).toString.toNat? with
    | none => none
    | some c0 =>
      rest.foldl (fun acc w =>
        match acc with
        | none => none
        | some (ns, arg) =>
          match (w.drop 1).toString.toNat? with
          | none => none
          | some n =>
            if arg.isSome then none                       -- the argument comes last
            else if w.front = 's' then some (ns.setMaxsize n, none)
            else if w.front = 'a' then some (ns, some n)
            else none) (some (NsSock.init c0, none))

def cutChunks : List Nat → Bytes → List Ev
  | _, [] => []
  | [], bs => [.chunk bs]
  | c :: cs, bs => if c = 0 then cutChunks cs bs else .chunk (bs.take c) :: cutChunks cs (bs.drop c)

def handleNs (toks : List String) : String :=
  match toks with
  | ms :: wscript :: cuts :: nreads :: rcfg :: payloads =>
    match ms.toNat?, parseSScript? wscript, natList? cuts, nreads.toNat?, parseRcfg? rcfg,
          payloads.foldr (fun p acc => match acc, parsePayloadA? p with
            | some l, some b => some (b :: l) | _, _ => none) (some []) with
    | some ms, some wscript, some cuts, some nreads, some (ns, arg), some payloads =>
      let bound := nSTimeouts wscript + 1
      let (wst, wouts) := payloads.foldl (fun (acc : SSt × List String) (p : Bytes × List (List Nat)) =>
        -- `writeNsA [] = writeNs`, `flushA [] = flush`: without observed offers this is the verified loop
        match writeNsA (p.2.headD []) ms p.1 acc.1 with
        | (.ok, st') => (st', "ok" :: acc.2)
        | (.nsTooLong, st') => (st', "nstoolong" :: acc.2)
        | (.timeout, st') => let (st'', s) := flushUntilA bound p.2.tail st' "timeout"; (st'', s :: acc.2))
        (⟨[], [], wscript⟩, [])
      let script := cutChunks cuts wst.wire
      let (rres, _) := NsSock.readNsManyI nsCfg ns arg nreads ⟨[], script⟩
      s!"W:{",".intercalate wouts.reverse};{natsToHex wst.wire};{",".intercalate (rres.map showNsRes)}"
    | _, _, _, _, _, _ => "bad-op"
  | _ => "bad-op"

def handleNsr (toks : List String) : String :=
  match toks with
  | rcfg :: script :: nreads :: splits =>
    match parseRcfg? rcfg, parseScript? script, nreads.toNat?,
          splits.foldr (fun w acc => match acc, parseObs? ("T~" ++ w) with
            | some l, some (some (o, _)) => some (o :: l) | _, _ => none) (some []) with
    | some (ns, arg), some script, some nreads, some splits =>
      -- after every read_ns the model is re-seated on the observed split of the same view (`reseat`):
      -- the split left by the final recv(1) is free, the bytes still owed are not
      let rec go : Nat → St → List RecvObs → List String → List String
        | 0, _, _, acc => acc.reverse
        | k + 1, st, sp, acc =>
          let (r, st') := ns.readNsI nsCfg arg st
          let st'' := match sp with
            | o :: _ => reseat script o st'
            | [] => st'
          go k st'' sp.tail (s!"{showNsRes r}/{natsToHex st'.view}" :: acc)
      let outs := go nreads ⟨[], script⟩ splits []
      if outs.isEmpty then "-" else ",".intercalate outs
    | _, _, _, _ => "bad-op"
  | _ => "bad-op"

/-! ### dx: the one-object model (`BSock`, `drun`) -/

def parseDOp? (tok : String) : Option DOp :=
  let rest := (tok.drop 1).toString
  match tok.front with
  | 'R' =>
    if rest.front = 'F' then
      match splitOnChar (rest.drop 1).toString ':' with
      | [n, f] => match n.toNat?, f.toNat? with
        | some n, some f => some (.recvFlags n f)
        | _, _ => none
      | _ => none
    else (parseCall? rest).map DOp.call
  | 'S' =>
    if rest.front = 'F' then
      match splitOnChar (rest.drop 1).toString ':' with
      | [d, f] => match hexToNats? d, f.toNat? with
        | some d, some f => some (.sendFlags d f)
        | _, _ => none
      | _ => none
    else (parseSOp? rest).map DOp.sop
  | _ => none

/-- a dx op as it reaches the driver: a plain model call, an observed recv, a send-side call with offers -/
inductive XOp where
  | plain (o : DOp)
  | callSeat (c : Call) (o : Obs)
  | recvObs (size : Nat) (o : Obs)
  | sopA (offers : List Nat) (o : SOp)

def parseXOp? (tok : String) : Option XOp :=
  match splitOnChar tok '@' with
  | [t] => (parseDOp? t).map XOp.plain
  | [t, x] =>
    match parseDOp? t with
    | some (.call (.recv n)) => (parseObs? x).map (XOp.recvObs n)
    | some (.call c) => (parseObs? x).map (XOp.callSeat c)
    | some (.recvFlags n 0) => (parseObs? x).map (XOp.recvObs n)
    | some (.sop o) => (parseOffers? x).map fun l => XOp.sopA l o
    | some (.sendFlags d 0) => (parseOffers? x).map fun l => XOp.sopA l (.send d)
    | _ => none
  | _ => none

def handleDx (toks : List String) : String :=
  match toks with
  | rs :: ms :: rscript :: sscript :: ops =>
    match rs.toNat?, ms.toNat?, parseScript? rscript, parseSScript? sscript,
          ops.foldr (fun t acc => match acc, parseXOp? t with
            | some l, some o => some (o :: l) | _, _ => none) (some []) with
    | some rs, some ms, some revs, some sevs, some dops =>
      let b0 : BSock := ⟨⟨rs, ms⟩, ⟨[], revs⟩, ⟨[], [], sevs⟩, tagsOf rscript, tagsOf sscript⟩
      -- one record per call: `dstep` (the function `drun` folds) for model calls, `daccRecv` for an observed
      -- recv (the model continues from the observed state), `dsopA` for a send-side call with observed offers
      let show4 (out : String) (b' : BSock) : String :=
        s!"{out}/{natsToHex b'.rx.rbuf}/{natsToHex b'.tx.getsendbuffer}/{natsToHex b'.tx.wire}"
      let rec go (b : BSock) (ops : List XOp) (acc : List String) : List String × BSock :=
        match ops with
        | [] => (acc.reverse, b)
        | .plain o :: os =>
          let (out, b') := dstep Gen.RECV_LARGE_MAXSIZE o b
          go b' os (show4 (showDOut out) b' :: acc)
        | .callSeat c o :: os =>
          let (out, b1) := dstep Gen.RECV_LARGE_MAXSIZE (.call c) b
          let b' := dseat revs (seatOf [o]) b1
          go b' os (show4 (showDOut out) b' :: acc)
        | .recvObs _ none :: os => go b os (show4 "rejected" b :: acc)
        | .recvObs n (some (o, cls)) :: os =>
          match daccRecv n o cls b with
          | some (out, b') => go b' os (show4 (showDOut out) b' :: acc)
          | none => go b os (show4 "rejected" b :: acc)
        | .sopA offers o :: os =>
          let (out, b') := dsopA offers o b
          go b' os (show4 (showDOut out) b' :: acc)
      let (outs, bf) := go b0 dops []
      s!"{if outs.isEmpty then "-" else ";".intercalate outs} #{nSF bf.tx.script}"
    | _, _, _, _, _ => "bad-op"
  | _ => "bad-op"

def handle1 (toks : List String) : String :=
  match toks with
  | "rx" :: toks => handleRx toks
  | "tx" :: toks => handleTx toks
  | "ns" :: toks => handleNs toks
  | "nsr" :: toks => handleNsr toks
  | _ => "bad-op"

def handle (line : String) : String :=
  match words line with
  | "duo" :: toks =>
    let a := toks.takeWhile (· ≠ "|")
    let b := (toks.dropWhile (· ≠ "|")).drop 1
    let ra := handle1 a
    let rb := handle1 b
    if ra = "bad-op" || rb = "bad-op" then "bad-op" else s!"{ra} | {rb}"
  | "rx" :: toks => handleRx toks
  | "tx" :: toks => handleTx toks
  | "ns" :: toks => handleNs toks
  | "nsr" :: toks => handleNsr toks
  | "dx" :: toks => handleDx toks
  | ["int", h] =>
    -- Python's int() on a bytes object, as modelled: `err` = ValueError
    match hexToNats? h with
    | some bs => match parsePyInt bs with
      | some v => s!"{v}"
      | none => "err"
    | none => "bad-op"
  | ["consts"] => s!"DEFAULT_MAXSIZE={Gen.DEFAULT_MAXSIZE} RECV_LARGE_MAXSIZE={Gen.RECV_LARGE_MAXSIZE}"
  | _ => "bad-op"

end C12.Driver
