import BoltonsVerif.Common
import BoltonsVerif.C12.Model
import BoltonsVerif.Generated.C12_Consts
/-
C12 line protocol.  One line = one whole case.

  rx <recvsize> <maxsize> <retry:0|1> <script> <op> ...
       script : `-` | events joined by `,` : `t` (socket.timeout) | <hex> (a chunk)
       op     : r<n> recv(n) | p<n> peek(n) | s<n> recv_size(n)
              | u<w:0|1>:<max>:<hexdelim|-> recv_until | c<max> recv_close | m<n> setmaxsize(n)
       max    : U (argument omitted -> constructor maxsize) | N (None -> _RECV_LARGE_MAXSIZE) | <n>
       retry=1: an op that raised Timeout is called again, at most (#t events + 1) attempts in total
     output: one record per attempt, `;`-joined:  <res>/<rbuf hex>
       res : ok:<hex|-> | closed | toolong | timeout | fuel
  tx <script> <op> ...
       script : `-` | `a<k>` (send accepts at most k bytes) | `t`, joined by `,`
       op     : s<hex|-> send / sendall | b<hex|-> buffer | f flush
     output per op:  <res>/<getsendbuffer hex>/<wire hex> ; res : sent:<n> | none | timeout
  ns <maxsize> <wscript> <cuts> <nreads> <payloadhex|-> ...
       every payload is written with write_ns (after a Timeout: flush until done, bounded);
       the wire is cut into chunks of the given sizes (`-` = one chunk; remainder = last chunk)
       and read back with nreads read_ns calls.
     output: W:<per-write results `,`-joined>;<wire hex>;<per-read results `,`-joined>
  nsr <maxsize> <script> <nreads>       read_ns over an arbitrary script
     output: per read `,`-joined <res>/<rbuf hex>
  consts                                  the generated constants
-/
namespace C12.Driver
open BV C12

def natsToHex (bs : Bytes) : String :=
  if bs.isEmpty then "-" else bytesToHex (bs.map UInt8.ofNat)

def hexToNats? (s : String) : Option Bytes :=
  if s = "-" then some [] else (hexToBytes? s).map (·.map UInt8.toNat)

def showRes : Res → String
  | .ok bs => s!"ok:{natsToHex bs}"
  | .closed => "closed"
  | .tooLong => "toolong"
  | .timeout => "timeout"
  | .fuel => "fuel"

def parseScript? (s : String) : Option (List Ev) :=
  if s = "-" then some [] else
  (splitOnChar s ',').foldr (fun w acc =>
    match acc with
    | none => none
    | some l =>
      if w = "t" then some (.timeout :: l)
      else match hexToBytes? w with
        | some bs => if bs.isEmpty then none else some (.chunk (bs.map UInt8.toNat) :: l)
        | none => none) (some [])

def parseMax? (cfg : Cfg) (s : String) : Option Nat :=
  if s = "U" then some cfg.maxsize
  else if s = "N" then some Gen.RECV_LARGE_MAXSIZE
  else s.toNat?

def parseOp? (cfg : Cfg) (tok : String) : Option Op :=
  let rest := (tok.drop 1).toString
  match tok.front with
  | 'r' => rest.toNat?.map Op.recv
  | 'p' => rest.toNat?.map Op.peek
  | 's' => rest.toNat?.map Op.recvSize
  | 'c' => (parseMax? cfg rest).map Op.recvClose
  | 'u' => match splitOnChar rest ':' with
    | [w, m, d] =>
      match parseMax? cfg m, hexToNats? d with
      | some m, some d => if w = "1" then some (.recvUntil d m true)
                          else if w = "0" then some (.recvUntil d m false) else none
      | _, _ => none
    | _ => none
  | _ => none

def nTimeouts (s : List Ev) : Nat := (s.filter (· == .timeout)).length

/-- one op with the harness's retry discipline; emits a record per attempt -/
def runOp (cfg : Cfg) (op : Op) : Nat → St → List String → St × List String
  | 0, st, acc => (st, acc)
  | k + 1, st, acc =>
    let (r, st') := attempt cfg op st
    let acc := s!"{showRes r}/{natsToHex st'.rbuf}" :: acc
    if r = .timeout then runOp cfg op k st' acc else (st', acc)

def handleRx (toks : List String) : String :=
  match toks with
  | rs :: ms :: retry :: script :: ops =>
    match rs.toNat?, ms.toNat?, parseScript? script with
    | some rs, some ms, some script =>
      let cfg : Cfg := ⟨rs, ms⟩
      let tries := if retry = "1" then nTimeouts script + 1 else 1
      let rec go (cfg : Cfg) (st : St) (ops : List String) (acc : List String) : Option (List String) :=
        match ops with
        | [] => some acc.reverse
        | t :: ts =>
          if t.front = 'm' then
            -- setmaxsize(n): later calls that omit maxsize use n
            match (t.drop 1).toString.toNat? with
            | some n => go { cfg with maxsize := n } st ts (s!"none/{natsToHex st.rbuf}" :: acc)
            | none => none
          else match parseOp? cfg t with
          | some op => let (st', acc') := runOp cfg op tries st acc; go cfg st' ts acc'
          | none => none
      match go cfg ⟨[], script⟩ ops [] with
      | some outs => if outs.isEmpty then "-" else ";".intercalate outs
      | none => "bad-op"
    | _, _, _ => "bad-op"
  | _ => "bad-op"

def parseSScript? (s : String) : Option (List SEv) :=
  if s = "-" then some [] else
  (splitOnChar s ',').foldr (fun w acc =>
    match acc with
    | none => none
    | some l =>
      if w = "t" then some (.timeout :: l)
      else if w.front = 'a' then (w.drop 1).toString.toNat?.map fun k => .accept k :: l
      else none) (some [])

def parseSOp? (tok : String) : Option SOp :=
  let rest := (tok.drop 1).toString
  match tok.front with
  | 's' => (hexToNats? rest).map SOp.send
  | 'b' => (hexToNats? rest).map SOp.buffer
  | 'f' => if rest = "" then some .flush else none
  | _ => none

def showSRes : SRes → String
  | .sent n => s!"sent:{n}"
  | .none => "none"
  | .timeout => "timeout"

def handleTx (toks : List String) : String :=
  match toks with
  | script :: ops =>
    match parseSScript? script with
    | some script =>
      let rec go (st : SSt) (ops : List String) (acc : List String) : Option (List String) :=
        match ops with
        | [] => some acc.reverse
        | t :: ts => match parseSOp? t with
          | some op =>
            let (r, st') := sstep op st
            go st' ts (s!"{showSRes r}/{natsToHex st'.getsendbuffer}/{natsToHex st'.wire}" :: acc)
          | none => none
      match go ⟨[], [], script⟩ ops [] with
      | some outs => if outs.isEmpty then "-" else ";".intercalate outs
      | none => "bad-op"
    | none => "bad-op"
  | _ => "bad-op"

def showNsRes : NsRes → String
  | .ok bs => s!"ok:{natsToHex bs}"
  | .closed => "closed"
  | .tooLong => "toolong"
  | .timeout => "timeout"
  | .fuel => "fuel"
  | .invalidSize => "invalidsize"
  | .nsTooLong => "nstoolong"
  | .protocolError => "protocolerror"

def nsCfg : Cfg := ⟨Gen.DEFAULT_MAXSIZE, Gen.DEFAULT_MAXSIZE⟩

/-- after a Timeout in write_ns the harness flushes until done (bounded) -/
def flushUntil : Nat → SSt → String → SSt × String
  | 0, st, acc => (st, acc)
  | k + 1, st, acc =>
    match flush st with
    | (.timeout, st') => flushUntil k st' (acc ++ "+timeout")
    | (_, st') => (st', acc ++ "+flushed")

def nSTimeouts (s : List SEv) : Nat := (s.filter (· == .timeout)).length

def cutChunks : List Nat → Bytes → List Ev
  | _, [] => []
  | [], bs => [.chunk bs]
  | c :: cs, bs => if c = 0 then cutChunks cs bs else .chunk (bs.take c) :: cutChunks cs (bs.drop c)

def handleNs (toks : List String) : String :=
  match toks with
  | ms :: wscript :: cuts :: nreads :: payloads =>
    match ms.toNat?, parseSScript? wscript, natList? cuts, nreads.toNat?,
          payloads.foldr (fun p acc => match acc, hexToNats? p with
            | some l, some b => some (b :: l) | _, _ => none) (some []) with
    | some ms, some wscript, some cuts, some nreads, some payloads =>
      let bound := nSTimeouts wscript + 1
      let (wst, wouts) := payloads.foldl (fun (acc : SSt × List String) p =>
        match writeNs ms p acc.1 with
        | (.ok, st') => (st', "ok" :: acc.2)
        | (.nsTooLong, st') => (st', "nstoolong" :: acc.2)
        | (.timeout, st') => let (st'', s) := flushUntil bound st' "timeout"; (st'', s :: acc.2))
        (⟨[], [], wscript⟩, [])
      let script := cutChunks cuts wst.wire
      let (rres, _) := readNsMany nsCfg ms nreads ⟨[], script⟩
      s!"W:{",".intercalate wouts.reverse};{natsToHex wst.wire};{",".intercalate (rres.map showNsRes)}"
    | _, _, _, _, _ => "bad-op"
  | _ => "bad-op"

def handleNsr (toks : List String) : String :=
  match toks with
  | [ms, script, nreads] =>
    match ms.toNat?, parseScript? script, nreads.toNat? with
    | some ms, some script, some nreads =>
      let rec go : Nat → St → List String → List String
        | 0, _, acc => acc.reverse
        | k + 1, st, acc =>
          let (r, st') := readNs nsCfg ms st
          go k st' (s!"{showNsRes r}/{natsToHex st'.rbuf}" :: acc)
      let outs := go nreads ⟨[], script⟩ []
      if outs.isEmpty then "-" else ",".intercalate outs
    | _, _, _ => "bad-op"
  | _ => "bad-op"

def handle (line : String) : String :=
  match words line with
  | "rx" :: toks => handleRx toks
  | "tx" :: toks => handleTx toks
  | "ns" :: toks => handleNs toks
  | "nsr" :: toks => handleNsr toks
  | ["consts"] => s!"DEFAULT_MAXSIZE={Gen.DEFAULT_MAXSIZE} RECV_LARGE_MAXSIZE={Gen.RECV_LARGE_MAXSIZE}"
  | _ => "bad-op"

end C12.Driver
