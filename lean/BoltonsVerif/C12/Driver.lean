import BoltonsVerif.Common
import BoltonsVerif.C12.Model
import BoltonsVerif.C12.Model3
import BoltonsVerif.Generated.C12_Consts
/-
C12 line protocol.  One line = one whole case.

  rx <recvsize> <maxsize> <retry:0|1> <script> <op> ...
       script : `-` | events joined by `,` : `t` (socket.timeout) | `w` (the wall-clock deadline passes:
                same model event as `t`, see Model.lean) | `e` (the socket raises a transient OSError: the
                code's catch-all handlers do to the state exactly what the timeout handlers do, so again
                the same model event; the outcome is printed `oserror` instead of `timeout` - the class of a
                raised fault is the model's own bookkeeping, `BSock.rtags` / `dcall`, theorem `fault_class_exact`) | <hex> (a chunk)
       op     : r<n> recv(n) | p<n> peek(n) | s<n> recv_size(n)
              | u<w:0|1>:<max>:<hexdelim|-> recv_until | c<max> recv_close | m<n> setmaxsize(n)
       max    : U (argument omitted -> constructor maxsize) | N (None -> _RECV_LARGE_MAXSIZE) | <n>
       retry=1: an op that raised Timeout is called again, at most (#t events + 1) attempts in total
     output: one record per attempt, `;`-joined:  <res>/<rbuf hex>
       res : ok:<hex|-> | closed | toolong | timeout | oserror | fuel
       retry=1 appends ` #<final result of every call, `,`-joined>/<final rbuf>|<number of operations>`
       computed by `runCalls` / `resolveCalls`
  tx <script> <op> ...
       script : `-` | `a<k>` (send accepts at most k bytes) | `t` | `w` (SEv.clock) | `e` (transient
                OSError from sock.send: SEv.timeout, printed `oserror`), joined by `,`
       op     : s<hex|-> send / sendall | b<hex|-> buffer | f flush
     output per op:  <res>/<getsendbuffer hex>/<wire hex> ; res : sent:<n> | none | timeout | oserror
       followed by ` #<faults of the script still unused>` (`nSF` after `srun`)
  ns <maxsize> <wscript> <cuts> <nreads> <rcfg> <payloadhex|-> ...
       rcfg : how the reading NetstringSocket is configured: `c<n>` (constructor maxsize) then any number
              of `s<n>` (setmaxsize) then optionally `a<n>` (read_ns(maxsize=n)), joined by `,`
       every payload is written with write_ns (after a Timeout: flush until done, bounded);
       the wire is cut into chunks of the given sizes (`-` = one chunk; remainder = last chunk)
       and read back with nreads read_ns calls.
     output: W:<per-write results `,`-joined>;<wire hex>;<per-read results `,`-joined>
  nsr <rcfg> <script> <nreads>          read_ns over an arbitrary script
  dx <recvsize> <maxsize> <rscript> <sscript> <op> ...     ONE BufferedSocket, receive and send calls interleaved
       op : R<rx op as above> | RF<size>:<flags> recv(size, flags) | S<tx op as above> | SF<hex|->:<flags> send(data, flags)
     output per op: <res>/<rbuf hex>/<getsendbuffer hex>/<wire hex>, `;`-joined, then ` #<send faults left>`
       res : ok:<hex|-> | closed | toolong | none | sent:<n> | timeout | oserror | valueerror
     computed by `drun` (Model3.lean): fault classes come from `BSock.rtags` / `stags`
  duo <line> | <line>                   two independent sockets (the harness interleaves their calls):
                                        output `<out> | <out>`
     output: per read `,`-joined <res>/<rbuf hex>
  int <hex|->                             the model of Python's int(bytes): the value or `err`
  consts                                  the generated constants
-/
namespace C12.Driver
open BV C12

def natsToHex (bs : Bytes) : String :=
  if bs.isEmpty then "-" else bytesToHex (bs.map UInt8.ofNat)

def hexToNats? (s : String) : Option Bytes :=
  if s = "-" then some [] else (hexToBytes? s).map (·.map UInt8.toNat)

def showRes : Res → String
  | .ok bs => s!"ok:{natsToHex bs}"
  | .closed => "closed"
  | .tooLong => "toolong"
  | .timeout => "timeout"
  | .fuel => "fuel"

def parseScript? (s : String) : Option (List Ev) :=
  if s = "-" then some [] else
  (splitOnChar s ',').foldr (fun w acc =>
    match acc with
    | none => none
    | some l =>
      if w = "t" || w = "w" || w = "e" then some (.timeout :: l)
      else match hexToBytes? w with
        | some bs => if bs.isEmpty then none else some (.chunk (bs.map UInt8.toNat) :: l)
        | none => none) (some [])

def parseMax? (s : String) : Option Max :=
  if s = "U" then some .unset
  else if s = "N" then some .none
  else s.toNat?.map Max.some

def parseCall? (tok : String) : Option Call :=
  let rest := (tok.drop 1).toString
  match tok.front with
  | 'r' => rest.toNat?.map Call.recv
  | 'p' => rest.toNat?.map Call.peek
  | 's' => rest.toNat?.map Call.recvSize
  | 'm' => rest.toNat?.map Call.setMaxsize
  | 'c' => (parseMax? rest).map Call.recvClose
  | 'u' => match splitOnChar rest ':' with
    | [w, m, d] =>
      match parseMax? m, hexToNats? d with
      | some m, some d => if w = "1" then some (.recvUntil d m true)
                          else if w = "0" then some (.recvUntil d m false) else none
      | _, _ => none
    | _ => none
  | _ => none

def nTimeouts (s : List Ev) : Nat := (s.filter (· == .timeout)).length

/-- for every fault token of a script, in order: is it an `e` (OSError) rather than a timeout? -/
def faultTags (s : String) : List Bool :=
  (splitOnChar s ',').filterMap fun w =>
    if w = "e" then some true else if w = "t" || w = "w" then some false else none

/-! the rx / tx lines run on the one-object model too (`dcall` / `dsop`, Model3.lean): the class of a raised
    fault is `BSock.rtags` / `stags` bookkeeping of the model (`fault_class_exact`), not of the driver -/

def tagsOf (s : String) : List Fault :=
  (faultTags s).map fun b => if b then Fault.osError else Fault.timeout

def showDOut : DOut → String
  | .rx (some r) => showRes r
  | .rx none => "none"
  | .tx (.sent n) => s!"sent:{n}"
  | .tx .none => "none"
  | .tx .timeout => "timeout"
  | .fault .timeout => "timeout"
  | .fault .osError => "oserror"
  | .valueError => "valueerror"

/-- one call with the harness's retry discipline (again after a fault, at most `k` attempts); a record per attempt -/
def runCallD (c : Call) : Nat → BSock → List String → BSock × List String
  | 0, b, acc => (b, acc)
  | k + 1, b, acc =>
    let (out, b') := dcall Gen.RECV_LARGE_MAXSIZE c b
    let rec_ := s!"{showDOut out}/{natsToHex b'.rx.rbuf}"
    match out with
    | .fault _ => runCallD c k b' (rec_ :: acc)
    | _ => (b', rec_ :: acc)

def handleRx (toks : List String) : String :=
  match toks with
  | rs :: ms :: retry :: script :: ops =>
    match rs.toNat?, ms.toNat?, parseScript? script with
    | some rs, some ms, some evs =>
      let cfg : Cfg := ⟨rs, ms⟩
      let tries := if retry = "1" then nTimeouts evs + 1 else 1
      let rec go (b : BSock) (ops : List String) (acc : List String) : Option (List String) :=
        match ops with
        | [] => some acc.reverse
        | t :: ts =>
          match parseCall? t with
          | some c =>
            -- setmaxsize never raises, so it gets its single record either way
            let (b', acc') := runCallD c tries b acc
            go b' ts acc'
          | none => none
      match go ⟨cfg, ⟨[], evs⟩, ⟨[], [], []⟩, tagsOf script, []⟩ ops [] with
      | some outs =>
        let body := if outs.isEmpty then "-" else ";".intercalate outs
        if retry = "1" then
          -- the same session through `runCalls` (every call retried until it no longer times out):
          -- final results, final rbuf, and how many operations the calls resolve to
          match ops.foldr (fun t acc => match acc, parseCall? t with
              | some l, some c => some (c :: l) | _, _ => none) (some []) with
          | some calls =>
            let (rs, stf) := runCalls Gen.RECV_LARGE_MAXSIZE cfg calls ⟨[], evs⟩
            let nops := (resolveCalls Gen.RECV_LARGE_MAXSIZE cfg.maxsize calls).length
            s!"{body} #{",".intercalate (rs.map showRes)}/{natsToHex stf.rbuf}|{nops}"
          | none => "bad-op"
        else body
      | none => "bad-op"
    | _, _, _ => "bad-op"
  | _ => "bad-op"

def parseSScript? (s : String) : Option (List SEv) :=
  if s = "-" then some [] else
  (splitOnChar s ',').foldr (fun w acc =>
    match acc with
    | none => none
    | some l =>
      if w = "t" || w = "e" then some (.timeout :: l)
      else if w = "w" then some (.clock :: l)
      else if w.front = 'a' then (w.drop 1).toString.toNat?.map fun k => .accept k :: l
      else none) (some [])

def parseSOp? (tok : String) : Option SOp :=
  let rest := (tok.drop 1).toString
  match tok.front with
  | 's' => (hexToNats? rest).map SOp.send
  | 'b' => (hexToNats? rest).map SOp.buffer
  | 'f' => if rest = "" then some .flush else none
  | _ => none

def showSRes : SRes → String
  | .sent n => s!"sent:{n}"
  | .none => "none"
  | .timeout => "timeout"

def handleTx (toks : List String) : String :=
  match toks with
  | script :: ops =>
    match parseSScript? script with
    | some evs =>
      let rec go (b : BSock) (ops : List String) (acc : List String) : Option (List String) :=
        match ops with
        | [] => some acc.reverse
        | t :: ts => match parseSOp? t with
          | some op =>
            let (out, b') := dsop op b
            go b' ts (s!"{showDOut out}/{natsToHex b'.tx.getsendbuffer}/{natsToHex b'.tx.wire}" :: acc)
          | none => none
      match go ⟨⟨1, 0⟩, ⟨[], []⟩, ⟨[], [], evs⟩, [], tagsOf script⟩ ops [] with
      | some outs =>
        -- faults of the script not used up by the whole history
        let left := nSF (srun (ops.filterMap parseSOp?) ⟨[], [], evs⟩).2.script
        s!"{if outs.isEmpty then "-" else ";".intercalate outs} #{left}"
      | none => "bad-op"
    | none => "bad-op"
  | _ => "bad-op"

def showNsRes : NsRes → String
  | .ok bs => s!"ok:{natsToHex bs}"
  | .closed => "closed"
  | .tooLong => "toolong"
  | .timeout => "timeout"
  | .fuel => "fuel"
  | .invalidSize => "invalidsize"
  | .nsTooLong => "nstoolong"
  | .protocolError => "protocolerror"

def nsCfg : Cfg := ⟨Gen.DEFAULT_MAXSIZE, Gen.DEFAULT_MAXSIZE⟩

/-- after a Timeout in write_ns the harness flushes until done (bounded) -/
def flushUntil : Nat → SSt → String → SSt × String
  | 0, st, acc => (st, acc)
  | k + 1, st, acc =>
    match flush st with
    | (.timeout, st') => flushUntil k st' (acc ++ "+timeout")
    | (_, st') => (st', acc ++ "+flushed")

def nSTimeouts (s : List SEv) : Nat := (s.filter (fun e => e == .timeout || e == .clock)).length

/-- `c<n>[,s<n>]*[,a<n>]`: constructor, setmaxsize calls, optional read_ns argument -/
def parseRcfg? (s : String) : Option (NsSock × Option Nat) :=
  match splitOnChar s ',' with
  | [] => none
  | c :: rest =>
    if c.front ≠ 'c' then none else
    match (c.drop 1).toString.toNat? with
    | none => none
    | some c0 =>
      rest.foldl (fun acc w =>
        match acc with
        | none => none
        | some (ns, arg) =>
          match (w.drop 1).toString.toNat? with
          | none => none
          | some n =>
            if arg.isSome then none                       -- the argument comes last
            else if w.front = 's' then some (ns.setMaxsize n, none)
            else if w.front = 'a' then some (ns, some n)
            else none) (some (NsSock.init c0, none))

def cutChunks : List Nat → Bytes → List Ev
  | _, [] => []
  | [], bs => [.chunk bs]
  | c :: cs, bs => if c = 0 then cutChunks cs bs else .chunk (bs.take c) :: cutChunks cs (bs.drop c)

def handleNs (toks : List String) : String :=
  match toks with
  | ms :: wscript :: cuts :: nreads :: rcfg :: payloads =>
    match ms.toNat?, parseSScript? wscript, natList? cuts, nreads.toNat?, parseRcfg? rcfg,
          payloads.foldr (fun p acc => match acc, hexToNats? p with
            | some l, some b => some (b :: l) | _, _ => none) (some []) with
    | some ms, some wscript, some cuts, some nreads, some (ns, arg), some payloads =>
      let bound := nSTimeouts wscript + 1
      let (wst, wouts) := payloads.foldl (fun (acc : SSt × List String) p =>
        match writeNs ms p acc.1 with
        | (.ok, st') => (st', "ok" :: acc.2)
        | (.nsTooLong, st') => (st', "nstoolong" :: acc.2)
        | (.timeout, st') => let (st'', s) := flushUntil bound st' "timeout"; (st'', s :: acc.2))
        (⟨[], [], wscript⟩, [])
      let script := cutChunks cuts wst.wire
      let (rres, _) := NsSock.readNsManyI nsCfg ns arg nreads ⟨[], script⟩
      s!"W:{",".intercalate wouts.reverse};{natsToHex wst.wire};{",".intercalate (rres.map showNsRes)}"
    | _, _, _, _, _, _ => "bad-op"
  | _ => "bad-op"

def handleNsr (toks : List String) : String :=
  match toks with
  | [rcfg, script, nreads] =>
    match parseRcfg? rcfg, parseScript? script, nreads.toNat? with
    | some (ns, arg), some script, some nreads =>
      let rec go : Nat → St → List String → List String
        | 0, _, acc => acc.reverse
        | k + 1, st, acc =>
          let (r, st') := ns.readNsI nsCfg arg st
          go k st' (s!"{showNsRes r}/{natsToHex st'.rbuf}" :: acc)
      let outs := go nreads ⟨[], script⟩ []
      if outs.isEmpty then "-" else ",".intercalate outs
    | _, _, _ => "bad-op"
  | _ => "bad-op"

/-! ### dx: the one-object model (`BSock`, `drun`) -/

def parseDOp? (tok : String) : Option DOp :=
  let rest := (tok.drop 1).toString
  match tok.front with
  | 'R' =>
    if rest.front = 'F' then
      match splitOnChar (rest.drop 1).toString ':' with
      | [n, f] => match n.toNat?, f.toNat? with
        | some n, some f => some (.recvFlags n f)
        | _, _ => none
      | _ => none
    else (parseCall? rest).map DOp.call
  | 'S' =>
    if rest.front = 'F' then
      match splitOnChar (rest.drop 1).toString ':' with
      | [d, f] => match hexToNats? d, f.toNat? with
        | some d, some f => some (.sendFlags d f)
        | _, _ => none
      | _ => none
    else (parseSOp? rest).map DOp.sop
  | _ => none

def handleDx (toks : List String) : String :=
  match toks with
  | rs :: ms :: rscript :: sscript :: ops =>
    match rs.toNat?, ms.toNat?, parseScript? rscript, parseSScript? sscript,
          ops.foldr (fun t acc => match acc, parseDOp? t with
            | some l, some o => some (o :: l) | _, _ => none) (some []) with
    | some rs, some ms, some revs, some sevs, some dops =>
      let b0 : BSock := ⟨⟨rs, ms⟩, ⟨[], revs⟩, ⟨[], [], sevs⟩, tagsOf rscript, tagsOf sscript⟩
      -- one record per call: replay the prefix states through `dstep` (the same function `drun` folds)
      let rec go (b : BSock) (ops : List DOp) (acc : List String) : List String × BSock :=
        match ops with
        | [] => (acc.reverse, b)
        | o :: os =>
          let (out, b') := dstep Gen.RECV_LARGE_MAXSIZE o b
          go b' os (s!"{showDOut out}/{natsToHex b'.rx.rbuf}/{natsToHex b'.tx.getsendbuffer}/{natsToHex b'.tx.wire}" :: acc)
      let (outs, _) := go b0 dops []
      let bf := (drun Gen.RECV_LARGE_MAXSIZE dops b0).2
      s!"{if outs.isEmpty then "-" else ";".intercalate outs} #{nSF bf.tx.script}"
    | _, _, _, _, _ => "bad-op"
  | _ => "bad-op"

def handle1 (toks : List String) : String :=
  match toks with
  | "rx" :: toks => handleRx toks
  | "tx" :: toks => handleTx toks
  | "ns" :: toks => handleNs toks
  | "nsr" :: toks => handleNsr toks
  | _ => "bad-op"

def handle (line : String) : String :=
  match words line with
  | "duo" :: toks =>
    let a := toks.takeWhile (· ≠ "|")
    let b := (toks.dropWhile (· ≠ "|")).drop 1
    let ra := handle1 a
    let rb := handle1 b
    if ra = "bad-op" || rb = "bad-op" then "bad-op" else s!"{ra} | {rb}"
  | "rx" :: toks => handleRx toks
  | "tx" :: toks => handleTx toks
  | "ns" :: toks => handleNs toks
  | "nsr" :: toks => handleNsr toks
  | "dx" :: toks => handleDx toks
  | ["int", h] =>
    -- Python's int() on a bytes object, as modelled: `err` = ValueError
    match hexToNats? h with
    | some bs => match parsePyInt bs with
      | some v => s!"{v}"
      | none => "err"
    | none => "bad-op"
  | ["consts"] => s!"DEFAULT_MAXSIZE={Gen.DEFAULT_MAXSIZE} RECV_LARGE_MAXSIZE={Gen.RECV_LARGE_MAXSIZE}"
  | _ => "bad-op"

end C12.Driver
