import BoltonsVerif.C12.Driver
def main : IO Unit := BV.mainLoop C12.Driver.handle
