import BoltonsVerif.C12.Model
/-
C12, round 3 - the BufferedSocket as ONE object.

`Model.lean` has a receive-side state (`St`) and a send-side state (`SSt`) that never meet.  The real
object holds both buffers, one `maxsize`, one wrapped socket, and every public method is a method of that
one object.  `BSock` is that object; `DOp` is a public call as the caller writes it - any receive-side
`Call`, any send-side `SOp`, and `recv` / `send` with their `flags` argument (a non-zero value is refused
with ValueError before anything is touched: `if flags: raise ValueError(...)` sits in front of every
buffer access in `recv` and in front of `sbuf.append(data)` in `send`).

Fault classes.  A receive-side fault of the script is a `socket.timeout` of the wrapped socket, a passed
deadline (both surface as `Timeout`) or an OSError of the wrapped socket (passes through unchanged, after
the same buffer restoration).  The state transition is the same (`Ev.timeout`, `SEv.timeout`/`SEv.clock`);
the class the caller sees is the class of the *next unconsumed fault of that direction*.  `BSock` carries
those classes (`rtags`, `stags`), `dstep` hands them out, and `Proofs3.lean` proves that the lists stay
aligned with the scripts (`tags_aligned`) - until round 2 this bookkeeping lived in the driver only.

`fsend` / `frun` is the flat specification of the send side: the send buffer is ONE byte string.  The
real `sbuf` is a list of byte strings that `send` joins; `Proofs3.lean` shows that the list structure is
unobservable (`srun_flat`).
Core Lean only.
-/
namespace C12

/-- the exception class a fault surfaces as -/
inductive Fault where
  | timeout      -- boltons.socketutils.Timeout (socket.timeout of the wrapped socket, or the deadline)
  | osError      -- the wrapped socket's own OSError, passed through
deriving Repr, DecidableEq

/-- one BufferedSocket: constructor arguments, both buffers with the rest of both scripts, and the
    classes of the faults still ahead in each direction -/
structure BSock where
  cfg : Cfg
  rx : St
  tx : SSt
  rtags : List Fault
  stags : List Fault
deriving Repr

/-- a public call on the object -/
inductive DOp where
  | call (c : Call)                          -- recv / peek / recv_size / recv_until / recv_close / setmaxsize
  | recvFlags (size flags : Nat)             -- recv(size, flags)
  | sop (o : SOp)                            -- send / sendall, buffer, flush
  | sendFlags (data : Bytes) (flags : Nat)   -- send(data, flags) / sendall(data, flags)
deriving Repr, DecidableEq

/-- what the caller sees -/
inductive DOut where
  | rx (r : Option Res)      -- a receive-side call returned / raised ConnectionClosed / MessageTooLong;
                             -- `none` = setmaxsize returned None
  | tx (r : SRes)            -- a send-side call returned
  | fault (f : Fault)        -- Timeout, or the socket's OSError
  | valueError               -- non-zero flags
deriving Repr, DecidableEq

/-- the class of the next fault; a script with no fault left never asks (proved: `tags_aligned`) -/
def popTag : List Fault → Fault × List Fault
  | [] => (.timeout, [])
  | f :: fs => (f, fs)

/-- a receive-side call on the object -/
def dcall (large : Nat) (c : Call) (b : BSock) : DOut × BSock :=
  if (callAttempt large b.cfg c b.rx).1 = some .timeout then
    (.fault (popTag b.rtags).1,
     { b with cfg := (callAttempt large b.cfg c b.rx).2.1, rx := (callAttempt large b.cfg c b.rx).2.2,
              rtags := (popTag b.rtags).2 })
  else
    (.rx (callAttempt large b.cfg c b.rx).1,
     { b with cfg := (callAttempt large b.cfg c b.rx).2.1, rx := (callAttempt large b.cfg c b.rx).2.2 })

/-- a send-side call on the object -/
def dsop (o : SOp) (b : BSock) : DOut × BSock :=
  if (sstep o b.tx).1 = .timeout then
    (.fault (popTag b.stags).1, { b with tx := (sstep o b.tx).2, stags := (popTag b.stags).2 })
  else (.tx (sstep o b.tx).1, { b with tx := (sstep o b.tx).2 })

def dstep (large : Nat) (op : DOp) (b : BSock) : DOut × BSock :=
  match op with
  | .call c => dcall large c b
  | .recvFlags size flags => if flags ≠ 0 then (.valueError, b) else dcall large (.recv size) b
  | .sop o => dsop o b
  | .sendFlags data flags => if flags ≠ 0 then (.valueError, b) else dsop (.send data) b

/-- a history of public calls, one attempt each; every call with what the caller saw -/
def drun (large : Nat) : List DOp → BSock → List (DOp × DOut) × BSock
  | [], b => ([], b)
  | op :: ops, b =>
    let (o, b') := dstep large op b
    let (rs, b'') := drun large ops b'
    ((op, o) :: rs, b'')

def DOp.isRx : DOp → Bool
  | .call _ => true
  | .recvFlags _ _ => true
  | _ => false

def DOp.isTx (op : DOp) : Bool := !op.isRx

/-- what the receive side of the object amounts to: everything but the send buffer, the wire, the send
    script and its fault classes -/
def BSock.rxPart (b : BSock) : Cfg × St × List Fault := (b.cfg, b.rx, b.rtags)

def BSock.txPart (b : BSock) : SSt × List Fault := (b.tx, b.stags)

/-- bytes a call handed to the caller -/
def DOp.consumed : DOp → DOut → Nat → Nat → Bytes
  | .call c, .rx (some r), large, selfMax =>
    match c.op large selfMax with
    | some op => C12.consumed op r
    | none => []
  | .recvFlags _ _, .rx (some (.ok bs)), _, _ => bs
  | _, _, _, _ => []

/-- bytes the caller handed to the object with a call (nothing when the call was refused) -/
def DOp.accepted : DOp → DOut → Bytes
  | _, .valueError => []
  | .sop o, _ => o.data
  | .sendFlags d _, _ => d
  | _, _ => []

/-! ## flat specification of the send side -/

/-- send side with the buffer as one byte string -/
structure FSt where
  buf : Bytes
  wire : Bytes
  script : List SEv
deriving Repr, DecidableEq

/-- what the loop of `send` does to one byte string under a script: the prefix that goes out, the
    outcome, and the script that is left.  Written directly (no `sbuf` list, no running total). -/
def deliver : List SEv → Bytes → Bool × Bytes × Bytes × List SEv     -- (timed out?, sent, unsent, rest)
  | script, [] => (false, [], [], script)
  | [], b :: buf => (false, b :: buf, [], [])
  | .timeout :: r, b :: buf => (true, [], b :: buf, r)
  | .clock :: r, b :: buf => (true, [], b :: buf, r)
  | .accept k :: .clock :: r, b :: buf => (true, (b :: buf).take k, (b :: buf).drop k, r)
  | .accept k :: r, b :: buf =>
    match deliver r ((b :: buf).drop k) with
    | (t, sent, unsent, rest) => (t, (b :: buf).take k ++ sent, unsent, rest)

def fsend (data : Bytes) (st : FSt) : SRes × FSt :=
  ((if (deliver st.script (st.buf ++ data)).1 then SRes.timeout
    else SRes.sent (deliver st.script (st.buf ++ data)).2.1.length),
   ⟨(deliver st.script (st.buf ++ data)).2.2.1, st.wire ++ (deliver st.script (st.buf ++ data)).2.1,
    (deliver st.script (st.buf ++ data)).2.2.2⟩)

def fstep (op : SOp) (st : FSt) : SRes × FSt :=
  match op with
  | .send d => fsend d st
  | .buffer d => (.none, { st with buf := st.buf ++ d })
  | .flush =>
    match fsend [] st with
    | (.sent _, st') => (.none, st')
    | other => other

def frun : List SOp → FSt → List (SRes × Bytes × Bytes) × FSt
  | [], st => ([], st)
  | op :: ops, st =>
    let (r, st') := fstep op st
    let (rs, st'') := frun ops st'
    ((r, st'.buf, st'.wire) :: rs, st'')

/-- the flat view of a concrete send-side state -/
def SSt.flat (st : SSt) : FSt := ⟨st.getsendbuffer, st.wire, st.script⟩

/-- what the caller can observe after each call: result, getsendbuffer(), the wire -/
def sobs (recs : List (SRes × SSt)) : List (SRes × Bytes × Bytes) :=
  recs.map fun p => (p.1, p.2.getsendbuffer, p.2.wire)

/-! ## the caller's read loop over `recv`; `recv_size` / `read_ns` with the size as a Python `int` -/

/-- the caller's read loop over `recv(size)`:
    `while True: try: d = recv(size) / except Timeout: continue / if not d: break / out += d` -/
def drain (cfg : Cfg) (size : Nat) : Nat → St → Bytes × St
  | 0, st => ([], st)
  | fuel + 1, st =>
    match recv cfg size st with
    | (.ok [], st') => ([], st')
    | (.ok (b :: v), st') => (b :: v ++ (drain cfg size fuel st').1, (drain cfg size fuel st').2)
    | (_, st') => drain cfg size fuel st'

/-! ### recv_size with the size Python really passes: an `int`, possibly negative -/

/-- Python's `nxt[:-extra]` for `extra > 0`: a negative stop index counts from the end and is clamped at 0 -/
def pyDropLast (extra : Nat) (nxt : Bytes) : Bytes := nxt.take (nxt.length - extra)

/-- Python's `nxt[-extra:]` for `extra > 0` -/
def pyLast (extra : Nat) (nxt : Bytes) : Bytes := nxt.drop (nxt.length - extra)

/-- the `while nxt:` loop of `recv_size` with `size : Int`: `total_bytes >= size` is an integer comparison and
    `extra_bytes = total_bytes - size` may exceed `len(nxt)` -/
def recvSizeLoopI (recvsize : Nat) (size : Int) : Nat → Bytes → Nat → Bytes → List Ev → Res × St
  | 0, acc, _, _, script => (.fuel, ⟨acc, script⟩)
  | fuel + 1, acc, total, nxt, script =>
    if nxt = [] then (.closed, ⟨acc, script⟩)
    else
      let total' := total + nxt.length
      if (total' : Int) ≥ size then
        let extra := ((total' : Int) - size).toNat
        if extra ≠ 0 then (.ok (acc ++ pyDropLast extra nxt), ⟨pyLast extra nxt, script⟩)
        else (.ok (acc ++ nxt), ⟨[], script⟩)
      else match sockRecv recvsize script with
        | .timeout r => (.timeout, ⟨acc ++ nxt, r⟩)
        | .data d r => recvSizeLoopI recvsize size fuel (acc ++ nxt) total' d r

def recvSizeI (cfg : Cfg) (size : Int) (st : St) : Res × St :=
  if st.rbuf ≠ [] then
    recvSizeLoopI cfg.recvsize size (measure st.script + 2) [] 0 st.rbuf st.script
  else match sockRecv cfg.recvsize st.script with
    | .timeout r => (.timeout, ⟨[], r⟩)
    | .data d r => recvSizeLoopI cfg.recvsize size (measure r + 2) [] 0 d r

/-- `read_ns` with the size as the Python `int` that `int(size_prefix)` returns -/
def readNsI (cfg : Cfg) (maxsize window : Nat) (st : St) : NsRes × St :=
  match recvUntil cfg [colon] window false st with
  | (.ok prefix_, st1) =>
    match parsePyInt prefix_ with
    | none => (.invalidSize, st1)
    | some size =>
      if size > (maxsize : Int) then (.nsTooLong, st1)
      else match recvSizeI cfg size st1 with
        | (.ok payload, st2) =>
          match recv cfg 1 st2 with
          | (.ok c, st3) => if c = [comma] then (.ok payload, st3) else (.protocolError, st3)
          | (r, st3) => (NsRes.ofRes r, st3)
        | (r, st2) => (NsRes.ofRes r, st2)
  | (r, st1) => (NsRes.ofRes r, st1)

/-- `read_ns(maxsize=arg)` on a configured NetstringSocket, the size kept as the `int` Python computes -/
def NsSock.readNsI (cfg : Cfg) (ns : NsSock) (arg : Option Nat) (st : St) : NsRes × St :=
  match arg with
  | none => C12.readNsI cfg ns.maxsize ns.window st
  | some m => C12.readNsI cfg m (calcWindow m) st

def NsSock.readNsManyI (cfg : Cfg) (ns : NsSock) (arg : Option Nat) : Nat → St → List NsRes × St
  | 0, st => ([], st)
  | k + 1, st =>
    let (r, st') := ns.readNsI cfg arg st
    let (rs, st'') := NsSock.readNsManyI cfg ns arg k st'
    (r :: rs, st'')

end C12
