import BoltonsVerif.C12.Model4
import BoltonsVerif.C12.Proofs
import BoltonsVerif.C12.Proofs3
/-
C12, round 3c - proofs about acceptance steps (`acceptRecv`, `runMixed`, `daccRecv`, `reseat`) and about the
send loop with free offers (`sendLoopA` ...).
-/
namespace C12

/-! ### positions in a script -/

theorem advance_spec : ∀ (s : List Ev) (cb cf : Nat) (s' : List Ev), advance s cb cf = some s' →
    ∃ c : Bytes, c.length = cb ∧ c ++ pending s' = pending s ∧ nTO s' + cf = nTO s := by
  intro s
  induction s with
  | nil =>
    intro cb cf s' h
    simp only [advance] at h
    split at h
    · rename_i hc
      simp only [Option.some.injEq] at h
      subst h
      exact ⟨[], by simp [hc.1], by simp, by simp [hc.2]⟩
    · simp at h
  | cons e r ih =>
    intro cb cf s' h
    cases e with
    | chunk bs =>
      simp only [advance] at h
      split at h
      · rename_i hc
        simp only [Option.some.injEq] at h
        subst h
        exact ⟨[], by simp [hc.1], by simp, by simp [hc.2]⟩
      · split at h
        · rename_i hlt
          split at h
          · rename_i hcf
            simp only [Option.some.injEq] at h
            subst h
            refine ⟨bs.take cb, by simp [List.length_take]; omega, ?_, by simp [nTO, hcf]⟩
            simp only [pending]
            rw [← List.append_assoc, List.take_append_drop]
          · simp at h
        · rename_i hge
          obtain ⟨c, h1, h2, h3⟩ := ih _ _ _ h
          refine ⟨bs ++ c, by simp [h1]; omega, ?_, by simpa [nTO] using h3⟩
          simp only [pending, List.append_assoc, h2]
    | timeout =>
      simp only [advance] at h
      split at h
      · rename_i hc
        simp only [Option.some.injEq] at h
        subst h
        exact ⟨[], by simp [hc.1], by simp, by simp [hc.2]⟩
      · split at h
        · simp at h
        · rename_i hcf
          obtain ⟨c, h1, h2, h3⟩ := ih _ _ _ h
          refine ⟨c, h1, by simpa [pending] using h2, ?_⟩
          simp only [nTO]
          omega

/-- the observed state of an accepted observation lies further along the same script -/
theorem RecvObs.state_spec (o : RecvObs) (st st' : St) (h : o.state st = some st') :
    st'.rbuf = o.rbuf ∧ nTO st'.script = o.faults ∧ (pending st'.script).length = o.und ∧
    nTO st'.script ≤ nTO st.script ∧ ∃ c, c ++ pending st'.script = pending st.script := by
  unfold RecvObs.state RecvObs.seat at h
  split at h
  · rename_i hc
    split at h
    · rename_i s hs
      simp only [Option.some.injEq] at h
      subst h
      obtain ⟨c, h1, h2, h3⟩ := advance_spec _ _ _ _ hs
      have hl := congrArg List.length h2
      simp only [List.length_append] at hl
      exact ⟨rfl, by simp only; omega, by simp only; omega, by simp only; omega, c, h2⟩
    · simp at h
  · simp at h

/-! ### recv as an acceptance step -/

/-- what acceptance means - literally the `recv` clause of the statement, in the shape of `recv_prefix` -/
theorem acceptRecv_sound (size : Nat) (o : RecvObs) (st st' : St) (h : acceptRecv size o st = some st') :
    st'.rbuf = o.rbuf ∧ nTO st'.script ≤ nTO st.script ∧
    ((o.res = none ∧ st'.view = st.view ∧ nTO st'.script < nTO st.script) ∨
     (∃ v, o.res = some v ∧ v ++ st'.view = st.view ∧ v.length ≤ size ∧
        (0 < size → v = [] → st.view = []))) := by
  unfold acceptRecv at h
  split at h
  · simp at h
  · rename_i s hs
    obtain ⟨h1, -, -, h4, -⟩ := RecvObs.state_spec o st s hs
    split at h
    · rename_i hres
      split at h
      · rename_i hc
        simp only [Option.some.injEq] at h
        subst h
        exact ⟨h1, h4, Or.inl ⟨hres, hc.2, hc.1⟩⟩
      · simp at h
    · rename_i v hres
      split at h
      · rename_i hc
        simp only [Option.some.injEq] at h
        subst h
        exact ⟨h1, h4, Or.inr ⟨v, hres, hc.1, hc.2.1, hc.2.2⟩⟩
      · simp at h

/-- conservation for an accepted recv step -/
theorem acceptRecv_conserves (size : Nat) (o : RecvObs) (st st' : St) (h : acceptRecv size o st = some st') :
    o.handed ++ st'.view = st.view := by
  obtain ⟨-, -, h3⟩ := acceptRecv_sound size o st st' h
  rcases h3 with ⟨a, b, -⟩ | ⟨v, a, b, -⟩
  · simp [RecvObs.handed, a, b]
  · simp [RecvObs.handed, a, b]

/-! ### runs with accepted recv steps -/

/-- THE theorem of this round: in a run whose recv steps were merely accepted (any prefix, any split, any
    number of socket reads), every framing call still returns the whole-stream answer on what is still owed,
    and the bytes still owed at the end are the whole-stream rest -/
theorem reseat_ok (s0 : List Ev) (o : RecvObs) (st : St) :
    (reseat s0 o st).view = st.view ∧ nTO (reseat s0 o st).script = nTO st.script := by
  unfold reseat
  split
  · split
    · rename_i hc; exact hc
    · exact ⟨rfl, rfl⟩
  · exact ⟨rfl, rfl⟩

theorem reseatOpt_ok (s0 : List Ev) (o : Option RecvObs) (st : St) :
    (reseatOpt s0 o st).view = st.view ∧ nTO (reseatOpt s0 o st).script = nTO st.script := by
  cases o with
  | none => exact ⟨rfl, rfl⟩
  | some o => exact reseat_ok s0 o st

theorem runMixed_ok (cfg : Cfg) (hrs : 0 < cfg.recvsize) (s0 : List Ev) : ∀ (steps : List MStep) (st : St)
    (rs : List Res) (st' : St), (∀ s ∈ steps, s.det = true) → runMixed cfg s0 steps st = some (rs, st') →
    (rs, st'.view) = specMixed steps st.view := by
  intro steps
  induction steps with
  | nil =>
    intro st rs st' _ h
    simp only [runMixed, Option.some.injEq, Prod.mk.injEq] at h
    obtain ⟨a, b⟩ := h
    subst a; subst b
    rfl
  | cons s steps ih =>
    intro st rs st' hdet h
    have hdet' : ∀ s ∈ steps, s.det = true := fun x hx => hdet x (List.mem_cons_of_mem _ hx)
    cases s with
    | call op seat =>
      have hop : op.deterministic = true := hdet (.call op seat) (List.mem_cons_self ..)
      simp only [runMixed] at h
      split at h
      · rename_i rs' s' hrun
        simp only [Option.some.injEq, Prod.mk.injEq] at h
        obtain ⟨a, b⟩ := h
        subst a; subst b
        have hc := callRetry_ok cfg hrs op hop st
        have hi := ih _ _ _ hdet' hrun
        simp only [specMixed]
        have e1 : (callRetry cfg op st).1 = (spec op st.view).1 := congrArg Prod.fst hc
        have e2 : (callRetry cfg op st).2.view = (spec op st.view).2 := congrArg Prod.snd hc
        rw [(reseatOpt_ok s0 seat _).1, e2] at hi
        rw [e1, ← hi]
      · simp at h
    | recvObs size o =>
      simp only [runMixed] at h
      split at h
      · simp at h
      · rename_i st1 hacc
        split at h
        · rename_i rs' s' hrun
          simp only [Option.some.injEq, Prod.mk.injEq] at h
          obtain ⟨a, b⟩ := h
          subst a; subst b
          have hi := ih _ _ _ hdet' hrun
          have hc := acceptRecv_conserves size o st st1 hacc
          simp only [specMixed]
          have : st1.view = st.view.drop o.handed.length := by
            rw [← hc]; simp
          rw [← this, ← hi]
        · simp at h

/-- conservation along such a run: handed over by the accepted recv steps ++ consumed by the framing calls
    ++ still owed = what was owed at the start -/
theorem runMixed_conserves (cfg : Cfg) (hrs : 0 < cfg.recvsize) (s0 : List Ev) : ∀ (steps : List MStep)
    (st : St) (rs : List Res) (st' : St), runMixed cfg s0 steps st = some (rs, st') →
    handedMixed steps rs ++ st'.view = st.view := by
  intro steps
  induction steps with
  | nil =>
    intro st rs st' h
    simp only [runMixed, Option.some.injEq, Prod.mk.injEq] at h
    obtain ⟨a, b⟩ := h
    subst a; subst b
    simp [handedMixed]
  | cons s steps ih =>
    intro st rs st' h
    cases s with
    | call op seat =>
      simp only [runMixed] at h
      split at h
      · rename_i rs' s' hrun
        simp only [Option.some.injEq, Prod.mk.injEq] at h
        obtain ⟨a, b⟩ := h
        subst a; subst b
        have hi := ih _ _ _ hrun
        rw [(reseatOpt_ok s0 seat _).1] at hi
        simp only [handedMixed, List.append_assoc, hi]
        -- one retried call conserves: it is a sequence of attempts
        have : ∀ (fuel : Nat) (s : St), consumed op (retryLoop cfg op fuel s).1 ++ (retryLoop cfg op fuel s).2.view
            = s.view := by
          intro fuel
          induction fuel with
          | zero => intro s; cases op <;> simp [retryLoop, consumed]
          | succ n ihn =>
            intro s
            have hc := attempt_conserves cfg hrs op s
            simp only [retryLoop]
            split
            · rename_i st2 heq
              rw [heq] at hc
              simp only [consumed_timeout, List.nil_append] at hc
              rw [ihn st2, hc]
            · rename_i x hne
              exact hc
        exact this _ st
      · simp at h
    | recvObs size o =>
      simp only [runMixed] at h
      split at h
      · simp at h
      · rename_i st1 hacc
        split at h
        · rename_i rs' s' hrun
          simp only [Option.some.injEq, Prod.mk.injEq] at h
          obtain ⟨a, b⟩ := h
          subst a; subst b
          have hi := ih _ _ _ hrun
          have hc := acceptRecv_conserves size o st st1 hacc
          simp only [handedMixed, List.append_assoc, hi, hc]
        · simp at h

theorem specMixed_answer : ∀ (s₁ s₂ : List MStep), s₁.map MStep.answer = s₂.map MStep.answer →
    ∀ S, specMixed s₁ S = specMixed s₂ S := by
  intro s₁
  induction s₁ with
  | nil =>
    intro s₂ h S
    cases s₂ with
    | nil => rfl
    | cons b s₂ => simp at h
  | cons a s₁ ih =>
    intro s₂ h S
    cases s₂ with
    | nil => simp at h
    | cons b s₂ =>
      simp only [List.map_cons, List.cons.injEq] at h
      obtain ⟨hab, ht⟩ := h
      cases a with
      | call op seat =>
        cases b with
        | call op' seat' =>
          simp only [MStep.answer, MStep.call.injEq, and_true] at hab
          subst hab
          simp only [specMixed, ih s₂ ht]
        | recvObs n o => simp [MStep.answer] at hab
      | recvObs n o =>
        cases b with
        | call op' seat' => simp [MStep.answer] at hab
        | recvObs n' o' =>
          simp only [MStep.answer, MStep.recvObs.injEq, RecvObs.mk.injEq, true_and, and_true] at hab
          have e1 : o.toRes = o'.toRes := by simp [RecvObs.toRes, hab]
          have e2 : o.handed = o'.handed := by simp [RecvObs.handed, hab]
          simp only [specMixed, ih s₂ ht, e1, e2]

theorem resolveMixed_det (large : Nat) : ∀ (calls : List MCall) (selfMax : Nat),
    (∀ c seat, MCall.call c seat ∈ calls → c.deterministic = true) →
    ∀ s ∈ resolveMixed large selfMax calls, s.det = true := by
  intro calls
  induction calls with
  | nil => intro _ _ s h; simp [resolveMixed] at h
  | cons c cs ih =>
    intro selfMax hall s hs
    have hcs : ∀ c' seat', MCall.call c' seat' ∈ cs → c'.deterministic = true :=
      fun c' seat' h => hall c' seat' (by simp [h])
    cases c with
    | call c seat =>
      have hc := hall c seat (by simp)
      simp only [resolveMixed] at hs
      cases hop : c.op large selfMax with
      | none => rw [hop] at hs; exact ih _ hcs s hs
      | some op =>
        rw [hop] at hs
        simp only [List.mem_cons] at hs
        rcases hs with h | h
        · subst h
          cases c <;> simp [Call.op] at hop <;> simp [Call.deterministic] at hc <;> subst hop <;> rfl
        · exact ih _ hcs s h
    | recvObs size obs =>
      simp only [resolveMixed, List.mem_append, List.mem_map] at hs
      rcases hs with ⟨o, -, h⟩ | h
      · subst h; rfl
      · exact ih _ hcs s h

/-! ### the verified model's own recv is accepted -/

theorem advance_zero (s : List Ev) : advance s 0 0 = some s := by
  cases s with
  | nil => simp [advance]
  | cons e s => cases e <;> simp [advance]

theorem advance_after_timeout {n : Nat} : ∀ {s r : List Ev}, sockRecv n s = .timeout r →
    ∃ r', advance s 0 1 = some r' ∧ pending r' = pending r ∧ nTO r' = nTO r := by
  intro s
  induction s with
  | nil => intro r h; simp [sockRecv] at h
  | cons e s ih =>
    intro r h
    cases e with
    | timeout =>
      simp only [sockRecv, RecvOut.timeout.injEq] at h
      subst h
      exact ⟨s, by simp [advance, advance_zero], rfl, rfl⟩
    | chunk bs =>
      simp only [sockRecv] at h
      split at h
      · rename_i hb
        subst hb
        obtain ⟨r', h1, h2, h3⟩ := ih h
        exact ⟨r', by simpa [advance] using h1, h2, h3⟩
      · split at h <;> simp at h

theorem advance_after_data {n : Nat} : ∀ {s r : List Ev} {d : Bytes}, sockRecv n s = .data d r →
    ∃ r', advance s d.length 0 = some r' ∧ pending r' = pending r ∧ nTO r' = nTO r := by
  intro s
  induction s with
  | nil =>
    intro r d h
    simp only [sockRecv, RecvOut.data.injEq] at h
    obtain ⟨h1, h2⟩ := h
    subst h1 h2
    exact ⟨[], by simp [advance], rfl, rfl⟩
  | cons e s ih =>
    intro r d h
    cases e with
    | timeout => simp [sockRecv] at h
    | chunk bs =>
      have hfull := h
      simp only [sockRecv] at h
      split at h
      · rename_i hb
        subst hb
        obtain ⟨r', h1, h2, h3⟩ := ih h
        by_cases hd : d.length = 0
        · have hdn : d = [] := List.length_eq_zero_iff.mp hd
          obtain ⟨p1, -, -, -⟩ := sockRecv_data h
          have p2 := sockRecv_nTO_data h
          refine ⟨.chunk [] :: s, by simp [advance, hd], ?_, ?_⟩
          · simp [pending, p1, hdn]
          · simp [nTO, p2]
        · exact ⟨r', by simpa [advance, hd] using h1, h2, h3⟩
      · rename_i hb
        split at h
        · simp only [RecvOut.data.injEq] at h
          obtain ⟨h1, h2⟩ := h
          subst h1 h2
          exact ⟨_, by simp [advance, hb, advance_zero], rfl, rfl⟩
        · rename_i hl
          simp only [RecvOut.data.injEq] at h
          obtain ⟨h1, h2⟩ := h
          subst h1 h2
          by_cases hn : n = 0
          · subst hn
            refine ⟨.chunk bs :: s, by simp [advance], by simp [pending], by simp [nTO]⟩
          · have hlen : (bs.take n).length = n := by simp [List.length_take]; omega
            refine ⟨.chunk (bs.drop n) :: s, ?_, rfl, rfl⟩
            rw [hlen]
            have : n < bs.length := by omega
            simp [advance, hn, this]

/-- a state the model's own `recv` can end in, seen as an observation, names a point of the script -/
theorem obs_state_of_recv (cfg : Cfg) (size : Nat) (st : St) :
    ∃ st', (obsOfRecv (recv cfg size st)).state st = some st' ∧ st'.rbuf = (recv cfg size st).2.rbuf ∧
      pending st'.script = pending (recv cfg size st).2.script ∧
      nTO st'.script = nTO (recv cfg size st).2.script := by
  have key : ∀ (res : Res) (rb : Bytes) (s' : List Ev),
      (∃ c : Bytes, pending st.script = c ++ pending s' ∧ ∃ k, nTO s' + k = nTO st.script ∧
        ∃ r', advance st.script c.length k = some r' ∧ pending r' = pending s' ∧ nTO r' = nTO s') →
      ∃ st', (obsOfRecv (res, ⟨rb, s'⟩)).state st = some st' ∧ st'.rbuf = rb ∧
        pending st'.script = pending s' ∧ nTO st'.script = nTO s' := by
    intro res rb s' ⟨c, hc, k, hk, r', hr, hp, hn⟩
    refine ⟨⟨rb, r'⟩, ?_, rfl, hp, hn⟩
    unfold RecvObs.state RecvObs.seat obsOfRecv
    have hl := congrArg List.length hc
    simp only [List.length_append] at hl
    have c1 : (pending s').length ≤ (pending st.script).length ∧ nTO s' ≤ nTO st.script := ⟨by omega, by omega⟩
    have e1 : (pending st.script).length - (pending s').length = c.length := by omega
    have e2 : nTO st.script - nTO s' = k := by omega
    simp only [c1, and_self, ↓reduceIte, e1, e2, hr]
  have same : ∀ (res : Res) (rb : Bytes), ∃ st', (obsOfRecv (res, ⟨rb, st.script⟩)).state st = some st' ∧
      st'.rbuf = rb ∧ pending st'.script = pending st.script ∧ nTO st'.script = nTO st.script :=
    fun res rb => key res rb st.script ⟨[], by simp, 0, by simp, st.script, advance_zero _, rfl, rfl⟩
  unfold recv
  split
  · exact same _ _
  · split
    · exact same _ _
    · cases hr : sockRecv cfg.recvsize st.script with
      | timeout r =>
        obtain ⟨r', a1, a2, a3⟩ := advance_after_timeout hr
        obtain ⟨p1, -⟩ := sockRecv_timeout hr
        have p2 := sockRecv_nTO_timeout hr
        exact key _ _ r ⟨[], by simp [p1], 1, p2, r', a1, a2, a3⟩
      | data d r =>
        obtain ⟨r', a1, a2, a3⟩ := advance_after_data hr
        obtain ⟨p1, -, -, -⟩ := sockRecv_data hr
        have p2 := sockRecv_nTO_data hr
        simp only
        split
        · exact key _ _ r ⟨d, p1, 0, by omega, r', a1, a2, a3⟩
        · exact key _ _ r ⟨d, p1, 0, by omega, r', a1, a2, a3⟩

theorem recv_accepted (cfg : Cfg) (size : Nat) (st : St) (hrs : 0 < cfg.recvsize) :
    ∃ st', acceptRecv size (obsOfRecv (recv cfg size st)) st = some st' ∧
      st'.rbuf = (recv cfg size st).2.rbuf ∧ st'.view = (recv cfg size st).2.view ∧
      nTO st'.script = nTO (recv cfg size st).2.script := by
  obtain ⟨st', h1, h2, h3, h4⟩ := obs_state_of_recv cfg size st
  have hv : st'.view = (recv cfg size st).2.view := by simp [St.view, h2, h3]
  refine ⟨st', ?_, h2, hv, h4⟩
  unfold acceptRecv
  rw [h1]
  simp only
  obtain ⟨t1, t2⟩ := recv_nTOex cfg size st
  rcases recv_ok cfg hrs size st with ⟨a, b, -⟩ | ⟨v, a, b, c, d, -⟩
  · have hres : (obsOfRecv (recv cfg size st)).res = none := by simp [obsOfRecv, a]
    rw [hres]
    have := t1 a
    simp only [hv, b, h4, and_true]
    rw [if_pos (by omega)]
  · have hres : (obsOfRecv (recv cfg size st)).res = some v := by simp [obsOfRecv, a]
    rw [hres]
    simp only [hv, b, true_and]
    rw [if_pos ⟨c, d⟩]

/-! ### the observed recv on the one object -/

theorem daccRecv_ok (size : Nat) (o : RecvObs) (cls : Fault) (b b' : BSock) (out : DOut)
    (h : daccRecv size o cls b = some (out, b')) (ha : b.Aligned) :
    b'.txPart = b.txPart ∧ b'.cfg = b.cfg ∧ b'.Aligned ∧
    acceptRecv size o b.rx = some b'.rx ∧
    (out = .rx (some o.toRes) ∨ out = .fault cls) ∧
    (out = .fault cls →
      o.res = none ∧ ∃ used, 0 < used ∧ used ≤ b.rtags.length ∧ b'.rtags = b.rtags.drop used ∧
        (b.rtags.drop (used - 1)).head? = some cls) := by
  obtain ⟨hr, hs⟩ := ha
  unfold daccRecv at h
  split at h
  · simp at h
  · rename_i st' hacc
    obtain ⟨-, hle, hcase⟩ := acceptRecv_sound size o b.rx st' hacc
    split at h
    · rename_i v hres
      simp only [Option.some.injEq, Prod.mk.injEq] at h
      obtain ⟨a, c⟩ := h
      subst a; subst c
      refine ⟨rfl, rfl, ⟨?_, hs⟩, hacc, Or.inl (by simp [RecvObs.toRes, hres]), by intro hf; cases hf⟩
      simp only [List.length_drop]
      omega
    · rename_i hres
      split at h
      · rename_i htag
        simp only [Option.some.injEq, Prod.mk.injEq] at h
        obtain ⟨a, c⟩ := h
        subst a; subst c
        have hlt : nTO st'.script < nTO b.rx.script := by
          rcases hcase with ⟨-, -, x⟩ | ⟨v, x, -⟩
          · exact x
          · rw [hres] at x; cases x
        refine ⟨rfl, rfl, ⟨?_, hs⟩, hacc, Or.inr rfl, fun _ => ⟨hres, _, ?_, ?_, rfl, htag⟩⟩
        · simp only [List.length_drop]
          omega
        · omega
        · omega
      · simp at h

/-! ### the read loop over accepted recv steps -/

/-- splitting a run: a run over `pre ++ [last]` is a run over `pre` followed by the last step -/
theorem runMixed_snoc (cfg : Cfg) (s0 : List Ev) (last : MStep) : ∀ (pre : List MStep) (st : St) (rs : List Res)
    (st' : St), runMixed cfg s0 (pre ++ [last]) st = some (rs, st') →
    ∃ rs₁ mid r, runMixed cfg s0 pre st = some (rs₁, mid) ∧ runMixed cfg s0 [last] mid = some ([r], st') ∧
      rs = rs₁ ++ [r] := by
  intro pre
  induction pre with
  | nil =>
    intro st rs st' h
    simp only [List.nil_append] at h
    cases last with
    | call op seat =>
      simp only [runMixed, Option.some.injEq, Prod.mk.injEq] at h
      obtain ⟨a, b⟩ := h
      subst a; subst b
      exact ⟨[], st, _, rfl, by simp [runMixed], rfl⟩
    | recvObs n o =>
      simp only [runMixed] at h
      split at h
      · simp at h
      · rename_i st1 hacc
        simp only [Option.some.injEq, Prod.mk.injEq] at h
        obtain ⟨a, b⟩ := h
        subst a; subst b
        exact ⟨[], st, _, rfl, by simp [runMixed, hacc], rfl⟩
  | cons s pre ih =>
    intro st rs st' h
    cases s with
    | call op seat =>
      simp only [List.cons_append, runMixed] at h
      split at h
      · rename_i rs' s' hrun
        simp only [Option.some.injEq, Prod.mk.injEq] at h
        obtain ⟨a, b⟩ := h
        subst a; subst b
        obtain ⟨rs₁, mid, r, h1, h2, h3⟩ := ih _ _ _ hrun
        exact ⟨(callRetry cfg op st).1 :: rs₁, mid, r, by simp [runMixed, h1], h2, by simp [h3]⟩
      · simp at h
    | recvObs n o =>
      simp only [List.cons_append, runMixed] at h
      split at h
      · simp at h
      · rename_i st1 hacc
        split at h
        · rename_i rs' s' hrun
          simp only [Option.some.injEq, Prod.mk.injEq] at h
          obtain ⟨a, b⟩ := h
          subst a; subst b
          obtain ⟨rs₁, mid, r, h1, h2, h3⟩ := ih _ _ _ hrun
          exact ⟨o.toRes :: rs₁, mid, r, by simp [runMixed, hacc, h1], h2, by simp [h3]⟩
        · simp at h

/-- the caller's read loop over ANY accepted recv (and any framing calls in between): once a `recv(size)` with
    `size > 0` has returned b'' the stream is exhausted, and everything handed over before is the whole stream -/
theorem runMixed_drained (cfg : Cfg) (hrs : 0 < cfg.recvsize) (s0 : List Ev) (pre : List MStep) (size : Nat)
    (hs : 0 < size) (o : RecvObs) (ho : o.res = some []) (st : St) (rs : List Res) (st' : St)
    (h : runMixed cfg s0 (pre ++ [.recvObs size o]) st = some (rs, st')) :
    handedMixed (pre ++ [.recvObs size o]) rs = st.view ∧ st'.view = [] := by
  have hc := runMixed_conserves cfg hrs s0 _ st rs st' h
  obtain ⟨rs₁, mid, r, -, h2, -⟩ := runMixed_snoc cfg s0 _ pre st rs st' h
  simp only [runMixed] at h2
  split at h2
  · simp at h2
  · rename_i st1 hacc
    simp only [Option.some.injEq, Prod.mk.injEq, List.cons.injEq, and_true] at h2
    obtain ⟨-, b⟩ := h2
    subst b
    obtain ⟨-, -, hcase⟩ := acceptRecv_sound size o mid st1 hacc
    rcases hcase with ⟨a, -⟩ | ⟨v, a, b, -, d⟩
    · rw [ho] at a; cases a
    · rw [ho] at a
      simp only [Option.some.injEq] at a
      subst a
      have hm := d hs rfl
      rw [hm] at b
      simp only [List.nil_append] at b
      rw [b, List.append_nil] at hc
      exact ⟨hc, b⟩

/-! ### re-seating on the one object -/

theorem dseat_ok (s0 : List Ev) (o : Option RecvObs) (b : BSock) :
    (dseat s0 o b).txPart = b.txPart ∧ (dseat s0 o b).cfg = b.cfg ∧ (dseat s0 o b).rtags = b.rtags ∧
    (dseat s0 o b).rx.view = b.rx.view ∧ (b.Aligned → (dseat s0 o b).Aligned) := by
  obtain ⟨h1, h2⟩ := reseatOpt_ok s0 o b.rx
  refine ⟨rfl, rfl, rfl, h1, ?_⟩
  intro ⟨hr, hs⟩
  exact ⟨by simp only [dseat]; omega, hs⟩

/-! ### the send loop with free offers -/

theorem sendLoopA_ok : ∀ (offers : List Nat) (script : List SEv) (buf : Bytes) (total : Nat) (wire : Bytes),
    (sendLoopA offers script buf total wire).2.wire ++ (sendLoopA offers script buf total wire).2.sbuf.flatten
      = wire ++ buf ∧
    wire <+: (sendLoopA offers script buf total wire).2.wire ∧
    (sendLoopA offers script buf total wire).1 ≠ .none ∧
    (∀ n, (sendLoopA offers script buf total wire).1 = .sent n →
      (sendLoopA offers script buf total wire).2.sbuf = [[]] ∧
      total + (sendLoopA offers script buf total wire).2.wire.length = n + wire.length) ∧
    nSF (sendLoopA offers script buf total wire).2.script + (sendLoopA offers script buf total wire).1.isTO
      = nSF script := by
  intro offers
  induction offers with
  | nil =>
    intro script buf total wire
    obtain ⟨h1, h2, h3, h4, -, -⟩ := sendLoop_ok script buf total wire
    exact ⟨h1, h2, h3, h4, sendLoop_faults script buf total wire⟩
  | cons m ms ih =>
    intro script buf total wire
    cases buf with
    | nil => simp [sendLoopA, SRes.isTO]
    | cons b buf =>
      cases script with
      | nil =>
        simp only [sendLoopA]
        obtain ⟨h1, h2, h3, h4, h5⟩ := ih [] ((b :: buf).drop m) (total + min m (b :: buf).length)
          (wire ++ (b :: buf).take m)
        refine ⟨?_, (List.prefix_append _ _).trans h2, h3, ?_, h5⟩
        · rw [h1, List.append_assoc, List.take_append_drop]
        · intro n hn
          obtain ⟨a, c⟩ := h4 n hn
          refine ⟨a, ?_⟩
          simp only [List.length_append, List.length_take] at c
          omega
      | cons e script =>
        cases e with
        | timeout => simp [sendLoopA, SRes.isTO, nSF]
        | clock => simp [sendLoopA, SRes.isTO, nSF]
        | accept k =>
          simp only [sendLoopA]
          cases hp : popClock script with
          | some r' =>
            have := popClock_nSF hp
            simp only
            refine ⟨?_, by simp, by simp, by simp, ?_⟩
            · simp [List.append_assoc, List.take_append_drop]
            · simp only [SRes.isTO, nSF]; omega
          | none =>
            simp only
            obtain ⟨h1, h2, h3, h4, h5⟩ := ih script ((b :: buf).drop (min m k))
              (total + min (min m k) (b :: buf).length) (wire ++ (b :: buf).take (min m k))
            refine ⟨?_, (List.prefix_append _ _).trans h2, h3, ?_, by simpa [nSF] using h5⟩
            · rw [h1, List.append_assoc, List.take_append_drop]
            · intro n hn
              obtain ⟨a, c⟩ := h4 n hn
              refine ⟨a, ?_⟩
              simp only [List.length_append, List.length_take] at c
              omega

theorem sendA_ok (offers : List Nat) (data : Bytes) (st : SSt) :
    (sendA offers data st).2.wire ++ (sendA offers data st).2.getsendbuffer
      = st.wire ++ st.getsendbuffer ++ data ∧
    st.wire <+: (sendA offers data st).2.wire ∧
    (sendA offers data st).1 ≠ .none ∧
    (∀ n, (sendA offers data st).1 = .sent n →
      (sendA offers data st).2.getsendbuffer = [] ∧ (sendA offers data st).2.wire.length = st.wire.length + n) ∧
    nSF (sendA offers data st).2.script + (sendA offers data st).1.isTO = nSF st.script := by
  unfold sendA
  simp only [SSt.getsendbuffer]
  by_cases hl : (st.sbuf ++ [data]).length > 1
  · simp only [hl, ↓reduceIte]
    obtain ⟨h1, h2, h3, h4, h5⟩ :=
      sendLoopA_ok offers st.script (List.filter isNonEmpty (st.sbuf ++ [data])).flatten 0 st.wire
    refine ⟨?_, h2, h3, ?_, h5⟩
    · simp only [List.append_nil]
      rw [h1]
      rw [flatten_filter_isNonEmpty]
      simp
    · intro n hn
      obtain ⟨a, c⟩ := h4 n hn
      simp only [List.append_nil]
      rw [a]
      exact ⟨rfl, by omega⟩
  · simp only [hl, ↓reduceIte]
    have hs : st.sbuf = [] := by
      simp only [List.length_append, List.length_cons, List.length_nil] at hl
      have : st.sbuf.length = 0 := by omega
      exact List.length_eq_zero_iff.mp this
    simp only [hs, List.nil_append]
    obtain ⟨h1, h2, h3, h4, h5⟩ := sendLoopA_ok offers st.script data 0 st.wire
    refine ⟨?_, h2, h3, ?_, h5⟩
    · simp only [List.append_nil, List.flatten_nil]
      rw [h1]
    · intro n hn
      obtain ⟨a, c⟩ := h4 n hn
      simp only [List.append_nil]
      rw [a]
      exact ⟨rfl, by omega⟩

theorem flushA_ok (offers : List Nat) (st : SSt) :
    (flushA offers st).2.wire ++ (flushA offers st).2.getsendbuffer = st.wire ++ st.getsendbuffer ∧
    st.wire <+: (flushA offers st).2.wire ∧
    ((flushA offers st).1 = .none → (flushA offers st).2.getsendbuffer = []) ∧
    ((flushA offers st).1 = .none ∨ (flushA offers st).1 = .timeout) ∧
    nSF (flushA offers st).2.script + (flushA offers st).1.isTO = nSF st.script := by
  obtain ⟨h1, h2, h3, h4, h5⟩ := sendA_ok offers [] st
  unfold flushA
  cases hq : sendA offers [] st with
  | mk r st' =>
    rw [hq] at h1 h2 h3 h4 h5
    cases r with
    | sent n =>
      simp only at h1 h2 h4 h5 ⊢
      exact ⟨by simpa using h1, h2, fun _ => (h4 n rfl).1, by simp, by simpa [SRes.isTO] using h5⟩
    | none => exact absurd rfl h3
    | timeout =>
      simp only at h1 h2 h5 ⊢
      exact ⟨by simpa using h1, h2, by simp, by simp, h5⟩

theorem sstepA_ok (offers : List Nat) (op : SOp) (st : SSt) :
    (sstepA offers op st).2.wire ++ (sstepA offers op st).2.getsendbuffer
      = st.wire ++ st.getsendbuffer ++ op.data ∧
    st.wire <+: (sstepA offers op st).2.wire ∧
    nSF (sstepA offers op st).2.script + (sstepA offers op st).1.isTO = nSF st.script := by
  cases op with
  | send d =>
    simp only [sstepA, SOp.data]
    exact ⟨(sendA_ok offers d st).1, (sendA_ok offers d st).2.1, (sendA_ok offers d st).2.2.2.2⟩
  | buffer d => simp [sstepA, buffer, SSt.getsendbuffer, SOp.data, SRes.isTO]
  | flush =>
    simp only [sstepA, SOp.data, List.append_nil]
    exact ⟨(flushA_ok offers st).1, (flushA_ok offers st).2.1, (flushA_ok offers st).2.2.2.2⟩

theorem srunA_conserves : ∀ (ops : List (List Nat × SOp)) (st : SSt),
    (srunA ops st).2.wire ++ (srunA ops st).2.getsendbuffer
      = st.wire ++ st.getsendbuffer ++ (ops.map (fun p => p.2.data)).flatten ∧
    st.wire <+: (srunA ops st).2.wire := by
  intro ops
  induction ops with
  | nil => intro st; simp [srunA]
  | cons p ops ih =>
    intro st
    obtain ⟨offers, op⟩ := p
    obtain ⟨h1, h2, -⟩ := sstepA_ok offers op st
    obtain ⟨h3, h4⟩ := ih (sstepA offers op st).2
    simp only [srunA]
    refine ⟨?_, h2.trans h4⟩
    rw [h3, h1]
    simp

/-- no offers recorded = the verified loop -/
theorem sstepA_nil (op : SOp) (st : SSt) : sstepA [] op st = sstep op st := by
  cases op with
  | send d => rfl
  | buffer d => rfl
  | flush => rfl

theorem writeNsA_nil (maxsize : Nat) (p : Bytes) (st : SSt) : writeNsA [] maxsize p st = writeNs maxsize p st := rfl

theorem writeNsA_conserves (offers : List Nat) (maxsize : Nat) (p : Bytes) (st : SSt) :
    (writeNsA offers maxsize p st).2.wire ++ (writeNsA offers maxsize p st).2.getsendbuffer
      = st.wire ++ st.getsendbuffer ++ (if p.length ≤ maxsize then encodeNs p else []) ∧
    ((writeNsA offers maxsize p st).1 = .ok →
      p.length ≤ maxsize ∧ (writeNsA offers maxsize p st).2.getsendbuffer = []) ∧
    ((writeNsA offers maxsize p st).1 = .nsTooLong ↔ maxsize < p.length) := by
  unfold writeNsA
  split
  · rename_i h
    have : ¬ p.length ≤ maxsize := by omega
    simp [this, h]
  · rename_i h
    have hle : p.length ≤ maxsize := by omega
    obtain ⟨h1, _, h3, h4, _⟩ := sendA_ok offers (encodeNs p) st
    cases hq : sendA offers (encodeNs p) st with
    | mk r st' =>
      rw [hq] at h1 h3 h4
      cases r with
      | timeout => simp only [hle, ↓reduceIte] at h1 ⊢; exact ⟨h1, by simp, by simp; omega⟩
      | none => exact absurd rfl h3
      | sent n =>
        simp only [hle, ↓reduceIte] at h1 ⊢
        exact ⟨h1, fun _ => ⟨trivial, (h4 n rfl).1⟩, by simp; omega⟩

theorem dsopA_nil (o : SOp) (b : BSock) : dsopA [] o b = dsop o b := by
  simp only [dsopA, dsop, sstepA_nil]

theorem dsopA_ok (offers : List Nat) (o : SOp) (b : BSock) (h : b.Aligned) :
    (dsopA offers o b).2.rxPart = b.rxPart ∧ (dsopA offers o b).2.Aligned ∧
    (∀ f, (dsopA offers o b).1 = .fault f → b.stags = f :: (dsopA offers o b).2.stags) ∧
    (dsopA offers o b).2.tx.wire ++ (dsopA offers o b).2.tx.getsendbuffer
      = b.tx.wire ++ b.tx.getsendbuffer ++ o.data ∧
    b.tx.wire <+: (dsopA offers o b).2.tx.wire := by
  obtain ⟨hr, hs⟩ := h
  obtain ⟨c1, c2, hf⟩ := sstepA_ok offers o b.tx
  unfold dsopA
  by_cases ht : (sstepA offers o b.tx).1 = .timeout
  · simp only [ht, ↓reduceIte, BSock.Aligned]
    rw [ht] at hf
    simp only [SRes.isTO] at hf
    have hpos : 0 < b.stags.length := by omega
    have hp := popTag_length hpos
    refine ⟨rfl, ⟨hr, ?_⟩, ?_, c1, c2⟩
    · have : b.stags.length = (popTag b.stags).2.length + 1 := by
        conv => lhs; rw [hp]
        simp
      omega
    · intro f hf'
      simp only [DOut.fault.injEq] at hf'
      rw [← hf']; exact hp
  · simp only [ht, ↓reduceIte, BSock.Aligned]
    have : (sstepA offers o b.tx).1.isTO = 0 := by
      cases hq : (sstepA offers o b.tx).1 with
      | timeout => exact absurd hq ht
      | sent n => rfl
      | none => rfl
    exact ⟨rfl, ⟨hr, by omega⟩, (by intro f hf'; cases hf'), c1, c2⟩

end C12
