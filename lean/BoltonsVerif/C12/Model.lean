/-
C12 — model of `boltons.socketutils.BufferedSocket` / `NetstringSocket`.

Bytes are natural numbers (`Byte := Nat`; the driver only ever feeds 0..255).

The network is a *script*: a list of events, each either a chunk of bytes that
arrives or a `socket.timeout` raised by the underlying socket.  After the script
is exhausted the peer has closed (recv returns b'' for ever).  `sock.recv(n)`
hands out at most `n` bytes of the head chunk (the rest of the chunk stays at
the head of the script); a real socket never returns b'' before EOF, so empty
chunks are skipped.

Transliterations (method by method, loop by loop) of
  recv, peek, recv_size, recv_until, recv_close            (receive side)
  send / sendall, buffer, flush                            (send side)
  NetstringSocket.read_ns / write_ns
Loops that call `sock.recv` are written with an explicit fuel argument; the
public entry points pass `measure script + 1` (or `+ 2`), which `Proofs.lean` shows is
always enough (the result is never `Res.fuel`).

The wall-clock branch (`cur_timeout <= 0.0`):
  * receive side - the deadline check sits directly in front of `sock.recv` and raises the same
    `socket.timeout` into the same handler, so one script event `Ev.timeout` stands for both "the
    socket timed out" and "the deadline had passed when the loop came round" (the harness drives
    both code paths with a scripted clock and compares them with this one model event);
  * send side - the check sits *behind* `sock.send`, after `sbuf[0]` has been trimmed, and also runs
    when everything has just been sent: that is a different program point, modelled by its own
    event `SEv.clock`.
Round 2 also models the argument resolution around the calls: `Max` / `Call` (maxsize omitted ->
`self.maxsize`, `None` -> `_RECV_LARGE_MAXSIZE`, `setmaxsize`) and `NsSock` (NetstringSocket's
`maxsize` and its cached prefix window `_msgsize_maxsize`: constructor, `setmaxsize`, `maxsize=` argument).
Core Lean only.
-/
namespace C12

abbrev Byte := Nat
abbrev Bytes := List Nat

/-! ## the scripted socket, receive direction -/

inductive Ev where
  | chunk (bs : Bytes)
  | timeout
deriving Repr, DecidableEq

/-- what one `sock.recv(n)` call does -/
inductive RecvOut where
  | data (bs : Bytes) (rest : List Ev)
  | timeout (rest : List Ev)
deriving Repr

def sockRecv (n : Nat) : List Ev → RecvOut
  | [] => .data [] []
  | .timeout :: r => .timeout r
  | .chunk bs :: r =>
    if bs = [] then sockRecv n r
    else if bs.length ≤ n then .data bs r
    else .data (bs.take n) (.chunk (bs.drop n) :: r)

/-- the bytes the network has not delivered yet, in order -/
def pending : List Ev → Bytes
  | [] => []
  | .chunk bs :: r => bs ++ pending r
  | .timeout :: r => pending r

/-- termination measure of a script: every recv that does not hit EOF lowers it -/
def measure : List Ev → Nat
  | [] => 0
  | .chunk bs :: r => bs.length + 1 + measure r
  | .timeout :: r => 1 + measure r

/-- how many `socket.timeout`s the script still holds -/
def nTO : List Ev → Nat
  | [] => 0
  | .chunk _ :: r => nTO r
  | .timeout :: r => nTO r + 1

/-! ## results -/

inductive Res where
  | ok (bs : Bytes)
  | closed            -- ConnectionClosed
  | tooLong           -- MessageTooLong
  | timeout           -- Timeout
  | fuel              -- never produced with the fuel the entry points pass (proved)
deriving Repr, DecidableEq

/-- receive-side state: `self.rbuf` and the rest of the network script -/
structure St where
  rbuf : Bytes
  script : List Ev
deriving Repr

/-- constructor arguments that matter -/
structure Cfg where
  recvsize : Nat
  maxsize : Nat
deriving Repr

/-! ## `bytes.find(sub, start, end)` -/

/-- first index `i` with `d` a prefix of `xs.drop i` (so the match lies inside `xs`) -/
def findIdx (d : Bytes) : Bytes → Option Nat
  | [] => if d.isPrefixOf [] then some 0 else none
  | x :: xs => if d.isPrefixOf (x :: xs) then some 0 else (findIdx d xs).map (· + 1)

/-- Python's `xs.find(d, start, end)` for `end ≥ 0`: negative `start` counts from
    the end and is clamped to 0; `end` is clamped to `len(xs)`; `none` is `-1`. -/
def pyFind (d xs : Bytes) (start : Int) (stop : Nat) : Option Nat :=
  let e := min stop xs.length
  let s := if start < 0 then (start + (xs.length : Int)).toNat else start.toNat
  if s > e then none else (findIdx d ((xs.take e).drop s)).map (· + s)

/-! ## recv -/

def recv (cfg : Cfg) (size : Nat) (st : St) : Res × St :=
  if st.rbuf.length ≥ size then (.ok (st.rbuf.take size), ⟨st.rbuf.drop size, st.script⟩)
  else if st.rbuf ≠ [] then (.ok st.rbuf, ⟨[], st.script⟩)
  else match sockRecv cfg.recvsize st.script with
    | .timeout r => (.timeout, ⟨st.rbuf, r⟩)
    | .data d r =>
      if d.length > size then (.ok (d.take size), ⟨d.drop size, r⟩)
      else (.ok d, ⟨st.rbuf, r⟩)

/-! ## recv_size -/

/-- the `while nxt:` loop of `recv_size`.  `acc` is `b''.join(chunks)`, `total` is
    `total_bytes` *before* the `+= len(nxt)` of this iteration. -/
def recvSizeLoop (recvsize size : Nat) : Nat → Bytes → Nat → Bytes → List Ev → Res × St
  | 0, acc, _, _, script => (.fuel, ⟨acc, script⟩)
  | fuel + 1, acc, total, nxt, script =>
    if nxt = [] then (.closed, ⟨acc, script⟩)            -- while/else: ConnectionClosed; rbuf = join(chunks)
    else
      let total' := total + nxt.length
      if total' ≥ size then
        let extra := total' - size
        if extra ≠ 0 then
          (.ok (acc ++ nxt.take (nxt.length - extra)), ⟨nxt.drop (nxt.length - extra), script⟩)
        else (.ok (acc ++ nxt), ⟨[], script⟩)
      else match sockRecv recvsize script with
        | .timeout r => (.timeout, ⟨acc ++ nxt, r⟩)      -- rbuf = join(chunks)
        | .data d r => recvSizeLoop recvsize size fuel (acc ++ nxt) total' d r

def recvSize (cfg : Cfg) (size : Nat) (st : St) : Res × St :=
  if st.rbuf ≠ [] then
    recvSizeLoop cfg.recvsize size (measure st.script + 2) [] 0 st.rbuf st.script
  else match sockRecv cfg.recvsize st.script with     -- nxt = self.rbuf or self.sock.recv(...)
    | .timeout r => (.timeout, ⟨[], r⟩)
    | .data d r => recvSizeLoop cfg.recvsize size (measure r + 2) [] 0 d r

/-! ## peek -/

def peek (cfg : Cfg) (size : Nat) (st : St) : Res × St :=
  if st.rbuf.length ≥ size then (.ok (st.rbuf.take size), st)
  else match recvSize cfg size st with
    | (.ok data, st') => (.ok data, ⟨data ++ st'.rbuf, st'.script⟩)
    | other => other

/-! ## recv_close -/

def recvClose (cfg : Cfg) (maxsize : Nat) (st : St) : Res × St :=
  match recvSize cfg (maxsize + 1) st with
  | (.closed, st') => (.ok st'.rbuf, ⟨[], st'.script⟩)
  | (.ok recvd, st') => (.tooLong, ⟨recvd ++ st'.rbuf, st'.script⟩)
  | other => other

/-! ## recv_until -/

/-- the `while 1:` loop of `recv_until`; `fstart` is `find_offset_start` -/
def recvUntilLoop (recvsize : Nat) (d : Bytes) (maxsize : Nat) (withDelim : Bool) :
    Nat → Bytes → Int → List Ev → Res × St
  | 0, recvd, _, script => (.fuel, ⟨recvd, script⟩)
  | fuel + 1, recvd, fstart, script =>
    match pyFind d recvd fstart maxsize with
    | some offset =>
      if withDelim then
        (.ok (recvd.take (offset + d.length)), ⟨recvd.drop (offset + d.length), script⟩)
      else
        (.ok (recvd.take offset), ⟨recvd.drop (offset + d.length), script⟩)
    | none =>
      if recvd.length > maxsize then (.tooLong, ⟨recvd, script⟩)
      else match sockRecv recvsize script with
        | .timeout r => (.timeout, ⟨recvd, r⟩)
        | .data nxt r =>
          if nxt = [] then (.closed, ⟨recvd, r⟩)
          else recvUntilLoop recvsize d maxsize withDelim fuel (recvd ++ nxt)
                 (-(nxt.length : Int) - (d.length : Int) + 1) r

def recvUntil (cfg : Cfg) (d : Bytes) (maxsize : Nat) (withDelim : Bool) (st : St) : Res × St :=
  recvUntilLoop cfg.recvsize d maxsize withDelim (measure st.script + 1) st.rbuf 0 st.script

/-! ## receive-side operations as data -/

inductive Op where
  | recv (size : Nat)
  | peek (size : Nat)
  | recvSize (size : Nat)
  | recvUntil (d : Bytes) (maxsize : Nat) (withDelim : Bool)
  | recvClose (maxsize : Nat)
deriving Repr, DecidableEq

/-- one call (one attempt) -/
def attempt (cfg : Cfg) (op : Op) (st : St) : Res × St :=
  match op with
  | .recv n => recv cfg n st
  | .peek n => peek cfg n st
  | .recvSize n => recvSize cfg n st
  | .recvUntil d m w => recvUntil cfg d m w st
  | .recvClose m => recvClose cfg m st

/-- the caller's `while True: try: call() … except Timeout: continue` -/
def retryLoop (cfg : Cfg) (op : Op) : Nat → St → Res × St
  | 0, st => (.fuel, st)
  | fuel + 1, st =>
    match attempt cfg op st with
    | (.timeout, st') => retryLoop cfg op fuel st'
    | other => other

def callRetry (cfg : Cfg) (op : Op) (st : St) : Res × St :=
  retryLoop cfg op (measure st.script + 1) st

/-- a sequence of calls, each retried after Timeout; the list of results -/
def runRetry (cfg : Cfg) : List Op → St → List Res × St
  | [], st => ([], st)
  | op :: ops, st =>
    let (r, st') := callRetry cfg op st
    let (rs, st'') := runRetry cfg ops st'
    (r :: rs, st'')

/-- a sequence of single attempts (no retry): what the caller saw after each -/
def runAttempts (cfg : Cfg) : List Op → St → List (Res × St) × St
  | [], st => ([], st)
  | op :: ops, st =>
    let (r, st') := attempt cfg op st
    let (rs, st'') := runAttempts cfg ops st'
    ((r, st') :: rs, st'')

/-! ## the public calls: how `maxsize` reaches an operation -/

/-- the `maxsize=` argument of `recv_until` / `recv_close` -/
inductive Max where
  | unset              -- argument omitted: `self.maxsize`
  | none               -- `None`: `_RECV_LARGE_MAXSIZE`
  | some (n : Nat)
deriving Repr, DecidableEq

/-- `if maxsize is _UNSET: maxsize = self.maxsize`; `if maxsize is None: maxsize = _RECV_LARGE_MAXSIZE`.
    `large` is the constant `_RECV_LARGE_MAXSIZE` (regenerated from the source, supplied by the driver). -/
def Max.resolve (large selfMax : Nat) : Max → Nat
  | .unset => selfMax
  | .none => large
  | .some n => n

/-- a public receive-side call as the caller writes it -/
inductive Call where
  | recv (size : Nat)
  | peek (size : Nat)
  | recvSize (size : Nat)
  | recvUntil (d : Bytes) (m : Max) (withDelim : Bool)
  | recvClose (m : Max)
  | setMaxsize (n : Nat)
deriving Repr, DecidableEq

/-- the operation a call performs while `self.maxsize = selfMax`; `none` for `setmaxsize`,
    which touches neither the buffer nor the socket -/
def Call.op (large selfMax : Nat) : Call → Option Op
  | .recv n => some (.recv n)
  | .peek n => some (.peek n)
  | .recvSize n => some (.recvSize n)
  | .recvUntil d m w => some (.recvUntil d (m.resolve large selfMax) w)
  | .recvClose m => some (.recvClose (m.resolve large selfMax))
  | .setMaxsize _ => none

/-- `self.maxsize` after the call -/
def Call.nextMax (selfMax : Nat) : Call → Nat
  | .setMaxsize n => n
  | _ => selfMax

/-- every call but `recv` has a chunk-independent answer -/
def Call.deterministic : Call → Bool
  | .recv _ => false
  | _ => true

/-- one call, one attempt: result (`none` = `setmaxsize` returned None), new `self.maxsize`
    (kept in `cfg.maxsize`; `_recvsize` is fixed by the constructor), new state -/
def callAttempt (large : Nat) (cfg : Cfg) (c : Call) (st : St) : Option Res × Cfg × St :=
  match c.op large cfg.maxsize with
  | some op => (some (attempt cfg op st).1, cfg, (attempt cfg op st).2)
  | none => (none, { cfg with maxsize := c.nextMax cfg.maxsize }, st)

/-- a session of public calls, each retried after Timeout; `setmaxsize` contributes no result -/
def runCalls (large : Nat) : Cfg → List Call → St → List Res × St
  | _, [], st => ([], st)
  | cfg, c :: cs, st =>
    match c.op large cfg.maxsize with
    | some op =>
      let (r, st') := callRetry cfg op st
      let (rs, st'') := runCalls large cfg cs st'
      (r :: rs, st'')
    | none => runCalls large { cfg with maxsize := c.nextMax cfg.maxsize } cs st

/-- the operations a list of calls amounts to, every maxsize resolved (no socket involved) -/
def resolveCalls (large : Nat) : Nat → List Call → List Op
  | _, [] => []
  | selfMax, c :: cs =>
    match c.op large selfMax with
    | some op => op :: resolveCalls large selfMax cs
    | none => resolveCalls large (c.nextMax selfMax) cs

/-! ## whole-stream specification (what the calls mean when everything has arrived) -/

/-- `S` = every byte not yet handed to the caller.  Result and what remains. -/
def specSize (n : Nat) (S : Bytes) : Res × Bytes :=
  if n ≤ S.length ∧ S ≠ [] then (.ok (S.take n), S.drop n) else (.closed, S)

def specPeek (n : Nat) (S : Bytes) : Res × Bytes :=
  if n ≤ S.length then (.ok (S.take n), S) else (.closed, S)

def specClose (maxsize : Nat) (S : Bytes) : Res × Bytes :=
  if S.length ≤ maxsize then (.ok S, []) else (.tooLong, S)

def specUntil (d : Bytes) (maxsize : Nat) (withDelim : Bool) (S : Bytes) : Res × Bytes :=
  match findIdx d (S.take maxsize) with
  | some o => (.ok (S.take (if withDelim then o + d.length else o)), S.drop (o + d.length))
  | none => if S.length > maxsize then (.tooLong, S) else (.closed, S)

/-- deterministic operations only (`recv` is specified by `recv_prefix` instead) -/
def spec : Op → Bytes → Res × Bytes
  | .recv _, S => (.fuel, S)
  | .peek n, S => specPeek n S
  | .recvSize n, S => specSize n S
  | .recvUntil d m w, S => specUntil d m w S
  | .recvClose m, S => specClose m S

def Op.deterministic : Op → Bool
  | .recv _ => false
  | _ => true

def specRun : List Op → Bytes → List Res × Bytes
  | [], S => ([], S)
  | op :: ops, S =>
    let (r, S') := spec op S
    let (rs, S'') := specRun ops S'
    (r :: rs, S'')

/-- bytes a call removed from the stream: what it returned, plus the delimiter
    that `recv_until(with_delimiter=False)` drops by design; `peek` removes nothing -/
def consumed : Op → Res → Bytes
  | .recv _, .ok bs => bs
  | .recvSize _, .ok bs => bs
  | .recvClose _, .ok bs => bs
  | .recvUntil d _ w, .ok bs => if w then bs else bs ++ d
  | _, _ => []

/-- the bytes handed to the caller by a history of attempts (`runAttempts`) -/
def handedOver : List Op → List (Res × St) → Bytes
  | op :: ops, (r, _) :: recs => consumed op r ++ handedOver ops recs
  | _, _ => []

/-- the stream as seen from a state: buffered bytes, then undelivered bytes -/
def St.view (st : St) : Bytes := st.rbuf ++ pending st.script

/-! ## send side -/

inductive SEv where
  | accept (k : Nat)       -- sock.send takes at most k bytes
  | timeout                -- sock.send raises socket.timeout
  | clock                  -- the wall clock passes the deadline: the `cur_timeout <= 0.0` check that
                           -- follows a `sock.send` fires (a `sock.send` that finds the deadline
                           -- already passed times out as well)
deriving Repr, DecidableEq

structure SSt where
  sbuf : List Bytes        -- self.sbuf (a list of byte strings)
  wire : Bytes             -- everything the underlying socket accepted so far
  script : List SEv        -- exhausted script = the socket accepts everything
deriving Repr

inductive SRes where
  | sent (n : Nat)         -- return value of send / sendall
  | none                   -- buffer / flush return None
  | timeout
deriving Repr, DecidableEq

/-- `some rest` when the deadline check that follows a `sock.send` fires -/
def popClock : List SEv → Option (List SEv)
  | .clock :: r => some r
  | _ => none

/-- the `while sbuf[0]:` loop; `buf` is `sbuf[0]`.  After every `sock.send` the code trims `sbuf[0]`
    and then (when a timeout is set) looks at the clock: if the deadline has passed it raises Timeout
    with the trimmed buffer - even when that buffer is now empty. -/
def sendLoop : List SEv → Bytes → Nat → Bytes → SRes × SSt
  | script, [], total, wire => (.sent total, ⟨[[]], wire, script⟩)
  | [], b :: buf, total, wire => (.sent (total + (b :: buf).length), ⟨[[]], wire ++ (b :: buf), []⟩)
  | .timeout :: r, b :: buf, _, wire => (.timeout, ⟨[b :: buf], wire, r⟩)
  | .clock :: r, b :: buf, _, wire => (.timeout, ⟨[b :: buf], wire, r⟩)
  | .accept k :: r, b :: buf, total, wire =>
    match popClock r with
    | some r' => (.timeout, ⟨[(b :: buf).drop k], wire ++ (b :: buf).take k, r'⟩)
    | none =>
      sendLoop r ((b :: buf).drop k) (total + min k (b :: buf).length) (wire ++ (b :: buf).take k)

/-- how many fault events (socket timeouts and deadline expiries) a send script still holds -/
def nSF : List SEv → Nat
  | [] => 0
  | .accept _ :: r => nSF r
  | .timeout :: r => nSF r + 1
  | .clock :: r => nSF r + 1

/-- the `if s` of `[s for s in sbuf if s]` -/
def isNonEmpty : Bytes → Bool
  | [] => false
  | _ :: _ => true

def send (data : Bytes) (st : SSt) : SRes × SSt :=
  let sbuf := st.sbuf ++ [data]
  let sbuf := if sbuf.length > 1 then [(sbuf.filter isNonEmpty).flatten] else sbuf
  match sbuf with
  | b :: rest =>
    -- the loop only ever looks at sbuf[0]; `rest` is [] here (proved), kept for fidelity
    match sendLoop st.script b 0 st.wire with
    | (r, st') => (r, ⟨st'.sbuf ++ rest, st'.wire, st'.script⟩)
  | [] => (.sent 0, st)

def buffer (data : Bytes) (st : SSt) : SRes × SSt := (.none, { st with sbuf := st.sbuf ++ [data] })

def flush (st : SSt) : SRes × SSt :=
  match send [] st with
  | (.sent _, st') => (.none, st')
  | other => other

/-- `k` consecutive flush() calls (the caller's reaction to a Timeout from send) -/
def flushN : Nat → SSt → SSt
  | 0, st => st
  | k + 1, st => flushN k (flush st).2

inductive SOp where
  | send (data : Bytes)      -- also sendall
  | buffer (data : Bytes)
  | flush
deriving Repr, DecidableEq

def sstep (op : SOp) (st : SSt) : SRes × SSt :=
  match op with
  | .send d => send d st
  | .buffer d => buffer d st
  | .flush => flush st

def srun : List SOp → SSt → List (SRes × SSt) × SSt
  | [], st => ([], st)
  | op :: ops, st =>
    let (r, st') := sstep op st
    let (rs, st'') := srun ops st'
    ((r, st') :: rs, st'')

def SSt.getsendbuffer (st : SSt) : Bytes := st.sbuf.flatten

/-- the bytes an operation hands to the BufferedSocket -/
def SOp.data : SOp → Bytes
  | .send d => d
  | .buffer d => d
  | .flush => []

/-! ## netstrings -/

/-- decimal digits of `n`, most significant first, as ASCII bytes (`str(n).encode('ascii')`) -/
def digitsAux : Nat → Nat → Bytes → Bytes
  | 0, n, acc => (48 + n % 10) :: acc
  | fuel + 1, n, acc => if n < 10 then (48 + n) :: acc else digitsAux fuel (n / 10) ((48 + n % 10) :: acc)

def digits (n : Nat) : Bytes := digitsAux n n []

def isDigit (b : Nat) : Bool := 48 ≤ b && b ≤ 57

/-- `int(prefix)` restricted to the inputs the model covers: a non-empty run of ASCII digits
    is its decimal value, anything else `none`.  This is the *strict* netstring size syntax; what
    read_ns really calls is Python's lenient `int()`, modelled by `parsePyInt` / `parseSize` below
    (they agree on strict input: `parseSize_of_parseNat`). -/
def parseNat (bs : Bytes) : Option Nat :=
  if bs ≠ [] ∧ bs.all isDigit then some (bs.foldl (fun acc b => acc * 10 + (b - 48)) 0) else none

/-! `int(size_prefix)` as Python really does it for a bytes object (round 2): ASCII whitespace around
    the number is skipped, one sign is allowed, digits may be grouped by single underscores. -/

/-- `Py_ISSPACE`: space, \t \n \v \f \r -/
def isSpace (b : Nat) : Bool := b == 32 || (9 ≤ b && b ≤ 13)

def stripL : Bytes → Bytes
  | [] => []
  | b :: bs => if isSpace b then stripL bs else b :: bs

def stripR (bs : Bytes) : Bytes := (stripL bs.reverse).reverse

inductive Prev where
  | start | digit | under
deriving Repr, DecidableEq

/-- digits, single underscores only between digits; the value so far is `acc` -/
def parseBody (acc : Nat) : Prev → Bytes → Option Nat
  | p, [] => if p = .digit then some acc else none
  | p, b :: bs =>
    if isDigit b then parseBody (acc * 10 + (b - 48)) .digit bs
    else if b = 95 ∧ p = .digit then parseBody acc .under bs
    else none

/-- Python's `int(bs)` for a bytes object, base 10; `none` = ValueError -/
def parsePyInt (bs : Bytes) : Option Int :=
  match stripR (stripL bs) with
  | [] => none
  | b :: r =>
    if b = 43 then (parseBody 0 .start r).map Int.ofNat
    else if b = 45 then (parseBody 0 .start r).map (fun n => - Int.ofNat n)
    else (parseBody 0 .start (b :: r)).map Int.ofNat

/-- the size read_ns works with.  A negative size `s` (e.g. the prefix `-5`) passes the
    `size > maxsize` test like 0 does, and `recv_size(s)` behaves exactly like `recv_size(0)`
    (`total_bytes >= s` holds at once and `nxt[:-extra]` is empty, `nxt[-extra:]` is all of `nxt`),
    so the model clamps it to 0. -/
def parseSize (bs : Bytes) : Option Nat := (parsePyInt bs).map Int.toNat

def colon : Nat := 58
def comma : Nat := 44

/-- `write_ns` payload framing -/
def encodeNs (payload : Bytes) : Bytes := digits payload.length ++ [colon] ++ payload ++ [comma]

inductive NsRes where
  | ok (payload : Bytes)
  | closed | tooLong | timeout | fuel      -- from the BufferedSocket calls
  | invalidSize                            -- NetstringInvalidSize
  | nsTooLong                              -- NetstringMessageTooLong
  | protocolError                          -- NetstringProtocolError (missing ',')
deriving Repr, DecidableEq

def NsRes.ofRes : Res → NsRes
  | .ok bs => .ok bs
  | .closed => .closed
  | .tooLong => .tooLong
  | .timeout => .timeout
  | .fuel => .fuel

/-- `NetstringSocket.read_ns()`; `cfg` is the inner BufferedSocket's configuration
    (constructed with defaults), `maxsize` the NetstringSocket's -/
def readNs (cfg : Cfg) (maxsize : Nat) (st : St) : NsRes × St :=
  match recvUntil cfg [colon] ((digits maxsize).length + 1) false st with
  | (.ok prefix_, st1) =>
    match parseSize prefix_ with
    | none => (.invalidSize, st1)
    | some size =>
      if size > maxsize then (.nsTooLong, st1)
      else match recvSize cfg size st1 with
        | (.ok payload, st2) =>
          match recv cfg 1 st2 with
          | (.ok c, st3) => if c = [comma] then (.ok payload, st3) else (.protocolError, st3)
          | (r, st3) => (NsRes.ofRes r, st3)
        | (r, st2) => (NsRes.ofRes r, st2)
  | (r, st1) => (NsRes.ofRes r, st1)

/-- `read_ns` with the prefix window as a separate parameter (the code keeps it in a cached
    attribute); `readNs` is the instance `window = len(str(maxsize)) + 1` -/
def readNsWith (cfg : Cfg) (maxsize window : Nat) (st : St) : NsRes × St :=
  match recvUntil cfg [colon] window false st with
  | (.ok prefix_, st1) =>
    match parseSize prefix_ with
    | none => (.invalidSize, st1)
    | some size =>
      if size > maxsize then (.nsTooLong, st1)
      else match recvSize cfg size st1 with
        | (.ok payload, st2) =>
          match recv cfg 1 st2 with
          | (.ok c, st3) => if c = [comma] then (.ok payload, st3) else (.protocolError, st3)
          | (r, st3) => (NsRes.ofRes r, st3)
        | (r, st2) => (NsRes.ofRes r, st2)
  | (r, st1) => (NsRes.ofRes r, st1)

/-- `_calc_msgsize_maxsize` -/
def calcWindow (maxsize : Nat) : Nat := (digits maxsize).length + 1

/-- the NetstringSocket attributes that matter: `maxsize` and the cached `_msgsize_maxsize` -/
structure NsSock where
  maxsize : Nat
  window : Nat
deriving Repr, DecidableEq

/-- `NetstringSocket.__init__` (computes the window inline) -/
def NsSock.init (maxsize : Nat) : NsSock := ⟨maxsize, (digits maxsize).length + 1⟩

/-- `NetstringSocket.setmaxsize` -/
def NsSock.setMaxsize (_ns : NsSock) (maxsize : Nat) : NsSock := ⟨maxsize, calcWindow maxsize⟩

/-- `read_ns(maxsize=arg)`: the cached window when the argument is omitted, a fresh one otherwise -/
def NsSock.readNs (cfg : Cfg) (ns : NsSock) (arg : Option Nat) (st : St) : NsRes × St :=
  match arg with
  | none => readNsWith cfg ns.maxsize ns.window st
  | some m => readNsWith cfg m (calcWindow m) st

def NsSock.readNsMany (cfg : Cfg) (ns : NsSock) (arg : Option Nat) : Nat → St → List NsRes × St
  | 0, st => ([], st)
  | k + 1, st =>
    let (r, st') := ns.readNs cfg arg st
    let (rs, st'') := NsSock.readNsMany cfg ns arg k st'
    (r :: rs, st'')

def readNsMany (cfg : Cfg) (maxsize : Nat) : Nat → St → List NsRes × St
  | 0, st => ([], st)
  | k + 1, st =>
    let (r, st') := readNs cfg maxsize st
    let (rs, st'') := readNsMany cfg maxsize k st'
    (r :: rs, st'')

inductive NsWRes where
  | ok | nsTooLong | timeout
deriving Repr, DecidableEq

/-- `NetstringSocket.write_ns(payload)` -/
def writeNs (maxsize : Nat) (payload : Bytes) (st : SSt) : NsWRes × SSt :=
  if payload.length > maxsize then (.nsTooLong, st)
  else match send (encodeNs payload) st with
    | (.timeout, st') => (.timeout, st')
    | (_, st') => (.ok, st')

/-- write_ns for each payload in turn (results dropped; the state is what matters) -/
def writeMany (maxsize : Nat) : List Bytes → SSt → SSt
  | [], st => st
  | p :: ps, st => writeMany maxsize ps (writeNs maxsize p st).2

end C12
