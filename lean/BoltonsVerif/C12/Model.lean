/-
C12 — model of `boltons.socketutils.BufferedSocket` / `NetstringSocket`.

Bytes are natural numbers (`Byte := Nat`; the driver only ever feeds 0..255).

The network is a *script*: a list of events, each either a chunk of bytes that
arrives or a `socket.timeout` raised by the underlying socket.  After the script
is exhausted the peer has closed (recv returns b'' for ever).  `sock.recv(n)`
hands out at most `n` bytes of the head chunk (the rest of the chunk stays at
the head of the script); a real socket never returns b'' before EOF, so empty
chunks are skipped.

Transliterations (method by method, loop by loop) of
  recv, peek, recv_size, recv_until, recv_close            (receive side)
  send / sendall, buffer, flush                            (send side)
  NetstringSocket.read_ns / write_ns
Loops that call `sock.recv` are written with an explicit fuel argument; the
public entry points pass `measure script + 1` (or `+ 2`), which `Proofs.lean` shows is
always enough (the result is never `Res.fuel`).

The wall-clock branch (`cur_timeout <= 0.0`) is not modelled separately: a
timeout is whatever the script says, between any two recvs.
Core Lean only.
-/
namespace C12

abbrev Byte := Nat
abbrev Bytes := List Nat

/-! ## the scripted socket, receive direction -/

inductive Ev where
  | chunk (bs : Bytes)
  | timeout
deriving Repr, DecidableEq

/-- what one `sock.recv(n)` call does -/
inductive RecvOut where
  | data (bs : Bytes) (rest : List Ev)
  | timeout (rest : List Ev)
deriving Repr

def sockRecv (n : Nat) : List Ev → RecvOut
  | [] => .data [] []
  | .timeout :: r => .timeout r
  | .chunk bs :: r =>
    if bs = [] then sockRecv n r
    else if bs.length ≤ n then .data bs r
    else .data (bs.take n) (.chunk (bs.drop n) :: r)

/-- the bytes the network has not delivered yet, in order -/
def pending : List Ev → Bytes
  | [] => []
  | .chunk bs :: r => bs ++ pending r
  | .timeout :: r => pending r

/-- termination measure of a script: every recv that does not hit EOF lowers it -/
def measure : List Ev → Nat
  | [] => 0
  | .chunk bs :: r => bs.length + 1 + measure r
  | .timeout :: r => 1 + measure r

/-- how many `socket.timeout`s the script still holds -/
def nTO : List Ev → Nat
  | [] => 0
  | .chunk _ :: r => nTO r
  | .timeout :: r => nTO r + 1

/-! ## results -/

inductive Res where
  | ok (bs : Bytes)
  | closed            -- ConnectionClosed
  | tooLong           -- MessageTooLong
  | timeout           -- Timeout
  | fuel              -- never produced with the fuel the entry points pass (proved)
deriving Repr, DecidableEq

/-- receive-side state: `self.rbuf` and the rest of the network script -/
structure St where
  rbuf : Bytes
  script : List Ev
deriving Repr

/-- constructor arguments that matter -/
structure Cfg where
  recvsize : Nat
  maxsize : Nat
deriving Repr

/-! ## `bytes.find(sub, start, end)` -/

/-- first index `i` with `d` a prefix of `xs.drop i` (so the match lies inside `xs`) -/
def findIdx (d : Bytes) : Bytes → Option Nat
  | [] => if d.isPrefixOf [] then some 0 else none
  | x :: xs => if d.isPrefixOf (x :: xs) then some 0 else (findIdx d xs).map (· + 1)

/-- Python's `xs.find(d, start, end)` for `end ≥ 0`: negative `start` counts from
    the end and is clamped to 0; `end` is clamped to `len(xs)`; `none` is `-1`. -/
def pyFind (d xs : Bytes) (start : Int) (stop : Nat) : Option Nat :=
  let e := min stop xs.length
  let s := if start < 0 then (start + (xs.length : Int)).toNat else start.toNat
  if s > e then none else (findIdx d ((xs.take e).drop s)).map (· + s)

/-! ## recv -/

def recv (cfg : Cfg) (size : Nat) (st : St) : Res × St :=
  if st.rbuf.length ≥ size then (.ok (st.rbuf.take size), ⟨st.rbuf.drop size, st.script⟩)
  else if st.rbuf ≠ [] then (.ok st.rbuf, ⟨[], st.script⟩)
  else match sockRecv cfg.recvsize st.script with
    | .timeout r => (.timeout, ⟨st.rbuf, r⟩)
    | .data d r =>
      if d.length > size then (.ok (d.take size), ⟨d.drop size, r⟩)
      else (.ok d, ⟨st.rbuf, r⟩)

/-! ## recv_size -/

/-- the `while nxt:` loop of `recv_size`.  `acc` is `b''.join(chunks)`, `total` is
    `total_bytes` *before* the `+= len(nxt)` of this iteration. -/
def recvSizeLoop (recvsize size : Nat) : Nat → Bytes → Nat → Bytes → List Ev → Res × St
  | 0, acc, _, _, script => (.fuel, ⟨acc, script⟩)
  | fuel + 1, acc, total, nxt, script =>
    if nxt = [] then (.closed, ⟨acc, script⟩)            -- while/else: ConnectionClosed; rbuf = join(chunks)
    else
      let total' := total + nxt.length
      if total' ≥ size then
        let extra := total' - size
        if extra ≠ 0 then
          (.ok (acc ++ nxt.take (nxt.length - extra)), ⟨nxt.drop (nxt.length - extra), script⟩)
        else (.ok (acc ++ nxt), ⟨[], script⟩)
      else match sockRecv recvsize script with
        | .timeout r => (.timeout, ⟨acc ++ nxt, r⟩)      -- rbuf = join(chunks)
        | .data d r => recvSizeLoop recvsize size fuel (acc ++ nxt) total' d r

def recvSize (cfg : Cfg) (size : Nat) (st : St) : Res × St :=
  if st.rbuf ≠ [] then
    recvSizeLoop cfg.recvsize size (measure st.script + 2) [] 0 st.rbuf st.script
  else match sockRecv cfg.recvsize st.script with     -- nxt = self.rbuf or self.sock.recv(...)
    | .timeout r => (.timeout, ⟨[], r⟩)
    | .data d r => recvSizeLoop cfg.recvsize size (measure r + 2) [] 0 d r

/-! ## peek -/

def peek (cfg : Cfg) (size : Nat) (st : St) : Res × St :=
  if st.rbuf.length ≥ size then (.ok (st.rbuf.take size), st)
  else match recvSize cfg size st with
    | (.ok data, st') => (.ok data, ⟨data ++ st'.rbuf, st'.script⟩)
    | other => other

/-! ## recv_close -/

def recvClose (cfg : Cfg) (maxsize : Nat) (st : St) : Res × St :=
  match recvSize cfg (maxsize + 1) st with
  | (.closed, st') => (.ok st'.rbuf, ⟨[], st'.script⟩)
  | (.ok recvd, st') => (.tooLong, ⟨recvd ++ st'.rbuf, st'.script⟩)
  | other => other

/-! ## recv_until -/

/-- the `while 1:` loop of `recv_until`; `fstart` is `find_offset_start` -/
def recvUntilLoop (recvsize : Nat) (d : Bytes) (maxsize : Nat) (withDelim : Bool) :
    Nat → Bytes → Int → List Ev → Res × St
  | 0, recvd, _, script => (.fuel, ⟨recvd, script⟩)
  | fuel + 1, recvd, fstart, script =>
    match pyFind d recvd fstart maxsize with
    | some offset =>
      if withDelim then
        (.ok (recvd.take (offset + d.length)), ⟨recvd.drop (offset + d.length), script⟩)
      else
        (.ok (recvd.take offset), ⟨recvd.drop (offset + d.length), script⟩)
    | none =>
      if recvd.length > maxsize then (.tooLong, ⟨recvd, script⟩)
      else match sockRecv recvsize script with
        | .timeout r => (.timeout, ⟨recvd, r⟩)
        | .data nxt r =>
          if nxt = [] then (.closed, ⟨recvd, r⟩)
          else recvUntilLoop recvsize d maxsize withDelim fuel (recvd ++ nxt)
                 (-(nxt.length : Int) - (d.length : Int) + 1) r

def recvUntil (cfg : Cfg) (d : Bytes) (maxsize : Nat) (withDelim : Bool) (st : St) : Res × St :=
  recvUntilLoop cfg.recvsize d maxsize withDelim (measure st.script + 1) st.rbuf 0 st.script

/-! ## receive-side operations as data -/

inductive Op where
  | recv (size : Nat)
  | peek (size : Nat)
  | recvSize (size : Nat)
  | recvUntil (d : Bytes) (maxsize : Nat) (withDelim : Bool)
  | recvClose (maxsize : Nat)
deriving Repr, DecidableEq

/-- one call (one attempt) -/
def attempt (cfg : Cfg) (op : Op) (st : St) : Res × St :=
  match op with
  | .recv n => recv cfg n st
  | .peek n => peek cfg n st
  | .recvSize n => recvSize cfg n st
  | .recvUntil d m w => recvUntil cfg d m w st
  | .recvClose m => recvClose cfg m st

/-- the caller's `while True: try: call() … except Timeout: continue` -/
def retryLoop (cfg : Cfg) (op : Op) : Nat → St → Res × St
  | 0, st => (.fuel, st)
  | fuel + 1, st =>
    match attempt cfg op st with
    | (.timeout, st') => retryLoop cfg op fuel st'
    | other => other

def callRetry (cfg : Cfg) (op : Op) (st : St) : Res × St :=
  retryLoop cfg op (measure st.script + 1) st

/-- a sequence of calls, each retried after Timeout; the list of results -/
def runRetry (cfg : Cfg) : List Op → St → List Res × St
  | [], st => ([], st)
  | op :: ops, st =>
    let (r, st') := callRetry cfg op st
    let (rs, st'') := runRetry cfg ops st'
    (r :: rs, st'')

/-- a sequence of single attempts (no retry): what the caller saw after each -/
def runAttempts (cfg : Cfg) : List Op → St → List (Res × St) × St
  | [], st => ([], st)
  | op :: ops, st =>
    let (r, st') := attempt cfg op st
    let (rs, st'') := runAttempts cfg ops st'
    ((r, st') :: rs, st'')

/-! ## whole-stream specification (what the calls mean when everything has arrived) -/

/-- `S` = every byte not yet handed to the caller.  Result and what remains. -/
def specSize (n : Nat) (S : Bytes) : Res × Bytes :=
  if n ≤ S.length ∧ S ≠ [] then (.ok (S.take n), S.drop n) else (.closed, S)

def specPeek (n : Nat) (S : Bytes) : Res × Bytes :=
  if n ≤ S.length then (.ok (S.take n), S) else (.closed, S)

def specClose (maxsize : Nat) (S : Bytes) : Res × Bytes :=
  if S.length ≤ maxsize then (.ok S, []) else (.tooLong, S)

def specUntil (d : Bytes) (maxsize : Nat) (withDelim : Bool) (S : Bytes) : Res × Bytes :=
  match findIdx d (S.take maxsize) with
  | some o => (.ok (S.take (if withDelim then o + d.length else o)), S.drop (o + d.length))
  | none => if S.length > maxsize then (.tooLong, S) else (.closed, S)

/-- deterministic operations only (`recv` is specified by `recv_prefix` instead) -/
def spec : Op → Bytes → Res × Bytes
  | .recv _, S => (.fuel, S)
  | .peek n, S => specPeek n S
  | .recvSize n, S => specSize n S
  | .recvUntil d m w, S => specUntil d m w S
  | .recvClose m, S => specClose m S

def Op.deterministic : Op → Bool
  | .recv _ => false
  | _ => true

def specRun : List Op → Bytes → List Res × Bytes
  | [], S => ([], S)
  | op :: ops, S =>
    let (r, S') := spec op S
    let (rs, S'') := specRun ops S'
    (r :: rs, S'')

/-- bytes a call removed from the stream: what it returned, plus the delimiter
    that `recv_until(with_delimiter=False)` drops by design; `peek` removes nothing -/
def consumed : Op → Res → Bytes
  | .recv _, .ok bs => bs
  | .recvSize _, .ok bs => bs
  | .recvClose _, .ok bs => bs
  | .recvUntil d _ w, .ok bs => if w then bs else bs ++ d
  | _, _ => []

/-- the bytes handed to the caller by a history of attempts (`runAttempts`) -/
def handedOver : List Op → List (Res × St) → Bytes
  | op :: ops, (r, _) :: recs => consumed op r ++ handedOver ops recs
  | _, _ => []

/-- the stream as seen from a state: buffered bytes, then undelivered bytes -/
def St.view (st : St) : Bytes := st.rbuf ++ pending st.script

/-! ## send side -/

inductive SEv where
  | accept (k : Nat)       -- sock.send takes at most k bytes
  | timeout                -- sock.send raises socket.timeout
deriving Repr, DecidableEq

structure SSt where
  sbuf : List Bytes        -- self.sbuf (a list of byte strings)
  wire : Bytes             -- everything the underlying socket accepted so far
  script : List SEv        -- exhausted script = the socket accepts everything
deriving Repr

inductive SRes where
  | sent (n : Nat)         -- return value of send / sendall
  | none                   -- buffer / flush return None
  | timeout
deriving Repr, DecidableEq

/-- the `while sbuf[0]:` loop; `buf` is `sbuf[0]` -/
def sendLoop : List SEv → Bytes → Nat → Bytes → SRes × SSt
  | script, [], total, wire => (.sent total, ⟨[[]], wire, script⟩)
  | [], b :: buf, total, wire => (.sent (total + (b :: buf).length), ⟨[[]], wire ++ (b :: buf), []⟩)
  | .timeout :: r, b :: buf, _, wire => (.timeout, ⟨[b :: buf], wire, r⟩)
  | .accept k :: r, b :: buf, total, wire =>
    sendLoop r ((b :: buf).drop k) (total + min k (b :: buf).length) (wire ++ (b :: buf).take k)

/-- the `if s` of `[s for s in sbuf if s]` -/
def isNonEmpty : Bytes → Bool
  | [] => false
  | _ :: _ => true

def send (data : Bytes) (st : SSt) : SRes × SSt :=
  let sbuf := st.sbuf ++ [data]
  let sbuf := if sbuf.length > 1 then [(sbuf.filter isNonEmpty).flatten] else sbuf
  match sbuf with
  | b :: rest =>
    -- the loop only ever looks at sbuf[0]; `rest` is [] here (proved), kept for fidelity
    match sendLoop st.script b 0 st.wire with
    | (r, st') => (r, ⟨st'.sbuf ++ rest, st'.wire, st'.script⟩)
  | [] => (.sent 0, st)

def buffer (data : Bytes) (st : SSt) : SRes × SSt := (.none, { st with sbuf := st.sbuf ++ [data] })

def flush (st : SSt) : SRes × SSt :=
  match send [] st with
  | (.sent _, st') => (.none, st')
  | other => other

/-- `k` consecutive flush() calls (the caller's reaction to a Timeout from send) -/
def flushN : Nat → SSt → SSt
  | 0, st => st
  | k + 1, st => flushN k (flush st).2

inductive SOp where
  | send (data : Bytes)      -- also sendall
  | buffer (data : Bytes)
  | flush
deriving Repr, DecidableEq

def sstep (op : SOp) (st : SSt) : SRes × SSt :=
  match op with
  | .send d => send d st
  | .buffer d => buffer d st
  | .flush => flush st

def srun : List SOp → SSt → List (SRes × SSt) × SSt
  | [], st => ([], st)
  | op :: ops, st =>
    let (r, st') := sstep op st
    let (rs, st'') := srun ops st'
    ((r, st') :: rs, st'')

def SSt.getsendbuffer (st : SSt) : Bytes := st.sbuf.flatten

/-- the bytes an operation hands to the BufferedSocket -/
def SOp.data : SOp → Bytes
  | .send d => d
  | .buffer d => d
  | .flush => []

/-! ## netstrings -/

/-- decimal digits of `n`, most significant first, as ASCII bytes (`str(n).encode('ascii')`) -/
def digitsAux : Nat → Nat → Bytes → Bytes
  | 0, n, acc => (48 + n % 10) :: acc
  | fuel + 1, n, acc => if n < 10 then (48 + n) :: acc else digitsAux fuel (n / 10) ((48 + n % 10) :: acc)

def digits (n : Nat) : Bytes := digitsAux n n []

def isDigit (b : Nat) : Bool := 48 ≤ b && b ≤ 57

/-- `int(prefix)` restricted to the inputs the model covers: a non-empty run of ASCII digits
    is its decimal value, anything else is a ValueError (`none`).  (Python also accepts
    surrounding whitespace, a sign and `_` separators; streams containing those bytes are outside
    the model and the harness does not send them to the driver.) -/
def parseNat (bs : Bytes) : Option Nat :=
  if bs ≠ [] ∧ bs.all isDigit then some (bs.foldl (fun acc b => acc * 10 + (b - 48)) 0) else none

def colon : Nat := 58
def comma : Nat := 44

/-- `write_ns` payload framing -/
def encodeNs (payload : Bytes) : Bytes := digits payload.length ++ [colon] ++ payload ++ [comma]

inductive NsRes where
  | ok (payload : Bytes)
  | closed | tooLong | timeout | fuel      -- from the BufferedSocket calls
  | invalidSize                            -- NetstringInvalidSize
  | nsTooLong                              -- NetstringMessageTooLong
  | protocolError                          -- NetstringProtocolError (missing ',')
deriving Repr, DecidableEq

def NsRes.ofRes : Res → NsRes
  | .ok bs => .ok bs
  | .closed => .closed
  | .tooLong => .tooLong
  | .timeout => .timeout
  | .fuel => .fuel

/-- `NetstringSocket.read_ns()`; `cfg` is the inner BufferedSocket's configuration
    (constructed with defaults), `maxsize` the NetstringSocket's -/
def readNs (cfg : Cfg) (maxsize : Nat) (st : St) : NsRes × St :=
  match recvUntil cfg [colon] ((digits maxsize).length + 1) false st with
  | (.ok prefix_, st1) =>
    match parseNat prefix_ with
    | none => (.invalidSize, st1)
    | some size =>
      if size > maxsize then (.nsTooLong, st1)
      else match recvSize cfg size st1 with
        | (.ok payload, st2) =>
          match recv cfg 1 st2 with
          | (.ok c, st3) => if c = [comma] then (.ok payload, st3) else (.protocolError, st3)
          | (r, st3) => (NsRes.ofRes r, st3)
        | (r, st2) => (NsRes.ofRes r, st2)
  | (r, st1) => (NsRes.ofRes r, st1)

def readNsMany (cfg : Cfg) (maxsize : Nat) : Nat → St → List NsRes × St
  | 0, st => ([], st)
  | k + 1, st =>
    let (r, st') := readNs cfg maxsize st
    let (rs, st'') := readNsMany cfg maxsize k st'
    (r :: rs, st'')

inductive NsWRes where
  | ok | nsTooLong | timeout
deriving Repr, DecidableEq

/-- `NetstringSocket.write_ns(payload)` -/
def writeNs (maxsize : Nat) (payload : Bytes) (st : SSt) : NsWRes × SSt :=
  if payload.length > maxsize then (.nsTooLong, st)
  else match send (encodeNs payload) st with
    | (.timeout, st') => (.timeout, st')
    | (_, st') => (.ok, st')

/-- write_ns for each payload in turn (results dropped; the state is what matters) -/
def writeMany (maxsize : Nat) : List Bytes → SSt → SSt
  | [], st => st
  | p :: ps, st => writeMany maxsize ps (writeNs maxsize p st).2

end C12
