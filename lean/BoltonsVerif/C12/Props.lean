import BoltonsVerif.C12.Proofs
import BoltonsVerif.Generated.C12_Consts
namespace C12
theorem default_recvsize_pos : 0 < Gen.DEFAULT_MAXSIZE := by decide
end C12
