import BoltonsVerif.C12.Proofs
import BoltonsVerif.C12.Proofs3
import BoltonsVerif.C12.Proofs4
import BoltonsVerif.Generated.C12_Consts
import BoltonsVerif.Generated.C12_NsWindow
/-
C12 — property theorems for the BufferedSocket / NetstringSocket model (statements, short
derivations from `Proofs.lean`, non-vacuity examples).

Vocabulary
  script          what the network will do: chunks and socket.timeouts, then EOF
  pending script  the bytes not yet delivered, in order
  st.view         `rbuf ++ pending script`: every byte not yet handed to the caller
  attempt         one call; `callRetry` / `runRetry` = the caller retrying after Timeout
  spec op S       the answer of `op` when the whole remaining stream `S` is already there
  consumed op r   the bytes a call removed from the stream (what it returned, plus the delimiter
                  `recv_until(with_delimiter=False)` drops; `peek` removes nothing)
Hypothesis `0 < cfg.recvsize` everywhere: `recvsize = 0` makes `sock.recv(0)` return b'' and is
not a usable configuration.
-/
namespace C12

/-- a fresh BufferedSocket over a network that will play `script` -/
abbrev start (script : List Ev) : St := ⟨[], script⟩

/-! ## 1. framing does not depend on chunking, recvsize or timeout placement -/

/-- recv_until, retried after Timeout, gives the whole-stream answer and leaves the whole-stream rest -/
theorem recv_until_chunk_independent (cfg : Cfg) (hrs : 0 < cfg.recvsize) (d : Bytes) (maxsize : Nat)
    (withDelim : Bool) (st : St) :
    ((callRetry cfg (.recvUntil d maxsize withDelim) st).1,
     (callRetry cfg (.recvUntil d maxsize withDelim) st).2.view) = specUntil d maxsize withDelim st.view :=
  callRetry_ok cfg hrs _ rfl st

theorem recv_size_chunk_independent (cfg : Cfg) (hrs : 0 < cfg.recvsize) (n : Nat) (st : St) :
    ((callRetry cfg (.recvSize n) st).1, (callRetry cfg (.recvSize n) st).2.view) = specSize n st.view :=
  callRetry_ok cfg hrs _ rfl st

theorem peek_chunk_independent (cfg : Cfg) (hrs : 0 < cfg.recvsize) (n : Nat) (st : St) :
    ((callRetry cfg (.peek n) st).1, (callRetry cfg (.peek n) st).2.view) = specPeek n st.view :=
  callRetry_ok cfg hrs _ rfl st

theorem recv_close_chunk_independent (cfg : Cfg) (hrs : 0 < cfg.recvsize) (maxsize : Nat) (st : St) :
    ((callRetry cfg (.recvClose maxsize) st).1, (callRetry cfg (.recvClose maxsize) st).2.view)
      = specClose maxsize st.view :=
  callRetry_ok cfg hrs _ rfl st

/-- a whole session of recv_until / recv_size / peek / recv_close calls returns the values and raises
    the ConnectionClosed / MessageTooLong of the whole-stream specification, and ends with the same
    bytes still owed to the caller -/
theorem session_eq_spec (cfg : Cfg) (hrs : 0 < cfg.recvsize) (ops : List Op)
    (hdet : ∀ op ∈ ops, op.deterministic = true) (st : St) :
    ((runRetry cfg ops st).1, (runRetry cfg ops st).2.view) = specRun ops st.view :=
  runRetry_ok cfg hrs ops st hdet

/-- every single attempt (no retry) either raises Timeout and leaves the stream untouched, or answers
    exactly as the whole-stream specification on what is still owed -/
theorem attempt_timeout_or_spec (cfg : Cfg) (hrs : 0 < cfg.recvsize) (op : Op)
    (hdet : op.deterministic = true) (st : St) :
    ((attempt cfg op st).1 = .timeout ∧ (attempt cfg op st).2.view = st.view) ∨
    ((attempt cfg op st).1 ≠ .timeout ∧
      ((attempt cfg op st).1, (attempt cfg op st).2.view) = spec op st.view) := by
  rcases attempt_ok cfg hrs op hdet st with ⟨a, b, _⟩ | ⟨a, b, _, _⟩
  · exact Or.inl ⟨a, b⟩
  · exact Or.inr ⟨a, b⟩

/-- the statement's quantifier: any two networks that deliver the same bytes — however split into
    chunks, wherever the timeouts fall, whatever the two recvsize settings — yield the same results -/
theorem chunk_independent (cfg₁ cfg₂ : Cfg) (h₁ : 0 < cfg₁.recvsize) (h₂ : 0 < cfg₂.recvsize)
    (ops : List Op) (hdet : ∀ op ∈ ops, op.deterministic = true) (s₁ s₂ : List Ev)
    (hs : pending s₁ = pending s₂) :
    (runRetry cfg₁ ops (start s₁)).1 = (runRetry cfg₂ ops (start s₂)).1 ∧
    (runRetry cfg₁ ops (start s₁)).2.view = (runRetry cfg₂ ops (start s₂)).2.view := by
  have e₁ := session_eq_spec cfg₁ h₁ ops hdet (start s₁)
  have e₂ := session_eq_spec cfg₂ h₂ ops hdet (start s₂)
  have hv : (start s₁).view = (start s₂).view := by simp [St.view, hs]
  rw [hv] at e₁
  have := e₁.trans e₂.symm
  simp only [Prod.mk.injEq] at this
  exact this

/-- … in particular the same as when the whole stream arrives at once, in a single recv -/
theorem same_as_whole_stream_at_once (cfg : Cfg) (hrs : 0 < cfg.recvsize) (ops : List Op)
    (hdet : ∀ op ∈ ops, op.deterministic = true) (script : List Ev) :
    (runRetry cfg ops (start script)).1 =
      (runRetry ⟨(pending script).length + 1, cfg.maxsize⟩ ops (start [.chunk (pending script)])).1 :=
  (chunk_independent cfg ⟨(pending script).length + 1, cfg.maxsize⟩ hrs (Nat.succ_pos _) ops hdet script
    [.chunk (pending script)] (by simp [pending])).1

/-- the retry loop always ends with a value or ConnectionClosed / MessageTooLong: never still in
    Timeout, never out of fuel -/
theorem retry_terminates (cfg : Cfg) (hrs : 0 < cfg.recvsize) (op : Op) (hdet : op.deterministic = true)
    (st : St) : (callRetry cfg op st).1 ≠ .timeout ∧ (callRetry cfg op st).1 ≠ .fuel := by
  have h := callRetry_ok cfg hrs op hdet st
  have h1 : (callRetry cfg op st).1 = (spec op st.view).1 := congrArg Prod.fst h
  rw [h1]
  exact ⟨spec_ne_timeout op hdet _, spec_ne_fuel op hdet _⟩

/-- model adequacy: the fuel the entry points pass is always enough — no single call ever ends in
    the artificial `Res.fuel` outcome -/
theorem attempt_never_out_of_fuel (cfg : Cfg) (hrs : 0 < cfg.recvsize) (op : Op) (st : St) :
    (attempt cfg op st).1 ≠ .fuel := by
  by_cases hdet : op.deterministic = true
  · rcases attempt_ok cfg hrs op hdet st with ⟨a, _, _⟩ | ⟨_, b, _, _⟩
    · rw [a]; simp
    · have h1 : (attempt cfg op st).1 = (spec op st.view).1 := congrArg Prod.fst b
      rw [h1]
      exact spec_ne_fuel op hdet _
  · cases op with
    | recv n =>
      rcases recv_ok cfg hrs n st with ⟨a, _, _⟩ | ⟨v, a, _⟩
      · simp only [attempt]; rw [a]; simp
      · simp only [attempt]; rw [a]; simp
    | _ => simp [Op.deterministic] at hdet

/-! what the whole-stream specification of recv_until says (so that "equal to the spec" means
    something): the value ends at the first occurrence of the delimiter that lies inside the first
    `maxsize` bytes; MessageTooLong / ConnectionClosed only when there is no such occurrence -/

theorem spec_until_first_occurrence (d S : Bytes) (maxsize o : Nat)
    (h : findIdx d (S.take maxsize) = some o) :
    (S.drop o).take d.length = d ∧ o + d.length ≤ maxsize ∧
    ∀ i, i < o → ¬ (i + d.length ≤ maxsize ∧ (S.drop i).take d.length = d) := by
  obtain ⟨h1, h2, h3⟩ := findIdx_take_occurrence h
  refine ⟨h1, h2, ?_⟩
  intro i hi ⟨hb, hm⟩
  apply findIdx_min h i hi
  rw [List.isPrefixOf_iff_prefix, List.prefix_iff_eq_take, List.take_drop, List.take_take]
  have : min (i + d.length) maxsize = i + d.length := by omega
  rw [this, ← List.take_drop]
  exact hm.symm

theorem spec_until_no_occurrence (d S : Bytes) (maxsize : Nat)
    (h : findIdx d (S.take maxsize) = none) :
    ∀ i, ¬ (i + d.length ≤ maxsize ∧ i + d.length ≤ S.length ∧ (S.drop i).take d.length = d) := by
  intro i ⟨hb, hl, hm⟩
  apply findIdx_none h i
  rw [List.isPrefixOf_iff_prefix, List.prefix_iff_eq_take, List.take_drop, List.take_take]
  have : min (i + d.length) maxsize = i + d.length := by omega
  rw [this, ← List.take_drop]
  exact hm.symm

/-! ## 2. no byte lost or duplicated, also after an exception -/

/-- one call, whatever it returns or raises (Timeout, ConnectionClosed, MessageTooLong included):
    handed over ++ still buffered ++ not yet delivered = the same, before the call -/
theorem conservation_attempt (cfg : Cfg) (hrs : 0 < cfg.recvsize) (op : Op) (st : St) :
    consumed op (attempt cfg op st).1 ++ (attempt cfg op st).2.rbuf ++ pending (attempt cfg op st).2.script
      = st.rbuf ++ pending st.script := by
  have := attempt_conserves cfg hrs op st
  simpa [St.view, List.append_assoc] using this

/-- any history of calls (retried or not, in any order) from a fresh socket, at every moment:
    bytes handed to the caller ++ rbuf ++ undelivered = the original stream, in order -/
theorem conservation (cfg : Cfg) (hrs : 0 < cfg.recvsize) (ops : List Op) (script : List Ev) :
    handedOver ops (runAttempts cfg ops (start script)).1
      ++ (runAttempts cfg ops (start script)).2.rbuf
      ++ pending (runAttempts cfg ops (start script)).2.script = pending script := by
  have := runAttempts_conserves cfg hrs ops (start script)
  simpa [St.view, List.append_assoc] using this

/-- a call that raises (anything but a normal return) leaves every byte where the next call finds it -/
theorem exception_keeps_stream (cfg : Cfg) (hrs : 0 < cfg.recvsize) (op : Op) (st : St)
    (h : ∀ bs, (attempt cfg op st).1 ≠ .ok bs) : (attempt cfg op st).2.view = st.view := by
  have := attempt_conserves cfg hrs op st
  cases hr : (attempt cfg op st).1 with
  | ok bs => exact absurd hr (h bs)
  | closed => rw [hr] at this; cases op <;> simpa [consumed] using this
  | tooLong => rw [hr] at this; cases op <;> simpa [consumed] using this
  | timeout => rw [hr] at this; cases op <;> simpa [consumed] using this
  | fuel => rw [hr] at this; cases op <;> simpa [consumed] using this

/-- a call raises Timeout only if the socket raised one during that call -/
theorem timeout_only_from_socket (cfg : Cfg) (op : Op) (st : St) :
    nTO (attempt cfg op st).2.script ≤ nTO st.script ∧
    ((attempt cfg op st).1 = .timeout → nTO (attempt cfg op st).2.script < nTO st.script) :=
  attempt_nTO cfg op st

/-! ## 3. recv -/

/-- recv(size) either raises Timeout (nothing moves) or returns a prefix of the remaining stream,
    no longer than requested, non-empty unless the stream has ended -/
theorem recv_prefix (cfg : Cfg) (hrs : 0 < cfg.recvsize) (size : Nat) (st : St) :
    ((recv cfg size st).1 = .timeout ∧ (recv cfg size st).2.view = st.view) ∨
    (∃ v, (recv cfg size st).1 = .ok v ∧ v ++ (recv cfg size st).2.view = st.view ∧
        v.length ≤ size ∧ (0 < size → v = [] → st.view = [])) := by
  rcases recv_ok cfg hrs size st with ⟨a, b, _⟩ | ⟨v, a, b, c, d, _⟩
  · exact Or.inl ⟨a, b⟩
  · exact Or.inr ⟨v, a, b, c, d⟩

/-! ## 4. send / sendall / buffer / flush -/

/-- a fresh BufferedSocket whose underlying socket will play the send script -/
abbrev sstart (script : List SEv) : SSt := ⟨[], [], script⟩

/-- after any history of send / sendall / buffer / flush calls under arbitrary partial sends and
    timeouts: bytes on the wire ++ send buffer = everything the caller handed over, in order -/
theorem send_conservation (ops : List SOp) (script : List SEv) :
    (srun ops (sstart script)).2.wire ++ (srun ops (sstart script)).2.getsendbuffer
      = (ops.map SOp.data).flatten := by
  have := (srun_conserves ops (sstart script)).1
  simpa [SSt.getsendbuffer] using this

/-- what is on the wire is never taken back or reordered -/
theorem wire_only_grows (ops : List SOp) (st : SSt) : st.wire <+: (srun ops st).2.wire :=
  (srun_conserves ops st).2

/-- send() returning means everything (old buffer and the new data) is on the wire, once, in order,
    and the return value counts exactly those bytes -/
theorem send_return (data : Bytes) (st : SSt) (n : Nat) (h : (send data st).1 = .sent n) :
    (send data st).2.getsendbuffer = [] ∧
    (send data st).2.wire = st.wire ++ st.getsendbuffer ++ data ∧
    n = st.getsendbuffer.length + data.length := by
  obtain ⟨h1, _, _, h4, _, _⟩ := send_ok data st
  obtain ⟨a, b⟩ := h4 n h
  rw [a, List.append_nil] at h1
  refine ⟨a, h1, ?_⟩
  have := congrArg List.length h1
  simp only [List.length_append] at this
  omega

/-- a Timeout from send() keeps the unsent bytes, in order, for flush() -/
theorem send_timeout_keeps (data : Bytes) (st : SSt) :
    (send data st).2.wire ++ (send data st).2.getsendbuffer = st.wire ++ st.getsendbuffer ++ data :=
  (send_ok data st).1

/-- flush() returning means the send buffer is empty -/
theorem flush_success_empties (st : SSt) (h : (flush st).1 = .none) : (flush st).2.getsendbuffer = [] :=
  (flush_ok st).2.2.1 h

/-- however the socket misbehaves, `len(script) + 1` flush() calls get everything out: the wire then
    holds exactly what was on it plus what was buffered -/
theorem flush_until_done (st : SSt) :
    (flushN (st.script.length + 1) st).getsendbuffer = [] ∧
    (flushN (st.script.length + 1) st).wire = st.wire ++ st.getsendbuffer := by
  have h := flushN_done (st.script.length + 1) st (Nat.lt_succ_self _)
  have c := flushN_conserves (st.script.length + 1) st
  rw [h, List.append_nil] at c
  exact ⟨h, c⟩

/-! ## 5. netstrings -/

/-- side condition regenerated from the source: NetstringSocket's inner BufferedSocket is built with
    defaults, so its recvsize is DEFAULT_MAXSIZE, which must be positive -/
theorem default_recvsize_pos : 0 < Gen.DEFAULT_MAXSIZE := by decide

/-- `int(str(n).encode())` is `n`: the size prefix written by write_ns is read back as the size -/
theorem size_prefix_roundtrip (n : Nat) : parseNat (digits n) = some n := parseNat_digits n

/-- write_ns puts exactly the frame `<len>:<payload>,` behind what was already accepted
    (or nothing, raising NetstringMessageTooLong, when the payload exceeds maxsize) -/
theorem write_ns_frames (maxsize : Nat) (p : Bytes) (st : SSt) :
    (writeNs maxsize p st).2.wire ++ (writeNs maxsize p st).2.getsendbuffer
      = st.wire ++ st.getsendbuffer ++ (if p.length ≤ maxsize then encodeNs p else []) ∧
    ((writeNs maxsize p st).1 = .nsTooLong ↔ maxsize < p.length) :=
  ⟨(writeNs_conserves maxsize p st).1, (writeNs_conserves maxsize p st).2.2⟩

/-- read_ns over any chunking of a stream that starts with the frames of `ps` returns exactly `ps`
    (any payload bytes, `:` `,` and digits included), leaving what follows the frames -/
theorem netstring_roundtrip (cfg : Cfg) (hrs : 0 < cfg.recvsize) (maxsize : Nat) (ps : List Bytes)
    (rest : Bytes) (script : List Ev) (hto : nTO script = 0)
    (hs : pending script = (ps.map encodeNs).flatten ++ rest) (hall : ∀ p ∈ ps, p.length ≤ maxsize) :
    (readNsMany cfg maxsize ps.length (start script)).1 = ps.map NsRes.ok ∧
    (readNsMany cfg maxsize ps.length (start script)).2.view = rest :=
  readNsMany_frames cfg hrs maxsize ps rest (start script) hto (by simpa [St.view] using hs) hall

/-- the same for the configuration NetstringSocket really uses -/
theorem netstring_roundtrip_default (maxsize : Nat) (ps : List Bytes) (script : List Ev)
    (hto : nTO script = 0) (hs : pending script = (ps.map encodeNs).flatten)
    (hall : ∀ p ∈ ps, p.length ≤ maxsize) :
    (readNsMany ⟨Gen.DEFAULT_MAXSIZE, Gen.DEFAULT_MAXSIZE⟩ maxsize ps.length (start script)).1
      = ps.map NsRes.ok :=
  (netstring_roundtrip ⟨Gen.DEFAULT_MAXSIZE, Gen.DEFAULT_MAXSIZE⟩ default_recvsize_pos maxsize ps []
    script hto (by simpa using hs) hall).1

/-- end to end: payloads written with write_ns over a socket that takes partial sends and raises
    timeouts (the caller flushing until done), carried by a network that re-chunks the wire
    arbitrarily, come out of read_ns exactly as written -/
theorem netstring_end_to_end (cfg : Cfg) (hrs : 0 < cfg.recvsize) (maxsize : Nat) (ps : List Bytes)
    (sscript : List SEv) (rscript : List Ev) (hall : ∀ p ∈ ps, p.length ≤ maxsize)
    (hto : nTO rscript = 0)
    (hwire : pending rscript
      = (flushN (sscript.length + 1) (writeMany maxsize ps (sstart sscript))).wire) :
    (readNsMany cfg maxsize ps.length (start rscript)).1 = ps.map NsRes.ok := by
  obtain ⟨h1, h2⟩ := writeMany_conserves maxsize ps (sstart sscript) hall
  have h2 : (writeMany maxsize ps (sstart sscript)).script.length ≤ sscript.length := h2
  have hd := flushN_done (sscript.length + 1) (writeMany maxsize ps (sstart sscript)) (by omega)
  have hc := flushN_conserves (sscript.length + 1) (writeMany maxsize ps (sstart sscript))
  rw [hd, List.append_nil, h1] at hc
  have hw : pending rscript = (ps.map encodeNs).flatten ++ [] := by
    rw [hwire, hc]; simp [SSt.getsendbuffer]
  exact (netstring_roundtrip cfg hrs maxsize ps [] rscript hto hw hall).1

/-! ## non-vacuity -/

-- "ab\r\ncd\r\n" delivered as  "ab\r" | timeout | "\ncd" | "\r" | timeout | "\n"  with recvsize 2:
-- the delimiter straddles chunk edges twice and a timeout falls inside it
def exScript : List Ev :=
  [.chunk [97, 98, 13], .timeout, .chunk [10, 99, 100], .chunk [13], .timeout, .chunk [10]]

example : pending exScript = [97, 98, 13, 10, 99, 100, 13, 10] := by decide
example : nTO exScript = 2 := by decide
example : (runRetry ⟨2, 100⟩ [.recvUntil [13, 10] 100 false, .peek 1, .recvUntil [13, 10] 100 true,
            .recvClose 5] (start exScript)).1
    = [.ok [97, 98], .ok [99], .ok [99, 100, 13, 10], .ok []] := by decide
-- a single attempt does time out with partial data kept
example : (attempt ⟨2, 100⟩ (.recvUntil [13, 10] 100 false) (start exScript)).1 = .timeout ∧
    (attempt ⟨2, 100⟩ (.recvUntil [13, 10] 100 false) (start exScript)).2.rbuf = [97, 98, 13] := by decide
-- MessageTooLong and ConnectionClosed are reachable results of the specification
example : (specUntil [13, 10] 3 false [97, 98, 13, 10]).1 = .tooLong := by decide
example : (specUntil [13, 10] 9 false [97, 98, 13]).1 = .closed := by decide
example : (specUntil [13, 10] 4 false [97, 98, 13, 10, 99]) = (.ok [97, 98], [99]) := by decide
-- partial sends and a timeout
example : ((srun [.send [1, 2, 3], .buffer [4], .flush] (sstart [.accept 2, .timeout, .accept 1])).1.map
    (·.1)) = [.timeout, .none, .none] := by decide
example : (srun [.send [1, 2, 3], .buffer [4], .flush] (sstart [.accept 2, .timeout, .accept 1])).2.wire
    = [1, 2, 3, 4] := by decide
-- a netstring whose payload contains ':' ',' and digits, read one byte at a time
example : encodeNs [58, 44, 49] = [51, 58, 58, 44, 49, 44] := by decide
example : (readNsMany ⟨4, 4⟩ 10 2 (start ((encodeNs [58, 44, 49] ++ encodeNs []).map (fun b => Ev.chunk [b])))).1
    = [.ok [58, 44, 49], .ok []] := by decide

example : (flushN 3 (writeMany 10 [[58, 44, 49], []] (sstart [.accept 2, .timeout]))).wire
    = [51, 58, 58, 44, 49, 44, 48, 58, 44] := by decide


/-! ## 6. round 2: the arguments around the calls, the wall clock on the send side, read_ns under faults -/

/-- a session written with the public calls - maxsize omitted (`self.maxsize`, which `setmaxsize`
    changes), `None` (`_RECV_LARGE_MAXSIZE`) or explicit - returns the whole-stream answers of the
    resolved operations, for every chunking, recvsize and timeout placement -/
theorem calls_session_eq_spec (large : Nat) (cfg : Cfg) (hrs : 0 < cfg.recvsize) (calls : List Call)
    (hdet : ∀ c ∈ calls, c.deterministic = true) (st : St) :
    ((runCalls large cfg calls st).1, (runCalls large cfg calls st).2.view)
      = specRun (resolveCalls large cfg.maxsize calls) st.view := by
  rw [runCalls_eq]
  exact session_eq_spec cfg hrs _ (resolveCalls_det large calls cfg.maxsize hdet) st

/-- … hence two networks delivering the same bytes give the same results to the same calls, whatever
    the two recvsize settings (the constructor maxsize being the same) -/
theorem calls_chunk_independent (large : Nat) (cfg₁ cfg₂ : Cfg) (h₁ : 0 < cfg₁.recvsize)
    (h₂ : 0 < cfg₂.recvsize) (hm : cfg₁.maxsize = cfg₂.maxsize) (calls : List Call)
    (hdet : ∀ c ∈ calls, c.deterministic = true) (s₁ s₂ : List Ev) (hs : pending s₁ = pending s₂) :
    (runCalls large cfg₁ calls (start s₁)).1 = (runCalls large cfg₂ calls (start s₂)).1 := by
  have e₁ := calls_session_eq_spec large cfg₁ h₁ calls hdet (start s₁)
  have e₂ := calls_session_eq_spec large cfg₂ h₂ calls hdet (start s₂)
  have hv : (start s₁).view = (start s₂).view := by simp [St.view, hs]
  rw [hv, hm] at e₁
  have := e₁.trans e₂.symm
  simp only [Prod.mk.injEq] at this
  exact this.1

/-- `setmaxsize` acts on later calls that omit maxsize and on nothing else: an explicit or `None`
    maxsize is untouched by it, and the buffer and the socket are not touched at all -/
theorem setmaxsize_effect (large : Nat) (cfg : Cfg) (n : Nat) (st : St) :
    callAttempt large cfg (.setMaxsize n) st = (none, ⟨cfg.recvsize, n⟩, st) ∧
    (∀ d w, (Call.recvUntil d .unset w).op large n = some (.recvUntil d n w)) ∧
    (∀ d w m, (Call.recvUntil d (.some m) w).op large n = some (.recvUntil d m w)) ∧
    (∀ d w, (Call.recvUntil d .none w).op large n = some (.recvUntil d large w)) ∧
    (Call.recvClose .unset).op large n = some (.recvClose n) :=
  ⟨rfl, fun _ _ => rfl, fun _ _ _ => rfl, fun _ _ => rfl, rfl⟩

/-- a NetstringSocket however configured: constructor, then any number of `setmaxsize` calls -/
def NsSock.configure (m0 : Nat) (sets : List Nat) : NsSock := sets.foldl NsSock.setMaxsize (NsSock.init m0)

/-- the cached prefix window `_msgsize_maxsize` always agrees with the current maxsize -/
theorem ns_window_invariant (m0 : Nat) (sets : List Nat) : (NsSock.configure m0 sets).WF := by
  unfold NsSock.configure
  have : ∀ (ns : NsSock), ns.WF → (sets.foldl NsSock.setMaxsize ns).WF := by
    induction sets with
    | nil => intro ns h; exact h
    | cons m ms ih => intro ns _; exact ih _ rfl
  exact this _ rfl

/-- read_ns on a configured NetstringSocket, with or without a `maxsize=` argument, is read_ns with
    the effective maxsize (argument if given, else the last configured one) -/
theorem ns_read_configured (cfg : Cfg) (m0 : Nat) (sets : List Nat) (arg : Option Nat) (k : Nat) (st : St) :
    (NsSock.configure m0 sets).readNsMany cfg arg k st
      = readNsMany cfg (arg.getD (NsSock.configure m0 sets).maxsize) k st :=
  NsSock.readNsMany_eq cfg _ (ns_window_invariant m0 sets) arg k st

/-- the round trip for every configuration path: payloads no longer than the effective maxsize come
    back exactly, whatever maxsize the socket was constructed with or set to before -/
theorem netstring_roundtrip_configured (cfg : Cfg) (hrs : 0 < cfg.recvsize) (m0 : Nat) (sets : List Nat)
    (arg : Option Nat) (ps : List Bytes) (rest : Bytes) (script : List Ev) (hto : nTO script = 0)
    (hs : pending script = (ps.map encodeNs).flatten ++ rest)
    (hall : ∀ p ∈ ps, p.length ≤ arg.getD (NsSock.configure m0 sets).maxsize) :
    ((NsSock.configure m0 sets).readNsMany cfg arg ps.length (start script)).1 = ps.map NsRes.ok := by
  rw [ns_read_configured]
  exact (netstring_roundtrip cfg hrs _ ps rest script hto hs hall).1

/-- whatever read_ns returns or raises - Timeout in the prefix or in the payload phase,
    NetstringInvalidSize, NetstringMessageTooLong, a missing comma - the bytes still owed afterwards
    are a suffix of the bytes owed before: nothing duplicated, nothing reordered -/
theorem read_ns_no_duplication (cfg : Cfg) (hrs : 0 < cfg.recvsize) (maxsize : Nat) (st : St) :
    ∃ c, c ++ (readNs cfg maxsize st).2.view = st.view :=
  readNs_suffix cfg hrs maxsize st

/-- a Timeout while read_ns is still looking for the size prefix loses nothing: the next read_ns
    sees the same stream (read_ns is restartable in that phase) -/
theorem read_ns_prefix_timeout_restartable (cfg : Cfg) (hrs : 0 < cfg.recvsize) (maxsize : Nat) (st : St)
    (h : (recvUntil cfg [colon] ((digits maxsize).length + 1) false st).1 = .timeout) :
    (readNs cfg maxsize st).1 = .timeout ∧ (readNs cfg maxsize st).2.view = st.view :=
  readNs_prefix_timeout_keeps cfg hrs maxsize st h

/-- the deadline check that follows a partial `sock.send`: the accepted bytes are on the wire and out
    of the buffer before Timeout is raised (so a later flush cannot send them twice) -/
theorem send_deadline_after_partial_send (k : Nat) (r : List SEv) (b : Nat) (buf : Bytes) (total : Nat)
    (wire : Bytes) :
    sendLoop (.accept k :: .clock :: r) (b :: buf) total wire
      = (.timeout, ⟨[(b :: buf).drop k], wire ++ (b :: buf).take k, r⟩) := rfl

/-- a Timeout that leaves nothing buffered (the deadline passed during the send that completed the
    data) still means: everything is on the wire, once, in order -/
theorem send_timeout_with_empty_buffer (data : Bytes) (st : SSt)
    (hb : (send data st).2.getsendbuffer = []) :
    (send data st).2.wire = st.wire ++ st.getsendbuffer ++ data := by
  have := send_timeout_keeps data st
  rwa [hb, List.append_nil] at this

/-- exact fault accounting on the receive side: a call that raises Timeout used up exactly one of the
    socket's timeouts, a call that ends any other way used up none - so the i-th fault the network
    injects is the i-th fault the caller sees, and no fault is ever swallowed -/
theorem timeout_accounting_exact (cfg : Cfg) (op : Op) (st : St) :
    ((attempt cfg op st).1 = .timeout → nTO (attempt cfg op st).2.script + 1 = nTO st.script) ∧
    ((attempt cfg op st).1 ≠ .timeout → nTO (attempt cfg op st).2.script = nTO st.script) :=
  attempt_nTOex cfg op st

/-- the same on the send side, deadline expiries included: faults left + (1 if this call raised
    Timeout) = faults there were -/
theorem send_fault_accounting (op : SOp) (st : SSt) :
    nSF (sstep op st).2.script + (sstep op st).1.isTO = nSF st.script :=
  sstep_faults op st

/-- read_ns calls Python's lenient `int()` (whitespace, a sign, `_` grouping are tolerated); on every
    strict decimal prefix - in particular on every prefix write_ns produces - it yields the same size -/
theorem lenient_int_agrees_on_strict (bs : Bytes) (n : Nat) (h : parseNat bs = some n) :
    parseSize bs = some n :=
  parseSize_of_parseNat h

theorem size_prefix_roundtrip_lenient (n : Nat) : parsePyInt (digits n) = some (Int.ofNat n) := by
  have h := parsePyInt_strict (digits_ne_nil n) (digits_all n)
  rw [h]
  have := digits_val n
  unfold val at this
  rw [this]

/-! ### non-vacuity, round 2 -/

-- what Python's int() accepts and rejects:  b' +1_0 ' = 10, b'-5' = -5, b'007' = 7;
-- b'1__0', b'_1', b'1_', b'+ 1', b'', b' ' are ValueErrors
example : parsePyInt [32, 43, 49, 95, 48, 32] = some 10 ∧ parsePyInt [45, 53] = some (-5) ∧
    parsePyInt [48, 48, 55] = some 7 ∧ parsePyInt [9, 49, 10] = some 1 := by decide
example : parsePyInt [49, 95, 95, 48] = none ∧ parsePyInt [95, 49] = none ∧ parsePyInt [49, 95] = none ∧
    parsePyInt [43, 32, 49] = none ∧ parsePyInt [] = none ∧ parsePyInt [32] = none ∧
    parsePyInt [43] = none ∧ parsePyInt [49, 32, 49] = none := by decide
-- a negative size is read like size 0: b'-1:,' is an empty payload
example : (readNsMany ⟨4, 4⟩ 10 1 (start [.chunk [45, 49, 58, 44]])).1 = [.ok []] := by decide
example : (readNsMany ⟨4, 4⟩ 10 1 (start [.chunk [32, 51, 58, 1, 2, 3, 44]])).1 = [.ok [1, 2, 3]] := by decide

example : nTO (attempt ⟨2, 100⟩ (.recvUntil [13, 10] 100 false) (start exScript)).2.script = 1 := by decide
example : nTO (callRetry ⟨2, 100⟩ (.recvUntil [13, 10] 100 false) (start exScript)).2.script = 1 := by decide
example : nSF (sstep (.send [1, 2, 3]) (sstart [.accept 2, .clock, .timeout])).2.script = 1 ∧
    (sstep (.send [1, 2, 3]) (sstart [.accept 2, .clock, .timeout])).1.isTO = 1 := by decide


-- setmaxsize(1) between two recv_until calls that omit maxsize: the first finds "\r\n" inside the
-- constructor maxsize 100, the second must raise MessageTooLong; an explicit maxsize is unaffected
example : (runCalls 1000 ⟨2, 100⟩ [.recvUntil [13, 10] .unset false, .setMaxsize 1,
      .recvUntil [13, 10] .unset false, .recvUntil [13, 10] (.some 9) true, .recvClose .none]
      (start exScript)).1
    = [.ok [97, 98], .tooLong, .ok [99, 100, 13, 10], .ok []] := by decide
example : resolveCalls 1000 100 [.recvUntil [58] .unset false, .setMaxsize 1, .recvClose .unset,
      .recvClose .none, .peek 3]
    = [.recvUntil [58] 100 false, .recvClose 1, .recvClose 1000, .peek 3] := by decide
-- constructed with maxsize 5 (window 2), then setmaxsize(100): the window follows (4), so a 12-byte
-- payload ("12:" is a 3-byte prefix) is read back; with the stale window it would be MessageTooLong
example : (NsSock.configure 5 [100]).window = 4 ∧ (NsSock.init 5).window = 2 := by decide
example : ((NsSock.configure 5 [100]).readNsMany ⟨3, 3⟩ none 1
      (start [.chunk (encodeNs [1, 2, 3, 4, 5, 6, 7, 8, 9, 10, 11, 12])])).1
    = [.ok [1, 2, 3, 4, 5, 6, 7, 8, 9, 10, 11, 12]] := by decide
example : (readNsWith ⟨3, 3⟩ 100 2 (start [.chunk (encodeNs [1, 2, 3, 4, 5, 6, 7, 8, 9, 10, 11, 12])])).1
    = .tooLong := by decide
example : ((NsSock.init 5).readNsMany ⟨3, 3⟩ (some 100) 1
      (start [.chunk (encodeNs [1, 2, 3, 4, 5, 6, 7, 8, 9, 10, 11, 12])])).1
    = [.ok [1, 2, 3, 4, 5, 6, 7, 8, 9, 10, 11, 12]] := by decide
-- a Timeout in the prefix phase is restartable, one in the payload phase is not (the prefix is gone)
example : (recvUntil ⟨4, 4⟩ [colon] 3 false (start [.chunk [51], .timeout, .chunk [58, 1, 2, 3, 44]])).1
    = .timeout := by decide
example : (readNsMany ⟨4, 4⟩ 10 2 (start [.chunk [51], .timeout, .chunk [58, 1, 2, 3, 44]])).1
    = [.timeout, .ok [1, 2, 3]] := by decide
example : (readNsMany ⟨4, 4⟩ 10 2 (start [.chunk [51, 58, 1], .timeout, .chunk [2, 3, 44]])).1
    = [.timeout, .tooLong] := by decide
-- the deadline passes during the send that takes the last byte: Timeout, nothing left to send
example : (send [1, 2, 3] (sstart [.accept 2, .accept 5, .clock])).1 = .timeout ∧
    (send [1, 2, 3] (sstart [.accept 2, .accept 5, .clock])).2.getsendbuffer = [] ∧
    (send [1, 2, 3] (sstart [.accept 2, .accept 5, .clock])).2.wire = [1, 2, 3] := by decide
-- the deadline passes after a partial send: the rest waits for flush, nothing is sent twice
example : ((srun [.send [1, 2, 3], .flush] (sstart [.accept 2, .clock])).1.map (·.1)) = [.timeout, .none] ∧
    (srun [.send [1, 2, 3], .flush] (sstart [.accept 2, .clock])).2.wire = [1, 2, 3] := by decide

/-! ## 7. round 3: the send side against a flat specification, the BufferedSocket as one object
    (receive and send calls interleaved on the same instance), fault classes, `flags` -/

/-- the flat specification delivers every byte exactly once and in order: what went out followed by what
    is still unsent is the buffer, and without a timeout nothing stays behind -/
theorem deliver_exactly_once (script : List SEv) (buf : Bytes) :
    (deliver script buf).2.1 ++ (deliver script buf).2.2.1 = buf ∧
    ((deliver script buf).1 = false → (deliver script buf).2.2.1 = []) := by
  have h := sendLoop_ok script buf 0 []
  rw [sendLoop_deliver] at h
  obtain ⟨h1, -, -, h4, -, -⟩ := h
  refine ⟨by simpa using h1, ?_⟩
  intro hf
  have := (h4 (0 + (deliver script buf).2.1.length) (by simp [hf])).1
  simpa using this

/-- send / sendall / buffer / flush in any order refine the flat specification in which the send buffer is
    ONE byte string: every result, every getsendbuffer() and the wire after every call agree -/
theorem send_side_flat_spec (ops : List SOp) (st : SSt) :
    sobs (srun ops st).1 = (frun ops st.flat).1 ∧ (srun ops st).2.flat = (frun ops st.flat).2 :=
  srun_flat ops st

/-- how the pending bytes are spread over the entries of `sbuf` (one `buffer()` call each, empty entries,
    an entry left by a timed-out send) cannot be observed by any later history of calls -/
theorem sbuf_structure_unobservable (ops : List SOp) (st₁ st₂ : SSt) (h : st₁.flat = st₂.flat) :
    sobs (srun ops st₁).1 = sobs (srun ops st₂).1 ∧ (srun ops st₁).2.flat = (srun ops st₂).2.flat := by
  obtain ⟨a₁, b₁⟩ := srun_flat ops st₁
  obtain ⟨a₂, b₂⟩ := srun_flat ops st₂
  rw [h] at a₁ b₁
  exact ⟨a₁.trans a₂.symm, b₁.trans b₂.symm⟩

/-- an ordering law: `buffer(a); buffer(b); flush()` puts on the wire, leaves buffered and uses up of the
    socket's script exactly what `send(a + b)` does, and times out exactly when that does -/
theorem buffer_buffer_flush_is_send (a b : Bytes) (st : SSt) :
    (srun [.buffer a, .buffer b, .flush] st).2.flat = (srun [.send (a ++ b)] st).2.flat ∧
    ((sstep .flush (sstep (.buffer b) (sstep (.buffer a) st).2).2).1 = .timeout
      ↔ (sstep (.send (a ++ b)) st).1 = .timeout) := by
  obtain ⟨-, e₁⟩ := srun_flat [.buffer a, .buffer b, .flush] st
  obtain ⟨-, e₂⟩ := srun_flat [.send (a ++ b)] st
  refine ⟨?_, ?_⟩
  · rw [e₁, e₂]
    simp only [frun, fstep, fsend, List.append_assoc, List.append_nil]
    by_cases h : (deliver st.flat.script (st.flat.buf ++ (a ++ b))).1 = true <;> simp [h]
  · have f₁ := sstep_flat (.buffer a) st
    have f₂ := sstep_flat (.buffer b) (sstep (.buffer a) st).2
    have f₃ := sstep_flat .flush (sstep (.buffer b) (sstep (.buffer a) st).2).2
    have f₄ := sstep_flat (.send (a ++ b)) st
    rw [f₃.1, f₂.2, f₁.2, f₄.1]
    simp only [fstep, fsend, List.append_assoc, List.append_nil]
    by_cases h : (deliver st.flat.script (st.flat.buf ++ (a ++ b))).1 = true <;> simp [h]

/-- a fresh BufferedSocket over a socket that will play `rscript` to recv and `sscript` to send; `rtags` /
    `stags` are the classes of the faults in the two scripts, in order -/
abbrev bstart (cfg : Cfg) (rscript : List Ev) (sscript : List SEv) (rtags stags : List Fault) : BSock :=
  ⟨cfg, ⟨[], rscript⟩, ⟨[], [], sscript⟩, rtags, stags⟩

/-- receive and send calls interleaved on ONE object: the receive-side calls return / raise exactly what
    they do in the history with the send-side calls left out, whatever state the send side is in - a send,
    buffer or flush never touches the receive buffer, maxsize or the undelivered stream -/
theorem duplex_rx_independent (large : Nat) (ops : List DOp) (b b' : BSock) (h : b.rxPart = b'.rxPart) :
    (drun large ops b).1.filter (fun p => p.1.isRx) = (drun large (ops.filter DOp.isRx) b').1 ∧
    (drun large ops b).2.rxPart = (drun large (ops.filter DOp.isRx) b').2.rxPart :=
  drun_rx_independent large ops b b' h

/-- ... and the send-side calls are not affected by the receive-side calls in between -/
theorem duplex_tx_independent (large : Nat) (ops : List DOp) (b b' : BSock) (h : b.txPart = b'.txPart) :
    (drun large ops b).1.filter (fun p => p.1.isTx) = (drun large (ops.filter DOp.isTx) b').1 ∧
    (drun large ops b).2.txPart = (drun large (ops.filter DOp.isTx) b').2.txPart :=
  drun_tx_independent large ops b b' h

/-- conservation on the one object, per call and in both directions at once, whatever the call returns
    or raises: handed over ++ rbuf ++ undelivered is unchanged, and wire ++ send buffer grows by exactly
    the bytes accepted with this call (none when the call was refused for its flags) -/
theorem duplex_conservation (large : Nat) (op : DOp) (b : BSock) (hrs : 0 < b.cfg.recvsize) :
    op.consumed (dstep large op b).1 large b.cfg.maxsize ++ (dstep large op b).2.rx.view = b.rx.view ∧
    (dstep large op b).2.tx.wire ++ (dstep large op b).2.tx.getsendbuffer
      = b.tx.wire ++ b.tx.getsendbuffer ++ op.accepted (dstep large op b).1 ∧
    (dstep large op b).2.cfg.recvsize = b.cfg.recvsize := by
  cases op with
  | call c =>
    obtain ⟨h1, h2⟩ := dcall_conserves large c b hrs
    have h3 := dcall_txPart large c b
    simp only [BSock.txPart, Prod.mk.injEq] at h3
    refine ⟨h1, ?_, h2⟩
    simp only [dstep, h3.1, DOp.accepted]
    cases (dcall large c b).1 <;> simp
  | recvFlags size flags =>
    simp only [dstep]
    split
    · simp [DOp.consumed, DOp.accepted]
    · obtain ⟨h1, h2⟩ := dcall_conserves large (.recv size) b hrs
      have h3 := dcall_txPart large (.recv size) b
      simp only [BSock.txPart, Prod.mk.injEq] at h3
      refine ⟨?_, ?_, h2⟩
      · cases hq : (dcall large (.recv size) b).1 with
        | rx r =>
          rw [hq] at h1
          cases r with
          | none => simpa [DOp.consumed, Call.op] using h1
          | some r => cases r <;> simpa [DOp.consumed, Call.op, consumed] using h1
        | tx r => rw [hq] at h1; simpa [DOp.consumed] using h1
        | fault f => rw [hq] at h1; simpa [DOp.consumed] using h1
        | valueError => rw [hq] at h1; simpa [DOp.consumed] using h1
      · rw [h3.1]
        cases (dcall large (.recv size) b).1 <;> simp [DOp.accepted]
  | sop o =>
    obtain ⟨h1, -⟩ := dsop_conserves o b
    have h3 := dsop_rxPart o b
    simp only [BSock.rxPart, Prod.mk.injEq] at h3
    refine ⟨?_, ?_, by simp only [dstep]; rw [h3.1]⟩
    · simp only [dstep, h3.2.1]
      cases (dsop o b).1 <;> simp [DOp.consumed]
    · simp only [dstep]
      rw [h1]
      unfold dsop
      split <;> simp [DOp.accepted]
  | sendFlags d flags =>
    simp only [dstep]
    split
    · simp [DOp.consumed, DOp.accepted]
    · obtain ⟨h1, -⟩ := dsop_conserves (.send d) b
      have h3 := dsop_rxPart (.send d) b
      simp only [BSock.rxPart, Prod.mk.injEq] at h3
      refine ⟨?_, ?_, by rw [h3.1]⟩
      · rw [h3.2.1]
        cases (dsop (.send d) b).1 <;> simp [DOp.consumed]
      · rw [h1]
        unfold dsop
        split <;> simp [DOp.accepted, SOp.data]

/-- which exception a fault surfaces as: while one class is recorded per fault still ahead in each script
    (true of a fresh object, kept by every call), a call that raises a fault raises the class of the NEXT
    unconsumed fault of its own direction - socket.timeout / passed deadline -> Timeout, the socket's OSError
    -> that OSError - and consumes exactly that one -/
theorem fault_class_exact (large : Nat) (op : DOp) (b : BSock) (h : b.Aligned) :
    (dstep large op b).2.Aligned ∧
    (∀ f, (dstep large op b).1 = .fault f →
      (op.isRx = true → b.rtags = f :: (dstep large op b).2.rtags) ∧
      (op.isRx = false → b.stags = f :: (dstep large op b).2.stags)) :=
  dstep_aligned large op b h

/-- ... at every moment of every history from a fresh object -/
theorem fault_classes_aligned (large : Nat) (ops : List DOp) (cfg : Cfg) (rscript : List Ev)
    (sscript : List SEv) (rtags stags : List Fault)
    (hr : rtags.length = nTO rscript) (hs : stags.length = nSF sscript) :
    (drun large ops (bstart cfg rscript sscript rtags stags)).2.Aligned :=
  drun_aligned large ops _ ⟨hr, hs⟩

/-- `recv(size, flags)` / `send(data, flags)` with non-zero flags: ValueError, and the object - both buffers,
    both scripts, maxsize - is exactly as before (the data is NOT accepted); with flags = 0 they are
    `recv(size)` / `send(data)` -/
theorem flags_refused_untouched (large : Nat) (b : BSock) (size : Nat) (data : Bytes) (flags : Nat) :
    (flags ≠ 0 → dstep large (.recvFlags size flags) b = (.valueError, b) ∧
                 dstep large (.sendFlags data flags) b = (.valueError, b)) ∧
    (flags = 0 → dstep large (.recvFlags size flags) b = dstep large (.call (.recv size)) b ∧
                 dstep large (.sendFlags data flags) b = dstep large (.sop (.send data)) b) := by
  refine ⟨fun h => ?_, fun h => ?_⟩
  · simp [dstep, h]
  · simp [dstep, h]

/-! non-vacuity for section 7 -/
example : deliver [.accept 2, .timeout, .accept 1] [1, 2, 3, 4] = (true, [1, 2], [3, 4], [.accept 1]) := by decide
example : deliver [.accept 2, .clock] [1, 2] = (true, [1, 2], [], []) := by decide
example : (frun [.buffer [1], .buffer [], .send [2, 3], .flush] ⟨[], [], [.accept 2, .timeout]⟩).1
    = [(.none, [1], []), (.none, [1], []), (.timeout, [3], [1, 2]), (.none, [], [1, 2, 3])] := by decide
-- two concrete states with the same flat view
example : (⟨[[1], [], [2]], [9], [.accept 1]⟩ : SSt).flat = (⟨[[1, 2]], [9], [.accept 1]⟩ : SSt).flat := by decide
-- one object, calls of both directions interleaved; the second recv_until times out with the OSError class
def exDuplex : BSock :=
  bstart ⟨2, 100⟩ [.chunk [97, 13], .timeout, .chunk [10, 98]] [.accept 1, .clock] [.osError] [.timeout]
example : exDuplex.Aligned := ⟨by decide, by decide⟩
example : ((drun 1000 [.call (.recvUntil [13, 10] .unset false), .sop (.send [1, 2]),
      .call (.recvUntil [13, 10] .unset false), .sendFlags [7] 1, .sop .flush, .recvFlags 1 4,
      .call (.recv 5)] exDuplex).1.map (·.2))
    = [.fault .osError, .fault .timeout, .rx (some (.ok [97])), .valueError, .tx .none, .valueError,
       .rx (some (.ok [98]))] := by decide
example : (drun 1000 [.call (.recvUntil [13, 10] .unset false), .sop (.send [1, 2]),
      .call (.recvUntil [13, 10] .unset false), .sendFlags [7] 1, .sop .flush] exDuplex).2.tx.wire = [1, 2] := by
  decide

/-! ## 8. round 3: the read loop over `recv`; sizes as Python ints -/

/-- the caller's loop `while True: d = recv(size) (Timeout: again); if not d: break; out += d` hands over the
    whole remaining stream, in order, exactly once, for every chunking, recvsize and timeout placement, and
    then the stream is exhausted - the `recv` clause of the statement at the strength of the others -/
theorem recv_drain_whole_stream (cfg : Cfg) (hrs : 0 < cfg.recvsize) (size : Nat) (hs : 0 < size) (st : St) :
    (drain cfg size (measure st.script + st.view.length + 1) st).1 = st.view ∧
    (drain cfg size (measure st.script + st.view.length + 1) st).2.view = [] :=
  drain_ok cfg hrs size hs _ st (Nat.le_refl _)

/-- ... so two networks delivering the same bytes give the same bytes to that loop, whatever the two
    recvsize settings and the two `size` arguments -/
theorem recv_drain_chunk_independent (cfg₁ cfg₂ : Cfg) (h₁ : 0 < cfg₁.recvsize) (h₂ : 0 < cfg₂.recvsize)
    (n₁ n₂ : Nat) (hn₁ : 0 < n₁) (hn₂ : 0 < n₂) (s₁ s₂ : List Ev) (hs : pending s₁ = pending s₂) :
    (drain cfg₁ n₁ (measure s₁ + (start s₁).view.length + 1) (start s₁)).1
      = (drain cfg₂ n₂ (measure s₂ + (start s₂).view.length + 1) (start s₂)).1 := by
  rw [(recv_drain_whole_stream cfg₁ h₁ n₁ hn₁ (start s₁)).1, (recv_drain_whole_stream cfg₂ h₂ n₂ hn₂ (start s₂)).1]
  simp [St.view, hs]

/-- `recv_size` with the size as a Python `int` (integer comparison `total_bytes >= size`, the slices
    `nxt[:-extra]` / `nxt[-extra:]` with `extra` possibly larger than `len(nxt)`): on a natural number it is the
    `recvSize` of the theorems above, and a negative size behaves exactly like `recv_size(0)` -/
theorem recv_size_int_faithful (cfg : Cfg) (st : St) :
    (∀ n : Nat, recvSizeI cfg (n : Int) st = recvSize cfg n st) ∧
    (∀ s : Int, s ≤ 0 → recvSizeI cfg s st = recvSize cfg 0 st) :=
  ⟨fun n => recvSizeI_ofNat cfg n st, fun s hs => recvSizeI_neg cfg s hs st⟩

/-- `read_ns` with the size prefix kept as the (possibly negative) `int` that `int()` returns - the comparison
    `size > maxsize` on integers, `recv_size(size)` with that integer - is the `read_ns` of the theorems above,
    which clamps a negative size to 0 (`parseSize`): the clamping loses nothing.  The driver runs this version. -/
theorem read_ns_int_size_faithful (cfg : Cfg) (ns : NsSock) (arg : Option Nat) (k : Nat) (st : St) :
    NsSock.readNsManyI cfg ns arg k st = NsSock.readNsMany cfg ns arg k st :=
  NsSock.readNsManyI_eq cfg ns arg k st

/-! non-vacuity for section 8 -/
example : (drain ⟨2, 100⟩ 3 20 (start exScript)).1 = [97, 98, 13, 10, 99, 100, 13, 10] := by decide
example : (recvSizeI ⟨4, 4⟩ (-5) (start [.chunk [1, 2, 3]])).1 = .ok [] ∧
    (recvSizeI ⟨4, 4⟩ (-5) (start [.chunk [1, 2, 3]])).2.rbuf = [1, 2, 3] := by decide
example : (recvSizeI ⟨4, 4⟩ (-5) (start [])).1 = .closed := by decide
example : pyDropLast 5 [1, 2, 3] = [] ∧ pyLast 5 [1, 2, 3] = [1, 2, 3] ∧ pyDropLast 1 [1, 2, 3] = [1, 2] := by decide
example : ((NsSock.init 10).readNsManyI ⟨4, 4⟩ none 2 (start [.chunk [45, 49, 58, 44, 49, 58, 7, 44]])).1
    = [.ok [], .ok [7]] := by decide

/-! ## 9. round 3: the prefix window of NetstringSocket, measured on the current source -/

/-- translator-regenerated fact: for every maxsize of the table (digit-count boundaries up to 10^18, 2^31, 2^53,
    2^63, 2^64) the longest size prefix the REAL read_ns accepts - measured through the public API on every run, for
    maxsize given to the constructor, to setmaxsize() and as the maxsize= argument - is the window the model
    computes (`NsSock.init`, `NsSock.setMaxsize`, `calcWindow`), i.e. `len(str(maxsize)) + 1`, far beyond the
    sizes the test cases reach -/
theorem ns_window_table_matches_source :
    ∀ p ∈ Gen.nsWindowTable, (NsSock.init p.1).window = p.2.1 ∧
      ((NsSock.init 0).setMaxsize p.1).window = p.2.2.1 ∧ calcWindow p.1 = p.2.2.2 := by decide

example : Gen.nsWindowTable.length ≥ 30 ∧ (1000000000000000, 17, 17, 17) ∈ Gen.nsWindowTable := by decide

/-! ## 10. round 3c: what the statement leaves free is accepted, not predicted

    `recv(size)` - WHICH non-empty prefix it returns and how the rest is split between `rbuf` and the socket - and
    how many bytes one iteration of `send`'s loop hands to `sock.send` are free.  A recv attempt reaches the model as
    an observation that `acceptRecv` checks against the statement's recv clause, the model continuing from the
    OBSERVED state; the send loop takes the observed offers as a parameter (`sendLoopA`). -/

/-- what "accepted" means: exactly the recv clause of the statement (the shape of `recv_prefix`), against the model's
    current state - a fault used up a fault of the network and moved nothing; a value is a prefix of
    `rbuf ++ undelivered`, at most `size` long, empty only when nothing is left; afterwards buffered ++ undelivered
    is exactly the rest; the buffer is the observed one -/
theorem recv_acceptance_is_statement (size : Nat) (o : RecvObs) (st st' : St)
    (h : acceptRecv size o st = some st') :
    st'.rbuf = o.rbuf ∧ nTO st'.script ≤ nTO st.script ∧
    ((o.res = none ∧ st'.view = st.view ∧ nTO st'.script < nTO st.script) ∨
     (∃ v, o.res = some v ∧ v ++ st'.view = st.view ∧ v.length ≤ size ∧
        (0 < size → v = [] → st.view = []))) :=
  acceptRecv_sound size o st st' h

/-- the acceptance relation is not stricter than the verified code: whatever the model's own `recv` does - serve
    from the buffer, or ask the socket for `recvsize` bytes and buffer the surplus - is accepted when reported as an
    observation, and the accepted state has the model's buffer, the model's view and the model's faults ahead -/
theorem model_recv_is_accepted (cfg : Cfg) (size : Nat) (st : St) (hrs : 0 < cfg.recvsize) :
    ∃ st', acceptRecv size (obsOfRecv (recv cfg size st)) st = some st' ∧
      st'.rbuf = (recv cfg size st).2.rbuf ∧ st'.view = (recv cfg size st).2.view ∧
      nTO st'.script = nTO (recv cfg size st).2.script :=
  recv_accepted cfg size st hrs

/-- the results of the delimiter / size calls are a function of `rbuf ++ undelivered`, not of the split: from two
    states that owe the caller the same bytes - however these are divided between buffer and network, whatever the
    chunking, the timeouts ahead and the two recvsize settings - a call (retried after Timeout) returns the same
    value / raises the same ConnectionClosed / MessageTooLong and leaves the same bytes owed -/
theorem framing_function_of_view (cfg₁ cfg₂ : Cfg) (h₁ : 0 < cfg₁.recvsize) (h₂ : 0 < cfg₂.recvsize) (op : Op)
    (hdet : op.deterministic = true) (st₁ st₂ : St) (hv : st₁.view = st₂.view) :
    (callRetry cfg₁ op st₁).1 = (callRetry cfg₂ op st₂).1 ∧
    (callRetry cfg₁ op st₁).2.view = (callRetry cfg₂ op st₂).2.view := by
  have e₁ := callRetry_ok cfg₁ h₁ op hdet st₁
  have e₂ := callRetry_ok cfg₂ h₂ op hdet st₂
  rw [hv] at e₁
  have := e₁.trans e₂.symm
  simp only [Prod.mk.injEq] at this
  exact this

/-- the same for single attempts: two attempts that both got through without a fault agree -/
theorem attempt_function_of_view (cfg₁ cfg₂ : Cfg) (h₁ : 0 < cfg₁.recvsize) (h₂ : 0 < cfg₂.recvsize) (op : Op)
    (hdet : op.deterministic = true) (st₁ st₂ : St) (hv : st₁.view = st₂.view)
    (n₁ : (attempt cfg₁ op st₁).1 ≠ .timeout) (n₂ : (attempt cfg₂ op st₂).1 ≠ .timeout) :
    (attempt cfg₁ op st₁).1 = (attempt cfg₂ op st₂).1 ∧
    (attempt cfg₁ op st₁).2.view = (attempt cfg₂ op st₂).2.view := by
  rcases attempt_timeout_or_spec cfg₁ h₁ op hdet st₁ with ⟨a, -⟩ | ⟨-, e₁⟩
  · exact absurd a n₁
  rcases attempt_timeout_or_spec cfg₂ h₂ op hdet st₂ with ⟨a, -⟩ | ⟨-, e₂⟩
  · exact absurd a n₂
  rw [hv] at e₁
  have := e₁.trans e₂.symm
  simp only [Prod.mk.injEq] at this
  exact this

/-- THE theorem behind the acceptance step: a run in which every recv attempt was merely accepted (any prefix, any
    split, any number of socket reads behind it) and the framing calls are the model's - each retried after Timeout -
    returns for every recv_until / recv_size / peek / recv_close exactly the whole-stream answer on the bytes still
    owed (the accepted recv steps taking what they handed over off the front), and ends owing the whole-stream rest -/
theorem accepted_run_eq_spec (cfg : Cfg) (hrs : 0 < cfg.recvsize) (s0 : List Ev) (steps : List MStep) (st : St)
    (rs : List Res) (st' : St) (hdet : ∀ s ∈ steps, s.det = true) (h : runMixed cfg s0 steps st = some (rs, st')) :
    (rs, st'.view) = specMixed steps st.view :=
  runMixed_ok cfg hrs s0 steps st rs st' hdet h

/-- conservation along such a run: handed over by the accepted recv steps ++ consumed by the framing calls ++ rbuf ++
    undelivered = what was owed at the start, in order -/
theorem accepted_run_conservation (cfg : Cfg) (hrs : 0 < cfg.recvsize) (s0 : List Ev) (steps : List MStep) (st : St)
    (rs : List Res) (st' : St) (h : runMixed cfg s0 steps st = some (rs, st')) :
    handedMixed steps rs ++ st'.rbuf ++ pending st'.script = st.rbuf ++ pending st.script := by
  have := runMixed_conserves cfg hrs s0 steps st rs st' h
  simpa [St.view, List.append_assoc] using this

/-- ... hence independent of the split: two accepted runs of the same framing calls whose recv steps handed over the
    same bytes (their observed buffers, undelivered counts, fault counts and the splits the model was re-seated on
    may all differ), from two states owing the same bytes, over any two networks and recvsize settings, give the
    same results and end owing the same bytes -/
theorem accepted_run_split_independent (cfg₁ cfg₂ : Cfg) (h₁ : 0 < cfg₁.recvsize) (h₂ : 0 < cfg₂.recvsize)
    (steps₁ steps₂ : List MStep) (hsame : steps₁.map MStep.answer = steps₂.map MStep.answer)
    (hd₁ : ∀ s ∈ steps₁, s.det = true) (hd₂ : ∀ s ∈ steps₂, s.det = true) (s₁ s₂ : List Ev)
    (st₁ st₂ : St) (hv : st₁.view = st₂.view) (rs₁ rs₂ : List Res) (f₁ f₂ : St)
    (r₁ : runMixed cfg₁ s₁ steps₁ st₁ = some (rs₁, f₁)) (r₂ : runMixed cfg₂ s₂ steps₂ st₂ = some (rs₂, f₂)) :
    rs₁ = rs₂ ∧ f₁.view = f₂.view := by
  have e₁ := runMixed_ok cfg₁ h₁ s₁ steps₁ st₁ rs₁ f₁ hd₁ r₁
  have e₂ := runMixed_ok cfg₂ h₂ s₂ steps₂ st₂ rs₂ f₂ hd₂ r₂
  rw [specMixed_answer steps₁ steps₂ hsame, hv] at e₁
  have := e₁.trans e₂.symm
  simp only [Prod.mk.injEq] at this
  exact this

/-- sessions written with the public calls (maxsize omitted / None / explicit, setmaxsize in between), recv calls
    carrying their observed attempts: the steps they resolve to are covered by `accepted_run_eq_spec` -/
theorem accepted_calls_eq_spec (large : Nat) (cfg : Cfg) (hrs : 0 < cfg.recvsize) (s0 : List Ev) (calls : List MCall)
    (hdet : ∀ c seat, MCall.call c seat ∈ calls → c.deterministic = true) (st : St) (rs : List Res) (st' : St)
    (h : runMixed cfg s0 (resolveMixed large cfg.maxsize calls) st = some (rs, st')) :
    (rs, st'.view) = specMixed (resolveMixed large cfg.maxsize calls) st.view :=
  runMixed_ok cfg hrs s0 _ st rs st' (resolveMixed_det large calls cfg.maxsize hdet) h

/-- an observed recv on the ONE object: the send side and the configuration are untouched, the receive side moves
    to the accepted state, one fault class stays recorded per fault still ahead, and a raised fault carries the class
    of the last fault the call used up -/
theorem observed_recv_frame (size : Nat) (o : RecvObs) (cls : Fault) (b b' : BSock) (out : DOut)
    (h : daccRecv size o cls b = some (out, b')) (ha : b.Aligned) :
    b'.txPart = b.txPart ∧ b'.cfg = b.cfg ∧ b'.Aligned ∧ acceptRecv size o b.rx = some b'.rx ∧
    (out = .rx (some o.toRes) ∨ out = .fault cls) ∧
    (out = .fault cls →
      o.res = none ∧ ∃ used, 0 < used ∧ used ≤ b.rtags.length ∧ b'.rtags = b.rtags.drop used ∧
        (b.rtags.drop (used - 1)).head? = some cls) :=
  daccRecv_ok size o cls b b' out h ha

/-- the VALUE of a framing call (and of `read_ns`, which ends with `recv(1)`) is pinned, the split it leaves between
    `rbuf` and the socket is not (over-read into the buffer, or ask the socket for exactly what is missing).  Re-seating
    the model on the observed split - done only when that is a split of the same bytes with the same faults ahead -
    changes neither the bytes owed nor the faults ahead, so everything proved about later calls still holds; on the
    one object it touches neither the send side nor the configuration nor the fault classes -/
theorem reseat_keeps_stream (s0 : List Ev) (o : RecvObs) (st : St) (so : Option RecvObs) (b : BSock) :
    ((reseat s0 o st).view = st.view ∧ nTO (reseat s0 o st).script = nTO st.script) ∧
    ((dseat s0 so b).txPart = b.txPart ∧ (dseat s0 so b).cfg = b.cfg ∧ (dseat s0 so b).rtags = b.rtags ∧
      (dseat s0 so b).rx.view = b.rx.view ∧ (b.Aligned → (dseat s0 so b).Aligned)) :=
  ⟨reseat_ok s0 o st, dseat_ok s0 so b⟩

/-- send / sendall / buffer / flush with ANY number of bytes offered to `sock.send` per iteration (any list of
    offers for every call): wire ++ send buffer = everything the caller handed over, in order; the wire only grows -/
theorem send_conservation_any_offers (ops : List (List Nat × SOp)) (script : List SEv) :
    (srunA ops (sstart script)).2.wire ++ (srunA ops (sstart script)).2.getsendbuffer
      = (ops.map (fun p => p.2.data)).flatten ∧
    ∀ st, st.wire <+: (srunA ops st).2.wire := by
  refine ⟨?_, fun st => (srunA_conserves ops st).2⟩
  have := (srunA_conserves ops (sstart script)).1
  simpa [SSt.getsendbuffer] using this

/-- ... send() returning still means: everything is on the wire, once, in order, and the return value counts it -/
theorem send_return_any_offers (offers : List Nat) (data : Bytes) (st : SSt) (n : Nat)
    (h : (sendA offers data st).1 = .sent n) :
    (sendA offers data st).2.getsendbuffer = [] ∧
    (sendA offers data st).2.wire = st.wire ++ st.getsendbuffer ++ data ∧
    n = st.getsendbuffer.length + data.length := by
  obtain ⟨h1, _, _, h4, _⟩ := sendA_ok offers data st
  obtain ⟨a, b⟩ := h4 n h
  rw [a, List.append_nil] at h1
  refine ⟨a, h1, ?_⟩
  have := congrArg List.length h1
  simp only [List.length_append] at this
  omega

/-- ... and the fault accounting is exact: faults left + (1 if this call raised) = faults there were -/
theorem send_fault_accounting_any_offers (offers : List Nat) (op : SOp) (st : SSt) :
    nSF (sstepA offers op st).2.script + (sstepA offers op st).1.isTO = nSF st.script :=
  (sstepA_ok offers op st).2.2

/-- with no offers recorded the parametrised loop IS the verified loop (whole buffer offered every time), on the
    plain send side and on the one object -/
theorem offers_absent_is_verified_loop (op : SOp) (st : SSt) (b : BSock) :
    sstepA [] op st = sstep op st ∧ dsopA [] op b = dsop op b :=
  ⟨sstepA_nil op st, dsopA_nil op b⟩

/-- write_ns over a send loop with any offers: exactly the frame `<len>:<payload>,` goes behind what was accepted
    before (nothing, with NetstringMessageTooLong, when the payload exceeds maxsize), and `ok` means it is all out;
    with no offers recorded it is the verified `writeNs` -/
theorem write_ns_frames_any_offers (offers : List Nat) (maxsize : Nat) (p : Bytes) (st : SSt) :
    (writeNsA offers maxsize p st).2.wire ++ (writeNsA offers maxsize p st).2.getsendbuffer
      = st.wire ++ st.getsendbuffer ++ (if p.length ≤ maxsize then encodeNs p else []) ∧
    ((writeNsA offers maxsize p st).1 = .ok →
      p.length ≤ maxsize ∧ (writeNsA offers maxsize p st).2.getsendbuffer = []) ∧
    ((writeNsA offers maxsize p st).1 = .nsTooLong ↔ maxsize < p.length) ∧
    writeNsA [] maxsize p st = writeNs maxsize p st :=
  ⟨(writeNsA_conserves offers maxsize p st).1, (writeNsA_conserves offers maxsize p st).2.1,
   (writeNsA_conserves offers maxsize p st).2.2, writeNsA_nil maxsize p st⟩

/-- a send-side call with observed offers on the ONE object: the receive side is untouched, the classes stay
    aligned, a raised fault has the class of the next send-side fault, conservation holds -/
theorem observed_send_frame (offers : List Nat) (o : SOp) (b : BSock) (h : b.Aligned) :
    (dsopA offers o b).2.rxPart = b.rxPart ∧ (dsopA offers o b).2.Aligned ∧
    (∀ f, (dsopA offers o b).1 = .fault f → b.stags = f :: (dsopA offers o b).2.stags) ∧
    (dsopA offers o b).2.tx.wire ++ (dsopA offers o b).2.tx.getsendbuffer
      = b.tx.wire ++ b.tx.getsendbuffer ++ o.data ∧
    b.tx.wire <+: (dsopA offers o b).2.tx.wire :=
  dsopA_ok offers o b h

/-- the caller's read loop over ANY accepted recv, framing calls in between allowed: once a `recv(size)` with
    `size > 0` has returned b'' the stream is exhausted and what was handed over / consumed before is the whole
    stream, in order - `recv_drain_whole_stream` for every implementation of recv the acceptance step lets through -/
theorem accepted_recv_loop_whole_stream (cfg : Cfg) (hrs : 0 < cfg.recvsize) (s0 : List Ev) (pre : List MStep)
    (size : Nat) (hs : 0 < size) (o : RecvObs) (ho : o.res = some []) (st : St) (rs : List Res) (st' : St)
    (h : runMixed cfg s0 (pre ++ [.recvObs size o]) st = some (rs, st')) :
    handedMixed (pre ++ [.recvObs size o]) rs = st.view ∧ st'.view = [] :=
  runMixed_drained cfg hrs s0 pre size hs o ho st rs st' h

/-! non-vacuity for section 10 -/
-- stream "aab" in one chunk, recvsize 2.  The verified code's recv(1) reads "aa", returns "a", buffers "a"; a code
-- that asks the socket for min(size, recvsize) returns "a" and buffers nothing: both observations are accepted
example : acceptRecv 1 ⟨some [97], [97], 1, 0⟩ (start [.chunk [97, 97, 98]]) = some ⟨[97], [.chunk [98]]⟩ := by decide
example : acceptRecv 1 ⟨some [97], [], 2, 0⟩ (start [.chunk [97, 97, 98]]) = some ⟨[], [.chunk [97, 98]]⟩ := by decide
-- not accepted: a byte that is not the next one, two bytes for recv(1), b'' before the end, a lost byte, a
-- duplicated byte, a Timeout the network did not cause
example : acceptRecv 1 ⟨some [98], [], 2, 0⟩ (start [.chunk [97, 97, 98]]) = none := by decide
example : acceptRecv 1 ⟨some [97, 97], [], 1, 0⟩ (start [.chunk [97, 97, 98]]) = none := by decide
example : acceptRecv 1 ⟨some [], [], 3, 0⟩ (start [.chunk [97, 97, 98]]) = none := by decide
example : acceptRecv 1 ⟨some [97], [], 1, 0⟩ (start [.chunk [97, 97, 98]]) = none := by decide
example : acceptRecv 1 ⟨some [97], [97, 97], 1, 0⟩ (start [.chunk [97, 97, 98]]) = none := by decide
example : acceptRecv 1 ⟨none, [], 3, 0⟩ (start [.chunk [97, 97, 98]]) = none := by decide
-- a Timeout that used up the network's timeout and kept everything is accepted; b'' at the end of the stream too
example : acceptRecv 1 ⟨none, [], 1, 0⟩ (start [.timeout, .chunk [97]]) = some ⟨[], [.chunk [97]]⟩ := by decide
example : acceptRecv 4 ⟨some [], [], 0, 0⟩ (start []) = some ⟨[], []⟩ := by decide
-- the two accepted variants of recv(1) above, each followed by the model's recv_until(b"b"): same answer
example : runMixed ⟨2, 100⟩ [.chunk [97, 97, 98]] [.recvObs 1 ⟨some [97], [97], 1, 0⟩, .call (.recvUntil [98] 100 false) none]
      (start [.chunk [97, 97, 98]]) = some ([.ok [97], .ok [97]], ⟨[], []⟩) := by decide
example : runMixed ⟨2, 100⟩ [.chunk [97, 97, 98]] [.recvObs 1 ⟨some [97], [], 2, 0⟩, .call (.recvUntil [98] 100 false) none]
      (start [.chunk [97, 97, 98]]) = some ([.ok [97], .ok [97]], ⟨[], []⟩) := by decide
example : specMixed [.recvObs 1 ⟨some [97], [], 2, 0⟩, .call (.recvUntil [98] 100 false) none] [97, 97, 98]
    = ([.ok [97], .ok [97]], []) := by decide
-- recv_size(1) on "aab" in one chunk, recvsize 2: the model over-reads ("a" buffered, "b" in the socket); re-seated on
-- the split of a code that asked the socket for exactly one byte (nothing buffered, "ab" in the socket) - a point of
-- the script BEFORE the model's own; a "split" that is not a split of the same bytes is not taken
example : (recvSize ⟨2, 100⟩ 1 (start [.chunk [97, 97, 98]])).2 = ⟨[97], [.chunk [98]]⟩ := by decide
example : reseat [.chunk [97, 97, 98]] ⟨none, [], 2, 0⟩ ⟨[97], [.chunk [98]]⟩ = ⟨[], [.chunk [97, 98]]⟩ := by decide
example : reseat [.chunk [97, 97, 98]] ⟨none, [], 1, 0⟩ ⟨[97], [.chunk [98]]⟩ = ⟨[97], [.chunk [98]]⟩ := by decide
example : runMixed ⟨2, 100⟩ [.chunk [97, 97, 98]]
      [.call (.recvSize 1) (some ⟨none, [], 2, 0⟩), .recvObs 5 ⟨some [97, 98], [], 0, 0⟩] (start [.chunk [97, 97, 98]])
    = some ([.ok [97], .ok [97, 98]], ⟨[], []⟩) := by decide
-- positions in a script
example : advance exScript 4 1 = some [.chunk [99, 100], .chunk [13], .timeout, .chunk [10]] := by decide
example : advance exScript 3 0 = some [.timeout, .chunk [10, 99, 100], .chunk [13], .timeout, .chunk [10]] := by decide
example : advance exScript 4 0 = none := by decide
-- send("abcd") over a socket that takes 3 bytes and then times out: the whole buffer offered -> "abc" out, Timeout
-- with "d" kept; two bytes offered per sock.send -> "ab" out, Timeout with "cd" kept.  Conservation either way
example : (sstepA [] (.send [1, 2, 3, 4]) (sstart [.accept 3, .timeout])).2.wire = [1, 2, 3] ∧
    (sstepA [2, 2] (.send [1, 2, 3, 4]) (sstart [.accept 3, .timeout])).2.wire = [1, 2] ∧
    (sstepA [2, 2] (.send [1, 2, 3, 4]) (sstart [.accept 3, .timeout])).2.getsendbuffer = [3, 4] ∧
    (sstepA [2, 2] (.send [1, 2, 3, 4]) (sstart [.accept 3, .timeout])).1 = .timeout := by decide
example : (srunA [([2, 2], .send [1, 2, 3, 4]), ([1], .flush)] (sstart [.accept 3, .timeout])).2.wire = [1, 2, 3, 4] := by
  decide
-- write_ns(b"ab") two bytes per sock.send over a socket that times out on the third send: "2:ab" is out, "," waits
example : (writeNsA [2, 2, 2] 10 [97, 98] (sstart [.accept 9, .accept 9, .timeout])).1 = .timeout ∧
    (writeNsA [2, 2, 2] 10 [97, 98] (sstart [.accept 9, .accept 9, .timeout])).2.wire = [50, 58, 97, 98] ∧
    (writeNsA [2, 2, 2] 10 [97, 98] (sstart [.accept 9, .accept 9, .timeout])).2.getsendbuffer = [44] := by decide
-- an observed recv on the one object that used up the OSError fault
example : (daccRecv 1 ⟨none, [97, 13], 2, 0⟩ .osError exDuplex).map (·.1) = some (.fault .osError) := by decide
-- ... is not accepted with the wrong class, nor when the fault lost the two bytes read before it
example : (daccRecv 1 ⟨none, [97, 13], 2, 0⟩ .timeout exDuplex).map (·.1) = none := by decide
example : (daccRecv 1 ⟨none, [], 2, 0⟩ .osError exDuplex).map (·.1) = none := by decide
example : (daccRecv 1 ⟨some [97], [13], 2, 1⟩ .timeout exDuplex).map (·.1) = some (.rx (some (.ok [97]))) := by decide
-- "ab" read by recv(1) three times (the third returns b""): everything was handed over
example : runMixed ⟨2, 100⟩ [.chunk [97, 98]] [.recvObs 1 ⟨some [97], [], 1, 0⟩, .recvObs 1 ⟨some [98], [], 0, 0⟩,
      .recvObs 1 ⟨some [], [], 0, 0⟩] (start [.chunk [97, 98]]) = some ([.ok [97], .ok [98], .ok []], ⟨[], []⟩) := by decide
example : handedMixed [.recvObs 1 ⟨some [97], [], 1, 0⟩, .recvObs 1 ⟨some [98], [], 0, 0⟩, .recvObs 1 ⟨some [], [], 0, 0⟩]
      [.ok [97], .ok [98], .ok []] = [97, 98] := by decide

end C12
