import BoltonsVerif.C17.Driver
def main : IO Unit := BV.mainLoop C17.Driver.handle
