import BoltonsVerif.C17.Proofs2
import BoltonsVerif.C17.Readers
import BoltonsVerif.C17.ArgsProofs
import BoltonsVerif.C17.HeapProofs
import BoltonsVerif.C17.Lifetime
/-
C17 — property theorems (statements + short derivations from `Proofs.lean`, and
non-vacuity examples).

OneToOne.  A history is a list of commands on a register file of instances
(`otoRun [] cmds`): constructors from pairs / from another instance (either side,
plus keyword items) / `unique` / `copy`, and every mutator (`__setitem__`,
`__delitem__`, `update` with any materialised argument, `|=`, `setdefault`, `pop`,
`popitem`, `clear`) applied through the forward object or through `.inv`.
The theorems are about the SET of pairs each side holds; the dict iteration order is
modelled (it decides `popitem` and which key survives `OneToOne({k1: v, k2: v})`) but
no property theorem depends on it.
-/
namespace C17
variable {α : Type} [DecidableEq α]

/-! ## OneToOne -/

/-- OneToOne is a `dict` subclass; the model sends every mutating dict method through the paired-write code.
    That is only right if the class body overrides each of them (an inherited one writes one side only - `|=`
    before d30f0de): `Generated.otoDefined` is regenerated from the class body on every run -/
theorem oto_all_mutators_overridden : ∀ n ∈ dictMutators, n ∈ Generated.otoDefined := by decide

/-- MAIN: after any history, every instance satisfies the invariant (unique keys on both
    sides, `fwd[k] = v ↔ inv[v] = k`) -/
theorem oto_invariant (cmds : List (OtoCmd α)) (regs : List (OTO α))
    (h : otoRun [] cmds = some regs) : ∀ s ∈ regs, s.WF :=
  otoRun_wf cmds (fun _ hs => by simp at hs) h

/-- … hence the two sides hold exactly the same pairs, transposed -/
theorem oto_exact_inverses (cmds : List (OtoCmd α)) (regs : List (OTO α))
    (h : otoRun [] cmds = some regs) (s : OTO α) (hs : s ∈ regs) (k v : α) :
    (k, v) ∈ s.fwd ↔ (v, k) ∈ s.inv := by
  have w := oto_invariant cmds regs h s hs
  rw [mem_iff_lookup _ w.nf, mem_iff_lookup _ w.ni]
  exact w.inverse k v

/-- … `list(x.inv.items())` is a permutation of the swapped `list(x.items())` (same length) -/
theorem oto_inv_perm (cmds : List (OtoCmd α)) (regs : List (OTO α))
    (h : otoRun [] cmds = some regs) (s : OTO α) (hs : s ∈ regs) :
    s.inv.Perm (s.fwd.map swap) ∧ s.inv.length = s.fwd.length := by
  have w := oto_invariant cmds regs h s hs
  have hp : s.inv.Perm (s.fwd.map swap) := by
    rw [List.perm_ext_iff_of_nodup (nodup_of_nodup_map Prod.fst _ w.ni)
      (nodup_of_nodup_map Prod.fst _ (nodup_values_of_wf w))]
    intro p
    obtain ⟨a, b⟩ := p
    rw [mem_map_swap]
    exact (oto_exact_inverses cmds regs h s hs b a).symm
  exact ⟨hp, by simpa using hp.length_eq⟩

/-- … and no value sits under two keys (nor a key under two values) -/
theorem oto_no_value_under_two_keys (cmds : List (OtoCmd α)) (regs : List (OTO α))
    (h : otoRun [] cmds = some regs) (s : OTO α) (hs : s ∈ regs) (k₁ k₂ v : α)
    (h₁ : (k₁, v) ∈ s.fwd) (h₂ : (k₂, v) ∈ s.fwd) : k₁ = k₂ := by
  have w := oto_invariant cmds regs h s hs
  have e₁ := (w.inverse k₁ v).1 ((mem_iff_lookup _ w.nf _ _).1 h₁)
  have e₂ := (w.inverse k₂ v).1 ((mem_iff_lookup _ w.nf _ _).1 h₂)
  rw [e₁] at e₂
  injection e₂

/-- `x.inv.inv is x`, and a call made through `.inv.inv` is the call made through `x` -/
theorem oto_inv_inv (s : OTO α) (op : OtoOp α) :
    s.flip.flip = s ∧ ((s.flip.stepSide true op).1.flip, (s.flip.stepSide true op).2) = s.stepSide false op :=
  ⟨rfl, rfl⟩

/-- what `x[k] = v` does to the pairs: the pair with key `k` and the pair with value `v`
    give way, every other pair stays (so nothing but the two sides' common pairs changes) -/
theorem oto_setitem_spec (s : OTO α) (w : s.WF) (k v a b : α) :
    (a, b) ∈ (s.setitem k v).fwd ↔ (a = k ∧ b = v) ∨ ((a, b) ∈ s.fwd ∧ a ≠ k ∧ b ≠ v) := by
  rw [mem_iff_lookup _ (w.setitem k v).nf, mem_iff_lookup _ w.nf, OTO.setitem_fwd w]
  grind

/-! mutations made through `.inv` are the transposed mutations made through the object (round 3) -/

/-- `x.inv[v] = k` holds the same pairs afterwards as `x[k] = v` -/
theorem oto_setitem_through_inv (s : OTO α) (w : s.WF) (k v a b : α) :
    (a, b) ∈ (s.stepSide true (.setitem v k)).1.fwd ↔ (a, b) ∈ (s.setitem k v).fwd := by
  have wf := w.flip
  have w2 := wf.setitem v k
  show (a, b) ∈ (s.flip.setitem v k).inv ↔ _
  rw [mem_iff_lookup _ w2.ni, ← w2.inverse b a, ← mem_iff_lookup _ w2.nf, oto_setitem_spec s.flip wf v k b a,
    oto_setitem_spec s w k v a b]
  show (b = v ∧ a = k) ∨ ((b, a) ∈ s.inv ∧ b ≠ v ∧ a ≠ k) ↔ _
  rw [mem_iff_lookup _ w.ni, ← w.inverse a b, ← mem_iff_lookup _ w.nf]
  constructor
  · rintro (⟨h1, h2⟩ | ⟨h1, h2, h3⟩)
    · exact Or.inl ⟨h2, h1⟩
    · exact Or.inr ⟨h1, h3, h2⟩
  · rintro (⟨h1, h2⟩ | ⟨h1, h2, h3⟩)
    · exact Or.inl ⟨h2, h1⟩
    · exact Or.inr ⟨h1, h3, h2⟩
/-- `del x.inv[v]` is `del x[k]` for the key `k` that holds `v` (literally the same two dicts); KeyError when no key does -/
theorem oto_delitem_through_inv (s : OTO α) (w : s.WF) (v : α) :
    (∀ k, lookup v s.inv = some k → (s.stepSide true (.delitem v)).1 = (s.delitem k).1 ∧
      (s.stepSide true (.delitem v)).2 = .none) ∧
    (lookup v s.inv = none → s.stepSide true (.delitem v) = (s, .err .KeyError)) := by
  constructor
  · intro k hk
    have hf : lookup k s.fwd = some v := (w.inverse k v).2 hk
    simp [OTO.stepSide, OTO.step, OTO.delitem, OTO.flip, hk, hf]
  · intro hn
    simp [OTO.stepSide, OTO.step, OTO.delitem, OTO.flip, hn]
/-- non-vacuity for the two theorems above: a state with both branches (value 4 held by key 3, value 9 by nobody) -/
example : (OTO.ofPairs [(1, 2), (3, 4)] : OTO Nat).WF ∧
    lookup 4 (OTO.ofPairs [(1, 2), (3, 4)] : OTO Nat).inv = some 3 ∧ lookup 9 (OTO.ofPairs [(1, 2), (3, 4)] : OTO Nat).inv = none ∧
    ((OTO.ofPairs [(1, 2), (3, 4)] : OTO Nat).stepSide true (.setitem 2 3)).1 = ⟨[(3, 2)], [(2, 3)]⟩ :=
  ⟨OTO.WF.ofPairs _, by decide, by decide, by decide⟩

/-- a mutator leaves every other instance exactly as it was; constructors / copy only append -/
theorem oto_isolation (regs regs' : List (OTO α)) (c : OtoCmd α) (ret : Ret α)
    (hc : otoCmd regs c = some (regs', ret)) (j : Nat) (hj : j < regs.length)
    (ht : ∀ r side op, c = .op r side op → j ≠ r) (ht2 : ∀ r side src, c = .updateFrom r side src → j ≠ r) :
    regs'[j]? = regs[j]? :=
  otoCmd_isolated hc j hj ht ht2

/-- `copy()` / `OneToOne(x)` of an instance reached by a history holds the same items, in the same order -/
theorem oto_copy_same_items (s : OTO α) (w : s.WF) :
    (OTO.ofPairs (s.items false)).fwd = s.fwd ∧ (OTO.ofPairs (s.items false)).inv = s.fwd.map swap := by
  simp [OTO.items, OTO.ofPairs_of_wf w]

/-- `update(arg)` / `|= arg` is `x[k] = v` for every pair of the materialised argument, in order -/
theorem oto_update_sequential (s : OTO α) (k v : α) (ps : List (α × α)) :
    s.update ((k, v) :: ps) = (s.setitem k v).update ps ∧ s.update [] = s := ⟨rfl, rfl⟩

/-- pairs that do not collide with each other (distinct keys, distinct values) are ALL installed by
    `update` / `|=` - the first one included (the defect fixed in 8b557fc dropped it) -/
theorem oto_update_installs_all (s : OTO α) (w : s.WF) (ps : List (α × α))
    (hk : (ps.map Prod.fst).Nodup) (hv : (ps.map Prod.snd).Nodup) :
    ∀ p ∈ ps, p ∈ (s.update ps).fwd ∧ swap p ∈ (s.update ps).inv := by
  intro p hp
  have w' := w.update ps
  have h1 := OTO.update_installs_all w ps hk hv p hp
  exact ⟨(mem_iff_lookup _ w'.nf p.1 p.2).2 h1, (mem_iff_lookup _ w'.ni p.2 p.1).2 ((w'.inverse _ _).1 h1)⟩

/-- `del x[k]`: KeyError and no change for a missing key, else exactly the pair with key `k` goes -/
theorem oto_delitem_spec (s : OTO α) (k a : α) :
    (lookup k s.fwd = none → s.delitem k = (s, .err .KeyError)) ∧
    (∀ v, lookup k s.fwd = some v → (s.delitem k).2 = .none ∧
      lookup a (s.delitem k).1.fwd = if a = k then none else lookup a s.fwd) :=
  OTO.delitem_spec s k a

/-- `x.pop(k[, d])`: returns the value and removes exactly that pair; default / KeyError when missing -/
theorem oto_pop_spec (s : OTO α) (k : α) (d : Option α) (a : α) :
    (lookup k s.fwd = none → s.pop k d = (s, match d with | some x => .val x | none => .err .KeyError)) ∧
    (∀ v, lookup k s.fwd = some v → (s.pop k d).2 = .val v ∧
      lookup a (s.pop k d).1.fwd = if a = k then none else lookup a s.fwd) :=
  OTO.pop_spec s k d a

/-- `x.popitem()`: KeyError when empty, else returns one of the pairs and removes exactly it -/
theorem oto_popitem_spec (s : OTO α) (w : s.WF) (a : α) :
    (s.fwd = [] → s.popitem = (s, .err .KeyError)) ∧
    (s.fwd ≠ [] → ∃ k v, s.popitem.2 = .pair k v ∧ lookup k s.fwd = some v ∧
      lookup a s.popitem.1.fwd = if a = k then none else lookup a s.fwd) :=
  OTO.popitem_spec w a

/-- the correspondence's order-agnostic `popitem` (the driver is told which pair the implementation
    returned): a pair the object holds is removed exactly; anything else falls back to LIFO -/
theorem oto_popitem_any_spec (s : OTO α) (k v a : α) :
    (lookup k s.fwd = some v → (s.popitemAs k v).2 = .pair k v ∧
      lookup a (s.popitemAs k v).1.fwd = if a = k then none else lookup a s.fwd) ∧
    (lookup k s.fwd ≠ some v → s.popitemAs k v = s.popitem) := by
  unfold OTO.popitemAs
  constructor
  · intro hk; simp [hk, lookup_erase]
  · intro hk; simp [hk]

/-- `x.setdefault(k, d)`: an existing key is returned untouched, a missing one is `x[k] = d` -/
theorem oto_setdefault_spec (s : OTO α) (w : s.WF) (k d : α) :
    (∀ v, lookup k s.fwd = some v → s.setdefault k d = (s, .val v)) ∧
    (lookup k s.fwd = none → s.setdefault k d = (s.setitem k d, .val d)) :=
  OTO.setdefault_spec w k d

/-- the constructor keeps only items of `dict(pairs)`, and all of them when no value repeats -/
theorem oto_ctor_spec (ps : List (α × α)) :
    (∀ k v, lookup k (OTO.ofPairs ps).fwd = some v → lookup k (putAll ([] : Dict α α) ps) = some v) ∧
    (((putAll ([] : Dict α α) ps).map Prod.snd).Nodup → (OTO.ofPairs ps).fwd = putAll [] ps) :=
  ⟨OTO.ofPairs_sub ps, OTO.ofPairs_injective ps⟩

/-- … and loses no VALUE of `dict(pairs)`: when a value repeats, one of its keys survives (the property
    leaves open which), so `set(x.values()) == set(dict(pairs).values())` -/
theorem oto_ctor_values_kept (ps : List (α × α)) (k v : α)
    (h : lookup k (putAll ([] : Dict α α) ps) = some v) : ∃ k', lookup k' (OTO.ofPairs ps).fwd = some v :=
  OTO.ofPairs_values_kept ps k v h

/-- the correspondence's order-agnostic constructor (the driver is told which items the implementation's instance
    holds; used for `OneToOne(other, **kw)` with colliding values, where the surviving key depends on the iteration
    order of `other`): whatever it is told, the instance satisfies the invariant, holds only items of `dict(pairs)` and
    loses no value of it; an outcome that is not admissible falls back to `ofPairs` -/
theorem oto_ctor_any_spec (ps hint : List (α × α)) :
    (OTO.ofPairsAs ps hint).WF ∧
    (∀ k v, lookup k (OTO.ofPairsAs ps hint).fwd = some v → lookup k (putAll ([] : Dict α α) ps) = some v) ∧
    (∀ k v, lookup k (putAll ([] : Dict α α) ps) = some v → ∃ k', lookup k' (OTO.ofPairsAs ps hint).fwd = some v) ∧
    (OTO.admissible ps hint = false → OTO.ofPairsAs ps hint = OTO.ofPairs ps) := by
  refine ⟨OTO.WF.ofPairsAs ps hint, (OTO.ofPairsAs_spec ps hint).1, (OTO.ofPairsAs_spec ps hint).2, fun h => ?_⟩
  simp [OTO.ofPairsAs, h]

/-- `OneToOne.unique(pairs)` raises ValueError exactly when some value sits under two keys of `dict(pairs)`;
    otherwise it is the plain constructor and holds `dict(pairs)` itself -/
theorem oto_unique_spec (ps : List (α × α)) :
    (OTO.uniqueOfPairs ps = none ↔ ¬ ((putAll ([] : Dict α α) ps).map Prod.snd).Nodup) ∧
    (∀ s, OTO.uniqueOfPairs ps = some s → s = OTO.ofPairs ps ∧ s.fwd = putAll [] ps) :=
  OTO.uniqueOfPairs_spec ps

/-! non-vacuity: a history with overwrite + eviction through both sides, update from the own inverse, copy -/
example : OTO.uniqueOfPairs [(1, 2), (3, 4), (5, 2)] = (none : Option (OTO Nat)) ∧
    (OTO.uniqueOfPairs [(1, 2), (3, 4), (1, 5)] : Option (OTO Nat)) = some ⟨[(1, 5), (3, 4)], [(5, 1), (4, 3)]⟩ := by decide
/-- `oto_ctor_any_spec`: value 2 sits under keys 1 and 5; an implementation that kept key 1 is accepted, one that
    reports a pair `dict(pairs)` does not have is not (fallback: key 5 keeps it) -/
example : (OTO.ofPairsAs [(1, 2), (3, 4), (5, 2)] [(3, 4), (1, 2)] : OTO Nat) = ⟨[(3, 4), (1, 2)], [(4, 3), (2, 1)]⟩ ∧
    (OTO.ofPairsAs [(1, 2), (3, 4), (5, 2)] [(3, 4), (7, 2)] : OTO Nat) = ⟨[(5, 2), (3, 4)], [(2, 5), (4, 3)]⟩ := by decide
/-- the hypothesis of `oto_ctor_values_kept`: value 2 sits under keys 1 and 5; key 5 keeps it -/
example : lookup 1 (putAll ([] : Dict Nat Nat) [(1, 2), (3, 4), (5, 2)]) = some 2 ∧
    lookup 5 (OTO.ofPairs [(1, 2), (3, 4), (5, 2)] : OTO Nat).fwd = some 2 := by decide
example : otoRun ([] : List (OTO Nat))
    [.new (.pairs [(1, 3), (2, 3), (4, 5)]), .op 0 true (.setitem 5 2), .copy 0 true,
     .updateFrom 1 false (.reg 0 false [(7, 7)]), .op 0 false .popitem]
    = some [⟨[], []⟩, ⟨[(5, 2), (2, 5), (7, 7)], [(2, 5), (5, 2), (7, 7)]⟩] := by decide
example : (OTO.setitem (⟨[(1, 2), (3, 4)], [(2, 1), (4, 3)]⟩ : OTO Nat) 1 4) = ⟨[(1, 4)], [(4, 1)]⟩ := by decide
/-- a state satisfying the `s.WF` hypotheses above (any constructed instance does) -/
example : (OTO.ofPairs [(1, 2), (3, 4), (5, 2)] : OTO Nat).WF := OTO.WF.ofPairs _
example : (OTO.ofPairs [(1, 2), (3, 4), (5, 2)] : OTO Nat) = ⟨[(5, 2), (3, 4)], [(2, 5), (4, 3)]⟩ := by decide
/-- hypotheses of `oto_update_installs_all` on a colliding target: both old pairs are evicted, all three new ones land -/
example : ((OTO.ofPairs [(1, 2), (3, 4)] : OTO Nat).update [(1, 4), (3, 9), (7, 2)]).fwd = [(1, 4), (3, 9), (7, 2)]
    ∧ ([(1, 4), (3, 9), (7, 2)].map Prod.fst).Nodup ∧ ([(1, 4), (3, 9), (7, 2)].map Prod.snd).Nodup := by decide

/-! ## OneToOne, caller level (`Args.lean`, round 3): arguments as the caller built them

dict / OrderedDict / keyword arguments hold a key once (first position, last value); a one-shot iterator is an object
the caller may keep, consume from and pass again; the callee makes ONE pass over its argument. -/

/-- MAIN at caller level: after any history of constructors / `unique` / `copy` / mutators / `update` and `|=` with
    dict, pair-list, fresh or held one-shot iterator, another instance (either side, itself included) and keyword
    arguments - with iterators created, partly consumed by the caller and passed again in between - every instance
    satisfies the invariant, so both sides hold exactly the same pairs, transposed -/
theorem otoA_invariant (cmds : List (OtoCmdA α)) (st : OtoSt α) (h : otoRunA OtoSt.empty cmds = some st) :
    ∀ s ∈ st.regs, s.WF ∧ ∀ k v, (k, v) ∈ s.fwd ↔ (v, k) ∈ s.inv := by
  obtain ⟨cs', hcs'⟩ := otoRunA_lower cmds h
  intro s hs
  exact ⟨oto_invariant cs' st.regs hcs' s hs, oto_exact_inverses cs' st.regs hcs' s hs⟩

/-- a one-shot iterator gives what it has left to the first pass made over it, is empty afterwards (a second pass over
    the same object gets nothing), and no other iterator is touched -/
theorem otoA_iter_one_shot (st : OtoSt α) (i : Nat) (ps : List (α × α)) (its : List (List (α × α)))
    (h : takeArg st (.iter i) = some (ps, its)) :
    st.iters[i]? = some ps ∧ its[i]? = some [] ∧ (∀ j, j ≠ i → its[j]? = st.iters[j]?) ∧
    takeArg ⟨st.regs, its⟩ (.iter i) = some ([], its) :=
  takeArg_iter_one_shot st i ps its h

/-- a dict / OrderedDict / keyword argument delivers each key of the raw pairs once, with the last value written -/
theorem otoA_dict_arg (st : OtoSt α) (raw : List (α × α)) :
    takeArg st (.dict raw) = some (putAll [] raw, st.iters) ∧ NodupKeys (putAll ([] : Dict α α) raw) ∧
    (∀ k, k ∈ keys (putAll ([] : Dict α α) raw) ↔ k ∈ keys raw) ∧
    (∀ (raw' : List (α × α)) k v a, lookup a (putAll ([] : Dict α α) (raw' ++ [(k, v)]))
      = if a = k then some v else lookup a (putAll ([] : Dict α α) raw')) :=
  takeArg_dict st raw

/-- `x.update(it)` with a held one-shot iterator whose remaining pairs do not collide with each other: ALL of them are
    installed on both sides - the first one included (8b557fc) - and the iterator is left empty -/
theorem otoA_update_iter_installs_all (st st' : OtoSt α) (ret : Ret α) (r i : Nat) (s : OTO α) (ps : List (α × α))
    (hr : st.regs[r]? = some s) (w : s.WF) (hi : st.iters[i]? = some ps)
    (hk : (ps.map Prod.fst).Nodup) (hv : (ps.map Prod.snd).Nodup)
    (h : otoCmdA st (.update r false (.iter i) []) = some (st', ret)) :
    st'.regs[r]? = some (s.update ps) ∧ (∀ p ∈ ps, p ∈ (s.update ps).fwd ∧ swap p ∈ (s.update ps).inv) ∧
    st'.iters[i]? = some [] :=
  update_iter_installs_all st st' ret r i s ps hr w hi hk hv h

/-! non-vacuity: an iterator of three pairs, one taken by the caller, passed to `update` (two pairs land), passed
    again to another instance's constructor (nothing left); a dict argument written with key 1 twice delivers
    `[(1, 6), (2, 6)]`, so `2: 6` evicts `1: 6` (the raw list applied in order would end with `1: 6`) -/
example : otoRunA (OtoSt.empty : OtoSt Nat)
    [.new .none [], .mkIter [(1, 2), (3, 4), (5, 6)], .next 0, .update 0 false (.iter 0) [(7, 8)], .new (.iter 0) [],
     .update 0 true (.dict [(1, 5), (2, 6), (1, 6)]) []]
    = some ⟨[⟨[(3, 4), (5, 6), (7, 8), (6, 2)], [(4, 3), (6, 5), (8, 7), (2, 6)]⟩, ⟨[], []⟩], [[]]⟩ := by decide
example : takeArg (⟨[], [[(3, 4), (5, 6)]]⟩ : OtoSt Nat) (.iter 0) = some ([(3, 4), (5, 6)], [[]]) := by decide

/-! ## ManyToMany

A history: constructors from pairs / mapping / another instance (either side), and
`add`, `remove`, `__setitem__`, `__delitem__`, `update` (pairs, mapping, or another
ManyToMany - also the instance itself or its own inverse), `replace`, through either side. -/

/-- ManyToMany is modelled as a class of its own (two dicts of sets, six mutators): that is only right while it
    inherits no mutating dict method from a builtin container - every one it has is a Python function of the class
    (`Generated.m2mForeignMutators` is regenerated from the evaluated class on every run) -/
theorem m2m_no_foreign_mutators : Generated.m2mForeignMutators = [] := by decide

/-- MAIN: after any history every instance satisfies the invariant (both dicts have unique keys,
    no empty and no duplicated set element, `v ∈ data[k] ↔ k ∈ inv[v]`) -/
theorem m2m_invariant (cmds : List (M2MCmd α)) (regs : List (M2M α))
    (h : m2mRun [] cmds = some regs) : ∀ s ∈ regs, s.WF :=
  m2mRun_wf cmds (fun _ hs => by simp at hs) h

/-- … hence `iteritems()` of the two sides yield exactly the same pairs, transposed -/
theorem m2m_same_pairs_transposed (cmds : List (M2MCmd α)) (regs : List (M2M α))
    (h : m2mRun [] cmds = some regs) (s : M2M α) (hs : s ∈ regs) (k v : α) :
    (k, v) ∈ iteritems s.data ↔ (v, k) ∈ iteritems s.inv := by
  have w := m2m_invariant cmds regs h s hs
  rw [mem_iteritems w.gd, mem_iteritems w.gi]
  exact w.transpose k v

/-- … as lists: `list(x.inv.iteritems())` is a permutation of the swapped `list(x.iteritems())` (every pair
    exactly once on each side) … -/
theorem m2m_inv_perm (cmds : List (M2MCmd α)) (regs : List (M2M α))
    (h : m2mRun [] cmds = some regs) (s : M2M α) (hs : s ∈ regs) :
    (iteritems s.inv).Perm ((iteritems s.data).map swap) ∧ (iteritems s.inv).length = (iteritems s.data).length := by
  have hp := M2M.inv_perm (m2m_invariant cmds regs h s hs)
  exact ⟨hp, by simpa using hp.length_eq⟩

/-- … `iteritems()` yields no pair twice … -/
theorem m2m_pairs_nodup (cmds : List (M2MCmd α)) (regs : List (M2M α))
    (h : m2mRun [] cmds = some regs) (s : M2M α) (hs : s ∈ regs) :
    (iteritems s.data).Nodup ∧ (iteritems s.inv).Nodup := by
  have w := m2m_invariant cmds regs h s hs
  exact ⟨nodup_iteritems w.gd, nodup_iteritems w.gi⟩

/-- … with no empty entry and no key listed twice, on either side -/
theorem m2m_no_empty_entries (cmds : List (M2MCmd α)) (regs : List (M2M α))
    (h : m2mRun [] cmds = some regs) (s : M2M α) (hs : s ∈ regs) :
    (∀ p ∈ s.data, p.2 ≠ []) ∧ (∀ p ∈ s.inv, p.2 ≠ []) ∧ (keys s.data).Nodup ∧ (keys s.inv).Nodup := by
  have w := m2m_invariant cmds regs h s hs
  exact ⟨w.gd.ne_of_mem, w.gi.ne_of_mem, w.gd.nk, w.gi.nk⟩

/-- `x.inv.inv is x` -/
theorem m2m_inv_inv (s : M2M α) (op : M2MOp α) :
    s.flip.flip = s ∧ ((s.flip.stepSide true op).1.flip, (s.flip.stepSide true op).2) = s.stepSide false op :=
  ⟨rfl, rfl⟩

/-- a mutator (including `update(other)`) leaves every other instance - in particular the one it
    was built or updated from - exactly as it was -/
theorem m2m_isolation (regs regs' : List (M2M α)) (c : M2MCmd α) (ret : Ret α)
    (hc : m2mCmd regs c = some (regs', ret)) (j : Nat) (hj : j < regs.length)
    (ht : ∀ r side op, c = .op r side op → j ≠ r)
    (ht2 : ∀ r side r2 side2, c = .updateFrom r side r2 side2 → j ≠ r) :
    regs'[j]? = regs[j]? :=
  m2mCmd_isolated hc j hj ht ht2

/-- `x.inv.add(v, k)` is `x.add(k, v)`, `x.inv.remove(v, k)` is `x.remove(k, v)` - same dicts, same KeyError -/
theorem m2m_add_remove_through_inv (s : M2M α) (w : s.WF) (k v : α) :
    s.stepSide true (.add v k) = s.stepSide false (.add k v) ∧
    s.stepSide true (.remove v k) = s.stepSide false (.remove k v) := by
  constructor
  · rfl
  · have t := w.transpose k v
    by_cases h : v ∈ getSet k s.data
    · have h' := t.1 h
      simp [M2M.stepSide, M2M.step, M2M.remove, M2M.flip, M2M.removeRaw, h, h']
    · have h' : ¬ k ∈ getSet v s.inv := fun x => h (t.2 x)
      simp [M2M.stepSide, M2M.step, M2M.remove, M2M.flip, h, h']
example : (M2M.empty.updatePairs [(1, 5), (2, 5)] : M2M Nat).stepSide true (.remove 5 1) = (⟨[(2, [5])], [(5, [2])]⟩, .none) ∧
    ((M2M.empty.updatePairs [(1, 5), (2, 5)] : M2M Nat).stepSide true (.remove 5 7)).2 = .err .KeyError := by decide

/-! what each mutator does to the relation (forward side; the inverse side follows by the invariant) -/

theorem m2m_add_spec (s : M2M α) (k v a x : α) :
    x ∈ getSet a (s.add k v).data ↔ x ∈ getSet a s.data ∨ (a = k ∧ x = v) :=
  mem_getSet_addTo s.data k v a x

theorem m2m_remove_spec (s : M2M α) (k v a x : α) :
    x ∈ getSet a (s.remove k v).1.data ↔ x ∈ getSet a s.data ∧ ¬ (a = k ∧ x = v) := by
  unfold M2M.remove
  split
  · exact mem_getSet_removeFrom s.data k v a x
  · next hn =>
    simp only
    constructor
    · intro hx
      refine ⟨hx, ?_⟩
      rintro ⟨e1, e2⟩
      subst e1; subst e2; exact hn hx
    · exact fun hx => hx.1

theorem m2m_setitem_spec (s : M2M α) (w : s.WF) (k : α) (vals : List α) (a x : α) :
    x ∈ getSet a (s.setitem k vals).data ↔ if a = k then x ∈ vals else x ∈ getSet a s.data :=
  M2M.setitem_data w k vals a x

theorem m2m_delitem_spec (s : M2M α) (k a x : α) (hk : hasKey k s.data = true) :
    x ∈ getSet a (s.delitem k).1.data ↔ a ≠ k ∧ x ∈ getSet a s.data := by
  unfold M2M.delitem
  rw [if_pos hk]
  show x ∈ getSet a (erase k s.data) ↔ _
  rw [getSet_erase]; split <;> simp_all

/-- `update(pairs)` / `update(mapping)` (and each `add` of it): the union with the pairs given -/
theorem m2m_update_pairs_spec (s : M2M α) (ps : List (α × α)) (a x : α) :
    x ∈ getSet a (s.updatePairs ps).data ↔ x ∈ getSet a s.data ∨ (a, x) ∈ ps :=
  M2M.updatePairs_data s ps a x

/-- the constructors: `ManyToMany(pairs)` yields exactly the pairs given, `ManyToMany(other)` exactly the pairs of
    `other` (in fresh set objects: `hm2m_separation` / `hm2m_isolation`) -/
theorem m2m_ctor_spec (ps : List (α × α)) (o : M2M α) (wo : o.WF) (a x : α) :
    ((a, x) ∈ iteritems (M2M.empty.updatePairs ps : M2M α).data ↔ (a, x) ∈ ps) ∧
    ((a, x) ∈ iteritems (M2M.empty.updateFrom o).data ↔ (a, x) ∈ iteritems o.data) :=
  ⟨M2M.ctor_pairs ps a x, M2M.ctor_from wo a x⟩

/-- `replace(k, nk)` renames `k` to `nk` in every pair, merging into pairs `nk` already has (the fixed code) -/
theorem m2m_replace_spec (s : M2M α) (w : s.WF) (k nk a x : α) :
    x ∈ getSet a (s.replace k nk).data ↔ (a ≠ k ∧ x ∈ getSet a s.data) ∨ (a = nk ∧ x ∈ getSet k s.data) :=
  M2M.replace_data w k nk a x

/-- `update(other)`: the union of the two relations -/
theorem m2m_update_spec (s o : M2M α) (wo : o.WF) (a x : α) :
    x ∈ getSet a (s.updateFrom o).data ↔ x ∈ getSet a s.data ∨ x ∈ getSet a o.data :=
  M2M.updateFrom_data wo a x

/-- a call made through `.inv` does to the relation, read transposed, what the same call made through the object does
    to the relation: `x` is under `a` afterwards iff `a` is under `x` in what `op` makes of the inverse object -/
theorem m2m_through_inv_transposed (s : M2M α) (w : s.WF) (op : M2MOp α) (a x : α) :
    x ∈ getSet a (s.stepSide true op).1.data ↔ a ∈ getSet x (s.flip.step op).1.data := by
  have w2 := w.flip.step op
  show x ∈ getSet a (s.flip.step op).1.inv ↔ _
  exact (w2.transpose x a).symm

/-- hence: `del x.inv[v]` drops exactly the pairs whose value is `v`; `x.inv[v] = ks` makes `ks` the keys holding `v`
    and touches no other value; `x.inv.replace(v, nv)` renames the value `v` to `nv` in every pair -/
theorem m2m_mutators_through_inv (s : M2M α) (w : s.WF) (v nv : α) (ks : List α) (a x : α) :
    (hasKey v s.inv = true → (x ∈ getSet a (s.stepSide true (.delitem v)).1.data ↔ x ≠ v ∧ x ∈ getSet a s.data)) ∧
    (x ∈ getSet a (s.stepSide true (.setitem v ks)).1.data ↔ if x = v then a ∈ ks else x ∈ getSet a s.data) ∧
    (x ∈ getSet a (s.stepSide true (.replace v nv)).1.data ↔
      (x ≠ v ∧ x ∈ getSet a s.data) ∨ (x = nv ∧ v ∈ getSet a s.data)) := by
  have wf := w.flip
  have t : ∀ p q : α, p ∈ getSet q s.inv ↔ q ∈ getSet p s.data := fun p q => (w.transpose p q).symm
  refine ⟨fun hk => ?_, ?_, ?_⟩
  · rw [m2m_through_inv_transposed s w]
    show a ∈ getSet x (s.flip.delitem v).1.data ↔ _
    rw [m2m_delitem_spec s.flip v x a hk]
    show x ≠ v ∧ a ∈ getSet x s.inv ↔ _
    rw [t]
  · rw [m2m_through_inv_transposed s w]
    show a ∈ getSet x (s.flip.setitem v ks).data ↔ _
    rw [m2m_setitem_spec s.flip wf v ks x a]
    split
    · rfl
    · show a ∈ getSet x s.inv ↔ _
      rw [t]
  · rw [m2m_through_inv_transposed s w]
    show a ∈ getSet x (s.flip.replace v nv).data ↔ _
    rw [m2m_replace_spec s.flip wf v nv x a]
    show (x ≠ v ∧ a ∈ getSet x s.inv) ∨ (x = nv ∧ a ∈ getSet v s.inv) ↔ _
    rw [t, t]
/-- non-vacuity: `del x.inv[5]` on pairs (1,5) (2,5) (2,6) leaves (2,6); `x.inv[6] = [1]` moves value 6 from key 2 to key 1 -/
example : ((M2M.empty.updatePairs [(1, 5), (2, 5), (2, 6)] : M2M Nat).stepSide true (.delitem 5)).1 = ⟨[(2, [6])], [(6, [2])]⟩ ∧
    hasKey 5 (M2M.empty.updatePairs [(1, 5), (2, 5), (2, 6)] : M2M Nat).inv = true ∧
    ((M2M.empty.updatePairs [(1, 5), (2, 5), (2, 6)] : M2M Nat).stepSide true (.setitem 6 [1])).1
      = ⟨[(1, [5, 6]), (2, [5])], [(5, [1, 2]), (6, [1])]⟩ := by decide

/-! the readers (`m[k]`, `get`, `in`, `len`, `keys()` / `iter`) - round 3: inside the model, compared by the
    correspondence on every dump -/

/-- after any history the readers of an instance tell the same story as `iteritems()`: `v in m.get(k)` iff the pair is
    there; `k in m` iff `k` has a pair (no empty entry is ever visible); `m[k]` raises KeyError exactly for `k not in m`
    and is otherwise the non-empty `m.get(k)`; `keys()` lists each key once, `len(m)` counts them -/
theorem m2m_readers_agree (cmds : List (M2MCmd α)) (regs : List (M2M α))
    (h : m2mRun [] cmds = some regs) (s : M2M α) (hs : s ∈ regs) (k v : α) :
    (v ∈ s.get k ↔ (k, v) ∈ iteritems s.data) ∧
    (s.contains k = true ↔ ∃ x, (k, x) ∈ iteritems s.data) ∧
    (s.getitem k = none ↔ s.contains k = false) ∧
    (∀ vs, s.getitem k = some vs → vs = s.get k ∧ vs ≠ [] ∧ vs.Nodup ∧ s.contains k = true) ∧
    s.keysList.Nodup ∧ s.len = s.keysList.length ∧ (k ∈ s.keysList ↔ s.contains k = true) := by
  have w := m2m_invariant cmds regs h s hs
  have ks := M2M.keys_spec w
  exact ⟨M2M.mem_get w k v, M2M.contains_iff w k, (M2M.getitem_spec w k).1, (M2M.getitem_spec w k).2,
    ks.1, ks.2.1, ks.2.2.1 k⟩

/-- … and the readers of `.inv` are those of the instance, transposed: `k in m.inv.get(v)` iff `v in m.get(k)`;
    `v in m.inv` iff some key holds `v` -/
theorem m2m_readers_transposed (cmds : List (M2MCmd α)) (regs : List (M2M α))
    (h : m2mRun [] cmds = some regs) (s : M2M α) (hs : s ∈ regs) (k v : α) :
    (k ∈ s.flip.get v ↔ v ∈ s.get k) ∧ (s.flip.contains v = true ↔ ∃ a, v ∈ s.get a) :=
  M2M.readers_transposed (m2m_invariant cmds regs h s hs) k v

/-- a reader through `.inv.inv` is the reader of the instance -/
theorem m2m_readers_inv_inv (s : M2M α) (k : α) :
    s.flip.flip.get k = s.get k ∧ s.flip.flip.contains k = s.contains k ∧ s.flip.flip.len = s.len := ⟨rfl, rfl, rfl⟩

/-! non-vacuity: the readers on a state with a shared value and a key that was emptied and dropped -/
example : m2mRun ([] : List (M2M Nat)) [.new [(1, 5), (2, 5), (2, 6)], .op 0 false (.remove 1 5)]
    = some [⟨[(2, [5, 6])], [(5, [2]), (6, [2])]⟩] := by decide
example : let s : M2M Nat := ⟨[(2, [5, 6])], [(5, [2]), (6, [2])]⟩
    s.get 2 = [5, 6] ∧ s.get 1 = [] ∧ s.getitem 1 = none ∧ s.contains 1 = false ∧ s.contains 2 = true ∧ s.len = 1 ∧
    s.keysList = [2] ∧ s.flip.get 5 = [2] ∧ s.flip.len = 2 := by decide

/-! non-vacuity: replace onto an existing key, update from the own inverse, then mutate the source -/
example : m2mRun ([] : List (M2M Nat))
    [.new [(1, 5), (2, 5), (2, 6)], .op 0 false (.replace 1 2), .newFrom 0 true,
     .updateFrom 1 false 1 true, .op 0 true (.delitem 5)]
    = some [⟨[(2, [6])], [(6, [2])]⟩,
            ⟨[(5, [2]), (6, [2]), (2, [5, 6])], [(2, [5, 6]), (5, [2]), (6, [2])]⟩] := by decide
/-- a state satisfying the `WF` hypotheses of the specification theorems -/
example : (M2M.empty.updatePairs [(1, 5), (2, 5), (2, 6)] : M2M Nat).WF := M2M.WF.empty.updatePairs _
example : ((M2M.empty.updatePairs [(1, 5), (2, 5), (2, 6)] : M2M Nat).replace 1 2) = ⟨[(2, [5, 6])], [(5, [2]), (6, [2])]⟩ := by
  decide
example : hasKey 2 (M2M.empty.updatePairs [(1, 5), (2, 5), (2, 6)] : M2M Nat).data = true := by decide

/-! ## ManyToMany, heap level: set OBJECTS with identities (`Heap.lean`)

In the by-value model above an instance cannot hold "another instance's set object", so `m2m_isolation` there says
nothing about aliasing.  The heap-level machine follows the class statement by statement - which statement creates a
set object, which one stores a reference, which one mutates in place - with all instances sharing one heap. -/

/-- MAIN (no aliasing): after ANY history - `update(other)` / `ManyToMany(other)` from either side of any instance,
    the instance itself and its own inverse included - every set object is referenced from exactly one key of one
    side of one instance, and every reference points into the heap -/
theorem hm2m_separation (cmds : List (M2MCmd α)) (st : HState α)
    (h : hm2mRun HState.empty cmds = some st) : HSep st :=
  hm2mRun_sep cmds HSep.empty h

/-- … hence a command changes no instance but its target: every other instance - in particular one the target was
    built or updated from - keeps the very same references, the set objects they point to are untouched, and so it
    is the same by value -/
theorem hm2m_isolation (cmds : List (M2MCmd α)) (st st' : HState α) (c : M2MCmd α) (ret : Ret α)
    (h : hm2mRun HState.empty cmds = some st) (hc : hm2mCmd st c = some (st', ret))
    (j : Nat) (s : HInst α) (hj : st.regs[j]? = some s) (ht : j ≠ c.target st.regs.length) :
    st'.regs[j]? = some s ∧ (∀ i ∈ idsI s, cell st'.heap i = cell st.heap i) ∧ s.abs st'.heap = s.abs st.heap := by
  obtain ⟨h1, h2⟩ := (hm2mCmd_sep (hm2m_separation cmds st h) hc).2.2 j s ht hj
  exact ⟨h1, h2, abs_congr _ _ _ h2⟩

/-- MAIN (refinement, FULL - round 2 had `hm2m_refines_partial` with the hypothesis `NoSelfUpdate`): for EVERY history,
    self-updates `x.update(x)` / `x.update(x.inv)` included, the heap-level machine (set objects with identities, every
    statement followed literally, the other instance's cells read live) shows by value exactly what the by-value
    machine shows: the same dicts in the same order, register by register (return values / KeyError: `hm2m_refines_cmd`) -/
theorem hm2m_refines (cmds : List (M2MCmd α)) (st : HState α)
    (h : hm2mRun HState.empty cmds = some st) : m2mRun [] cmds = some st.abs :=
  hm2mRun_sim cmds HSep.empty (fun _ hm => by simp [HState.abs, HState.empty] at hm) h

/-- one command, from any state a history can reach: same registers by value afterwards, same return value / KeyError -/
theorem hm2m_refines_cmd (cmds : List (M2MCmd α)) (st st' : HState α) (c : M2MCmd α) (ret : Ret α)
    (h : hm2mRun HState.empty cmds = some st) (hc : hm2mCmd st c = some (st', ret)) :
    m2mCmd st.abs c = some (st'.abs, ret) :=
  hm2mCmd_sim (hm2mRun_sep cmds HSep.empty h)
    (hm2mRun_wf cmds HSep.empty (fun _ hm => by simp [HState.abs, HState.empty] at hm) h) hc

/-- what the by-value machine does for a self-update: `x.update(x)` leaves the register as it is, `x.update(x.inv)`
    (through either side) makes it `selfMerge` - whose content `hm2m_self_update_spec` describes -/
theorem m2m_self_update_cmd (regs : List (M2M α)) (r : Nat) (s : M2M α) (side : Bool) (hr : regs[r]? = some s) :
    m2mCmd regs (.updateFrom r side r side) = some (regs, .none) ∧
    m2mCmd regs (.updateFrom r side r (!side)) = some (regs.set r ((selfMerge (s.side side)).side side), .none) := by
  have hf : ((!side) = side) = False := by cases side <;> simp
  constructor
  · simp only [m2mCmd, hr, M2M.updateFromReg, decide_true, if_true]
    rw [set_same hr]
  · simp only [m2mCmd, hr, M2M.updateFromReg, decide_true, if_true, hf, if_false]

/-- MAIN (heap level): after ANY history - self-updates `x.update(x)` / `x.update(x.inv)` included, which are
    handled on their own (`x.update(x)` changes nothing; `x.update(x.inv)` is `selfMerge`) - every instance, read
    through its references, satisfies the invariant: unique keys, no empty and no duplicated set element,
    `v ∈ data[k] ↔ k ∈ inv[v]` -/
theorem hm2m_invariant (cmds : List (M2MCmd α)) (st : HState α)
    (h : hm2mRun HState.empty cmds = some st) : ∀ s ∈ st.regs, (s.abs st.heap).WF := by
  intro s hs
  exact hm2mRun_wf cmds HSep.empty (fun _ hm => by simp [HState.abs, HState.empty] at hm) h _
    (List.mem_map_of_mem (f := HInst.abs st.heap) hs)

/-- … hence, at heap level too, `iteritems()` of the two sides yield exactly the same pairs transposed, with no
    empty entry on either side -/
theorem hm2m_same_pairs_transposed (cmds : List (M2MCmd α)) (st : HState α)
    (h : hm2mRun HState.empty cmds = some st) (s : HInst α) (hs : s ∈ st.regs) (k v : α) :
    ((k, v) ∈ iteritems (deref st.heap s.data) ↔ (v, k) ∈ iteritems (deref st.heap s.inv)) ∧
    (∀ p ∈ deref st.heap s.data, p.2 ≠ []) ∧ (∀ p ∈ deref st.heap s.inv, p.2 ≠ []) := by
  have w := hm2m_invariant cmds st h s hs
  refine ⟨?_, w.gd.ne_of_mem, w.gi.ne_of_mem⟩
  show (k, v) ∈ iteritems (s.abs st.heap).data ↔ (v, k) ∈ iteritems (s.abs st.heap).inv
  rw [mem_iteritems w.gd, mem_iteritems w.gi]
  exact w.transpose k v

/-- … and at heap level the readers (which dereference the instance's own set objects) agree with `iteritems()` and
    with the readers of the other side, after any history -/
theorem hm2m_readers_agree (cmds : List (M2MCmd α)) (st : HState α)
    (h : hm2mRun HState.empty cmds = some st) (s : HInst α) (hs : s ∈ st.regs) (k v : α) :
    (v ∈ (s.abs st.heap).get k ↔ (k, v) ∈ iteritems (deref st.heap s.data)) ∧
    ((s.abs st.heap).contains k = true ↔ ∃ x, (k, x) ∈ iteritems (deref st.heap s.data)) ∧
    ((s.abs st.heap).getitem k = none ↔ (s.abs st.heap).contains k = false) ∧
    (k ∈ (s.abs st.heap).flip.get v ↔ v ∈ (s.abs st.heap).get k) ∧
    (s.abs st.heap).len = (s.abs st.heap).keysList.length := by
  have w := hm2m_invariant cmds st h s hs
  exact ⟨M2M.mem_get w k v, M2M.contains_iff w k, (M2M.getitem_spec w k).1, (M2M.readers_transposed w k v).1,
    (M2M.keys_spec w).2.1⟩

/-- what `x.update(x.inv)` leaves in `x`: the union of the relation and its transpose -/
theorem hm2m_self_update_spec (A : M2M α) (w : A.WF) (a x : α) :
    (selfMerge A).WF ∧ (x ∈ getSet a (selfMerge A).data ↔ x ∈ getSet a A.data ∨ x ∈ getSet a A.inv) := by
  refine ⟨selfMerge_wf w, ?_⟩
  show x ∈ getSet a (List.foldl _ A.data A.inv) ↔ _
  rw [foldMerge_mem, w.gi.exists_iff]

/-! non-vacuity: build, replace onto an existing key, copy through the inverse side, update the copy from its own
    inverse, mutate the source: four set objects for instance 0 (cells 0 and 1 dropped by `replace` / `del`), six
    fresh ones for the copy, nothing shared -/
example : hm2mRun (HState.empty : HState Nat)
    [.new [(1, 5), (2, 5), (2, 6)], .op 0 false (.replace 1 2), .newFrom 0 true,
     .updateFrom 1 false 1 true, .op 0 true (.delitem 5)]
    = some ⟨[[5], [2], [6], [2], [2], [2], [5, 6], [5, 6], [2], [2]],
            [⟨[(2, 2)], [(6, 3)]⟩, ⟨[(5, 4), (6, 5), (2, 7)], [(2, 6), (5, 8), (6, 9)]⟩]⟩ := by decide
/-- a history WITH self-updates through both sides: covered by `hm2m_separation` / `hm2m_invariant` -/
example : (hm2mRun (HState.empty : HState Nat)
    [.new [(1, 5), (2, 6)], .updateFrom 0 false 0 true, .updateFrom 0 true 0 true, .op 0 true (.remove 5 1)]).map HState.abs
    = some [⟨[(2, [6]), (5, [1]), (6, [2])], [(6, [2]), (1, [5]), (2, [6])]⟩] := by decide
/-- the two machines on that history, as `hm2m_refines` says: identical dicts, order included -/
example : m2mRun ([] : List (M2M Nat))
    [.new [(1, 5), (2, 6)], .updateFrom 0 false 0 true, .updateFrom 0 true 0 true, .op 0 true (.remove 5 1)]
    = some [⟨[(2, [6]), (5, [1]), (6, [2])], [(6, [2]), (1, [5]), (2, [6])]⟩] := by decide
/-- what the invariant excludes, and the heap-level machine can express: an instance 1 that stores instance 0's
    set objects (the defect fixed in 5d85018) - `x0.add(6, 4)` then shows up in instance 1, on one side only -/
example : (hm2mCmd (⟨[[2], [6]], [⟨[(6, 0)], [(2, 1)]⟩, ⟨[(6, 0)], [(2, 1)]⟩]⟩ : HState Nat) (.op 0 false (.add 6 4))).map
      (fun p => p.1.abs)
    = some [⟨[(6, [2, 4])], [(2, [6]), (4, [6])]⟩, ⟨[(6, [2, 4])], [(2, [6])]⟩] := by decide

/-! ## ManyToMany, caller level (`Args.lean`, round 3)

Arguments as the caller built them: a mapping is walked by `keys()` / `[k]` (each key once, last value), a list or
iterator of pairs in one lazy pass, another ManyToMany by the two-loop merge; one-shot iterators are objects the caller
may keep, consume from and pass again.  The lowering looks only at the iterator store, so both machines run the same
lowered history. -/

/-- MAIN at caller level, by value: after any caller-level history every instance satisfies the invariant - the two
    sides hold the same pairs transposed, no empty entry -/
theorem m2mA_invariant (cmds : List (M2MCmdA α)) (st : M2MSt α) (h : m2mRunA M2MSt.empty cmds = some st) :
    ∀ s ∈ st.regs, s.WF ∧ (∀ k v, (k, v) ∈ iteritems s.data ↔ (v, k) ∈ iteritems s.inv) ∧
      (∀ p ∈ s.data, p.2 ≠ []) ∧ (∀ p ∈ s.inv, p.2 ≠ []) := by
  obtain ⟨cs', _, hr⟩ := m2mRunA_lower cmds h
  intro s hs
  have w := m2m_invariant cs' st.regs hr s hs
  exact ⟨w, m2m_same_pairs_transposed cs' st.regs hr s hs, w.gd.ne_of_mem, w.gi.ne_of_mem⟩

/-- MAIN at caller level, heap: the heap-level machine (set objects with identities) driven by a caller-level history
    shows by value exactly what the by-value machine shows, leaves the iterators in the same state, and no set object
    is referenced twice -/
theorem hm2mA_refines (cmds : List (M2MCmdA α)) (s : HM2MSt α) (h : hm2mRunA HM2MSt.empty cmds = some s) :
    m2mRunA M2MSt.empty cmds = some ⟨s.st.abs, s.iters⟩ ∧ HSep s.st := by
  obtain ⟨cs', hl, hr⟩ := hm2mRunA_lower cmds h
  exact ⟨m2mRunA_of_lower cmds [] _ [] _ cs' hl (hm2m_refines cs' s.st hr), hm2m_separation cs' s.st hr⟩

/-- a held one-shot iterator gives what it has left to the one pass made over it and is empty afterwards -/
theorem m2mA_iter_one_shot (its its' : List (List (α × α))) (i : Nat) (ps : List (α × α))
    (h : takePairs its (.iter i) = some (ps, its')) :
    its[i]? = some ps ∧ its'[i]? = some [] ∧ (∀ j, j ≠ i → its'[j]? = its[j]?) ∧
    takePairs its' (.iter i) = some ([], its') :=
  takePairs_iter_one_shot its its' i ps h

/-- what the argument kinds lower to: a mapping is `add(k, m[k])` for each key once (last value), another ManyToMany
    the two-loop merge, `ManyToMany(other)` the merge into a fresh instance -/
theorem m2mA_lowering (its : List (List (α × α))) (r r2 : Nat) (side side2 : Bool) (raw : List (α × α)) :
    lowerM its (.update r side (.dict raw)) = some (some (.op r side (.update (putAll [] raw))), its) ∧
    lowerM its (.update r side (.pairs raw)) = some (some (.op r side (.update raw)), its) ∧
    lowerM its (.update r side (.reg r2 side2)) = some (some (.updateFrom r side r2 side2), its) ∧
    lowerM its (.new (.reg r2 side2)) = some (some (.newFrom r2 side2), its) ∧
    lowerM its (.new (.dict raw)) = some (some (.new (putAll [] raw)), its) := ⟨rfl, rfl, rfl, rfl, rfl⟩

/-! non-vacuity: a mapping written with key 1 twice adds only `(1, 6)`, the same pairs as a list add both; an iterator
    of three pairs, one taken by the caller, then passed to `update` and again to a constructor (nothing left); a copy
    through the inverse side, updated from itself - on both machines -/
example : m2mRunA (M2MSt.empty : M2MSt Nat)
    [.new (.dict [(1, 5), (1, 6)]), .new (.pairs [(1, 5), (1, 6)]), .mkIter [(7, 8), (7, 9), (2, 9)], .next 0,
     .update 0 true (.iter 0), .new (.iter 0), .update 1 false (.reg 1 true)]
    = some ⟨[⟨[(1, [6]), (9, [7, 2])], [(6, [1]), (7, [9]), (2, [9])]⟩,
             ⟨[(1, [5, 6]), (5, [1]), (6, [1])], [(5, [1]), (6, [1]), (1, [5, 6])]⟩, ⟨[], []⟩], [[]]⟩ := by decide
example : (hm2mRunA (HM2MSt.empty : HM2MSt Nat)
    [.new (.dict [(1, 5), (1, 6)]), .new (.pairs [(1, 5), (1, 6)]), .mkIter [(7, 8), (7, 9), (2, 9)], .next 0,
     .update 0 true (.iter 0), .new (.iter 0), .update 1 false (.reg 1 true)]).map (fun s => (s.st.abs, s.iters))
    = some ([⟨[(1, [6]), (9, [7, 2])], [(6, [1]), (7, [9]), (2, [9])]⟩,
             ⟨[(1, [5, 6]), (5, [1]), (6, [1])], [(5, [1]), (6, [1]), (1, [5, 6])]⟩, ⟨[], []⟩], [[]]) := by decide

/-! ## FrozenDict

`Generated.frozenBlocked` / `Generated.frozenRaises` are regenerated from the class body on every
run; the model blocks a mutator iff its name is in that list, so the next two theorems re-check
the source's table. -/

/-- the model's list of mutating dict methods is complete for the interpreter the check runs under: every method
    `dict` has there is either one of the eight mutators or a known non-mutator, and all eight exist -/
theorem dict_methods_classified :
    (∀ n ∈ Generated.dictMethods, n ∈ dictMutators ∨ n ∈ dictNonMutators) ∧
    (∀ n ∈ dictMutators, n ∈ Generated.dictMethods) ∧ (∀ n ∈ dictMutators, n ∉ dictNonMutators) := by decide

/-- every mutating `dict` method resolves, on the evaluated class, to a function that does nothing but raise -/
theorem fd_all_mutators_blocked : ∀ n ∈ dictMutators, n ∈ Generated.frozenBlocked := by decide

/-- every mutating dict operation raises TypeError and leaves the FrozenDict unchanged -/
theorem fd_mutators_raise (s : FD) (m : Mut) : s.mutate m = (s, .err .TypeError) :=
  FD.mutate_blocked s m

/-- after any history of mutator attempts and `hash()` calls the items are what they were … -/
theorem fd_history_unchanged (ps : List (Nat × FVal)) (ops : List FdOp) :
    ((FD.ofPairs ps).run ops).items = (FD.ofPairs ps).items :=
  FD.run_items _ ops

/-- … and every `hash()` call, first or cached, yields the hash of those items (a FrozenHashError
    is replayed just as consistently: `none`) -/
theorem fd_hash_stable (ps : List (Nat × FVal)) (ops : List FdOp) :
    ((FD.ofPairs ps).run ops).hash.2 = hashOf (FD.ofPairs ps).items := by
  rw [FD.hash_of_cacheOk _ (FD.run_cacheOk _ ops (Or.inl rfl)), FD.run_items]

/-- equal FrozenDicts have equal hashes regardless of insertion order (`dictEq` is Python's
    `dict.__eq__`; the hash is a function of the canonical item set) -/
theorem fd_hash_order_independent (ps qs : List (Nat × FVal))
    (h : dictEq (FD.ofPairs ps).items (FD.ofPairs qs).items = true) :
    (FD.ofPairs ps).hash.2 = (FD.ofPairs qs).hash.2 :=
  hashOf_eq_of_dictEq _ _ (FD.ofPairs_nodup ps) (FD.ofPairs_nodup qs) h

/-- hashing fails (FrozenHashError) exactly when some value is unhashable -/
theorem fd_unhashable_iff (ps : List (Nat × FVal)) :
    (FD.ofPairs ps).hash.2 = none ↔ ∃ p ∈ (FD.ofPairs ps).items, p.2.hashable = false :=
  hashOf_none_iff _

/-- pickle / deepcopy (`type(self)(dict(self))`) and `copy()` return an equal value with an equal
    hash; `updated()` builds a new object (the original is not an argument of any later change) -/
theorem fd_rebuild_equal (ps : List (Nat × FVal)) :
    (FD.ofPairs ps).rebuild.items = (FD.ofPairs ps).items ∧
    dictEq (FD.ofPairs ps).copyItems (FD.ofPairs ps).items = true ∧
    (FD.ofPairs ps).rebuild.hash.2 = (FD.ofPairs ps).hash.2 := by
  have hn := FD.ofPairs_nodup ps
  have hr := FD.rebuild_items _ hn
  refine ⟨hr, dictEq_refl _ hn, ?_⟩
  show hashOf (FD.ofPairs ps).rebuild.items = hashOf (FD.ofPairs ps).items
  rw [hr]

/-- pickle / deepcopy of any FrozenDict `s` whose hash is ALREADY cached (under any atom hashing `ρ`): the
    clone carries no hash of its own, so wherever it comes to life (atoms hashing as `ρ'` - another
    process, another hash seed, re-created identity-hashed objects) its hash is the hash of ITS OWN
    items, i.e. that of a fresh FrozenDict built from them, and of every dict-equal FrozenDict there -/
theorem fd_clone_hash_own_items (ρ ρ' : Nat → Nat) (s : FD) :
    ((s.hashIn ρ).1.rebuild.hashIn ρ').2 = hashOfIn ρ' (s.hashIn ρ).1.rebuild.items ∧
    ((s.hashIn ρ).1.rebuild.hashIn ρ').2 = ((FD.ofPairs (s.hashIn ρ).1.rebuild.items).hashIn ρ').2 ∧
    (s.hashIn ρ).1.cloneHashOwn ρ ρ' = true ∧
    ∀ qs, dictEq (s.hashIn ρ).1.rebuild.items (FD.ofPairs qs).items = true →
      ((s.hashIn ρ).1.rebuild.hashIn ρ').2 = ((FD.ofPairs qs).hashIn ρ').2 := by
  have key : ∀ t : FD, (t.rebuild.hashIn ρ').2 = hashOfIn ρ' t.rebuild.items ∧
      ((FD.ofPairs t.rebuild.items).hashIn ρ').2 = hashOfIn ρ' t.rebuild.items := by
    intro t
    refine ⟨FD.hashIn_fresh ρ' _ rfl, ?_⟩
    rw [FD.hashIn_fresh ρ' _ rfl, FD.ofPairs_items_of_nodup _ (FD.rebuild_nodup t)]
  obtain ⟨h1, h2⟩ := key (s.hashIn ρ).1
  refine ⟨h1, h1.trans h2.symm, ?_, ?_⟩
  · unfold FD.cloneHashOwn
    rw [FD.hashIn_idem, h1, h2]; simp
  · intro qs hq
    rw [h1, FD.hashIn_fresh ρ' _ rfl]
    exact hashOfIn_eq_of_dictEq ρ' _ _ (FD.rebuild_nodup _) (FD.ofPairs_nodup qs) hq

/-- ANY two FrozenDicts a program can get hold of (constructor, `fromkeys`, `updated()` results, pickle /
    deepcopy clones, each after any `hash()` calls and mutator attempts, so with the `_hash` slot set or not)
    that are equal as dicts hash alike - or both raise FrozenHashError -/
theorem fd_equal_hash_reachable (s t : FD) (hs : FD.Reach s) (ht : FD.Reach t)
    (h : dictEq s.items t.items = true) : s.hash.2 = t.hash.2 :=
  FD.hash_eq_of_ok hs.ok ht.ok h

/-- what `updated()` / `fromkeys()` hand out is content-hashed on ITS OWN items whatever the original had
    cached: it equals, and hashes like, a fresh FrozenDict built from its items in the opposite order -/
theorem fd_derived_hash_own_items (s : FD) (hs : FD.Reach s) (ps : List (Nat × FVal)) (ks : List Nat) (v : FVal) :
    (dictEq (s.updated ps).items (FD.ofPairs (s.updated ps).items.reverse).items = true ∧
      (s.updated ps).hash.2 = (FD.ofPairs (s.updated ps).items.reverse).hash.2) ∧
    (dictEq (FD.fromkeys ks v).items (FD.ofPairs (FD.fromkeys ks v).items.reverse).items = true ∧
      (FD.fromkeys ks v).hash.2 = (FD.ofPairs (FD.fromkeys ks v).items.reverse).hash.2) := by
  have key : ∀ u : FD, FD.Reach u → dictEq u.items (FD.ofPairs u.items.reverse).items = true ∧
      u.hash.2 = (FD.ofPairs u.items.reverse).hash.2 := by
    intro u hu
    have he : dictEq u.items (FD.ofPairs u.items.reverse).items = true := by
      rw [FD.twin_items u hu.ok.1]; exact dictEq_reverse _ hu.ok.1
    exact ⟨he, FD.hash_eq_of_ok hu.ok (FD.Ok.ofPairs _) he⟩
  exact ⟨key _ (hs.updated ps), key _ (.fromkeys ks v)⟩

/-- `updated(pairs)`: a key of `pairs` gets its last value there, every other key keeps its value -/
theorem fd_updated_spec (s : FD) (ps : List (Nat × FVal)) (k : Nat) (v : FVal) (a : Nat) :
    lookup a (s.updated (ps ++ [(k, v)])).items = if a = k then some v else lookup a (s.updated ps).items := by
  simp only [FD.updated, putAll, List.foldl_append, List.foldl_cons, List.foldl_nil]
  exact lookup_put a k v _

/-! non-vacuity -/
/-- two reachable states with different histories and cache contents, equal as dicts: the original with its hash
    cached and then overwritten by `updated`, against a pickle clone of a differently ordered FrozenDict -/
example : FD.Reach ((FD.ofPairs [(1, .h 3), (2, .h 0)]).hash.1.updated [(1, .h 4)]) ∧
    FD.Reach (FD.ofPairs [(2, .h 0), (1, .h 4)]).hash.1.rebuild ∧
    dictEq ((FD.ofPairs [(1, .h 3), (2, .h 0)]).hash.1.updated [(1, .h 4)]).items
      (FD.ofPairs [(2, .h 0), (1, .h 4)]).hash.1.rebuild.items = true :=
  ⟨.updated _ (.hash (.ofPairs _)), .rebuild (.hash (.ofPairs _)), by decide⟩
example : ((FD.ofPairs [(1, .h 3), (2, .h 0)]).hash.1.updated [(1, .h 4)]).hash.2 = some [(1, 4), (2, 0)] := by decide
example : dictEq (FD.ofPairs [(1, .h 3), (2, .h 0), (1, .h 4)]).items (FD.ofPairs [(2, .h 0), (1, .h 4)]).items = true := by decide
example : (FD.ofPairs [(1, .h 3), (2, .h 0), (1, .h 4)]).hash.2 = some [(1, 4), (2, 0)] := by decide
example : (FD.ofPairs [(1, .h 3), (2, .u 0)]).hash.2 = none := by decide
/-- the situation of `fd_clone_hash_own_items`: cached hash under `id`, clone hashed under another `ρ'`;
    a clone that kept the cache would answer `[(1, 3), (2, 100)]` instead -/
example : (((FD.ofPairs [(2, .h 100), (1, .h 3)]).hashIn id).1.rebuild.hashIn (fun n => 7 * n + 3)).2
    = some [(10, 24), (17, 703)] := by decide
example : ((FD.ofPairs [(1, .h 3)]).run [.hash, .mutate .clear, .mutate (.setitem 2 (.h 2)), .hash]).items = [(1, .h 3)] := by decide

/-! ## object lifetime (round 5): only a DERIVED object is kept alive -/

/-- `x = Cls(...)` for one of the two paired classes: the reference kinds come from the regenerated table -/
def lifeAlloc (cls : String) (r : Nat) : LCmd := .alloc (refsOf cls).1 (refsOf cls).2 r

/-- the regenerated table (read off fresh instances of the tree under test): in both classes the object refers
    strongly to its `.inv` and the `.inv` object refers strongly back - a `weakref.ref` on either side turns this red -/
theorem life_generated_refs_strong :
    (lifeAlloc "OneToOne" 0).strongOnly = true ∧ (lifeAlloc "ManyToMany" 0).strongOnly = true := by decide

theorem lifeAlloc_strong (cls : String) (h : cls = "OneToOne" ∨ cls = "ManyToMany") (r : Nat) :
    (lifeAlloc cls r).strongOnly = true := by
  rcases h with rfl | rfl
  · exact life_generated_refs_strong.1
  · exact life_generated_refs_strong.2

/-- MAIN (lifetime): after ANY history of constructor calls, references taken through `.inv` chains and
    references let go of (each followed by a collection of everything unreachable), every reference the caller
    still holds is to a live half whose `.inv` is the live other half of the SAME instance, which refers back:
    what can be reached from a held half includes its peer, whoever else stopped holding it -/
theorem life_held_half_reaches_peer (cmds : List LCmd) (st : Life)
    (hc : ∀ c ∈ cmds, c.strongOnly = true) (h : lifeRun Life.empty cmds = some st) (a : Nat) (ha : a ∈ st.roots) :
    ∃ x y, st.get a = some x ∧ st.get x.peer = some y ∧ y.peer = a ∧ y.reg = x.reg ∧ y.side = !x.side := by
  obtain ⟨x, y, e1, e2, e3, e4, e5, _⟩ := good_run cmds _ st good_empty hc h a ha
  exact ⟨x, y, e1, e2, e3, e4, e5⟩

/-- … so `held.inv.inv is held`, and every `.inv` chain from a held reference ends on a live object (never on
    a freed one: `idx.inv` is never None) that is a half of the same instance, on the side the parity says -/
theorem life_inv_chain (cmds : List LCmd) (st : Life)
    (hc : ∀ c ∈ cmds, c.strongOnly = true) (h : lifeRun Life.empty cmds = some st) (a : Nat) (ha : a ∈ st.roots) :
    follow st.objs a 2 = some a ∧ ∀ n, ∃ b, follow st.objs a n = some b ∧ Paired st.objs b :=
  have g := good_run cmds _ st good_empty hc h a ha
  ⟨follow_two g, fun n => by
    obtain ⟨b, hb⟩ := follow_of_paired n a g
    exact ⟨b, hb, paired_follow n a b g hb⟩⟩

/-- … and taking a reference through any `.inv` chain from a held one never fails -/
theorem life_hold_succeeds (cmds : List LCmd) (st : Life)
    (hc : ∀ c ∈ cmds, c.strongOnly = true) (h : lifeRun Life.empty cmds = some st) (a : Nat) (ha : a ∈ st.roots)
    (n : Nat) : ∃ st', lifeCmd st (.hold a n) = some st' := by
  obtain ⟨b, hb⟩ := follow_of_paired n a (good_run cmds _ st good_empty hc h a ha)
  exact ⟨⟨st.objs, st.roots ++ [b]⟩, by simp [lifeCmd, holdRef, ha, hb]⟩

/-- `idx = Cls(pairs).inv` spelled out: the caller takes `b = a.inv`, then lets go of `a` (its only reference
    to the forward half, or not) and everything unreachable is freed.  Both halves are still there, unchanged, and
    `b.inv` is `a`: nothing changed for the instance machines, in which instances simply never die -/
theorem life_keep_only_inv (cmds : List LCmd) (st st1 st2 : Life)
    (hc : ∀ c ∈ cmds, c.strongOnly = true) (h : lifeRun Life.empty cmds = some st) (a b : Nat) (ha : a ∈ st.roots)
    (hb : follow st.objs a 1 = some b) (h1 : lifeCmd st (.hold a 1) = some st1) (h2 : lifeCmd st1 (.drop a) = some st2) :
    b ∈ st2.roots ∧ st2.get a = st.get a ∧ st2.get b = st.get b ∧ follow st2.objs b 1 = some a := by
  obtain ⟨x, y, e1, e2, e3, e4, e5, e6, e7⟩ := good_run cmds _ st good_empty hc h a ha
  have hxb : x.peer = b := by simpa [follow, e1, e2] using hb
  subst hxb
  have hne : x.peer ≠ a := by
    intro e
    rw [e] at e2
    rw [e1] at e2
    cases e2
    cases hx : x.side <;> simp [hx] at e5
  simp only [lifeCmd, holdRef, ha, if_true, hb, Option.map_some, Option.some.injEq] at h1
  subst h1
  have ha1 : a ∈ st.roots ++ [x.peer] := List.mem_append_left _ ha
  simp only [lifeCmd, ha1, if_true, Option.some.injEq] at h2
  subst h2
  have hbr : x.peer ∈ (st.roots ++ [x.peer]).erase a :=
    (List.mem_erase_of_ne hne).mpr (List.mem_append_right _ (by simp))
  have rb : Reach ⟨st.objs, (st.roots ++ [x.peer]).erase a⟩ x.peer := .root hbr
  have ra : Reach ⟨st.objs, (st.roots ++ [x.peer]).erase a⟩ a := by
    have := Reach.ref rb (h := y) e2 e7
    rwa [e3] at this
  have gb := collect_get rb
  have ga := collect_get ra
  refine ⟨by rw [collect_roots]; exact hbr, ga, gb, ?_⟩
  have gb' : getO (collect ⟨st.objs, (st.roots ++ [x.peer]).erase a⟩).objs x.peer = some y := by
    have := gb; unfold Life.get at this; rw [this]; exact e2
  have ga' : getO (collect ⟨st.objs, (st.roots ++ [x.peer]).erase a⟩).objs a = some x := by
    have := ga; unfold Life.get at this; rw [this]; exact e1
  simp [follow, gb', e3, ga']

/-- the model can tell the difference: with a WEAK back reference (the inverse half stores `weakref.ref(forward)`)
    the same three commands free the forward half, and `idx.inv` reads a dead reference -/
theorem life_weak_back_reference_loses_peer :
    (lifeRun Life.empty [.alloc true false 0, .hold 0 1, .drop 0]).map
      (fun st => (st.roots, st.get 0, follow st.objs 1 1)) = some ([1], none, none) := by decide

/-! non-vacuity: `idx = ManyToMany(pairs).inv`; `y = OneToOne(pairs).inv.inv` with everything else let go -/
example : (lifeRun Life.empty [lifeAlloc "ManyToMany" 0, .hold 0 1, .drop 0]).map
    (fun st => (st.roots, follow st.objs 1 1, follow st.objs 1 2, st.resolve 0)) =
    some ([1], some 0, some 1, some (0, false)) := by decide
example : (lifeRun Life.empty [lifeAlloc "OneToOne" 0, lifeAlloc "ManyToMany" 1, .hold 0 2, .drop 0, .drop 2, .hold 0 1,
    .drop 0]).map (fun st => (st.roots, st.objs.map Option.isSome)) = some ([1], [true, true, false, false]) := by decide
example : ((((Caller.empty.newReg "ManyToMany").bind fun c => c.keep 0 "i").bind fun c => c.keep 0 "ii").map
    fun c => (c.held, c.ok)) = some ([(some 0, none)], true) := by decide

end C17
