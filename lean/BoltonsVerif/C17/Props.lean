import BoltonsVerif.C17.Proofs
namespace C17
variable {α : Type} [DecidableEq α]

/-- `x.inv.inv is x` -/
theorem oto_inv_inv (s : OTO α) : s.flip.flip = s := rfl

end C17
