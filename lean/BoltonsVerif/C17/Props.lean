import BoltonsVerif.C17.Proofs
/-
C17 — property theorems (statements + short derivations from `Proofs.lean`, and
non-vacuity examples).

OneToOne.  A history is a list of commands on a register file of instances
(`otoRun [] cmds`): constructors from pairs / from another instance (either side,
plus keyword items) / `unique` / `copy`, and every mutator (`__setitem__`,
`__delitem__`, `update` with any materialised argument, `|=`, `setdefault`, `pop`,
`popitem`, `clear`) applied through the forward object or through `.inv`.
-/
namespace C17
variable {α : Type} [DecidableEq α]

/-! ## OneToOne -/

/-- MAIN: after any history, every instance satisfies the invariant (unique keys on both
    sides, `fwd[k] = v ↔ inv[v] = k`) -/
theorem oto_invariant (cmds : List (OtoCmd α)) (regs : List (OTO α))
    (h : otoRun [] cmds = some regs) : ∀ s ∈ regs, s.WF :=
  otoRun_wf cmds (fun _ hs => by simp at hs) h

/-- … hence the two sides hold exactly the same pairs, transposed -/
theorem oto_exact_inverses (cmds : List (OtoCmd α)) (regs : List (OTO α))
    (h : otoRun [] cmds = some regs) (s : OTO α) (hs : s ∈ regs) (k v : α) :
    (k, v) ∈ s.fwd ↔ (v, k) ∈ s.inv := by
  have w := oto_invariant cmds regs h s hs
  rw [mem_iff_lookup _ w.nf, mem_iff_lookup _ w.ni]
  exact w.inverse k v

/-- … `list(x.inv.items())` is a permutation of the swapped `list(x.items())` (same length) -/
theorem oto_inv_perm (cmds : List (OtoCmd α)) (regs : List (OTO α))
    (h : otoRun [] cmds = some regs) (s : OTO α) (hs : s ∈ regs) :
    s.inv.Perm (s.fwd.map swap) ∧ s.inv.length = s.fwd.length := by
  have w := oto_invariant cmds regs h s hs
  have hp : s.inv.Perm (s.fwd.map swap) := by
    rw [List.perm_ext_iff_of_nodup (nodup_of_nodup_map Prod.fst _ w.ni)
      (nodup_of_nodup_map Prod.fst _ (nodup_values_of_wf w))]
    intro p
    obtain ⟨a, b⟩ := p
    rw [mem_map_swap]
    exact (oto_exact_inverses cmds regs h s hs b a).symm
  exact ⟨hp, by simpa using hp.length_eq⟩

/-- … and no value sits under two keys (nor a key under two values) -/
theorem oto_no_value_under_two_keys (cmds : List (OtoCmd α)) (regs : List (OTO α))
    (h : otoRun [] cmds = some regs) (s : OTO α) (hs : s ∈ regs) (k₁ k₂ v : α)
    (h₁ : (k₁, v) ∈ s.fwd) (h₂ : (k₂, v) ∈ s.fwd) : k₁ = k₂ := by
  have w := oto_invariant cmds regs h s hs
  have e₁ := (w.inverse k₁ v).1 ((mem_iff_lookup _ w.nf _ _).1 h₁)
  have e₂ := (w.inverse k₂ v).1 ((mem_iff_lookup _ w.nf _ _).1 h₂)
  rw [e₁] at e₂
  injection e₂

/-- `x.inv.inv is x`, and a call made through `.inv.inv` is the call made through `x` -/
theorem oto_inv_inv (s : OTO α) (op : OtoOp α) :
    s.flip.flip = s ∧ ((s.flip.stepSide true op).1.flip, (s.flip.stepSide true op).2) = s.stepSide false op :=
  ⟨rfl, rfl⟩

/-- what `x[k] = v` does to the pairs: the pair with key `k` and the pair with value `v`
    give way, every other pair stays (so nothing but the two sides' common pairs changes) -/
theorem oto_setitem_spec (s : OTO α) (w : s.WF) (k v a b : α) :
    (a, b) ∈ (s.setitem k v).fwd ↔ (a = k ∧ b = v) ∨ ((a, b) ∈ s.fwd ∧ a ≠ k ∧ b ≠ v) := by
  rw [mem_iff_lookup _ (w.setitem k v).nf, mem_iff_lookup _ w.nf, OTO.setitem_fwd w]
  grind

/-- a mutator leaves every other instance exactly as it was; constructors / copy only append -/
theorem oto_isolation (regs regs' : List (OTO α)) (c : OtoCmd α) (ret : Ret α)
    (hc : otoCmd regs c = some (regs', ret)) (j : Nat) (hj : j < regs.length)
    (ht : ∀ r side op, c = .op r side op → j ≠ r) (ht2 : ∀ r side src, c = .updateFrom r side src → j ≠ r) :
    regs'[j]? = regs[j]? :=
  otoCmd_isolated hc j hj ht ht2

/-- `copy()` / `OneToOne(x)` of an instance reached by a history holds the same items, in the same order -/
theorem oto_copy_same_items (s : OTO α) (w : s.WF) :
    (OTO.ofPairs (s.items false)).fwd = s.fwd ∧ (OTO.ofPairs (s.items false)).inv = s.fwd.map swap := by
  simp [OTO.items, OTO.ofPairs_of_wf w]

/-! non-vacuity: a history with overwrite + eviction through both sides, update from the own inverse, copy -/
example : otoRun ([] : List (OTO Nat))
    [.new (.pairs [(1, 3), (2, 3), (4, 5)]), .op 0 true (.setitem 5 2), .copy 0 true,
     .updateFrom 1 false (.reg 0 false [(7, 7)]), .op 0 false .popitem]
    = some [⟨[], []⟩, ⟨[(2, 5), (7, 7)], [(5, 2), (7, 7)]⟩] := by decide
example : (OTO.setitem (⟨[(1, 2), (3, 4)], [(2, 1), (4, 3)]⟩ : OTO Nat) 1 4) = ⟨[(1, 4)], [(4, 1)]⟩ := by decide

end C17
