import BoltonsVerif.Common
import BoltonsVerif.C17.Model
import BoltonsVerif.C17.Heap
import BoltonsVerif.C17.Args
import BoltonsVerif.C17.Lifetime
/-
C17 line protocol.  One line = one whole history:   <type> <tok> <tok> ...
type = oto | m2m | fd ; a token is `/`-separated, objects are natural-number ids,
`<s>` is the side (`f` forward object, `i` its `.inv`), pairs are `k:v,k:v` (`-` = empty).

oto:  MI/<pairs> (caller creates and keeps a one-shot iterator)  NX/<i> (caller takes one item off iterator i)
      N/<arg>/<kw>[/<pairs> = the items the implementation's instance holds: accepted if admissible]  Q/<arg>/<kw>  C/<r>/<s>  S/<r>/<s>/<k>/<v>  D/<r>/<s>/<k>  U/<r>/<s>/<arg>/<kw>
      arg = n | d<pairs> (dict, raw) | p<pairs> (list) | j<pairs> (iterator made for the call) | i<idx> (held iterator)
            | r<r>.<s> (another instance); kw = raw keyword pairs
      F/<r>/<s>/<k>/<d>  P/<r>/<s>/<k>/<d|->  I/<r>/<s>[/<k>:<v> = the pair the implementation popped]  L/<r>/<s>
m2m:  [X/<probe ids> first]  MI/<pairs>  NX/<i>  N/<arg>  A/<r>/<s>/<k>/<v>  R/<r>/<s>/<k>/<v>  S/<r>/<s>/<k>/<vals>
      D/<r>/<s>/<k>  U/<r>/<s>/<arg>  P/<r>/<s>/<k>/<nk>     (arg as for oto; d<pairs> = a mapping, raw)
fd:   B/<fpairs> first, then  Ms/<k>/<fv> Md/<k> Mi/<fpairs> Mu/<fpairs> Mf/<k>/<fv> Mp/<k> Mo Mc
      H  E/<fpairs>[/<route>]  U/<fpairs>  Y  K/<keys>/<fv>   (fv = h<n> | u<n>; Y = hash, then copy/deepcopy/pickle;
      route = how the other FrozenDict is reached: ctor fromdict updated updated_all overwrite pickle deepcopy copy)

both: K/<r>/<mode>  the caller keeps only … of instance r and lets go of its other references (then a collection):
      mode = i (the `.inv` object) | f (the forward object) | ii (what `x.inv.inv` gives) | fi (both again) | none.
      The instance machines are untouched (instances never die there); the record is `RG1|<regs…>` when, in the
      object-level machine of `Lifetime.lean` (halves = objects, `.inv` = a strong/weak reference as the
      regenerated table `Generated.invRefs` says, unreachable objects freed), every instance the caller still
      holds something of is reached whole from what is held (`Caller.ok`), else `RG0`.

Output: one record per token joined by `;`.  oto/m2m record: `<ret>|<reg0>|<reg1>…`
(ret: R- | R<v> | R<k>:<v> | X<ExceptionClass>); every register is dumped after every command.
m2m records end in `|V<0|1>S<0|1>`: the dump comes from the heap-level machine, V1 = the by-value machine holds the
very same dicts (as lists, self-updates included) and returned the same,
S1 = no set object is shared.
-/
namespace C17.Driver
open BV C17

def leNat (a b : Nat) : Bool := a ≤ b
def lePair (a b : Nat × Nat) : Bool := a.1 < b.1 || (a.1 == b.1 && a.2 ≤ b.2)

def showPairs (l : List (Nat × Nat)) : String :=
  if l.isEmpty then "-" else ",".intercalate (l.map fun p => s!"{p.1}:{p.2}")

def parsePairs? (s : String) : Option (List (Nat × Nat)) :=
  if s = "-" ∨ s = "" then some [] else
  (splitOnChar s ',').foldr (fun w acc =>
    match acc, splitOnChar w ':' with
    | some l, [a, b] => match a.toNat?, b.toNat? with
      | some x, some y => some ((x, y) :: l)
      | _, _ => none
    | _, _ => none) (some [])

def side? (s : String) : Option Bool :=
  if s = "f" then some false else if s = "i" then some true else none

def showRet : Ret Nat → String
  | .none => "R-"
  | .val v => s!"R{v}"
  | .pair k v => s!"R{k}:{v}"
  | .err e => "X" ++ e.name

/-! oto -/

/-- both sides sorted by key: the iteration order of the two dicts is not compared -/
def dumpOto (s : OTO Nat) : String :=
  s!"F{showPairs (s.fwd.mergeSort lePair)}/I{showPairs (s.inv.mergeSort lePair)}"

/-- a positional argument as the caller built it: `n` none, `d<pairs>` dict / OrderedDict, `p<pairs>` list of pairs,
    `j<pairs>` an iterator made for this call, `i<idx>` the held one-shot iterator `idx`, `r<r>.<s>` another instance -/
def arg? (t : String) : Option (Arg Nat) :=
  let rest := (t.drop 1).toString
  match t.front with
  | 'n' => if rest = "" then some .none else none
  | 'd' => (parsePairs? rest).map .dict
  | 'p' => (parsePairs? rest).map .pairs
  | 'j' => (parsePairs? rest).map .freshIter
  | 'i' => rest.toNat?.map .iter
  | 'r' => match splitOnChar rest '.' with
    | [r, sd] => match r.toNat?, side? sd with
      | some r, some sd => some (.reg r sd)
      | _, _ => none
    | _ => none
  | _ => none

/-! object lifetime (`Lifetime.lean`): which halves the caller still holds -/

/-- `K/<r>/<mode>`: the new caller state and the flag `RG1` / `RG0` (a reference that cannot be taken - an
    object on the way was freed - leaves the caller as it was, flag `RG0`) -/
def keepTok (cl : Caller) (tok : String) : Option (Caller × String) :=
  match splitOnChar tok '/' with
  | ["K", r, mode] => match r.toNat? with
    | some r => match cl.keep r mode with
      | some cl' => some (cl', if cl'.ok then "RG1" else "RG0")
      | none => some (cl, "RG0")
    | none => none
  | _ => none

/-- a command that created an instance: `x = Cls(...)` ; `inv = x.inv` -/
def grown (cl : Caller) (cls : String) (before after : Nat) : Caller :=
  if before < after then (cl.newReg cls).getD cl else cl

def otoTok? (tok : String) : Option (OtoCmdA Nat) :=
  match splitOnChar tok '/' with
  | ["MI", ps] => (parsePairs? ps).map .mkIter
  | ["NX", i] => i.toNat?.map .next
  | ["N", a, kw] => match arg? a, parsePairs? kw with
    | some a, some kw => some (.new a kw)
    | _, _ => none
  | ["N", a, kw, hint] => match arg? a, parsePairs? kw, parsePairs? hint with
    | some a, some kw, some hint => some (.newAs a kw hint)
    | _, _, _ => none
  | ["Q", a, kw] => match arg? a, parsePairs? kw with
    | some a, some kw => some (.unique a kw)
    | _, _ => none
  | ["C", r, s] => match r.toNat?, side? s with
    | some r, some s => some (.copy r s)
    | _, _ => none
  | ["S", r, s, k, v] => match r.toNat?, side? s, k.toNat?, v.toNat? with
    | some r, some s, some k, some v => some (.op r s (.setitem k v))
    | _, _, _, _ => none
  | ["D", r, s, k] => match r.toNat?, side? s, k.toNat? with
    | some r, some s, some k => some (.op r s (.delitem k))
    | _, _, _ => none
  | ["U", r, s, a, kw] => match r.toNat?, side? s, arg? a, parsePairs? kw with
    | some r, some s, some a, some kw => some (.update r s a kw)
    | _, _, _, _ => none
  | ["F", r, s, k, d] => match r.toNat?, side? s, k.toNat?, d.toNat? with
    | some r, some s, some k, some d => some (.op r s (.setdefault k d))
    | _, _, _, _ => none
  | ["P", r, s, k, d] => match r.toNat?, side? s, k.toNat? with
    | some r, some s, some k =>
      if d = "-" then some (.op r s (.pop k none)) else d.toNat?.map fun d => .op r s (.pop k (some d))
    | _, _, _ => none
  | ["I", r, s] => match r.toNat?, side? s with
    | some r, some s => some (.op r s .popitem)
    | _, _ => none
  | ["I", r, s, kv] => match r.toNat?, side? s, parsePairs? kv with
    | some r, some s, some [(k, v)] => some (.op r s (.popitemAs k v))
    | _, _, _ => none
  | ["L", r, s] => match r.toNat?, side? s with
    | some r, some s => some (.op r s .clear)
    | _, _ => none
  | _ => none

/-- the caller-level machine of `Args.lean`: dict / keyword de-duplication and the one pass over a one-shot
    iterator happen HERE, not in the harness -/
def runOto (toks : List String) : Option (List String) :=
  let rec go (st : OtoSt Nat) (cl : Caller) (toks : List String) (acc : List String) : Option (List String) :=
    match toks with
    | [] => some acc.reverse
    | t :: ts => match keepTok cl t with
      | some (cl', flag) => go st cl' ts (("|".intercalate (flag :: st.regs.map dumpOto)) :: acc)
      | none => match otoTok? t with
        | none => none
        | some c => match otoCmdA st c with
          | none => none
          | some (st', ret) =>
            go st' (grown cl "OneToOne" st.regs.length st'.regs.length) ts
              (("|".intercalate (showRet ret :: st'.regs.map dumpOto)) :: acc)
  go OtoSt.empty Caller.empty toks []

/-! m2m -/

def sortNats (l : List Nat) : List Nat := l.mergeSort leNat

def showGrouped (d : Dict Nat (List Nat)) : String :=
  let ents := (d.map fun p => (p.1, sortNats p.2)).mergeSort (fun a b => a.1 ≤ b.1)
  if ents.isEmpty then "-" else
  ",".intercalate (ents.map fun p => s!"{p.1}={showNats p.2 "."}")

def pairsOf (d : Dict Nat (List Nat)) : List (Nat × Nat) :=
  (iteritems d).mergeSort lePair

/-- the readers of one side on the probe keys: `len~keys~get(k),…~(k in m)…~m[k],…` (`X` = KeyError) -/
def showReaders (probe : List Nat) (m : M2M Nat) : String :=
  let gets := ",".intercalate (probe.map fun k => showNats (sortNats (m.get k)) ".")
  let has := String.join (probe.map fun k => if m.contains k then "1" else "0")
  let items := ",".intercalate (probe.map fun k => match m.getitem k with
    | some vs => showNats (sortNats vs) "."
    | none => "X")
  s!"{m.len}~{showNats (sortNats m.keysList) "."}~{gets}~{has}~{items}"

def dumpM2M (probe : List Nat) (s : M2M Nat) : String :=
  s!"F{showGrouped s.data}/P{showPairs (pairsOf s.data)}/I{showGrouped s.inv}/Q{showPairs (pairsOf s.inv)}" ++
  s!"/Z{showReaders probe s}/z{showReaders probe s.flip}"

def m2mTok? (tok : String) : Option (M2MCmdA Nat) :=
  match splitOnChar tok '/' with
  | ["MI", ps] => (parsePairs? ps).map .mkIter
  | ["NX", i] => i.toNat?.map .next
  | ["N", a] => (arg? a).map .new
  | ["A", r, s, k, v] => match r.toNat?, side? s, k.toNat?, v.toNat? with
    | some r, some s, some k, some v => some (.op r s (.add k v))
    | _, _, _, _ => none
  | ["R", r, s, k, v] => match r.toNat?, side? s, k.toNat?, v.toNat? with
    | some r, some s, some k, some v => some (.op r s (.remove k v))
    | _, _, _, _ => none
  | ["S", r, s, k, vals] => match r.toNat?, side? s, k.toNat?, natList? vals with
    | some r, some s, some k, some vals => some (.op r s (.setitem k vals))
    | _, _, _, _ => none
  | ["D", r, s, k] => match r.toNat?, side? s, k.toNat? with
    | some r, some s, some k => some (.op r s (.delitem k))
    | _, _, _ => none
  | ["U", r, s, a] => match r.toNat?, side? s, arg? a with
    | some r, some s, some a => some (.update r s a)
    | _, _, _ => none
  | ["P", r, s, k, nk] => match r.toNat?, side? s, k.toNat?, nk.toNat? with
    | some r, some s, some k, some nk => some (.op r s (.replace k nk))
    | _, _, _, _ => none
  | _ => none

/-- are all set objects of all instances (both sides) distinct heap cells? -/
def separated (st : HState Nat) : Bool :=
  let all := st.regs.flatMap idsI
  all.eraseDups.length == all.length && all.all (· < st.heap.length)

/-- every m2m history is run on BOTH machines: the heap-level one (set objects with identities, `Heap.lean`)
    supplies the dump, `V1` says the by-value machine (`Model.lean`) holds exactly the same lists, `S1` that no set
    object is referenced from two places -/
def runM2M (toks0 : List String) : Option (List String) :=
  -- an optional first token `X/<ids>`: the keys the readers are probed with
  let (probe, toks) : List Nat × List String := match toks0 with
    | t :: ts => match splitOnChar t '/' with
      | ["X", ids] => ((natList? ids).getD [], ts)
      | _ => ([], toks0)
    | [] => ([], toks0)
  let rec go (st : M2MSt Nat) (hst : HM2MSt Nat) (cl : Caller) (toks : List String) (acc : List String) :
      Option (List String) :=
    match toks with
    | [] => some acc.reverse
    | t :: ts => match keepTok cl t with
     | some (cl', flag) =>
      go st hst cl' ts (("|".intercalate (flag :: hst.st.abs.map (dumpM2M probe)) ++
        s!"|V{if decide (st.regs = hst.st.abs) then 1 else 0}S{if separated hst.st then 1 else 0}") :: acc)
     | none => match m2mTok? t with
      | none => none
      | some c => match m2mCmdA st c, hm2mCmdA hst c with
        | some (st', ret), some (hst', hret) =>
          let byRef := "|".intercalate (showRet hret :: hst'.st.abs.map (dumpM2M probe))
          -- V1: the by-value machine holds EXACTLY the same dicts (order included), returned the same and left the
          -- iterators in the same state (theorems `hm2m_refines`, `hm2mA_refines`; self-updates included)
          let agree := decide (st'.regs = hst'.st.abs) && showRet ret == showRet hret && decide (st'.iters = hst'.iters)
          go st' hst' (grown cl "ManyToMany" st.regs.length st'.regs.length) ts
            (s!"{byRef}|V{if agree then 1 else 0}S{if separated hst'.st then 1 else 0}" :: acc)
        | _, _ => none
  go M2MSt.empty HM2MSt.empty Caller.empty toks []

/-! fd -/

def fval? (s : String) : Option FVal :=
  let rest := (s.drop 1).toString
  match s.front with
  | 'h' => rest.toNat?.map .h
  | 'u' => rest.toNat?.map .u
  | _ => none

def showFVal : FVal → String
  | .h n => s!"h{n}"
  | .u n => s!"u{n}"

def parseFPairs? (s : String) : Option (List (Nat × FVal)) :=
  if s = "-" ∨ s = "" then some [] else
  (splitOnChar s ',').foldr (fun w acc =>
    match acc, splitOnChar w ':' with
    | some l, [a, b] => match a.toNat?, fval? b with
      | some x, some y => some ((x, y) :: l)
      | _, _ => none
    | _, _ => none) (some [])

def showFItems (l : Dict Nat FVal) : String :=
  if l.isEmpty then "-" else ",".intercalate (l.map fun p => s!"{p.1}:{showFVal p.2}")

def showFRet : Ret FVal → String
  | .none => "R-"
  | .val v => "R" ++ showFVal v
  | .pair k v => s!"R{showFVal k}:{showFVal v}"
  | .err e => "X" ++ e.name

def mut? (parts : List String) : Option Mut :=
  match parts with
  | ["Ms", k, v] => match k.toNat?, fval? v with
    | some k, some v => some (.setitem k v)
    | _, _ => none
  | ["Md", k] => k.toNat?.map .delitem
  | ["Mi", ps] => (parseFPairs? ps).map .ior
  | ["Mu", ps] => (parseFPairs? ps).map .update
  | ["Mf", k, v] => match k.toNat?, fval? v with
    | some k, some v => some (.setdefault k v)
    | _, _ => none
  | ["Mp", k] => k.toNat?.map .pop
  | ["Mo"] => some .popitem
  | ["Mc"] => some .clear
  | _ => none

/-- an equal FrozenDict reached along a route (the harness calls `hash()` on every intermediate object) -/
def fdRoute? (route : String) (ps : List (Nat × FVal)) : Option FD :=
  match route with
  | "ctor" => some (FD.ofPairs ps)
  | "fromdict" => some (FD.ofPairs (putAll [] ps))
  | "updated" => some (ps.foldl (fun o p => o.hash.1.updated [p]) (FD.ofPairs []))
  | "updated_all" => some ((FD.ofPairs []).hash.1.updated ps)
  | "overwrite" => some (ps.foldl (fun o p => o.hash.1.updated [p])
      (ps.foldl (fun o p => o.hash.1.updated [(p.1, .h 999)]) (FD.ofPairs [])))
  | "pickle" => some (FD.ofPairs ps).hash.1.rebuild
  | "deepcopy" => some (FD.ofPairs ps).hash.1.rebuild
  | "copy" => some (FD.ofPairs ps).hash.1
  | _ => none

/-- `E…/H…`: equality against `o`, and whether two equal FrozenDicts hash alike -/
def fdEq (s o : FD) : String :=
  let eq := dictEq s.items o.items
  let h := if eq then
      (match s.hash.2, o.hash.2 with
       | some a, some b => if a = b then "1" else "0"
       | none, none => "X"
       | _, _ => "0")
    else "-"
  s!"E{if eq then 1 else 0}/H{h}|{showFItems s.items}"

/-- `T1`: a FrozenDict handed out by `updated()` / `fromkeys()` hashes like a fresh one built from its own items -/
def derivedOk (u : FD) : String :=
  if u.hash.2 == (FD.ofPairs u.items.reverse).hash.2 && dictEq u.items (FD.ofPairs u.items.reverse).items then "1" else "0"

def fdTok (s : FD) (tok : String) : Option (FD × String) :=
  let parts := splitOnChar tok '/'
  match parts with
  | ["H"] =>
    let r := s.hash
    some (r.1, (match r.2 with | some _ => "Hok" | none => "XFrozenHashError") ++ "|" ++ showFItems r.1.items)
  | ["E", ps] => (parseFPairs? ps).map fun ps => (s, fdEq s (FD.ofPairs ps))
  | ["E", ps, route] => match parseFPairs? ps with
    | some ps => (fdRoute? route ps).map fun o => (s, fdEq s o)
    | none => none
  | ["U", ps] => (parseFPairs? ps).map fun ps =>
    (s, s!"T{showFItems (s.updated ps).items}/T{derivedOk (s.updated ps)}|{showFItems s.items}")
  | ["Y"] =>
    -- the harness calls hash(fd) first, then copies; T = the clone is content-hashed on its own items,
    -- in this interpreter and in one where atoms hash differently
    let s1 := s.hash.1
    let ok := s1.cloneHashOwn id id && s1.cloneHashOwn id (fun n => 7 * n + 3)
    some (s1, s!"Y{showFItems s1.rebuild.items}/T{if ok then 1 else 0}|{showFItems s1.items}")
  | ["K", ks, v] => match natList? ks, fval? v with
    | some ks, some v => some (s, s!"K{showFItems (FD.fromkeys ks v).items}/T{derivedOk (FD.fromkeys ks v)}|{showFItems s.items}")
    | _, _ => none
  | _ => (mut? parts).map fun m =>
    let r := s.mutate m
    (r.1, showFRet r.2 ++ "|" ++ showFItems r.1.items)

def runFd (toks : List String) : Option (List String) :=
  match toks with
  | b :: rest =>
    match splitOnChar b '/' with
    | ["B", ps] =>
      match parseFPairs? ps with
      | none => none
      | some ps =>
        let rec go (s : FD) (toks : List String) (acc : List String) : Option (List String) :=
          match toks with
          | [] => some acc.reverse
          | t :: ts => match fdTok s t with
            | none => none
            | some (s', out) => go s' ts (out :: acc)
        go (FD.ofPairs ps) rest [s!"B{showFItems (FD.ofPairs ps).items}"]
    | _ => none
  | [] => none

def handle (line : String) : String :=
  let out := match words line with
    | "oto" :: toks => runOto toks
    | "m2m" :: toks => runM2M toks
    | "fd" :: toks => runFd toks
    | _ => none
  match out with
  | some recs => if recs.isEmpty then "-" else ";".intercalate recs
  | none => "bad-op"

end C17.Driver
