import BoltonsVerif.C17.Proofs2
/-
C17 - round 3: the readers of ManyToMany (`m[k]`, `get`, `in`, `len`, `keys` / `iter`) against `iteritems()`,
for every state satisfying the invariant (so, by `m2m_invariant` / `hm2m_invariant`, after any history).
-/
namespace C17
section readers
variable {α : Type} [DecidableEq α]

theorem M2M.get_eq_getSet (s : M2M α) (k : α) : s.get k = getSet k s.data := by
  unfold M2M.get M2M.getitem getSet
  cases lookup k s.data <;> rfl

/-- `v in m.get(k)` iff `iteritems()` yields `(k, v)` -/
theorem M2M.mem_get {s : M2M α} (w : s.WF) (k v : α) : v ∈ s.get k ↔ (k, v) ∈ iteritems s.data := by
  rw [M2M.get_eq_getSet, mem_iteritems w.gd]

/-- `m[k]` raises KeyError exactly when `k not in m`; otherwise it is `m.get(k)`, and not empty -/
theorem M2M.getitem_spec {s : M2M α} (w : s.WF) (k : α) :
    (s.getitem k = none ↔ s.contains k = false) ∧
    (∀ vs, s.getitem k = some vs → vs = s.get k ∧ vs ≠ [] ∧ vs.Nodup ∧ s.contains k = true) := by
  unfold M2M.get M2M.contains hasKey M2M.getitem
  constructor
  · cases lookup k s.data <;> simp
  · intro vs h
    have := w.gd.ne k vs h
    simp [h, this.1, this.2]

/-- `k in m` iff `k` has at least one pair -/
theorem M2M.contains_iff {s : M2M α} (w : s.WF) (k : α) :
    s.contains k = true ↔ ∃ v, (k, v) ∈ iteritems s.data := by
  unfold M2M.contains
  rw [w.gd.hasKey_iff]
  constructor
  · intro h
    obtain ⟨v, hv⟩ := List.exists_mem_of_ne_nil _ h
    exact ⟨v, (mem_iteritems w.gd k v).2 hv⟩
  · rintro ⟨v, hv⟩ he
    have := (mem_iteritems w.gd k v).1 hv
    rw [he] at this
    simp at this

theorem hasKey_iff_mem_keys {β : Type} (k : α) (d : Dict α β) : hasKey k d = true ↔ k ∈ keys d := by
  unfold hasKey keys
  induction d with
  | nil => simp [lookup]
  | cons p r ih =>
    obtain ⟨a, b⟩ := p
    simp only [lookup, List.map_cons, List.mem_cons]
    split
    · next e => simp [e]
    · next e =>
      rw [ih]
      constructor
      · exact Or.inr
      · rintro (h | h)
        · exact absurd h.symm e
        · exact h

/-- `keys()` / `iter(m)` list every key once, `len(m)` counts them, and they are the first components of `iteritems()` -/
theorem M2M.keys_spec {s : M2M α} (w : s.WF) :
    s.keysList.Nodup ∧ s.len = s.keysList.length ∧
    (∀ k, k ∈ s.keysList ↔ s.contains k = true) ∧ (∀ k, k ∈ s.keysList ↔ ∃ v, (k, v) ∈ iteritems s.data) := by
  refine ⟨w.gd.nk, by simp [M2M.len, M2M.keysList, keys], fun k => (hasKey_iff_mem_keys k s.data).symm, fun k => ?_⟩
  rw [← M2M.contains_iff w k]
  exact (hasKey_iff_mem_keys k s.data).symm

/-- the readers of the two sides against each other: `k in m.inv.get(v)` iff `v in m.get(k)`; a value is a key of `.inv`
    iff some key holds it -/
theorem M2M.readers_transposed {s : M2M α} (w : s.WF) (k v : α) :
    (k ∈ s.flip.get v ↔ v ∈ s.get k) ∧ (s.flip.contains v = true ↔ ∃ a, v ∈ s.get a) := by
  have wf := w.flip
  constructor
  · rw [M2M.get_eq_getSet, M2M.get_eq_getSet]
    exact (w.transpose k v).symm
  · rw [M2M.contains_iff wf]
    constructor
    · rintro ⟨a, ha⟩
      refine ⟨a, ?_⟩
      rw [M2M.get_eq_getSet]
      exact (w.transpose a v).2 ((mem_iteritems wf.gd v a).1 ha)
    · rintro ⟨a, ha⟩
      rw [M2M.get_eq_getSet] at ha
      exact ⟨a, (mem_iteritems wf.gd v a).2 ((w.transpose a v).1 ha)⟩

/-! what the constructors and `update(pairs)` hold -/

/-- `update(pairs)` / `update(mapping)`: the union with the pairs given -/
theorem M2M.updatePairs_data (s : M2M α) (ps : List (α × α)) (a x : α) :
    x ∈ getSet a (s.updatePairs ps).data ↔ x ∈ getSet a s.data ∨ (a, x) ∈ ps := by
  unfold M2M.updatePairs
  induction ps generalizing s with
  | nil => simp
  | cons p r ih =>
    simp only [List.foldl_cons]
    rw [ih]
    show x ∈ getSet a (addTo p.1 p.2 s.data) ∨ _ ↔ _
    rw [mem_getSet_addTo]
    obtain ⟨k, v⟩ := p
    simp only [List.mem_cons, Prod.mk.injEq]
    constructor
    · rintro ((h | h) | h)
      · exact Or.inl h
      · exact Or.inr (Or.inl h)
      · exact Or.inr (Or.inr h)
    · rintro (h | h | h)
      · exact Or.inl (Or.inl h)
      · exact Or.inl (Or.inr h)
      · exact Or.inr h

/-- `ManyToMany(pairs)` holds exactly the pairs given -/
theorem M2M.ctor_pairs (ps : List (α × α)) (a x : α) :
    (a, x) ∈ iteritems (M2M.empty.updatePairs ps : M2M α).data ↔ (a, x) ∈ ps := by
  rw [mem_iteritems (M2M.WF.empty.updatePairs ps).gd, M2M.updatePairs_data]
  simp [M2M.empty, getSet]

/-- `ManyToMany(other)` holds exactly the pairs of `other` -/
theorem M2M.ctor_from {o : M2M α} (wo : o.WF) (a x : α) :
    (a, x) ∈ iteritems (M2M.empty.updateFrom o).data ↔ (a, x) ∈ iteritems o.data := by
  rw [mem_iteritems (M2M.WF.empty.updateFrom wo).gd, mem_iteritems wo.gd, M2M.updateFrom_data wo]
  simp [M2M.empty, getSet]
end readers
end C17
