import BoltonsVerif.C17.Proofs2
/-
C17 - round 3: the readers of ManyToMany (`m[k]`, `get`, `in`, `len`, `keys` / `iter`) against `iteritems()`,
for every state satisfying the invariant (so, by `m2m_invariant` / `hm2m_invariant`, after any history).
-/
namespace C17
section readers
variable {α : Type} [DecidableEq α]

theorem M2M.get_eq_getSet (s : M2M α) (k : α) : s.get k = getSet k s.data := by
  unfold M2M.get M2M.getitem getSet
  cases lookup k s.data <;> rfl

/-- `v in m.get(k)` iff `iteritems()` yields `(k, v)` -/
theorem M2M.mem_get {s : M2M α} (w : s.WF) (k v : α) : v ∈ s.get k ↔ (k, v) ∈ iteritems s.data := by
  rw [M2M.get_eq_getSet, mem_iteritems w.gd]

/-- `m[k]` raises KeyError exactly when `k not in m`; otherwise it is `m.get(k)`, and not empty -/
theorem M2M.getitem_spec {s : M2M α} (w : s.WF) (k : α) :
    (s.getitem k = none ↔ s.contains k = false) ∧
    (∀ vs, s.getitem k = some vs → vs = s.get k ∧ vs ≠ [] ∧ vs.Nodup ∧ s.contains k = true) := by
  unfold M2M.get M2M.contains hasKey M2M.getitem
  constructor
  · cases lookup k s.data <;> simp
  · intro vs h
    have := w.gd.ne k vs h
    simp [h, this.1, this.2]

/-- `k in m` iff `k` has at least one pair -/
theorem M2M.contains_iff {s : M2M α} (w : s.WF) (k : α) :
    s.contains k = true ↔ ∃ v, (k, v) ∈ iteritems s.data := by
  unfold M2M.contains
  rw [w.gd.hasKey_iff]
  constructor
  · intro h
    obtain ⟨v, hv⟩ := List.exists_mem_of_ne_nil _ h
    exact ⟨v, (mem_iteritems w.gd k v).2 hv⟩
  · rintro ⟨v, hv⟩ he
    have := (mem_iteritems w.gd k v).1 hv
    rw [he] at this
    simp at this

theorem hasKey_iff_mem_keys {β : Type} (k : α) (d : Dict α β) : hasKey k d = true ↔ k ∈ keys d := by
  unfold hasKey keys
  induction d with
  | nil => simp [lookup]
  | cons p r ih =>
    obtain ⟨a, b⟩ := p
    simp only [lookup, List.map_cons, List.mem_cons]
    split
    · next e => simp [e]
    · next e =>
      rw [ih]
      constructor
      · exact Or.inr
      · rintro (h | h)
        · exact absurd h.symm e
        · exact h

/-- `keys()` / `iter(m)` list every key once, `len(m)` counts them, and they are the first components of `iteritems()` -/
theorem M2M.keys_spec {s : M2M α} (w : s.WF) :
    s.keysList.Nodup ∧ s.len = s.keysList.length ∧
    (∀ k, k ∈ s.keysList ↔ s.contains k = true) ∧ (∀ k, k ∈ s.keysList ↔ ∃ v, (k, v) ∈ iteritems s.data) := by
  refine ⟨w.gd.nk, by simp [M2M.len, M2M.keysList, keys], fun k => (hasKey_iff_mem_keys k s.data).symm, fun k => ?_⟩
  rw [← M2M.contains_iff w k]
  exact (hasKey_iff_mem_keys k s.data).symm

/-- the readers of the two sides against each other: `k in m.inv.get(v)` iff `v in m.get(k)`; a value is a key of `.inv`
    iff some key holds it -/
theorem M2M.readers_transposed {s : M2M α} (w : s.WF) (k v : α) :
    (k ∈ s.flip.get v ↔ v ∈ s.get k) ∧ (s.flip.contains v = true ↔ ∃ a, v ∈ s.get a) := by
  have wf := w.flip
  constructor
  · rw [M2M.get_eq_getSet, M2M.get_eq_getSet]
    exact (w.transpose k v).symm
  · rw [M2M.contains_iff wf]
    constructor
    · rintro ⟨a, ha⟩
      refine ⟨a, ?_⟩
      rw [M2M.get_eq_getSet]
      exact (w.transpose a v).2 ((mem_iteritems wf.gd v a).1 ha)
    · rintro ⟨a, ha⟩
      rw [M2M.get_eq_getSet] at ha
      exact ⟨a, (mem_iteritems wf.gd v a).2 ((w.transpose a v).1 ha)⟩

end readers
end C17
