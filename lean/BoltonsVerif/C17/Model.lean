import BoltonsVerif.Generated.C17_Frozen
/-
C17 — executable models of `boltons.dictutils.OneToOne`, `ManyToMany`, `FrozenDict`
(the code as it is after the four `fix:` commits of branch c17-work).

Conventions
  * a CPython `dict` (insertion ordered, re-assignment keeps the position, `popitem`
    is LIFO) is an association list `Dict α β`; `put` = `dict.__setitem__`,
    `erase` = `dict.__delitem__`, `lookup` = `dict.__getitem__`;
  * a Python `set` is a duplicate-free list (`insertSet` / `removeElem`); every
    observable of a set is compared sorted, so the internal order is immaterial;
  * an object and its `.inv` are ONE structure with two fields; operating "through
    the inverse side" is `flip ∘ op ∘ flip` (`x.inv.inv is x` is `flip ∘ flip = id`);
  * several instances live in a register file `List (OTO α)`; a command names the
    register (and side) it mutates and, where it reads another instance
    (`OneToOne(other)`, `update(other)`, `copy`), the register it reads from;
  * a raised exception is a `Ret.err` with the Python class name.
Core Lean only.
-/
namespace C17

inductive Err where
  | KeyError | ValueError | TypeError | FrozenHashError
deriving Repr, DecidableEq

def Err.name : Err → String
  | .KeyError => "KeyError" | .ValueError => "ValueError"
  | .TypeError => "TypeError" | .FrozenHashError => "FrozenHashError"

/-- what a call returns -/
inductive Ret (α : Type) where
  | none
  | val (v : α)
  | pair (k v : α)
  | err (e : Err)
deriving Repr, DecidableEq

/-! ## dict as association list -/

abbrev Dict (α β : Type) := List (α × β)

section dict
variable {α β : Type} [DecidableEq α]

def keys (d : Dict α β) : List α := d.map Prod.fst

def lookup (k : α) : Dict α β → Option β
  | [] => none
  | (a, b) :: r => if a = k then some b else lookup k r

def hasKey (k : α) (d : Dict α β) : Bool := (lookup k d).isSome

/-- `dict.__setitem__`: replace in place, else append -/
def put (k : α) (v : β) : Dict α β → Dict α β
  | [] => [(k, v)]
  | (a, b) :: r => if a = k then (a, v) :: r else (a, b) :: put k v r

/-- `dict.__delitem__` / `dict.pop` without the KeyError (callers test membership first) -/
def erase (k : α) : Dict α β → Dict α β
  | [] => []
  | (a, b) :: r => if a = k then erase k r else (a, b) :: erase k r

/-- `dict(pairs)` / `dict.update(pairs)` -/
def putAll (d : Dict α β) (ps : List (α × β)) : Dict α β :=
  ps.foldl (fun d p => put p.1 p.2 d) d

def swap (p : α × β) : β × α := (p.2, p.1)

end dict

/-! ## OneToOne -/

structure OTO (α : Type) where
  fwd : Dict α α
  inv : Dict α α
deriving Repr, DecidableEq

section oto
variable {α : Type} [DecidableEq α]

def OTO.empty : OTO α := ⟨[], []⟩

/-- the same pair of dicts seen from `.inv` -/
def OTO.flip (s : OTO α) : OTO α := ⟨s.inv, s.fwd⟩

/-- `if key in self: dict.__delitem__(self.inv, self[key])` -/
def OTO.dropOld (s : OTO α) (k : α) : Dict α α :=
  match lookup k s.fwd with
  | some v0 => erase v0 s.inv
  | none => s.inv

/-- `OneToOne.__setitem__` -/
def OTO.setitem (s : OTO α) (k v : α) : OTO α :=
  match lookup v (s.dropOld k) with
  | some k' =>   -- `del self.inv[val]` = OneToOne.__delitem__ on the inverse object
    ⟨put k v (erase k' s.fwd), put v k (erase v (s.dropOld k))⟩
  | none => ⟨put k v s.fwd, put v k (s.dropOld k)⟩

/-- `OneToOne.__delitem__` -/
def OTO.delitem (s : OTO α) (k : α) : OTO α × Ret α :=
  match lookup k s.fwd with
  | some v => (⟨erase k s.fwd, erase v s.inv⟩, .none)
  | none => (s, .err .KeyError)

def OTO.clear (_s : OTO α) : OTO α := ⟨[], []⟩

/-- `OneToOne.pop(key[, default])` -/
def OTO.pop (s : OTO α) (k : α) (d : Option α) : OTO α × Ret α :=
  match lookup k s.fwd with
  | some v => (⟨erase k s.fwd, erase v s.inv⟩, .val v)
  | none => match d with
    | some d => (s, .val d)
    | none => (s, .err .KeyError)

/-- `OneToOne.popitem()`: `dict.popitem(self)` is LIFO -/
def OTO.popitem (s : OTO α) : OTO α × Ret α :=
  match s.fwd.getLast? with
  | some (k, v) => (⟨s.fwd.dropLast, erase v s.inv⟩, .pair k v)
  | none => (s, .err .KeyError)

/-- `popitem()` where the pair the implementation returned is known: any pair the object holds is
    accepted (the property does not fix WHICH pair goes; `dict` says LIFO, which is the fallback).
    Lets the correspondence ignore the iteration order of the two dicts. -/
def OTO.popitemAs (s : OTO α) (k v : α) : OTO α × Ret α :=
  if lookup k s.fwd = some v then (⟨erase k s.fwd, erase v s.inv⟩, .pair k v) else s.popitem

/-- `OneToOne.setdefault(key, default)`; returns `self[key]` -/
def OTO.setdefault (s : OTO α) (k d : α) : OTO α × Ret α :=
  match lookup k s.fwd with
  | some v => (s, .val v)
  | none => (s.setitem k d,
      match lookup k (s.setitem k d).fwd with
      | some v => .val v
      | none => .err .KeyError)

/-- `OneToOne.update(pairs)` after the argument (dict / iterable of pairs / one-shot
    iterator, plus keyword items) has been materialised; also `|=` -/
def OTO.update (s : OTO α) (ps : List (α × α)) : OTO α :=
  ps.foldl (fun s p => s.setitem p.1 p.2) s

/-- `OneToOne(pairs)`: `dict.__init__`, build `.inv` from the items, and if a value
    occurred twice rebuild the forward dict from the inverse -/
def OTO.ofPairs (ps : List (α × α)) : OTO α :=
  if (putAll [] ((putAll [] ps).map swap)).length = (putAll ([] : Dict α α) ps).length then
    ⟨putAll [] ps, putAll [] ((putAll [] ps).map swap)⟩
  else
    ⟨(putAll [] ((putAll [] ps).map swap)).map swap, putAll [] ((putAll [] ps).map swap)⟩

/-- is `hint` an admissible outcome of `OneToOne(pairs)`: a bijection made of items of `dict(pairs)` that keeps every
    value of `dict(pairs)` - under whichever of its keys (the property does not say which; the code keeps the one
    the dict iteration order puts last) -/
def OTO.admissible (ps hint : List (α × α)) : Bool :=
  decide (hint.map Prod.fst).Nodup && decide (hint.map Prod.snd).Nodup &&
  hint.all (fun p => decide (lookup p.1 (putAll ([] : Dict α α) ps) = some p.2)) &&
  (putAll ([] : Dict α α) ps).all (fun p => decide (p.2 ∈ hint.map Prod.snd))

/-- `OneToOne(pairs)` where the items the implementation ended up with are known (`hint`): any admissible outcome is
    accepted, anything else falls back to `ofPairs`.  Lets the correspondence cover `OneToOne(other, **kw)` with
    colliding values without fixing the iteration order of `other`. -/
def OTO.ofPairsAs (ps hint : List (α × α)) : OTO α :=
  if OTO.admissible ps hint then ⟨hint, hint.map swap⟩ else OTO.ofPairs ps

/-- `OneToOne.unique(pairs)`: ValueError when a value occurs under two keys -/
def OTO.uniqueOfPairs (ps : List (α × α)) : Option (OTO α) :=
  if (putAll [] ((putAll [] ps).map swap)).length = (putAll ([] : Dict α α) ps).length then
    some (OTO.ofPairs ps)
  else none

/-- a mutating call on one object -/
inductive OtoOp (α : Type) where
  | setitem (k v : α)
  | delitem (k : α)
  | update (ps : List (α × α))
  | setdefault (k d : α)
  | pop (k : α) (d : Option α)
  | popitem
  | popitemAs (k v : α)
  | clear
deriving Repr

def OTO.step (s : OTO α) : OtoOp α → OTO α × Ret α
  | .setitem k v => (s.setitem k v, .none)
  | .delitem k => s.delitem k
  | .update ps => (s.update ps, .none)
  | .setdefault k d => s.setdefault k d
  | .pop k d => s.pop k d
  | .popitem => s.popitem
  | .popitemAs k v => s.popitemAs k v
  | .clear => (s.clear, .none)

/-- the call made through the forward object (`side = false`) or through `.inv` -/
def OTO.stepSide (s : OTO α) (side : Bool) (op : OtoOp α) : OTO α × Ret α :=
  if side then ((s.flip.step op).1.flip, (s.flip.step op).2) else s.step op

/-- `list(x.items())` of the chosen side -/
def OTO.items (s : OTO α) (side : Bool) : List (α × α) := if side then s.inv else s.fwd

/-- where a constructor / `update` takes its pairs from -/
inductive Src (α : Type) where
  | pairs (ps : List (α × α))                         -- dict / list / iterator / kwargs, flattened
  | reg (r : Nat) (side : Bool) (kw : List (α × α))   -- another instance (either side) + kwargs
deriving Repr

inductive OtoCmd (α : Type) where
  | new (src : Src α)
  | newAs (src : Src α) (hint : List (α × α))          -- constructor, outcome known (acceptance style)
  | unique (src : Src α)
  | copy (r : Nat) (side : Bool)
  | op (r : Nat) (side : Bool) (op : OtoOp α)
  | updateFrom (r : Nat) (side : Bool) (src : Src α)   -- update(other) / |= other
deriving Repr

def resolveOto (regs : List (OTO α)) : Src α → Option (List (α × α))
  | .pairs ps => some ps
  | .reg r side kw => (regs[r]?).map fun s => s.items side ++ kw

/-- one command on the register file; `none` = the command names a register that does not exist -/
def otoCmd (regs : List (OTO α)) : OtoCmd α → Option (List (OTO α) × Ret α)
  | .new src => (resolveOto regs src).map fun ps => (regs ++ [OTO.ofPairs ps], .none)
  | .newAs src hint => (resolveOto regs src).map fun ps => (regs ++ [OTO.ofPairsAs ps hint], .none)
  | .unique src => (resolveOto regs src).map fun ps =>
      match OTO.uniqueOfPairs ps with
      | some s => (regs ++ [s], .none)
      | none => (regs ++ [OTO.empty], .err .ValueError)   -- harness convention: slot stays, empty
  | .copy r side => (regs[r]?).map fun s => (regs ++ [OTO.ofPairs (s.items side)], .none)
  | .op r side op => (regs[r]?).map fun s =>
      (regs.set r (s.stepSide side op).1, (s.stepSide side op).2)
  | .updateFrom r side src =>
      match regs[r]?, resolveOto regs src with
      | some s, some ps => some (regs.set r (s.stepSide side (.update ps)).1, .none)
      | _, _ => none

/-- a whole history; `none` = ill-formed program -/
def otoRun (regs : List (OTO α)) : List (OtoCmd α) → Option (List (OTO α))
  | [] => some regs
  | c :: cs => match otoCmd regs c with
    | some (regs', _) => otoRun regs' cs
    | none => none

end oto

/-! ## ManyToMany -/

section sets
variable {α : Type} [DecidableEq α]

/-- `set.add` -/
def insertSet (v : α) (vs : List α) : List α := if v ∈ vs then vs else vs ++ [v]

def neqB (v : α) (x : α) : Bool := !(x == v)

/-- `set.remove` / `set.discard` -/
def removeElem (v : α) (vs : List α) : List α := vs.filter (neqB v)

/-- `set(iterable)` -/
def toSet (vs : List α) : List α := vs.foldl (fun acc v => insertSet v acc) []

/-- `a |= b` -/
def unionSet (a b : List α) : List α := b.foldl (fun acc v => insertSet v acc) a

/-- `data[key]` with the empty set for a missing key -/
def getSet (k : α) (d : Dict α (List α)) : List α := (lookup k d).getD []

/-- `if key not in data: data[key] = set()` ; `data[key].add(val)` -/
def addTo (k v : α) (d : Dict α (List α)) : Dict α (List α) := put k (insertSet v (getSet k d)) d

/-- `data[key].remove(val)` ; `if not data[key]: del data[key]` -/
def removeFrom (k v : α) (d : Dict α (List α)) : Dict α (List α) :=
  if removeElem v (getSet k d) = [] then erase k d else put k (removeElem v (getSet k d)) d

/-- `if k not in data: data[k] = set(vs)  else: data[k].update(vs)` -/
def mergeKey (k : α) (vs : List α) (d : Dict α (List α)) : Dict α (List α) :=
  if hasKey k d then put k (unionSet (getSet k d) vs) d else d ++ [(k, toSet vs)]

/-- `revset = inv.data[val]; revset.remove(key); revset.add(newkey)` -/
def renameIn (v k nk : α) (d : Dict α (List α)) : Dict α (List α) :=
  if hasKey v d then put v (insertSet nk (removeElem k (getSet v d))) d else d

end sets

structure M2M (α : Type) where
  data : Dict α (List α)
  inv  : Dict α (List α)
deriving Repr, DecidableEq

section m2m
variable {α : Type} [DecidableEq α]

def M2M.empty : M2M α := ⟨[], []⟩
def M2M.flip (s : M2M α) : M2M α := ⟨s.inv, s.data⟩

/-- `ManyToMany.add` -/
def M2M.add (s : M2M α) (k v : α) : M2M α := ⟨addTo k v s.data, addTo v k s.inv⟩

/-- the body of `ManyToMany.remove` once both lookups are known to succeed -/
def M2M.removeRaw (s : M2M α) (k v : α) : M2M α := ⟨removeFrom k v s.data, removeFrom v k s.inv⟩

/-- `ManyToMany.remove`: `self.data[key].remove(val)` raises KeyError for a missing key or value -/
def M2M.remove (s : M2M α) (k v : α) : M2M α × Ret α :=
  if v ∈ getSet k s.data then (s.removeRaw k v, .none) else (s, .err .KeyError)

/-- `ManyToMany.__setitem__(key, vals)` -/
def M2M.setitem (s : M2M α) (k : α) (vals : List α) : M2M α :=
  if hasKey k s.data then
    ((toSet vals).filter (fun v => !(getSet k s.data).contains v)).foldl (fun s v => s.add k v)
      (((getSet k s.data).filter (fun v => !(toSet vals).contains v)).foldl (fun s v => s.removeRaw k v) s)
  else (toSet vals).foldl (fun s v => s.add k v) s

/-- `ManyToMany.__delitem__` -/
def M2M.delitem (s : M2M α) (k : α) : M2M α × Ret α :=
  if hasKey k s.data then
    (⟨erase k s.data, (getSet k s.data).foldl (fun i v => removeFrom v k i) s.inv⟩, .none)
  else (s, .err .KeyError)

/-- `ManyToMany.update(iterable of pairs)` / `update(mapping)` -/
def M2M.updatePairs (s : M2M α) (ps : List (α × α)) : M2M α := ps.foldl (fun s p => s.add p.1 p.2) s

/-- `ManyToMany.update(other)` for another ManyToMany: both dicts merged separately, sets copied -/
def M2M.updateFrom (s o : M2M α) : M2M α :=
  ⟨o.data.foldl (fun d p => mergeKey p.1 p.2 d) s.data,
   o.inv.foldl (fun d p => mergeKey p.1 p.2 d) s.inv⟩

/-- `ManyToMany.replace(key, newkey)` -/
def M2M.replace (s : M2M α) (k nk : α) : M2M α :=
  if hasKey k s.data then
    ⟨mergeKey nk (getSet k s.data) (erase k s.data),
     (getSet k s.data).foldl (fun i v => renameIn v k nk i) s.inv⟩
  else s

/-- `list(x.iteritems())` for one side's dict -/
def iteritems (d : Dict α (List α)) : List (α × α) := d.flatMap fun p => p.2.map fun v => (p.1, v)

/-! the readers of `ManyToMany` (none of them changes anything) -/

/-- `m[key]` = `frozenset(self.data[key])`; `none` = KeyError -/
def M2M.getitem (s : M2M α) (k : α) : Option (List α) := lookup k s.data

/-- `m.get(key)` with the default `frozenset()` -/
def M2M.get (s : M2M α) (k : α) : List α :=
  match s.getitem k with
  | some vs => vs
  | none => []

/-- `key in m` -/
def M2M.contains (s : M2M α) (k : α) : Bool := hasKey k s.data

/-- `len(m)` -/
def M2M.len (s : M2M α) : Nat := s.data.length

/-- `list(m.keys())` = `list(m)` -/
def M2M.keysList (s : M2M α) : List α := keys s.data

inductive M2MOp (α : Type) where
  | add (k v : α)
  | remove (k v : α)
  | setitem (k : α) (vals : List α)
  | delitem (k : α)
  | update (ps : List (α × α))
  | replace (k nk : α)
deriving Repr

def M2M.step (s : M2M α) : M2MOp α → M2M α × Ret α
  | .add k v => (s.add k v, .none)
  | .remove k v => s.remove k v
  | .setitem k vals => (s.setitem k vals, .none)
  | .delitem k => s.delitem k
  | .update ps => (s.updatePairs ps, .none)
  | .replace k nk => (s.replace k nk, .none)

def M2M.stepSide (s : M2M α) (side : Bool) (op : M2MOp α) : M2M α × Ret α :=
  if side then ((s.flip.step op).1.flip, (s.flip.step op).2) else s.step op

def M2M.side (s : M2M α) (side : Bool) : M2M α := if side then s.flip else s

inductive M2MCmd (α : Type) where
  | new (ps : List (α × α))                 -- ManyToMany() / (pairs) / (mapping)
  | newFrom (r : Nat) (side : Bool)         -- ManyToMany(other)
  | op (r : Nat) (side : Bool) (op : M2MOp α)
  | updateFrom (r : Nat) (side : Bool) (r2 : Nat) (side2 : Bool)   -- x.update(other ManyToMany)
deriving Repr

/-- by value, what `x.update(x.inv)` makes of `x`: loop 1 merges the inverse dict into the forward dict, loop 2
    merges the ALREADY merged forward dict into the inverse dict (`other.inv.data` IS `x.data`, read live) -/
def selfMerge (A : M2M α) : M2M α :=
  ⟨A.inv.foldl (fun d p => mergeKey p.1 p.2 d) A.data,
   (A.inv.foldl (fun d p => mergeKey p.1 p.2 d) A.data).foldl (fun d p => mergeKey p.1 p.2 d) A.inv⟩

/-- `x.update(other)` for another ManyToMany `o` given by register and side; `self` = it is the very instance being
    updated.  Then `other`'s dicts are the target's own: `x.update(x)` merges every set into itself (nothing
    changes), `x.update(x.inv)` is `selfMerge`. -/
def M2M.updateFromReg (s o : M2M α) (self side side2 : Bool) : M2M α :=
  if self then (if side2 = side then s else (selfMerge (s.side side)).side side)
  else ((s.side side).updateFrom (o.side side2)).side side

def m2mCmd (regs : List (M2M α)) : M2MCmd α → Option (List (M2M α) × Ret α)
  | .new ps => some (regs ++ [M2M.empty.updatePairs ps], .none)
  | .newFrom r side => (regs[r]?).map fun o =>
      -- `if items: self.update(items)`: an empty source is falsy, nothing to do
      (regs ++ [M2M.empty.updateFrom (o.side side)], .none)
  | .op r side op => (regs[r]?).map fun s =>
      (regs.set r (s.stepSide side op).1, (s.stepSide side op).2)
  | .updateFrom r side r2 side2 =>
      match regs[r]?, regs[r2]? with
      | some s, some o =>
        some (regs.set r (s.updateFromReg o (decide (r = r2)) side side2), .none)
      | _, _ => none

def m2mRun (regs : List (M2M α)) : List (M2MCmd α) → Option (List (M2M α))
  | [] => some regs
  | c :: cs => match m2mCmd regs c with
    | some (regs', _) => m2mRun regs' cs
    | none => none

end m2m

/-! ## FrozenDict -/

/-- a value: hashable (`n` stands for an int/str/tuple …) or unhashable (the list `[n]`) -/
inductive FVal where
  | h (n : Nat)
  | u (n : Nat)
deriving Repr, DecidableEq

def FVal.hashable : FVal → Bool
  | .h _ => true
  | .u _ => false

def FVal.num : FVal → Nat
  | .h n => n
  | .u n => n

/-- lexicographic `≤` on pairs of naturals -/
def pairLe (a b : Nat × Nat) : Bool := a.1 < b.1 || (a.1 == b.1 && a.2 ≤ b.2)

def insSorted (x : Nat × Nat) : List (Nat × Nat) → List (Nat × Nat)
  | [] => [x]
  | y :: ys => if pairLe x y then x :: y :: ys else y :: insSorted x ys

/-- canonical form of a set of items: what `hash(frozenset(items))` is a function of -/
def canon (l : List (Nat × Nat)) : List (Nat × Nat) := l.foldr insSorted []

/-- the value of `hash(frozenset(self.items()))`: `none` = some value is unhashable
    (FrozenHashError), `some c` = a hash that is a function of the item SET `c` -/
def hashOf (d : Dict Nat FVal) : Option (List (Nat × Nat)) :=
  if d.all (fun p => p.2.hashable) then some (canon (d.map fun p => (p.1, p.2.num))) else none

/-- Python `dict.__eq__`: same length and every item of `a` found in `b` -/
def dictEq (a b : Dict Nat FVal) : Bool :=
  a.length == b.length && a.all (fun p => lookup p.1 b == some p.2)

structure FD where
  items : Dict Nat FVal
  cache : Option (Option (List (Nat × Nat)))   -- the `_hash` slot: unset / cached result
deriving Repr, DecidableEq

/-- `FrozenDict(pairs)` -/
def FD.ofPairs (ps : List (Nat × FVal)) : FD := ⟨putAll [] ps, none⟩

/-- the mutating `dict` methods (Python ≥ 3.9); the property demands every one be blocked -/
inductive Mut where
  | setitem (k : Nat) (v : FVal)
  | delitem (k : Nat)
  | ior (ps : List (Nat × FVal))
  | update (ps : List (Nat × FVal))
  | setdefault (k : Nat) (v : FVal)
  | pop (k : Nat)
  | popitem
  | clear
deriving Repr

def Mut.name : Mut → String
  | .setitem .. => "__setitem__" | .delitem .. => "__delitem__" | .ior .. => "__ior__"
  | .update .. => "update" | .setdefault .. => "setdefault" | .pop .. => "pop"
  | .popitem => "popitem" | .clear => "clear"

/-- names of all mutating dict methods -/
def dictMutators : List String :=
  ["__setitem__", "__delitem__", "__ior__", "update", "setdefault", "pop", "popitem", "clear"]

/-- the other methods of `dict`: readers, comparisons, constructors of NEW objects (`copy`, `fromkeys`, `__or__`,
    `__ror__`), and `__new__` / `__init__` (creating an object; re-running `__init__` on an existing FrozenDict is
    not an operation of the statement).  Together with `dictMutators` this must cover every method the running
    interpreter's `dict` has (`Generated.dictMethods`): a Python that grows a new mutating method shows up as a
    failed obligation, not as a silently unblocked mutator. -/
def dictNonMutators : List String :=
  ["__new__", "__init__", "__repr__", "__getattribute__", "__lt__", "__le__", "__eq__", "__ne__", "__gt__", "__ge__",
   "__iter__", "__or__", "__ror__", "__len__", "__getitem__", "__contains__", "__sizeof__", "get", "keys", "items",
   "values", "fromkeys", "copy", "__reversed__", "__class_getitem__"]

/-- what the inherited `dict` method would do (used for a method the class does NOT block) -/
def dictMut (d : Dict Nat FVal) : Mut → Dict Nat FVal × Ret FVal
  | .setitem k v => (put k v d, .none)
  | .delitem k => if hasKey k d then (erase k d, .none) else (d, .err .KeyError)
  | .ior ps => (putAll d ps, .none)
  | .update ps => (putAll d ps, .none)
  | .setdefault k v => match lookup k d with
    | some x => (d, .val x)
    | none => (put k v d, .val v)
  | .pop k => match lookup k d with
    | some x => (erase k d, .val x)
    | none => (d, .err .KeyError)
  | .popitem => match d.getLast? with
    | some (_, v) => (d.dropLast, .val v)
    | none => (d, .err .KeyError)
  | .clear => ([], .none)

/-- the exception class raised by `_raise_frozen_typeerror` (translator output) -/
def frozenErr : Option Err :=
  if Generated.frozenRaises = "TypeError" then some .TypeError else none

/-- a mutator call on a FrozenDict: blocked iff the class body assigns the raiser to that
    name (`Generated.frozenBlocked` is regenerated from the source on every run) -/
def FD.mutate (s : FD) (m : Mut) : FD × Ret FVal :=
  if Generated.frozenBlocked.contains m.name then
    (s, match frozenErr with | some e => .err e | none => .none)
  else ({ s with items := (dictMut s.items m).1 }, (dictMut s.items m).2)

/-- `hash(fd)`: compute once, cache (also a FrozenHashError), replay the cache -/
def FD.hash (s : FD) : FD × Option (List (Nat × Nat)) :=
  match s.cache with
  | some r => (s, r)
  | none => ({ s with cache := some (hashOf s.items) }, hashOf s.items)

/-- `fd.updated(pairs)` (positional dict / pairs / kwargs flattened): a NEW FrozenDict -/
def FD.updated (s : FD) (ps : List (Nat × FVal)) : FD := ⟨putAll s.items ps, none⟩

/-- `pickle.loads(pickle.dumps(fd))`, `copy.deepcopy(fd)`: `type(self)(dict(self))` -/
def FD.rebuild (s : FD) : FD := FD.ofPairs s.items

/-- `fd.copy()` (inherited `dict.copy`): a plain dict with the same items -/
def FD.copyItems (s : FD) : Dict Nat FVal := s.items

/-! Hashes of atoms (str under hash randomisation, identity-hashed objects) are only stable inside
    one interpreter process.  `ρ` is "how atoms hash here"; a pickle / deepcopy result may come to
    life under another `ρ'`. -/

/-- `hash(frozenset(items))` in an interpreter where atom `a` hashes as `ρ a` -/
def hashOfIn (ρ : Nat → Nat) (d : Dict Nat FVal) : Option (List (Nat × Nat)) :=
  if d.all (fun p => p.2.hashable) then some (canon (d.map fun p => (ρ p.1, ρ p.2.num))) else none

/-- `hash(fd)` in that interpreter: the `_hash` slot wins when it is set -/
def FD.hashIn (ρ : Nat → Nat) (s : FD) : FD × Option (List (Nat × Nat)) :=
  match s.cache with
  | some r => (s, r)
  | none => ({ s with cache := some (hashOfIn ρ s.items) }, hashOfIn ρ s.items)

/-- the observable the correspondence prints for a copy made after `hash(fd)`: does the clone, hashed
    where atoms hash as `ρ'`, agree with a fresh FrozenDict built from the clone's own items? -/
def FD.cloneHashOwn (ρ ρ' : Nat → Nat) (s : FD) : Bool :=
  ((s.hashIn ρ).1.rebuild.hashIn ρ').2 == ((FD.ofPairs (s.hashIn ρ).1.rebuild.items).hashIn ρ').2

/-- `FrozenDict.fromkeys(keys, value)` -/
def FD.fromkeys (ks : List Nat) (v : FVal) : FD := FD.ofPairs (ks.map fun k => (k, v))

inductive FdOp where
  | mutate (m : Mut)
  | hash
deriving Repr

def FD.step (s : FD) : FdOp → FD
  | .mutate m => (s.mutate m).1
  | .hash => s.hash.1

def FD.run (s : FD) (ops : List FdOp) : FD := ops.foldl FD.step s

end C17
