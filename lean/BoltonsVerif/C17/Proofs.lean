import BoltonsVerif.C17.Model
/-
C17 — helper lemmas: association-list dictionaries, the OneToOne invariant,
the ManyToMany invariant, FrozenDict hashing.
-/
namespace C17

section dict
variable {α β : Type} [DecidableEq α]

@[simp] theorem lookup_nil (k : α) : lookup k ([] : Dict α β) = none := rfl

theorem lookup_put (a k : α) (v : β) (d : Dict α β) :
    lookup a (put k v d) = if a = k then some v else lookup a d := by
  induction d with
  | nil => grind [put, lookup]
  | cons p r ih => grind [put, lookup]

theorem lookup_erase (a k : α) (d : Dict α β) :
    lookup a (erase k d) = if a = k then none else lookup a d := by
  induction d with
  | nil => grind [erase, lookup]
  | cons p r ih => grind [erase, lookup]

/-- dict keys are unique -/
def NodupKeys (d : Dict α β) : Prop := (keys d).Nodup

theorem mem_keys_iff_lookup (k : α) (d : Dict α β) : k ∈ keys d ↔ (lookup k d).isSome = true := by
  induction d with
  | nil => simp [keys]
  | cons p r ih =>
    obtain ⟨x, y⟩ := p
    simp only [keys, List.map_cons, List.mem_cons, lookup] at ih ⊢
    grind

theorem lookup_none_iff (k : α) (d : Dict α β) : lookup k d = none ↔ k ∉ keys d := by
  rw [mem_keys_iff_lookup]; cases lookup k d <;> simp

theorem keys_put (k : α) (v : β) (d : Dict α β) :
    keys (put k v d) = if k ∈ keys d then keys d else keys d ++ [k] := by
  induction d with
  | nil => simp [put, keys]
  | cons p r ih =>
    obtain ⟨x, y⟩ := p
    simp only [keys, put, List.map_cons, List.mem_cons] at ih ⊢
    grind

theorem nodupKeys_put (k : α) (v : β) (d : Dict α β) (h : NodupKeys d) : NodupKeys (put k v d) := by
  unfold NodupKeys at *
  rw [keys_put]
  split
  · exact h
  · rw [List.nodup_append]
    refine ⟨h, by simp, ?_⟩
    intro a ha b hb
    simp at hb; subst hb
    intro hab; subst hab; contradiction

theorem keys_erase_sublist (k : α) (d : Dict α β) : (keys (erase k d)).Sublist (keys d) := by
  induction d with
  | nil => simp [erase, keys]
  | cons p r ih =>
    obtain ⟨x, y⟩ := p
    simp only [erase]
    split
    · exact ih.trans (by simp [keys])
    · simpa [keys] using ih

theorem nodupKeys_erase (k : α) (d : Dict α β) (h : NodupKeys d) : NodupKeys (erase k d) :=
  List.Nodup.sublist (keys_erase_sublist k d) h

theorem nodupKeys_nil : NodupKeys ([] : Dict α β) := by simp [NodupKeys, keys]

/-- with unique keys, membership of an item is lookup -/
theorem mem_iff_lookup (d : Dict α β) (h : NodupKeys d) (k : α) (v : β) :
    (k, v) ∈ d ↔ lookup k d = some v := by
  induction d with
  | nil => simp
  | cons p r ih =>
    obtain ⟨x, y⟩ := p
    have hr : NodupKeys r := by
      unfold NodupKeys keys at *; simp at h; exact h.2
    have hx : x ∉ keys r := by
      unfold NodupKeys keys at *; simp at h; simpa [keys] using h.1
    simp only [List.mem_cons, lookup, Prod.mk.injEq]
    by_cases hk : x = k
    · subst hk
      simp
      constructor
      · rintro (h1 | h1)
        · exact h1.symm
        · exact absurd (List.mem_map_of_mem (f := Prod.fst) h1) hx
      · intro h1; exact Or.inl h1.symm
    · have := ih hr
      grind

theorem putAll_nodup (d : Dict α β) (ps : List (α × β)) (h : NodupKeys d) : NodupKeys (putAll d ps) := by
  unfold putAll
  induction ps generalizing d with
  | nil => exact h
  | cons p ps ih => exact ih _ (nodupKeys_put _ _ _ h)

end dict

/-! ## OneToOne -/
section oto
variable {α : Type} [DecidableEq α]

/-- the invariant: both dicts have unique keys and are inverse inverses -/
structure OTO.WF (s : OTO α) : Prop where
  nf : NodupKeys s.fwd
  ni : NodupKeys s.inv
  inverse : ∀ k v, lookup k s.fwd = some v ↔ lookup v s.inv = some k

theorem OTO.WF.flip {s : OTO α} (h : s.WF) : s.flip.WF :=
  ⟨h.ni, h.nf, fun k v => (h.inverse v k).symm⟩

theorem OTO.WF.empty : (OTO.empty : OTO α).WF :=
  ⟨nodupKeys_nil, nodupKeys_nil, by simp [OTO.empty]⟩

theorem OTO.dropOld_lookup {s : OTO α} (k a : α) :
    lookup a (s.dropOld k) = if lookup k s.fwd = some a then none else lookup a s.inv := by
  unfold OTO.dropOld
  cases hk : lookup k s.fwd with
  | none => simp
  | some v0 => simp [lookup_erase, eq_comm]

/-- functional specification of `__setitem__` on the forward side … -/
theorem OTO.setitem_fwd {s : OTO α} (h : s.WF) (k v a : α) :
    lookup a (s.setitem k v).fwd =
      if a = k then some v else if lookup a s.fwd = some v then none else lookup a s.fwd := by
  have hm := h.inverse
  unfold OTO.setitem
  cases hv : lookup v (s.dropOld k) with
  | none =>
    rw [OTO.dropOld_lookup] at hv
    simp only [lookup_put]
    grind
  | some k' =>
    rw [OTO.dropOld_lookup] at hv
    simp only [lookup_put, lookup_erase]
    grind

/-- … and on the inverse side -/
theorem OTO.setitem_inv {s : OTO α} (h : s.WF) (k v b : α) :
    lookup b (s.setitem k v).inv =
      if b = v then some k else if lookup b s.inv = some k then none else lookup b s.inv := by
  have hm := h.inverse
  unfold OTO.setitem
  cases hv : lookup v (s.dropOld k) with
  | none =>
    rw [OTO.dropOld_lookup] at hv
    simp only [lookup_put, OTO.dropOld_lookup]
    grind
  | some k' =>
    rw [OTO.dropOld_lookup] at hv
    simp only [lookup_put, lookup_erase, OTO.dropOld_lookup]
    grind

theorem OTO.WF.setitem {s : OTO α} (h : s.WF) (k v : α) : (s.setitem k v).WF := by
  refine ⟨?_, ?_, ?_⟩
  · unfold OTO.setitem; split <;> simp only <;>
      first | exact nodupKeys_put _ _ _ (nodupKeys_erase _ _ h.nf) | exact nodupKeys_put _ _ _ h.nf
  · have hd : NodupKeys (s.dropOld k) := by
      unfold OTO.dropOld; split
      · exact nodupKeys_erase _ _ h.ni
      · exact h.ni
    unfold OTO.setitem; split <;> simp only <;>
      first | exact nodupKeys_put _ _ _ (nodupKeys_erase _ _ hd) | exact nodupKeys_put _ _ _ hd
  · intro a b
    rw [OTO.setitem_fwd h, OTO.setitem_inv h]
    have hm := h.inverse
    grind

theorem lookup_snoc_nodup {β : Type} (l : Dict α β) (k : α) (v : β) (h : NodupKeys (l ++ [(k, v)])) (a : α) :
    lookup a l = if a = k then none else lookup a (l ++ [(k, v)]) := by
  induction l with
  | nil => simp [lookup]; intro h1 h2; exact absurd h2.symm h1
  | cons p r ih =>
    obtain ⟨x, y⟩ := p
    have hr : NodupKeys (r ++ [(k, v)]) := by
      unfold NodupKeys keys at *; simp at h ⊢; grind
    have hx : x ≠ k := by
      unfold NodupKeys keys at h; simp at h; grind
    have := ih hr
    simp only [List.cons_append, lookup]
    grind

theorem getLast_split {β : Type} (l : List β) (x : β) (h : l.getLast? = some x) : l = l.dropLast ++ [x] := by
  induction l with
  | nil => simp at h
  | cons a r ih =>
    cases r with
    | nil => simp at h; simp [h]
    | cons b r' =>
      simp only [List.getLast?_cons_cons] at h
      simp [List.dropLast, ← ih h]

theorem nodupKeys_dropLast {β : Type} (l : Dict α β) (h : NodupKeys l) : NodupKeys l.dropLast := by
  unfold NodupKeys keys at *
  exact List.Nodup.sublist ((List.dropLast_sublist l).map _) h

theorem lookup_dropLast {β : Type} (l : Dict α β) (k : α) (v : β) (h : NodupKeys l)
    (hl : l.getLast? = some (k, v)) (a : α) :
    lookup a l.dropLast = if a = k then none else lookup a l := by
  have hs := getLast_split l (k, v) hl
  have h' : NodupKeys (l.dropLast ++ [(k, v)]) := by rw [← hs]; exact h
  have := lookup_snoc_nodup l.dropLast k v h' a
  rw [← hs] at this
  exact this

theorem lookup_getLast {β : Type} (l : Dict α β) (k : α) (v : β) (h : NodupKeys l)
    (hl : l.getLast? = some (k, v)) : lookup k l = some v := by
  rw [← mem_iff_lookup l h]
  exact List.mem_of_getLast? hl

theorem OTO.WF.remove_pair {s : OTO α} (h : s.WF) (k v : α) (hk : lookup k s.fwd = some v) :
    (⟨erase k s.fwd, erase v s.inv⟩ : OTO α).WF := by
  refine ⟨nodupKeys_erase _ _ h.nf, nodupKeys_erase _ _ h.ni, ?_⟩
  intro a b
  simp only [lookup_erase]
  have hm := h.inverse
  grind

theorem OTO.WF.delitem {s : OTO α} (h : s.WF) (k : α) : (s.delitem k).1.WF := by
  unfold OTO.delitem
  cases hk : lookup k s.fwd with
  | none => exact h
  | some v => exact h.remove_pair k v hk

theorem OTO.WF.pop {s : OTO α} (h : s.WF) (k : α) (d : Option α) : (s.pop k d).1.WF := by
  unfold OTO.pop
  cases hk : lookup k s.fwd with
  | none => cases d <;> exact h
  | some v => exact h.remove_pair k v hk

theorem OTO.WF.popitem {s : OTO α} (h : s.WF) : s.popitem.1.WF := by
  unfold OTO.popitem
  cases hl : s.fwd.getLast? with
  | none => exact h
  | some p =>
    obtain ⟨k, v⟩ := p
    have hk := lookup_getLast s.fwd k v h.nf hl
    refine ⟨nodupKeys_dropLast _ h.nf, nodupKeys_erase _ _ h.ni, ?_⟩
    intro a b
    simp only [lookup_dropLast s.fwd k v h.nf hl, lookup_erase]
    have hm := h.inverse
    grind

theorem OTO.WF.setdefault {s : OTO α} (h : s.WF) (k d : α) : (s.setdefault k d).1.WF := by
  unfold OTO.setdefault
  cases hk : lookup k s.fwd with
  | none => exact h.setitem k d
  | some v => exact h

theorem OTO.WF.clear {s : OTO α} : s.clear.WF := OTO.WF.empty

theorem OTO.WF.update {s : OTO α} (h : s.WF) (ps : List (α × α)) : (s.update ps).WF := by
  unfold OTO.update
  induction ps generalizing s with
  | nil => exact h
  | cons p ps ih => exact ih (h.setitem p.1 p.2)

theorem OTO.WF.step {s : OTO α} (h : s.WF) (op : OtoOp α) : (s.step op).1.WF := by
  cases op with
  | setitem k v => exact h.setitem k v
  | delitem k => exact h.delitem k
  | update ps => exact h.update ps
  | setdefault k d => exact h.setdefault k d
  | pop k d => exact h.pop k d
  | popitem => exact h.popitem
  | clear => exact OTO.WF.clear (s := s)

theorem OTO.WF.stepSide {s : OTO α} (h : s.WF) (side : Bool) (op : OtoOp α) : (s.stepSide side op).1.WF := by
  unfold OTO.stepSide
  cases side with
  | false => exact h.step op
  | true => exact (h.flip.step op).flip

/-! constructor -/

theorem length_put {β : Type} (k : α) (v : β) (d : Dict α β) :
    (put k v d).length = if k ∈ keys d then d.length else d.length + 1 := by
  have h := keys_put k v d
  have hl : ∀ e : Dict α β, (keys e).length = e.length := fun e => by simp [keys]
  by_cases hk : k ∈ keys d
  · rw [if_pos hk] at h ⊢; rw [← hl, h, hl]
  · rw [if_neg hk] at h ⊢; rw [← hl, h]; simp [hl]

theorem put_of_not_mem {β : Type} (k : α) (v : β) (d : Dict α β) (h : k ∉ keys d) :
    put k v d = d ++ [(k, v)] := by
  induction d with
  | nil => rfl
  | cons p r ih =>
    obtain ⟨x, y⟩ := p
    simp only [keys, List.map_cons, List.mem_cons, not_or] at h
    simp only [put]
    rw [if_neg (Ne.symm h.1), ih (by simpa [keys] using h.2)]
    rfl

theorem mem_put {β : Type} (k : α) (v : β) (d : Dict α β) (p : α × β) (h : p ∈ put k v d) :
    p ∈ d ∨ p = (k, v) := by
  induction d with
  | nil => simp [put] at h; exact Or.inr h
  | cons q r ih =>
    obtain ⟨x, y⟩ := q
    simp only [put] at h
    split at h
    · simp only [List.mem_cons] at h ⊢
      grind
    · simp only [List.mem_cons] at h ⊢
      grind

theorem mem_putAll {β : Type} (d : Dict α β) (ps : List (α × β)) (p : α × β) (h : p ∈ putAll d ps) :
    p ∈ d ∨ p ∈ ps := by
  unfold putAll at h
  induction ps generalizing d with
  | nil => exact Or.inl h
  | cons q ps ih =>
    rcases ih _ h with h1 | h1
    · rcases mem_put _ _ _ _ h1 with h2 | h2
      · exact Or.inl h2
      · exact Or.inr (by simp [h2])
    · exact Or.inr (List.mem_cons_of_mem _ h1)

/-- `dict(pairs)` has as many entries as pairs only when no key repeats (and then it IS the list) -/
theorem putAll_length_le {β : Type} (d : Dict α β) (ps : List (α × β)) :
    (putAll d ps).length ≤ d.length + ps.length := by
  unfold putAll
  induction ps generalizing d with
  | nil => simp
  | cons p ps ih =>
    have := ih (put p.1 p.2 d)
    have h2 := length_put p.1 p.2 d
    simp only [List.foldl_cons, List.length_cons]
    split at h2 <;> omega

theorem putAll_length_eq {β : Type} (d : Dict α β) (ps : List (α × β))
    (h : (putAll d ps).length = d.length + ps.length) (hd : NodupKeys d) : putAll d ps = d ++ ps := by
  induction ps generalizing d with
  | nil => simp [putAll]
  | cons p ps ih =>
    have hle := putAll_length_le (put p.1 p.2 d) ps
    have h2 := length_put p.1 p.2 d
    have he : putAll d (p :: ps) = putAll (put p.1 p.2 d) ps := rfl
    rw [he] at h ⊢
    simp only [List.length_cons] at h
    by_cases hk : p.1 ∈ keys d
    · rw [if_pos hk] at h2; omega
    · rw [if_neg hk] at h2
      rw [ih _ (by omega) (nodupKeys_put _ _ _ hd), put_of_not_mem _ _ _ hk]
      simp

theorem eq_of_nodup_snd {β : Type} (m : List (β × α)) (h : (m.map Prod.snd).Nodup) (p q : β × α)
    (hp : p ∈ m) (hq : q ∈ m) (e : p.2 = q.2) : p = q := by
  induction m with
  | nil => simp at hp
  | cons x r ih =>
    simp only [List.map_cons, List.nodup_cons, List.mem_map, not_exists, not_and] at h
    simp only [List.mem_cons] at hp hq
    rcases hp with hp | hp <;> rcases hq with hq | hq
    · rw [hp, hq]
    · subst hp; exact absurd e.symm (h.1 q hq)
    · subst hq; exact absurd e (h.1 p hp)
    · exact ih h.2 hp hq

theorem nodup_snd_of_subset (l m : List (α × α)) (hl : (l.map Prod.fst).Nodup)
    (hm : (m.map Prod.snd).Nodup) (hs : ∀ p ∈ l, p ∈ m) : (l.map Prod.snd).Nodup := by
  induction l with
  | nil => simp
  | cons p r ih =>
    simp only [List.map_cons, List.nodup_cons, List.mem_map, not_exists, not_and] at hl ⊢
    refine ⟨?_, ih hl.2 (fun q hq => hs q (List.mem_cons_of_mem _ hq))⟩
    intro q hq e
    have := eq_of_nodup_snd m hm q p (hs q (List.mem_cons_of_mem _ hq)) (hs p (by simp)) e
    subst this
    exact hl.1 q hq rfl

theorem swap_keys (l : Dict α α) : keys (l.map swap) = l.map Prod.snd := by
  simp [keys, swap, Function.comp_def]

theorem swap_snd (l : Dict α α) : (l.map swap).map Prod.snd = keys l := by
  simp [keys, swap, Function.comp_def]

theorem mem_map_swap (l : Dict α α) (a b : α) : (a, b) ∈ l.map swap ↔ (b, a) ∈ l := by
  simp only [List.mem_map, swap, Prod.mk.injEq, Prod.exists]
  constructor
  · rintro ⟨x, y, h, rfl, rfl⟩; exact h
  · intro h; exact ⟨b, a, h, rfl, rfl⟩

/-- a dict with unique keys and unique values, paired with its transpose, satisfies the invariant -/
theorem OTO.WF.of_transpose (i : Dict α α) (h1 : NodupKeys i) (h2 : NodupKeys (i.map swap)) :
    (⟨i.map swap, i⟩ : OTO α).WF := by
  refine ⟨h2, h1, ?_⟩
  intro k v
  show lookup k (i.map swap) = some v ↔ lookup v i = some k
  rw [← mem_iff_lookup _ h2, ← mem_iff_lookup _ h1, mem_map_swap]

theorem OTO.WF.ofPairs (ps : List (α × α)) : (OTO.ofPairs ps).WF := by
  have hF : NodupKeys (putAll ([] : Dict α α) ps) := putAll_nodup _ _ nodupKeys_nil
  have hI : NodupKeys (putAll ([] : Dict α α) ((putAll [] ps).map swap)) := putAll_nodup _ _ nodupKeys_nil
  unfold OTO.ofPairs
  split
  next hlen =>
    have he := putAll_length_eq ([] : Dict α α) ((putAll [] ps).map swap) (by simpa using hlen) nodupKeys_nil
    simp only [List.nil_append] at he
    rw [he]
    have h2 : NodupKeys (putAll ([] : Dict α α) ps |>.map swap) := by rw [← he]; exact hI
    have := OTO.WF.of_transpose ((putAll ([] : Dict α α) ps).map swap) h2 (by
      simpa [List.map_map, swap, Function.comp_def] using hF)
    simpa [List.map_map, swap, Function.comp_def] using this
  next hlen =>
    apply OTO.WF.of_transpose _ hI
    unfold NodupKeys
    rw [swap_keys]
    apply nodup_snd_of_subset _ ((putAll ([] : Dict α α) ps).map swap) hI
    · rw [swap_snd]; exact hF
    · intro p hp
      rcases mem_putAll _ _ _ hp with h | h
      · simp at h
      · exact h

theorem putAll_of_nodup {β : Type} (d ps : Dict α β) (h : NodupKeys (d ++ ps)) : putAll d ps = d ++ ps := by
  induction ps generalizing d with
  | nil => simp [putAll]
  | cons p ps ih =>
    have he : putAll d (p :: ps) = putAll (put p.1 p.2 d) ps := rfl
    have hk : p.1 ∉ keys d := by
      unfold NodupKeys keys at h
      simp only [List.map_append, List.map_cons, List.nodup_append, List.mem_cons] at h
      intro hm; exact h.2.2 _ hm _ (Or.inl rfl) rfl
    rw [he, put_of_not_mem _ _ _ hk, ih]
    · simp
    · simpa using h

theorem nodup_map_of_inj_on {β γ : Type} (f : β → γ) (l : List β) (hl : l.Nodup)
    (hf : ∀ p ∈ l, ∀ q ∈ l, f p = f q → p = q) : (l.map f).Nodup := by
  induction l with
  | nil => simp
  | cons x r ih =>
    simp only [List.nodup_cons] at hl
    simp only [List.map_cons, List.nodup_cons, List.mem_map, not_exists, not_and]
    refine ⟨?_, ih hl.2 (fun p hp q hq => hf p (List.mem_cons_of_mem _ hp) q (List.mem_cons_of_mem _ hq))⟩
    intro q hq e
    have := hf q (List.mem_cons_of_mem _ hq) x (by simp) e
    exact hl.1 (this ▸ hq)

theorem nodup_of_nodup_map {β γ : Type} (f : β → γ) (l : List β) (h : (l.map f).Nodup) : l.Nodup := by
  induction l with
  | nil => simp
  | cons x r ih =>
    simp only [List.map_cons, List.nodup_cons, List.mem_map, not_exists, not_and] at h
    simp only [List.nodup_cons]
    exact ⟨fun hx => h.1 x hx rfl, ih h.2⟩

theorem nodup_values_of_wf {s : OTO α} (h : s.WF) : NodupKeys (s.fwd.map swap) := by
  unfold NodupKeys
  rw [swap_keys]
  apply nodup_map_of_inj_on _ _ (nodup_of_nodup_map Prod.fst _ h.nf)
  intro p hp q hq e
  have h1 := (mem_iff_lookup _ h.nf p.1 p.2).1 hp
  have h2 := (mem_iff_lookup _ h.nf q.1 q.2).1 hq
  have h3 := (h.inverse _ _).1 h1
  have h4 := (h.inverse _ _).1 h2
  rw [e, h4] at h3
  injection h3 with h3
  exact Prod.ext h3.symm e

/-- `x.copy()` / `OneToOne(x)` of a well-formed instance holds the same forward dict -/
theorem OTO.ofPairs_of_wf {s : OTO α} (h : s.WF) : OTO.ofPairs s.fwd = ⟨s.fwd, s.fwd.map swap⟩ := by
  have h1 : putAll ([] : Dict α α) s.fwd = s.fwd := by
    have := putAll_of_nodup ([] : Dict α α) s.fwd (by simpa using h.nf); simpa using this
  have h2 : putAll ([] : Dict α α) (s.fwd.map swap) = s.fwd.map swap := by
    have := putAll_of_nodup ([] : Dict α α) (s.fwd.map swap) (by simpa using nodup_values_of_wf h)
    simpa using this
  unfold OTO.ofPairs
  rw [h1, h2]
  simp

/-! register file -/

def AllWF (regs : List (OTO α)) : Prop := ∀ s ∈ regs, s.WF

theorem AllWF.append {regs : List (OTO α)} (h : AllWF regs) {s : OTO α} (hs : s.WF) : AllWF (regs ++ [s]) := by
  intro x hx
  simp only [List.mem_append, List.mem_singleton] at hx
  rcases hx with hx | hx
  · exact h x hx
  · exact hx ▸ hs

theorem AllWF.set {regs : List (OTO α)} (h : AllWF regs) (r : Nat) {s : OTO α} (hs : s.WF) :
    AllWF (regs.set r s) := by
  intro x hx
  rcases List.mem_or_eq_of_mem_set hx with hx | hx
  · exact h x hx
  · exact hx ▸ hs

theorem AllWF.get {regs : List (OTO α)} (h : AllWF regs) {r : Nat} {s : OTO α} (hr : regs[r]? = some s) : s.WF :=
  h s (List.mem_of_getElem? hr)

theorem otoCmd_wf {regs regs' : List (OTO α)} {c : OtoCmd α} {ret : Ret α}
    (h : AllWF regs) (hc : otoCmd regs c = some (regs', ret)) : AllWF regs' := by
  cases c with
  | new src =>
    simp only [otoCmd, Option.map_eq_some_iff] at hc
    obtain ⟨ps, _, he⟩ := hc
    injection he with he _; subst he
    exact h.append (OTO.WF.ofPairs ps)
  | unique src =>
    simp only [otoCmd, Option.map_eq_some_iff] at hc
    obtain ⟨ps, _, he⟩ := hc
    unfold OTO.uniqueOfPairs at he
    split at he
    next s1 hq =>
      injection he with he _; subst he
      split at hq
      · injection hq with hq; subst hq; exact h.append (OTO.WF.ofPairs ps)
      · simp at hq
    next => injection he with he _; subst he; exact h.append OTO.WF.empty
  | copy r side =>
    simp only [otoCmd, Option.map_eq_some_iff] at hc
    obtain ⟨s, _, he⟩ := hc
    injection he with he _; subst he
    exact h.append (OTO.WF.ofPairs _)
  | op r side op =>
    simp only [otoCmd, Option.map_eq_some_iff] at hc
    obtain ⟨s, hs, he⟩ := hc
    injection he with he _; subst he
    exact h.set r ((h.get hs).stepSide side op)
  | updateFrom r side src =>
    simp only [otoCmd] at hc
    split at hc
    next s ps hs hps =>
      injection hc with hc; injection hc with hc _; subst hc
      exact h.set r ((h.get hs).stepSide side _)
    next => simp at hc

theorem otoRun_wf {regs regs' : List (OTO α)} (cs : List (OtoCmd α))
    (h : AllWF regs) (hr : otoRun regs cs = some regs') : AllWF regs' := by
  induction cs generalizing regs with
  | nil => simp only [otoRun] at hr; injection hr with hr; exact hr ▸ h
  | cons c cs ih =>
    simp only [otoRun] at hr
    split at hr
    next r1 ret hc => exact ih (otoCmd_wf h hc) hr
    next => simp at hr

/-- a command leaves every register other than its target untouched, and never removes one -/
theorem otoCmd_isolated {regs regs' : List (OTO α)} {c : OtoCmd α} {ret : Ret α}
    (hc : otoCmd regs c = some (regs', ret)) (j : Nat) (hj : j < regs.length)
    (ht : ∀ r side op, c = .op r side op → j ≠ r) (ht2 : ∀ r side src, c = .updateFrom r side src → j ≠ r) :
    regs'[j]? = regs[j]? := by
  cases c with
  | new src =>
    simp only [otoCmd, Option.map_eq_some_iff] at hc
    obtain ⟨ps, _, he⟩ := hc
    injection he with he _; subst he
    simp [List.getElem?_append, hj]
  | unique src =>
    simp only [otoCmd, Option.map_eq_some_iff] at hc
    obtain ⟨ps, _, he⟩ := hc
    split at he <;> (injection he with he _; subst he; simp [List.getElem?_append, hj])
  | copy r side =>
    simp only [otoCmd, Option.map_eq_some_iff] at hc
    obtain ⟨s, _, he⟩ := hc
    injection he with he _; subst he
    simp [List.getElem?_append, hj]
  | op r side op =>
    simp only [otoCmd, Option.map_eq_some_iff] at hc
    obtain ⟨s, hs, he⟩ := hc
    injection he with he _; subst he
    have := ht r side op rfl
    simp [List.getElem?_set, Ne.symm this]
  | updateFrom r side src =>
    simp only [otoCmd] at hc
    split at hc
    next s ps hs hps =>
      injection hc with hc; injection hc with hc _; subst hc
      have := ht2 r side src rfl
      simp [List.getElem?_set, Ne.symm this]
    next => simp at hc

end oto
end C17
