import BoltonsVerif.C17.Model
/-
C17 — helper lemmas: association-list dictionaries, the OneToOne invariant,
the ManyToMany invariant, FrozenDict hashing.
-/
namespace C17

section dict
variable {α β : Type} [DecidableEq α]

@[simp] theorem lookup_nil (k : α) : lookup k ([] : Dict α β) = none := rfl

theorem lookup_put (a k : α) (v : β) (d : Dict α β) :
    lookup a (put k v d) = if a = k then some v else lookup a d := by
  induction d with
  | nil => grind [put, lookup]
  | cons p r ih => grind [put, lookup]

theorem lookup_erase (a k : α) (d : Dict α β) :
    lookup a (erase k d) = if a = k then none else lookup a d := by
  induction d with
  | nil => grind [erase, lookup]
  | cons p r ih => grind [erase, lookup]

/-- dict keys are unique -/
def NodupKeys (d : Dict α β) : Prop := (keys d).Nodup

theorem mem_keys_iff_lookup (k : α) (d : Dict α β) : k ∈ keys d ↔ (lookup k d).isSome = true := by
  induction d with
  | nil => simp [keys]
  | cons p r ih =>
    obtain ⟨x, y⟩ := p
    simp only [keys, List.map_cons, List.mem_cons, lookup] at ih ⊢
    grind

theorem lookup_none_iff (k : α) (d : Dict α β) : lookup k d = none ↔ k ∉ keys d := by
  rw [mem_keys_iff_lookup]; cases lookup k d <;> simp

theorem keys_put (k : α) (v : β) (d : Dict α β) :
    keys (put k v d) = if k ∈ keys d then keys d else keys d ++ [k] := by
  induction d with
  | nil => simp [put, keys]
  | cons p r ih =>
    obtain ⟨x, y⟩ := p
    simp only [keys, put, List.map_cons, List.mem_cons] at ih ⊢
    grind

theorem nodupKeys_put (k : α) (v : β) (d : Dict α β) (h : NodupKeys d) : NodupKeys (put k v d) := by
  unfold NodupKeys at *
  rw [keys_put]
  split
  · exact h
  · rw [List.nodup_append]
    refine ⟨h, by simp, ?_⟩
    intro a ha b hb
    simp at hb; subst hb
    intro hab; subst hab; contradiction

theorem keys_erase_sublist (k : α) (d : Dict α β) : (keys (erase k d)).Sublist (keys d) := by
  induction d with
  | nil => simp [erase, keys]
  | cons p r ih =>
    obtain ⟨x, y⟩ := p
    simp only [erase]
    split
    · exact ih.trans (by simp [keys])
    · simpa [keys] using ih

theorem nodupKeys_erase (k : α) (d : Dict α β) (h : NodupKeys d) : NodupKeys (erase k d) :=
  List.Nodup.sublist (keys_erase_sublist k d) h

theorem nodupKeys_nil : NodupKeys ([] : Dict α β) := by simp [NodupKeys, keys]

/-- with unique keys, membership of an item is lookup -/
theorem mem_iff_lookup (d : Dict α β) (h : NodupKeys d) (k : α) (v : β) :
    (k, v) ∈ d ↔ lookup k d = some v := by
  induction d with
  | nil => simp
  | cons p r ih =>
    obtain ⟨x, y⟩ := p
    have hr : NodupKeys r := by
      unfold NodupKeys keys at *; simp at h; exact h.2
    have hx : x ∉ keys r := by
      unfold NodupKeys keys at *; simp at h; simpa [keys] using h.1
    simp only [List.mem_cons, lookup, Prod.mk.injEq]
    by_cases hk : x = k
    · subst hk
      simp
      constructor
      · rintro (h1 | h1)
        · exact h1.symm
        · exact absurd (List.mem_map_of_mem (f := Prod.fst) h1) hx
      · intro h1; exact Or.inl h1.symm
    · have := ih hr
      grind

theorem putAll_nodup (d : Dict α β) (ps : List (α × β)) (h : NodupKeys d) : NodupKeys (putAll d ps) := by
  unfold putAll
  induction ps generalizing d with
  | nil => exact h
  | cons p ps ih => exact ih _ (nodupKeys_put _ _ _ h)

end dict

/-! ## OneToOne -/
section oto
variable {α : Type} [DecidableEq α]

/-- the invariant: both dicts have unique keys and are inverse inverses -/
structure OTO.WF (s : OTO α) : Prop where
  nf : NodupKeys s.fwd
  ni : NodupKeys s.inv
  inverse : ∀ k v, lookup k s.fwd = some v ↔ lookup v s.inv = some k

theorem OTO.WF.flip {s : OTO α} (h : s.WF) : s.flip.WF :=
  ⟨h.ni, h.nf, fun k v => (h.inverse v k).symm⟩

theorem OTO.WF.empty : (OTO.empty : OTO α).WF :=
  ⟨nodupKeys_nil, nodupKeys_nil, by simp [OTO.empty]⟩

theorem OTO.dropOld_lookup {s : OTO α} (k a : α) :
    lookup a (s.dropOld k) = if lookup k s.fwd = some a then none else lookup a s.inv := by
  unfold OTO.dropOld
  cases hk : lookup k s.fwd with
  | none => simp
  | some v0 => simp [lookup_erase, eq_comm]

/-- functional specification of `__setitem__` on the forward side … -/
theorem OTO.setitem_fwd {s : OTO α} (h : s.WF) (k v a : α) :
    lookup a (s.setitem k v).fwd =
      if a = k then some v else if lookup a s.fwd = some v then none else lookup a s.fwd := by
  have hm := h.inverse
  unfold OTO.setitem
  cases hv : lookup v (s.dropOld k) with
  | none =>
    rw [OTO.dropOld_lookup] at hv
    simp only [lookup_put]
    grind
  | some k' =>
    rw [OTO.dropOld_lookup] at hv
    simp only [lookup_put, lookup_erase]
    grind

/-- … and on the inverse side -/
theorem OTO.setitem_inv {s : OTO α} (h : s.WF) (k v b : α) :
    lookup b (s.setitem k v).inv =
      if b = v then some k else if lookup b s.inv = some k then none else lookup b s.inv := by
  have hm := h.inverse
  unfold OTO.setitem
  cases hv : lookup v (s.dropOld k) with
  | none =>
    rw [OTO.dropOld_lookup] at hv
    simp only [lookup_put, OTO.dropOld_lookup]
    grind
  | some k' =>
    rw [OTO.dropOld_lookup] at hv
    simp only [lookup_put, lookup_erase, OTO.dropOld_lookup]
    grind

theorem OTO.WF.setitem {s : OTO α} (h : s.WF) (k v : α) : (s.setitem k v).WF := by
  refine ⟨?_, ?_, ?_⟩
  · unfold OTO.setitem; split <;> simp only <;>
      first | exact nodupKeys_put _ _ _ (nodupKeys_erase _ _ h.nf) | exact nodupKeys_put _ _ _ h.nf
  · have hd : NodupKeys (s.dropOld k) := by
      unfold OTO.dropOld; split
      · exact nodupKeys_erase _ _ h.ni
      · exact h.ni
    unfold OTO.setitem; split <;> simp only <;>
      first | exact nodupKeys_put _ _ _ (nodupKeys_erase _ _ hd) | exact nodupKeys_put _ _ _ hd
  · intro a b
    rw [OTO.setitem_fwd h, OTO.setitem_inv h]
    have hm := h.inverse
    grind

theorem lookup_snoc_nodup {β : Type} (l : Dict α β) (k : α) (v : β) (h : NodupKeys (l ++ [(k, v)])) (a : α) :
    lookup a l = if a = k then none else lookup a (l ++ [(k, v)]) := by
  induction l with
  | nil => simp [lookup]; intro h1 h2; exact absurd h2.symm h1
  | cons p r ih =>
    obtain ⟨x, y⟩ := p
    have hr : NodupKeys (r ++ [(k, v)]) := by
      unfold NodupKeys keys at *; simp at h ⊢; grind
    have hx : x ≠ k := by
      unfold NodupKeys keys at h; simp at h; grind
    have := ih hr
    simp only [List.cons_append, lookup]
    grind

theorem getLast_split {β : Type} (l : List β) (x : β) (h : l.getLast? = some x) : l = l.dropLast ++ [x] := by
  induction l with
  | nil => simp at h
  | cons a r ih =>
    cases r with
    | nil => simp at h; simp [h]
    | cons b r' =>
      simp only [List.getLast?_cons_cons] at h
      simp [List.dropLast, ← ih h]

theorem nodupKeys_dropLast {β : Type} (l : Dict α β) (h : NodupKeys l) : NodupKeys l.dropLast := by
  unfold NodupKeys keys at *
  exact List.Nodup.sublist ((List.dropLast_sublist l).map _) h

theorem lookup_dropLast {β : Type} (l : Dict α β) (k : α) (v : β) (h : NodupKeys l)
    (hl : l.getLast? = some (k, v)) (a : α) :
    lookup a l.dropLast = if a = k then none else lookup a l := by
  have hs := getLast_split l (k, v) hl
  have h' : NodupKeys (l.dropLast ++ [(k, v)]) := by rw [← hs]; exact h
  have := lookup_snoc_nodup l.dropLast k v h' a
  rw [← hs] at this
  exact this

theorem lookup_getLast {β : Type} (l : Dict α β) (k : α) (v : β) (h : NodupKeys l)
    (hl : l.getLast? = some (k, v)) : lookup k l = some v := by
  rw [← mem_iff_lookup l h]
  exact List.mem_of_getLast? hl

theorem OTO.WF.remove_pair {s : OTO α} (h : s.WF) (k v : α) (hk : lookup k s.fwd = some v) :
    (⟨erase k s.fwd, erase v s.inv⟩ : OTO α).WF := by
  refine ⟨nodupKeys_erase _ _ h.nf, nodupKeys_erase _ _ h.ni, ?_⟩
  intro a b
  simp only [lookup_erase]
  have hm := h.inverse
  grind

theorem OTO.WF.delitem {s : OTO α} (h : s.WF) (k : α) : (s.delitem k).1.WF := by
  unfold OTO.delitem
  cases hk : lookup k s.fwd with
  | none => exact h
  | some v => exact h.remove_pair k v hk

theorem OTO.WF.pop {s : OTO α} (h : s.WF) (k : α) (d : Option α) : (s.pop k d).1.WF := by
  unfold OTO.pop
  cases hk : lookup k s.fwd with
  | none => cases d <;> exact h
  | some v => exact h.remove_pair k v hk

theorem OTO.WF.popitem {s : OTO α} (h : s.WF) : s.popitem.1.WF := by
  unfold OTO.popitem
  cases hl : s.fwd.getLast? with
  | none => exact h
  | some p =>
    obtain ⟨k, v⟩ := p
    have hk := lookup_getLast s.fwd k v h.nf hl
    refine ⟨nodupKeys_dropLast _ h.nf, nodupKeys_erase _ _ h.ni, ?_⟩
    intro a b
    simp only [lookup_dropLast s.fwd k v h.nf hl, lookup_erase]
    have hm := h.inverse
    grind

theorem OTO.WF.popitemAs {s : OTO α} (h : s.WF) (k v : α) : (s.popitemAs k v).1.WF := by
  unfold OTO.popitemAs
  split
  · next hk => exact h.remove_pair k v hk
  · exact h.popitem

theorem OTO.WF.setdefault {s : OTO α} (h : s.WF) (k d : α) : (s.setdefault k d).1.WF := by
  unfold OTO.setdefault
  cases hk : lookup k s.fwd with
  | none => exact h.setitem k d
  | some v => exact h

theorem OTO.WF.clear {s : OTO α} : s.clear.WF := OTO.WF.empty

theorem OTO.WF.update {s : OTO α} (h : s.WF) (ps : List (α × α)) : (s.update ps).WF := by
  unfold OTO.update
  induction ps generalizing s with
  | nil => exact h
  | cons p ps ih => exact ih (h.setitem p.1 p.2)

theorem OTO.WF.step {s : OTO α} (h : s.WF) (op : OtoOp α) : (s.step op).1.WF := by
  cases op with
  | setitem k v => exact h.setitem k v
  | delitem k => exact h.delitem k
  | update ps => exact h.update ps
  | setdefault k d => exact h.setdefault k d
  | pop k d => exact h.pop k d
  | popitem => exact h.popitem
  | popitemAs k v => exact h.popitemAs k v
  | clear => exact OTO.WF.clear (s := s)

theorem OTO.WF.stepSide {s : OTO α} (h : s.WF) (side : Bool) (op : OtoOp α) : (s.stepSide side op).1.WF := by
  unfold OTO.stepSide
  cases side with
  | false => exact h.step op
  | true => exact (h.flip.step op).flip

/-! constructor -/

theorem length_put {β : Type} (k : α) (v : β) (d : Dict α β) :
    (put k v d).length = if k ∈ keys d then d.length else d.length + 1 := by
  have h := keys_put k v d
  have hl : ∀ e : Dict α β, (keys e).length = e.length := fun e => by simp [keys]
  by_cases hk : k ∈ keys d
  · rw [if_pos hk] at h ⊢; rw [← hl, h, hl]
  · rw [if_neg hk] at h ⊢; rw [← hl, h]; simp [hl]

theorem put_of_not_mem {β : Type} (k : α) (v : β) (d : Dict α β) (h : k ∉ keys d) :
    put k v d = d ++ [(k, v)] := by
  induction d with
  | nil => rfl
  | cons p r ih =>
    obtain ⟨x, y⟩ := p
    simp only [keys, List.map_cons, List.mem_cons, not_or] at h
    simp only [put]
    rw [if_neg (Ne.symm h.1), ih (by simpa [keys] using h.2)]
    rfl

theorem mem_put {β : Type} (k : α) (v : β) (d : Dict α β) (p : α × β) (h : p ∈ put k v d) :
    p ∈ d ∨ p = (k, v) := by
  induction d with
  | nil => simp [put] at h; exact Or.inr h
  | cons q r ih =>
    obtain ⟨x, y⟩ := q
    simp only [put] at h
    split at h
    · simp only [List.mem_cons] at h ⊢
      grind
    · simp only [List.mem_cons] at h ⊢
      grind

theorem mem_putAll {β : Type} (d : Dict α β) (ps : List (α × β)) (p : α × β) (h : p ∈ putAll d ps) :
    p ∈ d ∨ p ∈ ps := by
  unfold putAll at h
  induction ps generalizing d with
  | nil => exact Or.inl h
  | cons q ps ih =>
    rcases ih _ h with h1 | h1
    · rcases mem_put _ _ _ _ h1 with h2 | h2
      · exact Or.inl h2
      · exact Or.inr (by simp [h2])
    · exact Or.inr (List.mem_cons_of_mem _ h1)

/-- `dict(pairs)` has as many entries as pairs only when no key repeats (and then it IS the list) -/
theorem putAll_length_le {β : Type} (d : Dict α β) (ps : List (α × β)) :
    (putAll d ps).length ≤ d.length + ps.length := by
  unfold putAll
  induction ps generalizing d with
  | nil => simp
  | cons p ps ih =>
    have := ih (put p.1 p.2 d)
    have h2 := length_put p.1 p.2 d
    simp only [List.foldl_cons, List.length_cons]
    split at h2 <;> omega

theorem putAll_length_eq {β : Type} (d : Dict α β) (ps : List (α × β))
    (h : (putAll d ps).length = d.length + ps.length) (hd : NodupKeys d) : putAll d ps = d ++ ps := by
  induction ps generalizing d with
  | nil => simp [putAll]
  | cons p ps ih =>
    have hle := putAll_length_le (put p.1 p.2 d) ps
    have h2 := length_put p.1 p.2 d
    have he : putAll d (p :: ps) = putAll (put p.1 p.2 d) ps := rfl
    rw [he] at h ⊢
    simp only [List.length_cons] at h
    by_cases hk : p.1 ∈ keys d
    · rw [if_pos hk] at h2; omega
    · rw [if_neg hk] at h2
      rw [ih _ (by omega) (nodupKeys_put _ _ _ hd), put_of_not_mem _ _ _ hk]
      simp

theorem eq_of_nodup_snd {β : Type} (m : List (β × α)) (h : (m.map Prod.snd).Nodup) (p q : β × α)
    (hp : p ∈ m) (hq : q ∈ m) (e : p.2 = q.2) : p = q := by
  induction m with
  | nil => simp at hp
  | cons x r ih =>
    simp only [List.map_cons, List.nodup_cons, List.mem_map, not_exists, not_and] at h
    simp only [List.mem_cons] at hp hq
    rcases hp with hp | hp <;> rcases hq with hq | hq
    · rw [hp, hq]
    · subst hp; exact absurd e.symm (h.1 q hq)
    · subst hq; exact absurd e (h.1 p hp)
    · exact ih h.2 hp hq

theorem nodup_snd_of_subset (l m : List (α × α)) (hl : (l.map Prod.fst).Nodup)
    (hm : (m.map Prod.snd).Nodup) (hs : ∀ p ∈ l, p ∈ m) : (l.map Prod.snd).Nodup := by
  induction l with
  | nil => simp
  | cons p r ih =>
    simp only [List.map_cons, List.nodup_cons, List.mem_map, not_exists, not_and] at hl ⊢
    refine ⟨?_, ih hl.2 (fun q hq => hs q (List.mem_cons_of_mem _ hq))⟩
    intro q hq e
    have := eq_of_nodup_snd m hm q p (hs q (List.mem_cons_of_mem _ hq)) (hs p (by simp)) e
    subst this
    exact hl.1 q hq rfl

theorem swap_keys (l : Dict α α) : keys (l.map swap) = l.map Prod.snd := by
  simp [keys, swap, Function.comp_def]

theorem swap_snd (l : Dict α α) : (l.map swap).map Prod.snd = keys l := by
  simp [keys, swap, Function.comp_def]

theorem mem_map_swap (l : Dict α α) (a b : α) : (a, b) ∈ l.map swap ↔ (b, a) ∈ l := by
  simp only [List.mem_map, swap, Prod.mk.injEq, Prod.exists]
  constructor
  · rintro ⟨x, y, h, rfl, rfl⟩; exact h
  · intro h; exact ⟨b, a, h, rfl, rfl⟩

/-- a dict with unique keys and unique values, paired with its transpose, satisfies the invariant -/
theorem OTO.WF.of_transpose (i : Dict α α) (h1 : NodupKeys i) (h2 : NodupKeys (i.map swap)) :
    (⟨i.map swap, i⟩ : OTO α).WF := by
  refine ⟨h2, h1, ?_⟩
  intro k v
  show lookup k (i.map swap) = some v ↔ lookup v i = some k
  rw [← mem_iff_lookup _ h2, ← mem_iff_lookup _ h1, mem_map_swap]

theorem OTO.WF.ofPairs (ps : List (α × α)) : (OTO.ofPairs ps).WF := by
  have hF : NodupKeys (putAll ([] : Dict α α) ps) := putAll_nodup _ _ nodupKeys_nil
  have hI : NodupKeys (putAll ([] : Dict α α) ((putAll [] ps).map swap)) := putAll_nodup _ _ nodupKeys_nil
  unfold OTO.ofPairs
  split
  next hlen =>
    have he := putAll_length_eq ([] : Dict α α) ((putAll [] ps).map swap) (by simpa using hlen) nodupKeys_nil
    simp only [List.nil_append] at he
    rw [he]
    have h2 : NodupKeys (putAll ([] : Dict α α) ps |>.map swap) := by rw [← he]; exact hI
    have := OTO.WF.of_transpose ((putAll ([] : Dict α α) ps).map swap) h2 (by
      simpa [List.map_map, swap, Function.comp_def] using hF)
    simpa [List.map_map, swap, Function.comp_def] using this
  next hlen =>
    apply OTO.WF.of_transpose _ hI
    unfold NodupKeys
    rw [swap_keys]
    apply nodup_snd_of_subset _ ((putAll ([] : Dict α α) ps).map swap) hI
    · rw [swap_snd]; exact hF
    · intro p hp
      rcases mem_putAll _ _ _ hp with h | h
      · simp at h
      · exact h

theorem putAll_of_nodup {β : Type} (d ps : Dict α β) (h : NodupKeys (d ++ ps)) : putAll d ps = d ++ ps := by
  induction ps generalizing d with
  | nil => simp [putAll]
  | cons p ps ih =>
    have he : putAll d (p :: ps) = putAll (put p.1 p.2 d) ps := rfl
    have hk : p.1 ∉ keys d := by
      unfold NodupKeys keys at h
      simp only [List.map_append, List.map_cons, List.nodup_append, List.mem_cons] at h
      intro hm; exact h.2.2 _ hm _ (Or.inl rfl) rfl
    rw [he, put_of_not_mem _ _ _ hk, ih]
    · simp
    · simpa using h

theorem nodup_map_of_inj_on {β γ : Type} (f : β → γ) (l : List β) (hl : l.Nodup)
    (hf : ∀ p ∈ l, ∀ q ∈ l, f p = f q → p = q) : (l.map f).Nodup := by
  induction l with
  | nil => simp
  | cons x r ih =>
    simp only [List.nodup_cons] at hl
    simp only [List.map_cons, List.nodup_cons, List.mem_map, not_exists, not_and]
    refine ⟨?_, ih hl.2 (fun p hp q hq => hf p (List.mem_cons_of_mem _ hp) q (List.mem_cons_of_mem _ hq))⟩
    intro q hq e
    have := hf q (List.mem_cons_of_mem _ hq) x (by simp) e
    exact hl.1 (this ▸ hq)

theorem nodup_of_nodup_map {β γ : Type} (f : β → γ) (l : List β) (h : (l.map f).Nodup) : l.Nodup := by
  induction l with
  | nil => simp
  | cons x r ih =>
    simp only [List.map_cons, List.nodup_cons, List.mem_map, not_exists, not_and] at h
    simp only [List.nodup_cons]
    exact ⟨fun hx => h.1 x hx rfl, ih h.2⟩

theorem nodup_values_of_wf {s : OTO α} (h : s.WF) : NodupKeys (s.fwd.map swap) := by
  unfold NodupKeys
  rw [swap_keys]
  apply nodup_map_of_inj_on _ _ (nodup_of_nodup_map Prod.fst _ h.nf)
  intro p hp q hq e
  have h1 := (mem_iff_lookup _ h.nf p.1 p.2).1 hp
  have h2 := (mem_iff_lookup _ h.nf q.1 q.2).1 hq
  have h3 := (h.inverse _ _).1 h1
  have h4 := (h.inverse _ _).1 h2
  rw [e, h4] at h3
  injection h3 with h3
  exact Prod.ext h3.symm e

/-- `x.copy()` / `OneToOne(x)` of a well-formed instance holds the same forward dict -/
theorem OTO.ofPairs_of_wf {s : OTO α} (h : s.WF) : OTO.ofPairs s.fwd = ⟨s.fwd, s.fwd.map swap⟩ := by
  have h1 : putAll ([] : Dict α α) s.fwd = s.fwd := by
    have := putAll_of_nodup ([] : Dict α α) s.fwd (by simpa using h.nf); simpa using this
  have h2 : putAll ([] : Dict α α) (s.fwd.map swap) = s.fwd.map swap := by
    have := putAll_of_nodup ([] : Dict α α) (s.fwd.map swap) (by simpa using nodup_values_of_wf h)
    simpa using this
  unfold OTO.ofPairs
  rw [h1, h2]
  simp

/-! register file -/

/-- a bijection given by its item list (distinct keys, distinct values) with the swapped list as inverse -/
theorem OTO.WF.ofBijection (l : List (α × α)) (hk : (l.map Prod.fst).Nodup) (hv : (l.map Prod.snd).Nodup) :
    (⟨l, l.map swap⟩ : OTO α).WF := by
  have hi : NodupKeys (l.map swap) := by
    unfold NodupKeys keys
    rw [List.map_map]
    exact hv
  refine ⟨hk, hi, fun k v => ?_⟩
  show lookup k l = some v ↔ lookup v (l.map swap) = some k
  rw [← mem_iff_lookup l hk, ← mem_iff_lookup _ hi, mem_map_swap]

theorem OTO.WF.ofPairsAs (ps hint : List (α × α)) : (OTO.ofPairsAs ps hint).WF := by
  unfold OTO.ofPairsAs
  split
  · next h =>
    simp only [OTO.admissible, Bool.and_eq_true, decide_eq_true_eq] at h
    exact OTO.WF.ofBijection hint h.1.1.1 h.1.1.2
  · exact OTO.WF.ofPairs ps

def AllWF (regs : List (OTO α)) : Prop := ∀ s ∈ regs, s.WF

theorem AllWF.append {regs : List (OTO α)} (h : AllWF regs) {s : OTO α} (hs : s.WF) : AllWF (regs ++ [s]) := by
  intro x hx
  simp only [List.mem_append, List.mem_singleton] at hx
  rcases hx with hx | hx
  · exact h x hx
  · exact hx ▸ hs

theorem AllWF.set {regs : List (OTO α)} (h : AllWF regs) (r : Nat) {s : OTO α} (hs : s.WF) :
    AllWF (regs.set r s) := by
  intro x hx
  rcases List.mem_or_eq_of_mem_set hx with hx | hx
  · exact h x hx
  · exact hx ▸ hs

theorem AllWF.get {regs : List (OTO α)} (h : AllWF regs) {r : Nat} {s : OTO α} (hr : regs[r]? = some s) : s.WF :=
  h s (List.mem_of_getElem? hr)

theorem otoCmd_wf {regs regs' : List (OTO α)} {c : OtoCmd α} {ret : Ret α}
    (h : AllWF regs) (hc : otoCmd regs c = some (regs', ret)) : AllWF regs' := by
  cases c with
  | new src =>
    simp only [otoCmd, Option.map_eq_some_iff] at hc
    obtain ⟨ps, _, he⟩ := hc
    injection he with he _; subst he
    exact h.append (OTO.WF.ofPairs ps)
  | newAs src hint =>
    simp only [otoCmd, Option.map_eq_some_iff] at hc
    obtain ⟨ps, _, he⟩ := hc
    injection he with he _; subst he
    exact h.append (OTO.WF.ofPairsAs ps hint)
  | unique src =>
    simp only [otoCmd, Option.map_eq_some_iff] at hc
    obtain ⟨ps, _, he⟩ := hc
    unfold OTO.uniqueOfPairs at he
    split at he
    next s1 hq =>
      injection he with he _; subst he
      split at hq
      · injection hq with hq; subst hq; exact h.append (OTO.WF.ofPairs ps)
      · simp at hq
    next => injection he with he _; subst he; exact h.append OTO.WF.empty
  | copy r side =>
    simp only [otoCmd, Option.map_eq_some_iff] at hc
    obtain ⟨s, _, he⟩ := hc
    injection he with he _; subst he
    exact h.append (OTO.WF.ofPairs _)
  | op r side op =>
    simp only [otoCmd, Option.map_eq_some_iff] at hc
    obtain ⟨s, hs, he⟩ := hc
    injection he with he _; subst he
    exact h.set r ((h.get hs).stepSide side op)
  | updateFrom r side src =>
    simp only [otoCmd] at hc
    split at hc
    next s ps hs hps =>
      injection hc with hc; injection hc with hc _; subst hc
      exact h.set r ((h.get hs).stepSide side _)
    next => simp at hc

theorem otoRun_wf {regs regs' : List (OTO α)} (cs : List (OtoCmd α))
    (h : AllWF regs) (hr : otoRun regs cs = some regs') : AllWF regs' := by
  induction cs generalizing regs with
  | nil => simp only [otoRun] at hr; injection hr with hr; exact hr ▸ h
  | cons c cs ih =>
    simp only [otoRun] at hr
    split at hr
    next r1 ret hc => exact ih (otoCmd_wf h hc) hr
    next => simp at hr

/-- a command leaves every register other than its target untouched, and never removes one -/
theorem otoCmd_isolated {regs regs' : List (OTO α)} {c : OtoCmd α} {ret : Ret α}
    (hc : otoCmd regs c = some (regs', ret)) (j : Nat) (hj : j < regs.length)
    (ht : ∀ r side op, c = .op r side op → j ≠ r) (ht2 : ∀ r side src, c = .updateFrom r side src → j ≠ r) :
    regs'[j]? = regs[j]? := by
  cases c with
  | new src =>
    simp only [otoCmd, Option.map_eq_some_iff] at hc
    obtain ⟨ps, _, he⟩ := hc
    injection he with he _; subst he
    simp [List.getElem?_append, hj]
  | newAs src hint =>
    simp only [otoCmd, Option.map_eq_some_iff] at hc
    obtain ⟨ps, _, he⟩ := hc
    injection he with he _; subst he
    simp [List.getElem?_append, hj]
  | unique src =>
    simp only [otoCmd, Option.map_eq_some_iff] at hc
    obtain ⟨ps, _, he⟩ := hc
    split at he <;> (injection he with he _; subst he; simp [List.getElem?_append, hj])
  | copy r side =>
    simp only [otoCmd, Option.map_eq_some_iff] at hc
    obtain ⟨s, _, he⟩ := hc
    injection he with he _; subst he
    simp [List.getElem?_append, hj]
  | op r side op =>
    simp only [otoCmd, Option.map_eq_some_iff] at hc
    obtain ⟨s, hs, he⟩ := hc
    injection he with he _; subst he
    have := ht r side op rfl
    simp [List.getElem?_set, Ne.symm this]
  | updateFrom r side src =>
    simp only [otoCmd] at hc
    split at hc
    next s ps hs hps =>
      injection hc with hc; injection hc with hc _; subst hc
      have := ht2 r side src rfl
      simp [List.getElem?_set, Ne.symm this]
    next => simp at hc

end oto
/-! ## ManyToMany -/
section m2m
variable {α : Type} [DecidableEq α]

theorem mem_insertSet (a v : α) (vs : List α) : a ∈ insertSet v vs ↔ a ∈ vs ∨ a = v := by
  unfold insertSet; split <;> simp <;> grind

theorem nodup_insertSet (v : α) (vs : List α) (h : vs.Nodup) : (insertSet v vs).Nodup := by
  unfold insertSet; split
  · exact h
  · rw [List.nodup_append]; refine ⟨h, by simp, ?_⟩
    intro a ha b hb; simp at hb; subst hb; intro e; subst e; contradiction

theorem insertSet_ne_nil (v : α) (vs : List α) : insertSet v vs ≠ [] := by
  unfold insertSet; split
  · intro h; simp_all
  · simp

theorem mem_removeElem (a v : α) (vs : List α) : a ∈ removeElem v vs ↔ a ∈ vs ∧ a ≠ v := by
  simp [removeElem, neqB]

theorem nodup_removeElem (v : α) (vs : List α) (h : vs.Nodup) : (removeElem v vs).Nodup :=
  List.Nodup.sublist List.filter_sublist h

theorem mem_unionSet (a : α) (x y : List α) : a ∈ unionSet x y ↔ a ∈ x ∨ a ∈ y := by
  unfold unionSet
  induction y generalizing x with
  | nil => simp
  | cons b r ih => simp only [List.foldl_cons, ih, mem_insertSet, List.mem_cons]; grind

theorem nodup_unionSet (x y : List α) (h : x.Nodup) : (unionSet x y).Nodup := by
  unfold unionSet
  induction y generalizing x with
  | nil => exact h
  | cons b r ih => exact ih _ (nodup_insertSet _ _ h)

theorem unionSet_ne_nil (x y : List α) (h : x ≠ [] ∨ y ≠ []) : unionSet x y ≠ [] := by
  intro e
  rcases h with h | h
  · cases x with
    | nil => exact h rfl
    | cons a r => have := (mem_unionSet a (a :: r) y).2 (Or.inl (by simp)); rw [e] at this; simp at this
  · cases y with
    | nil => exact h rfl
    | cons a r => have := (mem_unionSet a x (a :: r)).2 (Or.inr (by simp)); rw [e] at this; simp at this

theorem toSet_eq (vs : List α) : toSet vs = unionSet [] vs := rfl

theorem mem_toSet (a : α) (vs : List α) : a ∈ toSet vs ↔ a ∈ vs := by
  rw [toSet_eq, mem_unionSet]; simp

theorem nodup_toSet (vs : List α) : (toSet vs).Nodup := by
  rw [toSet_eq]; exact nodup_unionSet _ _ (by simp)

theorem getSet_put (a k : α) (vs : List α) (d : Dict α (List α)) :
    getSet a (put k vs d) = if a = k then vs else getSet a d := by
  unfold getSet; rw [lookup_put]; split <;> simp

theorem getSet_erase (a k : α) (d : Dict α (List α)) :
    getSet a (erase k d) = if a = k then [] else getSet a d := by
  unfold getSet; rw [lookup_erase]; split <;> simp

/-- a well-formed `dict of sets`: unique keys, no empty set, no duplicate element -/
structure GoodDict (d : Dict α (List α)) : Prop where
  nk : NodupKeys d
  ne : ∀ k vs, lookup k d = some vs → vs ≠ [] ∧ vs.Nodup

theorem GoodDict.nil : GoodDict ([] : Dict α (List α)) := ⟨nodupKeys_nil, by simp⟩

theorem GoodDict.put {d : Dict α (List α)} (h : GoodDict d) (k : α) (vs : List α) (h1 : vs ≠ []) (h2 : vs.Nodup) :
    GoodDict (put k vs d) := by
  refine ⟨nodupKeys_put _ _ _ h.nk, ?_⟩
  intro a ws
  rw [lookup_put]
  split
  · intro e; injection e with e; subst e; exact ⟨h1, h2⟩
  · exact h.ne a ws

theorem GoodDict.erase {d : Dict α (List α)} (h : GoodDict d) (k : α) : GoodDict (erase k d) := by
  refine ⟨nodupKeys_erase _ _ h.nk, ?_⟩
  intro a ws
  rw [lookup_erase]
  split
  · simp
  · exact h.ne a ws

theorem GoodDict.getSet_nodup {d : Dict α (List α)} (h : GoodDict d) (k : α) : (getSet k d).Nodup := by
  unfold getSet
  cases hl : lookup k d with
  | none => simp
  | some vs => simpa using (h.ne k vs hl).2

theorem GoodDict.hasKey_iff {d : Dict α (List α)} (h : GoodDict d) (k : α) :
    hasKey k d = true ↔ getSet k d ≠ [] := by
  unfold hasKey getSet
  cases hl : lookup k d with
  | none => simp
  | some vs => simpa using (h.ne k vs hl).1

theorem GoodDict.addTo {d : Dict α (List α)} (h : GoodDict d) (k v : α) : GoodDict (addTo k v d) :=
  h.put k _ (insertSet_ne_nil _ _) (nodup_insertSet _ _ (h.getSet_nodup k))

theorem mem_getSet_addTo (d : Dict α (List α)) (k v a x : α) :
    x ∈ getSet a (addTo k v d) ↔ x ∈ getSet a d ∨ (a = k ∧ x = v) := by
  unfold addTo; rw [getSet_put]; split
  · next e => subst e; rw [mem_insertSet]; grind
  · grind

theorem GoodDict.removeFrom {d : Dict α (List α)} (h : GoodDict d) (k v : α) : GoodDict (removeFrom k v d) := by
  unfold C17.removeFrom; split
  · exact h.erase k
  · next hne => exact h.put k _ hne (nodup_removeElem _ _ (h.getSet_nodup k))

theorem mem_getSet_removeFrom (d : Dict α (List α)) (k v a x : α) :
    x ∈ getSet a (removeFrom k v d) ↔ x ∈ getSet a d ∧ ¬ (a = k ∧ x = v) := by
  unfold removeFrom; split
  · next he =>
    rw [getSet_erase]; split
    · next e =>
      subst e
      have : ¬ x ∈ removeElem v (getSet a d) := by rw [he]; simp
      rw [mem_removeElem] at this
      simp; grind
    · grind
  · rw [getSet_put]; split
    · next e => subst e; rw [mem_removeElem]; grind
    · grind

/-- the invariant: two well-formed dicts of sets holding the same pairs, transposed -/
structure M2M.WF (s : M2M α) : Prop where
  gd : GoodDict s.data
  gi : GoodDict s.inv
  transpose : ∀ k v, v ∈ getSet k s.data ↔ k ∈ getSet v s.inv

theorem M2M.WF.empty : (M2M.empty : M2M α).WF := ⟨GoodDict.nil, GoodDict.nil, by simp [M2M.empty, getSet]⟩

theorem M2M.WF.flip {s : M2M α} (h : s.WF) : s.flip.WF := ⟨h.gi, h.gd, fun k v => (h.transpose v k).symm⟩

theorem M2M.WF.side {s : M2M α} (h : s.WF) (b : Bool) : (s.side b).WF := by
  cases b <;> simp [M2M.side] <;> first | exact h | exact h.flip

theorem M2M.WF.add {s : M2M α} (h : s.WF) (k v : α) : (s.add k v).WF := by
  refine ⟨h.gd.addTo k v, h.gi.addTo v k, ?_⟩
  intro a b
  show b ∈ getSet a (addTo k v s.data) ↔ a ∈ getSet b (addTo v k s.inv)
  rw [mem_getSet_addTo, mem_getSet_addTo, h.transpose]; grind

theorem M2M.WF.removeRaw {s : M2M α} (h : s.WF) (k v : α) : (s.removeRaw k v).WF := by
  refine ⟨h.gd.removeFrom k v, h.gi.removeFrom v k, ?_⟩
  intro a b
  show b ∈ getSet a (removeFrom k v s.data) ↔ a ∈ getSet b (removeFrom v k s.inv)
  rw [mem_getSet_removeFrom, mem_getSet_removeFrom, h.transpose]; grind

theorem M2M.WF.foldAdd {s : M2M α} (h : s.WF) (k : α) (l : List α) :
    (l.foldl (fun s v => s.add k v) s).WF := by
  induction l generalizing s with
  | nil => exact h
  | cons v r ih => exact ih (h.add k v)

theorem M2M.foldAdd_data (s : M2M α) (k : α) (l : List α) (a x : α) :
    x ∈ getSet a (l.foldl (fun s v => s.add k v) s).data ↔ x ∈ getSet a s.data ∨ (a = k ∧ x ∈ l) := by
  induction l generalizing s with
  | nil => simp
  | cons v r ih =>
    simp only [List.foldl_cons, ih, List.mem_cons]
    show x ∈ getSet a (addTo k v s.data) ∨ _ ↔ _
    rw [mem_getSet_addTo]; grind

theorem M2M.WF.foldRemove {s : M2M α} (h : s.WF) (k : α) (l : List α) :
    (l.foldl (fun s v => s.removeRaw k v) s).WF := by
  induction l generalizing s with
  | nil => exact h
  | cons v r ih => exact ih (h.removeRaw k v)

theorem M2M.foldRemove_data (s : M2M α) (k : α) (l : List α) (a x : α) :
    x ∈ getSet a (l.foldl (fun s v => s.removeRaw k v) s).data ↔ x ∈ getSet a s.data ∧ ¬ (a = k ∧ x ∈ l) := by
  induction l generalizing s with
  | nil => simp
  | cons v r ih =>
    simp only [List.foldl_cons, ih, List.mem_cons]
    show x ∈ getSet a (removeFrom k v s.data) ∧ _ ↔ _
    rw [mem_getSet_removeFrom]; grind

theorem mem_filter_notin (x : α) (l m : List α) :
    x ∈ l.filter (fun v => !m.contains v) ↔ x ∈ l ∧ x ∉ m := by
  simp [List.mem_filter]

theorem M2M.WF.setitem {s : M2M α} (h : s.WF) (k : α) (vals : List α) : (s.setitem k vals).WF := by
  unfold M2M.setitem
  split
  · exact (h.foldRemove k _).foldAdd k _
  · exact h.foldAdd k _

/-- `x[k] = vals`: afterwards key `k` holds exactly `vals`, every other key is untouched -/
theorem M2M.setitem_data {s : M2M α} (h : s.WF) (k : α) (vals : List α) (a x : α) :
    x ∈ getSet a (s.setitem k vals).data ↔ if a = k then x ∈ vals else x ∈ getSet a s.data := by
  unfold M2M.setitem
  split
  · rw [M2M.foldAdd_data, M2M.foldRemove_data, mem_filter_notin, mem_filter_notin, mem_toSet]
    grind
  · next hk =>
    rw [M2M.foldAdd_data, mem_toSet]
    have : getSet k s.data = [] := by
      have := (h.gd.hasKey_iff k); grind
    grind

theorem foldRemoveFrom_good {d : Dict α (List α)} (h : GoodDict d) (k : α) (l : List α) :
    GoodDict (l.foldl (fun i v => removeFrom v k i) d) := by
  induction l generalizing d with
  | nil => exact h
  | cons v r ih => exact ih (h.removeFrom v k)

theorem foldRemoveFrom_mem (d : Dict α (List α)) (k : α) (l : List α) (b y : α) :
    y ∈ getSet b (l.foldl (fun i v => removeFrom v k i) d) ↔ y ∈ getSet b d ∧ ¬ (b ∈ l ∧ y = k) := by
  induction l generalizing d with
  | nil => simp
  | cons v r ih =>
    simp only [List.foldl_cons, ih, List.mem_cons, mem_getSet_removeFrom]; grind

theorem M2M.WF.delitem {s : M2M α} (h : s.WF) (k : α) : (s.delitem k).1.WF := by
  unfold M2M.delitem
  split
  · refine ⟨h.gd.erase k, foldRemoveFrom_good h.gi k _, ?_⟩
    intro a b
    show b ∈ getSet a (erase k s.data) ↔ a ∈ getSet b (List.foldl _ s.inv (getSet k s.data))
    rw [foldRemoveFrom_mem, getSet_erase, ← h.transpose]
    split
    · next e => subst e; simp
    · grind
  · exact h

theorem M2M.WF.remove {s : M2M α} (h : s.WF) (k v : α) : (s.remove k v).1.WF := by
  unfold M2M.remove; split
  · exact h.removeRaw k v
  · exact h

theorem M2M.WF.updatePairs {s : M2M α} (h : s.WF) (ps : List (α × α)) : (s.updatePairs ps).WF := by
  unfold M2M.updatePairs
  induction ps generalizing s with
  | nil => exact h
  | cons p r ih => exact ih (h.add p.1 p.2)

/-! merging another instance -/

theorem mergeKey_eq (k : α) (vs : List α) (d : Dict α (List α)) :
    mergeKey k vs d = put k (if hasKey k d then unionSet (getSet k d) vs else toSet vs) d := by
  unfold mergeKey
  split
  · rfl
  · next hk =>
    rw [put_of_not_mem]
    rw [← lookup_none_iff]
    unfold hasKey at hk
    cases hl : lookup k d <;> simp_all

theorem GoodDict.mergeKey {d : Dict α (List α)} (h : GoodDict d) (k : α) (vs : List α) (hv : vs ≠ []) :
    GoodDict (mergeKey k vs d) := by
  rw [mergeKey_eq]
  split
  · exact h.put k _ (unionSet_ne_nil _ _ (Or.inr hv)) (nodup_unionSet _ _ (h.getSet_nodup k))
  · exact h.put k _ (by rw [toSet_eq]; exact unionSet_ne_nil _ _ (Or.inr hv)) (nodup_toSet _)

theorem mem_getSet_mergeKey {d : Dict α (List α)} (k : α) (vs : List α) (a x : α) :
    x ∈ getSet a (mergeKey k vs d) ↔ x ∈ getSet a d ∨ (a = k ∧ x ∈ vs) := by
  rw [mergeKey_eq, getSet_put]
  split
  · next e =>
    subst e
    split
    · rw [mem_unionSet]; grind
    · next hk =>
      rw [mem_toSet]
      have : getSet a d = [] := by
        unfold hasKey at hk; unfold getSet
        cases hl : lookup a d <;> simp_all
      rw [this]; simp
  · grind

theorem foldMerge_good {d : Dict α (List α)} (h : GoodDict d) (l : Dict α (List α)) (hl : ∀ p ∈ l, p.2 ≠ []) :
    GoodDict (l.foldl (fun d p => mergeKey p.1 p.2 d) d) := by
  induction l generalizing d with
  | nil => exact h
  | cons p r ih =>
    exact ih (h.mergeKey p.1 p.2 (hl p (by simp))) (fun q hq => hl q (List.mem_cons_of_mem _ hq))

theorem foldMerge_mem (d l : Dict α (List α)) (a x : α) :
    x ∈ getSet a (l.foldl (fun d p => mergeKey p.1 p.2 d) d) ↔
      x ∈ getSet a d ∨ ∃ p ∈ l, p.1 = a ∧ x ∈ p.2 := by
  induction l generalizing d with
  | nil => simp
  | cons p r ih =>
    simp only [List.foldl_cons, ih, mem_getSet_mergeKey, List.mem_cons]
    constructor
    · rintro ((h | ⟨h1, h2⟩) | ⟨q, hq, h1, h2⟩)
      · exact Or.inl h
      · exact Or.inr ⟨p, Or.inl rfl, h1.symm, h2⟩
      · exact Or.inr ⟨q, Or.inr hq, h1, h2⟩
    · rintro (h | ⟨q, hq | hq, h1, h2⟩)
      · exact Or.inl (Or.inl h)
      · subst hq; exact Or.inl (Or.inr ⟨h1.symm, h2⟩)
      · exact Or.inr ⟨q, hq, h1, h2⟩

theorem GoodDict.exists_iff {l : Dict α (List α)} (h : GoodDict l) (a x : α) :
    (∃ p ∈ l, p.1 = a ∧ x ∈ p.2) ↔ x ∈ getSet a l := by
  unfold getSet
  constructor
  · rintro ⟨⟨k, vs⟩, hp, h1, h2⟩
    simp only at h1 h2; subst h1
    rw [(mem_iff_lookup _ h.nk k vs).1 hp]; simpa using h2
  · intro hx
    cases hl : lookup a l with
    | none => rw [hl] at hx; simp at hx
    | some vs =>
      rw [hl] at hx
      exact ⟨(a, vs), (mem_iff_lookup _ h.nk a vs).2 hl, rfl, by simpa using hx⟩

theorem GoodDict.ne_of_mem {l : Dict α (List α)} (h : GoodDict l) : ∀ p ∈ l, p.2 ≠ [] := by
  intro p hp
  exact (h.ne p.1 p.2 ((mem_iff_lookup _ h.nk p.1 p.2).1 hp)).1

theorem M2M.WF.updateFrom {s o : M2M α} (h : s.WF) (ho : o.WF) : (s.updateFrom o).WF := by
  refine ⟨foldMerge_good h.gd _ ho.gd.ne_of_mem, foldMerge_good h.gi _ ho.gi.ne_of_mem, ?_⟩
  intro a b
  show b ∈ getSet a (List.foldl _ s.data o.data) ↔ a ∈ getSet b (List.foldl _ s.inv o.inv)
  rw [foldMerge_mem, foldMerge_mem, ho.gd.exists_iff, ho.gi.exists_iff, h.transpose, ho.transpose]

/-- `x.update(other)`: afterwards `x` holds the union of the two relations -/
theorem M2M.updateFrom_data {s o : M2M α} (ho : o.WF) (a x : α) :
    x ∈ getSet a (s.updateFrom o).data ↔ x ∈ getSet a s.data ∨ x ∈ getSet a o.data := by
  show x ∈ getSet a (List.foldl _ s.data o.data) ↔ _
  rw [foldMerge_mem, ho.gd.exists_iff]

/-- `x.update(x.inv)` keeps the invariant (loop 2 reads what loop 1 wrote) -/
theorem selfMerge_wf {A : M2M α} (w : A.WF) : (selfMerge A).WF := by
  have g1 : GoodDict (A.inv.foldl (fun d p => mergeKey p.1 p.2 d) A.data) := foldMerge_good w.gd _ w.gi.ne_of_mem
  refine ⟨g1, foldMerge_good w.gi _ g1.ne_of_mem, ?_⟩
  intro a b
  show b ∈ getSet a (List.foldl _ A.data A.inv) ↔ a ∈ getSet b (List.foldl _ A.inv (List.foldl _ A.data A.inv))
  rw [foldMerge_mem, foldMerge_mem, g1.exists_iff, w.gi.exists_iff, foldMerge_mem, w.gi.exists_iff]
  have t1 := w.transpose a b
  have t2 := w.transpose b a
  constructor
  · rintro (h | h)
    · exact Or.inl (t1.1 h)
    · exact Or.inr (Or.inl (t2.2 h))
  · rintro (h | h | h)
    · exact Or.inl (t1.2 h)
    · exact Or.inr (t2.1 h)
    · exact Or.inl (t1.2 h)

theorem M2M.WF.updateFromReg {s o : M2M α} (h : s.WF) (ho : o.WF) (self side side2 : Bool) :
    (s.updateFromReg o self side side2).WF := by
  unfold M2M.updateFromReg
  split
  · split
    · exact h
    · exact (selfMerge_wf (h.side side)).side side
  · exact ((h.side side).updateFrom (ho.side side2)).side side

/-! replace -/

theorem hasKey_put_same (v : α) (ws : List α) (d : Dict α (List α)) (b : α) (h : hasKey v d = true) :
    hasKey b (put v ws d) = hasKey b d := by
  unfold hasKey at *
  rw [lookup_put]; split
  · next e => subst e; simp [h]
  · rfl

theorem hasKey_renameIn (v k nk : α) (d : Dict α (List α)) (b : α) :
    hasKey b (renameIn v k nk d) = hasKey b d := by
  unfold renameIn; split
  · next h => exact hasKey_put_same _ _ _ _ h
  · rfl

theorem GoodDict.renameIn {d : Dict α (List α)} (h : GoodDict d) (v k nk : α) : GoodDict (renameIn v k nk d) := by
  unfold C17.renameIn; split
  · exact h.put v _ (insertSet_ne_nil _ _) (nodup_insertSet _ _ (nodup_removeElem _ _ (h.getSet_nodup v)))
  · exact h

theorem mem_getSet_renameIn (d : Dict α (List α)) (v k nk b y : α) :
    y ∈ getSet b (renameIn v k nk d) ↔
      if b = v ∧ hasKey v d = true then (y = nk ∨ (y ∈ getSet b d ∧ y ≠ k)) else y ∈ getSet b d := by
  unfold renameIn
  by_cases hk : hasKey v d = true
  · rw [if_pos hk, getSet_put]
    by_cases e : b = v
    · subst e; simp only [if_true, mem_insertSet, mem_removeElem, hk, and_self]; grind
    · simp [e]
  · rw [if_neg hk]; simp [hk]

theorem foldRename_good {d : Dict α (List α)} (h : GoodDict d) (k nk : α) (l : List α) :
    GoodDict (l.foldl (fun i v => renameIn v k nk i) d) := by
  induction l generalizing d with
  | nil => exact h
  | cons v r ih => exact ih (h.renameIn v k nk)

theorem foldRename_mem (d : Dict α (List α)) (k nk : α) (l : List α) (b y : α) :
    y ∈ getSet b (l.foldl (fun i v => renameIn v k nk i) d) ↔
      if b ∈ l ∧ hasKey b d = true then (y = nk ∨ (y ∈ getSet b d ∧ y ≠ k)) else y ∈ getSet b d := by
  induction l generalizing d with
  | nil => simp
  | cons v r ih =>
    simp only [List.foldl_cons, ih, hasKey_renameIn, mem_getSet_renameIn, List.mem_cons]
    grind

theorem M2M.WF.replace {s : M2M α} (h : s.WF) (k nk : α) : (s.replace k nk).WF := by
  unfold M2M.replace
  split
  · next hk =>
    have hne : getSet k s.data ≠ [] := (h.gd.hasKey_iff k).1 hk
    refine ⟨(h.gd.erase k).mergeKey nk _ hne, foldRename_good h.gi k nk _, ?_⟩
    intro a b
    show b ∈ getSet a (mergeKey nk (getSet k s.data) (erase k s.data)) ↔
      a ∈ getSet b (List.foldl _ s.inv (getSet k s.data))
    rw [mem_getSet_mergeKey, getSet_erase, foldRename_mem]
    have ht := h.transpose
    have hb : b ∈ getSet k s.data → hasKey b s.inv = true := by
      intro hb
      rw [h.gi.hasKey_iff]
      intro e
      have := (ht k b).1 hb
      rw [e] at this; simp at this
    by_cases hbk : b ∈ getSet k s.data
    · have hc : b ∈ getSet k s.data ∧ hasKey b s.inv = true := ⟨hbk, hb hbk⟩
      rw [if_pos hc, ← ht]
      grind
    · have hc : ¬ (b ∈ getSet k s.data ∧ hasKey b s.inv = true) := fun hc => hbk hc.1
      rw [if_neg hc, ← ht]
      grind
  · exact h

/-- `replace(k, nk)`: every pair `(k, v)` becomes `(nk, v)` (merging into an existing `nk`) -/
theorem M2M.replace_data {s : M2M α} (h : s.WF) (k nk a x : α) :
    x ∈ getSet a (s.replace k nk).data ↔
      (a ≠ k ∧ x ∈ getSet a s.data) ∨ (a = nk ∧ x ∈ getSet k s.data) := by
  unfold M2M.replace
  split
  · show x ∈ getSet a (mergeKey nk (getSet k s.data) (erase k s.data)) ↔ _
    rw [mem_getSet_mergeKey, getSet_erase]
    by_cases e : a = k
    · subst e; simp
    · simp [e]
  · next hk =>
    have : getSet k s.data = [] := by
      have := h.gd.hasKey_iff k; grind
    rw [this]; simp
    intro hx e; subst e; rw [this] at hx; simp at hx

theorem M2M.WF.step {s : M2M α} (h : s.WF) (op : M2MOp α) : (s.step op).1.WF := by
  cases op with
  | add k v => exact h.add k v
  | remove k v => exact h.remove k v
  | setitem k vals => exact h.setitem k vals
  | delitem k => exact h.delitem k
  | update ps => exact h.updatePairs ps
  | replace k nk => exact h.replace k nk

theorem M2M.WF.stepSide {s : M2M α} (h : s.WF) (side : Bool) (op : M2MOp α) : (s.stepSide side op).1.WF := by
  unfold M2M.stepSide
  cases side with
  | false => exact h.step op
  | true => exact (h.flip.step op).flip

/-! register file -/

def AllWFm (regs : List (M2M α)) : Prop := ∀ s ∈ regs, s.WF

theorem AllWFm.append {regs : List (M2M α)} (h : AllWFm regs) {s : M2M α} (hs : s.WF) : AllWFm (regs ++ [s]) := by
  intro x hx
  simp only [List.mem_append, List.mem_singleton] at hx
  rcases hx with hx | hx
  · exact h x hx
  · exact hx ▸ hs

theorem AllWFm.set {regs : List (M2M α)} (h : AllWFm regs) (r : Nat) {s : M2M α} (hs : s.WF) :
    AllWFm (regs.set r s) := by
  intro x hx
  rcases List.mem_or_eq_of_mem_set hx with hx | hx
  · exact h x hx
  · exact hx ▸ hs

theorem AllWFm.get {regs : List (M2M α)} (h : AllWFm regs) {r : Nat} {s : M2M α} (hr : regs[r]? = some s) : s.WF :=
  h s (List.mem_of_getElem? hr)

theorem m2mCmd_wf {regs regs' : List (M2M α)} {c : M2MCmd α} {ret : Ret α}
    (h : AllWFm regs) (hc : m2mCmd regs c = some (regs', ret)) : AllWFm regs' := by
  cases c with
  | new ps =>
    simp only [m2mCmd] at hc
    injection hc with hc; injection hc with hc _; subst hc
    exact h.append (M2M.WF.empty.updatePairs ps)
  | newFrom r side =>
    simp only [m2mCmd, Option.map_eq_some_iff] at hc
    obtain ⟨o, ho, he⟩ := hc
    injection he with he _; subst he
    exact h.append (M2M.WF.empty.updateFrom ((h.get ho).side side))
  | op r side op =>
    simp only [m2mCmd, Option.map_eq_some_iff] at hc
    obtain ⟨s, hs, he⟩ := hc
    injection he with he _; subst he
    exact h.set r ((h.get hs).stepSide side op)
  | updateFrom r side r2 side2 =>
    simp only [m2mCmd] at hc
    split at hc
    next s o hs ho =>
      injection hc with hc; injection hc with hc _; subst hc
      exact h.set r ((h.get hs).updateFromReg (h.get ho) _ side side2)
    next => simp at hc

theorem m2mRun_wf {regs regs' : List (M2M α)} (cs : List (M2MCmd α))
    (h : AllWFm regs) (hr : m2mRun regs cs = some regs') : AllWFm regs' := by
  induction cs generalizing regs with
  | nil => simp only [m2mRun] at hr; injection hr with hr; exact hr ▸ h
  | cons c cs ih =>
    simp only [m2mRun] at hr
    split at hr
    next r1 ret hc => exact ih (m2mCmd_wf h hc) hr
    next => simp at hr

theorem m2mCmd_isolated {regs regs' : List (M2M α)} {c : M2MCmd α} {ret : Ret α}
    (hc : m2mCmd regs c = some (regs', ret)) (j : Nat) (hj : j < regs.length)
    (ht : ∀ r side op, c = .op r side op → j ≠ r)
    (ht2 : ∀ r side r2 side2, c = .updateFrom r side r2 side2 → j ≠ r) :
    regs'[j]? = regs[j]? := by
  cases c with
  | new ps =>
    simp only [m2mCmd] at hc
    injection hc with hc; injection hc with hc _; subst hc
    simp [List.getElem?_append, hj]
  | newFrom r side =>
    simp only [m2mCmd, Option.map_eq_some_iff] at hc
    obtain ⟨o, ho, he⟩ := hc
    injection he with he _; subst he
    simp [List.getElem?_append, hj]
  | op r side op =>
    simp only [m2mCmd, Option.map_eq_some_iff] at hc
    obtain ⟨s, hs, he⟩ := hc
    injection he with he _; subst he
    have := ht r side op rfl
    simp [List.getElem?_set, Ne.symm this]
  | updateFrom r side r2 side2 =>
    simp only [m2mCmd] at hc
    split at hc
    next s o hs ho =>
      injection hc with hc; injection hc with hc _; subst hc
      have := ht2 r side r2 side2 rfl
      simp [List.getElem?_set, Ne.symm this]
    next => simp at hc

end m2m
/-! ## more refinement lemmas -/
section oto2
variable {α : Type} [DecidableEq α]

theorem OTO.update_keeps {s : OTO α} (h : s.WF) (ps : List (α × α)) (k v : α)
    (hk : lookup k s.fwd = some v) (hd : ∀ p ∈ ps, p.1 ≠ k ∧ p.2 ≠ v) :
    lookup k (s.update ps).fwd = some v := by
  unfold OTO.update
  induction ps generalizing s with
  | nil => exact hk
  | cons p r ih =>
    simp only [List.foldl_cons]
    apply ih (h.setitem p.1 p.2)
    · rw [OTO.setitem_fwd h]
      have := hd p (by simp)
      grind
    · intro q hq; exact hd q (List.mem_cons_of_mem _ hq)

/-- `update` with pairs that do not collide with each other (distinct keys, distinct values - e.g. a dict
    with distinct values, or another OneToOne) installs every one of them, the first included -/
theorem OTO.update_installs_all {s : OTO α} (h : s.WF) (ps : List (α × α))
    (hk : (ps.map Prod.fst).Nodup) (hv : (ps.map Prod.snd).Nodup) :
    ∀ p ∈ ps, lookup p.1 (s.update ps).fwd = some p.2 := by
  induction ps generalizing s with
  | nil => simp
  | cons q r ih =>
    simp only [List.map_cons, List.nodup_cons, List.mem_map, not_exists, not_and] at hk hv
    intro p hp
    have hs : s.update (q :: r) = (s.setitem q.1 q.2).update r := rfl
    rw [hs]
    simp only [List.mem_cons] at hp
    rcases hp with hp | hp
    · subst hp
      apply OTO.update_keeps (h.setitem _ _)
      · rw [OTO.setitem_fwd h]; simp
      · intro x hx
        exact ⟨fun e => hk.1 x hx e, fun e => hv.1 x hx e⟩
    · exact ih (h.setitem _ _) hk.2 hv.2 p hp

theorem OTO.delitem_spec (s : OTO α) (k a : α) :
    (lookup k s.fwd = none → s.delitem k = (s, .err .KeyError)) ∧
    (∀ v, lookup k s.fwd = some v → (s.delitem k).2 = .none ∧
      lookup a (s.delitem k).1.fwd = if a = k then none else lookup a s.fwd) := by
  unfold OTO.delitem
  constructor
  · intro hn; simp [hn]
  · intro v hv; simp [hv, lookup_erase]

theorem OTO.pop_spec (s : OTO α) (k : α) (d : Option α) (a : α) :
    (lookup k s.fwd = none → s.pop k d = (s, match d with | some x => .val x | none => .err .KeyError)) ∧
    (∀ v, lookup k s.fwd = some v → (s.pop k d).2 = .val v ∧
      lookup a (s.pop k d).1.fwd = if a = k then none else lookup a s.fwd) := by
  unfold OTO.pop
  constructor
  · intro hn; cases d <;> simp [hn]
  · intro v hv; simp [hv, lookup_erase]

theorem OTO.popitem_spec {s : OTO α} (h : s.WF) (a : α) :
    (s.fwd = [] → s.popitem = (s, .err .KeyError)) ∧
    (s.fwd ≠ [] → ∃ k v, s.popitem.2 = .pair k v ∧ lookup k s.fwd = some v ∧
      lookup a s.popitem.1.fwd = if a = k then none else lookup a s.fwd) := by
  unfold OTO.popitem
  constructor
  · intro hn; simp [hn]
  · intro hne
    cases hl : s.fwd.getLast? with
    | none => simp [List.getLast?_eq_none_iff] at hl; exact absurd hl hne
    | some p =>
      obtain ⟨k, v⟩ := p
      exact ⟨k, v, rfl, lookup_getLast s.fwd k v h.nf hl, lookup_dropLast s.fwd k v h.nf hl a⟩

theorem OTO.setdefault_spec {s : OTO α} (h : s.WF) (k d : α) :
    (∀ v, lookup k s.fwd = some v → s.setdefault k d = (s, .val v)) ∧
    (lookup k s.fwd = none → s.setdefault k d = (s.setitem k d, .val d)) := by
  unfold OTO.setdefault
  constructor
  · intro v hv; simp [hv]
  · intro hn; simp [hn, OTO.setitem_fwd h]

/-- the constructor keeps only items of `dict(pairs)` … -/
theorem OTO.ofPairs_sub (ps : List (α × α)) (k v : α) (h : lookup k (OTO.ofPairs ps).fwd = some v) :
    lookup k (putAll ([] : Dict α α) ps) = some v := by
  have hF : NodupKeys (putAll ([] : Dict α α) ps) := putAll_nodup _ _ nodupKeys_nil
  have w := OTO.WF.ofPairs ps
  unfold OTO.ofPairs at h w
  split at h
  · exact h
  · next hne =>
    rw [if_neg hne] at w
    simp only at h
    have h1 := (mem_iff_lookup _ w.nf k v).2 h
    rw [mem_map_swap] at h1
    rcases mem_putAll _ _ _ h1 with h2 | h2
    · simp at h2
    · rw [mem_map_swap] at h2
      exact (mem_iff_lookup _ hF k v).1 h2

/-- … and all of them when no value repeats -/
theorem OTO.ofPairs_injective (ps : List (α × α))
    (hv : ((putAll ([] : Dict α α) ps).map Prod.snd).Nodup) :
    (OTO.ofPairs ps).fwd = putAll [] ps := by
  have h2 : putAll ([] : Dict α α) ((putAll [] ps).map swap) = (putAll [] ps).map swap := by
    have := putAll_of_nodup ([] : Dict α α) ((putAll [] ps).map swap) (by
      simp only [List.nil_append]; unfold NodupKeys; rw [swap_keys]; exact hv)
    simpa using this
  unfold OTO.ofPairs
  rw [h2]; simp

end oto2

section m2m2
variable {α : Type} [DecidableEq α]

theorem mem_iteritems {d : Dict α (List α)} (g : GoodDict d) (k v : α) :
    (k, v) ∈ iteritems d ↔ v ∈ getSet k d := by
  rw [← g.exists_iff]
  simp only [iteritems, List.mem_flatMap, List.mem_map, Prod.mk.injEq]
  constructor
  · rintro ⟨p, hp, x, hx, h1, h2⟩; exact ⟨p, hp, h1, h2 ▸ hx⟩
  · rintro ⟨p, hp, h1, h2⟩; exact ⟨p, hp, v, h2, h1, rfl⟩

/-- `iteritems()` never yields a pair twice -/
theorem nodup_iteritems {d : Dict α (List α)} (g : GoodDict d) : (iteritems d).Nodup := by
  obtain ⟨nk, ne⟩ := g
  induction d with
  | nil => simp [iteritems]
  | cons p r ih =>
    obtain ⟨k, vs⟩ := p
    have hr : NodupKeys r := by unfold NodupKeys keys at *; simp at nk; exact nk.2
    have hk : k ∉ keys r := by unfold NodupKeys keys at nk; simp at nk; simpa [keys] using nk.1
    have hvs : vs.Nodup := (ne k vs (by simp [lookup])).2
    have ner : ∀ a ws, lookup a r = some ws → ws ≠ [] ∧ ws.Nodup := by
      intro a ws ha
      apply ne a ws
      simp only [lookup]
      by_cases e : k = a
      · subst e
        have := (lookup_none_iff k r).2 hk
        rw [this] at ha; simp at ha
      · simp [e, ha]
    have := ih hr ner
    simp only [iteritems, List.flatMap_cons] at this ⊢
    rw [List.nodup_append]
    refine ⟨?_, this, ?_⟩
    · exact nodup_map_of_inj_on _ _ hvs (by intro a _ b _ e; injection e)
    · intro x hx y hy e
      subst e
      simp only [List.mem_map] at hx
      obtain ⟨v, _, rfl⟩ := hx
      simp only [List.mem_flatMap, List.mem_map] at hy
      obtain ⟨q, hq, w, _, e⟩ := hy
      injection e with e1 _
      exact hk (e1 ▸ List.mem_map_of_mem (f := Prod.fst) hq)

end m2m2

/-! ## FrozenDict -/

theorem pairLe_iff (a b : Nat × Nat) : pairLe a b = true ↔ a.1 < b.1 ∨ (a.1 = b.1 ∧ a.2 ≤ b.2) := by
  simp [pairLe]

theorem pairLe_total (a b : Nat × Nat) : pairLe a b = true ∨ pairLe b a = true := by
  rw [pairLe_iff, pairLe_iff]; omega

theorem pairLe_antisymm (a b : Nat × Nat) (h1 : pairLe a b = true) (h2 : pairLe b a = true) : a = b := by
  rw [pairLe_iff] at h1 h2; apply Prod.ext <;> omega

theorem pairLe_trans (a b c : Nat × Nat) (h1 : pairLe a b = true) (h2 : pairLe b c = true) : pairLe a c = true := by
  rw [pairLe_iff] at *; omega

theorem insSorted_comm (x y : Nat × Nat) (c : List (Nat × Nat)) :
    insSorted x (insSorted y c) = insSorted y (insSorted x c) := by
  induction c with
  | nil =>
    simp only [insSorted]
    have := pairLe_total x y
    have := pairLe_antisymm x y
    grind
  | cons z c ih =>
    have := pairLe_total x y
    have := pairLe_antisymm x y
    have := pairLe_trans x y z
    have := pairLe_trans y x z
    simp only [insSorted]
    grind [insSorted]

theorem canon_perm (l₁ l₂ : List (Nat × Nat)) (h : l₁.Perm l₂) : canon l₁ = canon l₂ := by
  induction h with
  | nil => rfl
  | cons x _ ih => simp only [canon, List.foldr_cons] at ih ⊢; rw [ih]
  | swap x y l => simp only [canon, List.foldr_cons]; exact insSorted_comm y x _
  | trans _ _ ih1 ih2 => exact ih1.trans ih2

/-- pigeonhole: a duplicate-free list contained in a list of the same length fills it -/
theorem subset_of_nodup_length {β : Type} [DecidableEq β] (a b : List β) (ha : a.Nodup)
    (hs : ∀ x ∈ a, x ∈ b) (hl : b.length ≤ a.length) : ∀ y ∈ b, y ∈ a := by
  induction a generalizing b with
  | nil =>
    intro y hy
    cases b with
    | nil => simp at hy
    | cons _ _ => simp at hl
  | cons x r ih =>
    simp only [List.nodup_cons] at ha
    have hx : x ∈ b := hs x (by simp)
    have hlen : (b.erase x).length = b.length - 1 := List.length_erase_of_mem hx
    have hb1 : 1 ≤ b.length := List.length_pos_of_mem hx
    have hsub : ∀ z ∈ r, z ∈ b.erase x := by
      intro z hz
      have hzx : z ≠ x := fun e => ha.1 (e ▸ hz)
      exact (List.mem_erase_of_ne hzx).2 (hs z (List.mem_cons_of_mem _ hz))
    have := ih (b.erase x) ha.2 hsub (by simp only [List.length_cons] at hl; omega)
    intro y hy
    by_cases e : y = x
    · simp [e]
    · exact List.mem_cons_of_mem _ (this y ((List.mem_erase_of_ne e).2 hy))

theorem dictEq_perm (a b : Dict Nat FVal) (ha : NodupKeys a) (hb : NodupKeys b) (h : dictEq a b = true) :
    a.Perm b := by
  simp only [dictEq, Bool.and_eq_true, beq_iff_eq, List.all_eq_true] at h
  obtain ⟨hlen, hall⟩ := h
  have hs : ∀ p ∈ a, p ∈ b := by
    intro p hp
    have := hall p hp
    exact (mem_iff_lookup b hb p.1 p.2).2 this
  have hna := nodup_of_nodup_map Prod.fst a ha
  have hnb := nodup_of_nodup_map Prod.fst b hb
  rw [List.perm_ext_iff_of_nodup hna hnb]
  intro p
  exact ⟨hs p, subset_of_nodup_length a b hna hs (by omega) p⟩

/-- equal FrozenDicts hash equal, whatever the insertion order (incl. both failing alike) -/
theorem hashOf_eq_of_dictEq (a b : Dict Nat FVal) (ha : NodupKeys a) (hb : NodupKeys b)
    (h : dictEq a b = true) : hashOf a = hashOf b := by
  have hp := dictEq_perm a b ha hb h
  unfold hashOf
  rw [hp.all_eq, canon_perm _ _ (hp.map _)]

theorem hashOf_none_iff (d : Dict Nat FVal) : hashOf d = none ↔ ∃ p ∈ d, p.2.hashable = false := by
  unfold hashOf
  split
  · next h =>
    simp only [List.all_eq_true] at h
    simp only [reduceCtorEq, false_iff, not_exists, not_and, Bool.not_eq_false]
    exact h
  · next h =>
    simp only [true_iff]
    have h2 : d.all (fun p => p.2.hashable) = false := by simpa using h
    rw [List.all_eq_false] at h2
    obtain ⟨p, hp, hh⟩ := h2
    exact ⟨p, hp, by simpa using hh⟩

theorem dictEq_refl (d : Dict Nat FVal) (h : NodupKeys d) : dictEq d d = true := by
  simp only [dictEq, Bool.and_eq_true, beq_iff_eq, List.all_eq_true, true_and]
  intro p hp
  exact (mem_iff_lookup d h p.1 p.2).1 hp

theorem FD.ofPairs_nodup (ps : List (Nat × FVal)) : NodupKeys (FD.ofPairs ps).items :=
  putAll_nodup _ _ nodupKeys_nil

theorem FD.rebuild_items (s : FD) (h : NodupKeys s.items) : s.rebuild.items = s.items := by
  have := putAll_of_nodup ([] : Dict Nat FVal) s.items (by simpa using h)
  simpa [FD.rebuild, FD.ofPairs] using this

/-- a mutator call raises TypeError and leaves the object as it was (for the blocked set regenerated
    from the source; `decide` re-checks it on every run) -/
theorem frozenErr_eq : frozenErr = some .TypeError := by decide

theorem blocked_all : ∀ n ∈ dictMutators, Generated.frozenBlocked.contains n = true := by decide

theorem Mut.name_mem (m : Mut) : m.name ∈ dictMutators := by
  cases m <;> simp [Mut.name, dictMutators]

theorem FD.mutate_blocked (s : FD) (m : Mut) : s.mutate m = (s, .err .TypeError) := by
  unfold FD.mutate
  rw [if_pos (blocked_all _ (Mut.name_mem m)), frozenErr_eq]

/-- the `_hash` slot is unset or holds the hash of the (immutable) items -/
def FD.CacheOk (s : FD) : Prop := s.cache = none ∨ s.cache = some (hashOf s.items)

theorem FD.step_items (s : FD) (op : FdOp) : (s.step op).items = s.items := by
  cases op with
  | mutate m => simp [FD.step, FD.mutate_blocked]
  | hash => simp only [FD.step, FD.hash]; split <;> rfl

theorem FD.step_cacheOk (s : FD) (op : FdOp) (h : s.CacheOk) : (s.step op).CacheOk := by
  cases op with
  | mutate m => simpa [FD.step, FD.mutate_blocked] using h
  | hash =>
    simp only [FD.step, FD.hash]
    split
    · exact h
    · exact Or.inr rfl

theorem FD.run_items (s : FD) (ops : List FdOp) : (s.run ops).items = s.items := by
  unfold FD.run
  induction ops generalizing s with
  | nil => rfl
  | cons op r ih => simp only [List.foldl_cons]; rw [ih, FD.step_items]

theorem FD.run_cacheOk (s : FD) (ops : List FdOp) (h : s.CacheOk) : (s.run ops).CacheOk := by
  unfold FD.run
  induction ops generalizing s with
  | nil => exact h
  | cons op r ih => exact ih _ (FD.step_cacheOk s op h)

theorem FD.hash_of_cacheOk (s : FD) (h : s.CacheOk) : s.hash.2 = hashOf s.items := by
  unfold FD.hash
  rcases h with h | h <;> simp [h]

/-! hashing in an arbitrary interpreter environment -/

theorem hashOfIn_eq_of_dictEq (ρ : Nat → Nat) (a b : Dict Nat FVal) (ha : NodupKeys a) (hb : NodupKeys b)
    (h : dictEq a b = true) : hashOfIn ρ a = hashOfIn ρ b := by
  have hp := dictEq_perm a b ha hb h
  unfold hashOfIn
  rw [hp.all_eq, canon_perm _ _ (hp.map _)]

theorem FD.rebuild_cache (s : FD) : s.rebuild.cache = none := rfl

theorem FD.hashIn_fresh (ρ : Nat → Nat) (s : FD) (h : s.cache = none) : (s.hashIn ρ).2 = hashOfIn ρ s.items := by
  unfold FD.hashIn; rw [h]

theorem FD.hashIn_idem (ρ : Nat → Nat) (s : FD) : ((s.hashIn ρ).1.hashIn ρ).1 = (s.hashIn ρ).1 := by
  unfold FD.hashIn
  cases hc : s.cache <;> simp [hc]

theorem FD.ofPairs_items_of_nodup (d : Dict Nat FVal) (h : NodupKeys d) : (FD.ofPairs d).items = d := by
  have := putAll_of_nodup ([] : Dict Nat FVal) d (by simpa using h)
  simpa [FD.ofPairs] using this

theorem FD.rebuild_nodup (s : FD) : NodupKeys s.rebuild.items := FD.ofPairs_nodup _

theorem FD.hashIn_items (ρ : Nat → Nat) (s : FD) : (s.hashIn ρ).1.items = s.items := by
  unfold FD.hashIn; split <;> rfl

end C17
