import BoltonsVerif.Generated.C17_Refs
/-
C17 — object lifetime of the two halves of a OneToOne / ManyToMany.

`Model.lean` / `Heap.lean` treat an instance as ONE value (a pair of dicts): that the forward object and its
`.inv` are two Python objects that keep each other alive cannot be said there.  Here the halves are objects in
an object table, `.inv` is a field holding the ADDRESS of the other half together with the kind of reference
(`strong` = an ordinary attribute, `false` = a `weakref.ref` that does not keep its target alive), the caller
holds references (`roots`, with multiplicity), and letting go of a reference runs the collector, which frees
every object that cannot be reached from the roots through strong references.

    x = Cls(...)          alloc : two new objects referring to each other; the caller holds the one returned
    y = x.inv (.inv …)    hold  : one more root, found by following `.inv` n times (fails on a freed object:
                                  a dead weak reference reads as None)
    del x                 drop  : one root less, then collection

What is proved (`life_good` and corollaries, re-stated in `Props.lean`): when both references are strong - the
table `Generated.invRefs`, read off freshly constructed instances on every run, says so for both classes - then
after ANY history of these commands every reference the caller still holds points to a live half whose `.inv`
is the live other half of the SAME instance, and `.inv.inv` is the object itself.  So keeping only `x.inv`
(`idx = ManyToMany(pairs).inv`), only `x.inv.inv`, or dropping and re-taking references never changes which
instance a call reaches: the register machines of `Model.lean` / `Heap.lean` / `Args.lean`, in which instances
simply never die, lose nothing.  With a weak back reference the same history loses the forward half
(`life_weak_back_reference_loses_peer`).

Core Lean only.
-/
namespace C17

/-- one half of an instance as an object -/
structure Half where
  /-- the address stored in `.inv` -/
  peer : Nat
  /-- does that reference keep the peer alive? -/
  strong : Bool
  /-- the instance (register) this half belongs to -/
  reg : Nat
  /-- `false` = the object the constructor returned, `true` = the one it created as `.inv` -/
  side : Bool
deriving Repr, DecidableEq

abbrev Objs := List (Option Half)

structure Life where
  /-- the object table; `none` = freed -/
  objs : Objs
  /-- the references the caller holds (one entry per reference) -/
  roots : List Nat
deriving Repr, DecidableEq

def Life.empty : Life := ⟨[], []⟩

def getO (objs : Objs) (a : Nat) : Option Half := (objs[a]?).getD none

def Life.get (st : Life) (a : Nat) : Option Half := getO st.objs a

/-- reachable from what the caller holds, through strong references -/
inductive Reach (st : Life) : Nat → Prop
  | root {a : Nat} : a ∈ st.roots → Reach st a
  | ref {a : Nat} {h : Half} : Reach st a → st.get a = some h → h.strong = true → Reach st h.peer

/-! the collector: mark from the roots, sweep the rest -/

def succs (st : Life) (m : List Nat) : List Nat :=
  m.filterMap fun a => match st.get a with
    | some h => if h.strong then some h.peer else none
    | none => none

def addNew (m : List Nat) (b : Nat) : List Nat := if m.contains b then m else m ++ [b]

def markStep (st : Life) (m : List Nat) : List Nat := (succs st m).foldl addNew m

def markN (st : Life) : Nat → List Nat → List Nat
  | 0, m => m
  | n + 1, m => markN st n (markStep st m)

def mark (st : Life) : List Nat := markN st (st.objs.length + 1) (st.roots.foldl addNew [])

/-- the marked set contains the roots and is closed under strong references (checked, not assumed: when the
    check fails nothing is freed) -/
def closedB (st : Life) (m : List Nat) : Bool :=
  st.roots.all (fun a => m.contains a) &&
  m.all fun a => match st.get a with
    | some h => !h.strong || m.contains h.peer
    | none => true

def sweep (objs : Objs) (m : List Nat) : Objs :=
  (List.range objs.length).map fun i => if m.contains i then getO objs i else none

def collect (st : Life) : Life :=
  if closedB st (mark st) then ⟨sweep st.objs (mark st), st.roots⟩ else st

/-! commands -/

inductive LCmd
  /-- `x = Cls(...)` for register `reg`: flags = is `x.inv` a strong reference, is `x.inv.inv` one -/
  | alloc (sf si : Bool) (reg : Nat)
  /-- the caller takes one more reference: `a` followed through `.inv` n times -/
  | hold (a n : Nat)
  /-- the caller lets go of one reference to `a`; whatever became unreachable is freed -/
  | drop (a : Nat)
deriving Repr, DecidableEq

/-- `a.inv.inv…` (n times); `none` when an object on the way has been freed -/
def follow (objs : Objs) : Nat → Nat → Option Nat
  | a, 0 => (getO objs a).map fun _ => a
  | a, n + 1 => (getO objs a).bind fun h => follow objs h.peer n

def holdRef (st : Life) (a n : Nat) : Option (Life × Nat) :=
  if a ∈ st.roots then (follow st.objs a n).map fun b => (⟨st.objs, st.roots ++ [b]⟩, b) else none

def lifeCmd (st : Life) : LCmd → Option Life
  | .alloc sf si r =>
    some ⟨st.objs ++ [some ⟨st.objs.length + 1, sf, r, false⟩, some ⟨st.objs.length, si, r, true⟩],
          st.roots ++ [st.objs.length]⟩
  | .hold a n => (holdRef st a n).map (·.1)
  | .drop a => if a ∈ st.roots then some (collect ⟨st.objs, st.roots.erase a⟩) else none

def lifeRun (st : Life) : List LCmd → Option Life
  | [] => some st
  | c :: cs => (lifeCmd st c).bind fun st' => lifeRun st' cs

def LCmd.strongOnly : LCmd → Bool
  | .alloc sf si _ => sf && si
  | _ => true

/-! the invariant -/

/-- `a` is a live half, its `.inv` is the live other half of the same instance, which refers back to `a`;
    both references are strong -/
def Paired (objs : Objs) (a : Nat) : Prop :=
  ∃ h h', getO objs a = some h ∧ getO objs h.peer = some h' ∧ h'.peer = a ∧ h'.reg = h.reg ∧
    h'.side = !h.side ∧ h.strong = true ∧ h'.strong = true

def Good (st : Life) : Prop := ∀ a ∈ st.roots, Paired st.objs a

theorem getO_lt {objs : Objs} {a : Nat} {h : Half} (e : getO objs a = some h) : a < objs.length := by
  unfold getO at e
  cases hh : objs[a]? with
  | none => simp [hh] at e
  | some x => exact (List.getElem?_eq_some_iff.mp hh).1

theorem getO_append {objs : Objs} {a : Nat} {h : Half} (l : Objs) (e : getO objs a = some h) :
    getO (objs ++ l) a = some h := by
  have hl := getO_lt e
  unfold getO at *
  rw [List.getElem?_append_left hl]
  exact e

theorem paired_append {objs : Objs} {a : Nat} (l : Objs) (p : Paired objs a) : Paired (objs ++ l) a := by
  obtain ⟨h, h', e1, e2, r⟩ := p
  exact ⟨h, h', getO_append l e1, getO_append l e2, r⟩

theorem paired_peer {objs : Objs} {a : Nat} {h : Half} (p : Paired objs a) (e : getO objs a = some h) :
    Paired objs h.peer := by
  obtain ⟨h1, h', e1, e2, e3, e4, e5, e6, e7⟩ := p
  rw [e] at e1
  cases e1
  refine ⟨h', h, e2, ?_, rfl, e4.symm, ?_, e7, e6⟩
  · rw [e3]; exact e
  · rw [e5]; cases h.side <;> rfl

theorem paired_follow {objs : Objs} : ∀ (n a b : Nat), Paired objs a → follow objs a n = some b → Paired objs b
  | 0, a, b, p, e => by
    unfold follow at e
    cases hh : getO objs a with
    | none => simp [hh] at e
    | some h => simp [hh] at e; subst e; exact p
  | n + 1, a, b, p, e => by
    unfold follow at e
    cases hh : getO objs a with
    | none => simp [hh] at e
    | some h =>
      simp [hh] at e
      exact paired_follow n h.peer b (paired_peer p hh) e

/-- from a held, paired half every `.inv` chain succeeds (nothing on the way has been freed) -/
theorem follow_of_paired {objs : Objs} : ∀ (n a : Nat), Paired objs a → ∃ b, follow objs a n = some b
  | 0, a, p => by
    obtain ⟨h, _, e, _⟩ := p
    exact ⟨a, by simp [follow, e]⟩
  | n + 1, a, p => by
    obtain ⟨h, h', e, r⟩ := p
    obtain ⟨b, hb⟩ := follow_of_paired n h.peer (paired_peer ⟨h, h', e, r⟩ e)
    exact ⟨b, by simp [follow, e, hb]⟩

/-- `x.inv.inv is x` -/
theorem follow_two {objs : Objs} {a : Nat} (p : Paired objs a) : follow objs a 2 = some a := by
  obtain ⟨h, h', e1, e2, e3, _⟩ := p
  simp [follow, e1, e2, e3]

theorem reach_closed {st : Life} {m : List Nat} (c : closedB st m = true) {a : Nat} (r : Reach st a) : a ∈ m := by
  unfold closedB at c
  rw [Bool.and_eq_true, List.all_eq_true, List.all_eq_true] at c
  induction r with
  | root hr => simpa using c.1 _ hr
  | ref _ hg hs ih =>
    have := c.2 _ ih
    simp [hg, hs] at this
    exact this

theorem getO_sweep {objs : Objs} {m : List Nat} {a : Nat} (ha : a ∈ m) : getO (sweep objs m) a = getO objs a := by
  unfold getO sweep
  by_cases hl : a < objs.length
  · simp [List.getElem?_map, List.getElem?_range hl, ha, getO]
  · have hl' : objs.length ≤ a := Nat.le_of_not_lt hl
    have hr : (List.range objs.length)[a]? = none := List.getElem?_eq_none (by simpa using hl')
    simp [hr, List.getElem?_eq_none hl']

/-- the collector is sound: what the caller can still reach is never freed (nor altered) -/
theorem collect_get {st : Life} {a : Nat} (r : Reach st a) : (collect st).get a = st.get a := by
  unfold collect
  by_cases c : closedB st (mark st) = true
  · simp only [c, if_true, Life.get]
    exact getO_sweep (reach_closed c r)
  · simp [c]

theorem collect_roots (st : Life) : (collect st).roots = st.roots := by
  unfold collect
  by_cases c : closedB st (mark st) = true <;> simp [c]

theorem good_collect {st : Life} (g : Good st) : Good (collect st) := by
  intro a ha
  rw [collect_roots] at ha
  obtain ⟨h, h', e1, e2, r⟩ := g a ha
  have ra : Reach st a := .root ha
  have rp : Reach st h.peer := .ref ra e1 r.2.2.2.1
  refine ⟨h, h', ?_, ?_, r⟩
  · have := collect_get ra; unfold Life.get at this; rw [this]; exact e1
  · have := collect_get rp; unfold Life.get at this; rw [this]; exact e2

theorem good_cmd {st st' : Life} {c : LCmd} (g : Good st) (hc : c.strongOnly = true) (e : lifeCmd st c = some st') :
    Good st' := by
  cases c with
  | alloc sf si r =>
    simp [LCmd.strongOnly] at hc
    obtain ⟨hsf, hsi⟩ := hc
    subst hsf; subst hsi
    simp only [lifeCmd, Option.some.injEq] at e
    subst e
    intro a ha
    simp only [List.mem_append, List.mem_singleton] at ha
    cases ha with
    | inl ho => exact paired_append _ (g a ho)
    | inr hn =>
      subst hn
      refine ⟨⟨st.objs.length + 1, true, r, false⟩, ⟨st.objs.length, true, r, true⟩, ?_, ?_, rfl, rfl, rfl, rfl, rfl⟩
      · simp [getO]
      · simp [getO]
  | hold a n =>
    simp only [lifeCmd, holdRef] at e
    by_cases ha : a ∈ st.roots
    · simp only [ha, if_true, Option.map_map] at e
      cases hf : follow st.objs a n with
      | none => simp [hf] at e
      | some b =>
        simp [hf] at e
        subst e
        intro x hx
        simp only [List.mem_append, List.mem_singleton] at hx
        cases hx with
        | inl ho => exact g x ho
        | inr hn => subst hn; exact paired_follow n a _ (g a ha) hf
    · simp [ha] at e
  | drop a =>
    simp only [lifeCmd] at e
    by_cases ha : a ∈ st.roots
    · simp only [ha, if_true, Option.some.injEq] at e
      subst e
      apply good_collect
      intro x hx
      exact g x (List.mem_of_mem_erase hx)
    · simp [ha] at e

theorem good_run : ∀ (cmds : List LCmd) (st st' : Life), Good st → (∀ c ∈ cmds, c.strongOnly = true) →
    lifeRun st cmds = some st' → Good st'
  | [], st, st', g, _, e => by simp [lifeRun] at e; subst e; exact g
  | c :: cs, st, st', g, hs, e => by
    simp only [lifeRun] at e
    cases hc : lifeCmd st c with
    | none => simp [hc] at e
    | some st1 =>
      simp [hc] at e
      exact good_run cs st1 st' (good_cmd g (hs c (by simp)) hc) (fun c' h' => hs c' (by simp [h'])) e

theorem good_empty : Good Life.empty := by intro a ha; simp [Life.empty] at ha

/-! ## the caller of the harness: per register the two variables `x` and `inv = x.inv`, either of which may have
    been let go (driver glue; the `G` flag of a `K` record is `Caller.ok`) -/

structure Caller where
  life : Life
  /-- per register: the address the variable holding the forward object / the `.inv` object refers to -/
  held : List (Option Nat × Option Nat)
deriving Repr

def Caller.empty : Caller := ⟨Life.empty, []⟩

/-- (is `x.inv` strong, is `x.inv.inv` strong) for a class, from the regenerated table; unknown class: weak -/
def refsOf (cls : String) : Bool × Bool := (Generated.invRefs.lookup cls).getD (false, false)

/-- `x = Cls(...)` ; `inv = x.inv` : what the harness does with every instance it creates -/
def Caller.newReg (c : Caller) (cls : String) : Option Caller :=
  (lifeCmd c.life (.alloc (refsOf cls).1 (refsOf cls).2 c.held.length)).bind fun l1 =>
  (holdRef l1 c.life.objs.length 1).map fun (l2, b) => ⟨l2, c.held ++ [(some c.life.objs.length, some b)]⟩

/-- one more reference to the half on `side` of register `r` (then `extra` more `.inv` steps), reached the way
    the caller can: through the variable that holds it, else through `.inv` of the other variable -/
def Caller.take (c : Caller) (r : Nat) (side : Bool) (extra : Nat) : Option (Life × Nat) :=
  match c.held[r]? with
  | some (hf, hi) =>
    match (if side then hi else hf), (if side then hf else hi) with
    | some a, _ => holdRef c.life a extra
    | none, some b => holdRef c.life b (extra + 1)
    | none, none => none
  | none => none

def dropAll (l : Life) : List (Option Nat) → Option Life
  | [] => some l
  | none :: xs => dropAll l xs
  | some a :: xs => (lifeCmd l (.drop a)).bind fun l' => dropAll l' xs

/-- `K/<r>/<mode>`: the caller keeps only … of register r: `i` the `.inv` object, `f` the forward object,
    `ii` what `x.inv.inv` evaluates to, `fi` both again, `none` nothing; the old variables are let go -/
def Caller.keep (c : Caller) (r : Nat) (mode : String) : Option Caller :=
  match c.held[r]? with
  | none => none
  | some (hf, hi) =>
    let fin (l : Life) (nf ni : Option Nat) : Option Caller :=
      (dropAll l [hf, hi]).map fun l' => ⟨l', c.held.set r (nf, ni)⟩
    if mode = "i" then (c.take r true 0).bind fun (l, b) => fin l none (some b)
    else if mode = "f" then (c.take r false 0).bind fun (l, a) => fin l (some a) none
    else if mode = "ii" then (c.take r false 2).bind fun (l, a) => fin l (some a) none
    else if mode = "fi" then
      (c.take r false 0).bind fun (l, a) =>
      (Caller.take ⟨l, c.held⟩ r true 0).bind fun (l2, b) => fin l2 (some a) (some b)
    else if mode = "none" then fin c.life none none
    else none

/-- the address a call on `side` of register `r` reaches -/
def Caller.addr (c : Caller) (r : Nat) (side : Bool) : Option Nat :=
  match c.held[r]? with
  | some (hf, hi) =>
    match (if side then hi else hf), (if side then hf else hi) with
    | some a, _ => follow c.life.objs a 0
    | none, some b => follow c.life.objs b 1
    | none, none => none
  | none => none

def Life.resolve (st : Life) (a : Nat) : Option (Nat × Bool) := (st.get a).map fun h => (h.reg, h.side)

/-- every register the caller still holds something of: a call on either side reaches that side of THAT
    instance, and `x.inv.inv is x` -/
def Caller.ok (c : Caller) : Bool :=
  (List.range c.held.length).all fun r =>
    match c.held[r]? with
    | some (none, none) => true
    | some _ =>
      ((c.addr r false).bind c.life.resolve == some (r, false)) &&
      ((c.addr r true).bind c.life.resolve == some (r, true)) &&
      ((c.addr r false).bind (fun a => follow c.life.objs a 2) == c.addr r false) &&
      ((c.addr r false).bind (fun a => follow c.life.objs a 1) == c.addr r true)
    | none => true

end C17
