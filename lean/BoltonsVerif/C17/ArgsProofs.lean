import BoltonsVerif.C17.Args
import BoltonsVerif.C17.Proofs2
import BoltonsVerif.C17.HeapProofs
/- C17 - round 3: the caller-level OneToOne machine (`Args.lean`) against `Model.lean`. -/
namespace C17
section argsp
variable {α : Type} [DecidableEq α]

/-- every caller-level history is a history of `Model.lean` (arguments materialised by the callee's one pass) -/
theorem otoRunA_lower {st st' : OtoSt α} (cs : List (OtoCmdA α)) (h : otoRunA st cs = some st') :
    ∃ cs', otoRun st.regs cs' = some st'.regs := by
  induction cs generalizing st with
  | nil => simp only [otoRunA, Option.some.injEq] at h; subst h; exact ⟨[], rfl⟩
  | cons c cs ih =>
    simp only [otoRunA] at h
    cases hc : otoCmdA st c with
    | none => rw [hc] at h; simp at h
    | some p =>
      obtain ⟨st1, ret⟩ := p
      rw [hc] at h
      obtain ⟨cs', hcs'⟩ := ih h
      unfold otoCmdA at hc
      split at hc
      · next c' its hl =>
        simp only [Option.map_eq_some_iff, Prod.mk.injEq] at hc
        obtain ⟨q, hq, e1, _⟩ := hc
        subst e1
        refine ⟨c' :: cs', ?_⟩
        obtain ⟨q1, q2⟩ := q
        simp only [otoRun, hq]
        exact hcs'
      · next its hl =>
        simp only [Option.some.injEq, Prod.mk.injEq] at hc
        obtain ⟨e1, _⟩ := hc
        subst e1
        exact ⟨cs', hcs'⟩
      · simp at hc

/-- a one-shot iterator yields to the first pass what it has left, is empty afterwards - a second pass over the very
    same object gets nothing - and no other iterator is touched -/
theorem takeArg_iter_one_shot (st : OtoSt α) (i : Nat) (ps : List (α × α)) (its : List (List (α × α)))
    (h : takeArg st (.iter i) = some (ps, its)) :
    st.iters[i]? = some ps ∧ its[i]? = some [] ∧ (∀ j, j ≠ i → its[j]? = st.iters[j]?) ∧
    takeArg ⟨st.regs, its⟩ (.iter i) = some ([], its) := by
  simp only [takeArg, Option.map_eq_some_iff, Prod.mk.injEq] at h
  obtain ⟨rest, hr, e1, e2⟩ := h
  subst e1; subst e2
  have hlt : i < st.iters.length := by
    rcases Nat.lt_or_ge i st.iters.length with h1 | h1
    · exact h1
    · rw [List.getElem?_eq_none h1] at hr; simp at hr
  refine ⟨hr, by simp [hlt], fun j hj => by simp [Ne.symm hj], ?_⟩
  simp [takeArg, hlt]

/-- a dict / keyword argument delivers each key of the raw pairs once, with the LAST value written for it -/
theorem takeArg_dict (st : OtoSt α) (raw : List (α × α)) :
    takeArg st (.dict raw) = some (putAll [] raw, st.iters) ∧ NodupKeys (putAll ([] : Dict α α) raw) ∧
    (∀ k, k ∈ keys (putAll ([] : Dict α α) raw) ↔ k ∈ keys raw) ∧
    (∀ (raw' : List (α × α)) k v a, lookup a (putAll ([] : Dict α α) (raw' ++ [(k, v)]))
      = if a = k then some v else lookup a (putAll ([] : Dict α α) raw')) := by
  refine ⟨rfl, putAll_nodup _ _ nodupKeys_nil, fun k => ?_, fun raw' k v a => ?_⟩
  · rw [mem_keys_putAll]; simp [keys]
  · simp only [putAll, List.foldl_append, List.foldl_cons, List.foldl_nil]
    exact lookup_put a k v _

/-- `x.update(it)` for a held one-shot iterator whose remaining pairs do not collide with each other: every one of
    them is installed - the first included - and the iterator is empty afterwards -/
theorem update_iter_installs_all (st st' : OtoSt α) (ret : Ret α) (r i : Nat) (s : OTO α) (ps : List (α × α))
    (hr : st.regs[r]? = some s) (w : s.WF) (hi : st.iters[i]? = some ps)
    (hk : (ps.map Prod.fst).Nodup) (hv : (ps.map Prod.snd).Nodup)
    (h : otoCmdA st (.update r false (.iter i) []) = some (st', ret)) :
    st'.regs[r]? = some (s.update ps) ∧ (∀ p ∈ ps, p ∈ (s.update ps).fwd ∧ swap p ∈ (s.update ps).inv) ∧
    st'.iters[i]? = some [] := by
  have hlt : i < st.iters.length := by
    rcases Nat.lt_or_ge i st.iters.length with h1 | h1
    · exact h1
    · rw [List.getElem?_eq_none h1] at hi; simp at hi
  have hrl : r < st.regs.length := by
    rcases Nat.lt_or_ge r st.regs.length with h1 | h1
    · exact h1
    · rw [List.getElem?_eq_none h1] at hr; simp at hr
  simp only [otoCmdA, lowerCmd, takeArg, hi, Option.map_some, putAll, List.foldl_nil, List.append_nil, otoCmd, hr,
    OTO.stepSide, OTO.step, Option.some.injEq, Prod.mk.injEq, Bool.false_eq_true, if_false] at h
  obtain ⟨e1, _⟩ := h
  subst e1
  refine ⟨by simp [hrl], ?_, by simp [hlt]⟩
  intro p hp
  have w' := w.update ps
  have h1 := OTO.update_installs_all w ps hk hv p hp
  exact ⟨(mem_iff_lookup _ w'.nf p.1 p.2).2 h1, (mem_iff_lookup _ w'.ni p.2 p.1).2 ((w'.inverse _ _).1 h1)⟩

/-! ## ManyToMany, caller level -/

/-- a caller-level history on the by-value machine IS the lowered history on `m2mRun` … -/
theorem m2mRunA_lower {st st' : M2MSt α} (cs : List (M2MCmdA α)) (h : m2mRunA st cs = some st') :
    ∃ cs', lowerAll st.iters cs = some (cs', st'.iters) ∧ m2mRun st.regs cs' = some st'.regs := by
  induction cs generalizing st with
  | nil => simp only [m2mRunA, Option.some.injEq] at h; subst h; exact ⟨[], rfl, rfl⟩
  | cons c cs ih =>
    simp only [m2mRunA] at h
    cases hc : m2mCmdA st c with
    | none => rw [hc] at h; simp at h
    | some p =>
      obtain ⟨st1, ret⟩ := p
      rw [hc] at h
      obtain ⟨cs', hl, hr⟩ := ih h
      unfold m2mCmdA at hc
      split at hc
      · next c' its hlow =>
        simp only [Option.map_eq_some_iff, Prod.mk.injEq] at hc
        obtain ⟨q, hq, e1, _⟩ := hc
        subst e1
        obtain ⟨q1, q2⟩ := q
        refine ⟨c' :: cs', ?_, ?_⟩
        · simp only [lowerAll, hlow]; simp only at hl; rw [hl]; rfl
        · simp only [m2mRun, hq]; exact hr
      · next its hlow =>
        simp only [Option.some.injEq, Prod.mk.injEq] at hc
        obtain ⟨e1, _⟩ := hc
        subst e1
        refine ⟨cs', ?_, hr⟩
        simp only [lowerAll, hlow]; simp only at hl; rw [hl]; rfl
      · simp at hc

/-- … and conversely -/
theorem m2mRunA_of_lower (cs : List (M2MCmdA α)) (regs regs' : List (M2M α)) (its its' : List (List (α × α)))
    (cs' : List (M2MCmd α)) (hl : lowerAll its cs = some (cs', its')) (hr : m2mRun regs cs' = some regs') :
    m2mRunA ⟨regs, its⟩ cs = some ⟨regs', its'⟩ := by
  induction cs generalizing regs its cs' with
  | nil =>
    simp only [lowerAll, Option.some.injEq, Prod.mk.injEq] at hl
    obtain ⟨e1, e2⟩ := hl
    subst e1; subst e2
    simp only [m2mRun, Option.some.injEq] at hr
    subst hr; rfl
  | cons c cs ih =>
    simp only [lowerAll] at hl
    cases hlow : lowerM its c with
    | none => rw [hlow] at hl; simp at hl
    | some q =>
      obtain ⟨oc, its1⟩ := q
      rw [hlow] at hl
      simp only [Option.map_eq_some_iff, Prod.mk.injEq] at hl
      obtain ⟨p, hp, e1, e2⟩ := hl
      obtain ⟨p1, p2⟩ := p
      simp only at e1 e2
      subst e2
      cases oc with
      | none =>
        simp only at e1
        subst e1
        simp only [m2mRunA, m2mCmdA, hlow]
        exact ih regs its1 p1 hp hr
      | some c' =>
        simp only at e1
        subst e1
        simp only [m2mRun] at hr
        cases hc : m2mCmd regs c' with
        | none => rw [hc] at hr; simp at hr
        | some w =>
          obtain ⟨regs1, ret⟩ := w
          rw [hc] at hr
          simp only [m2mRunA, m2mCmdA, hlow, hc, Option.map_some]
          exact ih regs1 its1 p1 hp hr

/-- the heap-level caller machine runs the same lowered history on `hm2mRun` -/
theorem hm2mRunA_lower {s s' : HM2MSt α} (cs : List (M2MCmdA α)) (h : hm2mRunA s cs = some s') :
    ∃ cs', lowerAll s.iters cs = some (cs', s'.iters) ∧ hm2mRun s.st cs' = some s'.st := by
  induction cs generalizing s with
  | nil => simp only [hm2mRunA, Option.some.injEq] at h; subst h; exact ⟨[], rfl, rfl⟩
  | cons c cs ih =>
    simp only [hm2mRunA] at h
    cases hc : hm2mCmdA s c with
    | none => rw [hc] at h; simp at h
    | some p =>
      obtain ⟨s1, ret⟩ := p
      rw [hc] at h
      obtain ⟨cs', hl, hr⟩ := ih h
      unfold hm2mCmdA at hc
      split at hc
      · next c' its hlow =>
        simp only [Option.map_eq_some_iff, Prod.mk.injEq] at hc
        obtain ⟨q, hq, e1, _⟩ := hc
        subst e1
        obtain ⟨q1, q2⟩ := q
        refine ⟨c' :: cs', ?_, ?_⟩
        · simp only [lowerAll, hlow]; simp only at hl; rw [hl]; rfl
        · simp only [hm2mRun, hq]; exact hr
      · next its hlow =>
        simp only [Option.some.injEq, Prod.mk.injEq] at hc
        obtain ⟨e1, _⟩ := hc
        subst e1
        refine ⟨cs', ?_, hr⟩
        simp only [lowerAll, hlow]; simp only at hl; rw [hl]; rfl
      · simp at hc

/-- the iterator part of the lowering: a held iterator gives what it has left, once -/
theorem takePairs_iter_one_shot (its its' : List (List (α × α))) (i : Nat) (ps : List (α × α))
    (h : takePairs its (.iter i) = some (ps, its')) :
    its[i]? = some ps ∧ its'[i]? = some [] ∧ (∀ j, j ≠ i → its'[j]? = its[j]?) ∧
    takePairs its' (.iter i) = some ([], its') := by
  simp only [takePairs, Option.map_eq_some_iff, Prod.mk.injEq] at h
  obtain ⟨rest, hr, e1, e2⟩ := h
  subst e1; subst e2
  have hlt : i < its.length := by
    rcases Nat.lt_or_ge i its.length with h1 | h1
    · exact h1
    · rw [List.getElem?_eq_none h1] at hr; simp at hr
  refine ⟨hr, by simp [hlt], fun j hj => by simp [Ne.symm hj], ?_⟩
  simp [takePairs, hlt]

end argsp
end C17
