import BoltonsVerif.C17.Heap
import BoltonsVerif.C17.Proofs2
/-
C17 — the heap-level ManyToMany machine (`Heap.lean`): footprint of every operation (which cells it may
write, which ids it may store), the separation invariant (no set object referenced twice), and the
simulation of the by-value machine of `Model.lean`.
-/
namespace C17
set_option linter.unusedSectionVars false

section cells
variable {α : Type} [DecidableEq α]

theorem cell_set (h : Heap α) (i j : Nat) (vs : List α) :
    cell (h.set i vs) j = if i = j ∧ i < h.length then vs else cell h j := by
  unfold cell
  rw [List.getElem?_set]
  by_cases e : i = j
  · subst e
    by_cases hl : i < h.length
    · simp [hl]
    · simp [hl]
  · simp [e]

theorem cell_set_ne (h : Heap α) (i j : Nat) (vs : List α) (e : i ≠ j) : cell (h.set i vs) j = cell h j := by
  rw [cell_set]; simp [e]

theorem cell_set_self (h : Heap α) (i : Nat) (vs : List α) (hl : i < h.length) : cell (h.set i vs) i = vs := by
  rw [cell_set]; simp [hl]

theorem cell_append_left (h x : Heap α) (j : Nat) (hj : j < h.length) : cell (h ++ x) j = cell h j := by
  unfold cell; rw [List.getElem?_append_left hj]

theorem cell_append_length (h : Heap α) (vs : List α) : cell (h ++ [vs]) h.length = vs := by
  unfold cell; simp

theorem ids_append (d e : Dict α Nat) : ids (d ++ e) = ids d ++ ids e := by simp [ids]

theorem mem_ids_of_lookup {k : α} {d : Dict α Nat} {i : Nat} (h : lookup k d = some i) : i ∈ ids d := by
  induction d with
  | nil => simp [lookup] at h
  | cons p r ih =>
    obtain ⟨a, j⟩ := p
    simp only [lookup] at h
    split at h
    · injection h with h; simp [ids, h]
    · simp only [ids, List.map_cons, List.mem_cons]; exact Or.inr (ih h)

theorem lookup_deref (h : Heap α) (k : α) (d : Dict α Nat) : lookup k (deref h d) = (lookup k d).map (cell h) := by
  induction d with
  | nil => rfl
  | cons p r ih =>
    obtain ⟨a, j⟩ := p
    simp only [deref, List.map_cons, lookup] at ih ⊢
    split
    · rfl
    · exact ih

theorem keys_deref (h : Heap α) (d : Dict α Nat) : keys (deref h d) = keys d := by
  simp [keys, deref, Function.comp_def]

theorem hasKey_deref (h : Heap α) (k : α) (d : Dict α Nat) : hasKey k (deref h d) = hasKey k d := by
  unfold hasKey; rw [lookup_deref]; cases lookup k d <;> rfl

theorem getSet_deref (h : Heap α) (k : α) (d : Dict α Nat) :
    getSet k (deref h d) = match lookup k d with | some i => cell h i | none => [] := by
  unfold getSet; rw [lookup_deref]; cases lookup k d <;> rfl

theorem deref_erase (h : Heap α) (k : α) (d : Dict α Nat) : deref h (erase k d) = erase k (deref h d) := by
  induction d with
  | nil => rfl
  | cons p r ih =>
    obtain ⟨a, j⟩ := p
    simp only [deref, List.map_cons, erase] at ih ⊢
    split
    · exact ih
    · simp only [List.map_cons]; rw [ih]

theorem deref_append (h : Heap α) (d e : Dict α Nat) : deref h (d ++ e) = deref h d ++ deref h e := by
  simp [deref]

theorem deref_congr (h h' : Heap α) (d : Dict α Nat) (hc : ∀ j ∈ ids d, cell h' j = cell h j) :
    deref h' d = deref h d := by
  unfold deref
  apply List.map_congr_left
  intro p hp
  rw [hc p.2 (List.mem_map_of_mem (f := Prod.snd) hp)]

theorem ids_erase_sublist (k : α) (d : Dict α Nat) : (ids (erase k d)).Sublist (ids d) := by
  induction d with
  | nil => simp [erase, ids]
  | cons p r ih =>
    obtain ⟨a, j⟩ := p
    simp only [erase]
    split
    · exact List.Sublist.cons _ ih
    · simp only [ids, List.map_cons] at ih ⊢
      exact List.Sublist.cons_cons _ ih

theorem erase_put_same {β : Type} (k : α) (v : β) (d : Dict α β) : erase k (put k v d) = erase k d := by
  induction d with
  | nil => simp [put, erase]
  | cons p r ih =>
    obtain ⟨a, b⟩ := p
    simp only [put]
    split
    · next e => simp [erase, e]
    · next e => simp [erase, e, ih]

theorem erase_of_lookup_none {β : Type} (k : α) (d : Dict α β) (h : lookup k d = none) : erase k d = d := by
  induction d with
  | nil => rfl
  | cons p r ih =>
    obtain ⟨a, b⟩ := p
    simp only [lookup] at h
    split at h
    · simp at h
    · next e => simp [erase, e, ih h]

/-- writing the cell a key refers to = `d[k] = newset` by value (no other entry refers to that cell) -/
theorem deref_set_own (h : Heap α) (k : α) (d : Dict α Nat) (i : Nat) (vs : List α)
    (hk : lookup k d = some i) (hn : (ids d).Nodup) (hl : i < h.length) :
    deref (h.set i vs) d = put k vs (deref h d) := by
  induction d with
  | nil => simp [lookup] at hk
  | cons p r ih =>
    obtain ⟨a, j⟩ := p
    simp only [ids, List.map_cons, List.nodup_cons] at hn
    simp only [lookup] at hk
    split at hk
    · next e =>
      injection hk with hk
      subst hk
      have : deref (h.set j vs) r = deref h r := by
        apply deref_congr
        intro x hx
        exact cell_set_ne _ _ _ _ (fun e' => hn.1 (e' ▸ hx))
      simp only [deref, List.map_cons, put] at this ⊢
      rw [if_pos e, this, cell_set_self _ _ _ hl]
    · next e =>
      have hi : i ∈ ids r := mem_ids_of_lookup hk
      have hne : i ≠ j := fun e' => hn.1 (e' ▸ hi)
      have := ih hk hn.2
      simp only [deref, List.map_cons, put] at this ⊢
      rw [if_neg e, this, cell_set_ne _ _ _ _ hne]

end cells

/-! ## footprint and simulation of steps (on one dict, on one instance) -/
section steps
variable {α : Type} [DecidableEq α]

abbrev Step (α σ : Type) := Heap α → σ → Heap α × σ

section generic
variable {σ τ : Type} (idsOf : σ → List Nat) (absOf : Heap α → σ → τ)

/-- what a step may touch: it never shrinks the heap, writes only cells the object refers to (or new
    ones), and stores only ids the object already had or ids of cells it has just allocated -/
structure FootAt (f : Step α σ) (h : Heap α) (x : σ) : Prop where
  len : h.length ≤ (f h x).1.length
  frame : ∀ j, j < h.length → j ∉ idsOf x → cell (f h x).1 j = cell h j
  ids_sub : ∀ j, j ∈ idsOf (f h x).2 → j ∈ idsOf x ∨ (h.length ≤ j ∧ j < (f h x).1.length)
  nodup : (idsOf x).Nodup → (∀ j ∈ idsOf x, j < h.length) → (idsOf (f h x).2).Nodup

/-- … and by value it is `g` -/
def SimAt (f : Step α σ) (g : τ → τ) (h : Heap α) (x : σ) : Prop :=
  (idsOf x).Nodup → (∀ j ∈ idsOf x, j < h.length) → absOf (f h x).1 (f h x).2 = g (absOf h x)

variable {idsOf absOf}

theorem FootAt.inRange {f : Step α σ} {h : Heap α} {x : σ} (ft : FootAt idsOf f h x)
    (hr : ∀ j ∈ idsOf x, j < h.length) : ∀ j ∈ idsOf (f h x).2, j < (f h x).1.length := by
  intro j hj
  rcases ft.ids_sub j hj with h1 | h1
  · exact Nat.lt_of_lt_of_le (hr j h1) ft.len
  · exact h1.2

theorem FootAt.of_eq {f f' : Step α σ} {h : Heap α} {x : σ} (e : f h x = f' h x) (ft : FootAt idsOf f' h x) :
    FootAt idsOf f h x := by
  constructor
  · rw [e]; exact ft.len
  · rw [e]; exact ft.frame
  · rw [e]; exact ft.ids_sub
  · rw [e]; exact ft.nodup

theorem SimAt.of_eq {f f' : Step α σ} {g g' : τ → τ} {h : Heap α} {x : σ} (e : f h x = f' h x)
    (eg : g (absOf h x) = g' (absOf h x)) (sm : SimAt idsOf absOf f' g' h x) : SimAt idsOf absOf f g h x := by
  intro hn hr
  rw [e, eg]; exact sm hn hr

theorem foot_id (h : Heap α) (x : σ) : FootAt idsOf (fun _ _ => (h, x)) h x :=
  ⟨Nat.le_refl _, fun _ _ _ => rfl, fun _ hj => Or.inl hj, fun hn _ => hn⟩

def sSeq (f₁ f₂ : Step α σ) : Step α σ := fun h x => f₂ (f₁ h x).1 (f₁ h x).2

theorem FootAt.seq {f₁ f₂ : Step α σ} {h : Heap α} {x : σ} (a : FootAt idsOf f₁ h x)
    (b : FootAt idsOf f₂ (f₁ h x).1 (f₁ h x).2) : FootAt idsOf (sSeq f₁ f₂) h x := by
  refine ⟨Nat.le_trans a.len b.len, ?_, ?_, ?_⟩
  · intro j hj hn
    have h1 : j < (f₁ h x).1.length := Nat.lt_of_lt_of_le hj a.len
    have h2 : j ∉ idsOf (f₁ h x).2 := by
      intro hm
      rcases a.ids_sub j hm with h3 | h3
      · exact hn h3
      · omega
    show cell (f₂ (f₁ h x).1 (f₁ h x).2).1 j = cell h j
    rw [b.frame j h1 h2, a.frame j hj hn]
  · intro j hj
    rcases b.ids_sub j hj with h1 | h1
    · rcases a.ids_sub j h1 with h2 | h2
      · exact Or.inl h2
      · exact Or.inr ⟨h2.1, Nat.lt_of_lt_of_le h2.2 b.len⟩
    · exact Or.inr ⟨Nat.le_trans a.len h1.1, h1.2⟩
  · intro hn hr
    exact b.nodup (a.nodup hn hr) (a.inRange hr)

theorem SimAt.seq {f₁ f₂ : Step α σ} {g₁ g₂ : τ → τ} {h : Heap α} {x : σ}
    (a : FootAt idsOf f₁ h x) (sa : SimAt idsOf absOf f₁ g₁ h x)
    (sb : SimAt idsOf absOf f₂ g₂ (f₁ h x).1 (f₁ h x).2) :
    SimAt idsOf absOf (sSeq f₁ f₂) (fun D => g₂ (g₁ D)) h x := by
  intro hn hr
  show absOf (f₂ (f₁ h x).1 (f₁ h x).2).1 (f₂ (f₁ h x).1 (f₁ h x).2).2 = g₂ (g₁ (absOf h x))
  rw [sb (a.nodup hn hr) (a.inRange hr), sa hn hr]

theorem sFold_cons {β : Type} (f : β → Step α σ) (b : β) (l : List β) (h : Heap α) (x : σ) :
    sFold f (b :: l) h x = sFold f l (f b h x).1 (f b h x).2 := rfl

theorem sFold_foot {β : Type} (f : β → Step α σ) (hf : ∀ b h x, FootAt idsOf (f b) h x) (l : List β) :
    ∀ h x, FootAt idsOf (sFold f l) h x := by
  induction l with
  | nil => intro h x; exact FootAt.of_eq (f' := fun _ _ => (h, x)) rfl (foot_id h x)
  | cons b l ih =>
    intro h x
    exact FootAt.of_eq (f' := sSeq (f b) (sFold f l)) (sFold_cons f b l h x) (FootAt.seq (hf b h x) (ih _ _))

theorem sFold_sim {β : Type} (f : β → Step α σ) (g : β → τ → τ)
    (hf : ∀ b h x, FootAt idsOf (f b) h x) (hs : ∀ b h x, SimAt idsOf absOf (f b) (g b) h x) (l : List β) :
    ∀ h x, SimAt idsOf absOf (sFold f l) (fun D => l.foldl (fun D b => g b D) D) h x := by
  induction l with
  | nil => intro h x _ _; rfl
  | cons b l ih =>
    intro h x hn hr
    rw [sFold_cons]
    exact SimAt.seq (hf b h x) (hs b h x) (ih _ _) hn hr

end generic

/-! ### one dict -/

abbrev DFootAt (f : Step α (Dict α Nat)) (h : Heap α) (d : Dict α Nat) : Prop := FootAt ids f h d
abbrev DSimAt (f : Step α (Dict α Nat)) (g : Dict α (List α) → Dict α (List α)) (h : Heap α) (d : Dict α Nat) : Prop :=
  SimAt ids deref f g h d
def DFoot (f : Step α (Dict α Nat)) : Prop := ∀ h d, DFootAt f h d
def DSim (f : Step α (Dict α Nat)) (g : Dict α (List α) → Dict α (List α)) : Prop := ∀ h d, DSimAt f g h d
def InRange (h : Heap α) (d : Dict α Nat) : Prop := ∀ j ∈ ids d, j < h.length

/-- a step that only rewrites, in place, the cell `k` refers to -/
theorem dfoot_set (h : Heap α) (d : Dict α Nat) (k : α) (i : Nat) (vs : List α) (hk : lookup k d = some i) :
    DFootAt (fun _ _ => (h.set i vs, d)) h d := by
  refine ⟨by simp, ?_, fun j hj => Or.inl hj, fun hn _ => hn⟩
  intro j _ hj
  exact cell_set_ne _ _ _ _ (fun e => hj (e ▸ mem_ids_of_lookup hk))

/-- a step that allocates one new cell for the new key `k` -/
theorem dfoot_alloc (h : Heap α) (d : Dict α Nat) (k : α) (vs : List α) :
    DFootAt (fun _ _ => (h ++ [vs], d ++ [(k, h.length)])) h d := by
  refine ⟨by simp, ?_, ?_, ?_⟩
  · intro j hj _; exact cell_append_left _ _ _ hj
  · intro j hj
    simp only [ids_append, List.mem_append] at hj
    rcases hj with hj | hj
    · exact Or.inl hj
    · simp only [ids, List.map_cons, List.map_nil, List.mem_singleton] at hj
      subst hj; right; simp
  · intro hn hr
    simp only [ids_append]
    rw [List.nodup_append]
    refine ⟨hn, by simp [ids], ?_⟩
    intro a ha b hb e
    simp only [ids, List.map_cons, List.map_nil, List.mem_singleton] at hb
    have := hr a ha
    omega

theorem dsim_alloc (h : Heap α) (d : Dict α Nat) (k : α) (vs : List α) (hk : lookup k d = none) (hr : InRange h d) :
    deref (h ++ [vs]) (d ++ [(k, h.length)]) = put k vs (deref h d) := by
  rw [put_of_not_mem, deref_append]
  · congr 1
    · exact deref_congr _ _ _ (fun j hj => cell_append_left _ _ _ (hr j hj))
    · simp [deref, cell_append_length]
  · rw [keys_deref]; exact (lookup_none_iff k d).1 hk

/-- a step that rewrites the cell of `k` and drops the key -/
theorem dfoot_set_erase (h : Heap α) (d : Dict α Nat) (k : α) (i : Nat) (vs : List α) (hk : lookup k d = some i) :
    DFootAt (fun _ _ => (h.set i vs, erase k d)) h d := by
  refine ⟨by simp, ?_, fun j hj => Or.inl ((ids_erase_sublist k d).subset hj), fun hn _ => (ids_erase_sublist k d).nodup hn⟩
  intro j _ hj
  exact cell_set_ne _ _ _ _ (fun e => hj (e ▸ mem_ids_of_lookup hk))

/-! the primitives -/

theorem hAddTo_foot (k v : α) : DFoot (hAddTo k v) := by
  intro h d
  cases hk : lookup k d with
  | some i =>
    exact FootAt.of_eq (f' := fun _ _ => (h.set i (insertSet v (cell h i)), d)) (by simp [hAddTo, hk])
      (dfoot_set h d k i _ hk)
  | none =>
    exact FootAt.of_eq (f' := fun _ _ => (h ++ [insertSet v []], d ++ [(k, h.length)])) (by simp [hAddTo, hk])
      (dfoot_alloc h d k _)

theorem hAddTo_sim (k v : α) : DSim (hAddTo k v) (addTo k v) := by
  intro h d hn hr
  unfold addTo
  rw [getSet_deref]
  cases hk : lookup k d with
  | some i =>
    have : hAddTo k v h d = (h.set i (insertSet v (cell h i)), d) := by simp [hAddTo, hk]
    rw [this]
    exact deref_set_own h k d i _ hk hn (hr i (mem_ids_of_lookup hk))
  | none =>
    have : hAddTo k v h d = (h ++ [insertSet v []], d ++ [(k, h.length)]) := by simp [hAddTo, hk]
    rw [this]
    exact dsim_alloc h d k _ hk hr

theorem hRemoveFrom_foot (k v : α) : DFoot (hRemoveFrom k v) := by
  intro h d
  cases hk : lookup k d with
  | some i =>
    by_cases he : removeElem v (cell h i) = []
    · exact FootAt.of_eq (f' := fun _ _ => (h.set i [], erase k d)) (by simp [hRemoveFrom, hk, he])
        (dfoot_set_erase h d k i [] hk)
    · exact FootAt.of_eq (f' := fun _ _ => (h.set i (removeElem v (cell h i)), d)) (by simp [hRemoveFrom, hk, he])
        (dfoot_set h d k i _ hk)
  | none => exact FootAt.of_eq (f' := fun _ _ => (h, d)) (by simp [hRemoveFrom, hk]) (foot_id h d)

theorem hRemoveFrom_sim (k v : α) : DSim (hRemoveFrom k v) (removeFrom k v) := by
  intro h d hn hr
  unfold removeFrom
  rw [getSet_deref]
  cases hk : lookup k d with
  | some i =>
    have hl := hr i (mem_ids_of_lookup hk)
    by_cases he : removeElem v (cell h i) = []
    · have : hRemoveFrom k v h d = (h.set i [], erase k d) := by simp [hRemoveFrom, hk, he]
      rw [this]
      simp only [he, if_true]
      rw [deref_erase, deref_set_own h k d i _ hk hn hl, erase_put_same]
    · have : hRemoveFrom k v h d = (h.set i (removeElem v (cell h i)), d) := by simp [hRemoveFrom, hk, he]
      rw [this]
      simp only [he, if_false]
      exact deref_set_own h k d i _ hk hn hl
  | none =>
    have : hRemoveFrom k v h d = (h, d) := by simp [hRemoveFrom, hk]
    rw [this]
    simp only [removeElem, List.filter_nil, if_true]
    rw [erase_of_lookup_none]
    rw [lookup_deref, hk]; rfl

theorem hMergeKey_foot (k : α) (vs : List α) : DFoot (hMergeKey k vs) := by
  intro h d
  cases hk : lookup k d with
  | some i =>
    exact FootAt.of_eq (f' := fun _ _ => (h.set i (unionSet (cell h i) vs), d)) (by simp [hMergeKey, hk])
      (dfoot_set h d k i _ hk)
  | none =>
    exact FootAt.of_eq (f' := fun _ _ => (h ++ [toSet vs], d ++ [(k, h.length)])) (by simp [hMergeKey, hk])
      (dfoot_alloc h d k _)

theorem hMergeKey_sim (k : α) (vs : List α) : DSim (hMergeKey k vs) (mergeKey k vs) := by
  intro h d hn hr
  unfold mergeKey
  rw [hasKey_deref, getSet_deref]
  cases hk : lookup k d with
  | some i =>
    have : hMergeKey k vs h d = (h.set i (unionSet (cell h i) vs), d) := by simp [hMergeKey, hk]
    rw [this]
    simp only [hasKey, hk, Option.isSome_some, if_true]
    exact deref_set_own h k d i _ hk hn (hr i (mem_ids_of_lookup hk))
  | none =>
    have : hMergeKey k vs h d = (h ++ [toSet vs], d ++ [(k, h.length)]) := by simp [hMergeKey, hk]
    rw [this]
    simp only [hasKey, hk, Option.isSome_none, Bool.false_eq_true, if_false]
    rw [dsim_alloc h d k _ hk hr, put_of_not_mem]
    rw [keys_deref]; exact (lookup_none_iff k d).1 hk

theorem hRenameIn_foot (v k nk : α) : DFoot (hRenameIn v k nk) := by
  intro h d
  cases hk : lookup v d with
  | some i =>
    exact FootAt.of_eq (f' := fun _ _ => (h.set i (insertSet nk (removeElem k (cell h i))), d))
      (by simp [hRenameIn, hk]) (dfoot_set h d v i _ hk)
  | none => exact FootAt.of_eq (f' := fun _ _ => (h, d)) (by simp [hRenameIn, hk]) (foot_id h d)

theorem hRenameIn_sim (v k nk : α) : DSim (hRenameIn v k nk) (renameIn v k nk) := by
  intro h d hn hr
  unfold renameIn
  rw [hasKey_deref, getSet_deref]
  cases hk : lookup v d with
  | some i =>
    have : hRenameIn v k nk h d = (h.set i (insertSet nk (removeElem k (cell h i))), d) := by simp [hRenameIn, hk]
    rw [this]
    simp only [hasKey, hk, Option.isSome_some, if_true]
    exact deref_set_own h v d i _ hk hn (hr i (mem_ids_of_lookup hk))
  | none =>
    have : hRenameIn v k nk h d = (h, d) := by simp [hRenameIn, hk]
    rw [this]
    simp [hasKey, hk]

theorem hErase_foot (k : α) : DFoot (hErase k) := by
  intro h d
  exact ⟨Nat.le_refl _, fun _ _ _ => rfl, fun j hj => Or.inl ((ids_erase_sublist k d).subset hj),
    fun hn _ => (ids_erase_sublist k d).nodup hn⟩

theorem hErase_sim (k : α) : DSim (hErase k) (erase k) := by
  intro h d _ _
  exact deref_erase h k d

/-- `for k in other: …` with the other dict's cells read live: the footprint is that of the merges, whatever is read -/
theorem hMergeAll_foot (od : Dict α Nat) : DFoot (hMergeAll od) := by
  unfold hMergeAll
  intro h d
  apply sFold_foot
  intro e h d
  exact FootAt.of_eq (f' := hMergeKey e.1 (cell h e.2)) rfl (hMergeKey_foot _ _ h d)

/-- … and when the other dict's cells are none of this dict's, what is read live is what was there at the start -/
theorem hMergeAll_sim (od : Dict α Nat) (h : Heap α) (d : Dict α Nat) (hn : (ids d).Nodup) (hr : InRange h d)
    (hro : InRange h od) (hd : ∀ j ∈ ids od, j ∉ ids d) :
    deref (hMergeAll od h d).1 (hMergeAll od h d).2 = (deref h od).foldl (fun D p => mergeKey p.1 p.2 D) (deref h d) := by
  induction od generalizing h d with
  | nil => rfl
  | cons e rest ih =>
    have ft := hMergeKey_foot e.1 (cell h e.2) h d
    have e1 : hMergeAll (e :: rest) h d = hMergeAll rest (hMergeKey e.1 (cell h e.2) h d).1 (hMergeKey e.1 (cell h e.2) h d).2 := rfl
    rw [e1]
    have hro' : InRange h rest := fun j hj => hro j (by simp [ids] at hj ⊢; exact Or.inr hj)
    have hd' : ∀ j ∈ ids rest, j ∉ ids d := fun j hj => hd j (by simp [ids] at hj ⊢; exact Or.inr hj)
    rw [ih _ _ (ft.nodup hn hr) (ft.inRange hr)
      (fun j hj => Nat.lt_of_lt_of_le (hro' j hj) ft.len)
      (by
        intro j hj hm
        rcases ft.ids_sub j hm with h1 | h1
        · exact hd' j hj h1
        · have := hro' j hj; omega)]
    have hs := hMergeKey_sim e.1 (cell h e.2) h d hn hr
    rw [hs]
    have hc : deref (hMergeKey e.1 (cell h e.2) h d).1 rest = deref h rest :=
      deref_congr _ _ _ (fun j hj => ft.frame j (hro' j hj) (hd' j hj))
    rw [hc]
    simp [deref]


/-! ### one instance -/

abbrev IFootAt (F : Step α (HInst α)) (h : Heap α) (s : HInst α) : Prop := FootAt idsI F h s
abbrev ISimAt (F : Step α (HInst α)) (G : M2M α → M2M α) (h : Heap α) (s : HInst α) : Prop :=
  SimAt idsI HInst.abs F G h s

theorem mem_idsI (s : HInst α) (j : Nat) : j ∈ idsI s ↔ j ∈ ids s.data ∨ j ∈ ids s.inv := by
  simp [idsI]

theorem onBoth_foot {f g : Step α (Dict α Nat)} {h : Heap α} {s : HInst α}
    (a : DFootAt f h s.data) (b : DFootAt g (f h s.data).1 s.inv) : IFootAt (onBoth f g) h s := by
  refine ⟨Nat.le_trans a.len b.len, ?_, ?_, ?_⟩
  · intro j hj hn
    rw [mem_idsI, not_or] at hn
    show cell (g (f h s.data).1 s.inv).1 j = cell h j
    rw [b.frame j (Nat.lt_of_lt_of_le hj a.len) hn.2, a.frame j hj hn.1]
  · intro j hj
    rw [mem_idsI] at hj
    rw [mem_idsI]
    rcases hj with hj | hj
    · rcases a.ids_sub j hj with h1 | h1
      · exact Or.inl (Or.inl h1)
      · exact Or.inr ⟨h1.1, Nat.lt_of_lt_of_le h1.2 b.len⟩
    · rcases b.ids_sub j hj with h1 | h1
      · exact Or.inl (Or.inr h1)
      · exact Or.inr ⟨Nat.le_trans a.len h1.1, h1.2⟩
  · intro hn hr
    unfold idsI at hn
    rw [List.nodup_append] at hn
    obtain ⟨n1, n2, n3⟩ := hn
    have r1 : InRange h s.data := fun j hj => hr j ((mem_idsI s j).2 (Or.inl hj))
    have r2 : InRange h s.inv := fun j hj => hr j ((mem_idsI s j).2 (Or.inr hj))
    have r2' : InRange (f h s.data).1 s.inv := fun j hj => Nat.lt_of_lt_of_le (r2 j hj) a.len
    show (ids (f h s.data).2 ++ ids (g (f h s.data).1 s.inv).2).Nodup
    rw [List.nodup_append]
    refine ⟨a.nodup n1 r1, b.nodup n2 r2', ?_⟩
    intro x hx y hy e
    subst e
    rcases a.ids_sub x hx with h1 | h1 <;> rcases b.ids_sub x hy with h2 | h2
    · exact n3 x h1 x h2 rfl
    · have := r1 x h1; have := a.len; omega
    · have := r2 x h2; omega
    · omega

theorem onBoth_sim {f g : Step α (Dict α Nat)} {gf gg : Dict α (List α) → Dict α (List α)} {h : Heap α} {s : HInst α}
    (a : DFootAt f h s.data) (b : DFootAt g (f h s.data).1 s.inv)
    (sa : DSimAt f gf h s.data) (sb : DSimAt g gg (f h s.data).1 s.inv) :
    ISimAt (onBoth f g) (fun m => ⟨gf m.data, gg m.inv⟩) h s := by
  intro hn hr
  unfold idsI at hn
  rw [List.nodup_append] at hn
  obtain ⟨n1, n2, n3⟩ := hn
  have r1 : InRange h s.data := fun j hj => hr j ((mem_idsI s j).2 (Or.inl hj))
  have r2 : InRange h s.inv := fun j hj => hr j ((mem_idsI s j).2 (Or.inr hj))
  have r2' : InRange (f h s.data).1 s.inv := fun j hj => Nat.lt_of_lt_of_le (r2 j hj) a.len
  have e1 : deref (f h s.data).1 s.inv = deref h s.inv :=
    deref_congr _ _ _ (fun j hj => a.frame j (r2 j hj) (fun hm => n3 j hm j hj rfl))
  have e2 : deref (g (f h s.data).1 s.inv).1 (f h s.data).2 = deref (f h s.data).1 (f h s.data).2 := by
    apply deref_congr
    intro j hj
    apply b.frame j (a.inRange r1 j hj)
    intro hm
    rcases a.ids_sub j hj with h1 | h1
    · exact n3 j h1 j hm rfl
    · have := r2 j hm; omega
  show (⟨deref (g (f h s.data).1 s.inv).1 (f h s.data).2, deref (g (f h s.data).1 s.inv).1 (g (f h s.data).1 s.inv).2⟩ : M2M α)
    = ⟨gf (deref h s.data), gg (deref h s.inv)⟩
  rw [e2, sa n1 r1, sb n2 r2', e1]

theorem getSet_abs (h : Heap α) (s : HInst α) (k : α) : s.getSet h k = getSet k (s.abs h).data := by
  show _ = getSet k (deref h s.data)
  rw [getSet_deref]; rfl

theorem hasKey_abs (h : Heap α) (s : HInst α) (k : α) : hasKey k (s.abs h).data = hasKey k s.data :=
  hasKey_deref h k s.data

theorem add_foot (k v : α) (h : Heap α) (s : HInst α) : IFootAt (HInst.add k v) h s :=
  onBoth_foot (hAddTo_foot k v _ _) (hAddTo_foot v k _ _)

theorem add_sim (k v : α) (h : Heap α) (s : HInst α) : ISimAt (HInst.add k v) (fun m => m.add k v) h s :=
  onBoth_sim (hAddTo_foot k v _ _) (hAddTo_foot v k _ _) (hAddTo_sim k v _ _) (hAddTo_sim v k _ _)

theorem removeRaw_foot (k v : α) (h : Heap α) (s : HInst α) : IFootAt (HInst.removeRaw k v) h s :=
  onBoth_foot (hRemoveFrom_foot k v _ _) (hRemoveFrom_foot v k _ _)

theorem removeRaw_sim (k v : α) (h : Heap α) (s : HInst α) :
    ISimAt (HInst.removeRaw k v) (fun m => m.removeRaw k v) h s :=
  onBoth_sim (hRemoveFrom_foot k v _ _) (hRemoveFrom_foot v k _ _) (hRemoveFrom_sim k v _ _) (hRemoveFrom_sim v k _ _)

theorem setitem_foot (k : α) (vals : List α) (h : Heap α) (s : HInst α) : IFootAt (HInst.setitem k vals) h s := by
  by_cases hk : hasKey k s.data = true
  · refine FootAt.of_eq (f' := sSeq
      (sFold (fun v => HInst.removeRaw k v) ((s.getSet h k).filter (fun v => !(toSet vals).contains v)))
      (sFold (fun v => HInst.add k v) ((toSet vals).filter (fun v => !(s.getSet h k).contains v)))) ?_ ?_
    · simp [HInst.setitem, hk, sSeq]
    · exact FootAt.seq (sFold_foot _ (fun b h x => removeRaw_foot k b h x) _ _ _)
        (sFold_foot _ (fun b h x => add_foot k b h x) _ _ _)
  · refine FootAt.of_eq (f' := sFold (fun v => HInst.add k v) (toSet vals)) ?_
      (sFold_foot _ (fun b h x => add_foot k b h x) _ _ _)
    simp [HInst.setitem, hk]

theorem setitem_sim (k : α) (vals : List α) (h : Heap α) (s : HInst α) :
    ISimAt (HInst.setitem k vals) (fun m => m.setitem k vals) h s := by
  by_cases hk : hasKey k s.data = true
  · refine SimAt.of_eq (f' := sSeq
      (sFold (fun v => HInst.removeRaw k v) ((s.getSet h k).filter (fun v => !(toSet vals).contains v)))
      (sFold (fun v => HInst.add k v) ((toSet vals).filter (fun v => !(s.getSet h k).contains v))))
      (g' := fun (D : M2M α) => ((toSet vals).filter (fun v => !(s.getSet h k).contains v)).foldl (fun (D : M2M α) v => D.add k v)
        (((s.getSet h k).filter (fun v => !(toSet vals).contains v)).foldl (fun (D : M2M α) v => D.removeRaw k v) D)) ?_ ?_ ?_
    · simp [HInst.setitem, hk, sSeq]
    · simp only [M2M.setitem, hasKey_abs, hk, if_true, getSet_abs]
    · exact SimAt.seq (sFold_foot _ (fun b h x => removeRaw_foot k b h x) _ _ _)
        (sFold_sim _ (fun v (D : M2M α) => D.removeRaw k v) (fun b h x => removeRaw_foot k b h x)
          (fun b h x => removeRaw_sim k b h x) _ _ _)
        (sFold_sim _ (fun v (D : M2M α) => D.add k v) (fun b h x => add_foot k b h x) (fun b h x => add_sim k b h x) _ _ _)
  · refine SimAt.of_eq (f' := sFold (fun v => HInst.add k v) (toSet vals))
      (g' := fun (D : M2M α) => (toSet vals).foldl (fun (D : M2M α) v => D.add k v) D) ?_ ?_
      (sFold_sim _ (fun v (D : M2M α) => D.add k v) (fun b h x => add_foot k b h x) (fun b h x => add_sim k b h x) _ _ _)
    · simp [HInst.setitem, hk]
    · simp only [M2M.setitem, hasKey_abs, hk]; rfl

theorem delitemBody_foot (k : α) (l : List α) (h : Heap α) (s : HInst α) :
    IFootAt (onBoth (hErase k) (sFold (fun v => hRemoveFrom v k) l)) h s :=
  onBoth_foot (hErase_foot k _ _) (sFold_foot _ (fun b h x => hRemoveFrom_foot b k h x) _ _ _)

theorem delitemBody_sim (k : α) (l : List α) (h : Heap α) (s : HInst α) :
    ISimAt (onBoth (hErase k) (sFold (fun v => hRemoveFrom v k) l))
      (fun m => ⟨erase k m.data, l.foldl (fun i v => removeFrom v k i) m.inv⟩) h s :=
  onBoth_sim (hErase_foot k _ _) (sFold_foot _ (fun b h x => hRemoveFrom_foot b k h x) _ _ _) (hErase_sim k _ _)
    (sFold_sim _ (fun v D => removeFrom v k D) (fun b h x => hRemoveFrom_foot b k h x)
      (fun b h x => hRemoveFrom_sim b k h x) _ _ _)

theorem updatePairs_foot (ps : List (α × α)) (h : Heap α) (s : HInst α) : IFootAt (HInst.updatePairs ps) h s :=
  sFold_foot _ (fun b h x => add_foot b.1 b.2 h x) _ _ _

theorem updatePairs_sim (ps : List (α × α)) (h : Heap α) (s : HInst α) :
    ISimAt (HInst.updatePairs ps) (fun m => m.updatePairs ps) h s :=
  sFold_sim _ (fun (p : α × α) (D : M2M α) => D.add p.1 p.2) (fun b h x => add_foot b.1 b.2 h x)
    (fun b h x => add_sim b.1 b.2 h x) _ _ _

theorem replaceBody_foot (k nk : α) (l : List α) (h : Heap α) (s : HInst α) :
    IFootAt (onBoth (fun h' d => hMergeKey nk l h' (erase k d)) (sFold (fun v => hRenameIn v k nk) l)) h s :=
  onBoth_foot (FootAt.of_eq (f' := sSeq (hErase k) (hMergeKey nk l)) rfl
      (FootAt.seq (hErase_foot k _ _) (hMergeKey_foot nk l _ _)))
    (sFold_foot _ (fun b h x => hRenameIn_foot b k nk h x) _ _ _)

theorem replaceBody_sim (k nk : α) (l : List α) (h : Heap α) (s : HInst α) :
    ISimAt (onBoth (fun h' d => hMergeKey nk l h' (erase k d)) (sFold (fun v => hRenameIn v k nk) l))
      (fun m => ⟨mergeKey nk l (erase k m.data), l.foldl (fun i v => renameIn v k nk i) m.inv⟩) h s := by
  have a : DFootAt (fun h' d => hMergeKey nk l h' (erase k d)) h s.data :=
    FootAt.of_eq (f' := sSeq (hErase k) (hMergeKey nk l)) rfl
      (FootAt.seq (hErase_foot k _ _) (hMergeKey_foot nk l _ _))
  have sa : DSimAt (fun h' d => hMergeKey nk l h' (erase k d)) (fun D => mergeKey nk l (erase k D)) h s.data :=
    SimAt.of_eq (f' := sSeq (hErase k) (hMergeKey nk l)) (g' := fun D => mergeKey nk l (erase k D)) rfl rfl
      (SimAt.seq (hErase_foot k _ _) (hErase_sim k _ _) (hMergeKey_sim nk l _ _))
  exact onBoth_sim (gf := fun D => mergeKey nk l (erase k D))
    (gg := fun D => l.foldl (fun i v => renameIn v k nk i) D) a
    (sFold_foot _ (fun b h x => hRenameIn_foot b k nk h x) _ _ _) sa
    (sFold_sim _ (fun v D => renameIn v k nk D) (fun b h x => hRenameIn_foot b k nk h x)
      (fun b h x => hRenameIn_sim b k nk h x) _ _ _)


/-! ### every public mutator, through either side -/

theorem step_foot (op : M2MOp α) (h : Heap α) (s : HInst α) : IFootAt (fun h s => (s.step h op).1) h s := by
  cases op with
  | add k v => exact add_foot k v h s
  | remove k v =>
    by_cases hv : v ∈ s.getSet h k
    · exact FootAt.of_eq (f' := HInst.removeRaw k v) (by simp [HInst.step, HInst.remove, hv]) (removeRaw_foot k v h s)
    · exact FootAt.of_eq (f' := fun _ _ => (h, s)) (by simp [HInst.step, HInst.remove, hv]) (foot_id h s)
  | setitem k vals => exact setitem_foot k vals h s
  | delitem k =>
    by_cases hk : hasKey k s.data = true
    · exact FootAt.of_eq (f' := onBoth (hErase k) (sFold (fun v => hRemoveFrom v k) (s.getSet h k)))
        (by simp [HInst.step, HInst.delitem, hk]) (delitemBody_foot k _ h s)
    · exact FootAt.of_eq (f' := fun _ _ => (h, s)) (by simp [HInst.step, HInst.delitem, hk]) (foot_id h s)
  | update ps => exact updatePairs_foot ps h s
  | replace k nk =>
    by_cases hk : hasKey k s.data = true
    · exact FootAt.of_eq (f' := onBoth (fun h' d => hMergeKey nk (s.getSet h k) h' (erase k d))
          (sFold (fun v => hRenameIn v k nk) (s.getSet h k)))
        (by simp [HInst.step, HInst.replace, hk]) (replaceBody_foot k nk _ h s)
    · exact FootAt.of_eq (f' := fun _ _ => (h, s)) (by simp [HInst.step, HInst.replace, hk]) (foot_id h s)

/-- by value, a mutator of the heap-level instance does what the by-value model does, and returns the same -/
theorem step_sim (op : M2MOp α) (h : Heap α) (s : HInst α) (hn : (idsI s).Nodup) (hr : ∀ j ∈ idsI s, j < h.length) :
    (s.step h op).1.2.abs (s.step h op).1.1 = ((s.abs h).step op).1 ∧ (s.step h op).2 = ((s.abs h).step op).2 := by
  cases op with
  | add k v => exact ⟨add_sim k v h s hn hr, rfl⟩
  | remove k v =>
    simp only [HInst.step, HInst.remove, M2M.step, M2M.remove, getSet_abs]
    split
    · exact ⟨removeRaw_sim k v h s hn hr, rfl⟩
    · exact ⟨rfl, rfl⟩
  | setitem k vals => exact ⟨setitem_sim k vals h s hn hr, rfl⟩
  | delitem k =>
    simp only [HInst.step, HInst.delitem, M2M.step, M2M.delitem, hasKey_abs]
    split
    · refine ⟨?_, rfl⟩
      have := delitemBody_sim k (s.getSet h k) h s hn hr
      rw [getSet_abs] at this ⊢
      exact this
    · exact ⟨rfl, rfl⟩
  | update ps => exact ⟨updatePairs_sim ps h s hn hr, rfl⟩
  | replace k nk =>
    refine ⟨?_, rfl⟩
    simp only [HInst.step, HInst.replace, M2M.step, M2M.replace, hasKey_abs]
    split
    · have := replaceBody_sim k nk (s.getSet h k) h s hn hr
      rw [getSet_abs] at this ⊢
      exact this
    · rfl

theorem mem_idsI_side (s : HInst α) (b : Bool) (j : Nat) : j ∈ idsI (s.side b) ↔ j ∈ idsI s := by
  cases b
  · rfl
  · simp only [HInst.side, HInst.flip, if_true, mem_idsI]; exact Or.comm

theorem nodup_idsI_side (s : HInst α) (b : Bool) : (idsI (s.side b)).Nodup ↔ (idsI s).Nodup := by
  cases b
  · rfl
  · simp only [HInst.side, HInst.flip, if_true, idsI]
    exact List.perm_append_comm.nodup_iff

theorem side_side (s : HInst α) (b : Bool) : (s.side b).side b = s := by
  cases b <;> rfl

theorem abs_side (h : Heap α) (s : HInst α) (b : Bool) : (s.side b).abs h = (s.abs h).side b := by
  cases b <;> rfl

theorem m2m_side_side (m : M2M α) (b : Bool) : (m.side b).side b = m := by
  cases b <;> rfl

theorem sided_foot (b : Bool) {F : Step α (HInst α)} {h : Heap α} {s : HInst α} (ft : IFootAt F h (s.side b)) :
    IFootAt (sided b F) h s := by
  refine ⟨ft.len, ?_, ?_, ?_⟩
  · intro j hj hn
    exact ft.frame j hj (fun hm => hn ((mem_idsI_side s b j).1 hm))
  · intro j hj
    have := ft.ids_sub j ((mem_idsI_side _ b j).1 hj)
    rwa [mem_idsI_side] at this
  · intro hn hr
    show (idsI ((F h (s.side b)).2.side b)).Nodup
    rw [nodup_idsI_side]
    exact ft.nodup ((nodup_idsI_side s b).2 hn) (fun j hj => hr j ((mem_idsI_side s b j).1 hj))

theorem sided_sim (b : Bool) {F : Step α (HInst α)} {G : M2M α → M2M α} {h : Heap α} {s : HInst α}
    (sm : ISimAt F G h (s.side b)) : ISimAt (sided b F) (fun m => (G (m.side b)).side b) h s := by
  intro hn hr
  show ((F h (s.side b)).2.side b).abs (F h (s.side b)).1 = (G ((s.abs h).side b)).side b
  rw [abs_side, sm ((nodup_idsI_side s b).2 hn) (fun j hj => hr j ((mem_idsI_side s b j).1 hj)), abs_side]

/-! ## the register file -/

/-- SEPARATION: every set object is referenced from exactly one place - one key of one side of one
    instance - and every reference points into the heap -/
structure HSep (st : HState α) : Prop where
  good : ∀ (r : Nat) (s : HInst α), st.regs[r]? = some s → (idsI s).Nodup ∧ ∀ j ∈ idsI s, j < st.heap.length
  disj : ∀ (r₁ r₂ : Nat) (s₁ s₂ : HInst α), r₁ ≠ r₂ → st.regs[r₁]? = some s₁ → st.regs[r₂]? = some s₂ →
    ∀ j ∈ idsI s₁, j ∉ idsI s₂

theorem HSep.empty : HSep (HState.empty : HState α) :=
  ⟨fun r s h => by simp [HState.empty] at h, fun r₁ r₂ s₁ s₂ _ h => by simp [HState.empty] at h⟩

theorem getElem?_push (st : HState α) (r : Nat) (s : HInst α) (h : st.push.regs[r]? = some s) :
    st.regs[r]? = some s ∨ (r = st.regs.length ∧ s = HInst.empty) := by
  simp only [HState.push] at h
  by_cases hr : r < st.regs.length
  · rw [List.getElem?_append_left hr] at h; exact Or.inl h
  · rw [List.getElem?_append_right (Nat.le_of_not_lt hr)] at h
    right
    have : r - st.regs.length = 0 := by
      cases hk : r - st.regs.length with
      | zero => rfl
      | succ n => rw [hk] at h; simp at h
    have hr' : r = st.regs.length := by omega
    rw [this] at h
    simp at h
    exact ⟨hr', h.symm⟩

theorem HSep.push {st : HState α} (hs : HSep st) : HSep st.push := by
  constructor
  · intro r s h
    rcases getElem?_push st r s h with h1 | ⟨_, h1⟩
    · exact hs.good r s h1
    · subst h1; simp [HInst.empty, idsI, ids]
  · intro r₁ r₂ s₁ s₂ hne h₁ h₂ j hj
    rcases getElem?_push st r₁ s₁ h₁ with h1 | ⟨_, h1⟩
    · rcases getElem?_push st r₂ s₂ h₂ with h2 | ⟨_, h2⟩
      · exact hs.disj r₁ r₂ s₁ s₂ hne h1 h2 j hj
      · subst h2; simp [HInst.empty, idsI, ids]
    · subst h1; simp [HInst.empty, idsI, ids] at hj

theorem getElem?_set_cases {β : Type} (l : List β) (r r' : Nat) (x y : β) (h : (l.set r x)[r']? = some y) :
    (r' = r ∧ y = x ∧ r < l.length) ∨ (r' ≠ r ∧ l[r']? = some y) := by
  rw [List.getElem?_set] at h
  by_cases e : r = r'
  · subst e
    simp only [if_true] at h
    by_cases hl : r < l.length
    · simp only [hl, if_true] at h
      injection h with h
      exact Or.inl ⟨rfl, h.symm, hl⟩
    · simp [hl] at h
  · simp only [e, if_false] at h
    exact Or.inr ⟨fun e' => e e'.symm, h⟩

/-- a step on register `r` with a known footprint keeps the separation, and leaves every other register - its
    references AND the set objects they point to - exactly as they were -/
theorem stepAt_sep {st st' : HState α} (hs : HSep st) (r : Nat) (F : Step α (HInst α))
    (hF : ∀ s, st.regs[r]? = some s → IFootAt F st.heap s) (h : st.stepAt r F = some st') :
    HSep st' ∧ st.heap.length ≤ st'.heap.length ∧ st'.regs.length = st.regs.length ∧
    (∀ r' s', r' ≠ r → st.regs[r']? = some s' →
      st'.regs[r']? = some s' ∧ ∀ j ∈ idsI s', cell st'.heap j = cell st.heap j) := by
  unfold HState.stepAt at h
  cases hr : st.regs[r]? with
  | none => rw [hr] at h; simp at h
  | some s =>
    rw [hr] at h
    simp only [Option.map_some, Option.some.injEq] at h
    subst h
    have ft := hF s hr
    obtain ⟨gn, gr⟩ := hs.good r s hr
    have frame_other : ∀ r' s', r' ≠ r → st.regs[r']? = some s' → ∀ j ∈ idsI s', cell (F st.heap s).1 j = cell st.heap j := by
      intro r' s' hne h' j hj
      exact ft.frame j ((hs.good r' s' h').2 j hj) (fun hm => hs.disj r' r s' s hne h' hr j hj hm)
    refine ⟨⟨?_, ?_⟩, ft.len, by simp, ?_⟩
    · intro r' s' h'
      rcases getElem?_set_cases _ _ _ _ _ h' with ⟨_, e, _⟩ | ⟨hne, h1⟩
      · subst e
        exact ⟨ft.nodup gn gr, ft.inRange gr⟩
      · obtain ⟨a, b⟩ := hs.good r' s' h1
        exact ⟨a, fun j hj => Nat.lt_of_lt_of_le (b j hj) ft.len⟩
    · intro r₁ r₂ s₁ s₂ hne h₁ h₂ j hj hm
      rcases getElem?_set_cases _ _ _ _ _ h₁ with ⟨e1, e1', _⟩ | ⟨n1, h1⟩ <;>
        rcases getElem?_set_cases _ _ _ _ _ h₂ with ⟨e2, e2', _⟩ | ⟨n2, h2⟩
      · exact hne (e1.trans e2.symm)
      · subst e1'
        rcases ft.ids_sub j hj with h3 | h3
        · exact hs.disj r r₂ s s₂ (fun e => n2 e.symm) hr h2 j h3 hm
        · have := (hs.good r₂ s₂ h2).2 j hm; omega
      · subst e2'
        rcases ft.ids_sub j hm with h3 | h3
        · exact hs.disj r₁ r s₁ s n1 h1 hr j hj h3
        · have := (hs.good r₁ s₁ h1).2 j hj; omega
      · exact hs.disj r₁ r₂ s₁ s₂ hne h1 h2 j hj hm
    · intro r' s' hne h'
      refine ⟨?_, frame_other r' s' hne h'⟩
      show (st.regs.set r (F st.heap s).2)[r']? = some s'
      rw [List.getElem?_set, if_neg (fun e : r = r' => hne e.symm)]
      exact h'


theorem dId_foot : DFoot (dId : Step α (Dict α Nat)) := by
  intro h d
  exact FootAt.of_eq (f' := fun _ _ => (h, d)) rfl (foot_id h d)

theorem mergeData_foot (od : Dict α Nat) (b : Bool) (h : Heap α) (s : HInst α) :
    IFootAt (sided b (onBoth (hMergeAll od) dId)) h s :=
  sided_foot b (onBoth_foot (hMergeAll_foot od _ _) (dId_foot _ _))

theorem mergeInv_foot (od : Dict α Nat) (b : Bool) (h : Heap α) (s : HInst α) :
    IFootAt (sided b (onBoth dId (hMergeAll od))) h s :=
  sided_foot b (onBoth_foot (dId_foot _ _) (hMergeAll_foot od _ _))

/-- what a command leaves alone: `Frame st st' r` = every register other than `r` still holds the same
    references, and the set objects they point to are untouched -/
def Frame (st st' : HState α) (r : Nat) : Prop :=
  ∀ (r' : Nat) (s' : HInst α), r' ≠ r → st.regs[r']? = some s' →
    st'.regs[r']? = some s' ∧ ∀ j ∈ idsI s', cell st'.heap j = cell st.heap j

theorem Frame.trans {st st₁ st₂ : HState α} {r : Nat} (a : Frame st st₁ r) (b : Frame st₁ st₂ r) : Frame st st₂ r := by
  intro r' s' hne h
  obtain ⟨h1, c1⟩ := a r' s' hne h
  obtain ⟨h2, c2⟩ := b r' s' hne h1
  exact ⟨h2, fun j hj => (c2 j hj).trans (c1 j hj)⟩

/-- `x.update(other)` - also for `other` being `x` or `x.inv` - keeps the separation and touches register `r` only -/
theorem hUpdateFrom_sep {st st' : HState α} (hs : HSep st) (r : Nat) (side : Bool) (r2 : Nat) (side2 : Bool)
    (h : hUpdateFrom st r side r2 side2 = some st') :
    HSep st' ∧ st.heap.length ≤ st'.heap.length ∧ st'.regs.length = st.regs.length ∧ Frame st st' r := by
  unfold hUpdateFrom at h
  cases ho : st.regs[r2]? with
  | none => rw [ho] at h; simp at h
  | some o =>
    rw [ho] at h
    simp only [Option.bind_some] at h
    cases h1 : st.stepAt r (sided side (onBoth (hMergeAll (o.side side2).data) dId)) with
    | none => rw [h1] at h; simp at h
    | some st1 =>
      rw [h1] at h
      simp only [Option.bind_some] at h
      obtain ⟨s1, l1, n1, f1⟩ := stepAt_sep hs r _ (fun s _ => mergeData_foot _ side st.heap s) h1
      cases ho1 : st1.regs[r2]? with
      | none => rw [ho1] at h; simp at h
      | some o1 =>
        rw [ho1] at h
        simp only [Option.bind_some] at h
        obtain ⟨s2, l2, n2, f2⟩ := stepAt_sep s1 r _ (fun s _ => mergeInv_foot _ side st1.heap s) h
        exact ⟨s2, Nat.le_trans l1 l2, n2.trans n1, Frame.trans f1 f2⟩

/-- the register a command writes to (a constructor writes to the new register) -/
def M2MCmd.target (n : Nat) : M2MCmd α → Nat
  | .new _ => n
  | .newFrom _ _ => n
  | .op r _ _ => r
  | .updateFrom r _ _ _ => r

theorem Frame.of_push {st st' : HState α} {r : Nat} (f : Frame st.push st' r) : Frame st st' r := by
  intro r' s' hne h
  apply f r' s' hne
  simp only [HState.push]
  have : r' < st.regs.length := by
    rcases Nat.lt_or_ge r' st.regs.length with h1 | h1
    · exact h1
    · rw [List.getElem?_eq_none h1] at h; simp at h
  rw [List.getElem?_append_left this]; exact h

/-- every command keeps the separation and touches its target register only -/
theorem hm2mCmd_sep {st st' : HState α} {c : M2MCmd α} {ret : Ret α} (hs : HSep st)
    (h : hm2mCmd st c = some (st', ret)) :
    HSep st' ∧ st.heap.length ≤ st'.heap.length ∧ Frame st st' (c.target st.regs.length) := by
  cases c with
  | new ps =>
    simp only [hm2mCmd, Option.map_eq_some_iff, Prod.mk.injEq] at h
    obtain ⟨st1, h1, e, _⟩ := h
    subst e
    obtain ⟨a, b, _, d⟩ := stepAt_sep hs.push st.regs.length _ (fun s _ => updatePairs_foot ps _ s) h1
    exact ⟨a, b, Frame.of_push d⟩
  | newFrom r side =>
    simp only [hm2mCmd] at h
    split at h
    · simp only [Option.map_eq_some_iff, Prod.mk.injEq] at h
      obtain ⟨st1, h1, e, _⟩ := h
      subst e
      obtain ⟨a, b, _, d⟩ := hUpdateFrom_sep hs.push _ _ _ _ h1
      exact ⟨a, b, Frame.of_push d⟩
    · simp at h
  | op r side op =>
    simp only [hm2mCmd] at h
    cases hr : st.regs[r]? with
    | none => rw [hr] at h; simp at h
    | some s =>
      rw [hr] at h
      simp only [Option.bind_some, Option.map_eq_some_iff, Prod.mk.injEq] at h
      obtain ⟨st1, h1, e, _⟩ := h
      subst e
      obtain ⟨a, b, _, d⟩ := stepAt_sep hs r _ (fun s _ => sided_foot side (step_foot op st.heap (s.side side))) h1
      exact ⟨a, b, d⟩
  | updateFrom r side r2 side2 =>
    simp only [hm2mCmd, Option.map_eq_some_iff, Prod.mk.injEq] at h
    obtain ⟨st1, h1, e, _⟩ := h
    subst e
    obtain ⟨a, b, _, d⟩ := hUpdateFrom_sep hs _ _ _ _ h1
    exact ⟨a, b, d⟩

theorem hm2mRun_sep {st st' : HState α} (cs : List (M2MCmd α)) (hs : HSep st) (h : hm2mRun st cs = some st') :
    HSep st' := by
  induction cs generalizing st with
  | nil => simp only [hm2mRun, Option.some.injEq] at h; exact h ▸ hs
  | cons c cs ih =>
    simp only [hm2mRun] at h
    cases hc : hm2mCmd st c with
    | none => rw [hc] at h; simp at h
    | some p =>
      obtain ⟨st1, ret⟩ := p
      rw [hc] at h
      exact ih (hm2mCmd_sep hs hc).1 h

theorem abs_congr (h h' : Heap α) (s : HInst α) (hc : ∀ j ∈ idsI s, cell h' j = cell h j) : s.abs h' = s.abs h := by
  show (⟨deref h' s.data, deref h' s.inv⟩ : M2M α) = ⟨deref h s.data, deref h s.inv⟩
  rw [deref_congr h h' s.data (fun j hj => hc j ((mem_idsI s j).2 (Or.inl hj))),
    deref_congr h h' s.inv (fun j hj => hc j ((mem_idsI s j).2 (Or.inr hj)))]


/-! ## the heap-level machine simulates the by-value machine -/

theorem abs_getElem? (st : HState α) (r : Nat) : st.abs[r]? = (st.regs[r]?).map (HInst.abs st.heap) := by
  simp [HState.abs]

/-- a step on register `r` that is `G` by value: the by-value register file changes at `r` only, to `G` of what was there -/
theorem stepAt_abs {st st' : HState α} (hs : HSep st) (r : Nat) (F : Step α (HInst α)) (G : M2M α → M2M α)
    (hF : ∀ s, st.regs[r]? = some s → IFootAt F st.heap s) (hG : ∀ s, st.regs[r]? = some s → ISimAt F G st.heap s)
    (h : st.stepAt r F = some st') :
    ∃ s, st.regs[r]? = some s ∧ st'.regs[r]? = some (F st.heap s).2 ∧ st'.heap = (F st.heap s).1 ∧
      st'.abs = st.abs.set r (G (s.abs st.heap)) := by
  obtain ⟨_, _, _, fr⟩ := stepAt_sep hs r F hF h
  unfold HState.stepAt at h
  cases hr : st.regs[r]? with
  | none => rw [hr] at h; simp at h
  | some s =>
    rw [hr] at h
    simp only [Option.map_some, Option.some.injEq] at h
    have hlt : r < st.regs.length := by
      rcases Nat.lt_or_ge r st.regs.length with h1 | h1
      · exact h1
      · rw [List.getElem?_eq_none h1] at hr; simp at hr
    obtain ⟨gn, gr⟩ := hs.good r s hr
    have hsim := hG s hr gn gr
    refine ⟨s, rfl, ?_, ?_, ?_⟩
    · subst h; simp [hlt]
    · subst h; rfl
    · apply List.ext_getElem?
      intro i
      rw [abs_getElem?, List.getElem?_set, abs_getElem?]
      by_cases e : r = i
      · subst e
        have : st'.regs[r]? = some (F st.heap s).2 := by subst h; simp [hlt]
        rw [this]
        simp only [if_true, List.length_map, HState.abs, hlt, Option.map_some]
        subst h
        exact congrArg some hsim
      · simp only [e, if_false]
        cases hi : st.regs[i]? with
        | none =>
          have : st'.regs[i]? = none := by
            subst h
            show (st.regs.set r (F st.heap s).2)[i]? = none
            rw [List.getElem?_set, if_neg e]; exact hi
          rw [this]; rfl
        | some s' =>
          obtain ⟨h1, c1⟩ := fr i s' (fun e' => e e'.symm) hi
          rw [h1]
          simp only [Option.map_some]
          exact congrArg some (abs_congr _ _ _ c1)

theorem stepSide_eq (m : M2M α) (b : Bool) (op : M2MOp α) :
    (m.stepSide b op).1 = ((m.side b).step op).1.side b ∧ (m.stepSide b op).2 = ((m.side b).step op).2 := by
  cases b <;> exact ⟨rfl, rfl⟩

theorem set_append_length {β : Type} (l : List β) (a b : β) : (l ++ [a]).set l.length b = l ++ [b] := by
  induction l with
  | nil => rfl
  | cons x l ih => simp only [List.cons_append, List.length_cons, List.set_cons_succ, ih]

theorem push_abs (st : HState α) : st.push.abs = st.abs ++ [M2M.empty] := by
  simp [HState.push, HState.abs, HInst.abs, HInst.empty, M2M.empty, deref]

/-- `x.update(other)` for ANOTHER instance (either side of it): by value exactly `M2M.updateFrom` -/
theorem hUpdateFrom_abs {st st' : HState α} (hs : HSep st) (r : Nat) (side : Bool) (r2 : Nat) (side2 : Bool)
    (hne : r ≠ r2) (h : hUpdateFrom st r side r2 side2 = some st') :
    ∃ s o, st.regs[r]? = some s ∧ st.regs[r2]? = some o ∧
      st'.abs = st.abs.set r ((((s.abs st.heap).side side).updateFrom ((o.abs st.heap).side side2)).side side) := by
  unfold hUpdateFrom at h
  cases ho : st.regs[r2]? with
  | none => rw [ho] at h; simp at h
  | some o =>
    rw [ho] at h
    simp only [Option.bind_some] at h
    cases h1 : st.stepAt r (sided side (onBoth (hMergeAll (o.side side2).data) dId)) with
    | none => rw [h1] at h; simp at h
    | some st1 =>
      rw [h1] at h
      simp only [Option.bind_some] at h
      obtain ⟨sep1, len1, _, fr1⟩ := stepAt_sep hs r _ (fun s _ => mergeData_foot _ side st.heap s) h1
      obtain ⟨ho1, co1⟩ := fr1 r2 o (fun e => hne e.symm) ho
      rw [ho1] at h
      simp only [Option.bind_some] at h
      -- the other instance's references: in range, and none of them is one of the target's
      have orange : ∀ j ∈ idsI o, j < st.heap.length := (hs.good r2 o ho).2
      -- step 1 by value
      have sim1 : ∀ s, st.regs[r]? = some s → ISimAt (sided side (onBoth (hMergeAll (o.side side2).data) dId))
          (fun m => (⟨(deref st.heap (o.side side2).data).foldl (fun D p => mergeKey p.1 p.2 D) (m.side side).data,
            (m.side side).inv⟩ : M2M α).side side) st.heap s := by
        intro s hsr
        refine sided_sim side (G := fun m => (⟨(deref st.heap (o.side side2).data).foldl
          (fun D p => mergeKey p.1 p.2 D) m.data, m.inv⟩ : M2M α)) ?_
        refine onBoth_sim (gf := fun D => (deref st.heap (o.side side2).data).foldl (fun D p => mergeKey p.1 p.2 D) D)
          (gg := fun D => D) (hMergeAll_foot _ _ _) (dId_foot _ _) ?_ ?_
        · intro hn hr
          apply hMergeAll_sim _ _ _ hn hr
          · intro j hj
            exact orange j ((mem_idsI_side o side2 j).1 ((mem_idsI _ j).2 (Or.inl hj)))
          · intro j hj hm
            exact hs.disj r2 r o s (fun e => hne e.symm) ho hsr j
              ((mem_idsI_side o side2 j).1 ((mem_idsI _ j).2 (Or.inl hj)))
              ((mem_idsI_side s side j).1 ((mem_idsI _ j).2 (Or.inl hm)))
        · intro _ _; rfl
      obtain ⟨s, hsr, hs1r, hh1, habs1⟩ := stepAt_abs hs r _ _ (fun s _ => mergeData_foot _ side st.heap s) sim1 h1
      -- step 2 by value
      have sim2 : ∀ s1, st1.regs[r]? = some s1 → ISimAt (sided side (onBoth dId (hMergeAll (o.side side2).inv)))
          (fun m => (⟨(m.side side).data,
            (deref st.heap (o.side side2).inv).foldl (fun D p => mergeKey p.1 p.2 D) (m.side side).inv⟩ : M2M α).side side)
          st1.heap s1 := by
        intro s1 hs1
        refine sided_sim side (G := fun m => (⟨m.data, (deref st.heap (o.side side2).inv).foldl
          (fun D p => mergeKey p.1 p.2 D) m.inv⟩ : M2M α)) ?_
        refine onBoth_sim (gf := fun D => D)
          (gg := fun D => (deref st.heap (o.side side2).inv).foldl (fun D p => mergeKey p.1 p.2 D) D)
          (dId_foot _ _) (hMergeAll_foot _ _ _) ?_ ?_
        · intro _ _; rfl
        · intro hn hr
          have hd : deref st1.heap (o.side side2).inv = deref st.heap (o.side side2).inv :=
            deref_congr _ _ _ (fun j hj => co1 j ((mem_idsI_side o side2 j).1 ((mem_idsI _ j).2 (Or.inr hj))))
          rw [← hd]
          apply hMergeAll_sim _ _ _ hn hr
          · intro j hj
            exact Nat.lt_of_lt_of_le (orange j ((mem_idsI_side o side2 j).1 ((mem_idsI _ j).2 (Or.inr hj)))) len1
          · intro j hj hm
            exact sep1.disj r2 r o s1 (fun e => hne e.symm) ho1 hs1 j
              ((mem_idsI_side o side2 j).1 ((mem_idsI _ j).2 (Or.inr hj)))
              ((mem_idsI_side s1 side j).1 ((mem_idsI _ j).2 (Or.inr hm)))
      obtain ⟨s1, hs1r', _, _, habs2⟩ := stepAt_abs sep1 r _ _ (fun s _ => mergeInv_foot _ side st1.heap s) sim2 h
      refine ⟨s, o, hsr, rfl, ?_⟩
      rw [habs2, habs1, List.set_set]
      congr 1
      -- what register r holds after step 1, by value
      have e1 : s1.abs st1.heap = (⟨(deref st.heap (o.side side2).data).foldl (fun D p => mergeKey p.1 p.2 D)
          ((s.abs st.heap).side side).data, ((s.abs st.heap).side side).inv⟩ : M2M α).side side := by
        have := congrArg (fun l => l[r]?) habs1
        simp only [abs_getElem?, hs1r', Option.map_some] at this
        rw [List.getElem?_set] at this
        have hlt : r < st.abs.length := by
          rcases Nat.lt_or_ge r st.regs.length with h3 | h3
          · simpa [HState.abs] using h3
          · rw [List.getElem?_eq_none h3] at hsr; simp at hsr
        simp only [if_true, hlt] at this
        injection this
      rw [e1, m2m_side_side]
      show _ = (M2M.updateFrom ((s.abs st.heap).side side) ((o.abs st.heap).side side2)).side side
      unfold M2M.updateFrom
      rw [← abs_side st.heap o side2]
      rfl


theorem getElem?_lt {β : Type} {l : List β} {r : Nat} {x : β} (h : l[r]? = some x) : r < l.length := by
  rcases Nat.lt_or_ge r l.length with h1 | h1
  · exact h1
  · rw [List.getElem?_eq_none h1] at h; simp at h

/-! ## an instance updated from itself (`x.update(x)`, `x.update(x.inv)`) -/

theorem unionSet_of_subset (a b : List α) (h : ∀ v ∈ b, v ∈ a) : unionSet a b = a := by
  unfold unionSet
  induction b generalizing a with
  | nil => rfl
  | cons v r ih =>
    simp only [List.foldl_cons]
    have hv : insertSet v a = a := by simp [insertSet, h v (by simp)]
    rw [hv]
    exact ih a (fun w hw => h w (List.mem_cons_of_mem _ hw))

/-- `for k in d: d[k].update(d[k])`: no reference changes, no set object changes -/
theorem hMergeAll_self (l : Dict α Nat) (h : Heap α) (d : Dict α Nat) (hl : ∀ e ∈ l, lookup e.1 d = some e.2) :
    (hMergeAll l h d).2 = d ∧ (hMergeAll l h d).1.length = h.length ∧ ∀ j, cell (hMergeAll l h d).1 j = cell h j := by
  induction l generalizing h with
  | nil => exact ⟨rfl, rfl, fun _ => rfl⟩
  | cons e r ih =>
    have hk := hl e (by simp)
    have e1 : hMergeAll (e :: r) h d = hMergeAll r (hMergeKey e.1 (cell h e.2) h d).1 (hMergeKey e.1 (cell h e.2) h d).2 := rfl
    have e2 : hMergeKey e.1 (cell h e.2) h d = (h.set e.2 (cell h e.2), d) := by
      simp [hMergeKey, hk, unionSet_of_subset _ _ (fun v hv => hv)]
    rw [e1, e2]
    obtain ⟨a, b, c⟩ := ih (h.set e.2 (cell h e.2)) (fun x hx => hl x (List.mem_cons_of_mem _ hx))
    refine ⟨a, by simpa using b, fun j => ?_⟩
    rw [c j, cell_set]
    split
    · next hj => rw [hj.1]
    · rfl

theorem self_lookup {β : Type} (d : Dict α β) (h : NodupKeys d) : ∀ e ∈ d, lookup e.1 d = some e.2 :=
  fun e he => (mem_iff_lookup d h e.1 e.2).1 he

theorem set_same {β : Type} {l : List β} {r : Nat} {x : β} (h : l[r]? = some x) : l.set r x = l := by
  induction l generalizing r with
  | nil => rfl
  | cons y l ih =>
    cases r with
    | zero => simp at h; simp [h]
    | succ n => simp at h; simp [ih h]

theorem side_not_data (s : HInst α) (b : Bool) : (s.side (!b)).data = (s.side b).inv := by cases b <;> rfl
theorem side_not_inv (s : HInst α) (b : Bool) : (s.side (!b)).inv = (s.side b).data := by cases b <;> rfl

theorem nodupKeys_of_deref {h : Heap α} {d : Dict α Nat} (g : NodupKeys (deref h d)) : NodupKeys d := by
  unfold NodupKeys at *; rwa [keys_deref] at g

/-- `x.update(x)` (same side): nothing changes, neither a reference nor a set object -/
theorem hUpdateFrom_self_same {st st' : HState α} (r : Nat) (side : Bool) (s : HInst α) (hsr : st.regs[r]? = some s)
    (hw : (s.abs st.heap).WF) (h : hUpdateFrom st r side r side = some st') :
    st'.regs = st.regs ∧ st'.heap.length = st.heap.length ∧ ∀ j, cell st'.heap j = cell st.heap j := by
  have kd : NodupKeys (s.side side).data := by
    cases side
    · exact nodupKeys_of_deref hw.gd.nk
    · exact nodupKeys_of_deref hw.gi.nk
  have ki : NodupKeys (s.side side).inv := by
    cases side
    · exact nodupKeys_of_deref hw.gi.nk
    · exact nodupKeys_of_deref hw.gd.nk
  unfold hUpdateFrom at h
  rw [hsr] at h
  simp only [Option.bind_some] at h
  obtain ⟨a1, b1, c1⟩ := hMergeAll_self (s.side side).data st.heap (s.side side).data (self_lookup _ kd)
  have f1 : sided side (onBoth (hMergeAll (s.side side).data) dId) st.heap s
      = ((hMergeAll (s.side side).data st.heap (s.side side).data).1, s) := by
    simp only [sided, onBoth, dId, a1]
    rw [show (⟨(s.side side).data, (s.side side).inv⟩ : HInst α) = s.side side from rfl, side_side]
  have h1 : st.stepAt r (sided side (onBoth (hMergeAll (s.side side).data) dId))
      = some ⟨(hMergeAll (s.side side).data st.heap (s.side side).data).1, st.regs⟩ := by
    simp only [HState.stepAt, hsr, Option.map_some, f1, set_same hsr]
  rw [h1] at h
  simp only [Option.bind_some, hsr] at h
  obtain ⟨a2, b2, c2⟩ := hMergeAll_self (s.side side).inv (hMergeAll (s.side side).data st.heap (s.side side).data).1
    (s.side side).inv (self_lookup _ ki)
  have f2 : sided side (onBoth dId (hMergeAll (s.side side).inv)) (hMergeAll (s.side side).data st.heap (s.side side).data).1 s
      = ((hMergeAll (s.side side).inv (hMergeAll (s.side side).data st.heap (s.side side).data).1 (s.side side).inv).1, s) := by
    simp only [sided, onBoth, dId, a2]
    rw [show (⟨(s.side side).data, (s.side side).inv⟩ : HInst α) = s.side side from rfl, side_side]
  simp only [HState.stepAt, hsr, Option.map_some, f2, set_same hsr, Option.some.injEq] at h
  subst h
  exact ⟨rfl, by simp only; rw [b2, b1], fun j => by simp only; rw [c2 j, c1 j]⟩

/-- `x.update(x.inv)` (and `x.inv.update(x)`): by value, register `r` becomes `selfMerge` of what it held -/
theorem hUpdateFrom_self_opp {st st' : HState α} (hs : HSep st) (r : Nat) (side : Bool)
    (h : hUpdateFrom st r side r (!side) = some st') :
    ∃ s, st.regs[r]? = some s ∧ st'.abs = st.abs.set r ((selfMerge ((s.abs st.heap).side side)).side side) := by
  unfold hUpdateFrom at h
  cases ho : st.regs[r]? with
  | none => rw [ho] at h; simp at h
  | some s =>
    rw [ho] at h
    simp only [Option.bind_some, side_not_data] at h
    obtain ⟨gn, gr⟩ := hs.good r s ho
    have gn' := (nodup_idsI_side s side).2 gn
    have gr' : ∀ j ∈ idsI (s.side side), j < st.heap.length := fun j hj => gr j ((mem_idsI_side s side j).1 hj)
    have dj : ∀ j ∈ ids (s.side side).inv, j ∉ ids (s.side side).data := by
      intro j hj hm
      unfold idsI at gn'
      rw [List.nodup_append] at gn'
      exact gn'.2.2 j hm j hj rfl
    cases h1 : st.stepAt r (sided side (onBoth (hMergeAll (s.side side).inv) dId)) with
    | none => rw [h1] at h; simp at h
    | some st1 =>
      rw [h1] at h
      simp only [Option.bind_some] at h
      obtain ⟨sep1, len1, _, fr1⟩ := stepAt_sep hs r _ (fun s _ => mergeData_foot _ side st.heap s) h1
      have sim1 : ∀ s', st.regs[r]? = some s' → ISimAt (sided side (onBoth (hMergeAll (s.side side).inv) dId))
          (fun m => (⟨(deref st.heap (s.side side).inv).foldl (fun D p => mergeKey p.1 p.2 D) (m.side side).data,
            (m.side side).inv⟩ : M2M α).side side) st.heap s' := by
        intro s' hs'
        rw [ho] at hs'
        injection hs' with hs'
        subst hs'
        refine sided_sim side (G := fun m => (⟨(deref st.heap (s.side side).inv).foldl
          (fun D p => mergeKey p.1 p.2 D) m.data, m.inv⟩ : M2M α)) ?_
        refine onBoth_sim (gf := fun D => (deref st.heap (s.side side).inv).foldl (fun D p => mergeKey p.1 p.2 D) D)
          (gg := fun D => D) (hMergeAll_foot _ _ _) (dId_foot _ _) ?_ ?_
        · intro hn hr
          exact hMergeAll_sim _ _ _ hn hr (fun j hj => gr' j ((mem_idsI _ j).2 (Or.inr hj))) dj
        · intro _ _; rfl
      obtain ⟨s0, hsr, hs1r, _, habs1⟩ := stepAt_abs hs r _ _ (fun s _ => mergeData_foot _ side st.heap s) sim1 h1
      rw [ho] at hsr
      injection hsr with hsr
      subst hsr
      rw [hs1r] at h
      simp only [Option.bind_some, side_not_inv] at h
      -- the instance after loop 1
      have hd1 : ((sided side (onBoth (hMergeAll (s.side side).inv) dId) st.heap s).2.side side).data
          = (hMergeAll (s.side side).inv st.heap (s.side side).data).2 := by
        simp only [sided, onBoth, dId, side_side]
      have hi1 : ((sided side (onBoth (hMergeAll (s.side side).inv) dId) st.heap s).2.side side).inv
          = (s.side side).inv := by
        simp only [sided, onBoth, dId, side_side]
      obtain ⟨gn1, gr1⟩ := sep1.good r _ hs1r
      have gn1' := (nodup_idsI_side _ side).2 gn1
      have sim2 : ∀ s1, st1.regs[r]? = some s1 →
          ISimAt (sided side (onBoth dId (hMergeAll ((sided side (onBoth (hMergeAll (s.side side).inv) dId) st.heap s).2.side side).data)))
          (fun m => (⟨(m.side side).data,
            (deref st1.heap ((sided side (onBoth (hMergeAll (s.side side).inv) dId) st.heap s).2.side side).data).foldl
              (fun D p => mergeKey p.1 p.2 D) (m.side side).inv⟩ : M2M α).side side) st1.heap s1 := by
        intro s1 hs1
        rw [hs1r] at hs1
        injection hs1 with hs1
        subst hs1
        refine sided_sim side (G := fun m => (⟨m.data,
          (deref st1.heap ((sided side (onBoth (hMergeAll (s.side side).inv) dId) st.heap s).2.side side).data).foldl
            (fun D p => mergeKey p.1 p.2 D) m.inv⟩ : M2M α)) ?_
        refine onBoth_sim (gf := fun D => D)
          (gg := fun D => (deref st1.heap ((sided side (onBoth (hMergeAll (s.side side).inv) dId) st.heap s).2.side side).data).foldl
            (fun D p => mergeKey p.1 p.2 D) D) (dId_foot _ _) (hMergeAll_foot _ _ _) ?_ ?_
        · intro _ _; rfl
        · intro hn hr
          apply hMergeAll_sim _ _ _ hn hr
          · intro j hj
            exact gr1 j ((mem_idsI_side _ side j).1 ((mem_idsI _ j).2 (Or.inl hj)))
          · intro j hj hm
            unfold idsI at gn1'
            rw [List.nodup_append] at gn1'
            exact gn1'.2.2 j hj j hm rfl
      obtain ⟨s1, hs1r', _, _, habs2⟩ := stepAt_abs sep1 r _ _ (fun s _ => mergeInv_foot _ side st1.heap s) sim2 h
      rw [hs1r] at hs1r'
      injection hs1r' with hs1r'
      refine ⟨s, rfl, ?_⟩
      rw [habs2, habs1, List.set_set]
      congr 1
      have hlt : r < st.abs.length := by
        have := getElem?_lt ho
        simpa [HState.abs] using this
      have e1 : s1.abs st1.heap = (⟨(deref st.heap (s.side side).inv).foldl (fun D p => mergeKey p.1 p.2 D)
          ((s.abs st.heap).side side).data, ((s.abs st.heap).side side).inv⟩ : M2M α).side side := by
        have := congrArg (fun l => l[r]?) habs1
        simp only [abs_getElem?, hs1r, Option.map_some] at this
        rw [List.getElem?_set] at this
        simp only [if_true, hlt] at this
        injection this with this
        rw [← hs1r']; exact this
      have e2 : deref st1.heap ((sided side (onBoth (hMergeAll (s.side side).inv) dId) st.heap s).2.side side).data
          = ((s1.abs st1.heap).side side).data := by
        rw [← abs_side, ← hs1r']; rfl
      rw [e2, e1, m2m_side_side]
      show _ = (selfMerge ((s.abs st.heap).side side)).side side
      unfold selfMerge
      rw [← abs_side st.heap s side]
      rfl


/-- a command that is not `x.update(x)` / `x.update(x.inv)`.  (Round 2 proved the refinement under this hypothesis
    only; the by-value machine now follows the live reads of a self-update too - `M2M.updateFromReg` - and the
    refinement `hm2mCmd_sim` is unconditional.) -/
def M2MCmd.NoSelfUpdate : M2MCmd α → Prop
  | .updateFrom r _ r2 _ => r ≠ r2
  | _ => True

instance (c : M2MCmd α) : Decidable c.NoSelfUpdate := by
  cases c <;> simp only [M2MCmd.NoSelfUpdate] <;> infer_instance

theorem push_getElem?_length (st : HState α) : st.push.regs[st.regs.length]? = some HInst.empty := by
  simp [HState.push]

theorem hm2mCmd_sim {st st' : HState α} {c : M2MCmd α} {ret : Ret α} (hs : HSep st) (hw : AllWFm st.abs)
    (h : hm2mCmd st c = some (st', ret)) : m2mCmd st.abs c = some (st'.abs, ret) := by
  have hlen : st.abs.length = st.regs.length := by simp [HState.abs]
  cases c with
  | new ps =>
    simp only [hm2mCmd, Option.map_eq_some_iff, Prod.mk.injEq] at h
    obtain ⟨st1, h1, e, e2⟩ := h
    subst e; subst e2
    obtain ⟨s, hsr, _, _, habs⟩ := stepAt_abs hs.push st.regs.length _ _
      (fun s _ => updatePairs_foot ps _ s) (fun s _ => updatePairs_sim ps _ s) h1
    rw [push_getElem?_length] at hsr
    injection hsr with hsr
    subst hsr
    simp only [m2mCmd, Option.some.injEq, Prod.mk.injEq, and_true]
    rw [habs, push_abs, ← hlen, set_append_length]
    rfl
  | newFrom r side =>
    simp only [hm2mCmd] at h
    split at h
    · next hr =>
      simp only [Option.map_eq_some_iff, Prod.mk.injEq] at h
      obtain ⟨st1, h1, e, e2⟩ := h
      subst e; subst e2
      obtain ⟨s, o, hsr, hor, habs⟩ := hUpdateFrom_abs hs.push st.regs.length false r side (by omega) h1
      rw [push_getElem?_length] at hsr
      injection hsr with hsr
      subst hsr
      have hor' : st.regs[r]? = some o := by
        simp only [HState.push] at hor
        rwa [List.getElem?_append_left hr] at hor
      simp only [m2mCmd, abs_getElem?, hor', Option.map_some, Option.some.injEq, Prod.mk.injEq, and_true]
      rw [habs, push_abs, ← hlen, set_append_length]
      rfl
    · simp at h
  | op r side op =>
    simp only [hm2mCmd] at h
    cases hr : st.regs[r]? with
    | none => rw [hr] at h; simp at h
    | some s =>
      rw [hr] at h
      simp only [Option.bind_some, Option.map_eq_some_iff, Prod.mk.injEq] at h
      obtain ⟨st1, h1, e, e2⟩ := h
      subst e
      obtain ⟨gn, gr⟩ := hs.good r s hr
      have gn' := (nodup_idsI_side s side).2 gn
      have gr' : ∀ j ∈ idsI (s.side side), j < st.heap.length := fun j hj => gr j ((mem_idsI_side s side j).1 hj)
      obtain ⟨s0, hsr, _, _, habs⟩ := stepAt_abs hs r _ (fun m => ((m.side side).step op).1.side side)
        (fun s _ => sided_foot side (step_foot op st.heap (s.side side)))
        (fun s _ => sided_sim side (G := fun m => (m.step op).1)
          (fun hn hr => (step_sim op st.heap (s.side side) hn hr).1)) h1
      rw [hr] at hsr
      injection hsr with hsr
      subst hsr
      have hret := (step_sim op st.heap (s.side side) gn' gr').2
      rw [abs_side] at hret
      simp only [m2mCmd, abs_getElem?, hr, Option.map_some, Option.some.injEq, Prod.mk.injEq]
      obtain ⟨q1, q2⟩ := stepSide_eq (s.abs st.heap) side op
      rw [q1, q2, habs, ← e2, hret]
      exact ⟨rfl, rfl⟩
  | updateFrom r side r2 side2 =>
    simp only [hm2mCmd, Option.map_eq_some_iff, Prod.mk.injEq] at h
    obtain ⟨st1, h1, e, e2⟩ := h
    subst e; subst e2
    by_cases hne : r = r2
    · subst hne
      by_cases es : side2 = side
      · subst es
        cases hsr : st.regs[r]? with
        | none => simp [hUpdateFrom, hsr] at h1
        | some s =>
          have hws : (s.abs st.heap).WF := hw _ (by
            have := abs_getElem? st r
            rw [hsr] at this
            exact List.mem_of_getElem? this)
          obtain ⟨a, _, c⟩ := hUpdateFrom_self_same r side2 s hsr hws h1
          have e : st1.abs = st.abs := by
            unfold HState.abs
            rw [a]
            apply List.map_congr_left
            intro x _
            exact abs_congr _ _ _ (fun j _ => c j)
          have hg : st.abs[r]? = some (s.abs st.heap) := by rw [abs_getElem?, hsr]; rfl
          simp only [m2mCmd, abs_getElem?, hsr, Option.map_some, M2M.updateFromReg, decide_true, if_true]
          rw [e, set_same hg]
      · have : side2 = !side := by cases side <;> cases side2 <;> simp_all
        subst this
        obtain ⟨s, hsr, habs⟩ := hUpdateFrom_self_opp hs r side h1
        have hf : ((!side) = side) = False := by cases side <;> simp
        simp only [m2mCmd, abs_getElem?, hsr, Option.map_some, M2M.updateFromReg, decide_true, if_true, hf, if_false]
        rw [habs]
    · obtain ⟨s, o, hsr, hor, habs⟩ := hUpdateFrom_abs hs r side r2 side2 hne h1
      simp only [m2mCmd, abs_getElem?, hsr, hor, Option.map_some, M2M.updateFromReg, hne, decide_false]
      rw [habs]
      rfl

theorem hm2mRun_sim {st st' : HState α} (cs : List (M2MCmd α)) (hs : HSep st) (hw : AllWFm st.abs)
    (h : hm2mRun st cs = some st') : m2mRun st.abs cs = some st'.abs := by
  induction cs generalizing st with
  | nil => simp only [hm2mRun, Option.some.injEq] at h; subst h; rfl
  | cons c cs ih =>
    simp only [hm2mRun] at h
    cases hc : hm2mCmd st c with
    | none => rw [hc] at h; simp at h
    | some p =>
      obtain ⟨st1, ret⟩ := p
      rw [hc] at h
      have := hm2mCmd_sim hs hw hc
      simp only [m2mRun, this]
      exact ih (hm2mCmd_sep hs hc).1 (m2mCmd_wf hw this) h

/-- every command keeps the by-value invariant (same pairs transposed, no empty entry) of every heap-level instance -
    self-updates included -/
theorem hm2mCmd_wf {st st' : HState α} {c : M2MCmd α} {ret : Ret α} (hs : HSep st) (hw : AllWFm st.abs)
    (h : hm2mCmd st c = some (st', ret)) : AllWFm st'.abs :=
  m2mCmd_wf hw (hm2mCmd_sim hs hw h)

theorem hm2mRun_wf {st st' : HState α} (cs : List (M2MCmd α)) (hs : HSep st) (hw : AllWFm st.abs)
    (h : hm2mRun st cs = some st') : AllWFm st'.abs := by
  induction cs generalizing st with
  | nil => simp only [hm2mRun, Option.some.injEq] at h; subst h; exact hw
  | cons c cs ih =>
    simp only [hm2mRun] at h
    cases hc : hm2mCmd st c with
    | none => rw [hc] at h; simp at h
    | some p =>
      obtain ⟨st1, ret⟩ := p
      rw [hc] at h
      exact ih (hm2mCmd_sep hs hc).1 (hm2mCmd_wf hs hw hc) h

end steps
end C17
