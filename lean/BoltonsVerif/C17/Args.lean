import BoltonsVerif.C17.Model
import BoltonsVerif.C17.Heap
/-
C17 - round 3: OneToOne call ARGUMENTS as the caller built them.

`Model.lean` receives every constructor / `update` / `|=` argument already materialised as a list of pairs.
What turns an argument into that list was Python-side only: a `dict` (or `OrderedDict`, or the keyword
arguments) holds a key once - first position, last value; a one-shot iterator yields each item once, to
whoever asks first, and is empty afterwards.  Here the argument kinds are part of the model, one-shot
iterators are objects in a store (`OtoSt.iters`: what each still has to yield) that the caller may hold on to,
consume from (`next`) and pass again, and each command is lowered to the command of `Model.lean` it amounts to.

  OneToOne.update(arg, **kw)   `keys_vals = list(arg.items())` for a dict, else `list(arg)` - ONE pass over
                               the argument - then `keys_vals.extend(kw.items())`, then `self[k] = v` in order
  OneToOne(arg, **kw)          `dict.__init__(self, arg, **kw)`: one pass, then the keyword items
Core Lean only.
-/
namespace C17

/-- a positional argument, as the caller built it -/
inductive Arg (α : Type) where
  | none                               -- no positional argument (constructors only)
  | dict (raw : List (α × α))          -- `dict(raw)` / `OrderedDict(raw)`
  | pairs (ps : List (α × α))          -- a list of pairs
  | freshIter (ps : List (α × α))      -- `iter([...])` created for this call, nobody else holds it
  | iter (i : Nat)                     -- the one-shot iterator object `i`, held by the caller
  | reg (r : Nat) (side : Bool)        -- another instance (or the instance itself), either side
deriving Repr

structure OtoSt (α : Type) where
  regs : List (OTO α)
  iters : List (List (α × α))          -- what each iterator object still has to yield
deriving Repr, DecidableEq

section args
variable {α : Type} [DecidableEq α]

def OtoSt.empty : OtoSt α := ⟨[], []⟩

/-- the ONE pass the callee makes over its argument (`list(arg.items())` / `list(arg)` / `dict.__init__`):
    the items it gets, and the iterator store afterwards (an iterator object is drained) -/
def takeArg (st : OtoSt α) : Arg α → Option (List (α × α) × List (List (α × α)))
  | .none => some ([], st.iters)
  | .dict raw => some (putAll [] raw, st.iters)
  | .pairs ps => some (ps, st.iters)
  | .freshIter ps => some (ps, st.iters)
  | .iter i => (st.iters[i]?).map fun rest => (rest, st.iters.set i [])
  | .reg r side => (st.regs[r]?).map fun s => (s.items side, st.iters)

/-- a command at caller level; `kw` are the keyword arguments as written (`**dict(kw)`) -/
inductive OtoCmdA (α : Type) where
  | mkIter (ps : List (α × α))                               -- `it = iter([...])`, kept
  | next (i : Nat)                                           -- `next(it, None)` by the caller
  | new (a : Arg α) (kw : List (α × α))                      -- `OneToOne(arg, **kw)`
  | newAs (a : Arg α) (kw hint : List (α × α))               -- the same, the items it ended up with known
  | unique (a : Arg α) (kw : List (α × α))                   -- `OneToOne.unique(arg, **kw)`
  | copy (r : Nat) (side : Bool)
  | op (r : Nat) (side : Bool) (op : OtoOp α)
  | update (r : Nat) (side : Bool) (a : Arg α) (kw : List (α × α))   -- `x.update(arg, **kw)` / `x |= arg`
deriving Repr

/-- the command of `Model.lean` a caller-level command amounts to (`none`: it touches no instance), and the
    iterator store after the callee's one pass over the argument -/
def lowerCmd (st : OtoSt α) : OtoCmdA α → Option (Option (OtoCmd α) × List (List (α × α)))
  | .mkIter ps => some (none, st.iters ++ [ps])
  | .next i => (st.iters[i]?).map fun rest => (none, st.iters.set i rest.tail)
  | .new a kw => (takeArg st a).map fun p => (some (.new (.pairs (p.1 ++ putAll [] kw))), p.2)
  | .newAs a kw hint => (takeArg st a).map fun p => (some (.newAs (.pairs (p.1 ++ putAll [] kw)) hint), p.2)
  | .unique a kw => (takeArg st a).map fun p => (some (.unique (.pairs (p.1 ++ putAll [] kw))), p.2)
  | .copy r side => some (some (.copy r side), st.iters)
  | .op r side op => some (some (.op r side op), st.iters)
  | .update r side a kw => (takeArg st a).map fun p => (some (.op r side (.update (p.1 ++ putAll [] kw))), p.2)

def otoCmdA (st : OtoSt α) (c : OtoCmdA α) : Option (OtoSt α × Ret α) :=
  match lowerCmd st c with
  | some (some c', its) => (otoCmd st.regs c').map fun p => (⟨p.1, its⟩, p.2)
  | some (none, its) => some (⟨st.regs, its⟩, .none)
  | none => none

def otoRunA (st : OtoSt α) : List (OtoCmdA α) → Option (OtoSt α)
  | [] => some st
  | c :: cs => match otoCmdA st c with
    | some (st', _) => otoRunA st' cs
    | none => none

end args
end C17

/-! ## ManyToMany, caller level

  ManyToMany(items)      `if items: self.update(items)` - an empty list / dict is skipped, an iterator object is always
                         true; either way the instance ends up holding what one pass over `items` yields
  update(iterable)       another ManyToMany: the two-loop merge (`M2MCmd.updateFrom`); a mapping (anything with
                         `keys()`): `for k in m.keys(): self.add(k, m[k])` - a key once, with its last value;
                         else `for key, val in iterable: self.add(key, val)` - ONE lazy pass
The lowering does not look at the instances, only at the iterator store, so the by-value machine (`Model.lean`) and
the heap-level machine (`Heap.lean`) are driven by the same lowered commands. -/
namespace C17

/-- a caller-level ManyToMany command (`Arg.reg` = another ManyToMany, either side) -/
inductive M2MCmdA (α : Type) where
  | mkIter (ps : List (α × α))
  | next (i : Nat)
  | new (a : Arg α)                                  -- `ManyToMany(arg)`
  | op (r : Nat) (side : Bool) (op : M2MOp α)        -- add / remove / __setitem__ / __delitem__ / replace
  | update (r : Nat) (side : Bool) (a : Arg α)       -- `x.update(arg)`
deriving Repr

section argsm
variable {α : Type} [DecidableEq α]

/-- the ONE pass over a non-instance argument: its pairs and the iterator store afterwards (`none` for `Arg.reg`) -/
def takePairs (its : List (List (α × α))) : Arg α → Option (List (α × α) × List (List (α × α)))
  | .none => some ([], its)
  | .dict raw => some (putAll [] raw, its)
  | .pairs ps => some (ps, its)
  | .freshIter ps => some (ps, its)
  | .iter i => (its[i]?).map fun rest => (rest, its.set i [])
  | .reg _ _ => none

/-- the command of `Model.lean` / `Heap.lean` a caller-level command amounts to (`none` inside: no instance is
    touched), and the iterator store afterwards -/
def lowerM (its : List (List (α × α))) : M2MCmdA α → Option (Option (M2MCmd α) × List (List (α × α)))
  | .mkIter ps => some (none, its ++ [ps])
  | .next i => (its[i]?).map fun rest => (none, its.set i rest.tail)
  | .new (.reg r side) => some (some (.newFrom r side), its)
  | .new a => (takePairs its a).map fun p => (some (.new p.1), p.2)
  | .op r side op => some (some (.op r side op), its)
  | .update r side (.reg r2 side2) => some (some (.updateFrom r side r2 side2), its)
  | .update r side a => (takePairs its a).map fun p => (some (.op r side (.update p.1)), p.2)

/-- a whole caller-level history lowered (a function of the iterator store alone) -/
def lowerAll (its : List (List (α × α))) : List (M2MCmdA α) → Option (List (M2MCmd α) × List (List (α × α)))
  | [] => some ([], its)
  | c :: cs => match lowerM its c with
    | some (oc, its1) => (lowerAll its1 cs).map fun p => ((match oc with | some c' => c' :: p.1 | none => p.1), p.2)
    | none => none

structure M2MSt (α : Type) where
  regs : List (M2M α)
  iters : List (List (α × α))
deriving Repr, DecidableEq

def M2MSt.empty : M2MSt α := ⟨[], []⟩

/-- one caller-level command on the by-value machine -/
def m2mCmdA (st : M2MSt α) (c : M2MCmdA α) : Option (M2MSt α × Ret α) :=
  match lowerM st.iters c with
  | some (some c', its) => (m2mCmd st.regs c').map fun p => (⟨p.1, its⟩, p.2)
  | some (none, its) => some (⟨st.regs, its⟩, .none)
  | none => none

def m2mRunA (st : M2MSt α) : List (M2MCmdA α) → Option (M2MSt α)
  | [] => some st
  | c :: cs => match m2mCmdA st c with
    | some (st', _) => m2mRunA st' cs
    | none => none

/-- the heap-level machine (`Heap.lean`: set objects with identities) driven by the same lowered commands -/
structure HM2MSt (α : Type) where
  st : HState α
  iters : List (List (α × α))
deriving Repr, DecidableEq

def HM2MSt.empty : HM2MSt α := ⟨HState.empty, []⟩

def hm2mCmdA (s : HM2MSt α) (c : M2MCmdA α) : Option (HM2MSt α × Ret α) :=
  match lowerM s.iters c with
  | some (some c', its) => (hm2mCmd s.st c').map fun p => (⟨p.1, its⟩, p.2)
  | some (none, its) => some (⟨s.st, its⟩, .none)
  | none => none

def hm2mRunA (s : HM2MSt α) : List (M2MCmdA α) → Option (HM2MSt α)
  | [] => some s
  | c :: cs => match hm2mCmdA s c with
    | some (s', _) => hm2mRunA s' cs
    | none => none

end argsm
end C17
