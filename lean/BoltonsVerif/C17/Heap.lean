import BoltonsVerif.C17.Model
/-
C17 — heap-level model of `boltons.dictutils.ManyToMany`: set OBJECTS have identities.

`Model.lean` treats an instance as a pair of dicts whose values are sets *by value*, so "another
instance's set object stored by reference" cannot even be expressed there.  Here every Python `set`
lives in a heap cell (`Heap α`, the identity is the index), the two dicts of an instance map a key to a
cell id, all instances share the one heap, and every statement of the class that creates, stores or
mutates a set object is followed literally:

  add         `if key not in data: data[key] = set()` (a NEW cell) ; `data[key].add(val)` (in place)
  remove      `data[key].remove(val)` (in place) ; `if not data[key]: del data[key]`
  update(o)   `data[k] = set(o.data[k])` (a NEW cell holding a copy) / `data[k].update(o.data[k])` (in place,
              reading the other instance's cell LIVE - it may be the same instance or its own inverse)
  replace     `fwdset = data.pop(key)` ; `data.setdefault(newkey, set()).update(fwdset)` ; the reverse sets
              are edited in place
  __setitem__ / __delitem__ : the loops over `remove` / `add` / the reverse sets

Core Lean only.
-/
namespace C17

abbrev Heap (α : Type) := List (List α)

section heap
variable {α : Type} [DecidableEq α]

/-- the set object with identity `i` -/
def cell (h : Heap α) (i : Nat) : List α := (h[i]?).getD []

/-- the cell ids a dict refers to -/
def ids (d : Dict α Nat) : List Nat := d.map Prod.snd

/-- the dict with every reference replaced by the set it points to -/
def deref (h : Heap α) (d : Dict α Nat) : Dict α (List α) := d.map fun p => (p.1, cell h p.2)

structure HInst (α : Type) where
  data : Dict α Nat
  inv  : Dict α Nat
deriving Repr, DecidableEq

def HInst.empty : HInst α := ⟨[], []⟩
def HInst.flip (s : HInst α) : HInst α := ⟨s.inv, s.data⟩
def HInst.side (s : HInst α) (b : Bool) : HInst α := if b then s.flip else s
def idsI (s : HInst α) : List Nat := ids s.data ++ ids s.inv

/-- what the instance looks like by value -/
def HInst.abs (h : Heap α) (s : HInst α) : M2M α := ⟨deref h s.data, deref h s.inv⟩

/-! one dict, one key -/

/-- `if key not in d: d[key] = set()` ; `d[key].add(val)` -/
def hAddTo (k v : α) (h : Heap α) (d : Dict α Nat) : Heap α × Dict α Nat :=
  match lookup k d with
  | some i => (h.set i (insertSet v (cell h i)), d)
  | none => (h ++ [insertSet v []], d ++ [(k, h.length)])

/-- `d[key].remove(val)` ; `if not d[key]: del d[key]` -/
def hRemoveFrom (k v : α) (h : Heap α) (d : Dict α Nat) : Heap α × Dict α Nat :=
  match lookup k d with
  | some i =>
    if removeElem v (cell h i) = [] then (h.set i [], erase k d)
    else (h.set i (removeElem v (cell h i)), d)
  | none => (h, d)

/-- `if k not in d: d[k] = set(vs)  else: d[k].update(vs)` -/
def hMergeKey (k : α) (vs : List α) (h : Heap α) (d : Dict α Nat) : Heap α × Dict α Nat :=
  match lookup k d with
  | some i => (h.set i (unionSet (cell h i) vs), d)
  | none => (h ++ [toSet vs], d ++ [(k, h.length)])

/-- `revset = d[val]; revset.remove(key); revset.add(newkey)` -/
def hRenameIn (v k nk : α) (h : Heap α) (d : Dict α Nat) : Heap α × Dict α Nat :=
  match lookup v d with
  | some i => (h.set i (insertSet nk (removeElem k (cell h i))), d)
  | none => (h, d)

/-- `del d[key]` (the set object is dropped, nobody refers to it any more) -/
def hErase (k : α) (h : Heap α) (d : Dict α Nat) : Heap α × Dict α Nat := (h, erase k d)

/-- a step (on one dict, or on one instance) for every element of a list, in order; the heap is threaded through -/
def sFold {σ β : Type} (f : β → Heap α → σ → Heap α × σ) (l : List β) (h : Heap α) (x : σ) : Heap α × σ :=
  l.foldl (fun p b => f b p.1 p.2) (h, x)

/-- `for k in other: …d[k]… other[k]` - the other dict's cells are read LIVE, at the moment their turn comes -/
def hMergeAll (od : Dict α Nat) (h : Heap α) (d : Dict α Nat) : Heap α × Dict α Nat :=
  sFold (fun (e : α × Nat) h d => hMergeKey e.1 (cell h e.2) h d) od h d

/-! one instance -/

/-- a step on the forward dict, then a step on the inverse dict (the heap is threaded through) -/
def onBoth (f g : Heap α → Dict α Nat → Heap α × Dict α Nat) (h : Heap α) (s : HInst α) : Heap α × HInst α :=
  ((g (f h s.data).1 s.inv).1, ⟨(f h s.data).2, (g (f h s.data).1 s.inv).2⟩)

/-- `ManyToMany.add` -/
def HInst.add (k v : α) : Heap α → HInst α → Heap α × HInst α := onBoth (hAddTo k v) (hAddTo v k)

/-- the body of `ManyToMany.remove` -/
def HInst.removeRaw (k v : α) : Heap α → HInst α → Heap α × HInst α := onBoth (hRemoveFrom k v) (hRemoveFrom v k)

/-- `data[key]` by value (empty for a missing key) -/
def HInst.getSet (h : Heap α) (s : HInst α) (k : α) : List α :=
  match lookup k s.data with
  | some i => cell h i
  | none => []

/-- `ManyToMany.remove` -/
def HInst.remove (k v : α) (h : Heap α) (s : HInst α) : (Heap α × HInst α) × Ret α :=
  if v ∈ s.getSet h k then (HInst.removeRaw k v h s, .none) else ((h, s), .err .KeyError)

/-- `ManyToMany.__setitem__` -/
def HInst.setitem (k : α) (vals : List α) (h : Heap α) (s : HInst α) : Heap α × HInst α :=
  if hasKey k s.data then
    sFold (fun v => HInst.add k v) ((toSet vals).filter (fun v => !(s.getSet h k).contains v))
      (sFold (fun v => HInst.removeRaw k v) ((s.getSet h k).filter (fun v => !(toSet vals).contains v)) h s).1
      (sFold (fun v => HInst.removeRaw k v) ((s.getSet h k).filter (fun v => !(toSet vals).contains v)) h s).2
  else sFold (fun v => HInst.add k v) (toSet vals) h s

/-- `ManyToMany.__delitem__` -/
def HInst.delitem (k : α) (h : Heap α) (s : HInst α) : (Heap α × HInst α) × Ret α :=
  if hasKey k s.data then
    (onBoth (hErase k) (sFold (fun v => hRemoveFrom v k) (s.getSet h k)) h s, .none)
  else ((h, s), .err .KeyError)

/-- `ManyToMany.update(pairs)` -/
def HInst.updatePairs (ps : List (α × α)) : Heap α → HInst α → Heap α × HInst α :=
  sFold (fun (p : α × α) => HInst.add p.1 p.2) ps

/-- `ManyToMany.replace` -/
def HInst.replace (k nk : α) (h : Heap α) (s : HInst α) : Heap α × HInst α :=
  if hasKey k s.data then
    onBoth (fun h' d => hMergeKey nk (s.getSet h k) h' (erase k d))
      (sFold (fun v => hRenameIn v k nk) (s.getSet h k)) h s
  else (h, s)

def HInst.step (h : Heap α) (s : HInst α) : M2MOp α → (Heap α × HInst α) × Ret α
  | .add k v => (HInst.add k v h s, .none)
  | .remove k v => HInst.remove k v h s
  | .setitem k vals => (HInst.setitem k vals h s, .none)
  | .delitem k => HInst.delitem k h s
  | .update ps => (HInst.updatePairs ps h s, .none)
  | .replace k nk => (HInst.replace k nk h s, .none)

/-! the register file: all instances share the heap -/

structure HState (α : Type) where
  heap : Heap α
  regs : List (HInst α)
deriving Repr, DecidableEq

def HState.empty : HState α := ⟨[], []⟩

/-- every instance by value -/
def HState.abs (st : HState α) : List (M2M α) := st.regs.map (HInst.abs st.heap)

/-- a step on the instance in register `r`; every other register keeps its (references to) cells -/
def HState.stepAt (st : HState α) (r : Nat) (F : Heap α → HInst α → Heap α × HInst α) : Option (HState α) :=
  (st.regs[r]?).map fun s => ⟨(F st.heap s).1, st.regs.set r (F st.heap s).2⟩

/-- the step made through the forward object (`false`) or through `.inv` -/
def sided (b : Bool) (F : Heap α → HInst α → Heap α × HInst α) : Heap α → HInst α → Heap α × HInst α :=
  fun h s => ((F h (s.side b)).1, (F h (s.side b)).2.side b)

def dId : Heap α → Dict α Nat → Heap α × Dict α Nat := fun h d => (h, d)

/-- a fresh, empty instance in a new register -/
def HState.push (st : HState α) : HState α := ⟨st.heap, st.regs ++ [HInst.empty]⟩

/-- `x.update(other)` for another ManyToMany given by register and side.  Loop 1 merges `other.data` into
    `x.data`; loop 2 merges `other.inv.data` into `x.inv.data` - and `other` is looked up again for it, because
    it may be `x` itself or `x.inv`, whose dicts loop 1 has just changed -/
def hUpdateFrom (st : HState α) (r : Nat) (side : Bool) (r2 : Nat) (side2 : Bool) : Option (HState α) :=
  (st.regs[r2]?).bind fun o =>
  (st.stepAt r (sided side (onBoth (hMergeAll (o.side side2).data) dId))).bind fun st1 =>
  (st1.regs[r2]?).bind fun o1 =>
  st1.stepAt r (sided side (onBoth dId (hMergeAll (o1.side side2).inv)))

/-- one command on the register file (same commands as the by-value machine `m2mCmd`) -/
def hm2mCmd (st : HState α) : M2MCmd α → Option (HState α × Ret α)
  | .new ps => (st.push.stepAt st.regs.length (HInst.updatePairs ps)).map fun st' => (st', .none)
  | .newFrom r side =>
      -- `self.update(items)` on the fresh, empty instance
      if r < st.regs.length then (hUpdateFrom st.push st.regs.length false r side).map fun st' => (st', .none)
      else none
  | .op r side op => (st.regs[r]?).bind fun s =>
      (st.stepAt r (sided side fun h s => (s.step h op).1)).map fun st' => (st', ((s.side side).step st.heap op).2)
  | .updateFrom r side r2 side2 => (hUpdateFrom st r side r2 side2).map fun st' => (st', .none)

def hm2mRun (st : HState α) : List (M2MCmd α) → Option (HState α)
  | [] => some st
  | c :: cs => match hm2mCmd st c with
    | some (st', _) => hm2mRun st' cs
    | none => none

end heap
end C17
