import BoltonsVerif.C17.Proofs
/-
C17 — round-2 helper lemmas: FrozenDict states reachable by any history (constructor, fromkeys,
updated, pickle/deepcopy rebuild, hash() calls, mutator attempts), what the OneToOne constructors keep,
the ManyToMany inverse as a permutation.
-/
namespace C17

section dict3
variable {α : Type} [DecidableEq α]

theorem mem_keys_put {β : Type} (a k : α) (v : β) (d : Dict α β) : a ∈ keys (put k v d) ↔ a ∈ keys d ∨ a = k := by
  rw [keys_put]
  split
  · next h => constructor
              · exact Or.inl
              · rintro (h1 | h1); exact h1; exact h1 ▸ h
  · simp

theorem mem_keys_putAll {β : Type} (a : α) (d : Dict α β) (ps : List (α × β)) :
    a ∈ keys (putAll d ps) ↔ a ∈ keys d ∨ a ∈ keys ps := by
  unfold putAll
  induction ps generalizing d with
  | nil => simp [keys]
  | cons p ps ih =>
    simp only [List.foldl_cons]
    rw [ih, mem_keys_put]
    simp only [keys, List.map_cons, List.mem_cons]
    constructor
    · rintro ((h | h) | h)
      · exact Or.inl h
      · exact Or.inr (Or.inl h)
      · exact Or.inr (Or.inr h)
    · rintro (h | h | h)
      · exact Or.inl (Or.inl h)
      · exact Or.inl (Or.inr h)
      · exact Or.inr h

omit [DecidableEq α] in
theorem nodupKeys_reverse {β : Type} (d : Dict α β) (h : NodupKeys d) : NodupKeys d.reverse := by
  unfold NodupKeys keys at *
  rw [List.map_reverse]
  exact (List.reverse_perm _).nodup_iff.2 h

end dict3

/-! ## OneToOne constructors -/
section oto3
variable {α : Type} [DecidableEq α]

/-- the inverse dict the constructor builds has every value of `dict(pairs)` as a key -/
theorem OTO.ofPairs_inv_eq (ps : List (α × α)) :
    (OTO.ofPairs ps).inv = putAll [] ((putAll ([] : Dict α α) ps).map swap) := by
  unfold OTO.ofPairs; split <;> rfl

/-- no value of `dict(pairs)` is lost by the constructor: each is still the value of some key -/
theorem OTO.ofPairs_values_kept (ps : List (α × α)) (k v : α)
    (h : lookup k (putAll ([] : Dict α α) ps) = some v) : ∃ k', lookup k' (OTO.ofPairs ps).fwd = some v := by
  have w := OTO.WF.ofPairs ps
  have hF : NodupKeys (putAll ([] : Dict α α) ps) := putAll_nodup _ _ nodupKeys_nil
  have hm : (k, v) ∈ putAll ([] : Dict α α) ps := (mem_iff_lookup _ hF k v).2 h
  have hv : v ∈ keys (OTO.ofPairs ps).inv := by
    rw [OTO.ofPairs_inv_eq, mem_keys_putAll]
    right
    rw [swap_keys]
    exact List.mem_map.2 ⟨(k, v), hm, rfl⟩
  rw [mem_keys_iff_lookup] at hv
  cases hl : lookup v (OTO.ofPairs ps).inv with
  | none => rw [hl] at hv; simp at hv
  | some k' => exact ⟨k', (w.inverse k' v).2 hl⟩

/-- `dict(swapped items)` is as long as the items exactly when no value repeats -/
theorem swap_putAll_length_iff (d : Dict α α) :
    (putAll ([] : Dict α α) (d.map swap)).length = d.length ↔ (d.map Prod.snd).Nodup := by
  constructor
  · intro hlen
    have he := putAll_length_eq ([] : Dict α α) (d.map swap) (by simpa using hlen) nodupKeys_nil
    have hI : NodupKeys (putAll ([] : Dict α α) (d.map swap)) := putAll_nodup _ _ nodupKeys_nil
    rw [he] at hI
    unfold NodupKeys at hI
    simp only [List.nil_append] at hI
    rw [swap_keys] at hI
    exact hI
  · intro hv
    have := putAll_of_nodup ([] : Dict α α) (d.map swap) (by
      simp only [List.nil_append]; unfold NodupKeys; rw [swap_keys]; exact hv)
    rw [this]; simp

/-- `OneToOne.unique(pairs)`: ValueError exactly when some value sits under two keys of `dict(pairs)`;
    otherwise the instance holds `dict(pairs)` itself -/
theorem OTO.uniqueOfPairs_spec (ps : List (α × α)) :
    (OTO.uniqueOfPairs ps = none ↔ ¬ ((putAll ([] : Dict α α) ps).map Prod.snd).Nodup) ∧
    (∀ s, OTO.uniqueOfPairs ps = some s → s = OTO.ofPairs ps ∧ s.fwd = putAll [] ps) := by
  have hiff := swap_putAll_length_iff (putAll ([] : Dict α α) ps)
  unfold OTO.uniqueOfPairs
  constructor
  · split
    · next h => simp [hiff.1 h]
    · next h => simp only [true_iff]; exact fun hv => h (hiff.2 hv)
  · intro s hs
    split at hs
    · next h =>
      injection hs with hs
      subst hs
      exact ⟨rfl, OTO.ofPairs_injective ps (hiff.1 h)⟩
    · simp at hs

end oto3

/-! ## ManyToMany -/
section m2m3
variable {α : Type} [DecidableEq α]

theorem M2M.inv_perm {s : M2M α} (w : s.WF) : (iteritems s.inv).Perm ((iteritems s.data).map swap) := by
  have h1 := nodup_iteritems w.gi
  have h2 : ((iteritems s.data).map swap).Nodup :=
    nodup_map_of_inj_on _ _ (nodup_iteritems w.gd) (by
      intro p _ q _ e
      simp only [swap, Prod.mk.injEq] at e
      exact Prod.ext e.2 e.1)
  rw [List.perm_ext_iff_of_nodup h1 h2]
  intro p
  obtain ⟨a, b⟩ := p
  rw [mem_map_swap, mem_iteritems w.gi, mem_iteritems w.gd]
  exact (w.transpose b a).symm

end m2m3

/-! ## FrozenDict: every state a history can reach -/

/-- what a program can get hold of: `FrozenDict(pairs)`, `fromkeys`, `updated(...)` of a reachable one,
    a pickle / deepcopy clone, and any of these after `hash()` calls and mutator attempts
    (`copy.copy(fd)` is `fd` itself) -/
inductive FD.Reach : FD → Prop where
  | ofPairs (ps : List (Nat × FVal)) : FD.Reach (FD.ofPairs ps)
  | fromkeys (ks : List Nat) (v : FVal) : FD.Reach (FD.fromkeys ks v)
  | hash {s : FD} : FD.Reach s → FD.Reach s.hash.1
  | mutate {s : FD} (m : Mut) : FD.Reach s → FD.Reach (s.mutate m).1
  | updated {s : FD} (ps : List (Nat × FVal)) : FD.Reach s → FD.Reach (s.updated ps)
  | rebuild {s : FD} : FD.Reach s → FD.Reach s.rebuild

/-- unique keys, and the `_hash` slot unset or holding the hash of the items -/
def FD.Ok (s : FD) : Prop := NodupKeys s.items ∧ s.CacheOk

theorem FD.Ok.ofPairs (ps : List (Nat × FVal)) : (FD.ofPairs ps).Ok := ⟨FD.ofPairs_nodup ps, Or.inl rfl⟩

theorem FD.Reach.ok {s : FD} (h : FD.Reach s) : s.Ok := by
  induction h with
  | ofPairs ps => exact FD.Ok.ofPairs ps
  | fromkeys ks v => exact FD.Ok.ofPairs _
  | @hash s _ ih =>
    refine ⟨?_, FD.step_cacheOk s .hash ih.2⟩
    have := FD.step_items s .hash
    simp only [FD.step] at this
    rw [this]; exact ih.1
  | mutate m _ ih => rw [FD.mutate_blocked]; exact ih
  | updated ps _ ih => exact ⟨putAll_nodup _ _ ih.1, Or.inl rfl⟩
  | rebuild _ _ => exact FD.Ok.ofPairs _

theorem FD.hash_eq_of_ok {s t : FD} (hs : s.Ok) (ht : t.Ok) (h : dictEq s.items t.items = true) :
    s.hash.2 = t.hash.2 := by
  rw [FD.hash_of_cacheOk _ hs.2, FD.hash_of_cacheOk _ ht.2]
  exact hashOf_eq_of_dictEq _ _ hs.1 ht.1 h

theorem dictEq_reverse (d : Dict Nat FVal) (h : NodupKeys d) : dictEq d d.reverse = true := by
  simp only [dictEq, List.length_reverse, beq_self_eq_true, Bool.true_and, List.all_eq_true, beq_iff_eq]
  intro p hp
  exact (mem_iff_lookup _ (nodupKeys_reverse d h) p.1 p.2).1 (List.mem_reverse.2 hp)

/-- a fresh FrozenDict built from the items of `u` in the opposite order -/
theorem FD.twin_items (u : FD) (h : NodupKeys u.items) : (FD.ofPairs u.items.reverse).items = u.items.reverse :=
  FD.ofPairs_items_of_nodup _ (nodupKeys_reverse _ h)


section ctorAs
variable {α : Type} [DecidableEq α]

/-- the acceptance-style constructor: whatever admissible outcome the implementation reports, the instance holds only
    items of `dict(pairs)` and loses no value of it (the fallback is `ofPairs`, for which this is `ofPairs_sub` /
    `ofPairs_values_kept`) -/
theorem OTO.ofPairsAs_spec (ps hint : List (α × α)) :
    (∀ k v, lookup k (OTO.ofPairsAs ps hint).fwd = some v → lookup k (putAll ([] : Dict α α) ps) = some v) ∧
    (∀ k v, lookup k (putAll ([] : Dict α α) ps) = some v → ∃ k', lookup k' (OTO.ofPairsAs ps hint).fwd = some v) := by
  unfold OTO.ofPairsAs
  split
  · next h =>
    simp only [OTO.admissible, Bool.and_eq_true, decide_eq_true_eq, List.all_eq_true] at h
    obtain ⟨⟨⟨hk, _⟩, hsub⟩, hval⟩ := h
    constructor
    · intro k v hl
      exact hsub (k, v) ((mem_iff_lookup hint hk k v).2 hl)
    · intro k v hl
      have hd : NodupKeys (putAll ([] : Dict α α) ps) := putAll_nodup _ _ nodupKeys_nil
      have hm := hval (k, v) ((mem_iff_lookup _ hd k v).2 hl)
      simp only [List.mem_map] at hm
      obtain ⟨p, hp, e⟩ := hm
      exact ⟨p.1, by rw [← e]; exact (mem_iff_lookup hint hk p.1 p.2).1 hp⟩
  · exact ⟨OTO.ofPairs_sub ps, OTO.ofPairs_values_kept ps⟩

end ctorAs
end C17
