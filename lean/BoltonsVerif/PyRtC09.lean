/-
PyRtC09 — runtime of the C09 source translator (`harness/py2lean_c09.py`; specification: notes/SRCTIE.md §8).
TRUSTED: these definitions are the assumed meaning of the Python constructs the translator maps to them.

A generator is modelled by what `list(<generator>)` observes: `Except Err (List β)` (the items yielded, or the
exception that escapes).  A `set` is a list used through membership only; a `dict` is an insertion-ordered
association list; an iterator over a list is the list of the items not consumed yet.
-/
namespace PyRtC09

/-- the exception classes the translated functions raise (messages are not modelled) -/
inductive Err where
  | valueError
  | typeError
  | keyError
  | outOfFuel      -- not a Python exception: the `while` loop was given too little fuel
deriving Repr, DecidableEq

/-- `None` is a possible item of a Python list: the abstract item type has it as a distinguished value -/
class PyNone (α : Type) where
  none : α

/-- `yield x` followed by the rest of the generator body, as `list(gen)` sees it -/
def yieldThen {β : Type} (x : β) (rest : Except Err (List β)) : Except Err (List β) :=
  match rest with
  | .ok l => .ok (x :: l)
  | .error e => .error e

@[simp] theorem yieldThen_ok {β : Type} (x : β) (l : List β) : yieldThen x (.ok l) = .ok (x :: l) := rfl
@[simp] theorem yieldThen_error {β : Type} (x : β) (e : Err) :
    yieldThen x (.error e : Except Err (List β)) = .error e := rfl

/-- `list(itertools.islice(it, n))` for `n ≥ 0` (the translator emits the `n < 0 → ValueError` test itself):
    the items taken and the iterator afterwards -/
def isliceTake {α : Type} (it : List α) (n : Int) : List α := it.take n.toNat
def isliceRest {α : Type} (it : List α) (n : Int) : List α := it.drop n.toNat

/-- `l[i:] = r` (a negative `i` counts from the end, clamped at 0) -/
def setSliceFrom {α : Type} (l : List α) (i : Int) (r : List α) : List α :=
  l.take (if i < 0 then ((l.length : Int) + i).toNat else i.toNat) ++ r

/-- `[x] * n` (`n ≤ 0` gives `[]`) -/
def repeatItem {α : Type} (x : α) (n : Int) : List α := List.replicate n.toNat x

/-- `len(l)` -/
def len {α : Type} (l : List α) : Int := (l.length : Int)

/-! ### dicts as insertion-ordered association lists -/

/-- `d.get(k)` -/
def dictGet? {κ β : Type} [DecidableEq κ] (k : κ) : List (κ × β) → Option β
  | [] => none
  | (k', v) :: rest => if k' = k then some v else dictGet? k rest

/-- `d.setdefault(k, []).append(v)` -/
def setdefaultAppend {κ β : Type} [DecidableEq κ] (k : κ) (v : β) : List (κ × List β) → List (κ × List β)
  | [] => [(k, [v])]
  | (k', vs) :: rest =>
    if k' = k then (k', vs ++ [v]) :: rest else (k', vs) :: setdefaultAppend k v rest

end PyRtC09
