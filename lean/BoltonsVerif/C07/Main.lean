import BoltonsVerif.C07.Driver
def main : IO Unit := BV.mainLoop C07.Driver.handle
