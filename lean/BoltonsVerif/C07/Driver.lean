import BoltonsVerif.Common
import BoltonsVerif.C07.Model
import BoltonsVerif.C07.Spec
/-
C07 line protocol.  One line = one whole navigation history:
    nav <base> <ref> <ref> ...
  every URL is ten comma-separated fields
    scheme,hasAuthority,user,password,host,v6,port,path,query,fragment
  (an eleventh field `A` on a reference: the object was parsed without its query / fragment, which were then set
  through the public API, so no query component was ever parsed); a reference token `_` (only `_` may follow it):
  a step outside the statement (reference with a scheme but without a host) or after such a step - answered `_`
  texts as hex UTF-8 (`-` = empty, `N` = undefined for scheme / query / fragment), flags 0/1, port decimal (0 = none).
Output: `<base> <after ref 1> ... N <normalize()> <normalize() twice> <normalize(with_case=False)>`
(the three normalisations are applied to a fresh copy of the base), where a URL with a host is shown as
`T<to_text()>` and a URL without a host as `C<scheme>|<user>|<password>|<port>|<path>|<query>|<fragment>`
(how `to_text()` writes an empty authority belongs to property C06 and is not compared here).
    parse <hex text> the Appendix B components of a reference text (scheme,authority,path,query,fragment; hex, N =
                    undefined) and, for a text without scheme and authority, the object `URL(text)`: `P<segments> Q<pairs> F<fragment>`
                    (decoded path segments joined by `/`, query items `key[=value]` joined by `&`, all hex)
    tables          prints the generated scheme tables and the generated `navigate` version flag back (checked
                    against the live module)
-/
namespace C07.Driver
open BV C07

def optText? (s : String) : Option (Option Str) :=
  if s = "N" then some none else (hexToString? s).map (fun t => some t.toList)

def text? (s : String) : Option Str := (hexToString? s).map (·.toList)

def flag? (s : String) : Option Bool :=
  if s = "0" then some false else if s = "1" then some true else none

def parseURL? (tok : String) : Option URL :=
  match splitOnChar tok ',' with
  | [sc, au, us, pw, ho, v6, po, pa, qu, fr] => do
    let sc ← optText? sc
    let au ← flag? au
    let us ← text? us
    let pw ← text? pw
    let ho ← text? ho
    let v6 ← flag? v6
    let po ← po.toNat?
    let pa ← text? pa
    let qu ← optText? qu
    let fr ← optText? fr
    pure (URL.ofComponents sc au us pw ho v6 po pa qu fr)
  | [sc, au, us, pw, ho, v6, po, pa, qu, fr, "A"] => do
    -- a URL object parsed from the text WITHOUT query and fragment, which were then set through the public API
    -- (`query_params.add`, `.fragment = ...`): no query component was ever parsed (`_query` stays None)
    let sc ← optText? sc
    let au ← flag? au
    let us ← text? us
    let pw ← text? pw
    let ho ← text? ho
    let v6 ← flag? v6
    let po ← po.toNat?
    let pa ← text? pa
    let qu ← optText? qu
    let fr ← optText? fr
    pure { URL.ofComponents sc au us pw ho v6 po pa qu fr with hasQuery := false }
  | _ => none

def showU (u : URL) : String :=
  if u.host ≠ [] then "T" ++ String.ofList u.toText
  else "C" ++ "|".intercalate [String.ofList u.scheme, String.ofList u.user, String.ofList u.pass, toString u.port,
    String.ofList u.pathText, String.ofList (queryText u.query), String.ofList u.fragment]

def parseAll? : List String → Option (List URL)
  | [] => some []
  | t :: ts => do
    let u ← parseURL? t
    let us ← parseAll? ts
    pure (u :: us)

/-- the results of navigating through `dests` one after the other -/
def trail (u : URL) : List URL → List URL
  | [] => []
  | d :: ds => let u' := u.navigate d; u' :: trail u' ds

def handle (line : String) : String :=
  match words line with
  | ["tables"] =>
    "P " ++ ",".intercalate (C07.Gen.schemePorts.map fun p => s!"{p.1}:{p.2}") ++
    " N " ++ ",".intercalate C07.Gen.noNetlocSchemes ++
    " Q " ++ (if C07.Gen.navHonoursEmptyQuery then "1" else "0")
  | ["parse", h] =>
    -- a reference text: Appendix B components (Spec) and, when it has neither scheme nor authority, `URL(text)`
    match hexToString? h with
    | some t =>
      let r := rfcParse t.toList
      let o (x : Option Str) : String := match x with | none => "N" | some v => stringToHex (String.ofList v)
      let comps := ",".intercalate [o r.scheme, o r.authority, stringToHex (String.ofList r.path), o r.query, o r.fragment]
      if r.scheme.isNone && r.authority.isNone then
        let u := URL.ofText t.toList
        let hx (x : Str) : String := stringToHex (String.ofList x)
        let raw := "P" ++ "/".intercalate (u.parts.map hx) ++
          " Q" ++ "&".intercalate (u.query.map fun p => hx p.1 ++ (match p.2 with | none => "" | some v => "=" ++ hx v)) ++
          " F" ++ hx u.fragment
        comps ++ " " ++ raw
      else comps ++ " -"
    | none => "bad-op"
  | "nav" :: b :: refs =>
    -- `_` = a step outside the statement (a reference with a scheme but without a host) or a step after one:
    -- not modelled, shown as `_` (the harness shows the implementation's answer as `_` too)
    let inside := refs.takeWhile (fun t => t != "_")
    let outside := refs.dropWhile (fun t => t != "_")
    match parseURL? b, parseAll? inside, outside.all (fun t => t == "_") with
    | some base, some dests, true =>
      let n1 := base.normalize
      let n2 := n1.normalize
      let n3 := base.normalize false
      " ".intercalate ([showU base] ++ (trail base dests).map showU ++ outside ++ ["N", showU n1, showU n2, showU n3])
    | _, _, _ => "bad-op"
  | _ => "bad-op"

end C07.Driver
