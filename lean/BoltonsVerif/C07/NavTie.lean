/-
C07 — SOURCE TIE of `URL.navigate`'s decision logic (round 3c).

`URL.navigate` works on two URL OBJECTS, calls the classmethod `from_parts` with keywords, assigns `ret.family` and
calls `ret.normalize()` — outside the source translator's subset.  A C07-owned, purely syntactic front-end
(`harness/bv/props/c07_navform.py`) rewrites the method into its NORMAL FORM `navigate_core`: a pure function of the
decoded components of `self` and `dest` (the spec-declared fields `scheme, host, port, path_parts, query_params,
fragment, username, password, family`, plus `dest.path` and `dest._query`) that returns the nine values the method
hands to `from_parts` / assigns to `ret.family` (or the components of `dest` itself when it returns the reference).
`harness/py2lean.py` translates that normal form on every run into `Generated/C07_NavSrc.lean`
(`C07.NavSrc.navigate_core`).  Here: the spec-declared operations (`ofCore` = `from_parts(**values)`, `family`,
`normalize()`; `dest.path` = `'/'.join(path_parts)`; `dest._query is None` = "no query component") and the closed form
`modelCore` of the values the model's `URL.navigateWith true` uses.  The tie theorems themselves are in Props.lean
(`src_navigate_core_eq_model`, `src_navigate_eq_model`, `src_navigate_eq_rfc`).
When the current source is outside the front-end's subset (a restructured `navigate`), the generated file holds the
translation of the normal form of the reference version instead and `C07.NavSrc.tied = false`: the theorems then say
nothing about the current source, and the evidence says so (`navigate_source_tie`).
-/
import BoltonsVerif.Generated.C07_NavSrc
import BoltonsVerif.C07.Proofs

namespace C07

/-- the nine values `navigate` hands to `from_parts` (eight keywords) and assigns to `ret.family` -/
abbrev Core := Str × Str × Int × List Str × QPairs × Str × Str × Str × Int

/-- `socket.AF_INET6` or not, as an opaque number -/
def fam (v6 : Bool) : Int := if v6 then 1 else 0

/-- spec-declared operations: `ret = URL.from_parts(**values)`, `ret.family = family`, `ret.normalize()` -/
def ofCore (c : Core) : URL :=
  URL.normalize
    { scheme := c.1, netlocSep := false, user := c.2.2.2.2.2.2.1, pass := c.2.2.2.2.2.2.2.1, host := c.2.1,
      v6 := decide (c.2.2.2.2.2.2.2.2 = 1), port := c.2.2.1.toNat,
      parts := if c.2.2.2.1 = [] then [[]] else c.2.2.2.1, query := omdUpdate [] c.2.2.2.2.1, hasQuery := false,
      fragment := c.2.2.2.2.2.1 }

/-- the components of a URL object as the method reads them -/
def coreOf (u : URL) : Core :=
  (u.scheme, u.host, (u.port : Int), u.parts, u.query, u.fragment, u.user, u.pass, fam u.v6)

/-- the translated source applied to the components of two URL objects -/
def srcCore (self dest : URL) : Core :=
  NavSrc.navigate_core self.scheme self.host self.port self.parts self.query self.user self.pass (fam self.v6)
    dest.scheme dest.host dest.port dest.parts dest.pathText dest.query (if dest.hasQuery then some [] else none)
    dest.fragment dest.user dest.pass (fam dest.v6)

/-- the nine values in closed form (model side): what `URL.navigateWith true` hands to `from_parts` -/
def modelCore (self dest : URL) : Core :=
  (orStr dest.scheme self.scheme, orStr dest.host self.host, ((if dest.port ≠ 0 then dest.port else self.port : Nat) : Int),
   (if dest.pathText ≠ [] then
      if dest.pathText.head? = some '/' then dest.parts
      else (if self.host ≠ [] ∧ self.parts.dropLast.head? ≠ some [] then [] :: self.parts.dropLast
            else self.parts.dropLast) ++ dest.parts
    else self.parts),
   (if dest.pathText ≠ [] then dest.query
    else if dest.query = [] ∧ ¬ (dest.hasQuery = true) then self.query else dest.query),
   dest.fragment, orStr dest.user self.user, orStr dest.pass self.pass,
   fam (if dest.host ≠ [] then dest.v6 else self.v6))

/-- `from_parts` + family + `normalize()` of those values IS the model's navigate (non-replacing reference) -/
theorem ofCore_modelCore (self dest : URL) (h : ¬ (dest.scheme ≠ [] ∧ dest.host ≠ [])) :
    ofCore (modelCore self dest) = URL.navigateWith true self dest := by
  unfold ofCore modelCore URL.navigateWith
  rw [if_neg h]
  simp only [Int.toNat_natCast]
  congr 2
  · by_cases hh : dest.host = [] <;> simp [hh, fam] <;> (cases self.v6 <;> simp) <;> (cases dest.v6 <;> simp)
  · simp

/-! facts about the runtime expressions the translator emits -/

theorem nav_slice_take_one_chars (l : List Char) : PyRt.slice l none (some 1) = l.take 1 := by
  simp only [PyRt.slice, PyRt.clampBound]
  rw [if_neg (by omega)]
  cases l <;> simp

theorem nav_slice_take_one_strs (l : List Str) : PyRt.slice l none (some 1) = l.take 1 := by
  simp only [PyRt.slice, PyRt.clampBound]
  rw [if_neg (by omega)]
  cases l <;> simp

theorem nav_slice_dropLast_strs (l : List Str) : PyRt.slice l none (some (-1)) = l.dropLast := by
  simp only [PyRt.slice, PyRt.clampBound]
  rw [if_pos (by omega)]
  have e : (-1 + (l.length : Int)).toNat = l.length - 1 := by omega
  rw [e]; simp [List.dropLast_eq_take]

theorem take_one_eq_slash (l : List Char) : l.take 1 = ['/'] ↔ l.head? = some '/' := by
  cases l <;> simp

theorem take_one_ne_root (l : List Str) : l.take 1 ≠ [[]] ↔ l.head? ≠ some [] := by
  cases l <;> simp

theorem take_one_eq_root (l : List Str) : l.take 1 = [[]] ↔ l.head? = some [] := by
  cases l <;> simp

theorem cast_ite_port (c : Prop) [Decidable c] (a b : Nat) : ((if c then a else b : Nat) : Int) = if c then (a : Int) else b := by
  split <;> rfl

theorem fam_ite (c : Prop) [Decidable c] (a b : Bool) : fam (if c then a else b) = if c then fam a else fam b := by
  split <;> rfl

end C07
