import BoltonsVerif.C07.Model
/-
C07 — RFC 3986 section 5.2 ("Relative Resolution") and 5.3 ("Component Recomposition"),
written literally from the RFC text on strings (`Str = List Char`) and on the five
components of Appendix B (`C07.Ref`, `none` = "undefined").  Nothing here mentions boltons.
Core Lean only.
-/
namespace C07

/-- "not a slash" -/
def ns (c : Char) : Bool := !(c == '/')

/-! ### 5.2.4 Remove Dot Segments -/

/-- "removing the last segment and its preceding "/" (if any) from the output buffer" -/
def popSeg (out : Str) : Str :=
  ((out.reverse.dropWhile ns).drop 1).reverse

/-- "the first path segment in the input buffer ..., including the initial "/" character (if any)
    and any subsequent characters up to, but not including, the next "/" character or the end of
    the input buffer": (that segment, the rest of the input buffer) -/
def firstSeg : Str → Str × Str
  | '/' :: r => ('/' :: r.takeWhile ns, r.dropWhile ns)
  | r => (r.takeWhile ns, r.dropWhile ns)

/-- the loop of step 2 ("While the input buffer is not empty, loop as follows"), rules 2A–2E in the
    RFC's order; every rule shortens the input buffer, so `fuel > length of the input` is enough
    (`C07.rds_fuel_irrelevant`). -/
def rds : Nat → Str → Str → Str
  | 0, _, out => out
  | _, [], out => out
  | n+1, inp, out =>
    match inp with
    | '.' :: '.' :: '/' :: r => rds n r out                             -- 2A  "../"
    | '.' :: '/' :: r => rds n r out                                    -- 2A  "./"
    | '/' :: '.' :: '/' :: r => rds n ('/' :: r) out                    -- 2B  "/./"
    | ['/', '.'] => rds n ['/'] out                                     -- 2B  "/."
    | '/' :: '.' :: '.' :: '/' :: r => rds n ('/' :: r) (popSeg out)    -- 2C  "/../"
    | ['/', '.', '.'] => rds n ['/'] (popSeg out)                       -- 2C  "/.."
    | ['.'] => rds n [] out                                             -- 2D  "."
    | ['.', '.'] => rds n [] out                                        -- 2D  ".."
    | _ => let (seg, rest) := firstSeg inp; rds n rest (out ++ seg)     -- 2E

/-- `remove_dot_segments(path)`: step 1 initialises the buffers, step 3 returns the output buffer -/
def removeDotSegments (path : Str) : Str := rds (path.length + 1) path []

/-! ### 5.2.3 Merge Paths -/

/-- "all but the last segment of the base URI's path (i.e., excluding any characters after the
    right-most "/" in the base URI path, or excluding the entire base URI path if it does not contain
    any "/" characters)" -/
def dropAfterLastSlash (p : Str) : Str := (p.reverse.dropWhile ns).reverse

def merge (base : Ref) (refPath : Str) : Str :=
  if base.authority.isSome ∧ base.path = [] then '/' :: refPath
  else dropAfterLastSlash base.path ++ refPath

/-! ### 5.2.2 Transform References (strict parser) -/

def resolve (base r : Ref) : Ref :=
  if r.scheme.isSome then
    { scheme := r.scheme, authority := r.authority, path := removeDotSegments r.path,
      query := r.query, fragment := r.fragment }
  else if r.authority.isSome then
    { scheme := base.scheme, authority := r.authority, path := removeDotSegments r.path,
      query := r.query, fragment := r.fragment }
  else if r.path = [] then
    { scheme := base.scheme, authority := base.authority, path := base.path,
      query := if r.query.isSome then r.query else base.query, fragment := r.fragment }
  else if r.path.head? = some '/' then
    { scheme := base.scheme, authority := base.authority, path := removeDotSegments r.path,
      query := r.query, fragment := r.fragment }
  else
    { scheme := base.scheme, authority := base.authority, path := removeDotSegments (merge base r.path),
      query := r.query, fragment := r.fragment }

/-- resolving a sequence of references step by step -/
def resolveAll (base : Ref) (rs : List Ref) : Ref := rs.foldl resolve base

/-! ### 5.3 Component Recomposition -/

def recompose (t : Ref) : Str :=
  (match t.scheme with | some s => s ++ [':'] | none => []) ++
  (match t.authority with | some a => '/' :: '/' :: a | none => []) ++
  t.path ++
  (match t.query with | some q => '?' :: q | none => []) ++
  (match t.fragment with | some f => '#' :: f | none => [])

/-! ### Appendix B: parsing a URI reference into its five components

    `^(([^:/?#]+):)?(//([^/?#]*))?([^?#]*)(\?([^#]*))?(#(.*))?`   ($2 scheme, $4 authority, $5 path, $7 query,
    $9 fragment; a group that does not take part in the match is "undefined" = `none`) -/

def notIn (ds : List Char) (c : Char) : Bool := !(ds.contains c)

/-- `(([^:/?#]+):)?` : (scheme, rest) -/
def parseScheme (t : Str) : Option Str × Str :=
  let pre := t.takeWhile (notIn [':', '/', '?', '#'])
  match t.dropWhile (notIn [':', '/', '?', '#']) with
  | ':' :: rest => if pre ≠ [] then (some pre, rest) else (none, t)
  | _ => (none, t)

/-- `(//([^/?#]*))?` : (authority, rest) -/
def parseAuthority : Str → Option Str × Str
  | '/' :: '/' :: r => (some (r.takeWhile (notIn ['/', '?', '#'])), r.dropWhile (notIn ['/', '?', '#']))
  | t => (none, t)

/-- `(\?([^#]*))?` : (query, rest) -/
def parseQueryPart : Str → Option Str × Str
  | '?' :: r => (some (r.takeWhile (notIn ['#'])), r.dropWhile (notIn ['#']))
  | t => (none, t)

/-- `(#(.*))?` -/
def parseFragmentPart : Str → Option Str
  | '#' :: r => some r
  | _ => none

def rfcParse (t : Str) : Ref :=
  let (scheme, r1) := parseScheme t
  let (authority, r2) := parseAuthority r1
  let path := r2.takeWhile (notIn ['?', '#'])
  let (query, r4) := parseQueryPart (r2.dropWhile (notIn ['?', '#']))
  { scheme := scheme, authority := authority, path := path, query := query, fragment := parseFragmentPart r4 }

end C07
