import BoltonsVerif.C07.Proofs
import BoltonsVerif.C07.NavTie
/-
C07 — property theorems: `URL.navigate` = RFC 3986 section 5.2, normalised result.

Vocabulary (defined in Model / Spec / Proofs):
  * `URL`, `URL.navigate`, `URL.normalize`, `resolvePathParts`, `URL.toText` — the model of the code;
  * `URL.ofRelRef r` — the object `URL(text)` builds for a reference text whose RFC components are `r`
    (no scheme, no authority);
  * `resolve`, `removeDotSegments`, `merge`, `recompose` — RFC 3986 5.2.2 / 5.2.4 / 5.2.3 / 5.3, literally;
  * `URL.toRef u` — the five components `to_text()` prints (`toText_eq_recompose`);
  * `Ref.canon` — forgets the difference between an absent and a present-but-empty query / fragment
    (a `URL` object cannot represent it).  Paths, schemes and authorities are compared exactly:
    the statement's "an empty path under an authority is the same as '/'" is not even needed.
  * `QPairs`, `parseQsl`, `queryText`, `omdUpdate` — the items of `query_params` (key, value-or-None, in
    order, repeated keys included), `parse_qsl`, `QueryParamDict.to_text`, `OrderedMultiDict.update`;
    `CanonQuery q` / `CanonQ o` — query texts that parse and print back verbatim (`&`-separated non-empty
    pairs, no `;`): any keys, values, repetitions and order;
  * `AbsBase b` — the base has a host, a rooted or empty path with slash-free segments, lower-case
    scheme and host (what `URL(text)` gives for `scheme://host[/path]`).
-/
namespace C07

/-- `to_text()` is the RFC 5.3 recomposition of the components `toRef` names -/
theorem toText_eq_recompose (u : URL) : u.toText = recompose u.toRef := toText_eq_recompose' u

/-- `path_parts` and the path text determine each other (`split('/')` / `'/'.join`): the model's
    `URL.ofRelRef` (which splits) and `toRef` (which joins) read the same path -/
theorem path_text_roundtrip (p : Str) (segs : List Str) (hne : segs ≠ []) (h : ∀ s ∈ segs, NoSlash s) :
    joinSlash (splitSlash p) = p ∧ splitSlash (joinSlash segs) = segs ∧ (∀ s ∈ splitSlash p, NoSlash s) :=
  ⟨joinSlash_splitSlash p, splitSlash_joinSlash segs hne h, splitSlash_noSlash p⟩

example : ["".toList, "a".toList, "".toList, "b;p".toList] ≠ [] ∧
    ∀ s ∈ ["".toList, "a".toList, "".toList, "b;p".toList], NoSlash s := by decide

/-- **Bridge** (RFC 5.2.4 vs the code's segment stack).  For every rooted list of slash-free segments,
    removing dot segments from its text with the RFC's input/output-buffer algorithm gives the text of
    `resolve_path_parts` applied to the list. -/
theorem resolve_rooted_eq_rfc (segs : List Str) (h : ∀ s ∈ segs, NoSlash s) :
    removeDotSegments (joinSlash ([] :: segs)) = joinSlash (resolvePathParts ([] :: segs)) := by
  rw [joinSlash_root, resolvePathParts_root, joinSlash_root, removeDotSegments_flat segs h]

example : removeDotSegments "/a/b/../../../g/./h/..".toList = "/g/".toList := by decide
example : joinSlash (resolvePathParts (splitSlash "/a/b/../../../g/./h/..".toList)) = "/g/".toList := by decide

/-- The fuel of the RFC loop is irrelevant once it covers the input, for EVERY input and output buffer:
    each of the rules 2A–2E shortens the input buffer.  Hence `removeDotSegments` (fuel `length + 1`) is the
    RFC's unbounded `while` loop. -/
theorem rds_fuel_irrelevant (inp out : Str) (n m : Nat) (hn : inp.length ≤ n) (hm : inp.length ≤ m) :
    rds n inp out = rds m inp out := rds_fuel n inp out m hn hm

/-- the loop, unrolled once: `removeDotSegments` satisfies the RFC's loop equation -/
theorem rds_unroll (k : Nat) (inp out : Str) (h : inp ≠ []) : rds (k+1) inp out = rdsStep k inp out :=
  rds_succ k inp out h

/-- **navigate = RFC 5.2** for a reference without scheme and authority (path-absolute, path-relative
    with any mix of '.', '..' and empty segments, query-only, fragment-only or empty; `r.path`, `r.query`,
    `r.fragment` are arbitrary texts), against any base with a host - for BOTH versions of the code
    (`honour` = the repair of known finding C07-empty-query is present, see `URL.navigateWith`).

    `hcq`: the reference's query text is one that `parse_qsl`/`to_text` reproduce (`query_text_roundtrip`);
    keys may repeat, lack a value or have an empty one, in any order.  The base's `query_params` are arbitrary.
    `hq`: either the code has the repair, or the reference is outside the region "empty path,
    present-but-empty query, base has a query" (`?`, `?#s`), where the unrepaired code keeps the base query.
    `hdf`: when the reference path is empty the RFC keeps the base path verbatim while the code
    normalises it, so the base path must then be dot-free (the statement demands a dot-free result). -/
theorem navigateWith_eq_rfc (honour : Bool) (b : URL) (r : Ref) (hb : AbsBase b) (hr : RelRef r)
    (hdf : r.path ≠ [] ∨ DotFree b.parts) (hcq : CanonQ r.query)
    (hq : honour = true ∨ ¬ (r.path = [] ∧ r.query = some [] ∧ queryText b.query ≠ [])) :
    (URL.navigateWith honour b (URL.ofRelRef r)).toRef.canon = (resolve b.toRef r).canon := by
  obtain ⟨segs, hsegs⟩ := hb.rooted
  have hns : ∀ s ∈ segs, NoSlash s := fun s hs => hb.noSlash s (by simp [hsegs, hs])
  have hbase := toRef_rooted b segs hb.host_ne hsegs
  have hdf' : r.path ≠ [] ∨ DotFree segs := by
    rcases hdf with h | h
    · exact Or.inl h
    · exact Or.inr ((dotFree_root segs).1 (hsegs ▸ h))
  have hpath := navigate_path_eq_rfc b segs r hr hsegs hns b.toRef (Or.inl (by simp [hbase])) (by simp [hbase]) hdf'
  have hquery := relQuery_eq_rfc honour b b.toRef r hr (by simp [hbase]) hcq hq
  rw [navigate_rel honour b r hb]
  have hN : (resolvePathParts (relParts b r)) = [] :: process [] (relSegs segs r) := by
    rw [relParts_eq b r segs hsegs, resolvePathParts_root]
  rw [toRef_rooted (relResult honour b r) (process [] (relSegs segs r)) hb.host_ne hN]
  have hflat : flat (process [] (relSegs segs r)) = (resolve b.toRef r).path := by
    rw [← hpath, hN, joinSlash_root]
  simp only [Ref.canon, Ref.mk.injEq]
  refine ⟨?_, ?_, hflat, hquery, ?_⟩
  · rw [resolve_rel_scheme _ _ hr, hbase]; rfl
  · rw [resolve_rel_authority _ _ hr, hbase]; rfl
  · rw [resolve_rel_fragment _ _ hr]; exact dropEmpty_optOfStr_getD r.fragment

/-- **the FULL statement for the repaired code** (fix 35ff68e: `if not query_params and dest._query is None`):
    no restriction on the reference's query marker any more - `?` and `?#s` replace the base query. -/
theorem navigate_eq_rfc_repaired (b : URL) (r : Ref) (hb : AbsBase b) (hr : RelRef r)
    (hdf : r.path ≠ [] ∨ DotFree b.parts) (hcq : CanonQ r.query) :
    (URL.navigateWith true b (URL.ofRelRef r)).toRef.canon = (resolve b.toRef r).canon :=
  navigateWith_eq_rfc true b r hb hr hdf hcq (Or.inl rfl)

/-- ... which is the statement about `URL.navigate` (the version the source under test implements, flag
    regenerated on every run) as soon as that source has the repair -/
theorem navigate_eq_rfc_of_repair (hfix : C07.Gen.navHonoursEmptyQuery = true) (b : URL) (r : Ref)
    (hb : AbsBase b) (hr : RelRef r) (hdf : r.path ≠ [] ∨ DotFree b.parts) (hcq : CanonQ r.query) :
    (b.navigate (URL.ofRelRef r)).toRef.canon = (resolve b.toRef r).canon :=
  navigateWith_eq_rfc _ b r hb hr hdf hcq (Or.inl hfix)

/-- the statement that holds for the code under test whichever version it is.

    Full statement wanted: the same without `hq`.  It is FALSE for the unrepaired code
    (`navigate_empty_query_defect`, known finding C07-empty-query) and TRUE for the repaired one
    (`navigate_eq_rfc_repaired`). -/
theorem navigate_eq_rfc_partial (b : URL) (r : Ref) (hb : AbsBase b) (hr : RelRef r)
    (hdf : r.path ≠ [] ∨ DotFree b.parts) (hcq : CanonQ r.query)
    (hq : ¬ (r.path = [] ∧ r.query = some [] ∧ queryText b.query ≠ [])) :
    (b.navigate (URL.ofRelRef r)).toRef.canon = (resolve b.toRef r).canon :=
  navigateWith_eq_rfc _ b r hb hr hdf hcq (Or.inr hq)

/-- a base and a reference satisfying the hypotheses, with dots, empty segments, query and fragment -/
def exBase : URL := URL.ofComponents (some "http".toList) true "u".toList [] "a".toList false 81
  "/b/c/d;p".toList (some "q".toList) none
def exRef : Ref := ⟨none, none, ".././/g/.".toList, some "y".toList, some [] ⟩

example : AbsBase exBase ∧ RelRef exRef ∧ (exRef.path ≠ [] ∨ DotFree exBase.parts) ∧ CanonQ exRef.query ∧
    ¬ (exRef.path = [] ∧ exRef.query = some [] ∧ queryText exBase.query ≠ []) :=
  ⟨⟨by decide, ⟨_, rfl⟩, by decide, by decide, by decide⟩, ⟨rfl, rfl⟩, Or.inl (by decide), by decide, by decide⟩

/-- a base whose query repeats a key, and path-less / query-carrying references with repeated keys -/
def exBaseMulti : URL := URL.ofComponents (some "http".toList) true [] [] "a".toList false 0
  "/b/c".toList (some "tag=x&page=2&tag=y".toList) (some "top".toList)
def exRefFrag : Ref := ⟨none, none, [], none, some "sec".toList⟩
def exRefMulti : Ref := ⟨none, none, "../g".toList, some "k=&j=0&k&k=2".toList, none⟩

example : AbsBase exBaseMulti ∧ CanonQ exRefFrag.query ∧ CanonQ exRefMulti.query ∧ DotFree exBaseMulti.parts :=
  ⟨⟨by decide, ⟨_, rfl⟩, by decide, by decide, by decide⟩, by decide, by decide, by decide⟩
example : (exBaseMulti.navigate (URL.ofRelRef exRefFrag)).toText = "http://a/b/c?tag=x&page=2&tag=y#sec".toList := by
  decide
example : (exBaseMulti.navigate (URL.ofRelRef exRefMulti)).toText = "http://a/g?k=&j=0&k&k=2".toList := by decide

example : recompose (resolve exBase.toRef exRef) = "http://u@a:81/b//g/?y#".toList := by
  rw [toRef_rooted exBase _ (by decide) rfl]; decide

/-- the full statement (no restriction on the reference) holds for every base without a query -/
theorem navigate_eq_rfc_of_base_without_query (b : URL) (r : Ref) (hb : AbsBase b) (hr : RelRef r)
    (hdf : r.path ≠ [] ∨ DotFree b.parts) (hcq : CanonQ r.query) (hbq : b.query = []) :
    (b.navigate (URL.ofRelRef r)).toRef.canon = (resolve b.toRef r).canon :=
  navigate_eq_rfc_partial b r hb hr hdf hcq (fun h => h.2.2 (by rw [hbq]; rfl))

/-- ... and, for every base, for every reference that has a path (path-absolute or path-relative, any
    mix of '.', '..' and empty segments, any query and fragment, base with or without dot segments) -/
theorem navigate_eq_rfc_of_ref_with_path (b : URL) (r : Ref) (hb : AbsBase b) (hr : RelRef r)
    (hp : r.path ≠ []) (hcq : CanonQ r.query) :
    (b.navigate (URL.ofRelRef r)).toRef.canon = (resolve b.toRef r).canon :=
  navigate_eq_rfc_partial b r hb hr (Or.inl hp) hcq (fun h => hp h.1)

/-- text-level reading: the rendering of the result and the recomposed RFC target are recompositions
    of components that agree up to empty query / fragment markers -/
theorem navigate_renders_rfc_target_partial (b : URL) (r : Ref) (hb : AbsBase b) (hr : RelRef r)
    (hdf : r.path ≠ [] ∨ DotFree b.parts) (hcq : CanonQ r.query)
    (hq : ¬ (r.path = [] ∧ r.query = some [] ∧ queryText b.query ≠ [])) :
    ∃ X Y : Ref, (b.navigate (URL.ofRelRef r)).toText = recompose X ∧
      recompose (resolve b.toRef r) = recompose Y ∧ X.canon = Y.canon :=
  ⟨_, _, toText_eq_recompose _, rfl, navigate_eq_rfc_partial b r hb hr hdf hcq hq⟩

/-- The unrestricted statement is false for the unrepaired code: `URL('http://a/b?q').navigate('?')` keeps `?q`
    (RFC target: `http://a/b?`, i.e. no query parameters). -/
theorem navigate_empty_query_defect :
    ¬ ∀ (b : URL) (r : Ref), AbsBase b → RelRef r → DotFree b.parts → CanonQ r.query →
      (URL.navigateWith false b (URL.ofRelRef r)).toRef.canon = (resolve b.toRef r).canon := by
  intro h
  let b : URL := URL.ofComponents (some "http".toList) true [] [] "a".toList false 0 "/b".toList
    (some "q".toList) none
  let r : Ref := ⟨none, none, [], some [], none⟩
  have hb : AbsBase b := ⟨by decide, ⟨_, rfl⟩, by decide, by decide, by decide⟩
  have := h b r hb ⟨rfl, rfl⟩ (by decide) (by decide)
  rw [navigate_rel false b r hb] at this
  have hq := congrArg Ref.query this
  rw [toRef_rooted b _ (by decide) rfl] at hq
  revert hq
  decide

/-- why: `URL('?')` and `URL('')` are the same object — in the excluded region `navigate` does what RFC 5.2
    prescribes for the same reference without its `?` (this is the known finding's trigger predicate) -/
theorem empty_query_parses_as_no_query (r : Ref) :
    { URL.ofRelRef { r with query := some [] } with hasQuery := false } = URL.ofRelRef { r with query := none } := rfl

/-- ... and the unrepaired code never looks at the one bit that differs (any base, any non-replacing reference) -/
theorem unrepaired_ignores_query_marker (b d : URL) (m : Bool) (h : ¬ (d.scheme ≠ [] ∧ d.host ≠ [])) :
    URL.navigateWith false b { d with hasQuery := m } = URL.navigateWith false b d := by
  cases d
  simp only [URL.navigateWith, URL.pathText] at h ⊢
  rw [if_neg h, if_neg h]
  simp
  congr 1

example : ¬ ((URL.ofRelRef exRef).scheme ≠ [] ∧ (URL.ofRelRef exRef).host ≠ []) := by decide

/-! ### the query parameters: every item, in order, repeated keys included -/

/-- `parse_qsl` then `QueryParamDict.to_text` reproduce a query text made of `&`-separated non-empty pairs
    (no `;`) verbatim - whatever the keys, values, repetitions and order - and such a text has no
    parameters exactly when it is empty -/
theorem query_text_roundtrip (q : Str) (h : CanonQuery q) :
    queryText (parseQsl q) = q ∧ (parseQsl q = [] ↔ q = []) :=
  ⟨queryText_parseQsl q h, fun he => by
      have := queryText_parseQsl q h
      rw [he] at this
      exact this.symm, fun he => by subst he; exact parseQsl_nil⟩

example : CanonQuery "tag=x&page=2&tag=y".toList ∧ CanonQuery "k=&k&=v".toList ∧ ¬ CanonQuery "a=1;b=2".toList ∧
    ¬ CanonQuery "a=1&&b=2".toList ∧ ¬ CanonQuery "&".toList := by decide
example : parseQsl "k=&j=0&k&k=2".toList =
    [("k".toList, some []), ("j".toList, some "0".toList), ("k".toList, none), ("k".toList, some "2".toList)] := by
  decide
example : queryText (parseQsl ";a=1;;b=2&&a=3&".toList) = "a=1&b=2&a=3".toList := by decide

/-- `from_parts` hands the items to `update` of the fresh URL's empty `QueryParamDict`: all of them arrive,
    in order (`update` only removes keys the receiver already had) -/
theorem from_parts_keeps_all_items (E : QPairs) : omdUpdate [] E = E := omdUpdate_nil E

example : omdUpdate (parseQsl "a=0&b=1&a=2".toList) (parseQsl "a=7&c=8&a=9".toList) =
    parseQsl "b=1&a=7&c=8&a=9".toList := by decide

/-- The `query_params` of a navigation result are, item for item (order and repeated keys included), those of
    the reference - or those of the base when the reference has neither a path nor parameters (and, for the
    repaired code, no query component at all).  Any base, any reference that is not a replacing absolute URL. -/
theorem navigate_query_items (honour : Bool) (b dest : URL) (h : ¬ (dest.scheme ≠ [] ∧ dest.host ≠ [])) :
    (URL.navigateWith honour b dest).query =
      if dest.pathText = [] ∧ dest.query = [] ∧ ¬ (honour = true ∧ dest.hasQuery = true) then b.query
      else dest.query := by
  unfold URL.navigateWith
  rw [if_neg h]
  unfold URL.normalize
  simp only [if_true, omdUpdate_nil]
  by_cases hp : dest.pathText = [] <;> by_cases hq : dest.query = [] <;> simp [hp, hq]

/-- the same for `URL.navigate` of the code under test, for a reference that has parameters, a path, or no
    query component: the two versions agree there -/
theorem navigate_query_items_current (b dest : URL) (h : ¬ (dest.scheme ≠ [] ∧ dest.host ≠ []))
    (hm : dest.hasQuery = false ∨ dest.query ≠ [] ∨ dest.pathText ≠ []) :
    (b.navigate dest).query = if dest.pathText = [] ∧ dest.query = [] then b.query else dest.query := by
  rw [URL.navigate, navigate_query_items _ b dest h]
  rcases hm with hm | hm | hm <;> simp [hm]

example : (URL.ofRelRef exRefFrag).hasQuery = false ∧ (URL.ofRelRef exRefMulti).query ≠ [] := by decide

/-- a reference that has its own scheme and host replaces the base entirely -/
theorem navigate_absolute_replaces (b dest : URL) (hs : dest.scheme ≠ []) (hh : dest.host ≠ []) :
    b.navigate dest = dest := by
  unfold URL.navigate URL.navigateWith; simp [hs, hh]

/-- ... and that is the RFC target (5.2.2, "if defined(R.scheme)") when the reference's own path is
    rooted and dot-free (the code returns such a reference un-normalised) -/
theorem absolute_is_rfc_target (base : Ref) (dest : URL) (segs : List Str) (hs : dest.scheme ≠ [])
    (hh : dest.host ≠ []) (hp : dest.parts = [] :: segs) (hns : ∀ s ∈ segs, NoSlash s)
    (hdf : DotFree segs) : resolve base dest.toRef = dest.toRef := by
  rw [toRef_rooted dest segs hh hp]
  unfold resolve
  have : (optOfStr dest.scheme).isSome := by simp [optOfStr, hs]
  simp only [this, if_true]
  rw [removeDotSegments_flat segs hns, process_of_dotFree segs hdf]
  simp

/-- an absolute reference satisfying the hypotheses: `http://x/p/q` -/
def exAbs : URL := URL.ofComponents (some "http".toList) true [] [] "x".toList false 0 "/p/q".toList none none

example : exAbs.scheme ≠ [] ∧ exAbs.host ≠ [] ∧ exAbs.parts = [] :: ["p".toList, "q".toList] ∧
    (∀ s ∈ ["p".toList, "q".toList], NoSlash s) ∧ DotFree ["p".toList, "q".toList] := by decide

example : exBase.navigate exAbs = exAbs := navigate_absolute_replaces _ _ (by decide) (by decide)

/-- the result of `resolve_path_parts` contains no '.' or '..' segment, whatever the input -/
theorem resolve_dot_free (parts : List Str) : DotFree (resolvePathParts parts) :=
  resolvePathParts_dotFree parts

/-- the result of `navigate` contains no '.' or '..' segment — any base, any reference that is not a
    replacing absolute URL -/
theorem result_dot_free (b dest : URL) (h : ¬ (dest.scheme ≠ [] ∧ dest.host ≠ [])) :
    DotFree (b.navigate dest).parts := by
  unfold URL.navigate URL.navigateWith
  rw [if_neg h]
  unfold URL.normalize
  simp only [if_true]
  exact resolvePathParts_dotFree _

example : ¬ ((URL.ofRelRef exRef).scheme ≠ [] ∧ (URL.ofRelRef exRef).host ≠ []) := by decide
example : (exBase.navigate (URL.ofRelRef exRef)).toText = "http://u@a:81/b//g/?y".toList := by decide

/-- `resolve_path_parts` never climbs above the root: a rooted list stays rooted (the root marker `''`
    is never popped), for any number of '..' -/
theorem resolve_never_above_root (segs : List Str) :
    ∃ out, resolvePathParts ([] :: segs) = [] :: out :=
  ⟨_, resolvePathParts_root segs⟩

/-- the path of a navigation result under a host is rooted: its text is empty or starts with '/' -/
theorem never_above_root (b : URL) (r : Ref) (hb : AbsBase b) :
    ∃ out, (b.navigate (URL.ofRelRef r)).parts = [] :: out ∧
      (b.navigate (URL.ofRelRef r)).pathText = flat out := by
  obtain ⟨segs, hsegs⟩ := hb.rooted
  rw [URL.navigate, navigate_rel _ b r hb]
  refine ⟨process [] (relSegs segs r), ?_, ?_⟩
  · rw [relResult_parts, relParts_eq b r segs hsegs, resolvePathParts_root]
  · rw [URL.pathText, relResult_parts, relParts_eq b r segs hsegs, resolvePathParts_root, joinSlash_root]

/-- scheme, userinfo, host, address family and port are inherited from the base verbatim -/
theorem navigate_inherits_authority (b : URL) (r : Ref) (hb : AbsBase b) :
    let n := b.navigate (URL.ofRelRef r)
    n.scheme = b.scheme ∧ n.user = b.user ∧ n.pass = b.pass ∧ n.host = b.host ∧ n.v6 = b.v6 ∧
      n.port = b.port ∧ n.authorityText = b.authorityText := by
  rw [URL.navigate, navigate_rel _ b r hb]
  exact ⟨rfl, rfl, rfl, rfl, rfl, rfl, rfl⟩

/-- the class of bases of the theorems above is closed under navigation, and every result is dot-free:
    what makes chained navigation go through (either version of the code) -/
theorem navigateWith_closed (honour : Bool) (b : URL) (r : Ref) (hb : AbsBase b) :
    AbsBase (URL.navigateWith honour b (URL.ofRelRef r)) ∧
      DotFree (URL.navigateWith honour b (URL.ofRelRef r)).parts := by
  obtain ⟨segs, hsegs⟩ := hb.rooted
  rw [navigate_rel honour b r hb]
  refine ⟨⟨hb.host_ne, ⟨process [] (relSegs segs r), by rw [relResult_parts, relParts_eq b r segs hsegs, resolvePathParts_root]⟩, ?_,
    hb.lowerScheme, hb.lowerHost⟩, ?_⟩
  · intro s hs
    rcases resolvePathParts_mem _ s hs with h | h
    · rw [relParts_eq b r segs hsegs] at h
      simp at h
      rcases h with rfl | h
      · simp [NoSlash]
      · exact relSegs_noSlash segs r (fun x hx => hb.noSlash x (by simp [hsegs, hx])) s h
    · subst h; simp [NoSlash]
  · rw [relResult_parts]; exact resolvePathParts_dotFree _

theorem navigate_closed (b : URL) (r : Ref) (hb : AbsBase b) :
    AbsBase (b.navigate (URL.ofRelRef r)) ∧ DotFree (b.navigate (URL.ofRelRef r)).parts :=
  navigateWith_closed _ b r hb

/-- on references of that kind the RFC transformation respects `canon` of the base -/
theorem resolve_congr (X Y r : Ref) (hr : RelRef r) (h : X.canon = Y.canon) :
    (resolve X r).canon = (resolve Y r).canon := by
  have hs : X.scheme = Y.scheme := by simpa [Ref.canon] using congrArg Ref.scheme h
  have ha : X.authority = Y.authority := by simpa [Ref.canon] using congrArg Ref.authority h
  have hp : X.path = Y.path := by simpa [Ref.canon] using congrArg Ref.path h
  have hq : dropEmpty X.query = dropEmpty Y.query := by simpa [Ref.canon] using congrArg Ref.query h
  unfold resolve merge
  simp only [hr.1, hr.2, Option.isSome_none, Bool.false_eq_true, if_false, hs, ha, hp]
  by_cases h1 : r.path = []
  · simp only [h1, if_true, Ref.canon]
    cases hrq : r.query <;> simp [hq]
  · simp only [h1, if_false]

/-- **chained navigation = resolving step by step** (RFC 5.2 applied to each reference in turn, starting
    from the base), for every sequence of references without scheme/authority, for either version of the code.
    For the unrepaired one each reference's query must not be present-but-empty (the defect of
    `navigate_empty_query_defect` would otherwise enter at any step). -/
theorem chainedWith_eq_rfc (honour : Bool) (rs : List Ref) : ∀ (b : URL) (X : Ref), AbsBase b → DotFree b.parts →
    X.canon = b.toRef.canon →
    (∀ r ∈ rs, RelRef r ∧ (honour = true ∨ r.query ≠ some []) ∧ CanonQ r.query) →
    (URL.navigateAllWith honour b (rs.map URL.ofRelRef)).toRef.canon = (resolveAll X rs).canon := by
  induction rs with
  | nil => intro b X _ _ hX _; simpa [URL.navigateAllWith, resolveAll] using hX.symm
  | cons r rest ih =>
    intro b X hb hd hX hrs
    have hr := hrs r (by simp)
    have hc := navigateWith_closed honour b r hb
    have step := navigateWith_eq_rfc honour b r hb hr.1 (Or.inr hd) hr.2.2
      (hr.2.1.elim Or.inl (fun h => Or.inr (fun h' => h h'.2.1)))
    have := ih (URL.navigateWith honour b (URL.ofRelRef r)) (resolve X r) hc.1 hc.2
      ((resolve_congr X b.toRef r hr.1 hX).trans step.symm)
      (fun r' hr' => hrs r' (by simp [hr']))
    simpa [URL.navigateAllWith, resolveAll] using this

/-- the code under test, whichever version: `_partial` (no present-but-empty query in the chain) -/
theorem chained_eq_rfc_partial (rs : List Ref) (b : URL) (X : Ref) (hb : AbsBase b) (hd : DotFree b.parts)
    (hX : X.canon = b.toRef.canon) (hrs : ∀ r ∈ rs, RelRef r ∧ r.query ≠ some [] ∧ CanonQ r.query) :
    (b.navigateAll (rs.map URL.ofRelRef)).toRef.canon = (resolveAll X rs).canon :=
  chainedWith_eq_rfc _ rs b X hb hd hX (fun r hr => ⟨(hrs r hr).1, Or.inr (hrs r hr).2.1, (hrs r hr).2.2⟩)

/-- the chain theorem started at the base itself -/
theorem chained_from_base_partial (b : URL) (rs : List Ref) (hb : AbsBase b) (hd : DotFree b.parts)
    (hrs : ∀ r ∈ rs, RelRef r ∧ r.query ≠ some [] ∧ CanonQ r.query) :
    (b.navigateAll (rs.map URL.ofRelRef)).toRef.canon = (resolveAll b.toRef rs).canon :=
  chained_eq_rfc_partial rs b b.toRef hb hd rfl hrs

/-- **the FULL chain statement for the repaired code**: any references without scheme/authority, `?` included -/
theorem chained_eq_rfc_repaired (b : URL) (rs : List Ref) (hb : AbsBase b) (hd : DotFree b.parts)
    (hrs : ∀ r ∈ rs, RelRef r ∧ CanonQ r.query) :
    (URL.navigateAllWith true b (rs.map URL.ofRelRef)).toRef.canon = (resolveAll b.toRef rs).canon :=
  chainedWith_eq_rfc true rs b b.toRef hb hd rfl (fun r hr => ⟨(hrs r hr).1, Or.inl rfl, (hrs r hr).2⟩)

example : ∀ r ∈ [exRef, ⟨none, none, [], some [], none⟩, exRefMulti, ⟨none, none, [], some [], some "s".toList⟩],
    RelRef r ∧ CanonQ r.query := by decide
example : (URL.navigateAllWith true exBaseMulti ([⟨none, none, [], some [], some "s".toList⟩].map URL.ofRelRef)).toText
    = "http://a/b/c#s".toList := by decide
example : (URL.navigateAllWith false exBaseMulti ([⟨none, none, [], some [], some "s".toList⟩].map URL.ofRelRef)).toText
    = "http://a/b/c?tag=x&page=2&tag=y#s".toList := by decide

example : DotFree exBase.parts ∧ (∀ r ∈ [exRef, ⟨none, none, "..//x".toList, none, none⟩, exRefMulti, exRefFrag],
    RelRef r ∧ r.query ≠ some [] ∧ CanonQ r.query) := by decide


/-! ### two strengthenings: no condition on the base path, no condition on the query texts -/

/-- the RFC target with RFC 3986 6.2.2.3 path normalisation applied (the statement's "normalized result") -/
def Ref.normalized (t : Ref) : Ref := { t with path := removeDotSegments t.path }

/-- **navigate = normalised RFC 5.2 target, for bases WITH dot segments too.**  `navigateWith_eq_rfc` needs a
    dot-free base path when the reference path is empty (the RFC keeps the base path verbatim there, the code
    normalises it).  Against the normalised target no such condition is needed, and for a reference with a path
    normalising the target changes nothing (`resolve_target_path_normal`). -/
theorem navigateWith_eq_normalized_rfc (honour : Bool) (b : URL) (r : Ref) (hb : AbsBase b) (hr : RelRef r)
    (hcq : CanonQ r.query)
    (hq : honour = true ∨ ¬ (r.path = [] ∧ r.query = some [] ∧ queryText b.query ≠ [])) :
    (URL.navigateWith honour b (URL.ofRelRef r)).toRef.canon = (resolve b.toRef r).normalized.canon := by
  obtain ⟨segs, hsegs⟩ := hb.rooted
  have hns : ∀ s ∈ segs, NoSlash s := fun s hs => hb.noSlash s (by simp [hsegs, hs])
  have hbase := toRef_rooted b segs hb.host_ne hsegs
  have hpath := navigate_path_eq_normalized_rfc b segs r hr hsegs hns b.toRef (Or.inl (by simp [hbase])) (by simp [hbase])
  have hquery := relQuery_eq_rfc honour b b.toRef r hr (by simp [hbase]) hcq hq
  rw [navigate_rel honour b r hb]
  have hN : (resolvePathParts (relParts b r)) = [] :: process [] (relSegs segs r) := by
    rw [relParts_eq b r segs hsegs, resolvePathParts_root]
  rw [toRef_rooted (relResult honour b r) (process [] (relSegs segs r)) hb.host_ne hN]
  have hflat : flat (process [] (relSegs segs r)) = removeDotSegments (resolve b.toRef r).path := by
    rw [← hpath, hN, joinSlash_root]
  simp only [Ref.canon, Ref.normalized, Ref.mk.injEq]
  refine ⟨?_, ?_, hflat, hquery, ?_⟩
  · rw [resolve_rel_scheme _ _ hr, hbase]; rfl
  · rw [resolve_rel_authority _ _ hr, hbase]; rfl
  · rw [resolve_rel_fragment _ _ hr]; exact dropEmpty_optOfStr_getD r.fragment

/-- for a reference with a path (or a dot-free base path) the RFC target is already normalised: removing dot
    segments once more changes nothing (RFC 3986 5.2.4 is idempotent on what 5.2.2 produces) -/
theorem resolve_target_path_normal (b : URL) (r : Ref) (hb : AbsBase b) (hr : RelRef r)
    (hdf : r.path ≠ [] ∨ DotFree b.parts) :
    (resolve b.toRef r).normalized = resolve b.toRef r := by
  obtain ⟨segs, hsegs⟩ := hb.rooted
  have hns : ∀ s ∈ segs, NoSlash s := fun s hs => hb.noSlash s (by simp [hsegs, hs])
  have hbase := toRef_rooted b segs hb.host_ne hsegs
  have hdf' : r.path ≠ [] ∨ DotFree segs := by
    rcases hdf with h | h
    · exact Or.inl h
    · exact Or.inr ((dotFree_root segs).1 (hsegs ▸ h))
  have h1 := navigate_path_eq_rfc b segs r hr hsegs hns b.toRef (Or.inl (by simp [hbase])) (by simp [hbase]) hdf'
  have h2 := navigate_path_eq_normalized_rfc b segs r hr hsegs hns b.toRef (Or.inl (by simp [hbase])) (by simp [hbase])
  unfold Ref.normalized
  rw [← h2, h1]

/-- a base with dot segments in its path and an empty / fragment-only / query-only reference -/
def exBaseDots : URL := URL.ofComponents (some "http".toList) true [] [] "a".toList false 0
  "/b/../c/./d".toList (some "q".toList) none
example : AbsBase exBaseDots ∧ ¬ DotFree exBaseDots.parts ∧ RelRef exRefFrag ∧ CanonQ exRefFrag.query :=
  ⟨⟨by decide, ⟨_, rfl⟩, by decide, by decide, by decide⟩, by decide, by decide, by decide⟩
example : (URL.navigateWith true exBaseDots (URL.ofRelRef exRefFrag)).toText = "http://a/c/d?q#sec".toList := by decide

/-- **the query PARAMETERS of the result are the parameters of the RFC target's query, for ANY query texts** (`;`
    separators, empty pairs, pairs without `=` ... - no `CanonQ`): `bq` is the query text the base was parsed from
    (or `none`), the reference's query text is arbitrary.  For the unrepaired code the reference must not be a
    path-less one whose present query holds no parameter (`?`, `?&`, `?;`) against a base with parameters. -/
theorem navigateWith_params_eq_rfc (honour : Bool) (b : URL) (bq : Option Str) (r : Ref) (hb : AbsBase b)
    (hr : RelRef r) (hbq : b.query = parseQsl (bq.getD []))
    (hq : honour = true ∨
      ¬ (r.path = [] ∧ r.query.isSome = true ∧ parseQsl (r.query.getD []) = [] ∧ b.query ≠ [])) :
    (URL.navigateWith honour b (URL.ofRelRef r)).query
      = parseQsl ((resolve { b.toRef with query := bq } r).query.getD []) := by
  rw [navigate_rel honour b r hb, relResult_query, resolve_rel_query _ r hr]
  unfold relQuery
  by_cases h1 : r.path = []
  · simp only [h1, if_true]
    cases hrq : r.query with
    | none => simp [hbq]
    | some q =>
      simp only [Option.getD_some, Option.isSome_some, if_true]
      by_cases hp : parseQsl q = []
      · rcases hq with hh | hq
        · simp [hh, hp]
        · have hbe : b.query = [] := by
            by_cases hbe : b.query = []
            · exact hbe
            · exact absurd ⟨h1, by simp [hrq], by simpa [hrq] using hp, hbe⟩ hq
          cases honour <;> simp [hp, hbe]
      · simp [hp]
  · simp [h1]

/-- a base parsed from `?a=1;b=2&&c` and references with `;`, empty pairs and a bare `?` -/
def exBaseSemi : URL := URL.ofComponents (some "http".toList) true [] [] "a".toList false 0
  "/b".toList (some "a=1;b=2&&c".toList) none
example : AbsBase exBaseSemi ∧ exBaseSemi.query = parseQsl ((some "a=1;b=2&&c".toList).getD []) :=
  ⟨⟨by decide, ⟨_, rfl⟩, by decide, by decide, by decide⟩, rfl⟩
example : (URL.navigateWith true exBaseSemi (URL.ofRelRef ⟨none, none, "x".toList, some "&k;;j=&".toList, none⟩)).query
    = [("k".toList, none), ("j".toList, some [])] := by decide
example : (URL.navigateWith true exBaseSemi (URL.ofRelRef ⟨none, none, [], some ";".toList, none⟩)).query = [] ∧
    (URL.navigateWith false exBaseSemi (URL.ofRelRef ⟨none, none, [], some ";".toList, none⟩)).query
      = exBaseSemi.query := by decide

/-! ### the reference as a TEXT (the string argument of `navigate`) -/

/-- `t` is, by RFC 3986 Appendix B (`rfcParse`, Spec), a reference without scheme and without authority -/
def RelText (t : Str) : Prop := (rfcParse t).scheme = none ∧ (rfcParse t).authority = none

instance (t : Str) : Decidable (RelText t) := by unfold RelText; infer_instance

/-- for such a text the Appendix B components are the ones `URL(text)` finds in the model (`refOfText`: the
    fragment starts at the first `#`, the query at the first `?` before it), and they recompose to the text -/
theorem ref_text_parse (t : Str) (h : RelText t) :
    rfcParse t = refOfText t ∧ recompose (rfcParse t) = t ∧ RelRef (rfcParse t) := by
  have e := rfcParse_rel t h.1 h.2
  exact ⟨e, by rw [e]; exact recompose_refOfText t, h⟩

example : RelText "../g;x=1/./y?k=1&k#frag?x".toList ∧ ¬ RelText "g:h".toList ∧ ¬ RelText "//g".toList ∧
    RelText "./g:h".toList ∧ RelText "?#".toList ∧ RelText [] := by decide
example : rfcParse "http://u@h:1/p?q#f".toList =
    ⟨some "http".toList, some "u@h:1".toList, "/p".toList, some "q".toList, some "f".toList⟩ := by decide

/-- **navigate(text) = RFC 5.2 on the text's Appendix B components**, repaired code, every reference text without
    scheme and authority: path-absolute, path-relative with any mix of '.', '..' and empty segments, query-only
    (`?`, `?y`), fragment-only, empty -/
theorem navigate_text_eq_rfc_repaired (b : URL) (t : Str) (hb : AbsBase b) (ht : RelText t)
    (hdf : (rfcParse t).path ≠ [] ∨ DotFree b.parts) (hcq : CanonQ (rfcParse t).query) :
    (URL.navigateWith true b (URL.ofText t)).toRef.canon = (resolve b.toRef (rfcParse t)).canon := by
  have e := (ref_text_parse t ht).1
  unfold URL.ofText
  rw [← e]
  exact navigate_eq_rfc_repaired b (rfcParse t) hb ht hdf hcq

/-- ... and for the code under test whichever version it is, outside the `?`-region -/
theorem navigate_text_eq_rfc_partial (b : URL) (t : Str) (hb : AbsBase b) (ht : RelText t)
    (hdf : (rfcParse t).path ≠ [] ∨ DotFree b.parts) (hcq : CanonQ (rfcParse t).query)
    (hq : ¬ ((rfcParse t).path = [] ∧ (rfcParse t).query = some [] ∧ queryText b.query ≠ [])) :
    (b.navigate (URL.ofText t)).toRef.canon = (resolve b.toRef (rfcParse t)).canon := by
  have e := (ref_text_parse t ht).1
  unfold URL.ofText
  rw [← e]
  exact navigate_eq_rfc_partial b (rfcParse t) hb ht hdf hcq hq

example : RelText ".././/g/.?y#".toList ∧ CanonQ (rfcParse ".././/g/.?y#".toList).query ∧
    (rfcParse ".././/g/.?y#".toList).path ≠ [] := by decide
example : (URL.navigateWith true exBase (URL.ofText ".././/g/.?y#".toList)).toText = "http://u@a:81/b//g/?y".toList := by
  decide
example : (URL.navigateWith true exBaseMulti (URL.ofText "?".toList)).toText = "http://a/b/c".toList ∧
    (URL.navigateWith false exBaseMulti (URL.ofText "?".toList)).toText = "http://a/b/c?tag=x&page=2&tag=y".toList := by
  decide

/-! ### the case of the base's scheme and host does not matter (RFC 3986 6.2.2.1) -/

/-- the base with scheme and host in lower case -/
def URL.lowerCase (b : URL) : URL := { b with scheme := lower b.scheme, host := lower b.host }

theorem lower_eq_nil (s : Str) : lower s = [] ↔ s = [] := by simp [lower]

/-- navigating from a base gives the same result as navigating from the same base written in lower case, for
    every reference without scheme and host of its own -/
theorem navigate_base_case (honour : Bool) (b dest : URL) (hs : dest.scheme = []) (hh : dest.host = []) :
    URL.navigateWith honour b dest = URL.navigateWith honour b.lowerCase dest := by
  have hn : ¬ (dest.scheme ≠ [] ∧ dest.host ≠ []) := by simp [hs]
  unfold URL.navigateWith
  rw [if_neg hn, if_neg hn]
  simp [URL.normalize, URL.lowerCase, orStr, hs, hh, lower_idem, lower_eq_nil]

/-- a base with a host and a rooted path of slash-free segments, in ANY case -/
structure HostBase (b : URL) : Prop where
  host_ne : b.host ≠ []
  rooted : ∃ segs, b.parts = [] :: segs
  noSlash : ∀ s ∈ b.parts, NoSlash s

theorem HostBase.lower {b : URL} (hb : HostBase b) : AbsBase b.lowerCase :=
  ⟨by simpa [URL.lowerCase, lower_eq_nil] using hb.host_ne, hb.rooted, hb.noSlash,
    by simp [URL.lowerCase, lower_idem], by simp [URL.lowerCase, lower_idem]⟩

/-- **navigate = RFC 5.2 against the case-normalised base, for bases in any case** (`HTTP://A.Example/B` …):
    the lower-case hypotheses of `AbsBase` are not needed -/
theorem navigateWith_eq_rfc_anycase (honour : Bool) (b : URL) (r : Ref) (hb : HostBase b) (hr : RelRef r)
    (hdf : r.path ≠ [] ∨ DotFree b.parts) (hcq : CanonQ r.query)
    (hq : honour = true ∨ ¬ (r.path = [] ∧ r.query = some [] ∧ queryText b.query ≠ [])) :
    (URL.navigateWith honour b (URL.ofRelRef r)).toRef.canon = (resolve b.lowerCase.toRef r).canon := by
  rw [navigate_base_case honour b (URL.ofRelRef r) (by simp [URL.ofRelRef, URL.ofComponents])
    (by simp [URL.ofRelRef, URL.ofComponents])]
  exact navigateWith_eq_rfc honour b.lowerCase r hb.lower hr hdf hcq hq

/-- a base in mixed case -/
def exBaseCase : URL := URL.ofComponents (some "HTtp".toList) true "Us".toList [] "A.Example".toList false 0
  "/B/c".toList none none
example : HostBase exBaseCase ∧ ¬ AbsBase exBaseCase := by
  refine ⟨⟨by decide, ⟨_, rfl⟩, by decide⟩, fun h => ?_⟩
  exact absurd h.lowerScheme (by decide)
example : (URL.navigateWith true exBaseCase (URL.ofText "../D?k".toList)).toText = "http://Us@a.example/D?k".toList := by
  decide

/-- **chained navigation through reference TEXTS = resolving the texts step by step** (repaired code): every text
    is parsed by Appendix B (`rfcParse`) on the RFC side and by `URL(text)` on the code side -/
theorem chained_texts_eq_rfc_repaired (b : URL) (ts : List Str) (hb : AbsBase b) (hd : DotFree b.parts)
    (hts : ∀ t ∈ ts, RelText t ∧ CanonQ (rfcParse t).query) :
    (URL.navigateAllWith true b (ts.map URL.ofText)).toRef.canon = (resolveAll b.toRef (ts.map rfcParse)).canon := by
  have e : ts.map URL.ofText = (ts.map rfcParse).map URL.ofRelRef := by
    rw [List.map_map]
    apply List.map_congr_left
    intro t ht
    simp only [Function.comp, URL.ofText]
    rw [(ref_text_parse t (hts t ht).1).1]
  rw [e]
  apply chained_eq_rfc_repaired b (ts.map rfcParse) hb hd
  intro r hr
  obtain ⟨t, ht, rfl⟩ := List.mem_map.1 hr
  exact ⟨(hts t ht).1, (hts t ht).2⟩

example : ∀ t ∈ ["../x/./y?k=1&k".toList, "?".toList, "#top".toList, "..//z".toList],
    RelText t ∧ CanonQ (rfcParse t).query := by decide
example : (URL.navigateAllWith true exBaseMulti
      (["../x/./y?k=1&k".toList, "?".toList, "#top".toList, "..//z".toList].map URL.ofText)).toText
    = "http://a//z".toList := by decide

/-! ### bases WITHOUT a host (round 3c): `file:///a/b`, `foo:/a/b`, `urn:/x` - RFC 5.2.3 "merge" with an empty or an
    undefined base authority -/

/-- a base without a host whose path is rooted and NOT empty (at least one segment after the root marker: without a
    host the code does not re-root the merged path - and for an undefined authority neither does RFC 5.2.3), scheme
    in lower case.  Userinfo / port are arbitrary (boltons keeps them even without a host). -/
structure HostlessBase (b : URL) : Prop where
  host_nil : b.host = []
  rooted : ∃ s segs, b.parts = [] :: s :: segs
  noSlash : ∀ s ∈ b.parts, NoSlash s
  lowerScheme : lower b.scheme = b.scheme

/-- `B` is the base as RFC 3986 sees it: scheme, path and query of `b`.  The authority is left open - undefined for
    `foo:/a/b`, defined and empty for `file:///a/b`; 5.2.2 only hands it on and 5.2.3 does not look at it when the
    base path is not empty. -/
def RefOfBase (b : URL) (B : Ref) : Prop :=
  B.scheme = optOfStr b.scheme ∧ B.path = b.pathText ∧ B.query = optOfStr (queryText b.query)

instance (b : URL) (B : Ref) : Decidable (RefOfBase b B) := by unfold RefOfBase; infer_instance

/-- **navigate = RFC 5.2 for bases without a host**, component by component (how `to_text()` writes an empty
    authority is property C06's business, so the statement is about the components): scheme, path, query and
    fragment of the result are those of the RFC target, the target's authority is the base's, and the result has
    no host and the base's userinfo / port.  Either version of the code; same side conditions as
    `navigateWith_eq_rfc`. -/
theorem navigateWith_eq_rfc_hostless (honour : Bool) (b : URL) (B r : Ref) (hb : HostlessBase b)
    (hB : RefOfBase b B) (hr : RelRef r) (hdf : r.path ≠ [] ∨ DotFree b.parts) (hcq : CanonQ r.query)
    (hq : honour = true ∨ ¬ (r.path = [] ∧ r.query = some [] ∧ queryText b.query ≠ [])) :
    optOfStr (URL.navigateWith honour b (URL.ofRelRef r)).scheme = (resolve B r).scheme ∧
    (resolve B r).authority = B.authority ∧
    ((URL.navigateWith honour b (URL.ofRelRef r)).host = [] ∧
      (URL.navigateWith honour b (URL.ofRelRef r)).user = b.user ∧
      (URL.navigateWith honour b (URL.ofRelRef r)).pass = b.pass ∧
      (URL.navigateWith honour b (URL.ofRelRef r)).port = b.port) ∧
    (URL.navigateWith honour b (URL.ofRelRef r)).pathText = (resolve B r).path ∧
    dropEmpty (optOfStr (queryText (URL.navigateWith honour b (URL.ofRelRef r)).query)) = dropEmpty (resolve B r).query ∧
    dropEmpty (optOfStr (URL.navigateWith honour b (URL.ofRelRef r)).fragment) = dropEmpty (resolve B r).fragment := by
  obtain ⟨s0, segs0, hsegs⟩ := hb.rooted
  have hns : ∀ s ∈ s0 :: segs0, NoSlash s := fun s hs => hb.noSlash s (by rw [hsegs]; exact List.mem_cons_of_mem _ hs)
  have hlh : lower b.host = b.host := by rw [hb.host_nil]; rfl
  have hpathB : B.path = flat (s0 :: segs0) := by rw [hB.2.1, URL.pathText, hsegs, joinSlash_root]
  have hdf' : r.path ≠ [] ∨ DotFree (s0 :: segs0) := by
    rcases hdf with h | h
    · exact Or.inl h
    · exact Or.inr ((dotFree_root _).1 (hsegs ▸ h))
  have hpath := navigate_path_eq_rfc b (s0 :: segs0) r hr hsegs hns B (Or.inr (by simp)) hpathB hdf'
  have hquery := relQuery_eq_rfc honour b B r hr hB.2.2 hcq hq
  rw [navigate_rel_rooted honour b r (s0 :: segs0) hsegs (Or.inr (by simp)) hb.lowerScheme hlh]
  refine ⟨?_, resolve_rel_authority _ _ hr, ⟨hb.host_nil, rfl, rfl, rfl⟩, ?_, hquery, ?_⟩
  · rw [resolve_rel_scheme _ _ hr, hB.1]; rfl
  · rw [URL.pathText, relResult_parts]; exact hpath
  · rw [resolve_rel_fragment _ _ hr]; exact dropEmpty_optOfStr_getD r.fragment

/-- `file:///a/b/c?q` (authority defined and empty) and `foo:/a/b` (authority undefined) -/
def exBaseFile : URL := URL.ofComponents (some "file".toList) true [] [] [] false 0 "/a/b/c".toList (some "q".toList) none
def exBaseFoo : URL := URL.ofComponents (some "foo".toList) false [] [] [] false 0 "/a/b".toList none none

example : HostlessBase exBaseFile ∧ HostlessBase exBaseFoo :=
  ⟨⟨rfl, ⟨_, _, rfl⟩, by decide, by decide⟩, ⟨rfl, ⟨_, _, rfl⟩, by decide, by decide⟩⟩
example : RefOfBase exBaseFile ⟨some "file".toList, some [], "/a/b/c".toList, some "q".toList, none⟩ ∧
    RefOfBase exBaseFoo ⟨some "foo".toList, none, "/a/b".toList, none, none⟩ := by decide
example : recompose (resolve ⟨some "file".toList, some [], "/a/b/c".toList, some "q".toList, none⟩ exRef)
    = "file:///a//g/?y#".toList := by decide
example : (URL.navigateWith true exBaseFile (URL.ofRelRef exRef)).pathText = "/a//g/".toList ∧
    (URL.navigateWith true exBaseFoo (URL.ofRelRef ⟨none, none, "../../../x/.".toList, none, none⟩)).pathText
      = "/x/".toList := by decide

/-- ... and as a statement about the printed text (`toRef`) for a base whose scheme takes no network location
    (`foo:/a/b`, `urn:/x`: the authority is undefined before and after; the C06 question how an EMPTY authority is
    printed does not arise) -/
theorem navigateWith_eq_rfc_nonetloc (honour : Bool) (b : URL) (r : Ref) (hb : HostlessBase b)
    (hu : b.user = []) (hsep : b.netlocSep = false) (hnn : b.usesNetloc = false) (hr : RelRef r)
    (hdf : r.path ≠ [] ∨ DotFree b.parts) (hcq : CanonQ r.query)
    (hq : honour = true ∨ ¬ (r.path = [] ∧ r.query = some [] ∧ queryText b.query ≠ [])) :
    (URL.navigateWith honour b (URL.ofRelRef r)).toRef.canon = (resolve b.toRef r).canon := by
  have hauthT : ∀ u : URL, u.user = [] → u.host = [] → u.authorityText = [] := by
    intro u h1 h2; simp [URL.authorityText, h1, h2]
  have hbRef : b.toRef =
      ⟨optOfStr b.scheme, none, b.pathText, optOfStr (queryText b.query), optOfStr b.fragment⟩ := by
    unfold URL.toRef
    simp [hauthT b hu hb.host_nil, hnn]
  have hB : RefOfBase b b.toRef := by rw [hbRef]; exact ⟨rfl, rfl, rfl⟩
  have h := navigateWith_eq_rfc_hostless honour b b.toRef r hb hB hr hdf hcq hq
  obtain ⟨hs, ha, ⟨hh, hu', _, _⟩, hp, hqq, hf⟩ := h
  have hnn' : (URL.navigateWith honour b (URL.ofRelRef r)).usesNetloc = false := by
    obtain ⟨s0, segs0, hsegs⟩ := hb.rooted
    have hlh : lower b.host = b.host := by rw [hb.host_nil]; rfl
    rw [navigate_rel_rooted honour b r (s0 :: segs0) hsegs (Or.inr (by simp)) hb.lowerScheme hlh]
    rw [← hnn]
    simp [URL.usesNetloc, relResult, hsep]
    by_cases h1 : (schemePort? b.scheme).isSome = true <;> by_cases h2 : inNoNetloc b.scheme = true <;>
      by_cases h3 : (schemePort? (afterLastPlus b.scheme)).isSome = true <;> simp [h1, h2, h3]
  have hnRef : (URL.navigateWith honour b (URL.ofRelRef r)).toRef =
      ⟨optOfStr (URL.navigateWith honour b (URL.ofRelRef r)).scheme, none,
        (URL.navigateWith honour b (URL.ofRelRef r)).pathText,
        optOfStr (queryText (URL.navigateWith honour b (URL.ofRelRef r)).query),
        optOfStr (URL.navigateWith honour b (URL.ofRelRef r)).fragment⟩ := by
    unfold URL.toRef
    simp [hauthT _ (hu'.trans hu) hh, hnn']
  rw [hnRef]
  simp only [Ref.canon, Ref.mk.injEq]
  refine ⟨hs, ?_, hp, ?_, ?_⟩
  · rw [ha, hbRef]
  · rw [dropEmpty_optOfStr] at hqq ⊢; exact hqq
  · rw [dropEmpty_optOfStr] at hf ⊢; exact hf

example : HostlessBase exBaseFoo ∧ exBaseFoo.user = [] ∧ exBaseFoo.netlocSep = false ∧ exBaseFoo.usesNetloc = false := by
  refine ⟨⟨rfl, ⟨_, _, rfl⟩, by decide, by decide⟩, rfl, rfl, by decide⟩
example : (URL.navigateWith true exBaseFoo (URL.ofRelRef exRef)).toText = "foo://g/?y".toList := by decide

/-! ### the code under test (round 3c): /repo has the repair (35bb52f), so the FULL statement is the one that applies -/

/-- The source under test HAS the repair of known finding C07-empty-query: the flag is regenerated on every run by
    evaluating `URL.navigate` of the tree under test on the finding's probes (`C07.Gen.navHonoursEmptyQuery`), and
    this `rfl` stops checking - naming this theorem and the three below - as soon as an edit loses the repair.  The
    unrepaired version of the model (`URL.navigateWith false`) is kept as a REGRESSION DETECTOR only: after such an
    edit model and code still agree (the correspondence stays in step) and the oracle reports the `?` input. -/
theorem navigate_is_repaired : C07.Gen.navHonoursEmptyQuery = true := rfl

/-- **the full statement about `URL.navigate` of the code under test** (no `_partial`, no restriction on the
    reference's query marker) -/
theorem navigate_eq_rfc (b : URL) (r : Ref) (hb : AbsBase b) (hr : RelRef r)
    (hdf : r.path ≠ [] ∨ DotFree b.parts) (hcq : CanonQ r.query) :
    (b.navigate (URL.ofRelRef r)).toRef.canon = (resolve b.toRef r).canon :=
  navigate_eq_rfc_of_repair navigate_is_repaired b r hb hr hdf hcq

/-- **chained navigation of the code under test = resolving step by step**, any references without scheme/authority -/
theorem chained_eq_rfc (b : URL) (rs : List Ref) (hb : AbsBase b) (hd : DotFree b.parts)
    (hrs : ∀ r ∈ rs, RelRef r ∧ CanonQ r.query) :
    (b.navigateAll (rs.map URL.ofRelRef)).toRef.canon = (resolveAll b.toRef rs).canon := by
  have e : ∀ ds : List URL, b.navigateAll ds = URL.navigateAllWith true b ds := by
    intro ds
    unfold URL.navigateAll URL.navigateAllWith URL.navigate
    rw [navigate_is_repaired]
  rw [e]
  exact chained_eq_rfc_repaired b rs hb hd hrs

/-- ... and for a reference given as a text -/
theorem navigate_text_eq_rfc (b : URL) (t : Str) (hb : AbsBase b) (ht : RelText t)
    (hdf : (rfcParse t).path ≠ [] ∨ DotFree b.parts) (hcq : CanonQ (rfcParse t).query) :
    (b.navigate (URL.ofText t)).toRef.canon = (resolve b.toRef (rfcParse t)).canon := by
  unfold URL.navigate
  rw [navigate_is_repaired]
  exact navigate_text_eq_rfc_repaired b t hb ht hdf hcq

example : (exBaseMulti.navigate (URL.ofText "?".toList)).toText = "http://a/b/c".toList := by decide
example : (exBaseMulti.navigateAll ([exRefMulti, ⟨none, none, [], some [], some "s".toList⟩].map URL.ofRelRef)).toText
    = "http://a/g#s".toList := by decide

/-! ### navigate's glue: which component comes from where (any base, any non-replacing reference, either version) -/

/-- the fragment is never inherited: the result carries the reference's fragment (none if it has none) -/
theorem navigate_fragment (honour : Bool) (b dest : URL) (h : ¬ (dest.scheme ≠ [] ∧ dest.host ≠ [])) :
    (URL.navigateWith honour b dest).fragment = dest.fragment := by
  unfold URL.navigateWith
  rw [if_neg h]
  simp [URL.normalize]

/-- scheme / userinfo / host / port: the reference's own value where it has one (`dest.x or self.x`), else the
    base's; scheme and host then lower-cased by the final `normalize()`; the address family follows the host.
    This covers scheme-relative references (`//host/p`) and references passed as edited `URL` objects too. -/
theorem navigate_authority_fields (honour : Bool) (b dest : URL) (h : ¬ (dest.scheme ≠ [] ∧ dest.host ≠ [])) :
    let n := URL.navigateWith honour b dest
    n.scheme = lower (orStr dest.scheme b.scheme) ∧ n.host = lower (orStr dest.host b.host) ∧
      n.user = orStr dest.user b.user ∧ n.pass = orStr dest.pass b.pass ∧
      n.port = (if dest.port ≠ 0 then dest.port else b.port) ∧
      n.v6 = (if dest.host ≠ [] then dest.v6 else b.v6) ∧ n.netlocSep = false ∧ n.hasQuery = false := by
  unfold URL.navigateWith
  rw [if_neg h]
  simp [URL.normalize]

/-- a scheme-relative reference `//h:99/p/../q` against `exBase` (`http://u@a:81/b/c/d;p?q`): host and port of the
    reference, scheme AND userinfo of the base (boltons keeps `u@`; RFC 3986 would drop it - references with an
    authority are outside the statement), path and query of the reference -/
def exSchemeRel : URL := URL.ofComponents none true [] [] "H".toList false 99 "/p/../q".toList none none
example : ¬ (exSchemeRel.scheme ≠ [] ∧ exSchemeRel.host ≠ []) := by decide
example : (URL.navigateWith true exBase exSchemeRel).toText = "http://u@h:99/q".toList ∧
    (URL.navigateWith false exBase exSchemeRel).toText = "http://u@h:99/q".toList := by decide

/-- `normalize()` case rules: scheme and host are lower-cased exactly when `with_case`; userinfo, port, query and
    fragment are never touched; the path is dot-resolved either way -/
theorem normalize_fields (u : URL) (c : Bool) :
    (u.normalize c).scheme = (if c then lower u.scheme else u.scheme) ∧
    (u.normalize c).host = (if c then lower u.host else u.host) ∧
    (u.normalize c).parts = resolvePathParts u.parts ∧
    (u.normalize c).user = u.user ∧ (u.normalize c).pass = u.pass ∧ (u.normalize c).port = u.port ∧
    (u.normalize c).query = u.query ∧ (u.normalize c).fragment = u.fragment ∧ (u.normalize c).v6 = u.v6 := by
  cases c <;> simp [URL.normalize]

/-- the result of `navigate` has a lower-case scheme and host (`normalize()` is its last step) -/
theorem navigate_result_lowercase (honour : Bool) (b dest : URL) (h : ¬ (dest.scheme ≠ [] ∧ dest.host ≠ [])) :
    lower (URL.navigateWith honour b dest).scheme = (URL.navigateWith honour b dest).scheme ∧
    lower (URL.navigateWith honour b dest).host = (URL.navigateWith honour b dest).host := by
  have := navigate_authority_fields honour b dest h
  simp only at this
  rw [this.1, this.2.1]
  exact ⟨lower_idem _, lower_idem _⟩

/-- a text and the `URL` parsed from it are the same reference (the model's `dest` IS `URL(text)`): what differs
    between the two call styles is only whether a replacing absolute reference is returned as the parsed object or
    as a copy made through `to_text()`; for a dest with a host that copy prints the same text -/
theorem navigate_replacing_text (b dest : URL) (hs : dest.scheme ≠ []) (hh : dest.host ≠ []) :
    (b.navigate dest).toText = dest.toText := by
  rw [navigate_absolute_replaces b dest hs hh]

/-- `normalize()` is idempotent, with or without case normalisation, for every URL object -/
theorem normalize_idempotent (u : URL) (c : Bool) : (u.normalize c).normalize c = u.normalize c := by
  unfold URL.normalize
  have hp := resolvePathParts_of_dotFree _ (resolvePathParts_dotFree u.parts)
  cases c <;> simp [hp, lower_idem]

/-- `navigate` ends with `normalize()`, so normalising a navigation result changes nothing -/
theorem navigate_result_normal (b dest : URL) (h : ¬ (dest.scheme ≠ [] ∧ dest.host ≠ [])) :
    (b.navigate dest).normalize = b.navigate dest := by
  unfold URL.navigate URL.navigateWith
  rw [if_neg h]
  exact normalize_idempotent _ true

/-! ### SOURCE TIE of `URL.navigate`'s decision logic (round 3c; see NavTie.lean) -/

/-- **the values the SOURCE of `navigate` computes are the model's**: the translated normal form of the method,
    applied to the components of two URL objects, returns the components of `dest` itself for a replacing absolute
    reference and otherwise exactly the nine values (`modelCore`) the model's `navigateWith true` hands to
    `from_parts` / `ret.family` - for ALL object states.  The proof only case-splits on the atomic facts the method
    can look at (reference replacing? path empty / rooted? base host? base directory rooted? reference parameters /
    query marker?) and lets `simp` evaluate both sides, so re-ordered or re-nested branches survive. -/
theorem src_navigate_core_eq_model (self dest : URL) :
    srcCore self dest = if dest.scheme ≠ [] ∧ dest.host ≠ [] then coreOf dest else modelCore self dest := by
  obtain ⟨ds, dsep, du, dpw, dh, dv6, dport, dparts, dq, dhq, df⟩ := dest
  obtain ⟨ss, ssep, su, spw, sh, sv6, sport, sparts, sq, shq, sf⟩ := self
  simp only [srcCore, coreOf, NavSrc.navigate_core, NavSrc.navigate_core.body, modelCore, URL.pathText, orStr,
    nav_slice_take_one_chars, nav_slice_take_one_strs, nav_slice_dropLast_strs, take_one_eq_slash, take_one_ne_root,
    take_one_eq_root, cast_ite_port, fam_ite]
  by_cases habs : ds ≠ [] ∧ dh ≠ []
  · simp [habs.1, habs.2]
  · have habs' : ¬ (¬ ds = [] ∧ ¬ dh = []) := habs
    by_cases hp : joinSlash dparts = []
    · by_cases hq : dq = [] <;> cases dhq <;> simp [habs', hp, hq]
    · by_cases hsl : (joinSlash dparts).head? = some '/'
      · simp [habs', hp, hsl]
      · by_cases hh : sh = [] <;> by_cases hr : sparts.dropLast.head? = some [] <;>
          simp [habs', hp, hsl, hh, hr]

/-- ... hence `from_parts(**values)`, `ret.family = …`, `ret.normalize()` applied to what the source computes IS the
    model's navigate, for every reference that does not replace the base -/
theorem src_navigate_eq_model (self dest : URL) (h : ¬ (dest.scheme ≠ [] ∧ dest.host ≠ [])) :
    ofCore (srcCore self dest) = URL.navigateWith true self dest := by
  rw [src_navigate_core_eq_model, if_neg h, ofCore_modelCore self dest h]

/-- ... and a reference with its own scheme and host is handed back as it is ("replaces the base entirely") -/
theorem src_navigate_replacing (self dest : URL) (hs : dest.scheme ≠ []) (hh : dest.host ≠ []) :
    srcCore self dest = coreOf dest := by
  rw [src_navigate_core_eq_model, if_pos ⟨hs, hh⟩]

/-- **the RFC statement about what the source computes**: for a base with a host and any reference without scheme and
    authority, `from_parts` + `normalize()` of the values computed by the translated source renders to the RFC 3986
    5.2 target -/
theorem src_navigate_eq_rfc (b : URL) (r : Ref) (hb : AbsBase b) (hr : RelRef r)
    (hdf : r.path ≠ [] ∨ DotFree b.parts) (hcq : CanonQ r.query) :
    (ofCore (srcCore b (URL.ofRelRef r))).toRef.canon = (resolve b.toRef r).canon := by
  rw [src_navigate_eq_model b (URL.ofRelRef r) (by simp [URL.ofRelRef, URL.ofComponents])]
  exact navigate_eq_rfc_repaired b r hb hr hdf hcq

/-- non-vacuity: the translated source on `http://u@a:81/b/c/d;p?q` + `.././/g/.?y#` -/
example : (ofCore (srcCore exBase (URL.ofRelRef exRef))).toText = "http://u@a:81/b//g/?y".toList := by decide
example : srcCore exBase exAbs = coreOf exAbs := src_navigate_replacing _ _ (by decide) (by decide)

/-! ### chained navigation from a base without a host (round 3c) -/

theorem process_ne_nil (stack segs : List Str) (h : segs ≠ []) : process stack segs ≠ [] := by
  rcases List.eq_nil_or_concat segs with hs | ⟨init, x, hs⟩
  · exact absurd hs h
  · subst hs
    unfold process
    simp only [List.concat_eq_append, List.foldl_append, List.foldl, List.getLast?_append, List.getLast?_singleton]
    by_cases h1 : x = dot
    · simp [h1]
    · by_cases h2 : x = dotdot
      · simp [h2]
      · simp [h1, h2, pstep]

/-- the class of hostless bases is closed under navigation, and the result is dot-free -/
theorem navigateWith_closed_hostless (honour : Bool) (b : URL) (r : Ref) (hb : HostlessBase b) :
    HostlessBase (URL.navigateWith honour b (URL.ofRelRef r)) ∧
      DotFree (URL.navigateWith honour b (URL.ofRelRef r)).parts := by
  obtain ⟨s0, segs0, hsegs⟩ := hb.rooted
  have hlh : lower b.host = b.host := by rw [hb.host_nil]; rfl
  rw [navigate_rel_rooted honour b r (s0 :: segs0) hsegs (Or.inr (by simp)) hb.lowerScheme hlh]
  have hparts : (relResult honour b r).parts = [] :: process [] (relSegs (s0 :: segs0) r) := by
    rw [relResult_parts, relParts_eq b r (s0 :: segs0) hsegs, resolvePathParts_root]
  have hne : relSegs (s0 :: segs0) r ≠ [] := by
    unfold relSegs
    split
    · simp
    · split
      · exact splitSlash_ne_nil _
      · intro h
        have := splitSlash_ne_nil r.path
        simp at h
        exact this h.2
  refine ⟨⟨hb.host_nil, ?_, ?_, hb.lowerScheme⟩, ?_⟩
  · rw [hparts]
    cases hpr : process [] (relSegs (s0 :: segs0) r) with
    | nil => exact absurd hpr (process_ne_nil _ _ hne)
    | cons a t => exact ⟨a, t, rfl⟩
  · intro s hs
    rw [relResult_parts] at hs
    rcases resolvePathParts_mem _ s hs with h | h
    · rw [relParts_eq b r (s0 :: segs0) hsegs] at h
      simp only [List.mem_cons] at h
      rcases h with rfl | h
      · simp [NoSlash]
      · exact relSegs_noSlash (s0 :: segs0) r
          (fun x hx => hb.noSlash x (by rw [hsegs]; exact List.mem_cons_of_mem _ hx)) s h
    · subst h; simp [NoSlash]
  · rw [relResult_parts]; exact resolvePathParts_dotFree _

/-- "the URL object `n` stands for the RFC reference `T`" for hostless URLs: scheme and path exactly, query up to the
    empty marker (the authority - undefined or empty - is not represented by the object) -/
def HostlessSim (n : URL) (T : Ref) : Prop :=
  optOfStr n.scheme = T.scheme ∧ n.pathText = T.path ∧ dropEmpty (optOfStr (queryText n.query)) = dropEmpty T.query

instance (n : URL) (T : Ref) : Decidable (HostlessSim n T) := by unfold HostlessSim; infer_instance

/-- **chained navigation from a hostless base = resolving step by step** (RFC 5.2 applied to each reference in turn),
    either version of the code; the authority of the RFC target stays the base's (undefined or empty) throughout -/
theorem chainedWith_eq_rfc_hostless (honour : Bool) (rs : List Ref) : ∀ (b : URL) (B : Ref), HostlessBase b →
    DotFree b.parts → HostlessSim b B →
    (∀ r ∈ rs, RelRef r ∧ (honour = true ∨ r.query ≠ some []) ∧ CanonQ r.query) →
    HostlessSim (URL.navigateAllWith honour b (rs.map URL.ofRelRef)) (resolveAll B rs) ∧
      (resolveAll B rs).authority = B.authority ∧
      (URL.navigateAllWith honour b (rs.map URL.ofRelRef)).host = [] := by
  induction rs with
  | nil => intro b B hb _ hs _; exact ⟨by simpa [URL.navigateAllWith, resolveAll] using hs, rfl, hb.host_nil⟩
  | cons r rest ih =>
    intro b B hb hd hs hrs
    have hr := hrs r (by simp)
    -- the base as the RFC sees it, with exactly the object's query text
    let B' : Ref := ⟨optOfStr b.scheme, B.authority, b.pathText, optOfStr (queryText b.query), B.fragment⟩
    have hB' : RefOfBase b B' := ⟨rfl, rfl, rfl⟩
    have hcan : B'.canon = B.canon := by
      simp only [Ref.canon, Ref.mk.injEq, B']
      exact ⟨hs.1, trivial, hs.2.1, hs.2.2, trivial⟩
    have hcong := resolve_congr B' B r hr.1 hcan
    have step := navigateWith_eq_rfc_hostless honour b B' r hb hB' hr.1 (Or.inr hd) hr.2.2
      (hr.2.1.elim Or.inl (fun h => Or.inr (fun h' => h h'.2.1)))
    obtain ⟨h1, h2, _, h4, h5, _⟩ := step
    have hsim : HostlessSim (URL.navigateWith honour b (URL.ofRelRef r)) (resolve B r) := by
      refine ⟨?_, ?_, ?_⟩
      · rw [h1]; simpa [Ref.canon] using congrArg Ref.scheme hcong
      · rw [h4]; simpa [Ref.canon] using congrArg Ref.path hcong
      · rw [h5]; simpa [Ref.canon] using congrArg Ref.query hcong
    have hc := navigateWith_closed_hostless honour b r hb
    have := ih (URL.navigateWith honour b (URL.ofRelRef r)) (resolve B r) hc.1 hc.2 hsim
      (fun r' hr' => hrs r' (by simp [hr']))
    refine ⟨by simpa [URL.navigateAllWith, resolveAll] using this.1, ?_, by simpa [URL.navigateAllWith] using this.2.2⟩
    have ha : (resolve B r).authority = B.authority := resolve_rel_authority _ _ hr.1
    simpa [resolveAll, ha] using this.2.1

example : HostlessBase exBaseFile ∧ DotFree exBaseFile.parts ∧
    HostlessSim exBaseFile ⟨some "file".toList, some [], "/a/b/c".toList, some "q".toList, none⟩ := by
  refine ⟨⟨rfl, ⟨_, _, rfl⟩, by decide, by decide⟩, by decide, by decide⟩
example : (URL.navigateAllWith true exBaseFile ([exRef, ⟨none, none, [], some [], none⟩, ⟨none, none, "../../../x".toList, none, none⟩].map
    URL.ofRelRef)).pathText = "/x".toList := by decide

end C07
