import BoltonsVerif.Generated.C07_Schemes
import BoltonsVerif.Generated.C07_Nav
/-
C07 — model of `boltons.urlutils.URL.navigate`, `resolve_path_parts`, `URL.normalize`,
`URL.from_parts`, `URL.get_authority`, `URL.to_text` (the code as it is after the two
`fix:` commits of branch c07-work: rooted merge under an authority, IPv6 family kept).

Text is `List Char` (`Str`).  A `URL` value is the state of a Python `URL` object:
the decoded components.  What is abstracted (validated by the correspondence, not
modelled): the regex parse of a text into components and percent-decoding
(`URL.ofComponents` takes the components), percent-quoting in `to_text` (components are
drawn from characters that are never quoted) and the IDNA codec.  The query is the item sequence of the
`QueryParamDict` (`parse_qsl` without its unquoting, `QueryParamDict.to_text` without its quoting,
`OrderedMultiDict.update` as `from_parts` calls it); `[]` = "no parameters" = a falsy `query_params`.
`toText` is compared with the real `to_text()` for URLs that have a host; for URLs without a host the
correspondence compares the public components instead (how an empty authority is written is being
repaired under property C06; no C07 theorem depends on that branch of `toText`).
Core Lean only.
-/
namespace C07

abbrev Str := List Char

/-- the items of a `QueryParamDict` in insertion order (`iteritems(multi=True)`): key, value (`none` = `None`,
    a key without `=`) -/
abbrev QPairs := List (Str × Option Str)

/-- state of a `URL` object -/
structure URL where
  scheme    : Str
  netlocSep : Bool        -- `_netloc_sep` is non-empty
  user      : Str
  pass      : Str
  host      : Str
  v6        : Bool        -- `family == socket.AF_INET6`
  port      : Nat         -- 0 = `None`
  parts     : List Str    -- `path_parts`
  query     : QPairs      -- `query_params` (all items, in order); `[]` = no parameters
  hasQuery  : Bool := false   -- `_query is not None`: the text this object was parsed from has a query component,
                          -- possibly empty (`?`); `false` for objects made by `URL()` / `from_parts`.  Read only by
                          -- `navigate` of the repaired code, and only on the REFERENCE (fix 35ff68e)
  fragment  : Str
deriving Repr, DecidableEq

/-! ### `str.split('/')` and `'/'.join` -/

def consHead (c : Char) : List Str → List Str
  | [] => [[c]]
  | s :: ss => (c :: s) :: ss

/-- `text.split('/')` -/
def splitSlash : Str → List Str
  | [] => [[]]
  | c :: cs => if c = '/' then [] :: splitSlash cs else consHead c (splitSlash cs)

/-- `'/'.join(parts)` -/
def joinSlash : List Str → Str
  | [] => []
  | [s] => s
  | s :: t => s ++ '/' :: joinSlash t

/-! ### the query: `parse_qsl`, `QueryParamDict.to_text`, `OrderedMultiDict.update` -/

/-- `text.split(sep)` -/
def splitC (sep : Char) : Str → List Str
  | [] => [[]]
  | c :: cs => if c = sep then [] :: splitC sep cs else consHead c (splitC sep cs)

/-- `sep.join(parts)` -/
def joinC (sep : Char) : List Str → Str
  | [] => []
  | [s] => s
  | s :: t => s ++ sep :: joinC sep t

/-- `key, sep, value = pair.partition('=')`, then `if not value: value = '' if sep else None` -/
def partitionEq : Str → Str × Option Str
  | [] => ([], none)
  | c :: cs => if c = '=' then ([], some cs) else (c :: (partitionEq cs).1, (partitionEq cs).2)

/-- `if not pair: continue` -/
def nonEmpty (s : Str) : Bool := !s.isEmpty

/-- `parse_qsl(qs)` (`keep_blank_values=True`): split at `&`, then at `;`, skip empty pairs, partition at the
    first `=` (the unquoting of key and value is abstracted: identity on the correspondence domain) -/
def parseQsl (qs : Str) : QPairs :=
  (((splitC '&' qs).flatMap (splitC ';')).filter nonEmpty).map partitionEq

/-- one item as `QueryParamDict.to_text` writes it: `key` for a `None` value, else `key=value` -/
def renderPair : Str × Option Str → Str
  | (k, none) => k
  | (k, some v) => k ++ '=' :: v

/-- `QueryParamDict.to_text()` -/
def queryText (q : QPairs) : Str := joinC '&' (q.map renderPair)

def hasKey (q : QPairs) (k : Str) : Bool := q.any (fun p => p.1 == k)

/-- `self.update(E)` for an `OrderedMultiDict` `E`: every key of `E` is first deleted from `self`, then all
    items of `E` (`iteritems(multi=True)`) are added in order -/
def omdUpdate (self E : QPairs) : QPairs := self.filter (fun p => !hasKey E p.1) ++ E

/-! ### `resolve_path_parts` -/

def dot : Str := ['.']
def dotdot : Str := ['.', '.']

/-- one iteration of the `for part in path_parts` loop; `ret` is the list being built -/
def resolveStep (ret : List Str) (part : Str) : List Str :=
  if part = dot then ret
  else if part = dotdot then
    -- `if ret and (len(ret) > 1 or ret[0]): ret.pop()`   ("prevent unrooting")
    if ret ≠ [] ∧ (ret.length > 1 ∨ ret.head? ≠ some []) then ret.dropLast else ret
  else ret ++ [part]

/-- `resolve_path_parts(path_parts)` -/
def resolvePathParts (parts : List Str) : List Str :=
  let ret := parts.foldl resolveStep []
  -- `if list(path_parts[-1:]) in (['.'], ['..']): ret.append('')`
  if parts.getLast? = some dot ∨ parts.getLast? = some dotdot then ret ++ [[]] else ret

/-! ### scheme tables (generated from the source on every run) -/

def schemePort? (s : Str) : Option Nat :=
  (C07.Gen.schemePorts.find? (fun p => p.1.toList = s)).map (·.2)

def inNoNetloc (s : Str) : Bool := C07.Gen.noNetlocSchemes.any (fun n => n.toList = s)

/-- `scheme.split('+')[-1]` -/
def afterLastPlus (s : Str) : Str := (s.reverse.takeWhile (fun c => !(c == '+'))).reverse

/-- `URL.uses_netloc` (truthiness) -/
def URL.usesNetloc (u : URL) : Bool :=
  if (schemePort? u.scheme).isSome then true
  else if inNoNetloc u.scheme then false
  else if (schemePort? (afterLastPlus u.scheme)).isSome then true
  else u.netlocSep

/-- `URL.default_port` (0 = `None`) -/
def URL.defaultPort (u : URL) : Nat :=
  match schemePort? u.scheme with
  | some p => p
  | none => (schemePort? (afterLastPlus u.scheme)).getD 0

/-! ### `get_authority(with_userinfo=True)`, `path`, `to_text` -/

def natText (n : Nat) : Str := (toString n).toList

def URL.authorityText (u : URL) : Str :=
  (if u.user ≠ [] then u.user ++ (if u.pass ≠ [] then ':' :: u.pass else []) ++ ['@'] else []) ++
  (if u.host ≠ [] then
     (if u.v6 then '[' :: u.host ++ [']'] else u.host) ++
     (if u.port ≠ 0 ∧ u.port ≠ u.defaultPort then ':' :: natText u.port else [])
   else [])

/-- `URL.path` -/
def URL.pathText (u : URL) : Str := joinSlash u.parts

/-- `URL.to_text()` -/
def URL.toText (u : URL) : Str :=
  let path := u.pathText
  let authority := u.authorityText
  (if u.scheme ≠ [] then u.scheme ++ [':'] else []) ++
  (if authority ≠ [] then '/' :: '/' :: authority
   else if u.scheme ≠ [] ∧ path.take 2 ≠ ['/', '/'] ∧ u.usesNetloc then ['/', '/'] else []) ++
  (if path ≠ [] then
     (if u.scheme ≠ [] ∧ authority ≠ [] ∧ path.head? ≠ some '/' then ['/'] else []) ++ path
   else []) ++
  (if queryText u.query ≠ [] then '?' :: queryText u.query else []) ++
  (if u.fragment ≠ [] then '#' :: u.fragment else [])

/-! ### `normalize`, `from_parts`, `navigate` -/

def lower (s : Str) : Str := s.map Char.toLower

/-- `URL.normalize(with_case)` -/
def URL.normalize (u : URL) (withCase : Bool := true) : URL :=
  let u := { u with parts := resolvePathParts u.parts }
  if withCase then { u with scheme := lower u.scheme, host := lower u.host } else u

/-- Python `a or b` on texts -/
def orStr (a b : Str) : Str := if a ≠ [] then a else b

/-- `URL.navigate(dest)`; `dest` is the already-constructed `URL(dest)`.
    `honour` = the code has the repair of known finding C07-empty-query (commit 35ff68e on r3-c07-work): the base
    query is inherited only when the reference has NO query component (`dest._query is None`); without the repair
    (`honour = false`) a present-but-empty query (`?`) inherits it too.  Both versions are modelled; which one the
    code under test is, is re-established on every run (`C07.Gen.navHonoursEmptyQuery`, `URL.navigate` below).
    (A replacing absolute reference is returned as it is; the code returns a copy made through `to_text()` when it
    was handed a `URL` object, whose `hasQuery` is then "has parameters" - nothing can observe that bit on a
    result, because `navigate` reads it on the reference only.) -/
def URL.navigateWith (honour : Bool) (self dest : URL) : URL :=
  if dest.scheme ≠ [] ∧ dest.host ≠ [] then dest      -- "absolute URLs replace everything"
  else
    let dpath := dest.pathText
    let newParts : List Str :=
      if dpath ≠ [] then
        if dpath.head? = some '/' then dest.parts
        else
          let baseParts := self.parts.dropLast
          (if self.host ≠ [] ∧ baseParts.head? ≠ some [] then [] :: baseParts else baseParts) ++ dest.parts
      else self.parts
    -- `query_params = dest.query_params`; without a path:
    --   repaired: `if not query_params and dest._query is None: query_params = self.query_params`
    --   before:   `if not query_params: query_params = self.query_params`
    let query : QPairs :=
      if dpath ≠ [] then dest.query
      else if dest.query = [] ∧ ¬ (honour = true ∧ dest.hasQuery = true) then self.query else dest.query
    -- `from_parts(...)` (a fresh URL: `_netloc_sep` empty, `_query` None, `path_parts or ('',)`,
    -- `ret.query_params.update(query_params)` on the empty `QueryParamDict` of the fresh URL), then the family,
    -- then `normalize()`
    URL.normalize
      { scheme := orStr dest.scheme self.scheme
        netlocSep := false
        user := orStr dest.user self.user
        pass := orStr dest.pass self.pass
        host := orStr dest.host self.host
        v6 := if dest.host ≠ [] then dest.v6 else self.v6
        port := if dest.port ≠ 0 then dest.port else self.port
        parts := if newParts = [] then [[]] else newParts
        query := omdUpdate [] query
        hasQuery := false
        fragment := dest.fragment }

/-- `URL.navigate` of the code under test: the version the current source implements -/
def URL.navigate (self dest : URL) : URL := URL.navigateWith C07.Gen.navHonoursEmptyQuery self dest

/-- a whole navigation history, for either version -/
def URL.navigateAllWith (honour : Bool) (self : URL) (dests : List URL) : URL :=
  dests.foldl (URL.navigateWith honour) self

/-- a whole navigation history -/
def URL.navigateAll (self : URL) (dests : List URL) : URL := dests.foldl URL.navigate self

/-! ### abstraction of `URL(text)`: components in, object state out -/

/-- the five RFC 3986 components of a URI reference (`none` = undefined), Appendix B -/
structure Ref where
  scheme    : Option Str
  authority : Option Str
  path      : Str
  query     : Option Str
  fragment  : Option Str
deriving Repr, DecidableEq

/-- `URL(text)` where `text` has the given scheme / (parsed) authority / path / query / fragment -/
def URL.ofComponents (scheme : Option Str) (hasAuthority : Bool) (user pass host : Str) (v6 : Bool) (port : Nat)
    (path : Str) (query fragment : Option Str) : URL :=
  { scheme := scheme.getD [], netlocSep := hasAuthority, user := user, pass := pass, host := host, v6 := v6,
    port := port, parts := splitSlash path, query := parseQsl (query.getD []), hasQuery := query.isSome,
    fragment := fragment.getD [] }

/-- `URL(text)` for a reference without scheme and authority -/
def URL.ofRelRef (r : Ref) : URL :=
  URL.ofComponents none false [] [] [] false 0 r.path r.query r.fragment

/-! ### `URL(text)` for a reference text without scheme and authority: where the path, the query and the fragment
    of the text are (boltons' `_URL_RE`, groups `path`, `query`, `fragment`) -/

/-- cut at the first `c`: (before, after-or-nothing) -/
def cutAt (c : Char) : Str → Str × Option Str
  | [] => ([], none)
  | x :: xs => if x = c then ([], some xs) else ((x :: (cutAt c xs).1), (cutAt c xs).2)

/-- the components of a reference text that has neither scheme nor authority: the fragment starts at the first
    `#`, the query at the first `?` before it -/
def refOfText (t : Str) : Ref :=
  { scheme := none, authority := none, path := (cutAt '?' (cutAt '#' t).1).1,
    query := (cutAt '?' (cutAt '#' t).1).2, fragment := (cutAt '#' t).2 }

/-- `URL(text)` for such a text -/
def URL.ofText (t : Str) : URL := URL.ofRelRef (refOfText t)

end C07
