import BoltonsVerif.C07.Spec
/-
C07 — helper lemmas: `split('/')` / `'/'.join`, the segment-stack reading of
`resolve_path_parts`, and the bridge to RFC 3986 5.2.4 (`rds_flat`).
-/
namespace C07

def NoSlash (s : Str) : Prop := '/' ∉ s

/-- the text of a rooted segment list: "/s1/s2/..." -/
def flat (segs : List Str) : Str := segs.flatMap (fun s => '/' :: s)

theorem ns_of (c : Char) (h : c ≠ '/') : ns c = true := by simp [ns, h]
theorem ns_slash : ns '/' = false := by simp [ns]

/-! ### split / join -/

theorem consHead_ne_nil (c : Char) (l : List Str) : consHead c l ≠ [] := by
  cases l <;> simp [consHead]

theorem splitSlash_ne_nil (p : Str) : splitSlash p ≠ [] := by
  cases p with
  | nil => simp [splitSlash]
  | cons c cs =>
    simp only [splitSlash]
    split
    · simp
    · exact consHead_ne_nil _ _

theorem splitSlash_noSlash (p : Str) : ∀ s ∈ splitSlash p, NoSlash s := by
  induction p with
  | nil => simp [splitSlash, NoSlash]
  | cons c cs ih =>
    simp only [splitSlash]
    split
    · intro s hs
      simp at hs
      rcases hs with rfl | hs
      · simp [NoSlash]
      · exact ih s hs
    · rename_i hc
      intro s hs
      cases hsp : splitSlash cs with
      | nil => exact absurd hsp (splitSlash_ne_nil cs)
      | cons a t =>
        rw [hsp] at hs ih
        simp [consHead] at hs
        rcases hs with rfl | hs
        · have := ih a (by simp)
          simp [NoSlash] at this ⊢
          exact ⟨fun h => hc h.symm, this⟩
        · exact ih s (by simp [hs])

theorem joinSlash_cons_cons (s a : Str) (t : List Str) :
    joinSlash (s :: a :: t) = s ++ '/' :: joinSlash (a :: t) := by simp [joinSlash]

theorem joinSlash_consHead (c : Char) (l : List Str) (h : l ≠ []) :
    joinSlash (consHead c l) = c :: joinSlash l := by
  match l, h with
  | [a], _ => simp [consHead, joinSlash]
  | a :: b :: t, _ => simp [consHead, joinSlash]

theorem joinSlash_splitSlash (p : Str) : joinSlash (splitSlash p) = p := by
  induction p with
  | nil => simp [splitSlash, joinSlash]
  | cons c cs ih =>
    simp only [splitSlash]
    split
    · rename_i hc
      subst hc
      cases hsp : splitSlash cs with
      | nil => exact absurd hsp (splitSlash_ne_nil cs)
      | cons a t => rw [joinSlash_cons_cons, ← hsp, ih]; simp
    · rw [joinSlash_consHead _ _ (splitSlash_ne_nil cs), ih]

theorem flat_cons (a : Str) (t : List Str) : flat (a :: t) = '/' :: a ++ flat t := by simp [flat]
theorem flat_append (a b : List Str) : flat (a ++ b) = flat a ++ flat b := by simp [flat]
theorem flat_snoc (a : List Str) (s : Str) : flat (a ++ [s]) = flat a ++ '/' :: s := by simp [flat]
theorem flat_nil : flat [] = [] := rfl

/-- `'/'.join([''] + segs)` is the rooted text of `segs` -/
theorem flat_eq_joinSlash (l : List Str) (h : l ≠ []) : flat l = '/' :: joinSlash l := by
  induction l with
  | nil => exact absurd rfl h
  | cons a t ih =>
    cases t with
    | nil => simp [flat, joinSlash]
    | cons b t' =>
      rw [flat_cons, ih (by simp), joinSlash_cons_cons]; simp

theorem joinSlash_root (l : List Str) : joinSlash ([] :: l) = flat l := by
  cases l with
  | nil => simp [joinSlash, flat]
  | cons a t => rw [joinSlash_cons_cons, flat_eq_joinSlash _ (by simp)]; simp

theorem splitSlash_noSlash_self (s : Str) (h : NoSlash s) : splitSlash s = [s] := by
  induction s with
  | nil => rfl
  | cons c cs ih =>
    have hc : c ≠ '/' := by intro h'; apply h; simp [h']
    have hcs : NoSlash cs := by intro h'; apply h; simp [h']
    simp [splitSlash, hc, ih hcs, consHead]

theorem splitSlash_append_slash (s : Str) (h : NoSlash s) (r : Str) :
    splitSlash (s ++ '/' :: r) = s :: splitSlash r := by
  induction s with
  | nil => simp [splitSlash]
  | cons c cs ih =>
    have hc : c ≠ '/' := by intro h'; apply h; simp [h']
    have hcs : NoSlash cs := by intro h'; apply h; simp [h']
    simp [splitSlash, hc, ih hcs, consHead]

/-- `'/'.join(parts).split('/') == parts` for a non-empty list of slash-free segments:
    re-parsing a rendered path gives the same `path_parts` -/
theorem splitSlash_joinSlash (segs : List Str) (hne : segs ≠ []) (h : ∀ s ∈ segs, NoSlash s) :
    splitSlash (joinSlash segs) = segs := by
  induction segs with
  | nil => exact absurd rfl hne
  | cons a t ih =>
    cases t with
    | nil => simpa [joinSlash] using splitSlash_noSlash_self a (h a (by simp))
    | cons b t' =>
      rw [joinSlash_cons_cons, splitSlash_append_slash a (h a (by simp)),
        ih (by simp) (fun s hs => h s (by simp [hs]))]

/-! ### the query: split at a separator / join, partition at '=', `parse_qsl` / `to_text` round trip -/

theorem splitC_ne_nil (c : Char) (p : Str) : splitC c p ≠ [] := by
  cases p with
  | nil => simp [splitC]
  | cons d ds =>
    simp only [splitC]
    split
    · simp
    · exact consHead_ne_nil _ _

theorem joinC_cons_cons (c : Char) (s a : Str) (t : List Str) :
    joinC c (s :: a :: t) = s ++ c :: joinC c (a :: t) := by simp [joinC]

theorem joinC_consHead (c d : Char) (l : List Str) (h : l ≠ []) :
    joinC c (consHead d l) = d :: joinC c l := by
  match l, h with
  | [a], _ => simp [consHead, joinC]
  | a :: b :: t, _ => simp [consHead, joinC]

/-- `sep.join(text.split(sep)) == text` -/
theorem joinC_splitC (c : Char) (p : Str) : joinC c (splitC c p) = p := by
  induction p with
  | nil => simp [splitC, joinC]
  | cons d ds ih =>
    simp only [splitC]
    split
    · rename_i hc
      cases hsp : splitC c ds with
      | nil => exact absurd hsp (splitC_ne_nil c ds)
      | cons a t => rw [joinC_cons_cons, ← hsp, ih, hc]; simp
    · rw [joinC_consHead _ _ _ (splitC_ne_nil c ds), ih]

theorem splitC_not_mem (c : Char) (s : Str) (h : c ∉ s) : splitC c s = [s] := by
  induction s with
  | nil => rfl
  | cons d ds ih =>
    have hd : d ≠ c := by intro h'; apply h; simp [h']
    have hds : c ∉ ds := by intro h'; apply h; simp [h']
    simp [splitC, hd, ih hds, consHead]

/-- the pieces of a split are made of characters of the text -/
theorem splitC_mem_sub (c : Char) (p : Str) : ∀ s ∈ splitC c p, ∀ x ∈ s, x ∈ p := by
  induction p with
  | nil => simp [splitC]
  | cons d ds ih =>
    simp only [splitC]
    split
    · intro s hs x hx
      simp at hs
      rcases hs with rfl | hs
      · simp at hx
      · exact List.mem_cons_of_mem _ (ih s hs x hx)
    · intro s hs x hx
      cases hsp : splitC c ds with
      | nil => exact absurd hsp (splitC_ne_nil c ds)
      | cons a t =>
        rw [hsp] at hs ih
        simp [consHead] at hs
        rcases hs with rfl | hs
        · simp at hx
          rcases hx with rfl | hx
          · simp
          · exact List.mem_cons_of_mem _ (ih a (by simp) x hx)
        · exact List.mem_cons_of_mem _ (ih s (by simp [hs]) x hx)

/-- writing an item back gives the pair text it was parsed from -/
theorem renderPair_partitionEq (s : Str) : renderPair (partitionEq s) = s := by
  induction s with
  | nil => rfl
  | cons c cs ih =>
    simp only [partitionEq]
    split
    · rename_i h; subst h; simp [renderPair]
    · cases hp : partitionEq cs with
      | mk k v =>
        rw [hp] at ih
        cases v <;> simp_all [renderPair]

theorem flatMap_singleton_self {α : Type} (f : α → List α) (l : List α) (h : ∀ s ∈ l, f s = [s]) :
    l.flatMap f = l := by
  induction l with
  | nil => rfl
  | cons a t ih =>
    rw [List.flatMap_cons, h a (by simp), ih (fun s hs => h s (by simp [hs]))]; rfl

/-- query texts that `parse_qsl` / `QueryParamDict.to_text` reproduce verbatim: `&`-separated non-empty
    pairs, no `;` separator (any keys, values, repetitions, order; a pair may lack `=` or have an empty value) -/
def CanonQuery (q : Str) : Prop := ';' ∉ q ∧ (q = [] ∨ [] ∉ splitC '&' q)

instance (q : Str) : Decidable (CanonQuery q) := by unfold CanonQuery; infer_instance

/-- the same for an optional query component -/
def CanonQ : Option Str → Prop
  | none => True
  | some q => CanonQuery q

instance : (o : Option Str) → Decidable (CanonQ o)
  | none => isTrue trivial
  | some q => inferInstanceAs (Decidable (CanonQuery q))

@[simp] theorem parseQsl_nil : parseQsl [] = [] := by decide
@[simp] theorem queryText_nil : queryText [] = [] := rfl
@[simp] theorem omdUpdate_nil (E : QPairs) : omdUpdate [] E = E := by simp [omdUpdate]

theorem queryText_parseQsl (q : Str) (h : CanonQuery q) : queryText (parseQsl q) = q := by
  obtain ⟨hsemi, hne⟩ := h
  rcases hne with rfl | hne
  · rfl
  · have h1 : (splitC '&' q).flatMap (splitC ';') = splitC '&' q :=
      flatMap_singleton_self _ _ (fun s hs =>
        splitC_not_mem ';' s (fun hx => hsemi (splitC_mem_sub '&' q s hs _ hx)))
    have h2 : (splitC '&' q).filter nonEmpty = splitC '&' q := by
      apply List.filter_eq_self.2
      intro s hs
      cases s with
      | nil => exact absurd hs hne
      | cons _ _ => simp [nonEmpty]
    unfold parseQsl queryText
    rw [h1, h2, List.map_map]
    have : (renderPair ∘ partitionEq) = id := by funext s; simp [renderPair_partitionEq]
    rw [this, List.map_id, joinC_splitC]

theorem parseQsl_ne_nil (q : Str) (h : CanonQuery q) (hq : q ≠ []) : parseQsl q ≠ [] := by
  intro he
  have := queryText_parseQsl q h
  rw [he] at this
  exact hq this.symm

/-! ### takeWhile / dropWhile over slash-free segments -/

theorem takeWhile_noslash (s r : Str) (h : NoSlash s) :
    (s ++ '/' :: r).takeWhile ns = s ∧ (s ++ '/' :: r).dropWhile ns = '/' :: r := by
  induction s with
  | nil => simp [ns_slash]
  | cons c cs ih =>
    have hc : c ≠ '/' := by intro h'; apply h; simp [h']
    have hcs : NoSlash cs := by intro h'; apply h; simp [h']
    simp [ns_of c hc, ih hcs]

theorem takeWhile_noslash_end (s : Str) (h : NoSlash s) :
    s.takeWhile ns = s ∧ s.dropWhile ns = [] := by
  induction s with
  | nil => simp
  | cons c cs ih =>
    have hc : c ≠ '/' := by intro h'; apply h; simp [h']
    have hcs : NoSlash cs := by intro h'; apply h; simp [h']
    simp [ns_of c hc, ih hcs]

theorem dropWhile_rev_noslash (s pre : Str) (h : NoSlash s) :
    ((pre ++ '/' :: s).reverse.dropWhile ns) = '/' :: pre.reverse := by
  have : (pre ++ '/' :: s).reverse = s.reverse ++ '/' :: pre.reverse := by simp
  rw [this]
  have h' : NoSlash s.reverse := by intro hh; apply h; simpa using hh
  exact (takeWhile_noslash s.reverse pre.reverse h').2

theorem popSeg_flat_snoc (stack : List Str) (s : Str) (h : NoSlash s) :
    popSeg (flat (stack ++ [s])) = flat stack := by
  have := dropWhile_rev_noslash s (flat stack) h
  unfold popSeg
  rw [flat_snoc, this]
  simp

theorem popSeg_flat (stack : List Str) (hs : ∀ s ∈ stack, NoSlash s) :
    popSeg (flat stack) = flat stack.dropLast := by
  rcases List.eq_nil_or_concat stack with h | ⟨l, a, h⟩
  · subst h; simp [flat, popSeg]
  · subst h
    have : NoSlash a := hs a (by simp)
    simp [List.concat_eq_append, popSeg_flat_snoc _ _ this]

/-- 5.2.3: "all but the last segment" of a rooted text -/
theorem dropAfterLastSlash_flat_snoc (stack : List Str) (s : Str) (h : NoSlash s) :
    dropAfterLastSlash (flat (stack ++ [s])) = flat stack ++ ['/'] := by
  have := dropWhile_rev_noslash s (flat stack) h
  unfold dropAfterLastSlash
  rw [flat_snoc, this]
  simp

/-! ### the segment stack of `resolve_path_parts` below the root marker -/

/-- the loop body of `resolve_path_parts` as seen on the segments after the root marker `''`:
    `..` pops unless only the root marker is left -/
def pstep (stack : List Str) (s : Str) : List Str :=
  if s = dot then stack else if s = dotdot then stack.dropLast else stack ++ [s]

/-- `resolve_path_parts([''] + segs)` without its root marker, started from `stack` -/
def process (stack : List Str) (segs : List Str) : List Str :=
  let st := segs.foldl pstep stack
  if segs.getLast? = some dot ∨ segs.getLast? = some dotdot then st ++ [[]] else st

theorem process_nil (stack : List Str) : process stack [] = stack := by simp [process]

theorem process_single (stack : List Str) (s : Str) :
    process stack [s] = if s = dot then stack ++ [[]] else if s = dotdot then stack.dropLast ++ [[]]
      else stack ++ [s] := by
  simp only [process, List.foldl, List.getLast?_singleton, pstep, Option.some.injEq]
  by_cases h1 : s = dot
  · simp [h1]
  · by_cases h2 : s = dotdot
    · simp [h2, dot, dotdot]
    · simp [h1, h2]

theorem process_cons_cons (stack : List Str) (s r : Str) (rs : List Str) :
    process stack (s :: r :: rs) = process (pstep stack s) (r :: rs) := by
  simp [process, List.getLast?_cons_cons]

theorem foldl_resolveStep_root (segs : List Str) : ∀ stack : List Str,
    List.foldl resolveStep ([] :: stack) segs = [] :: List.foldl pstep stack segs := by
  induction segs with
  | nil => intro stack; rfl
  | cons s rest ih =>
    intro stack
    simp only [List.foldl]
    have : resolveStep ([] :: stack) s = [] :: pstep stack s := by
      unfold resolveStep pstep
      by_cases h1 : s = dot
      · simp [h1]
      · by_cases h2 : s = dotdot
        · have hdd : dotdot ≠ dot := by decide
          subst h2
          cases stack with
          | nil => simp [hdd]
          | cons a t => simp [hdd, List.dropLast]
        · simp [h1, h2]
    rw [this, ih]

/-- on a rooted list the code is the root marker followed by the segment stack -/
theorem resolvePathParts_root (segs : List Str) :
    resolvePathParts ([] :: segs) = [] :: process [] segs := by
  unfold resolvePathParts process
  have hf : List.foldl resolveStep [] ([] :: segs) = [] :: List.foldl pstep [] segs := by
    simp only [List.foldl]
    have : resolveStep [] [] = [[]] := by simp [resolveStep, dot, dotdot]
    rw [this, foldl_resolveStep_root]
  simp only [hf]
  cases segs with
  | nil => simp [dot, dotdot]
  | cons a t =>
    simp only [List.getLast?_cons_cons]
    split <;> simp

/-! ### RFC 3986 5.2.4 on a rooted text = the segment stack -/

/-- `r` is empty or starts with a slash -/
def SlashOrNil (r : Str) : Prop := r = [] ∨ ∃ t, r = '/' :: t

theorem flat_slashOrNil (l : List Str) : SlashOrNil (flat l) := by
  cases l with
  | nil => left; simp [flat]
  | cons a t => right; exact ⟨a ++ flat t, by simp [flat]⟩

theorem firstSeg_seg (s r : Str) (hs : NoSlash s) (hr : SlashOrNil r) :
    firstSeg ('/' :: s ++ r) = ('/' :: s, r) := by
  rcases hr with rfl | ⟨t, rfl⟩
  · simp [firstSeg, takeWhile_noslash_end s hs]
  · simp [firstSeg, takeWhile_noslash s t hs]

theorem rds_nil (n : Nat) (out : Str) : rds n [] out = out := by
  cases n <;> simp [rds]

/-- rule 2E on "/seg…" for a segment that is neither "." nor ".." -/
theorem rds_other (n : Nat) (s r out : Str) (hs : NoSlash s) (hr : SlashOrNil r)
    (h1 : s ≠ dot) (h2 : s ≠ dotdot) :
    rds (n+1) ('/' :: s ++ r) out = rds n r (out ++ '/' :: s) := by
  have hfs := firstSeg_seg s r hs hr
  rw [rds.eq_def]
  split
  · simp at *
  · simp at *
  · rename_i inp out' hne
    split
    all_goals first
      | (simp_all; done)
      | (rename_i heq; simp at heq; rcases hr with rfl | ⟨t, rfl⟩ <;>
          rcases s with _ | ⟨c, _ | ⟨d, _ | ⟨e, s⟩⟩⟩ <;> simp_all [NoSlash, dot, dotdot])
      | skip

theorem rds_dot_mid (n : Nat) (r out : Str) :
    rds (n+1) ('/' :: '.' :: '/' :: r) out = rds n ('/' :: r) out := by simp [rds]
theorem rds_dotdot_mid (n : Nat) (r out : Str) :
    rds (n+1) ('/' :: '.' :: '.' :: '/' :: r) out = rds n ('/' :: r) (popSeg out) := by simp [rds]
theorem rds_dot_end (n : Nat) (out : Str) : rds (n+2) ['/', '.'] out = out ++ ['/'] := by
  simp [rds, firstSeg, rds_nil]
theorem rds_dotdot_end (n : Nat) (out : Str) : rds (n+2) ['/', '.', '.'] out = popSeg out ++ ['/'] := by
  simp [rds, firstSeg, rds_nil]

theorem mem_dropLast {α} (l : List α) (x : α) (h : x ∈ l.dropLast) : x ∈ l :=
  List.dropLast_subset l h

/-- The bridge: the RFC's buffer algorithm run on the text "/s1/s2/…" with the output buffer
    holding the text of `stack` ends with the text of the code's segment stack.  Any fuel that is
    at least the length of the input is enough. -/
theorem rds_flat (segs : List Str) : ∀ (stack : List Str) (fuel : Nat),
    (∀ s ∈ segs, NoSlash s) → (∀ s ∈ stack, NoSlash s) → (flat segs).length ≤ fuel →
    rds fuel (flat segs) (flat stack) = flat (process stack segs) := by
  induction segs with
  | nil => intro stack fuel _ _ _; simp [flat, rds_nil, process]
  | cons s rest ih =>
    intro stack fuel hsegs hstack hfuel
    have hs : NoSlash s := hsegs s (by simp)
    have hrest : ∀ x ∈ rest, NoSlash x := fun x hx => hsegs x (by simp [hx])
    have hpop : ∀ x ∈ stack.dropLast, NoSlash x := fun x hx => hstack x (mem_dropLast _ _ hx)
    rw [flat_cons] at hfuel
    simp only [List.length_cons, List.length_append] at hfuel
    by_cases hd : s = dot
    · subst hd
      cases rest with
      | nil =>
        obtain ⟨n, rfl⟩ : ∃ n, fuel = n + 2 := ⟨fuel - 2, by simp [dot, flat] at hfuel; omega⟩
        have : flat [dot] = ['/', '.'] := by simp [flat, dot]
        rw [this, rds_dot_end, process_single]; simp [flat]
      | cons r rs =>
        obtain ⟨n, rfl⟩ : ∃ n, fuel = n + 1 := ⟨fuel - 1, by omega⟩
        have := ih stack n hrest hstack (by simp [dot] at hfuel; omega)
        have e : flat (dot :: r :: rs) = '/' :: '.' :: '/' :: (r ++ flat rs) := by simp [flat, dot]
        rw [e, rds_dot_mid]
        have e2 : '/' :: (r ++ flat rs) = flat (r :: rs) := by simp [flat]
        rw [e2, this, process_cons_cons]; simp [pstep]
    · by_cases hdd : s = dotdot
      · subst hdd
        cases rest with
        | nil =>
          obtain ⟨n, rfl⟩ : ∃ n, fuel = n + 2 := ⟨fuel - 2, by simp [dotdot, flat] at hfuel; omega⟩
          have : flat [dotdot] = ['/', '.', '.'] := by simp [flat, dotdot]
          rw [this, rds_dotdot_end, popSeg_flat stack hstack, process_single]; simp [flat, hd]
        | cons r rs =>
          obtain ⟨n, rfl⟩ : ∃ n, fuel = n + 1 := ⟨fuel - 1, by omega⟩
          have := ih stack.dropLast n hrest hpop (by simp [dotdot] at hfuel; omega)
          have e : flat (dotdot :: r :: rs) = '/' :: '.' :: '.' :: '/' :: (r ++ flat rs) := by
            simp [flat, dotdot]
          rw [e, rds_dotdot_mid, popSeg_flat stack hstack]
          have e2 : '/' :: (r ++ flat rs) = flat (r :: rs) := by simp [flat]
          rw [e2, this, process_cons_cons]; simp [pstep, hd]
      · have hstack' : ∀ x ∈ stack ++ [s], NoSlash x := by
          intro x hx; simp at hx; rcases hx with hx | rfl
          · exact hstack x hx
          · exact hs
        obtain ⟨n, rfl⟩ : ∃ n, fuel = n + 1 := ⟨fuel - 1, by omega⟩
        have := ih (stack ++ [s]) n hrest hstack' (by omega)
        rw [flat_cons, rds_other n s (flat rest) (flat stack) hs (flat_slashOrNil rest) hd hdd]
        rw [← flat_snoc, this]
        cases rest with
        | nil => rw [process_single, process_nil]; simp [hd, hdd]
        | cons r rs => rw [process_cons_cons]; simp [pstep, hd, hdd]

/-- `remove_dot_segments` of a rooted text -/
theorem removeDotSegments_flat (segs : List Str) (h : ∀ s ∈ segs, NoSlash s) :
    removeDotSegments (flat segs) = flat (process [] segs) := by
  have := rds_flat segs [] ((flat segs).length + 1) h (by simp) (by omega)
  simpa [removeDotSegments, flat_nil] using this

/-! ### vocabulary of the property theorems -/

def DotFree (l : List Str) : Prop := ∀ s ∈ l, s ≠ dot ∧ s ≠ dotdot

instance (s : Str) : Decidable (NoSlash s) := by unfold NoSlash; infer_instance
instance (l : List Str) : Decidable (DotFree l) := by unfold DotFree; infer_instance

/-- Python truthiness of a text seen as "defined or not" -/
def optOfStr (s : Str) : Option Str := if s = [] then none else some s

/-- What `to_text()` prints, as the five components it prints (so that
    `toText u = recompose (toRef u)`, theorem `toText_eq_recompose`). -/
def URL.toRef (u : URL) : Ref :=
  { scheme := optOfStr u.scheme
    authority :=
      if u.authorityText ≠ [] then some u.authorityText
      else if u.scheme ≠ [] ∧ u.pathText.take 2 ≠ ['/', '/'] ∧ u.usesNetloc then some [] else none
    path :=
      if u.pathText ≠ [] ∧ u.scheme ≠ [] ∧ u.authorityText ≠ [] ∧ u.pathText.head? ≠ some '/'
      then '/' :: u.pathText else u.pathText
    query := optOfStr (queryText u.query)
    fragment := optOfStr u.fragment }

/-- a present-but-empty query / fragment cannot be represented by a `URL` object:
    comparison identifies it with an absent one -/
def dropEmpty (o : Option Str) : Option Str := if o = some [] then none else o

def Ref.canon (t : Ref) : Ref := { t with query := dropEmpty t.query, fragment := dropEmpty t.fragment }

/-- the base URLs of the RFC-equality theorems: a host, a rooted (or empty) path whose segments
    contain no slash, scheme and host already in lower case -/
structure AbsBase (b : URL) : Prop where
  host_ne : b.host ≠ []
  rooted : ∃ segs, b.parts = [] :: segs
  noSlash : ∀ s ∈ b.parts, NoSlash s
  lowerScheme : lower b.scheme = b.scheme
  lowerHost : lower b.host = b.host

/-- a reference without scheme and without authority -/
def RelRef (r : Ref) : Prop := r.scheme = none ∧ r.authority = none

instance (r : Ref) : Decidable (RelRef r) := by unfold RelRef; infer_instance

/-! ### to_text = recomposition -/

theorem toText_eq_recompose' (u : URL) : u.toText = recompose u.toRef := by
  unfold URL.toText recompose URL.toRef optOfStr
  by_cases hs : u.scheme = [] <;> by_cases ha : u.authorityText = [] <;>
    by_cases hq : queryText u.query = [] <;> by_cases hf : u.fragment = [] <;>
    by_cases hp : u.pathText = [] <;> simp [hs, ha, hq, hf, hp] <;>
    (try (split <;> simp_all))

/-! ### lower case -/

theorem toLower_idem (c : Char) : c.toLower.toLower = c.toLower := by
  unfold Char.toLower
  split
  · rename_i h
    split
    · rename_i h2
      exfalso
      revert h h2
      simp only [ge_iff_le, UInt32.le_iff_toNat_le, Char.reduceVal]
      simp
      omega
    · rfl
  · simp [*]

theorem lower_idem (s : Str) : lower (lower s) = lower s := by
  simp [lower, toLower_idem]

theorem lower_ne_nil (s : Str) (h : s ≠ []) : lower s ≠ [] := by
  cases s <;> simp_all [lower]

/-! ### resolve_path_parts: dot-freeness, fixed points, membership -/

theorem dotFree_dropLast (l : List Str) (h : DotFree l) : DotFree l.dropLast :=
  fun s hs => h s (mem_dropLast _ _ hs)

theorem dotFree_append (a b : List Str) (ha : DotFree a) (hb : DotFree b) : DotFree (a ++ b) := by
  intro s hs; simp at hs; rcases hs with hs | hs
  · exact ha s hs
  · exact hb s hs

theorem dotFree_nilSeg : DotFree [[]] := by
  intro s hs; simp at hs; subst hs; simp [dot, dotdot]

theorem resolveStep_dotFree (ret : List Str) (p : Str) (h : DotFree ret) : DotFree (resolveStep ret p) := by
  unfold resolveStep
  split
  · exact h
  · split
    · split
      · exact dotFree_dropLast _ h
      · exact h
    · rename_i h1 h2
      exact dotFree_append _ _ h (by intro s hs; simp at hs; subst hs; exact ⟨h1, h2⟩)

theorem foldl_resolveStep_dotFree (parts : List Str) : ∀ ret, DotFree ret →
    DotFree (parts.foldl resolveStep ret) := by
  induction parts with
  | nil => intro ret h; exact h
  | cons p ps ih => intro ret h; exact ih _ (resolveStep_dotFree ret p h)

theorem resolvePathParts_dotFree (parts : List Str) : DotFree (resolvePathParts parts) := by
  unfold resolvePathParts
  have := foldl_resolveStep_dotFree parts [] (by intro s hs; simp at hs)
  simp only
  split
  · exact dotFree_append _ _ this dotFree_nilSeg
  · exact this

theorem foldl_resolveStep_of_dotFree (parts : List Str) (h : DotFree parts) : ∀ ret,
    parts.foldl resolveStep ret = ret ++ parts := by
  induction parts with
  | nil => intro ret; simp
  | cons p ps ih =>
    intro ret
    have hp := h p (by simp)
    have : resolveStep ret p = ret ++ [p] := by simp [resolveStep, hp.1, hp.2]
    simp only [List.foldl]
    rw [this, ih (fun s hs => h s (by simp [hs]))]
    simp

/-- a dot-free list is a fixed point of `resolve_path_parts` -/
theorem resolvePathParts_of_dotFree (parts : List Str) (h : DotFree parts) :
    resolvePathParts parts = parts := by
  unfold resolvePathParts
  rw [foldl_resolveStep_of_dotFree parts h]
  have hl : ¬ (parts.getLast? = some dot ∨ parts.getLast? = some dotdot) := by
    intro hh
    rcases hh with hh | hh
    · exact (h dot (List.mem_of_getLast? hh)).1 rfl
    · exact (h dotdot (List.mem_of_getLast? hh)).2 rfl
  simp [hl]

theorem resolveStep_mem (ret : List Str) (p s : Str) (hs : s ∈ resolveStep ret p) : s ∈ ret ∨ s = p := by
  unfold resolveStep at hs
  split at hs
  · exact Or.inl hs
  · split at hs
    · split at hs
      · exact Or.inl (mem_dropLast _ _ hs)
      · exact Or.inl hs
    · simp at hs; exact hs

theorem foldl_resolveStep_mem (parts : List Str) : ∀ ret s, s ∈ parts.foldl resolveStep ret →
    s ∈ ret ∨ s ∈ parts := by
  induction parts with
  | nil => intro ret s hs; exact Or.inl hs
  | cons p ps ih =>
    intro ret s hs
    rcases ih _ s hs with h | h
    · rcases resolveStep_mem ret p s h with h | h
      · exact Or.inl h
      · exact Or.inr (by simp [h])
    · exact Or.inr (by simp [h])

/-- `resolve_path_parts` invents no segment except the empty one -/
theorem resolvePathParts_mem (parts : List Str) (s : Str) (hs : s ∈ resolvePathParts parts) :
    s ∈ parts ∨ s = [] := by
  unfold resolvePathParts at hs
  simp only at hs
  split at hs
  · simp at hs
    rcases hs with hs | hs
    · rcases foldl_resolveStep_mem parts [] s hs with h | h
      · simp at h
      · exact Or.inl h
    · exact Or.inr hs
  · rcases foldl_resolveStep_mem parts [] s hs with h | h
    · simp at h
    · exact Or.inl h

theorem process_of_dotFree (segs : List Str) (h : DotFree segs) (stack : List Str) :
    process stack segs = stack ++ segs := by
  unfold process
  have hf : ∀ st, segs.foldl pstep st = st ++ segs := by
    induction segs with
    | nil => intro st; simp
    | cons p ps ih =>
      intro st
      have hp := h p (by simp)
      simp only [List.foldl]
      have : pstep st p = st ++ [p] := by simp [pstep, hp.1, hp.2]
      rw [this, ih (fun s hs => h s (by simp [hs]))]; simp
  have hl : ¬ (segs.getLast? = some dot ∨ segs.getLast? = some dotdot) := by
    intro hh
    rcases hh with hh | hh
    · exact (h dot (List.mem_of_getLast? hh)).1 rfl
    · exact (h dotdot (List.mem_of_getLast? hh)).2 rfl
  simp [hf, hl]

/-! ### navigate on a reference without scheme and authority -/

/-- the path list `navigate` hands to `from_parts` for such a reference -/
def relParts (b : URL) (r : Ref) : List Str :=
  if r.path = [] then b.parts
  else if r.path.head? = some '/' then splitSlash r.path
  else [] :: (b.parts.drop 1).dropLast ++ splitSlash r.path

/-- the query `navigate` hands to `from_parts` -/
def relQuery (honour : Bool) (b : URL) (r : Ref) : QPairs :=
  if r.path = [] then
    (if parseQsl (r.query.getD []) = [] ∧ ¬ (honour = true ∧ r.query.isSome = true) then b.query
     else parseQsl (r.query.getD []))
  else parseQsl (r.query.getD [])

theorem ofRelRef_pathText (r : Ref) : (URL.ofRelRef r).pathText = r.path := by
  simp [URL.ofRelRef, URL.ofComponents, URL.pathText, joinSlash_splitSlash]

theorem authorityText_ne_nil (u : URL) (h : u.host ≠ []) : u.authorityText ≠ [] := by
  unfold URL.authorityText
  simp only [h, ne_eq, not_false_eq_true, if_true]
  by_cases hv : u.v6 <;> simp [hv, h]

/-- explicit form of `base.navigate(ref)` for a base with a host and a rooted path -/
def relResult (honour : Bool) (b : URL) (r : Ref) : URL :=
  { b with netlocSep := false, parts := resolvePathParts (relParts b r), query := relQuery honour b r,
           hasQuery := false, fragment := r.fragment.getD [] }

@[simp] theorem relResult_scheme (honour : Bool) (b : URL) (r : Ref) : (relResult honour b r).scheme = b.scheme := rfl
@[simp] theorem relResult_host (honour : Bool) (b : URL) (r : Ref) : (relResult honour b r).host = b.host := rfl
@[simp] theorem relResult_parts (honour : Bool) (b : URL) (r : Ref) :
    (relResult honour b r).parts = resolvePathParts (relParts b r) := rfl
@[simp] theorem relResult_query (honour : Bool) (b : URL) (r : Ref) : (relResult honour b r).query = relQuery honour b r := rfl
@[simp] theorem relResult_fragment (honour : Bool) (b : URL) (r : Ref) :
    (relResult honour b r).fragment = r.fragment.getD [] := rfl
@[simp] theorem relResult_authorityText (honour : Bool) (b : URL) (r : Ref) :
    (relResult honour b r).authorityText = b.authorityText := rfl

/-- round 3c: the explicit form holds for every base with a rooted path that has a host OR a non-empty path
    (without a host the code does not re-root the merged path, so the base directory must carry the root marker
    itself: `file:///a/b`, `foo:/a/b`) -/
theorem navigate_rel_rooted (honour : Bool) (b : URL) (r : Ref) (segs : List Str) (hsegs : b.parts = [] :: segs)
    (hh : b.host ≠ [] ∨ segs ≠ []) (hls : lower b.scheme = b.scheme) (hlh : lower b.host = b.host) :
    URL.navigateWith honour b (URL.ofRelRef r) = relResult honour b r := by
  unfold relResult
  have hpt := ofRelRef_pathText r
  unfold URL.navigateWith
  rw [hpt]
  have hnabs : ¬ ((URL.ofRelRef r).scheme ≠ [] ∧ (URL.ofRelRef r).host ≠ []) := by
    simp [URL.ofRelRef, URL.ofComponents]
  rw [if_neg hnabs]
  have hparts : (if (if r.path ≠ [] then
        if r.path.head? = some '/' then (URL.ofRelRef r).parts
        else (if b.host ≠ [] ∧ b.parts.dropLast.head? ≠ some [] then [] :: b.parts.dropLast
              else b.parts.dropLast) ++ (URL.ofRelRef r).parts
      else b.parts) = [] then [[]] else
      (if r.path ≠ [] then
        if r.path.head? = some '/' then (URL.ofRelRef r).parts
        else (if b.host ≠ [] ∧ b.parts.dropLast.head? ≠ some [] then [] :: b.parts.dropLast
              else b.parts.dropLast) ++ (URL.ofRelRef r).parts
      else b.parts)) = relParts b r := by
    have hop : (URL.ofRelRef r).parts = splitSlash r.path := by simp [URL.ofRelRef, URL.ofComponents]
    rw [hop]
    unfold relParts
    by_cases hp : r.path = []
    · simp [hp, hsegs]
    · simp only [hp, ne_eq, not_false_eq_true, if_true, if_false]
      by_cases hh : r.path.head? = some '/'
      · simp [hh, splitSlash_ne_nil]
      · simp only [hh, if_false]
        have hbase : (if b.host ≠ [] ∧ b.parts.dropLast.head? ≠ some [] then [] :: b.parts.dropLast
              else b.parts.dropLast) = [] :: (b.parts.drop 1).dropLast := by
          rw [hsegs]
          cases segs with
          | nil =>
            have hne : b.host ≠ [] := hh.elim id (fun h => absurd rfl h)
            simp [hne]
          | cons a t => simp [List.dropLast]
        rw [hbase]
        simp
  simp only [hparts]
  unfold URL.normalize
  simp only [if_true]
  have e1 : orStr (URL.ofRelRef r).scheme b.scheme = b.scheme := by simp [orStr, URL.ofRelRef, URL.ofComponents]
  have e2 : orStr (URL.ofRelRef r).user b.user = b.user := by simp [orStr, URL.ofRelRef, URL.ofComponents]
  have e3 : orStr (URL.ofRelRef r).pass b.pass = b.pass := by simp [orStr, URL.ofRelRef, URL.ofComponents]
  have e4 : orStr (URL.ofRelRef r).host b.host = b.host := by simp [orStr, URL.ofRelRef, URL.ofComponents]
  have e5 : (URL.ofRelRef r).host = [] := by simp [URL.ofRelRef, URL.ofComponents]
  have e6 : (URL.ofRelRef r).port = 0 := by simp [URL.ofRelRef, URL.ofComponents]
  have e7 : (URL.ofRelRef r).query = parseQsl (r.query.getD []) := by simp [URL.ofRelRef, URL.ofComponents]
  have e8 : (URL.ofRelRef r).fragment = r.fragment.getD [] := by simp [URL.ofRelRef, URL.ofComponents]
  have e9 : (URL.ofRelRef r).hasQuery = r.query.isSome := by simp [URL.ofRelRef, URL.ofComponents]
  rw [e1, e2, e3, e4, e5, e6, e7, e8, e9, hls, hlh]
  cases b
  simp [relQuery]

theorem navigate_rel (honour : Bool) (b : URL) (r : Ref) (hb : AbsBase b) :
    URL.navigateWith honour b (URL.ofRelRef r) = relResult honour b r := by
  obtain ⟨segs, hsegs⟩ := hb.rooted
  exact navigate_rel_rooted honour b r segs hsegs (Or.inl hb.host_ne) hb.lowerScheme hb.lowerHost

theorem flat_head (l : List Str) (h : (flat l).head? ≠ some '/') : flat l = [] := by
  cases l with
  | nil => rfl
  | cons a t => simp [flat] at h

/-- `toRef` of a URL with a host and a rooted path -/
theorem toRef_rooted (u : URL) (segs : List Str) (hh : u.host ≠ []) (hp : u.parts = [] :: segs) :
    u.toRef = { scheme := optOfStr u.scheme, authority := some u.authorityText, path := flat segs,
                query := optOfStr (queryText u.query), fragment := optOfStr u.fragment } := by
  have ha := authorityText_ne_nil u hh
  have hpt : u.pathText = flat segs := by simp [URL.pathText, hp, joinSlash_root]
  unfold URL.toRef
  rw [hpt]
  simp only [ha, ne_eq, not_false_eq_true, if_true, true_and]
  congr 1
  by_cases hf : flat segs = []
  · simp [hf]
  · have : (flat segs).head? = some '/' := by
      cases segs with
      | nil => simp [flat] at hf
      | cons a t => simp [flat]
    simp [this]

/-- the segments (below the root marker) that `navigate` merges for a relative reference -/
def relSegs (segs : List Str) (r : Ref) : List Str :=
  if r.path = [] then segs
  else if r.path.head? = some '/' then splitSlash (r.path.drop 1)
  else segs.dropLast ++ splitSlash r.path

theorem relParts_eq (b : URL) (r : Ref) (segs : List Str) (hp : b.parts = [] :: segs) :
    relParts b r = [] :: relSegs segs r := by
  unfold relParts relSegs
  by_cases h1 : r.path = []
  · simp [h1, hp]
  · simp only [h1, if_false]
    by_cases h2 : r.path.head? = some '/'
    · simp only [h2, if_true]
      cases hr : r.path with
      | nil => exact absurd hr h1
      | cons c cs =>
        rw [hr] at h2
        simp at h2
        subst h2
        simp [splitSlash]
    · simp [h2, hp]

theorem relSegs_noSlash (segs : List Str) (r : Ref) (h : ∀ s ∈ segs, NoSlash s) :
    ∀ s ∈ relSegs segs r, NoSlash s := by
  unfold relSegs
  intro s hs
  split at hs
  · exact h s hs
  · split at hs
    · exact splitSlash_noSlash _ s hs
    · simp at hs
      rcases hs with hs | hs
      · exact h s (mem_dropLast _ _ hs)
      · exact splitSlash_noSlash _ s hs

/-- 5.2.2/5.2.3 for a relative reference against a base whose path text is `flat segs`:
    the path before dot-segment removal is the text of the merged segments -/
theorem rfc_path_rel (base : Ref) (segs : List Str) (r : Ref) (hr : RelRef r)
    (hauth : base.authority.isSome ∨ segs ≠ []) (hpath : base.path = flat segs) (hns : ∀ s ∈ segs, NoSlash s) :
    (resolve base r).path =
      if r.path = [] then flat segs else removeDotSegments (flat (relSegs segs r)) := by
  unfold resolve relSegs
  simp only [hr.1, hr.2, Option.isSome_none, Bool.false_eq_true, if_false]
  by_cases h1 : r.path = []
  · simp [h1, hpath]
  · simp only [h1, if_false]
    by_cases h2 : r.path.head? = some '/'
    · simp only [h2, if_true]
      cases hrp : r.path with
      | nil => exact absurd hrp h1
      | cons c cs =>
        rw [hrp] at h2
        simp at h2
        subst h2
        have : flat (splitSlash cs) = '/' :: cs := by
          rw [flat_eq_joinSlash _ (splitSlash_ne_nil cs), joinSlash_splitSlash]
        simp [this]
    · simp only [h2, if_false]
      congr 1
      unfold merge
      have hfl : flat (splitSlash r.path) = '/' :: r.path := by
        rw [flat_eq_joinSlash _ (splitSlash_ne_nil _), joinSlash_splitSlash]
      rcases List.eq_nil_or_concat segs with hs | ⟨init, last, hs⟩
      · subst hs
        have hauth : base.authority.isSome := hauth.elim id (fun h => absurd rfl h)
        simp [hauth, hpath, flat_nil, hfl]
      · subst hs
        have hne : flat (init.concat last) ≠ [] := by simp [flat]
        rw [hpath]
        simp only [hne, and_false, if_false]
        rw [List.concat_eq_append,
          dropAfterLastSlash_flat_snoc init last (hns last (by simp))]
        simp [flat_append, hfl]

/-- the path `navigate` produces = the path of the RFC target -/
theorem navigate_path_eq_rfc (b : URL) (segs : List Str) (r : Ref) (hr : RelRef r)
    (hp : b.parts = [] :: segs) (hns : ∀ s ∈ segs, NoSlash s) (base : Ref)
    (hauth : base.authority.isSome ∨ segs ≠ []) (hpath : base.path = flat segs)
    (hdf : r.path ≠ [] ∨ DotFree segs) :
    joinSlash (resolvePathParts (relParts b r)) = (resolve base r).path := by
  rw [relParts_eq b r segs hp, resolvePathParts_root, joinSlash_root,
    rfc_path_rel base segs r hr hauth hpath hns]
  by_cases h1 : r.path = []
  · have hd : DotFree segs := by
      rcases hdf with h | h
      · exact absurd h1 h
      · exact h
    simp [h1, relSegs, process_of_dotFree segs hd]
  · simp only [h1, if_false]
    rw [removeDotSegments_flat _ (relSegs_noSlash segs r hns)]

/-! ### the other four components of the RFC target for a relative reference -/

theorem resolve_rel_scheme (base r : Ref) (hr : RelRef r) : (resolve base r).scheme = base.scheme := by
  unfold resolve; simp only [hr.1, hr.2, Option.isSome_none, Bool.false_eq_true, if_false]
  split <;> (try split) <;> rfl

theorem resolve_rel_authority (base r : Ref) (hr : RelRef r) :
    (resolve base r).authority = base.authority := by
  unfold resolve; simp only [hr.1, hr.2, Option.isSome_none, Bool.false_eq_true, if_false]
  split <;> (try split) <;> rfl

theorem resolve_rel_fragment (base r : Ref) (hr : RelRef r) : (resolve base r).fragment = r.fragment := by
  unfold resolve; simp only [hr.1, hr.2, Option.isSome_none, Bool.false_eq_true, if_false]
  split <;> (try split) <;> rfl

theorem resolve_rel_query (base r : Ref) (hr : RelRef r) :
    (resolve base r).query = if r.path = [] then (if r.query.isSome then r.query else base.query) else r.query := by
  unfold resolve; simp only [hr.1, hr.2, Option.isSome_none, Bool.false_eq_true, if_false]
  by_cases h1 : r.path = []
  · simp [h1]
  · simp only [h1, if_false]; split <;> rfl

theorem dropEmpty_optOfStr_getD (o : Option Str) : dropEmpty (optOfStr (o.getD [])) = dropEmpty o := by
  cases o with
  | none => simp [optOfStr, dropEmpty]
  | some q => by_cases hq : q = [] <;> simp [optOfStr, dropEmpty, hq]

theorem dropEmpty_optOfStr (s : Str) : dropEmpty (optOfStr s) = optOfStr s := by
  by_cases h : s = [] <;> simp [optOfStr, dropEmpty, h]

theorem dotFree_root (segs : List Str) : DotFree ([] :: segs) ↔ DotFree segs := by
  constructor
  · intro h s hs; exact h s (by simp [hs])
  · intro h s hs
    simp at hs
    rcases hs with rfl | hs
    · simp [dot, dotdot]
    · exact h s hs

/-- the same without any condition on the base path, against the NORMALISED RFC target (dot segments of an
    inherited base path removed too - RFC 3986 6.2.2.3; the statement's "normalized result") -/
theorem navigate_path_eq_normalized_rfc (b : URL) (segs : List Str) (r : Ref) (hr : RelRef r)
    (hp : b.parts = [] :: segs) (hns : ∀ s ∈ segs, NoSlash s) (base : Ref)
    (hauth : base.authority.isSome ∨ segs ≠ []) (hpath : base.path = flat segs) :
    joinSlash (resolvePathParts (relParts b r)) = removeDotSegments (resolve base r).path := by
  rw [relParts_eq b r segs hp, resolvePathParts_root, joinSlash_root,
    rfc_path_rel base segs r hr hauth hpath hns]
  by_cases h1 : r.path = []
  · simp only [h1, if_true]
    rw [removeDotSegments_flat segs hns]
    simp [relSegs, h1]
  · simp only [h1, if_false]
    have hns' := relSegs_noSlash segs r hns
    rw [removeDotSegments_flat _ hns']
    -- removing dot segments again changes nothing: the stack is slash-free and dot-free
    have hroot := resolvePathParts_root (relSegs segs r)
    have hdf : DotFree (process [] (relSegs segs r)) := by
      have := resolvePathParts_dotFree ([] :: relSegs segs r)
      rw [hroot] at this
      exact (dotFree_root _).1 this
    have hns2 : ∀ s ∈ process [] (relSegs segs r), NoSlash s := by
      intro s hs
      have hm : s ∈ resolvePathParts ([] :: relSegs segs r) := by rw [hroot]; simp [hs]
      rcases resolvePathParts_mem _ s hm with h | h
      · simp at h
        rcases h with rfl | h
        · simp [NoSlash]
        · exact hns' s h
      · subst h; simp [NoSlash]
    rw [removeDotSegments_flat _ hns2, process_of_dotFree _ hdf]
    simp

theorem optQuery_roundtrip (o : Option Str) (h : CanonQ o) :
    dropEmpty (optOfStr (queryText (parseQsl (o.getD [])))) = dropEmpty o := by
  cases o with
  | none => simp [optOfStr, dropEmpty]
  | some q =>
    simp only [Option.getD_some]
    rw [queryText_parseQsl q h]
    by_cases hq : q = [] <;> simp [optOfStr, dropEmpty, hq]

/-- the query comparison: what `navigate` keeps = the RFC target's query, up to the empty marker,
    outside the defective region (empty path, present-but-empty query, base with a query) -/
theorem relQuery_eq_rfc (honour : Bool) (b : URL) (base r : Ref) (hr : RelRef r)
    (hbq : base.query = optOfStr (queryText b.query)) (hcq : CanonQ r.query)
    (hq : honour = true ∨ ¬ (r.path = [] ∧ r.query = some [] ∧ queryText b.query ≠ [])) :
    dropEmpty (optOfStr (queryText (relQuery honour b r))) = dropEmpty (resolve base r).query := by
  rw [resolve_rel_query base r hr, hbq]
  unfold relQuery
  by_cases h1 : r.path = []
  · simp only [h1, if_true]
    cases hrq : r.query with
    | none => simp [dropEmpty_optOfStr]
    | some q =>
      rw [hrq] at hcq
      by_cases hqe : q = []
      · subst hqe
        rcases hq with hh | hq
        · subst hh
          have e0 : queryText ([] : QPairs) = [] := rfl
          simp [e0, parseQsl_nil, optOfStr, dropEmpty]
        · have : queryText b.query = [] := by
            by_cases hb : queryText b.query = []
            · exact hb
            · exact absurd ⟨h1, hrq, hb⟩ hq
          have e0 : queryText ([] : QPairs) = [] := rfl
          cases honour <;> simp [this, e0, parseQsl_nil, optOfStr, dropEmpty]
      · have hne := parseQsl_ne_nil q hcq hqe
        simp [hne, queryText_parseQsl q hcq, hqe, optOfStr, dropEmpty]
  · simp only [h1, if_false]
    exact optQuery_roundtrip r.query hcq

/-! ### Appendix B parse of a reference text = the model's cuts -/

theorem cutAt_hash (t : Str) :
    (cutAt '#' t).1 = t.takeWhile (notIn ['#']) ∧
    (cutAt '#' t).2 = parseFragmentPart (t.dropWhile (notIn ['#'])) := by
  induction t with
  | nil => simp [cutAt, parseFragmentPart]
  | cons x xs ih =>
    by_cases h : x = '#'
    · subst h; simp [cutAt, notIn, parseFragmentPart]
    · have hn : notIn ['#'] x = true := by simp [notIn, h]
      simp [cutAt, h, hn, ih.1, ih.2]

/-- path / query / fragment of Appendix B = the cuts of the model, for every text -/
theorem pqf_eq (t : Str) :
    t.takeWhile (notIn ['?', '#']) = (cutAt '?' (cutAt '#' t).1).1 ∧
    (parseQueryPart (t.dropWhile (notIn ['?', '#']))).1 = (cutAt '?' (cutAt '#' t).1).2 ∧
    parseFragmentPart (parseQueryPart (t.dropWhile (notIn ['?', '#']))).2 = (cutAt '#' t).2 := by
  induction t with
  | nil => simp [cutAt, parseQueryPart, parseFragmentPart]
  | cons x xs ih =>
    by_cases h1 : x = '#'
    · subst h1; simp [cutAt, notIn, parseQueryPart, parseFragmentPart]
    · by_cases h2 : x = '?'
      · subst h2
        have := cutAt_hash xs
        simp [cutAt, notIn, parseQueryPart, this.1, this.2]
      · have hn : notIn ['?', '#'] x = true := by simp [notIn, h1, h2]
        simp [cutAt, h1, h2, hn, ih.1, ih.2.1, ih.2.2]

theorem parseScheme_none (t : Str) (h : (parseScheme t).1 = none) : (parseScheme t).2 = t := by
  unfold parseScheme at h ⊢
  simp only at h ⊢
  split at h
  · by_cases hp : List.takeWhile (notIn [':', '/', '?', '#']) t ≠ []
    · simp [hp] at h
    · simp [hp]
  · rfl

theorem parseAuthority_none (t : Str) (h : (parseAuthority t).1 = none) : (parseAuthority t).2 = t := by
  unfold parseAuthority at h ⊢
  split at h <;> simp_all

/-- for a text that Appendix B parses without scheme and without authority, the RFC parse IS the model's -/
theorem rfcParse_rel (t : Str) (hs : (rfcParse t).scheme = none) (ha : (rfcParse t).authority = none) :
    rfcParse t = refOfText t := by
  have h1 : (parseScheme t).1 = none := hs
  have e1 := parseScheme_none t h1
  have h2 : (parseAuthority (parseScheme t).2).1 = none := ha
  have e2 := parseAuthority_none _ h2
  have := pqf_eq t
  unfold rfcParse refOfText
  simp only [Ref.mk.injEq]
  rw [e1] at h2 e2
  refine ⟨h1, ?_, ?_, ?_, ?_⟩
  · rw [e1]; exact h2
  · rw [e1, e2]; exact this.1
  · rw [e1, e2]; exact this.2.1
  · rw [e1, e2]; exact this.2.2

/-- a cut loses nothing: the two pieces and the separator give the text back -/
theorem cutAt_join (c : Char) (t : Str) :
    (cutAt c t).1 ++ (match (cutAt c t).2 with | none => [] | some r => c :: r) = t := by
  induction t with
  | nil => simp [cutAt]
  | cons x xs ih =>
    by_cases h : x = c
    · subst h; simp [cutAt]
    · simp only [cutAt, h, if_false, List.cons_append]
      rw [ih]

/-- the model's components of a reference text recompose (RFC 3986 5.3) to that text -/
theorem recompose_refOfText (t : Str) : recompose (refOfText t) = t := by
  unfold recompose refOfText
  simp only [List.nil_append]
  have h1 := cutAt_join '#' t
  have h2 := cutAt_join '?' (cutAt '#' t).1
  rw [List.append_assoc]
  conv => rhs; rw [← h1, ← h2]
  cases (cutAt '?' (cutAt '#' t).1).2 <;> cases (cutAt '#' t).2 <;> simp

/-! ### the fuel of the RFC loop does not matter once it covers the input -/

theorem dropWhile_length_le (l : Str) : (l.dropWhile ns).length ≤ l.length := by
  induction l with
  | nil => simp
  | cons c cs ih => simp only [List.dropWhile]; split <;> simp <;> omega

theorem firstSeg_rest_lt (inp : Str) (h : inp ≠ []) : (firstSeg inp).2.length < inp.length := by
  cases inp with
  | nil => exact absurd rfl h
  | cons c r =>
    by_cases hc : c = '/'
    · subst hc
      simp only [firstSeg, List.length_cons]
      have := dropWhile_length_le r
      omega
    · have : firstSeg (c :: r) = ((c :: r).takeWhile ns, (c :: r).dropWhile ns) := by
        unfold firstSeg
        split
        · rename_i heq; simp at heq; exact absurd heq.1 hc
        · rfl
      rw [this]
      simp only [List.dropWhile, ns_of c hc, List.length_cons]
      have := dropWhile_length_le r
      omega

/-- one iteration of the loop of 5.2.4 step 2, continuing with fuel `k` -/
def rdsStep (k : Nat) (inp out : Str) : Str :=
  match inp with
  | '.' :: '.' :: '/' :: r => rds k r out
  | '.' :: '/' :: r => rds k r out
  | '/' :: '.' :: '/' :: r => rds k ('/' :: r) out
  | ['/', '.'] => rds k ['/'] out
  | '/' :: '.' :: '.' :: '/' :: r => rds k ('/' :: r) (popSeg out)
  | ['/', '.', '.'] => rds k ['/'] (popSeg out)
  | ['.'] => rds k [] out
  | ['.', '.'] => rds k [] out
  | _ => rds k (firstSeg inp).2 (out ++ (firstSeg inp).1)

theorem rds_succ (k : Nat) (inp out : Str) (h : inp ≠ []) : rds (k+1) inp out = rdsStep k inp out := by
  cases inp with
  | nil => exact absurd rfl h
  | cons c cs =>
    unfold rdsStep
    rw [rds.eq_def]
    simp only
    rfl

theorem rds_fuel (n : Nat) : ∀ (inp out : Str) (m : Nat), inp.length ≤ n → inp.length ≤ m →
    rds n inp out = rds m inp out := by
  induction n with
  | zero =>
    intro inp out m hn _
    have : inp = [] := by cases inp <;> simp_all
    subst this; simp [rds_nil]
  | succ n ih =>
    intro inp out m hn hm
    cases m with
    | zero =>
      have : inp = [] := by cases inp <;> simp_all
      subst this; simp [rds_nil]
    | succ m =>
      by_cases he : inp = []
      · subst he; simp [rds_nil]
      · have hfs := firstSeg_rest_lt inp he
        rw [rds_succ n inp out he, rds_succ m inp out he]
        unfold rdsStep
        split
        all_goals ((try simp only [List.length_cons, List.length_nil] at hn hm hfs); apply ih <;> (try simp only [List.length_cons, List.length_nil]) <;> omega)

end C07
