import BoltonsVerif.PyHeap
/-
PyRtC11 — runtime library of `harness/py2lean_c11.py`, the source translator for the list-and-interval
bookkeeping of `boltons.setutils.IndexedSet` (round 3d; rules: notes/SRCTIE.md "§2d").  Trusted like `PyRt.lean` /
`PyHeap.lean`; validated against CPython (the real class, real `bisect.bisect_left`) by `py2lean_c11.selftest`.

1. The OBJECT STORE is `PyHeap.Heap` unchanged: the `[start, stop]` interval lists of `dead_indices` are CELLS, a
   Python list attribute that the class never rebinds (`item_list`, `dead_indices`) is a Lean list of `Val`s (items:
   `key k` or the `_MISSING` sentinel; intervals: `ref a`).
2. EXPRESSIONS are terms of type `Except PyExc T` (`bx` = bind): an expression has no side effect, so evaluating it
   is reading the state; operands are bound left to right, `and`/`or` evaluate the later operand only when Python does.
3. STATEMENTS are `Stmt σ ρ := σ → Flow ρ × σ` (the combinators of PyRtC18, with raising expressions).
-/

namespace PyRtC11
open PyHeap

variable {κ ν : Type}

/-! ## 1. expressions -/

/-- bind of `Except PyExc` written out (the generated code uses no `do` notation) -/
def bx {α β : Type} (m : Except PyExc α) (k : α → Except PyExc β) : Except PyExc β :=
  match m with
  | .ok v => k v
  | .error e => .error e

@[simp] theorem bx_ok {α β : Type} (v : α) (k : α → Except PyExc β) : bx (.ok v) k = k v := rfl
@[simp] theorem bx_error {α β : Type} (e : PyExc) (k : α → Except PyExc β) : bx (.error e) k = .error e := rfl

/-- `a and b` in boolean position: `b` is evaluated only when `a` is true -/
def andE (a b : Except PyExc Bool) : Except PyExc Bool := bx a (fun x => if x then b else .ok false)
/-- `a or b` in boolean position -/
def orE (a b : Except PyExc Bool) : Except PyExc Bool := bx a (fun x => if x then .ok true else b)

/-- a dynamic value used where the code needs an `int` (comparison with an int, arithmetic): `None`, a list and a
    sentinel `object()` raise `TypeError` against an int; what a key / value object does is not modelled (`Other`) -/
def asInt? : Val κ ν → Except PyExc Int
  | .int i => .ok i
  | .none => .error PyExc.TypeError
  | .ref _ => .error PyExc.TypeError
  | .sentinel => .error PyExc.TypeError
  | _ => .error PyExc.Other

/-- an `int` that may be `None` (a parameter with the default `None`) used as an int: `None` against an int is a
    `TypeError` in arithmetic and in orderings -/
def optInt? : Option Int → Except PyExc Int
  | some i => .ok i
  | none => .error PyExc.TypeError

/-- ... passed to a translated method whose parameter is declared `Int`: the callee is specified for ints only, so `None`
    as that argument is NOT MODELLED (`Other`; the self-test counts it as unspecified) -/
def optIntArg? : Option Int → Except PyExc Int
  | some i => .ok i
  | none => .error PyExc.Other

/-- ... stored into a cell / a list of dynamic values -/
def boxOpt : Option Int → Val κ ν
  | some i => .int i
  | none => .none

/-- a dynamic value used as the key of a dict STORE (`d[v] = …`) in a dict whose keys are of the key type: a key is
    itself; a cell (a list) is unhashable; storing under any other object (`None`, a sentinel, an int) would put a key
    of another type into the dict: not modelled -/
def asKeyStore? : Val κ ν → Except PyExc κ
  | .key k => .ok k
  | .ref _ => .error PyExc.TypeError
  | _ => .error PyExc.Other

/-- Python's `<` on two lists of ints (lexicographic; the first differing position decides, else the lengths);
    items that are not ints: not modelled -/
def cellLt? : List (Val κ ν) → List (Val κ ν) → Except PyExc Bool
  | [], [] => .ok false
  | [], _ :: _ => .ok true
  | _ :: _, [] => .ok false
  | .int x :: xs, .int y :: ys => if x = y then cellLt? xs ys else .ok (decide (x < y))
  | _ :: _, _ :: _ => .error PyExc.Other

/-- `a < b` on two dynamic values: ints, or two lists (cells, compared by content); `None` / a sentinel / a list
    against an int are `TypeError`s; key / value objects are not modelled -/
def valLt? (h : Heap κ ν) : Val κ ν → Val κ ν → Except PyExc Bool
  | .int x, .int y => .ok (decide (x < y))
  | .ref a, .ref b => cellLt? (h.cell a) (h.cell b)
  | .key _, _ => .error PyExc.Other
  | .val _, _ => .error PyExc.Other
  | _, .key _ => .error PyExc.Other
  | _, .val _ => .error PyExc.Other
  | _, _ => .error PyExc.TypeError

/-- the `while lo < hi` loop of `bisect.bisect_left` over the test `lt mid` (= `a[mid] < x`); one unit of fuel per
    round (`len(a)` rounds always suffice: the interval shrinks every round) -/
def bsearch? (lt : Nat → Except PyExc Bool) : Nat → Nat → Nat → Except PyExc Nat
  | 0, lo, _ => .ok lo
  | fuel + 1, lo, hi =>
    if lo < hi then
      bx (lt ((lo + hi) / 2)) (fun b =>
        if b then bsearch? lt fuel ((lo + hi) / 2 + 1) hi else bsearch? lt fuel lo ((lo + hi) / 2))
    else .ok lo

/-- SPEC-DECLARED OPERATION `bisect.bisect_left(a, x)` (`lo = 0`, `hi = len(a)`) on a list of dynamic values:
    the real algorithm, comparing through the store -/
def bisectLeft? (h : Heap κ ν) (a : List (Val κ ν)) (x : Val κ ν) : Except PyExc Int :=
  bx (bsearch? (fun i => match a[i]? with
      | some y => valLt? h y x
      | none => .error PyExc.IndexError) a.length 0 a.length) (fun n => .ok (n : Int))

/-- SPEC-DECLARED COMPARISON `a > (b / c)` for ints `a`, `b` and a positive int constant `c` (true division, a
    float in Python): `a * c > b`.  Exact whenever `b / c` is computed exactly or rounds to a non-integer on the same
    side, in particular for `|b| < 2 ** 53` (`b` is the length of a list) -/
def gtTrueDiv (a b c : Int) : Bool := decide (b < a * c)

/-! ## lists of dynamic values (a list attribute the class mutates in place and never rebinds) -/

variable {α : Type}

/-- `l[i] = v` -/
def setIdx? (l : List α) (i : Int) (v : α) : Except PyExc (List α) :=
  if 0 ≤ PyRt.normIdx l i ∧ PyRt.normIdx l i < l.length then .ok (l.set (PyRt.normIdx l i).toNat v)
  else .error PyExc.IndexError

/-- `del l[i]` -/
def delIdx? (l : List α) (i : Int) : Except PyExc (List α) :=
  if 0 ≤ PyRt.normIdx l i ∧ PyRt.normIdx l i < l.length then .ok (l.eraseIdx (PyRt.normIdx l i).toNat)
  else .error PyExc.IndexError

/-- `l.insert(i, x)`: a negative `i` counts from the end, then clamped into `0 .. len(l)` -/
def insert (l : List α) (i : Int) (x : α) : List α := l.insertIdx (PyRt.clampBound l i) x

/-- `del l[lo:hi]` (step 1; `none` = bound omitted) -/
def delSlice (l : List α) (lo hi : Option Int) : List α :=
  let a := match lo with | none => 0 | some i => PyRt.clampBound l i
  let b := match hi with | none => l.length | some i => PyRt.clampBound l i
  if a < b then l.take a ++ l.drop b else l

/-! ## 2. statements -/

inductive Flow (ρ : Type) where
  | next                  -- fell through to the next statement
  | brk | cont            -- `break` / `continue`
  | ret (r : ρ)           -- `return r`
  | exc (e : PyExc)       -- an exception is propagating

abbrev Stmt (σ ρ : Type) := σ → Flow ρ × σ

variable {σ ρ : Type}

def skip : Stmt σ ρ := fun s => (.next, s)

/-- `a; b` -/
def seq (a b : Stmt σ ρ) : Stmt σ ρ := fun s =>
  match a s with
  | (.next, s1) => b s1
  | (fl, s1) => (fl, s1)

/-- an assignment / in-place update: the new state, or the exception raised while evaluating it (state unchanged) -/
def assign (f : σ → Except PyExc σ) : Stmt σ ρ := fun s =>
  match f s with
  | .ok s1 => (.next, s1)
  | .error e => (.exc e, s)

/-- `if c: a else: b` -/
def cond (c : σ → Except PyExc Bool) (a b : Stmt σ ρ) : Stmt σ ρ := fun s =>
  match c s with
  | .ok true => a s
  | .ok false => b s
  | .error e => (.exc e, s)

def ret (e : σ → Except PyExc ρ) : Stmt σ ρ := fun s =>
  match e s with
  | .ok v => (.ret v, s)
  | .error x => (.exc x, s)

def raise (e : PyExc) : Stmt σ ρ := fun s => (.exc e, s)
def brk : Stmt σ ρ := fun s => (.brk, s)
def cont : Stmt σ ρ := fun s => (.cont, s)

/-- a call of a translated method (may raise, may change the object): its value goes to `k` -/
def call {α : Type} (m : σ → Except PyExc α × σ) (k : α → Stmt σ ρ) : Stmt σ ρ := fun s =>
  match m s with
  | (.ok v, s1) => k v s1
  | (.error e, s1) => (.exc e, s1)

/-- `try: body except E: handler` (one leaf class; the handler runs on the state at the raising point) -/
def tryExcept (body : Stmt σ ρ) (cls : PyExc) (handler : Stmt σ ρ) : Stmt σ ρ := fun s =>
  match body s with
  | (.exc e, s1) => if e = cls then handler s1 else (.exc e, s1)
  | r => r

/-- `while c: body` with an explicit bound on the number of tests of the condition -/
def whileLoop (c : σ → Except PyExc Bool) (body : Stmt σ ρ) : Nat → Stmt σ ρ
  | 0 => fun s => (.exc .OutOfFuel, s)
  | n + 1 => fun s =>
    match c s with
    | .error e => (.exc e, s)
    | .ok false => (.next, s)
    | .ok true =>
      match body s with
      | (.next, s1) => whileLoop c body n s1
      | (.cont, s1) => whileLoop c body n s1
      | (.brk, s1) => (.next, s1)
      | (fl, s1) => (fl, s1)

/-- `for x in xs: body` over a list evaluated once before the loop (`bind x` stores the loop variable) -/
def forLoop {α : Type} (bind : α → σ → σ) (body : Stmt σ ρ) : List α → Stmt σ ρ
  | [] => fun s => (.next, s)
  | x :: xs => fun s =>
    match body (bind x s) with
    | (.next, s1) => forLoop bind body xs s1
    | (.cont, s1) => forLoop bind body xs s1
    | (.brk, s1) => (.next, s1)
    | (fl, s1) => (fl, s1)

/-- `for x in <expr>: body` -/
def forIn {α : Type} (it : σ → Except PyExc (List α)) (bind : α → σ → σ) (body : Stmt σ ρ) : Stmt σ ρ := fun s =>
  match it s with
  | .ok xs => forLoop bind body xs s
  | .error e => (.exc e, s)

/-- `for [i,] x in [enumerate](g)` where `g` is the generator `(v for v in self.<list> if keep v)` over a list attribute
    the class never rebinds: CPython's list iterator is an INDEX into the live list (it looks at `len(list)` at every
    step), so a body that writes the list is seen by the rest of the iteration.  `j` = the iterator's index, `i` = the
    `enumerate` counter; one unit of fuel per list element looked at -/
def forLazy {α : Type} (get : σ → List α) (keep : α → Bool) (bind : Int → α → σ → σ) (body : Stmt σ ρ) :
    Nat → Nat → Int → Stmt σ ρ
  | 0, _, _ => fun s => (.exc .OutOfFuel, s)
  | n + 1, j, i => fun s =>
    match (get s)[j]? with
    | none => (.next, s)
    | some x =>
      if keep x then
        match body (bind i x s) with
        | (.next, s1) => forLazy get keep bind body n (j + 1) (i + 1) s1
        | (.cont, s1) => forLazy get keep bind body n (j + 1) (i + 1) s1
        | (.brk, s1) => (.next, s1)
        | (fl, s1) => (fl, s1)
      else forLazy get keep bind body n (j + 1) i s

/-- the result of a method body: `fall` is what falling off the end returns (`some ()` = Python's `None` for a method
    of result type `None`; `none` for the others, whose bodies the translator checks to end in `return` / `raise`) -/
def finish {τ : Type} (proj : σ → τ) (fall : Option ρ) (r : Flow ρ × σ) : Except PyExc ρ × τ :=
  match r with
  | (.ret v, s) => (.ok v, proj s)
  | (.exc e, s) => (.error e, proj s)
  | (.next, s) => (match fall with | some v => (.ok v, proj s) | none => (.error .Other, proj s))
  | (_, s) => (.error .Other, proj s)

end PyRtC11
