/-
PyRtC01 — runtime of the heap-mode source tie of `boltons.dictutils.OrderedMultiDict`, round 3e
(`harness/py2lean_c01.py`, rules in notes/SRCTIE.md "1g continued").  Core Lean only; part of the trusted base of the
source tie (like `PyRt.lean` / `PyHeap.lean`); compared with CPython by `harness/py2lean_c01.py`'s self-test.
-/
import BoltonsVerif.PyHeap

namespace PyRtC01
open PyHeap

/-- CHECKED UNBOXING of a key read back out of the store (`k = self.root[PREV][KEY]` into a variable of the static key
    type).  A `Val.key k` is `k`.  Any other object (None — the KEY slot of `root` —, a sentinel, a cell, a value object,
    an int) has no image in the key type: the translation does not model what Python does with it and says so with
    `PyExc.Other`, the outcome no handler catches (as `Val.is?` does for two unmodelled identities).  The tie theorems
    show that it does not occur in the states the class can reach. -/
def unboxKey? {κ ν : Type} : Val κ ν → Except PyExc κ
  | .key k => .ok k
  | _ => .error PyExc.Other

/-- the same for a VALUE read back out of a cell (`yield curr[KEY], curr[VALUE]`) -/
def unboxVal? {κ ν : Type} : Val κ ν → Except PyExc ν
  | .val v => .ok v
  | _ => .error PyExc.Other

end PyRtC01
