import BoltonsVerif.C14.Proofs
/-
C14 helper lemmas, round 3: acceptance (ANY text the reference lexers read back as the arguments is a
correct quoting), compositionality of the sh lexer, the piece grammar, quoting with an arbitrary
splice / bare predicate / needs-quotes predicate.
-/
namespace C14

/-! ## the sh lexer is compositional: what follows a blank is read independently -/

theorem shLex_append_blank (tail : Str) (m : ShMode) (w : Bool) (cur p : Str) :
    ∀ ws, shLex m w cur p = some ws →
      shLex m w cur (p ++ ' ' :: tail) = (shLex .unq false [] tail).map (ws ++ ·) := by
  fun_induction shLex m w cur p <;> intro ws h
  case case1 w cur =>
    simp only [List.nil_append]; rw [shLex.eq_def]
    simp only [Option.some.injEq] at h
    subst h
    cases w <;> simp <;> (generalize shLex .unq false [] tail = r; cases r <;> simp)
  case case4 cur c cs hb ih =>
    simp only [List.cons_append]; rw [shLex.eq_def]
    obtain ⟨a, h1, rfl⟩ := Option.map_eq_some_iff.mp h
    simp only [hb, if_true]
    rw [ih a h1]
    generalize shLex .unq false [] tail = r
    cases r <;> simp
  all_goals (simp only [List.cons_append, List.nil_append]; rw [shLex.eq_def])
  all_goals simp_all

theorem shSplit_append_blank (p q : Str) (a : List Str) (h : shSplit p = some a) :
    shSplit (p ++ ' ' :: q) = (shSplit q).map (a ++ ·) :=
  shLex_append_blank q .unq false [] p a h

/-- texts joined by single blanks are read piecewise -/
theorem shSplit_join (pas : List (Str × List Str)) (h : ∀ pa ∈ pas, shSplit pa.1 = some pa.2) :
    shSplit (join [' '] (pas.map (·.1))) = some (pas.map (·.2)).flatten := by
  induction pas with
  | nil => simp [join, shSplit, shLex]
  | cons pa r ih =>
    have hpa := h pa (by simp)
    have ih' := ih (fun x hx => h x (by simp [hx]))
    cases r with
    | nil => simpa [join] using hpa
    | cons p2 ps2 =>
      simp only [List.map_cons, join] at ih' ⊢
      rw [List.append_assoc, List.singleton_append, shSplit_append_blank pa.1 _ pa.2 hpa, ih']
      simp

/-! ## pieces -/

theorem shLex_unq_esc (w : Bool) (cur : Str) (c : Char) (cs : Str) (h1 : c ≠ '\n') (h2 : c ≠ nul) :
    shLex .unq w cur (bsl :: c :: cs) = shLex .unq true (cur ++ [c]) cs := by
  rw [shLex.eq_def]; simp [h1, h2, bsl, sq, dq]

theorem shLex_sgl_run (s : Str) (hs : ∀ c ∈ s, c ≠ sq ∧ c ≠ nul) (w : Bool) (cur tail : Str) :
    shLex .sgl w cur (s ++ sq :: tail) = shLex .unq true (cur ++ s) tail := by
  induction s generalizing w cur with
  | nil => simp [shLex_sgl_sq]
  | cons c cs ih =>
    obtain ⟨h1, h2⟩ := hs c (by simp)
    rw [List.cons_append, shLex_sgl_char _ _ _ _ h1 h2, ih (fun x hx => hs x (by simp [hx]))]
    simp

theorem shLex_dbl_plain (w : Bool) (cur : Str) (c : Char) (cs : Str) (h : dblPlain c = true) :
    shLex .dbl w cur (c :: cs) = shLex .dbl true (cur ++ [c]) cs := by
  simp only [dblPlain, Bool.and_eq_true, bne_iff_ne, ne_eq] at h
  obtain ⟨⟨⟨⟨h1, h2⟩, h3⟩, h4⟩, h5⟩ := h
  rw [shLex.eq_def]; simp [h1, h2, h3, h4, h5]

theorem shLex_dbl_run (s : Str) (hs : ∀ c ∈ s, dblPlain c = true) (w : Bool) (cur tail : Str) :
    shLex .dbl w cur (s ++ dq :: tail) = shLex .unq true (cur ++ s) tail := by
  induction s generalizing w cur with
  | nil => simp [shLex_dbl_dq]
  | cons c cs ih =>
    rw [List.cons_append, shLex_dbl_plain _ _ _ _ (hs c (by simp)), ih (fun x hx => hs x (by simp [hx]))]
    simp

theorem shLex_piece (p : ShPiece) (hp : p.ok = true) (w : Bool) (cur tail : Str) :
    shLex .unq w cur (p.render ++ tail) = shLex .unq true (cur ++ p.value) tail := by
  cases p with
  | sgl s =>
    simp only [ShPiece.ok, List.all_eq_true, Bool.and_eq_true, bne_iff_ne, ne_eq] at hp
    simp only [ShPiece.render, ShPiece.value, List.cons_append, List.append_assoc]
    rw [shLex_unq_sq, shLex_sgl_run s hp]; simp
  | esc c =>
    simp only [ShPiece.ok, Bool.and_eq_true, bne_iff_ne, ne_eq] at hp
    simp only [ShPiece.render, ShPiece.value, List.cons_append, List.nil_append]
    exact shLex_unq_esc w cur c tail hp.1 hp.2
  | dbl s =>
    simp only [ShPiece.ok, List.all_eq_true] at hp
    simp only [ShPiece.render, ShPiece.value, List.cons_append, List.append_assoc]
    rw [shLex_unq_dq, shLex_dbl_run s hp]; simp
  | bare s =>
    simp only [ShPiece.ok, Bool.and_eq_true, Bool.not_eq_true', List.all_eq_true] at hp
    simp only [ShPiece.render, ShPiece.value]
    rw [shLex_literal_run s hp.2, hp.1]; simp

theorem shLex_pieces (ps : List ShPiece) (hp : ∀ p ∈ ps, p.ok = true) (w : Bool) (cur tail : Str) :
    shLex .unq w cur (wordRender ps ++ tail) = shLex .unq (w || !ps.isEmpty) (cur ++ wordValue ps) tail := by
  induction ps generalizing w cur with
  | nil => simp [wordRender, wordValue]
  | cons p ps ih =>
    simp only [wordRender, wordValue, List.map_cons, List.flatten_cons, List.append_assoc] at ih ⊢
    rw [shLex_piece p (hp p (by simp)), ih (fun x hx => hp x (by simp [hx]))]
    simp

theorem shLex_word (ps : List ShPiece) (hp : wordOk ps = true) (tail : Str) :
    shLex .unq false [] (wordRender ps ++ tail) = shLex .unq true (wordValue ps) tail := by
  simp only [wordOk, Bool.and_eq_true, Bool.not_eq_true', List.all_eq_true] at hp
  rw [shLex_pieces ps hp.2, hp.1]; simp

/-- generic assembly: a list of encoded words, each of which the lexer reads as one word whatever
    follows, is read as the list of those words -/
theorem shLex_join_words {α : Type} (f g : α → Str) (xs : List α)
    (h : ∀ x ∈ xs, ∀ tail, shLex .unq false [] (f x ++ tail) = shLex .unq true (g x) tail) :
    shLex .unq false [] (join [' '] (xs.map f)) = some (xs.map g) := by
  induction xs with
  | nil => simp [join, shLex]
  | cons a r ih =>
    have ha := h a (by simp)
    have hr : ∀ x ∈ r, ∀ tail, shLex .unq false [] (f x ++ tail) = shLex .unq true (g x) tail :=
      fun x hx => h x (by simp [hx])
    cases r with
    | nil =>
      have := ha []
      simp only [List.append_nil] at this
      simp [join, this, shLex_unq_end]
    | cons b r' =>
      simp only [List.map_cons, join] at ih ⊢
      rw [List.append_assoc, ha, List.singleton_append, shLex_unq_blank, ih hr]
      rfl

theorem sh_pieces_sound_aux (ws : List (List ShPiece)) (h : ∀ w ∈ ws, wordOk w = true) :
    shSplit (join [' '] (ws.map wordRender)) = some (ws.map wordValue) :=
  shLex_join_words wordRender wordValue ws (fun w hw tail => shLex_word w (h w hw) tail)

/-! ## args2sh with an arbitrary splice and bare predicate -/

theorem shLex_sgl_splice (splice : Str) (ps : List ShPiece) (h : spliceOk splice ps = true)
    (w : Bool) (cur tail : Str) :
    shLex .sgl w cur (splice ++ tail) = shLex .sgl true (cur ++ [sq]) tail := by
  simp only [spliceOk, Bool.and_eq_true, List.all_eq_true, beq_iff_eq] at h
  obtain ⟨⟨h1, h2⟩, h3⟩ := h
  subst h3
  simp only [List.cons_append, List.append_assoc]
  rw [shLex_sgl_sq, shLex_pieces ps h1, h2, shLex_unq_sq]; simp

theorem shLex_sgl_replWith (splice : Str) (ps : List ShPiece) (h : spliceOk splice ps = true)
    (cs : Str) (hn : ∀ c ∈ cs, c ≠ nul) (cur tail : Str) (w : Bool) :
    shLex .sgl w cur (replSqWith splice cs ++ sq :: tail) = shLex .unq true (cur ++ cs) tail := by
  induction cs generalizing cur w with
  | nil => simp [replSqWith, shLex_sgl_sq]
  | cons c cs ih =>
    have hc := hn c (by simp)
    have ih' := fun cur w => ih (fun x hx => hn x (by simp [hx])) cur w
    by_cases hq : c = sq
    · subst hq
      simp only [replSqWith, if_true, List.append_assoc]
      rw [shLex_sgl_splice splice ps h, ih']; simp
    · simp only [replSqWith, hq, if_false, List.cons_append]
      rw [shLex_sgl_char _ _ _ _ hq hc, ih']; simp

theorem shLex_quoteWith (bare : Str → Bool) (hb : ∀ a, bare a = true → ∀ c ∈ a, shLiteral c = true)
    (splice : Str) (ps : List ShPiece) (h : spliceOk splice ps = true)
    (a : Str) (hn : ∀ c ∈ a, c ≠ nul) (tail : Str) :
    shLex .unq false [] (shQuoteWith bare splice a ++ tail) = shLex .unq true a tail := by
  unfold shQuoteWith
  split
  · rename_i he
    have : a = [] := by simpa using he
    subst this
    simp [shLex_unq_sq, shLex_sgl_sq]
  · rename_i he
    split
    · rename_i hs
      rw [shLex_literal_run a (hb a hs)]; simp [he]
    · simp only [List.cons_append, List.append_assoc]
      rw [shLex_unq_sq, shLex_sgl_replWith splice ps h a hn]; simp

theorem sh_roundtrip_with_aux (bare : Str → Bool) (hb : ∀ a, bare a = true → ∀ c ∈ a, shLiteral c = true)
    (splice : Str) (ps : List ShPiece) (h : spliceOk splice ps = true)
    (args : List Str) (hn : NoNul args) :
    shSplit (args2shWith bare splice args) = some args := by
  have := shLex_join_words (shQuoteWith bare splice) id args
    (fun a ha tail => shLex_quoteWith bare hb splice ps h a (hn a ha) tail)
  simpa [args2shWith, shSplit] using this

/-- translator obligation on the regenerated splice: the decomposition into pieces proposed by the
    translator is a valid way of writing one single quote between two single-quoted parts -/
theorem spliceTable_ok : spliceOk sqSplice splicePieces = true := by decide +kernel

theorem allSafe_literal (a : Str) (ha : allSafe a = true) : ∀ c ∈ a, shLiteral c = true :=
  fun c hc => safe_sub_literal c (by simp only [allSafe, List.all_eq_true] at ha; exact ha c hc)

theorem sh_roundtrip_aux (args : List Str) (hn : NoNul args) : shSplit (args2sh args) = some args :=
  sh_roundtrip_with_aux allSafe allSafe_literal sqSplice splicePieces spliceTable_ok args hn

/-! ## args2cmd with an arbitrary needs-quotes predicate -/

theorem join_cons_tail (f : Str → Str) (a : Str) (as : List Str) :
    ∃ t, join [' '] ((a :: as).map f) = f a ++ t ∧ IsTail t ∧ t.drop 1 = join [' '] (as.map f) ∧
      (as = [] → t = []) := by
  cases as with
  | nil => exact ⟨[], by simp [join], Or.inl rfl, by simp [join], fun _ => rfl⟩
  | cons b r =>
    exact ⟨' ' :: join [' '] ((b :: r).map f), by simp [join], Or.inr ⟨_, rfl⟩, by simp, by simp⟩

theorem cmd_roundtrip_anyquote_aux (v : CrtVariant) (qp : Str → Bool)
    (hq : ∀ a, needQuote a = true → qp a = true) (args : List Str) (hn : NoNul args) :
    crtSplit v (args2cmdQ qp args) = args := by
  unfold crtSplit args2cmdQ
  induction args with
  | nil => simp [join, crt_nil_out]
  | cons a as ih =>
    obtain ⟨t, h1, h2, h3, -⟩ := join_cons_tail (cmdArgQ qp) a as
    rw [h1, crt_cmdArgQ v qp hq a (hn a (by simp)) t h2, h3, ih (fun b hb => hn b (by simp [hb]))]

/-- the model's own `args2cmd` is the instance `qp = cmdNeedQuote` (the regenerated character class) -/
theorem args2cmd_eq_Q (args : List Str) : args2cmd args = args2cmdQ cmdNeedQuote args := by
  cases args with
  | nil => simp [args2cmd, cmdLoop, args2cmdQ, join]
  | cons a as =>
    rw [args2cmd_eq]
    have hA : ∀ b, cmdArgQ cmdNeedQuote b = cmdArg b := fun b => rfl
    unfold args2cmdQ
    induction as generalizing a with
    | nil => simp [cmdRest, join, hA]
    | cons b r ih =>
      simp only [List.map_cons, join, hA] at ih ⊢
      rw [← ih b]
      simp [cmdRest]

end C14
