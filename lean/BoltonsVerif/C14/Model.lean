import BoltonsVerif.Generated.C14_ShTables
/-
C14 — executable model of the anchored encoders of `boltons/strutils.py`
(`args2sh`, `args2cmd`, `format_int_list`, `parse_int_list`,
`complement_int_list`, `int_ranges_from_int_list`) and of the two REFERENCE
lexers the property statement refers to:

  * `shSplit`   POSIX `sh` word splitting of an argument text, "nothing expanded":
                quotes, backslash, blank separation; every unquoted character that
                is not in a small set of characters known to be inert in every
                POSIX shell makes the result `none` (= "the shell would do more
                than split");
  * `crtSplit`  the Microsoft C runtime `parse_cmdline` rules for the arguments
                after `argv[0]` (2n / 2n+1 backslashes before a quote), in the
                three historical variants of the `""`-inside-quotes rule.

Text is `List Char` (`Str`); Python `str` = sequence of Unicode scalar values.
Core Lean only.  Every function is total; Python's `ValueError` is `none`.
-/
namespace C14

abbrev Str := List Char

def sq  : Char := '\''
def dq  : Char := '"'
def bsl : Char := '\\'
def nul : Char := Char.ofNat 0

/-- `sep.join(parts)` -/
def join (sep : Str) : List Str → Str
  | [] => []
  | [a] => a
  | a :: b :: r => a ++ sep ++ join sep (b :: r)

/-! ## args2sh -/

/-- `_find_sh_unsafe(c) is None` for the one-character string `c` (table generated from the source regex) -/
def isSafeNat (n : Nat) : Bool := Gen.shSafeRanges.any fun r => r.1 ≤ n && n ≤ r.2
def isSafeChar (c : Char) : Bool := isSafeNat c.toNat

/-- `_find_sh_unsafe(arg) is None` : the regex is one negated character class -/
def allSafe (a : Str) : Bool := a.all isSafeChar

/-- `arg.replace("'", splice)` -/
def replSqWith (splice : Str) : Str → Str
  | [] => []
  | c :: cs => if c = sq then splice ++ replSqWith splice cs else c :: replSqWith splice cs

/-- one iteration of the `for arg in args` loop of `args2sh`, with the text that stands for an embedded
    single quote (`splice`) and the decision "leave this argument bare" (`bare`) as parameters -/
def shQuoteWith (bare : Str → Bool) (splice : Str) (a : Str) : Str :=
  if a.isEmpty then [sq, sq]
  else if bare a then a
  else sq :: (replSqWith splice a ++ [sq])

def args2shWith (bare : Str → Bool) (splice : Str) (args : List Str) : Str :=
  join [' '] (args.map (shQuoteWith bare splice))

/-- the replacement text of `arg.replace("'", …)` in the source, regenerated on every run by evaluating
    `args2sh(["a'b"])` (`'"'"'` in the code as it is) -/
def sqSplice : Str := Gen.shSqSplice.map Char.ofNat

/-- `arg.replace("'", "'\"'\"'")` -/
def replSq (a : Str) : Str := replSqWith sqSplice a

/-- one iteration of the `for arg in args` loop of `args2sh` -/
def shQuote (a : Str) : Str := shQuoteWith allSafe sqSplice a

/-- `args2sh(args)` (the `sep` parameter is ignored by the code: `' '.join`) -/
def args2sh (args : List Str) : Str := join [' '] (args.map shQuote)

/-! ## args2cmd -/

def bs (n : Nat) : Str := List.replicate n bsl

/-- `(" " in arg) or ("\t" in arg) or not arg`: the MINIMAL needs-quotes predicate (what the MS C runtime
    rules require); the code's own predicate is `cmdNeedQuote` below -/
def needQuote (a : Str) : Bool := a.contains ' ' || a.contains '\t' || a.isEmpty

/-- the `for c in arg` loop plus the two "remaining backslashes" statements and the closing
    quote; `n = len(bs_buf)`, the result is what gets appended to `result` -/
def cmdGo (q : Bool) : Nat → Str → Str
  | n, [] => bs n ++ (if q then bs n ++ [dq] else [])
  | n, c :: cs =>
    if c = bsl then cmdGo q (n + 1) cs
    else if c = dq then bs (n * 2) ++ bsl :: dq :: cmdGo q 0 cs
    else bs n ++ c :: cmdGo q 0 cs

def inRanges (rs : List (Nat × Nat)) (n : Nat) : Bool := rs.any fun r => r.1 ≤ n && n ≤ r.2

/-- a character whose presence makes `args2cmd` wrap the argument in double quotes: the class is
    regenerated on every run by evaluating `args2cmd([c])` on every code point (blank and tab in the code
    as it is) -/
def cmdQuoteChar (c : Char) : Bool := inRanges Gen.cmdQuoteRanges c.toNat

/-- the code's `needquote` -/
def cmdNeedQuote (a : Str) : Bool := a.isEmpty || a.any cmdQuoteChar

/-- `args2cmd`'s per-argument text with the decision "wrap this argument in double quotes" left open: `qp` -/
def cmdArgQ (qp : Str → Bool) (a : Str) : Str :=
  if qp a then dq :: cmdGo true 0 a else cmdGo false 0 a

def args2cmdQ (qp : Str → Bool) (args : List Str) : Str := join [' '] (args.map (cmdArgQ qp))

def cmdArg (a : Str) : Str := cmdArgQ cmdNeedQuote a

/-- the outer loop: `if result: result.append(' ')` then the argument -/
def cmdLoop : Str → List Str → Str
  | res, [] => res
  | res, a :: as => cmdLoop ((if res.isEmpty then res else res ++ [' ']) ++ cmdArg a) as

def args2cmd (args : List Str) : Str := cmdLoop [] args

/-! ## escape_shell_args -/

/-- `escape_shell_args(args, style=style)`; the empty string stands for a falsy style (`None` or `''`),
    which the code replaces by `'cmd'` when `sys.platform == 'win32'` (`win32 = true`) and by `'sh'`
    otherwise; `none` = ValueError -/
def escapeShellArgs (style : Str) (args : List Str) (win32 : Bool := false) : Option Str :=
  let st := if style.isEmpty then (if win32 then ['c', 'm', 'd'] else ['s', 'h']) else style
  if st = ['s', 'h'] then some (args2sh args)
  else if st = ['c', 'm', 'd'] then some (args2cmd args)
  else none

/-! ## reference lexer 1: POSIX sh word splitting, nothing expanded -/

/-- characters that are inert in every POSIX shell when they appear unquoted in an argument
    word (ASCII letters, digits, `_ @ % + = : , . / -`).  Written down independently of the
    source; the generated table must be a subset (`Proofs.safe_sub_literal`). -/
def shLiteralNat (n : Nat) : Bool :=
  (97 ≤ n && n ≤ 122) || (65 ≤ n && n ≤ 90) || (48 ≤ n && n ≤ 57) ||
  n = 95 || n = 64 || n = 37 || n = 43 || n = 61 || n = 58 || n = 44 || n = 46 || n = 47 || n = 45
def shLiteral (c : Char) : Bool := shLiteralNat c.toNat

inductive ShMode where
  | unq | sgl | dbl
deriving DecidableEq, Repr

/-- `shLex mode inWord cur rest`: `none` = not a plain list of words (unterminated quote,
    an unquoted character outside `shLiteral`, `$`/backquote inside double quotes, NUL). -/
def shLex : ShMode → Bool → Str → Str → Option (List Str)
  | .unq, w, cur, [] => some (if w then [cur] else [])
  | .sgl, _, _, [] => none
  | .dbl, _, _, [] => none
  | .unq, w, cur, c :: cs =>
    if c = ' ' || c = '\t' then
      (if w then (shLex .unq false [] cs).map (cur :: ·) else shLex .unq false [] cs)
    else if c = sq then shLex .sgl true cur cs
    else if c = dq then shLex .dbl true cur cs
    else if c = bsl then
      match cs with
      | [] => none
      | c' :: cs' =>
        if c' = '\n' then shLex .unq w cur cs'
        else if c' = nul then none
        else shLex .unq true (cur ++ [c']) cs'
    else if shLiteral c then shLex .unq true (cur ++ [c]) cs
    else none
  | .sgl, _, cur, c :: cs =>
    if c = sq then shLex .unq true cur cs
    else if c = nul then none
    else shLex .sgl true (cur ++ [c]) cs
  | .dbl, _, cur, c :: cs =>
    if c = dq then shLex .unq true cur cs
    else if c = bsl then
      match cs with
      | [] => none
      | c' :: cs' =>
        if c' = '$' || c' = '`' || c' = dq || c' = bsl then shLex .dbl true (cur ++ [c']) cs'
        else if c' = '\n' then shLex .dbl true cur cs'
        else if c' = nul then none
        else shLex .dbl true (cur ++ [bsl, c']) cs'
    else if c = '$' || c = '`' || c = nul then none
    else shLex .dbl true (cur ++ [c]) cs

def shSplit (s : Str) : Option (List Str) := shLex .unq false [] s

/-! ## reference lexer 2: Microsoft C runtime argv rules (arguments after argv[0]) -/

/-- treatment of `""` while inside a quoted part:
    `documented` = no special rule (the five rules quoted in the source comment),
    `legacy` = pre-2008 msvcrt (literal quote, quoted part ends),
    `modern` = msvcr90+/UCRT (literal quote, quoted part continues) -/
inductive CrtVariant where
  | documented | legacy | modern
deriving DecidableEq, Repr

def isBlank (c : Char) : Bool := c = ' ' || c = '\t'

/-- `crt v inArg inQuote numslash cur rest` -/
def crt (v : CrtVariant) : Bool → Bool → Nat → Str → Str → List Str
  | ia, _, n, cur, [] => if ia then [cur ++ bs n] else []
  | ia, q, n, cur, c :: cs =>
    if c = nul then (if ia then [cur ++ bs n] else [])
    else if !ia && isBlank c then crt v false q 0 [] cs
    else if c = bsl then crt v true q (n + 1) cur cs
    else if c = dq then
      if n % 2 = 0 then
        match cs with
        | [] => crt v true (!q) 0 (cur ++ bs (n / 2)) []
        | c2 :: cs' =>
          if q && c2 = dq && v != .documented then
            crt v true (v == .modern) 0 (cur ++ bs (n / 2) ++ [dq]) cs'
          else crt v true (!q) 0 (cur ++ bs (n / 2)) (c2 :: cs')
      else crt v true q 0 (cur ++ bs (n / 2) ++ [dq]) cs
    else if !q && isBlank c then (cur ++ bs n) :: crt v false false 0 [] cs
    else crt v true q 0 (cur ++ bs n ++ [c]) cs
termination_by _ _ _ _ l => l.length

def crtSplit (v : CrtVariant) (s : Str) : List Str := crt v false false 0 [] s

/-! ## decimal integers -/

def digitChar (d : Nat) : Char := Char.ofNat (48 + d)

def digitsRev (n : Nat) : Str :=
  if n < 10 then [digitChar n] else digitChar (n % 10) :: digitsRev (n / 10)
decreasing_by omega

/-- `'{:d}'.format(n)` for `n ≥ 0` -/
def toDigits (n : Nat) : Str := (digitsRev n).reverse

def isDigit (c : Char) : Bool := 48 ≤ c.toNat && c.toNat ≤ 57

def ofDigits (s : Str) : Nat := s.foldl (fun acc c => acc * 10 + (c.toNat - 48)) 0

/-- whitespace accepted by `str.strip()` / `int()` inside the model's domain -/
def isWs (c : Char) : Bool := c = ' ' || c = '\t' || c = '\n'

def strip (s : Str) : Str := ((s.dropWhile isWs).reverse.dropWhile isWs).reverse

/-- `int(x)` restricted to the model's alphabet (ASCII digits, surrounding blanks);
    `none` = ValueError -/
def pyInt? (s : Str) : Option Nat :=
  let t := strip s
  if !t.isEmpty && t.all isDigit then some (ofDigits t) else none

/-! ## integer lists -/

def insertSorted (x : Nat) : List Nat → List Nat
  | [] => [x]
  | y :: ys => if x ≤ y then x :: y :: ys else y :: insertSorted x ys

/-- `sorted(...)` on integers -/
def isort : List Nat → List Nat
  | [] => []
  | x :: xs => insertSorted x (isort xs)

/-- `min(seq)` / `max(seq)` (0 for the empty sequence, which the code never asks for) -/
def lmin : List Nat → Nat
  | [] => 0
  | x :: xs => xs.foldl min x
def lmax : List Nat → Nat
  | [] => 0
  | x :: xs => xs.foldl max x

/-- `'{:d}{}{:d}'.format(min(contig_range), range_delim, max(contig_range))`
    (`rd` = `range_delim`, a one-character string in the model) -/
def fmtRange (rd : Char) (cr : List Nat) : Str := toDigits (lmin cr) ++ rd :: toDigits (lmax cr)

/-- one iteration of `for x in sorted(int_list)`: state = (`output`, `contig_range`) -/
def fmtStep (rd : Char) (st : List Str × List Nat) (x : Nat) : List Str × List Nat :=
  match st.2 with
  | [] => (st.1, [x])
  | [a] =>
    if x = a + 1 then (st.1, [a, x])
    else if a + 1 < x then (st.1 ++ [toDigits a], [x])
    else st
  | a :: b :: r =>
    if x = (a :: b :: r).getLastD 0 + 1 then (st.1, st.2 ++ [x])
    else if (a :: b :: r).getLastD 0 + 1 < x then (st.1 ++ [fmtRange rd st.2], [x])
    else st

/-- the `else:` clause of the `for` loop ("handle the last value") -/
def fmtFinish (rd : Char) (st : List Str × List Nat) : List Str :=
  match st.2 with
  | [] => st.1
  | [a] => st.1 ++ [toDigits a]
  | _ => st.1 ++ [fmtRange rd st.2]

def fmtTokens (rd : Char) (l : List Nat) : List Str := fmtFinish rd ((isort l).foldl (fmtStep rd) ([], []))

/-- `format_int_list(int_list, delim=d, range_delim=rd, delim_space=sp)`; the delimiters are
    one-character strings in the model (defaults `,` and `-`) -/
def formatIntList (l : List Nat) (sp : Bool := false) (d : Char := ',') (rd : Char := '-') : Str :=
  join (if sp then [d, ' '] else [d]) (fmtTokens rd l)

/-- `s.split(d)` for a one-character delimiter -/
def splitOn (d : Char) : Str → List Str
  | [] => [[]]
  | c :: cs =>
    if c = d then [] :: splitOn d cs
    else match splitOn d cs with
      | [] => [[c]]
      | t :: ts => (c :: t) :: ts

/-- `list(range(lo, hi + 1))` -/
def rangeIncl (lo hi : Nat) : List Nat := List.range' lo (hi + 1 - lo)

def mapM? {α β : Type} (f : α → Option β) : List α → Option (List β)
  | [] => some []
  | a :: as => match f a, mapM? f as with
    | some b, some bs => some (b :: bs)
    | _, _ => none

/-- one `x` of `range_string.strip().split(delim)`: the integers it contributes, `none` = ValueError -/
def parseTok (rd : Char) (t : Str) : Option (List Nat) :=
  if t.contains rd then
    match mapM? pyInt? (splitOn rd t) with
    | some lims => some (rangeIncl (lmin lims) (lmax lims))
    | none => none
  else if t.isEmpty then some []
  else match pyInt? t with
    | some n => some [n]
    | none => none

/-- `parse_int_list(range_string, delim=d, range_delim=rd)` -/
def parseIntList (s : Str) (d : Char := ',') (rd : Char := '-') : Option (List Nat) :=
  match mapM? (parseTok rd) (splitOn d (strip s)) with
  | some ls => some (isort ls.flatten)
  | none => none

/-- `complement_int_list(range_string, range_start, range_end, delim=d, range_delim=rd)`;
    `e = none` is `range_end=None` -/
def complementIntList (s : Str) (a : Int) (e : Option Int) (d : Char := ',') (rd : Char := '-') : Option Str :=
  match parseIntList s d rd with
  | none => none
  | some l =>
    let e' : Int := match e with
      | some e => e
      | none => if l.isEmpty then a else (lmax l : Int) + 1
    some (formatIntList ((List.range e'.toNat).filter fun x => !l.contains x && !decide ((x : Int) < a)) false d rd)

/-- one `bounds` of `range_string.split(',')` in `int_ranges_from_int_list` -/
def boundsTok (b : Str) : Option (Nat × Nat) :=
  if b.contains '-' then
    match splitOn '-' b with
    | [s, e] => match pyInt? s, pyInt? e with
      | some x, some y => some (x, y)
      | _, _ => none
    | _ => none
  else match pyInt? b with
    | some x => some (x, x)
    | none => none

/-- `int_ranges_from_int_list(range_string, delim=d, range_delim=rd)`: the delimiters are used for
    reading only; the normalised text is written and re-read with the defaults -/
def intRanges (s : Str) (d : Char := ',') (rd : Char := '-') : Option (List (Nat × Nat)) :=
  match parseIntList s d rd with
  | none => none
  | some l =>
    let t := formatIntList l
    if t.isEmpty then some [] else mapM? boundsTok (splitOn ',' t)

/-! ## acceptance: what it means for ANY text to be a correct quoting of an argument list

The property statement does not fix the text the encoders produce, only how it is read back.
`shAccepts t args` / `crtAccepts t args` say that the reference lexer reads `t` as exactly `args`
(the CRT one in all three historical variants).  The correspondence check applies these to the text
the IMPLEMENTATION produced (driver operations `shv` / `cmdv` / `esav`), so an implementation that
switches to another correct quoting still corresponds. -/

def shAccepts (t : Str) (args : List Str) : Bool := shSplit t == some args

def crtAccepts (t : Str) (args : List Str) : Bool :=
  crtSplit .documented t == args && crtSplit .legacy t == args && crtSplit .modern t == args

inductive ShellStyle where
  | sh | cmd
deriving DecidableEq, Repr

/-- which reader the text of `escape_shell_args(args, style=style)` is meant for (`none` = ValueError) -/
def styleOf (style : Str) (win32 : Bool) : Option ShellStyle :=
  let st := if style.isEmpty then (if win32 then ['c', 'm', 'd'] else ['s', 'h']) else style
  if st = ['s', 'h'] then some .sh
  else if st = ['c', 'm', 'd'] then some .cmd
  else none

/-! ## pieces: a syntactic class of shell words that is always read back literally

A shell word written as a sequence of pieces - a single-quoted part, a backslash-escaped character,
a double-quoted part without `"` `\` `$` backquote, a bare run of inert characters - denotes the
concatenation of the piece values (`Props.sh_pieces_sound`). -/

inductive ShPiece where
  | sgl (s : Str)     -- `'s'`
  | esc (c : Char)    -- `\c`
  | dbl (s : Str)     -- `"s"`
  | bare (s : Str)    -- `s`
deriving DecidableEq, Repr

def dblPlain (c : Char) : Bool := c != dq && c != bsl && c != '$' && c != '`' && c != nul

def ShPiece.ok : ShPiece → Bool
  | .sgl s => s.all fun c => c != sq && c != nul
  | .esc c => c != '\n' && c != nul
  | .dbl s => s.all dblPlain
  | .bare s => !s.isEmpty && s.all shLiteral

def ShPiece.render : ShPiece → Str
  | .sgl s => sq :: (s ++ [sq])
  | .esc c => [bsl, c]
  | .dbl s => dq :: (s ++ [dq])
  | .bare s => s

def ShPiece.value : ShPiece → Str
  | .sgl s => s
  | .esc c => [c]
  | .dbl s => s
  | .bare s => s

/-- a word = a non-empty list of pieces -/
def wordRender (w : List ShPiece) : Str := (w.map ShPiece.render).flatten
def wordValue (w : List ShPiece) : Str := (w.map ShPiece.value).flatten
def wordOk (w : List ShPiece) : Bool := !w.isEmpty && w.all ShPiece.ok

/-- the decidable side condition on a splice: it is `'` + (pieces denoting one single quote) + `'`,
    i.e. it closes the quoted part, writes a single quote in some valid way, and reopens -/
def spliceOk (splice : Str) (ps : List ShPiece) : Bool :=
  (ps.all ShPiece.ok) && wordValue ps == [sq] && splice == sq :: (wordRender ps ++ [sq])

/-- the decomposition of the regenerated splice into pieces proposed by the translator
    (kind 0 = `'…'`, 1 = `\c`, 2 = `"…"`, other = bare run); CHECKED by `Proofs.spliceTable_ok` -/
def splicePieces : List ShPiece := Gen.shSqSplicePieces.map fun p =>
  let s : Str := p.2.map Char.ofNat
  match p.1 with
  | 0 => .sgl s
  | 1 => .esc (s.headD nul)
  | 2 => .dbl s
  | _ => .bare s

/-- the defaults of `delim` / `range_delim` in the signatures of the integer-list functions (regenerated) -/
def defaultDelim : Char := Char.ofNat Gen.intDelim
def defaultRangeDelim : Char := Char.ofNat Gen.intRangeDelim

/-! ## multi-character delimiters (round 3)

`format_int_list`, `parse_int_list`, `complement_int_list`, `int_ranges_from_int_list` with `delim` /
`range_delim` arbitrary NON-EMPTY strings (the functions of `Model.lean` have one-character delimiters). -/

/-- `s.startswith(d)` -/
def isPre : Str → Str → Bool
  | [], _ => true
  | _ :: _, [] => false
  | a :: as, b :: bs => a = b && isPre as bs

/-- the scanning loop of `s.split(d)`: `k` = characters of a matched separator still to skip,
    `cur` = the current piece, reversed -/
def splitGo (d : Str) : Nat → Str → Str → List Str
  | _, cur, [] => [cur.reverse]
  | k + 1, cur, _ :: cs => splitGo d k cur cs
  | 0, cur, c :: cs =>
    if isPre d (c :: cs) then cur.reverse :: splitGo d (d.length - 1) [] cs
    else splitGo d 0 (c :: cur) cs

/-- `s.split(d)` for a non-empty separator (leftmost, non-overlapping occurrences) -/
def splitOnS (d s : Str) : List Str := splitGo d 0 [] s

/-- `d in s` -/
def containsS (d : Str) : Str → Bool
  | [] => isPre d []
  | c :: cs => isPre d (c :: cs) || containsS d cs

def fmtRangeS (rd : Str) (cr : List Nat) : Str := toDigits (lmin cr) ++ rd ++ toDigits (lmax cr)

def fmtStepS (rd : Str) (st : List Str × List Nat) (x : Nat) : List Str × List Nat :=
  match st.2 with
  | [] => (st.1, [x])
  | [a] =>
    if x = a + 1 then (st.1, [a, x])
    else if a + 1 < x then (st.1 ++ [toDigits a], [x])
    else st
  | a :: b :: r =>
    if x = (a :: b :: r).getLastD 0 + 1 then (st.1, st.2 ++ [x])
    else if (a :: b :: r).getLastD 0 + 1 < x then (st.1 ++ [fmtRangeS rd st.2], [x])
    else st

def fmtFinishS (rd : Str) (st : List Str × List Nat) : List Str :=
  match st.2 with
  | [] => st.1
  | [a] => st.1 ++ [toDigits a]
  | _ => st.1 ++ [fmtRangeS rd st.2]

def fmtTokensS (rd : Str) (l : List Nat) : List Str := fmtFinishS rd ((isort l).foldl (fmtStepS rd) ([], []))

/-- `format_int_list(int_list, delim=d, range_delim=rd, delim_space=sp)` -/
def formatIntListS (l : List Nat) (sp : Bool) (d rd : Str) : Str :=
  join (if sp then d ++ [' '] else d) (fmtTokensS rd l)

def parseTokS (rd : Str) (t : Str) : Option (List Nat) :=
  if containsS rd t then
    match mapM? pyInt? (splitOnS rd t) with
    | some lims => some (rangeIncl (lmin lims) (lmax lims))
    | none => none
  else if t.isEmpty then some []
  else match pyInt? t with
    | some n => some [n]
    | none => none

/-- `parse_int_list(range_string, delim=d, range_delim=rd)` (`d`, `rd` non-empty) -/
def parseIntListS (s : Str) (d rd : Str) : Option (List Nat) :=
  match mapM? (parseTokS rd) (splitOnS d (strip s)) with
  | some ls => some (isort ls.flatten)
  | none => none

def complementIntListS (s : Str) (a : Int) (e : Option Int) (d rd : Str) : Option Str :=
  match parseIntListS s d rd with
  | none => none
  | some l =>
    let e' : Int := match e with
      | some e => e
      | none => if l.isEmpty then a else (lmax l : Int) + 1
    some (formatIntListS ((List.range e'.toNat).filter fun x => !l.contains x && !decide ((x : Int) < a)) false d rd)

def intRangesS (s : Str) (d rd : Str) : Option (List (Nat × Nat)) :=
  match parseIntListS s d rd with
  | none => none
  | some l =>
    let t := formatIntList l
    if t.isEmpty then some [] else mapM? boundsTok (splitOn ',' t)

end C14
