import BoltonsVerif.C14.Errors
/-
C14 helper lemmas, round 3: the integer-list functions with multi-character (string) delimiters.
-/
namespace C14

/-! ## split / contains with a string separator -/

theorem isPre_append (d rest : Str) : isPre d (d ++ rest) = true := by
  induction d with
  | nil => simp [isPre]
  | cons a as ih => simp [isPre, ih]

theorem isPre_head_ne (h : Char) (d' : Str) (c : Char) (cs : Str) (hc : c ≠ h) :
    isPre (h :: d') (c :: cs) = false := by
  simp [isPre, Ne.symm hc]

theorem splitGo_skip (d : Str) (x : Str) (cur rest : Str) :
    splitGo d x.length cur (x ++ rest) = splitGo d 0 cur rest := by
  induction x with
  | nil => simp
  | cons c cs ih => simp [splitGo, ih]

theorem splitGo_tok (h : Char) (d' : Str) (t : Str) (ht : h ∉ t) (cur rest : Str) :
    splitGo (h :: d') 0 cur (t ++ rest) = splitGo (h :: d') 0 (t.reverse ++ cur) rest := by
  induction t generalizing cur with
  | nil => simp
  | cons c cs ih =>
    have hc : c ≠ h := fun e => ht (by simp [e])
    have hcs : h ∉ cs := fun e => ht (by simp [e])
    simp only [List.cons_append, splitGo, isPre_head_ne h d' c _ hc, Bool.false_eq_true, if_false]
    rw [ih hcs]; simp

theorem splitGo_sep (h : Char) (d' : Str) (cur rest : Str) :
    splitGo (h :: d') 0 cur ((h :: d') ++ rest) = cur.reverse :: splitGo (h :: d') 0 [] rest := by
  have hp : isPre (h :: d') (h :: (d' ++ rest)) = true := isPre_append (h :: d') rest
  simp only [List.cons_append, splitGo, hp, if_true, List.length_cons, Nat.add_sub_cancel]
  rw [splitGo_skip]

theorem splitGo_end (d cur : Str) (k : Nat) : splitGo d k cur [] = [cur.reverse] := by
  cases k <;> simp [splitGo]

theorem splitGo_join (h : Char) (d' : Str) (toks : List Str) (hne : toks ≠ []) (ht : ∀ t ∈ toks, h ∉ t) :
    splitGo (h :: d') 0 [] (join (h :: d') toks) = toks := by
  induction toks with
  | nil => exact absurd rfl hne
  | cons t r ih =>
    have h1 := ht t (by simp)
    cases r with
    | nil =>
      have := splitGo_tok h d' t h1 [] []
      simp only [List.append_nil] at this
      simp [join, this, splitGo_end]
    | cons t2 r2 =>
      simp only [join]
      rw [List.append_assoc, splitGo_tok h d' t h1, splitGo_sep, ih (by simp) (fun x hx => ht x (by simp [hx]))]
      simp

theorem splitOnS_join (h : Char) (d' : Str) (toks : List Str) (hne : toks ≠ []) (ht : ∀ t ∈ toks, h ∉ t) :
    splitOnS (h :: d') (join (h :: d') toks) = toks := splitGo_join h d' toks hne ht

theorem containsS_none (h : Char) (d' : Str) (s : Str) (hs : h ∉ s) : containsS (h :: d') s = false := by
  induction s with
  | nil => simp [containsS, isPre]
  | cons c cs ih =>
    have hc : c ≠ h := fun e => hs (by simp [e])
    simp [containsS, isPre_head_ne h d' c cs hc, ih (fun e => hs (by simp [e]))]

theorem containsS_mid (d a b : Str) : containsS d (a ++ d ++ b) = true := by
  induction a with
  | nil =>
    simp only [List.nil_append]
    cases hdb : d ++ b with
    | nil =>
      have hd0 : d = [] := (List.append_eq_nil_iff.mp hdb).1
      subst hd0; simp [containsS, isPre]
    | cons c cs =>
      simp only [containsS, Bool.or_eq_true]
      left; rw [← hdb]; exact isPre_append d b
  | cons c cs ih =>
    simp only [List.cons_append, List.append_assoc, containsS, Bool.or_eq_true] at ih ⊢
    right; exact ih

/-! ## the range-collapsing loop with a string range delimiter -/

/-- `n` or `lo<rd>hi` -/
def renderRangeS (rd : Str) (r : Nat × Nat) : Str :=
  if r.1 = r.2 then toDigits r.1 else toDigits r.1 ++ rd ++ toDigits r.2

def RelS (rd : Str) (st : List Str × List Nat) (rs : RState) : Prop :=
  st.1 = rs.1.map (renderRangeS rd) ∧ st.2 = crOf rs.2 ∧ ∀ r, rs.2 = some r → r.1 ≤ r.2

theorem fmtStepS_rel (rd : Str) (st : List Str × List Nat) (rs : RState) (x : Nat) (h : RelS rd st rs) :
    RelS rd (fmtStepS rd st x) (rStep rs x) := by
  obtain ⟨out, cr⟩ := st
  obtain ⟨cl, cur⟩ := rs
  obtain ⟨h1, h2, h3⟩ := h
  simp only at h1 h2 h3
  subst h1; subst h2
  cases cur with
  | none => simp [fmtStepS, rStep, crOf, RelS]
  | some r =>
    obtain ⟨lo, hi⟩ := r
    have hle : lo ≤ hi := h3 _ rfl
    by_cases heq : lo = hi
    · subst heq
      have hcr : crOf (some (lo, lo)) = [lo] := by simp [crOf]
      simp only [fmtStepS, rStep, hcr]
      split
      · subst_vars; refine ⟨rfl, ?_, by simp⟩
        have : lo + 1 + 1 - lo = 2 := by omega
        simp [crOf, this, List.range'_succ]
      · split
        · refine ⟨?_, ?_, ?_⟩ <;> simp [crOf, renderRangeS]
        · exact ⟨rfl, hcr.symm, by simp⟩
    · obtain ⟨m, rfl⟩ : ∃ m, hi = lo + m + 1 := ⟨hi - lo - 1, by omega⟩
      have hlast : (lo :: (lo + 1) :: List.range' (lo + 2) m).getLastD 0 = lo + m + 1 := by
        rw [range'_two, getLastD_range']; omega
      simp only [fmtStepS, rStep, crOf_two]
      simp only [hlast]
      split
      · subst_vars; exact ⟨rfl, range'_ext lo m, by simp; omega⟩
      · split
        · refine ⟨?_, by simp [crOf], by simp⟩
          simp only [List.map_append, List.map_cons, List.map_nil, renderRangeS, fmtRangeS]
          rw [range'_two, lmin_range', lmax_range']
          have h1 : ¬ (lo = lo + m + 1) := by omega
          have h2 : lo + (m + 1) = lo + m + 1 := by omega
          simp [h1, h2]
        · exact ⟨rfl, (crOf_two lo m).symm, h3⟩

theorem foldlS_rel (rd : Str) (s : List Nat) (st : List Str × List Nat) (rs : RState) (h : RelS rd st rs) :
    RelS rd (s.foldl (fmtStepS rd) st) (s.foldl rStep rs) := by
  induction s generalizing st rs with
  | nil => exact h
  | cons x xs ih => exact ih _ _ (fmtStepS_rel rd st rs x h)

theorem fmtFinishS_rel (rd : Str) (st : List Str × List Nat) (rs : RState) (h : RelS rd st rs) :
    fmtFinishS rd st = (rFinish rs).map (renderRangeS rd) := by
  obtain ⟨out, cr⟩ := st
  obtain ⟨cl, cur⟩ := rs
  obtain ⟨h1, h2, h3⟩ := h
  simp only at h1 h2 h3
  subst h1; subst h2
  cases cur with
  | none => simp [fmtFinishS, rFinish, crOf]
  | some r =>
    obtain ⟨lo, hi⟩ := r
    have hle : lo ≤ hi := h3 _ rfl
    by_cases heq : lo = hi
    · subst heq
      simp [fmtFinishS, rFinish, crOf, renderRangeS]
    · obtain ⟨m, rfl⟩ : ∃ m, hi = lo + m + 1 := ⟨hi - lo - 1, by omega⟩
      simp only [fmtFinishS, rFinish, crOf_two, List.map_append, List.map_cons, List.map_nil, renderRangeS, fmtRangeS]
      rw [range'_two, lmin_range', lmax_range']
      have h1 : ¬ (lo = lo + m + 1) := by omega
      have h2 : lo + (m + 1) = lo + m + 1 := by omega
      simp [h1, h2]

theorem fmtTokensS_eq (rd : Str) (l : List Nat) : fmtTokensS rd l = (runs (isort l)).map (renderRangeS rd) := by
  unfold fmtTokensS runs
  exact fmtFinishS_rel rd _ _ (foldlS_rel rd _ _ _ ⟨rfl, rfl, by simp⟩)

theorem formatS_eq (d rd : Str) (l : List Nat) (sp : Bool) :
    formatIntListS l sp d rd = join (if sp then d ++ [' '] else d) ((runs (isort l)).map (renderRangeS rd)) := by
  simp [formatIntListS, fmtTokensS_eq]

/-! ## range strings with string delimiters read back -/

/-- the delimiter pairs for which the theorems are stated: both non-empty; the FIRST character of `delim`
    is not a digit, not a space and does not occur in `range_delim`; the first character of `range_delim`
    is not a digit (and, where `delim_space=True` is involved, not a space: hypothesis `hsp` of the theorems) -/
def DelimOKS (d rd : Str) : Prop :=
  match d, rd with
  | h :: _, g :: _ => isDigit h = false ∧ h ≠ ' ' ∧ h ∉ rd ∧ isDigit g = false
  | _, _ => False

instance (d rd : Str) : Decidable (DelimOKS d rd) := by
  unfold DelimOKS; split <;> infer_instance

theorem goodEnds_digits (n : Nat) : GoodEnds (toDigits n) :=
  goodEnds_of_all _ (toDigits_ne_nil n) (fun c hc => digit_not_ws (toDigits_digits n c hc))

theorem goodEnds_renderS (rd : Str) (r : Nat × Nat) : GoodEnds (renderRangeS rd r) := by
  unfold renderRangeS; split
  · exact goodEnds_digits _
  · exact goodEnds_append _ _ _ (goodEnds_digits _) (goodEnds_digits _)

theorem parseTokS_render (g : Char) (r' : Str) (hg : isDigit g = false) (pre : Str) (hp1 : g ∉ pre)
    (hp2 : ∀ n, pyInt? (pre ++ toDigits n) = some n) (r : Nat × Nat) (h : r.1 ≤ r.2) :
    parseTokS (g :: r') (pre ++ renderRangeS (g :: r') r) = some (rangeIncl r.1 r.2) := by
  obtain ⟨lo, hi⟩ := r
  simp only at h
  have hno := fun n => toDigits_no n g hg
  unfold renderRangeS
  split
  · rename_i he
    simp only at he; subst he
    have hn : g ∉ pre ++ toDigits lo := by simp [hp1, hno lo]
    have hne : (pre ++ toDigits lo).isEmpty = false := by
      cases hh : pre ++ toDigits lo with
      | nil => exact absurd (List.append_eq_nil_iff.mp hh).2 (toDigits_ne_nil lo)
      | cons _ _ => rfl
    simp [parseTokS, containsS_none g r' _ hn, hne, hp2, rangeIncl]
  · have h1 : containsS (g :: r') (pre ++ (toDigits lo ++ (g :: r') ++ toDigits hi)) = true := by
      have := containsS_mid (g :: r') (pre ++ toDigits lo) (toDigits hi)
      simpa [List.append_assoc] using this
    simp only [parseTokS, h1, if_true]
    have hj : pre ++ (toDigits lo ++ (g :: r') ++ toDigits hi) = join (g :: r') [pre ++ toDigits lo, toDigits hi] := by
      simp [join, List.append_assoc]
    rw [hj, splitOnS_join g r' _ (by simp) (by
      intro t ht
      simp only [List.mem_cons, List.mem_nil_iff, or_false] at ht
      rcases ht with rfl | rfl
      · simp [hp1, hno lo]
      · exact hno hi)]
    have e0 : pyInt? (toDigits hi) = some hi := pyInt_toDigits hi
    simp only [mapM?, hp2, e0, lmin, lmax, List.foldl_cons, List.foldl_nil]
    rw [Nat.min_eq_left h, Nat.max_eq_right h]

theorem join_spaceS (d : Str) (toks : List Str) : join (d ++ [' ']) toks = join d (spaceTail toks) := by
  induction toks with
  | nil => rfl
  | cons a r ih =>
    cases r with
    | nil => rfl
    | cons b r' =>
      simp only [spaceTail, List.map_cons, join] at ih ⊢
      cases r' with
      | nil => simp [join]
      | cons c r'' =>
        simp only [join, List.map_cons] at ih ⊢
        simp only [List.append_assoc, List.cons_append, List.nil_append] at ih ⊢
        rw [ih]

theorem renderS_no_head (h g : Char) (r' : Str) (hh : isDigit h = false) (hr : h ∉ g :: r') (r : Nat × Nat) :
    h ∉ renderRangeS (g :: r') r := by
  have hno := fun n => toDigits_no n h hh
  unfold renderRangeS; split
  · exact hno _
  · simp only [List.mem_append, not_or]; exact ⟨⟨hno _, hr⟩, hno _⟩

theorem parse_renderS (d rd : Str) (ok : DelimOKS d rd) (sp : Bool) (hsp : sp = true → rd.head? ≠ some ' ')
    (rs : List (Nat × Nat)) (h : ∀ r ∈ rs, r.1 ≤ r.2) :
    parseIntListS (join (if sp then d ++ [' '] else d) (rs.map (renderRangeS rd))) d rd = some (isort (expand rs)) := by
  cases d with
  | nil => exact absurd ok (by simp [DelimOKS])
  | cons hc d' =>
  cases rd with
  | nil => exact absurd ok (by simp [DelimOKS])
  | cons g r' =>
  obtain ⟨h1, h2, h3, h4⟩ := ok
  have hsp2 : ∀ n, pyInt? ([' '] ++ toDigits n) = some n := fun n => pyInt_space_toDigits n
  have hnil2 : ∀ n, pyInt? ([] ++ toDigits n) = some n := fun n => pyInt_toDigits n
  have tok0 := fun r hr => parseTokS_render g r' h4 [] (by simp) hnil2 r hr
  have tok1 := fun (hg' : g ∉ [' ']) r hr => parseTokS_render g r' h4 [' '] hg' hsp2 r hr
  unfold parseIntListS
  cases rs with
  | nil => cases sp <;> simp [join, strip, splitOnS, splitGo, mapM?, parseTokS, containsS, isPre, expand, isort]
  | cons r rs' =>
    rw [strip_goodEnds _ (goodEnds_join _ _ (by simp) (by
      intro t ht; simp only [List.mem_map] at ht; obtain ⟨r, -, rfl⟩ := ht; exact goodEnds_renderS _ r))]
    cases sp with
    | false =>
      simp only [Bool.false_eq_true, if_false]
      rw [splitOnS_join hc d' _ (by simp) (by
        intro t ht; simp only [List.mem_map] at ht; obtain ⟨r, -, rfl⟩ := ht
        exact renderS_no_head hc g r' h1 h3 r)]
      rw [mapM?_map (parseTokS (g :: r')) (renderRangeS (g :: r')) (fun r => rangeIncl r.1 r.2) _
        (fun x hx => by simpa using tok0 x (h x hx))]
      rfl
    | true =>
      have hg' : g ∉ [' '] := by
        have := hsp rfl
        simp only [List.head?_cons, ne_eq, Option.some.injEq] at this
        simpa using this
      simp only [if_true]
      rw [join_spaceS, splitOnS_join hc d' _ (by simp [spaceTail]) (by
        intro t ht
        simp only [List.map_cons, spaceTail, List.mem_cons, List.mem_map] at ht
        rcases ht with rfl | ⟨t', ⟨r'', -, rfl⟩, rfl⟩
        · exact renderS_no_head hc g r' h1 h3 r
        · have := renderS_no_head hc g r' h1 h3 r''
          simp [this, h2])]
      simp only [List.map_cons, spaceTail, mapM?]
      have e1 : parseTokS (g :: r') (renderRangeS (g :: r') r) = some (rangeIncl r.1 r.2) := by
        simpa using tok0 r (h r (by simp))
      rw [e1, List.map_map]
      have := mapM?_map (parseTokS (g :: r')) ((' ' :: ·) ∘ renderRangeS (g :: r')) (fun r => rangeIncl r.1 r.2) rs'
        (fun x hx => by simpa using tok1 hg' x (h x (by simp [hx])))
      rw [this]
      rfl

theorem parse_formatS (d rd : Str) (ok : DelimOKS d rd) (l : List Nat) (sp : Bool)
    (hsp : sp = true → rd.head? ≠ some ' ') :
    parseIntListS (formatIntListS l sp d rd) d rd = some (sortDedup l) := by
  have hc := (runs_isort_spec l).1
  rw [formatS_eq, parse_renderS d rd ok sp hsp _ hc.1, isort_id _ (lt_imp_le_pairwise (expand_sorted _ hc)),
    expand_runs_eq]

/-- with one-character delimiters the string-delimiter functions are the functions of `Model.lean` -/
theorem renderRangeS_single (rd : Char) (r : Nat × Nat) : renderRangeS [rd] r = renderRangeD rd r := by
  simp [renderRangeS, renderRangeD]

theorem formatS_single (d rd : Char) (l : List Nat) (sp : Bool) :
    formatIntListS l sp [d] [rd] = formatIntList l sp d rd := by
  rw [formatS_eq]
  have : (fun r => renderRangeS [rd] r) = renderRangeD rd := funext (renderRangeS_single rd)
  cases sp
  · simp only [Bool.false_eq_true, if_false]; rw [format_eqD]; congr 2
  · simp only [if_true]; rw [format_eq_spaceD]; simp only [List.singleton_append]; congr 2

/-! ## one-character delimiters: the string-delimiter readers are the readers of `Model.lean` -/

theorem splitGo_single (d : Char) (s : Str) (cur : Str) :
    splitGo [d] 0 cur s = match splitOn d s with
      | [] => [cur.reverse]
      | t :: ts => (cur.reverse ++ t) :: ts := by
  induction s generalizing cur with
  | nil => simp [splitGo, splitOn]
  | cons c cs ih =>
    by_cases hc : c = d
    · subst hc
      have hp : isPre [c] (c :: cs) = true := by simp [isPre]
      simp only [splitGo, hp, if_true, List.length_singleton, Nat.sub_self, splitOn]
      rw [ih []]
      have := splitOn_ne_nil c cs
      cases hsp : splitOn c cs with
      | nil => exact absurd hsp this
      | cons t ts => simp
    · have hp : isPre [d] (c :: cs) = false := by simp [isPre, Ne.symm hc]
      simp only [splitGo, hp, Bool.false_eq_true, if_false, splitOn, hc]
      rw [ih (c :: cur)]
      have := splitOn_ne_nil d cs
      cases hsp : splitOn d cs with
      | nil => exact absurd hsp this
      | cons t ts => simp

theorem splitOnS_single (d : Char) (s : Str) : splitOnS [d] s = splitOn d s := by
  unfold splitOnS
  rw [splitGo_single]
  have := splitOn_ne_nil d s
  cases hsp : splitOn d s with
  | nil => exact absurd hsp this
  | cons t ts => simp

theorem containsS_single (d : Char) (s : Str) : containsS [d] s = s.contains d := by
  induction s with
  | nil => simp [containsS, isPre]
  | cons c cs ih =>
    simp only [containsS, ih, isPre, Bool.and_true, List.contains_cons]
    by_cases hc : d = c
    · subst hc; simp
    · have hc' : ¬ (c = d) := fun e => hc e.symm
      simp [hc, hc']

theorem parseTokS_single (rd : Char) (t : Str) : parseTokS [rd] t = parseTok rd t := by
  simp only [parseTokS, parseTok, containsS_single, splitOnS_single] <;> rfl

theorem parseS_single (d rd : Char) (s : Str) : parseIntListS s [d] [rd] = parseIntList s d rd := by
  have : parseTokS [rd] = parseTok rd := funext (parseTokS_single rd)
  simp only [parseIntListS, parseIntList, splitOnS_single, this] <;> rfl

end C14
